/-
Helper lemmas for the snapshot clause of C01, part 4: every method of the root filespace of the heap
model against the same method of the value model (`Goat/Model/MemFS.lean`), for the repaired code.

  `RSim h t r v`   the method answered `r = ((h', t'), result)`: dereferenced, that is the value-level
                   answer `v = (tree', result)`, and the footprint is `Tr h t h' t'`
-/
import Goat.Proofs.MemFSHeapOps

set_option linter.unusedSimpArgs false
set_option linter.unusedVariables false

namespace Goat
namespace MemFSHeap

open Path (Name split join reduceAbsPath dotSeg slash)
open FS (Op Result)

/-! ### Look-ups -/

theorem getNodeByPathNodes_deref (h : Heap) : ∀ (segs : List Name) (n : HNode),
    MemFS.getNodeByPathNodes (n.deref h) segs = (getNodeByPathNodes n segs).map (HNode.deref h) := by
  intro segs
  induction segs with
  | nil => intro n; simp [MemFS.getNodeByPathNodes, getNodeByPathNodes]
  | cons s rest ih =>
    intro n
    simp only [MemFS.getNodeByPathNodes, getNodeByPathNodes]
    split
    · exact ih n
    · cases n with
      | file b => simp
      | dir l k =>
        simp only [deref_dir, HKids.find_deref]
        cases k.find s with
        | none => simp
        | some c => simp [ih c]

theorem getNodeByPathNodes_cnt (id : Nat) : ∀ (segs : List Name) (n m : HNode),
    getNodeByPathNodes n segs = some m → m.cnt id ≤ n.cnt id := by
  intro segs
  induction segs with
  | nil => intro n m e; simp [getNodeByPathNodes] at e; subst e; exact Nat.le_refl _
  | cons s rest ih =>
    intro n m e
    simp only [getNodeByPathNodes] at e
    split at e
    · exact ih n m e
    · cases n with
      | file b => simp at e
      | dir l k =>
        simp only at e
        cases hfs : k.find s with
        | none => simp [hfs] at e
        | some c =>
          simp only [hfs] at e
          have := ih c m e
          have := HKids.cnt_find_le k s c id hfs
          rw [cnt_dir]; omegab

theorem getNodeByPath_deref (h : Heap) (t : HNode) (p : Bytes) :
    MemFS.getNodeByPath (t.deref h) p = (getNodeByPath t p).map (HNode.deref h) := by
  unfold MemFS.getNodeByPath getNodeByPath
  split
  · simp
  · exact getNodeByPathNodes_deref h _ t

theorem getNodeByPath_cnt (id : Nat) (t m : HNode) (p : Bytes) (e : getNodeByPath t p = some m) :
    m.cnt id ≤ t.cnt id := by
  unfold getNodeByPath at e
  split at e
  · simp at e; subst e; exact Nat.le_refl _
  · exact getNodeByPathNodes_cnt id _ t m e

theorem getDirByPath_deref (h : Heap) (t : HNode) (p : Bytes) :
    MemFS.getDirByPath (t.deref h) p = (getDirByPath t p).map (fun lk => lk.2.deref h) := by
  unfold MemFS.getDirByPath getDirByPath
  rw [getNodeByPath_deref]
  cases getNodeByPath t p with
  | none => simp
  | some n => cases n <;> simp

theorem getFileByPath_deref (h : Heap) (t : HNode) (p : Bytes) :
    MemFS.getFileByPath (t.deref h) p = (getFileByPath t p).map h.bytes := by
  unfold MemFS.getFileByPath getFileByPath
  split
  · simp
  · rw [getNodeByPathNodes_deref]
    cases getNodeByPathNodes t (split p) with
    | none => simp
    | some n => cases n <;> simp

theorem getFileByPath_cnt (t : HNode) (p : Bytes) (b : BufId) (e : getFileByPath t p = some b) :
    0 < t.cnt b := by
  unfold getFileByPath at e
  split at e
  · simp at e
  · cases hg : getNodeByPathNodes t (split p) with
    | none => simp [hg] at e
    | some n =>
      cases n with
      | dir l k => simp [hg] at e
      | file b' =>
        simp [hg] at e; subst e
        have := getNodeByPathNodes_cnt b' _ t _ hg
        rw [cnt_file] at this; simpa using this

/-! ### Mutating methods -/

/-- dereferenced answer and footprint of a mutating method -/
def RSim (h : Heap) (t : HNode) (r : (Heap × HNode) × Result) (v : Node × Result) : Prop :=
  (r.1.2.deref r.1.1, r.2) = v ∧ Tr h t r.1.1 r.1.2

theorem RSim.same {h : Heap} {t : HNode} (hb : Bound h t) (res : Result) :
    RSim h t ((h, t), res) (t.deref h, res) := ⟨rfl, Tr.refl hb⟩

/-- a caller buffer keeps its content across a transformer of the tree -/
theorem Tr.held_bytes {h h' : Heap} {t t' : HNode} (T : Tr h t h' t') (id : Nat) (hid : id < h.next)
    (h0 : t.cnt id = 0) : h'.bytes id = h.bytes id := (T.frame.same id hid (by simp [h0])).1

theorem writeFile_sim (cfg : Cfg) (hc : cfg.old = false) (h : Heap) (t : HNode) (hb : Bound h t)
    (raw : Bytes) (data : BufId) (hd : data < h.next) (hd0 : t.cnt data = 0) :
    RSim h t (Root.writeFile cfg h t raw data) (MemFS.Root.writeFile (t.deref h) raw (h.bytes data)) := by
  unfold Root.writeFile MemFS.Root.writeFile
  cases reduceAbsPath raw with
  | none => exact RSim.same hb _
  | some p =>
    simp only
    cases MemFS.splitContainsPath p with
    | none => exact RSim.same hb _
    | some dn =>
      obtain ⟨dirPath, name⟩ := dn
      simp only
      obtain ⟨m1, m2⟩ := mkdirs_spec cfg dirPath h t hb
      cases hm : t.mkdirs cfg h dirPath with
      | none => simp only [m1 hm]; exact RSim.same hb _
      | some s1 =>
        obtain ⟨h1, t1⟩ := s1
        obtain ⟨v1, T1⟩ := m2 h1 t1 hm
        simp only [v1]
        obtain ⟨u1, u2⟩ := update_spec _ _ _ (writeIn_spec cfg hc name data (h.bytes data)) dirPath h1 t1
          T1.bound (T1.held_bytes data hd hd0)
        cases hu : t1.update h1 dirPath (Root.writeIn cfg name data) with
        | none => simp only [u1 hu]; exact ⟨rfl, T1⟩
        | some s2 =>
          obtain ⟨h2, t2⟩ := s2
          obtain ⟨v2, T2⟩ := u2 h2 t2 hu
          simp only [v2]
          exact ⟨rfl, T1.trans T2⟩

theorem mkdirAll_sim (cfg : Cfg) (h : Heap) (t : HNode) (hb : Bound h t) (raw : Bytes) :
    RSim h t (Root.mkdirAll cfg h t raw) (MemFS.Root.mkdirAll (t.deref h) raw) := by
  unfold Root.mkdirAll MemFS.Root.mkdirAll
  cases reduceAbsPath raw with
  | none => exact RSim.same hb _
  | some p =>
    simp only
    unfold mkdirAll MemFS.mkdirAll
    cases reduceAbsPath p with
    | none => exact RSim.same hb _
    | some p' =>
      simp only
      by_cases e : p' = []
      · simp only [e, if_true]; exact RSim.same hb _
      · simp only [e, if_false]
        obtain ⟨m1, m2⟩ := mkdirs_spec cfg (split p') h t hb
        cases hm : t.mkdirs cfg h (split p') with
        | none => simp only [m1 hm]; exact RSim.same hb _
        | some s1 =>
          obtain ⟨h1, t1⟩ := s1
          obtain ⟨v1, T1⟩ := m2 h1 t1 hm
          simp only [v1]
          exact ⟨rfl, T1⟩

theorem removeNodeByPath_spec (h : Heap) (t : HNode) (hb : Bound h t) (p : Bytes) (eo : Bool) :
    NSpec h t (removeNodeByPath h t p eo) (MemFS.removeNodeByPath (t.deref h) p eo) := by
  unfold removeNodeByPath MemFS.removeNodeByPath
  simp only
  cases (split p).getLast? with
  | none => exact ⟨fun _ => rfl, fun h' n' e => by simp at e⟩
  | some last =>
    simp only
    exact update_spec _ _ _ (removeIn_spec last eo) _ h t hb trivial

theorem remove_sim (h : Heap) (t : HNode) (hb : Bound h t) (raw : Bytes) :
    RSim h t (Root.remove h t raw) (MemFS.Root.remove (t.deref h) raw) := by
  unfold Root.remove MemFS.Root.remove
  cases reduceAbsPath raw with
  | none => exact RSim.same hb _
  | some p =>
    simp only
    obtain ⟨m1, m2⟩ := removeNodeByPath_spec h t hb p true
    cases hm : removeNodeByPath h t p true with
    | none => simp only [m1 hm]; exact RSim.same hb _
    | some s1 =>
      obtain ⟨h1, t1⟩ := s1
      obtain ⟨v1, T1⟩ := m2 h1 t1 hm
      simp only [v1]
      exact ⟨rfl, T1⟩

theorem removeAll_sim (h : Heap) (t : HNode) (hb : Bound h t) (raw : Bytes) :
    RSim h t (Root.removeAll h t raw) (MemFS.Root.removeAll (t.deref h) raw) := by
  unfold Root.removeAll MemFS.Root.removeAll
  cases reduceAbsPath raw with
  | none => exact RSim.same hb _
  | some p =>
    simp only
    obtain ⟨m1, m2⟩ := removeNodeByPath_spec h t hb p false
    cases hm : removeNodeByPath h t p false with
    | none => simp only [m1 hm]; exact RSim.same hb _
    | some s1 =>
      obtain ⟨h1, t1⟩ := s1
      obtain ⟨v1, T1⟩ := m2 h1 t1 hm
      simp only [v1]
      exact ⟨rfl, T1⟩

theorem copyWith_sim (cfg : Cfg) (acc : HNode → Bool) (accV : Node → Bool)
    (hacc : ∀ (h : Heap) (n : HNode), accV (n.deref h) = acc n)
    (h : Heap) (t : HNode) (hb : Bound h t) (rs rd : Bytes) :
    RSim h t (Root.copyWith cfg acc h t rs rd) (MemFS.Root.copyWith accV (t.deref h) rs rd) := by
  unfold Root.copyWith MemFS.Root.copyWith
  cases reduceAbsPath rs with
  | none => exact RSim.same hb _
  | some src =>
    simp only
    cases reduceAbsPath rd with
    | none => exact RSim.same hb _
    | some dst =>
      simp only
      cases MemFS.splitContainsPath dst with
      | none => exact RSim.same hb _
      | some dn =>
        obtain ⟨dirPath, name⟩ := dn
        simp only [getNodeByPath_deref]
        cases hg0 : getNodeByPath t src with
        | none => exact RSim.same hb _
        | some src0 =>
          simp only [Option.map_some, hacc]
          by_cases ha : acc src0 = true
          · simp only [ha, not_true_eq_false, if_false]
            obtain ⟨m1, m2⟩ := mkdirs_spec cfg dirPath h t hb
            cases hm : t.mkdirs cfg h dirPath with
            | none => simp only [m1 hm]; exact RSim.same hb _
            | some s1 =>
              obtain ⟨h1, t1⟩ := s1
              obtain ⟨v1, T1⟩ := m2 h1 t1 hm
              simp only [v1, getNodeByPath_deref]
              cases hg1 : getNodeByPath t1 src with
              | none => exact ⟨rfl, T1⟩
              | some srcNode =>
                simp only [Option.map_some]
                have hall : ∀ id : Nat, 0 < srcNode.cnt id → id < h1.next := fun id hid =>
                  T1.bound.lt id (Nat.lt_of_lt_of_le hid (getNodeByPath_cnt id t1 srcNode src hg1))
                obtain ⟨u1, u2⟩ := update_spec _ _ _ (copyIn_spec cfg name srcNode (srcNode.deref h1))
                  dirPath h1 t1 T1.bound ⟨hall, rfl⟩
                change RSim h t _ (match (t1.deref h1).update dirPath (addV name (srcNode.deref h1)) with
                  | none => (t1.deref h1, Result.err)
                  | some t2 => (t2, Result.ok))
                cases hu : t1.update h1 dirPath (copyIn cfg name srcNode) with
                | none => simp only [u1 hu]; exact ⟨rfl, T1⟩
                | some s2 =>
                  obtain ⟨h2, t2⟩ := s2
                  obtain ⟨v2, T2⟩ := u2 h2 t2 hu
                  simp only [v2]
                  exact ⟨rfl, T1.trans T2⟩
          · simp only [ha, not_false_eq_true, if_true]
            exact RSim.same hb _

theorem openWriter_sim (cfg : Cfg) (h : Heap) (t : HNode) (hb : Bound h t) (raw : Bytes) :
    ((Root.openWriter cfg h t raw).1.2.deref (Root.openWriter cfg h t raw).1.1, (Root.openWriter cfg h t raw).2)
      = MemFS.Root.openWriter (t.deref h) raw
    ∧ Tr h t (Root.openWriter cfg h t raw).1.1 (Root.openWriter cfg h t raw).1.2 := by
  unfold Root.openWriter MemFS.Root.openWriter
  cases reduceAbsPath raw with
  | none => exact ⟨rfl, Tr.refl hb⟩
  | some p =>
    simp only
    cases MemFS.splitContainsPath p with
    | none => exact ⟨rfl, Tr.refl hb⟩
    | some dn =>
      obtain ⟨dirPath, name⟩ := dn
      simp only
      obtain ⟨m1, m2⟩ := mkdirs_spec cfg dirPath h t hb
      cases hm : t.mkdirs cfg h dirPath with
      | none => simp only [m1 hm]; exact ⟨by first | rfl | trivial, Tr.refl hb⟩
      | some s1 =>
        obtain ⟨h1, t1⟩ := s1
        obtain ⟨v1, T1⟩ := m2 h1 t1 hm
        simp only [v1]
        obtain ⟨u1, u2⟩ := update_spec _ _ _ (openIn_spec cfg name) dirPath h1 t1 T1.bound trivial
        cases hu : t1.update h1 dirPath (Root.openIn cfg name) with
        | none => simp only [u1 hu]; exact ⟨by first | rfl | trivial, T1⟩
        | some s2 =>
          obtain ⟨h2, t2⟩ := s2
          obtain ⟨v2, T2⟩ := u2 h2 t2 hu
          simp only [v2]
          exact ⟨by first | rfl | trivial, T1.trans T2⟩

theorem writeChunks_spec (cfg : Cfg) (dir : List Name) (name : Name) : ∀ (chunks : List BufId) (h : Heap)
    (t : HNode), Bound h t → (∀ c ∈ chunks, c < h.next ∧ t.cnt c = 0) →
    NSpec h t (Root.writeChunks cfg h t dir name chunks)
      (MemFS.Root.writeChunks (t.deref h) dir name (chunks.map h.bytes)) := by
  intro chunks
  induction chunks with
  | nil =>
    intro h t hb _
    simp only [Root.writeChunks, MemFS.Root.writeChunks, List.map_nil]
    exact ⟨fun e => by simp at e, fun h' n' e => by
      simp at e; obtain ⟨rfl, rfl⟩ := e; exact ⟨rfl, Tr.refl hb⟩⟩
  | cons c cs ih =>
    intro h t hb hc
    simp only [Root.writeChunks, MemFS.Root.writeChunks, List.map_cons, handleWrite_eq]
    obtain ⟨u1, u2⟩ := update_spec _ _ _ (writeChunkIn_spec cfg name c (h.bytes c)) dir h t hb rfl
    cases hu : t.update h dir (Root.writeChunkIn cfg name c) with
    | none => simp only [u1 hu]; exact ⟨fun _ => rfl, fun h' n' e => by simp at e⟩
    | some s1 =>
      obtain ⟨h1, t1⟩ := s1
      obtain ⟨v1, T1⟩ := u2 h1 t1 hu
      simp only [v1]
      have hcs : ∀ c' ∈ cs, c' < h1.next ∧ t1.cnt c' = 0 := fun c' hc' => by
        obtain ⟨a, b⟩ := hc c' (List.mem_cons_of_mem _ hc')
        have := T1.mono c' a
        have := T1.frame.next_le
        exact ⟨by omegab, by omegab⟩
      have hmap : cs.map h.bytes = cs.map h1.bytes := List.map_congr_left (fun c' hc' => by
        obtain ⟨a, b⟩ := hc c' (List.mem_cons_of_mem _ hc')
        exact (T1.held_bytes c' a b).symm)
      obtain ⟨i1, i2⟩ := ih h1 t1 T1.bound hcs
      rw [hmap]
      exact ⟨i1, fun h' n' e => by obtain ⟨v, T⟩ := i2 h' n' e; exact ⟨v, T1.trans T⟩⟩

theorem writer_sim (cfg : Cfg) (h : Heap) (t : HNode) (hb : Bound h t) (raw : Bytes) (chunks : List BufId)
    (hc : ∀ c ∈ chunks, c < h.next ∧ t.cnt c = 0) :
    RSim h t (Root.writer cfg h t raw chunks) (MemFS.Root.writer (t.deref h) raw (chunks.map h.bytes)) := by
  obtain ⟨E, T1⟩ := openWriter_sim cfg h t hb raw
  unfold Root.writer MemFS.Root.writer
  rw [← E]
  generalize Root.openWriter cfg h t raw = ow at T1 ⊢
  obtain ⟨⟨h1, t1⟩, o⟩ := ow
  cases o with
  | none => exact ⟨rfl, T1⟩
  | some dn =>
    obtain ⟨dir, name⟩ := dn
    simp only at T1 ⊢
    have hcs : ∀ c' ∈ chunks, c' < h1.next ∧ t1.cnt c' = 0 := fun c' hc' => by
      obtain ⟨a, b⟩ := hc c' hc'
      have := T1.mono c' a
      have := T1.frame.next_le
      exact ⟨by omegab, by omegab⟩
    have hmap : chunks.map h.bytes = chunks.map h1.bytes := List.map_congr_left (fun c' hc' => by
      obtain ⟨a, b⟩ := hc c' hc'
      exact (T1.held_bytes c' a b).symm)
    obtain ⟨w1, w2⟩ := writeChunks_spec cfg dir name chunks h1 t1 T1.bound hcs
    rw [hmap]
    cases hw : Root.writeChunks cfg h1 t1 dir name chunks with
    | none => simp only [w1 hw]; exact ⟨rfl, T1⟩
    | some s2 =>
      obtain ⟨h2, t2⟩ := s2
      obtain ⟨v2, T2⟩ := w2 h2 t2 hw
      simp only [v2]
      exact ⟨rfl, T1.trans T2⟩

/-! ### Queries -/

/-- answer of a query: the value-level result, nothing overwritten, fresh handles only -/
def QSim (h : Heap) (r : Heap × HRes) (v : Result) : Prop :=
  r.2.res = v ∧ Frame (fun _ => False) h r.1 ∧ (∀ id ∈ r.2.out, h.next ≤ id ∧ id < r.1.next) ∧ r.2.out.Nodup

theorem QSim.err (h : Heap) : QSim h (h, { res := .err }) .err :=
  ⟨rfl, Frame.refl _ _, fun id hid => by simp at hid, by simp⟩

/-- an untouched tree under a heap that only grew -/
theorem Tr.of_frame {h h' : Heap} {t : HNode} (hb : Bound h t) (F : Frame (fun _ => False) h h') : Tr h t h' t :=
  ⟨F.weaken (fun _ _ x => x.elim), fun _ _ => Nat.le_refl _, hb.mono F.next_le⟩

theorem deref_of_frame {h h' : Heap} {t : HNode} (hb : Bound h t) (F : Frame (fun _ => False) h h') :
    t.deref h' = t.deref h :=
  deref_congr h h' t (fun id hid => (F.same id (hb.lt id hid) (fun f => f)).1)

theorem readDir_sim (cfg : Cfg) (hc : cfg.old = false) (h : Heap) (t : HNode) (raw : Bytes) :
    QSim h (Root.readDir cfg h t raw) (MemFS.Root.readDir (t.deref h) raw) := by
  unfold Root.readDir MemFS.Root.readDir
  cases reduceAbsPath raw with
  | none => exact QSim.err h
  | some p =>
    simp only [getDirByPath_deref]
    cases getDirByPath t p with
    | none => exact QSim.err h
    | some lk =>
      obtain ⟨l, k⟩ := lk
      simp only [Option.map_some, hc, Bool.false_eq_true, if_false, HKids.entries_deref]
      exact ⟨rfl, frame_allocL h _, fun id hid => by simp at hid; subst hid; simp, by simp⟩

theorem readFile_sim (cfg : Cfg) (hc : cfg.old = false) (h : Heap) (t : HNode) (raw : Bytes) :
    QSim h (Root.readFile cfg h t raw) (MemFS.Root.readFile (t.deref h) raw) := by
  unfold Root.readFile MemFS.Root.readFile
  cases reduceAbsPath raw with
  | none => exact QSim.err h
  | some p =>
    simp only [getFileByPath_deref]
    cases getFileByPath t p with
    | none => exact QSim.err h
    | some b =>
      simp only [Option.map_some, handOut, hc, Bool.false_eq_true, if_false, Heap.copyB]
      exact ⟨by simp, frame_allocB h _, fun id hid => by simp at hid; subst hid; simp, by simp⟩

theorem allocAll_spec : ∀ (ds : List Bytes) (h : Heap),
    Frame (fun _ => False) h (h.allocAll ds).1
    ∧ (∀ id ∈ (h.allocAll ds).2, h.next ≤ id ∧ id < (h.allocAll ds).1.next)
    ∧ (h.allocAll ds).2.Nodup := by
  intro ds
  induction ds with
  | nil => intro h; exact ⟨Frame.refl _ _, fun id hid => by simp [Heap.allocAll] at hid, by simp [Heap.allocAll]⟩
  | cons d ds ih =>
    intro h
    obtain ⟨F, O, N⟩ := ih (h.allocB d).1
    simp only [Heap.allocAll]
    have := F.next_le
    simp only [allocB_next] at this
    refine ⟨(frame_allocB h d).trans F (fun _ _ x => x), fun id hid => ?_, ?_⟩
    · simp only [allocB_id, List.mem_cons] at hid
      rcases hid with rfl | hid
      · omegab
      · have := O id hid; simp only [allocB_next] at this; omegab
    · simp only [allocB_id, List.nodup_cons]
      exact ⟨fun hm => by have := O _ hm; simp only [allocB_next] at this; omegab, N⟩

theorem reader_sim (h : Heap) (t : HNode) (raw : Bytes) (sizes : List Nat) :
    QSim h (Root.reader h t raw sizes) (MemFS.Root.reader (t.deref h) raw sizes) := by
  unfold Root.reader MemFS.Root.reader
  cases reduceAbsPath raw with
  | none => exact QSim.err h
  | some p =>
    simp only [getFileByPath_deref]
    cases getFileByPath t p with
    | none => exact QSim.err h
    | some b =>
      simp only [Option.map_some]
      obtain ⟨F, O, N⟩ := allocAll_spec ((MemFS.readLoop (h.bytes b) 0 sizes).map (·.1)) h
      exact ⟨rfl, F, O, N⟩

theorem isExist_sim (h : Heap) (t : HNode) (raw : Bytes) :
    Root.isExist t raw = MemFS.Root.isExist (t.deref h) raw := by
  unfold Root.isExist MemFS.Root.isExist
  cases reduceAbsPath raw with
  | none => rfl
  | some p => simp [getNodeByPath_deref]

theorem isFile_sim (h : Heap) (t : HNode) (raw : Bytes) :
    Root.isFile t raw = MemFS.Root.isFile (t.deref h) raw := by
  unfold Root.isFile MemFS.Root.isFile
  cases reduceAbsPath raw with
  | none => rfl
  | some p => simp [getFileByPath_deref]

theorem isDir_sim (h : Heap) (t : HNode) (raw : Bytes) :
    Root.isDir t raw = MemFS.Root.isDir (t.deref h) raw := by
  unfold Root.isDir MemFS.Root.isDir
  cases reduceAbsPath raw with
  | none => rfl
  | some p => simp [getDirByPath_deref]

theorem lstat_sim (h : Heap) (t : HNode) (raw : Bytes) :
    Root.lstat h t raw = MemFS.Root.lstat (t.deref h) raw := by
  unfold Root.lstat MemFS.Root.lstat
  cases reduceAbsPath raw with
  | none => rfl
  | some p =>
    simp only [getNodeByPath_deref]
    cases getNodeByPath t p with
    | none => rfl
    | some n => cases n <;> simp

end MemFSHeap
end Goat
