/-
Helper lemmas for the snapshot clause of C01, part 6: the world.

  `Sep w`        the separation invariant; `sep_init`, `sep_step`, `sep_run`
  `deref w`      the value-level world of `Goat/Model/MemFS.lean`; `sim_step`, `sim_run`
  `held_view_step`, `handed_out_stable`, `handed_in_stable_model`, `nodes_share_nothing`
-/
import Goat.Proofs.MemFSHeapStep
import Goat.Proofs.MemFSRun

set_option linter.unusedSimpArgs false
set_option linter.unusedVariables false

namespace Goat
namespace MemFSHeap

open Path (Name split join reduceAbsPath dotSeg slash)
open FS (Op Result)
open MemFS (FSRef World)

/-! ### The separation invariant -/

/-- SEPARATION: nothing the caller holds is reachable from the tree, no object is reachable from two
positions of the tree, everything reachable or held is allocated, and the caller's handles refer to
pairwise different objects. -/
structure Sep (w : HWorld) : Prop where
  disjoint : ∀ hd ∈ w.held, hd.id ∉ w.root.ids
  nodup : w.root.ids.Nodup
  alloc : ∀ id ∈ w.root.ids, id < w.heap.next
  heldAlloc : ∀ hd ∈ w.held, hd.id < w.heap.next
  heldNodup : (w.held.map Handle.id).Nodup

theorem bound_iff (h : Heap) (n : HNode) : Bound h n ↔ n.ids.Nodup ∧ ∀ id ∈ n.ids, id < h.next := by
  constructor
  · intro b
    refine ⟨List.nodup_iff_count.mpr (fun a => b.le_one a), fun id hid => b.lt id (List.count_pos_iff.mpr hid)⟩
  · intro ⟨nd, al⟩ id
    have h1 := List.nodup_iff_count.mp nd id
    by_cases hid : id < h.next
    · simp only [hid, if_true]; exact h1
    · simp only [hid, if_false]
      have : id ∉ n.ids := fun hm => hid (al id hm)
      simp [HNode.cnt, List.count_eq_zero.mpr this]

theorem Sep.bound {w : HWorld} (s : Sep w) : Bound w.heap w.root := (bound_iff _ _).mpr ⟨s.nodup, s.alloc⟩

theorem Sep.held_zero {w : HWorld} (s : Sep w) (hd : Handle) (hh : hd ∈ w.held) : w.root.cnt hd.id = 0 :=
  List.count_eq_zero.mpr (s.disjoint hd hh)

theorem sep_init : Sep HWorld.init := by
  refine ⟨fun hd hh => by simp [HWorld.init] at hh, by simp [HWorld.init], fun id hid => ?_,
    fun hd hh => by simp [HWorld.init] at hh, by simp [HWorld.init]⟩
  simp [HWorld.init] at hid; subst hid; simp [HWorld.init, Heap.allocL, Heap.empty]

theorem outHandles_ids (c : HCall) (r : HRes) : (outHandles c r).map Handle.id = r.out := by
  cases c <;> simp [outHandles, List.map_map, Function.comp_def, Handle.id]

/-- the world after a call that the heap model accepted -/
theorem step_call (cfg : Cfg) (w : HWorld) (n : Nat) (c : HCall) (ref : FSRef) (hv : w.views[n]? = some ref)
    (ha : c.args.all (fun id => Handle.buf id ∈ w.held) = true) :
    w.step cfg (.call n c) =
      ({ heap := (callOn cfg ref w.heap w.root c).1.1, root := (callOn cfg ref w.heap w.root c).1.2,
         views := viewsAfter w.views ref c,
         held := outHandles c (callOn cfg ref w.heap w.root c).2 ++ w.held },
       (callOn cfg ref w.heap w.root c).2) := by
  simp only [HWorld.step, hv, ha, if_true]

theorem args_ok {w : HWorld} (s : Sep w) (c : HCall)
    (ha : c.args.all (fun id => Handle.buf id ∈ w.held) = true) :
    ∀ id ∈ c.args, id < w.heap.next ∧ w.root.cnt id = 0 := by
  intro id hid
  have := List.all_eq_true.mp ha id hid
  simp only [decide_eq_true_eq] at this
  exact ⟨s.heldAlloc _ this, s.held_zero _ this⟩

theorem sep_step (cfg : Cfg) (hc : cfg.old = false) (w : HWorld) (s : Sep w) (op : HOp) :
    Sep (w.step cfg op).1 := by
  cases op with
  | alloc d =>
    simp only [HWorld.step]
    refine ⟨fun hd hh => ?_, s.nodup, fun id hid => ?_, fun hd hh => ?_, ?_⟩
    · simp only [List.mem_cons] at hh
      rcases hh with rfl | hh
      · intro hm; have := s.alloc _ hm; simp [Handle.id] at this
      · exact s.disjoint hd hh
    · have := s.alloc id hid; simp only [allocB_next]; omegab
    · simp only [List.mem_cons] at hh
      rcases hh with rfl | hh
      · simp [Handle.id]
      · have := s.heldAlloc hd hh; simp only [allocB_next]; omegab
    · simp only [List.map_cons, List.nodup_cons, allocB_id, Handle.id]
      refine ⟨fun hm => ?_, s.heldNodup⟩
      obtain ⟨hd, hh, e⟩ := List.mem_map.mp hm
      have := s.heldAlloc hd hh; omegab
  | mutate hd i b =>
    simp only [HWorld.step]
    split
    · split
      · next h' e =>
        have hn : h'.next = w.heap.next := by
          unfold mutateHandle at e
          cases hd with
          | buf id => simp only at e; split at e <;> simp at e; subst e; rfl
          | listing id len =>
            simp only at e
            split at e
            · split at e <;> simp at e; subst e; rfl
            · simp at e
        exact ⟨s.disjoint, s.nodup, fun id hid => by simp only [hn]; exact s.alloc id hid,
          fun hd hh => by simp only [hn]; exact s.heldAlloc hd hh, s.heldNodup⟩
      · exact s
    · exact s
  | keep hd => exact s
  | recheck hd => exact s
  | call n c =>
    cases hv : w.views[n]? with
    | none => simp only [HWorld.step, hv]; exact s
    | some ref =>
      by_cases ha : c.args.all (fun id => Handle.buf id ∈ w.held) = true
      · rw [step_call cfg w n c ref hv ha]
        obtain ⟨_, T, O, N⟩ := callOn_sim cfg hc ref w.heap w.root s.bound c (args_ok s c ha)
        have B := (bound_iff _ _).mp T.bound
        have hle := T.frame.next_le
        refine ⟨fun hd hh => ?_, B.1, B.2, fun hd hh => ?_, ?_⟩
        · simp only [List.mem_append] at hh
          rcases hh with hh | hh
          · have : hd.id ∈ (callOn cfg ref w.heap w.root c).2.out := by
              rw [← outHandles_ids c]; exact List.mem_map_of_mem hh
            exact List.count_eq_zero.mp (O _ this).2.2
          · have h0 := s.held_zero hd hh
            have hm := T.mono hd.id (s.heldAlloc hd hh)
            rw [h0] at hm
            exact List.count_eq_zero.mp (Nat.le_zero.mp hm)
        · simp only [List.mem_append] at hh
          rcases hh with hh | hh
          · have : hd.id ∈ (callOn cfg ref w.heap w.root c).2.out := by
              rw [← outHandles_ids c]; exact List.mem_map_of_mem hh
            exact (O _ this).2.1
          · have := s.heldAlloc hd hh; omegab
        · simp only [List.map_append, outHandles_ids]
          refine List.nodup_append.mpr ⟨N, s.heldNodup, fun a ha b hb e => ?_⟩
          obtain ⟨hd, hh, rfl⟩ := List.mem_map.mp hb
          have := (O a ha).1
          have := s.heldAlloc hd hh
          omegab
      · simp only [HWorld.step, hv, ha]; exact s

theorem run_nil (cfg : Cfg) (w : HWorld) : w.run cfg [] = (w, []) := rfl

theorem run_cons (cfg : Cfg) (w : HWorld) (op : HOp) (rest : List HOp) :
    w.run cfg (op :: rest) = (((w.step cfg op).1.run cfg rest).1, (w.step cfg op).2 :: ((w.step cfg op).1.run cfg rest).2) :=
  rfl

theorem run_append (cfg : Cfg) (w : HWorld) (ops more : List HOp) :
    (w.run cfg (ops ++ more)).1 = ((w.run cfg ops).1.run cfg more).1
    ∧ (w.run cfg (ops ++ more)).2 = (w.run cfg ops).2 ++ ((w.run cfg ops).1.run cfg more).2 := by
  induction ops generalizing w with
  | nil => simp [run_nil]
  | cons op rest ih =>
    simp only [List.cons_append, run_cons]
    have := ih (w.step cfg op).1
    exact ⟨this.1, by rw [this.2]⟩

theorem sep_run (cfg : Cfg) (hc : cfg.old = false) (w : HWorld) (s : Sep w) (ops : List HOp) :
    Sep (w.run cfg ops).1 := by
  induction ops generalizing w with
  | nil => exact s
  | cons op rest ih => rw [run_cons]; exact ih _ (sep_step cfg hc w s op)

end MemFSHeap
end Goat
