/-
Helper lemmas for the snapshot clause of C01, part 7: the heap world simulates the value world, and
what that gives for the buffers and listings the caller holds.
-/
import Goat.Proofs.MemFSHeapRun

set_option linter.unusedSimpArgs false
set_option linter.unusedVariables false

namespace Goat
namespace MemFSHeap

open Path (Name split join reduceAbsPath dotSeg slash)
open FS (Op Result)
open MemFS (FSRef World)

/-- the value-level world: every id replaced by what it contains -/
def deref (w : HWorld) : World := ⟨w.root.deref w.heap, w.views⟩

/-- the value-level call a step is (`none`: a caller-side step, or a call the caller cannot make) -/
def toOp (w : HWorld) : HOp → Option (Nat × Op)
  | .call n c => if c.args.all (fun id => Handle.buf id ∈ w.held) then some (n, c.toOp w.heap) else none
  | _ => none

theorem viewsAfter_eq (views : List FSRef) (ref : FSRef) (c : HCall) (h : Heap) :
    viewsAfter views ref c = MemFS.viewsNext views ref (c.toOp h) := by
  cases c <;> rfl

/-- SIMULATION, one step: a filespace call is the same call of the value model (same tree after
dereferencing, same open handles, same result); any caller-side step leaves the value-level world
untouched. -/
theorem sim_step (cfg : Cfg) (hc : cfg.old = false) (w : HWorld) (s : Sep w) (op : HOp) :
    match toOp w op with
    | none => deref (w.step cfg op).1 = deref w
    | some (n, o) => deref (w.step cfg op).1 = ((deref w).step n o).1
                      ∧ (w.step cfg op).2.res = ((deref w).step n o).2 := by
  cases op with
  | alloc d =>
    simp only [toOp, HWorld.step, deref]
    rw [deref_of_frame s.bound (frame_allocB _ d)]
  | mutate hd i b =>
    simp only [toOp, HWorld.step]
    split
    · next hh =>
      split
      · next h' e =>
        simp only [deref]
        congr 1
        apply deref_congr
        intro id hid
        have h0 := s.held_zero hd hh
        have hne : id ≠ hd.id := fun e' => by subst e'; omegab
        unfold mutateHandle at e
        cases hd with
        | buf id' =>
          simp only at e; split at e <;> simp at e; subst e
          simp only [Handle.id] at hne
          simp [Heap.setB, hne]
        | listing id' len =>
          simp only at e
          split at e
          · split at e <;> simp at e; subst e; rfl
          · simp at e
      · rfl
    · rfl
  | keep hd => simp only [toOp, HWorld.step]
  | recheck hd => simp only [toOp, HWorld.step]
  | call n c =>
    simp only [toOp]
    by_cases ha : c.args.all (fun id => Handle.buf id ∈ w.held) = true
    · simp only [ha, if_true]
      cases hv : w.views[n]? with
      | none =>
        have hv' : (deref w).views[n]? = none := hv
        rw [MemFS.world_step_none (deref w) n _ hv']
        simp only [HWorld.step, hv]
        exact ⟨by first | rfl | trivial, by first | rfl | trivial⟩
      | some ref =>
        have hv' : (deref w).views[n]? = some ref := hv
        rw [MemFS.world_step_some (deref w) n _ ref hv', step_call cfg w n c ref hv ha]
        obtain ⟨E, _, _, _⟩ := callOn_sim cfg hc ref w.heap w.root s.bound c (args_ok s c ha)
        simp only [deref] at E ⊢
        rw [← E]
        exact ⟨by rw [viewsAfter_eq _ _ _ w.heap], rfl⟩
    · simp only [ha, Bool.false_eq_true, if_false]
      cases hv : w.views[n]? with
      | none => simp only [HWorld.step, hv]
      | some ref => simp only [HWorld.step, hv, ha, Bool.false_eq_true, if_false]

/-- the value-level history a heap-level history induces -/
def traceOps (cfg : Cfg) (w : HWorld) : List HOp → List (Nat × Op)
  | [] => []
  | op :: rest => (toOp w op).toList ++ traceOps cfg (w.step cfg op).1 rest

/-- the results of the filespace calls of a history, in order -/
def callResults (cfg : Cfg) (w : HWorld) : List HOp → List Result
  | [] => []
  | op :: rest =>
    (if (toOp w op).isSome then [(w.step cfg op).2.res] else []) ++ callResults cfg (w.step cfg op).1 rest

/-- SIMULATION, all histories -/
theorem sim_run (cfg : Cfg) (hc : cfg.old = false) (w : HWorld) (s : Sep w) (ops : List HOp) :
    deref (w.run cfg ops).1 = ((deref w).run (traceOps cfg w ops)).1
    ∧ callResults cfg w ops = ((deref w).run (traceOps cfg w ops)).2 := by
  induction ops generalizing w with
  | nil => exact ⟨rfl, rfl⟩
  | cons op rest ih =>
    have st := sim_step cfg hc w s op
    have := ih (w.step cfg op).1 (sep_step cfg hc w s op)
    rw [run_cons]
    simp only [traceOps, callResults]
    cases ht : toOp w op with
    | none =>
      simp only [ht] at st
      simp only [Option.toList, List.nil_append, Option.isSome_none, Bool.false_eq_true, if_false]
      rw [← st]; exact this
    | some no =>
      obtain ⟨n, o⟩ := no
      simp only [ht] at st
      simp only [Option.toList, List.singleton_append, Option.isSome_some, if_true, MemFS.run_cons]
      rw [← st.1, ← st.2]
      exact ⟨this.1, by rw [this.2]⟩

/-! ### What the caller sees -/

/-- what one `mutate` of the caller does to what it sees through that handle -/
def mutView (hd : Handle) (v : Result) (i b : Nat) : Result :=
  match hd, v with
  | .buf _, .data d => .data (d.set i (UInt8.ofNat b))
  | .listing _ len, .list l =>
    if i < len then
      match l[b % len]? with
      | some e => .list (l.set i e)
      | none => .list l
    else .list l
  | _, v => v

/-- the caller's own writes through `hd`, and nothing else, applied to what it saw at the start -/
def applyOwn (hd : Handle) : List HOp → Result → Result
  | [], v => v
  | .mutate hd' i b :: rest, v => applyOwn hd rest (if hd' = hd then mutView hd v i b else v)
  | _ :: rest, v => applyOwn hd rest v

theorem eq_of_nodup_map {α β : Type} (f : α → β) : ∀ l : List α, (l.map f).Nodup →
    ∀ a ∈ l, ∀ b ∈ l, f a = f b → a = b := by
  intro l
  induction l with
  | nil => intro _ a ha; simp at ha
  | cons x xs ih =>
    intro nd a ha b hb e
    simp only [List.map_cons, List.nodup_cons] at nd
    simp only [List.mem_cons] at ha hb
    rcases ha with rfl | ha <;> rcases hb with rfl | hb
    · rfl
    · exact absurd (e ▸ List.mem_map_of_mem hb) nd.1
    · exact absurd (e ▸ List.mem_map_of_mem ha) nd.1
    · exact ih nd.2 a ha b hb e

theorem held_mono (cfg : Cfg) (w : HWorld) (op : HOp) (hd : Handle) (hh : hd ∈ w.held) :
    hd ∈ (w.step cfg op).1.held := by
  cases op with
  | alloc d => simp [HWorld.step, hh]
  | mutate hd' i b =>
    simp only [HWorld.step]
    split
    · split <;> exact hh
    · exact hh
  | keep _ => exact hh
  | recheck _ => exact hh
  | call n c =>
    simp only [HWorld.step]
    split
    · exact hh
    · split
      · simp [hh]
      · exact hh

/-- everything a step hands out is held afterwards -/
theorem handed_out_held (cfg : Cfg) (w : HWorld) (n : Nat) (c : HCall) :
    ∀ hd ∈ outHandles c (w.step cfg (.call n c)).2, hd ∈ (w.step cfg (.call n c)).1.held := by
  intro hd hh
  cases hv : w.views[n]? with
  | none => simp only [HWorld.step, hv] at hh; cases c <;> simp [outHandles, noOut] at hh
  | some ref =>
    by_cases ha : c.args.all (fun id => Handle.buf id ∈ w.held) = true
    · rw [step_call cfg w n c ref hv ha] at hh ⊢
      exact List.mem_append_left _ hh
    · simp only [HWorld.step, hv, ha, Bool.false_eq_true, if_false] at hh
      cases c <;> simp [outHandles, noOut] at hh

/-- ONE STEP, seen through a handle the caller holds: a filespace call (any of the 16, through any
view) and any caller step on another handle leave it as it is; the caller's own `mutate` through
this handle changes it as `mutView` says. -/
theorem held_view_step (cfg : Cfg) (hc : cfg.old = false) (w : HWorld) (s : Sep w) (hd : Handle)
    (hh : hd ∈ w.held) (op : HOp) :
    view (w.step cfg op).1.heap hd =
      match op with
      | .mutate hd' i b => if hd' = hd then mutView hd (view w.heap hd) i b else view w.heap hd
      | _ => view w.heap hd := by
  have hlt := s.heldAlloc hd hh
  have viewF : ∀ (S : BufId → Prop) (h' : Heap), Frame S w.heap h' → ¬ S hd.id → view h' hd = view w.heap hd := by
    intro S h' F hn
    have := F.same hd.id hlt hn
    cases hd <;> simp only [view, Handle.id] at this ⊢ <;> simp [this]
  cases op with
  | alloc d => exact viewF _ _ (frame_allocB _ d) (fun f => f)
  | keep _ => rfl
  | recheck _ => rfl
  | call n c =>
    simp only
    cases hv : w.views[n]? with
    | none => simp only [HWorld.step, hv]
    | some ref =>
      by_cases ha : c.args.all (fun id => Handle.buf id ∈ w.held) = true
      · rw [step_call cfg w n c ref hv ha]
        obtain ⟨_, T, _, _⟩ := callOn_sim cfg hc ref w.heap w.root s.bound c (args_ok s c ha)
        exact viewF _ _ T.frame (by simp [s.held_zero hd hh])
      · simp only [HWorld.step, hv, ha, Bool.false_eq_true, if_false]
  | mutate hd' i b =>
    simp only [HWorld.step]
    by_cases hh' : hd' ∈ w.held
    · simp only [hh', if_true]
      by_cases e : hd' = hd
      · subst e
        simp only [if_true]
        unfold mutateHandle mutView
        cases hd' with
        | buf id =>
          simp only [view]
          by_cases hi : i < (w.heap.bytes id).length
          · simp [hi, Heap.setB]
          · simp [hi, List.set_eq_of_length_le (Nat.le_of_not_lt hi)]
        | listing id len =>
          simp only [view]
          by_cases hi : i < len
          · simp only [hi, if_true]
            cases e2 : (List.take len (w.heap.lists id))[b % len]? with
            | none => simp
            | some e => simp [Heap.setL, List.take_set]
          · simp [hi]
      · simp only [e, if_false]
        have hne : hd'.id ≠ hd.id := by
          intro e'
          exact e (eq_of_nodup_map Handle.id w.held s.heldNodup hd' hh' hd hh e')
        split
        · next h' e2 =>
          unfold mutateHandle at e2
          cases hd' with
          | buf id =>
            simp only at e2; split at e2 <;> simp at e2; subst e2
            exact viewF (· = id) _ (frame_setB _ _ _) (fun x => hne (show (Handle.buf id).id = hd.id from x.symm))
          | listing id len =>
            simp only at e2
            split at e2
            · split at e2 <;> simp at e2; subst e2
              exact viewF (· = id) _ (frame_setL _ _ _) (fun x => hne (show (Handle.listing id len).id = hd.id from x.symm))
            · simp at e2
        · rfl
    · simp only [hh', if_false]
      have : hd' ≠ hd := fun e => hh' (e ▸ hh)
      simp [this]

/-- HANDED-OUT (and handed-in) BUFFERS ARE STABLE, all histories: what the caller sees through a
handle it holds, after any further history, is what it saw before with only its own writes through
that handle applied. -/
theorem handed_out_stable (cfg : Cfg) (hc : cfg.old = false) (w : HWorld) (s : Sep w) (hd : Handle)
    (hh : hd ∈ w.held) (ops : List HOp) :
    view (w.run cfg ops).1.heap hd = applyOwn hd ops (view w.heap hd) := by
  induction ops generalizing w with
  | nil => rfl
  | cons op rest ih =>
    rw [run_cons, ih _ (sep_step cfg hc w s op) (held_mono cfg w op hd hh), held_view_step cfg hc w s hd hh op]
    cases op <;> rfl

theorem HKids.entries_length (k : HKids) : k.entries.length = k.length := by
  induction k using HKids.rec (motive_1 := fun _ => True) with
  | file => trivial
  | dir => trivial
  | nil => rfl
  | cons n y r _ ih => simp [HKids.entries, HKids.length, ih]

/-- what `ReadFile` / `ReadDir` hand out shows exactly what they answered -/
theorem handed_out_shows_result (cfg : Cfg) (hc : cfg.old = false) (w : HWorld) (n : Nat) (c : HCall)
    (hq : (∃ p, c = .readFile p) ∨ (∃ p, c = .readDir p)) :
    ∀ hd ∈ outHandles c (w.step cfg (.call n c)).2,
      view (w.step cfg (.call n c)).1.heap hd = (w.step cfg (.call n c)).2.res := by
  intro hd hh
  cases hv : w.views[n]? with
  | none => rcases hq with ⟨p, rfl⟩ | ⟨p, rfl⟩ <;> simp [HWorld.step, hv, outHandles, noOut] at hh
  | some ref =>
    have ha : c.args.all (fun id => Handle.buf id ∈ w.held) = true := by
      rcases hq with ⟨p, rfl⟩ | ⟨p, rfl⟩ <;> simp [HCall.args]
    rw [step_call cfg w n c ref hv ha] at hh ⊢
    simp only at hh ⊢
    rcases hq with ⟨p, rfl⟩ | ⟨p, rfl⟩
    · cases hvia : via ref p with
      | none => simp [callOn, hvia, outHandles, noOut] at hh
      | some p' =>
        cases hr : reduceAbsPath p' with
        | none => simp [callOn, hvia, outHandles, Root.readFile, hr] at hh
        | some q =>
          cases hg : getFileByPath w.root q with
          | none => simp [callOn, hvia, outHandles, Root.readFile, hr, hg] at hh
          | some b =>
            simp only [callOn, hvia, outHandles, Root.readFile, hr, hg, List.map_cons, List.map_nil,
              List.mem_singleton] at hh ⊢
            subst hh; rfl
    · cases hvia : via ref p with
      | none => simp [callOn, hvia, outHandles, noOut] at hh
      | some p' =>
        cases hr : reduceAbsPath p' with
        | none => simp [callOn, hvia, outHandles, Root.readDir, hr] at hh
        | some q =>
          cases hg : getDirByPath w.root q with
          | none => simp [callOn, hvia, outHandles, Root.readDir, hr, hg] at hh
          | some lk =>
            obtain ⟨l, k⟩ := lk
            simp only [callOn, hvia, outHandles, Root.readDir, hr, hg, hc, Bool.false_eq_true, if_false,
              List.map_cons, List.map_nil, List.mem_singleton] at hh ⊢
            subst hh
            simp [view, List.take_of_length_le, HKids.entries_length]

end MemFSHeap
end Goat
