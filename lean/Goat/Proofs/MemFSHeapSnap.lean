/-
Helper lemmas for the snapshot clause of C01, part 8: handed-in buffers, nodes at different positions,
the pre-fix variant.
-/
import Goat.Proofs.MemFSHeapSim
import Goat.Proofs.MemFSCor

set_option linter.unusedSimpArgs false
set_option linter.unusedVariables false

namespace Goat
namespace MemFSHeap

open Path (Name split join reduceAbsPath norm dotSeg slash)
open FS (Op Result)
open MemFS (FSRef World)

/-! ### Handed-in buffers -/

/-- a caller-side step: not a filespace call -/
def HOp.isCaller : HOp → Bool
  | .call .. => false
  | _ => true

theorem caller_step_deref (cfg : Cfg) (hc : cfg.old = false) (w : HWorld) (s : Sep w) (op : HOp)
    (hop : op.isCaller = true) : deref (w.step cfg op).1 = deref w := by
  have := sim_step cfg hc w s op
  cases op with
  | call n c => simp [HOp.isCaller] at hop
  | alloc d => simpa [toOp] using this
  | mutate hd i b => simpa [toOp] using this
  | keep hd => simpa [toOp] using this
  | recheck hd => simpa [toOp] using this

theorem caller_run_deref (cfg : Cfg) (hc : cfg.old = false) (w : HWorld) (s : Sep w) (ops : List HOp)
    (hops : ∀ op ∈ ops, op.isCaller = true) : deref (w.run cfg ops).1 = deref w := by
  induction ops generalizing w with
  | nil => rfl
  | cons op rest ih =>
    rw [run_cons, ih _ (sep_step cfg hc w s op) (fun o ho => hops o (List.mem_cons_of_mem _ ho)),
      caller_step_deref cfg hc w s op (hops op List.mem_cons_self)]

theorem held_run (cfg : Cfg) (w : HWorld) (ops : List HOp) (hd : Handle) (hh : hd ∈ w.held) :
    hd ∈ (w.run cfg ops).1.held := by
  induction ops generalizing w with
  | nil => exact hh
  | cons op rest ih => rw [run_cons]; exact ih _ (held_mono cfg w op hd hh)

/-- HANDED-IN BUFFERS, heap model against value model: after `WriteFile(raw, id)` through handle `n`,
any sequence of caller-side steps (in particular writes into `id`), a `ReadFile(raw)` through the same
handle answers what the value model's `ReadFile` answers after its `WriteFile` of the bytes `id` held
*at the time of the call*. -/
theorem handed_in_stable_model (cfg : Cfg) (hc : cfg.old = false) (w : HWorld) (s : Sep w) (n : Nat)
    (raw : Bytes) (id : BufId) (hh : Handle.buf id ∈ w.held) (muts : List HOp)
    (hm : ∀ op ∈ muts, op.isCaller = true) :
    ((((w.step cfg (.call n (.writeFile raw id))).1.run cfg muts).1.step cfg (.call n (.readFile raw))).2.res
      = (((deref w).step n (.writeFile raw (w.heap.bytes id))).1.step n (.readFile raw)).2)
    ∧ (w.step cfg (.call n (.writeFile raw id))).2.res = ((deref w).step n (.writeFile raw (w.heap.bytes id))).2 := by
  have s1 := sep_step cfg hc w s (.call n (.writeFile raw id))
  have s2 := sep_run cfg hc _ s1 muts
  have a := sim_step cfg hc w s (.call n (.writeFile raw id))
  have ha : (HCall.writeFile raw id).args.all (fun x => decide (Handle.buf x ∈ w.held)) = true := by
    simp [HCall.args, hh]
  simp only [toOp, ha, if_true, HCall.toOp] at a
  have b := caller_run_deref cfg hc _ s1 muts hm
  have c := sim_step cfg hc _ s2 (.call n (.readFile raw))
  simp only [toOp, HCall.args, List.all_nil, if_true, HCall.toOp] at c
  rw [c.2, b, a.1]
  exact ⟨rfl, a.2⟩

/-- value model: what a successful `WriteFile` stored is what `ReadFile` of the same path through the
same handle returns -/
theorem value_read_after_write (w : World) (hw : MemFS.WorldOK w) (n : Nat) (raw data : Bytes)
    (hok : (w.step n (.writeFile raw data)).2 = .ok) :
    ((w.step n (.writeFile raw data)).1.step n (.readFile raw)).2 = .data data := by
  cases hv : w.views[n]? with
  | none => rw [MemFS.world_step_none w n _ hv] at hok; simp at hok
  | some ref =>
    have hg := hw.views ref (List.mem_of_getElem? hv)
    obtain ⟨_, hw1, _, _, _⟩ := MemFS.world_step_ok w hw n (.writeFile raw data) ref hv
    rw [MemFS.world_step_some w n _ ref hv] at hok hw1 ⊢
    simp only [MemFS.viewsNext] at hw1 ⊢
    rw [MemFS.world_step_some ⟨(MemFS.step ref w.root (.writeFile raw data)).1, w.views⟩ n (.readFile raw) ref hv]
    simp only
    cases hn : norm raw with
    | none =>
      have := (MemFS.climbing_refused ref _ hg w.root hw.inv raw data hn).1
      rw [this] at hok; simp at hok
    | some p =>
      apply MemFS.readFile_agrees ref _ hg _ hw1.inv raw p hn
      rw [MemFS.write_post ref _ hg w.root hw.inv raw data p hn hok]
      exact MemFS.writeSt_at _ _ _

/-! ### Nodes at different positions share nothing -/

theorem lookup_cnt (id : Nat) : ∀ (p : List Name) (n m : HNode), n.lookup p = some m → m.cnt id ≤ n.cnt id := by
  intro p
  induction p with
  | nil => intro n m e; simp [HNode.lookup] at e; subst e; exact Nat.le_refl _
  | cons s rest ih =>
    intro n m e
    cases n with
    | file b => simp [HNode.lookup] at e
    | dir l k =>
      simp only [HNode.lookup] at e
      cases hfs : k.find s with
      | none => simp [hfs] at e
      | some c =>
        simp only [hfs] at e
        have := ih c m e
        have := HKids.cnt_find_le k s c id hfs
        rw [cnt_dir]; omegab

theorem cnt_find_two (k : HKids) (s s' : Name) (c c' : HNode) (id : Nat) (hne : s ≠ s')
    (h1 : k.find s = some c) (h2 : k.find s' = some c') : c.cnt id + c'.cnt id ≤ k.cnt id := by
  induction k using HKids.rec (motive_1 := fun _ => True) with
  | file => trivial
  | dir => trivial
  | nil => simp [HKids.find] at h1
  | cons n y r _ ih =>
    simp only [HKids.find] at h1 h2
    rw [cnt_cons]
    by_cases e1 : n = s
    · have e2 : ¬ n = s' := fun e => hne (e1 ▸ e)
      simp only [e1, if_true] at h1
      simp only [e2, if_false] at h2
      cases h1
      have := HKids.cnt_find_le r s' c' id h2
      omegab
    · simp only [e1, if_false] at h1
      by_cases e2 : n = s'
      · simp only [e2, if_true] at h2
        cases h2
        have := HKids.cnt_find_le r s c id h1
        omegab
      · simp only [e2, if_false] at h2
        have := ih h1 h2
        omegab

/-- in a tree whose objects are pairwise different, the nodes standing at two paths neither of which
is a prefix of the other have no object in common -/
theorem incomparable_disjoint : ∀ (p q : List Name) (n a b : HNode), (∀ id : Nat, n.cnt id ≤ 1) →
    n.lookup p = some a → n.lookup q = some b → ¬ p <+: q → ¬ q <+: p → ∀ id : Nat, a.cnt id + b.cnt id ≤ 1 := by
  intro p
  induction p with
  | nil => intro q n a b _ _ _ h1; exact absurd (List.nil_prefix) h1
  | cons s p' ih =>
    intro q n a b hn ha hb h1 h2 id
    cases q with
    | nil => exact absurd (List.nil_prefix) h2
    | cons s' q' =>
      cases n with
      | file x => simp [HNode.lookup] at ha
      | dir l k =>
        simp only [HNode.lookup] at ha hb
        cases hf1 : k.find s with
        | none => simp [hf1] at ha
        | some c =>
          cases hf2 : k.find s' with
          | none => simp [hf2] at hb
          | some c' =>
            simp only [hf1, hf2] at ha hb
            have hk : ∀ id : Nat, k.cnt id ≤ 1 := fun id => by have := hn id; rw [cnt_dir] at this; omegab
            by_cases e : s = s'
            · subst e
              rw [hf1] at hf2; cases hf2
              exact ih q' c a b (fun id => Nat.le_trans (HKids.cnt_find_le k s c id hf1) (hk id)) ha hb
                (fun h => h1 (List.cons_prefix_cons.mpr ⟨rfl, h⟩))
                (fun h => h2 (List.cons_prefix_cons.mpr ⟨rfl, h⟩)) id
            · have := cnt_find_two k s s' c c' id e hf1 hf2
              have := lookup_cnt id p' c a ha
              have := lookup_cnt id q' c' b hb
              have := hk id
              omegab

theorem nodes_share_nothing (w : HWorld) (s : Sep w) (p q : List Name) (a b : HNode)
    (ha : w.root.lookup p = some a) (hb : w.root.lookup q = some b) (h1 : ¬ p <+: q) (h2 : ¬ q <+: p) :
    ∀ id ∈ a.ids, id ∉ b.ids := by
  intro id hia hib
  have := incomparable_disjoint p q w.root a b (fun id => s.bound.le_one id) ha hb h1 h2 id
  have x : 0 < a.cnt id := List.count_pos_iff.mpr hia
  have y : 0 < b.cnt id := List.count_pos_iff.mpr hib
  omegab

theorem incomparable_append {α : Type} (s d r1 r2 : List α) (h1 : ¬ s <+: d) (h2 : ¬ d <+: s) :
    ¬ (s ++ r1) <+: (d ++ r2) := by
  intro h
  have a : s <+: d ++ r2 := List.IsPrefix.trans (List.prefix_append s r1) h
  have b : d <+: d ++ r2 := List.prefix_append d r2
  rcases List.prefix_or_prefix_of_prefix a b with x | x
  · exact h1 x
  · exact h2 x

theorem deref_init : deref HWorld.init = World.init := by
  simp [deref, HWorld.init, World.init, Node.empty]

theorem worldOK_deref_run (cfg : Cfg) (hc : cfg.old = false) (ops : List HOp) :
    MemFS.WorldOK (deref (HWorld.init.run cfg ops).1) := by
  rw [(sim_run cfg hc _ sep_init ops).1, deref_init]
  exact (MemFS.run_refines_from World.init MemFS.worldOK_init _).2

/-- HANDED-IN BUFFERS, all histories from the empty filespace -/
theorem handed_in_stable_init (cfg : Cfg) (hc : cfg.old = false) (pre : List HOp) (n : Nat) (raw : Bytes)
    (id : BufId) (hh : Handle.buf id ∈ (HWorld.init.run cfg pre).1.held) (muts : List HOp)
    (hm : ∀ op ∈ muts, op.isCaller = true)
    (hok : ((HWorld.init.run cfg pre).1.step cfg (.call n (.writeFile raw id))).2.res = .ok) :
    ((((HWorld.init.run cfg pre).1.step cfg (.call n (.writeFile raw id))).1.run cfg muts).1.step cfg
        (.call n (.readFile raw))).2.res
      = .data ((HWorld.init.run cfg pre).1.heap.bytes id) := by
  have s := sep_run cfg hc _ sep_init pre
  obtain ⟨a, b⟩ := handed_in_stable_model cfg hc _ s n raw id hh muts hm
  rw [a]
  exact value_read_after_write _ (worldOK_deref_run cfg hc pre) n raw _ (b ▸ hok)

/-! ### The pre-fix variant -/

/-- `WriteFile("f", buf)` with `buf = "hello"`, `buf[0] = 'X'`, `ReadFile("f")` (the slice handed out is
the node's own: handle `buf 1` again), `out[1] = 'Y'`, `ReadFile("f")` -/
def aliasDataOps : List HOp :=
  [.alloc [104, 101, 108, 108, 111], .call 0 (.writeFile [102] 1), .mutate (.buf 1) 0 88,
   .call 0 (.readFile [102]), .mutate (.buf 1) 1 89, .call 0 (.readFile [102])]

/-- files `a`, `b`, `c`; `ReadDir("")` hands out the directory's own array (object 6, length 3);
`Remove("a")`; what does the listing held by the caller show now -/
def aliasListOps : List HOp :=
  [.alloc [], .call 0 (.writeFile [97] 1), .alloc [], .call 0 (.writeFile [98] 3), .alloc [],
   .call 0 (.writeFile [99] 5), .call 0 (.readDir []), .call 0 (.remove [97]), .recheck (.listing 6 3)]

/-- pre-fix code: the tree follows the caller's writes into a buffer it handed in (`Xello`) and into
a slice it was handed out (`XYllo`); the buffer is reachable from the tree -/
theorem prefix_variant_data :
    (HWorld.init.run Cfg.preFix aliasDataOps).2.map (·.res)
      = [.ok, .ok, .ok, .data [88, 101, 108, 108, 111], .ok, .data [88, 89, 108, 108, 111]]
    ∧ ¬ Sep (HWorld.init.run Cfg.preFix aliasDataOps).1 :=
  ⟨by decide, fun s => s.disjoint (.buf 1) (by decide) (by decide)⟩

/-- pre-fix code: a listing `a b c` the caller holds reads `b c c` after `Remove("a")`; the array is
reachable from the tree -/
theorem prefix_variant_listing :
    (HWorld.init.run Cfg.preFix aliasListOps).2.map (·.res)
      = [.ok, .ok, .ok, .ok, .ok, .ok, .list [([97], false), ([98], false), ([99], false)], .ok,
         .list [([98], false), ([99], false), ([99], false)]]
    ∧ ¬ Sep (HWorld.init.run Cfg.preFix aliasListOps).1 :=
  ⟨by decide, fun s => s.disjoint (.listing 6 3) (by decide) (by decide)⟩

/-- the data history for the repaired code (its copies take ids 2, 4, 5; the array of the root grows
into id 3): the caller writes into the buffer it handed in (1) and into the slice it was handed out (4) -/
def fixedDataOps : List HOp :=
  [.alloc [104, 101, 108, 108, 111], .call 0 (.writeFile [102] 1), .mutate (.buf 1) 0 88,
   .call 0 (.readFile [102]), .mutate (.buf 4) 1 89, .call 0 (.readFile [102]),
   .recheck (.buf 1), .recheck (.buf 4)]

/-- the listing history for the repaired code: `ReadDir("")` hands out the fresh array 10 -/
def fixedListOps : List HOp :=
  [.alloc [], .call 0 (.writeFile [97] 1), .alloc [], .call 0 (.writeFile [98] 4), .alloc [],
   .call 0 (.writeFile [99] 7), .call 0 (.readDir []), .call 0 (.remove [97]), .recheck (.listing 10 3),
   .call 0 (.readDir [])]

/-- the repaired code: the file keeps `hello`, the caller's two buffers show its own writes only; the
held listing keeps `a b c` while the directory now lists `b c` -/
theorem fixed_variant_histories :
    (HWorld.init.run Cfg.fixed fixedDataOps).2.map (·.res)
      = [.ok, .ok, .ok, .data [104, 101, 108, 108, 111], .ok, .data [104, 101, 108, 108, 111],
         .data [88, 101, 108, 108, 111], .data [104, 89, 108, 108, 111]]
    ∧ (HWorld.init.run Cfg.fixed fixedListOps).2.map (·.res)
      = [.ok, .ok, .ok, .ok, .ok, .ok, .list [([97], false), ([98], false), ([99], false)], .ok,
         .list [([97], false), ([98], false), ([99], false)], .list [([98], false), ([99], false)]] := by
  constructor <;> decide

end MemFSHeap
end Goat
