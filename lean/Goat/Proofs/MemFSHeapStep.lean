/-
Helper lemmas for the snapshot clause of C01, part 5: one call through any handle (root filespace or
child view) of the heap model is the same call of the value model, with a footprint.
-/
import Goat.Proofs.MemFSHeapRoot

set_option linter.unusedSimpArgs false
set_option linter.unusedVariables false

namespace Goat
namespace MemFSHeap

open Path (Name split join reduceAbsPath dotSeg slash)
open FS (Op Result)
open MemFS (FSRef)

/-- a call: dereferenced answer = value-level answer, footprint, only fresh handles handed out -/
def CSim (h : Heap) (t : HNode) (r : (Heap × HNode) × HRes) (v : Node × Result) : Prop :=
  (r.1.2.deref r.1.1, r.2.res) = v ∧ Tr h t r.1.1 r.1.2
  ∧ (∀ id ∈ r.2.out, h.next ≤ id ∧ id < r.1.1.next ∧ r.1.2.cnt id = 0) ∧ r.2.out.Nodup

theorem CSim.ofR {h : Heap} {t : HNode} {r : (Heap × HNode) × Result} {v : Node × Result} (R : RSim h t r v) :
    CSim h t (r.1, noOut r.2) v := ⟨R.1, R.2, fun id hid => by simp [noOut] at hid, by simp [noOut]⟩

theorem CSim.ofQ {h : Heap} {t : HNode} (hb : Bound h t) {q : Heap × HRes} {res : Result} (Q : QSim h q res) :
    CSim h t ((q.1, t), q.2) (t.deref h, res) :=
  ⟨by simp only [deref_of_frame hb Q.2.1, Q.1], Tr.of_frame hb Q.2.1,
   fun id hid => ⟨(Q.2.2.1 id hid).1, (Q.2.2.1 id hid).2, hb.zero id (Q.2.2.1 id hid).1⟩, Q.2.2.2⟩

theorem CSim.pure {h : Heap} {t : HNode} (hb : Bound h t) {res res' : Result} (e : res = res') :
    CSim h t ((h, t), noOut res) (t.deref h, res') :=
  ⟨by rw [e]; rfl, Tr.refl hb, fun id hid => by simp [noOut] at hid, by simp [noOut]⟩

theorem callOn_sim (cfg : Cfg) (hc : cfg.old = false) (ref : FSRef) (h : Heap) (t : HNode) (hb : Bound h t)
    (c : HCall) (hargs : ∀ id ∈ c.args, id < h.next ∧ t.cnt id = 0) :
    CSim h t (callOn cfg ref h t c) (MemFS.step ref (t.deref h) (c.toOp h)) := by
  cases c with
  | copy s d =>
    have R := fun s' d' => copyWith_sim cfg (fun _ => true) (fun _ => true) (fun _ _ => rfl) h t hb s' d'
    cases ref with
    | root => exact CSim.ofR (R s d)
    | wrap b =>
      simp only [callOn, via, MemFS.step, MemFS.Wrap.copy, MemFS.Wrap.on2, HCall.toOp]
      cases reduceAbsPath s with
      | none => exact CSim.pure hb rfl
      | some s' =>
        cases reduceAbsPath d with
        | none => exact CSim.pure hb rfl
        | some d' => exact CSim.ofR (R (b ++ s') (b ++ d'))
  | copyDirectory s d =>
    have R := fun s' d' => copyWith_sim cfg HNode.isDir Node.isDir isDir_deref h t hb s' d'
    cases ref with
    | root => exact CSim.ofR (R s d)
    | wrap b =>
      simp only [callOn, via, MemFS.step, MemFS.Wrap.copyDirectory, MemFS.Wrap.on2, HCall.toOp]
      cases reduceAbsPath s with
      | none => exact CSim.pure hb rfl
      | some s' =>
        cases reduceAbsPath d with
        | none => exact CSim.pure hb rfl
        | some d' => exact CSim.ofR (R (b ++ s') (b ++ d'))
  | copyFile s d =>
    have R := fun s' d' => copyWith_sim cfg (fun n => !n.isDir) (fun n => !n.isDir)
      (fun h n => by simp [isDir_deref]) h t hb s' d'
    cases ref with
    | root => exact CSim.ofR (R s d)
    | wrap b =>
      simp only [callOn, via, MemFS.step, MemFS.Wrap.copyFile, MemFS.Wrap.on2, HCall.toOp]
      cases reduceAbsPath s with
      | none => exact CSim.pure hb rfl
      | some s' =>
        cases reduceAbsPath d with
        | none => exact CSim.pure hb rfl
        | some d' => exact CSim.ofR (R (b ++ s') (b ++ d'))
  | readDir p =>
    cases ref with
    | root => exact CSim.ofQ hb (readDir_sim cfg hc h t p)
    | wrap b =>
      simp only [callOn, via, MemFS.step, MemFS.Wrap.readDir, MemFS.Wrap.on1, HCall.toOp]
      cases reduceAbsPath p with
      | none => exact CSim.pure hb rfl
      | some p' => exact CSim.ofQ hb (readDir_sim cfg hc h t (b ++ p'))
  | isExist p =>
    cases ref with
    | root => exact CSim.pure hb (isExist_sim h t p)
    | wrap b =>
      simp only [callOn, via, MemFS.step, MemFS.Wrap.isExist, MemFS.Wrap.on1, HCall.toOp]
      cases reduceAbsPath p with
      | none => exact CSim.pure hb rfl
      | some p' => exact CSim.pure hb (isExist_sim h t (b ++ p'))
  | isFile p =>
    cases ref with
    | root => exact CSim.pure hb (isFile_sim h t p)
    | wrap b =>
      simp only [callOn, via, MemFS.step, MemFS.Wrap.isFile, MemFS.Wrap.on1, HCall.toOp]
      cases reduceAbsPath p with
      | none => exact CSim.pure hb rfl
      | some p' => exact CSim.pure hb (isFile_sim h t (b ++ p'))
  | isDir p =>
    cases ref with
    | root => exact CSim.pure hb (isDir_sim h t p)
    | wrap b =>
      simp only [callOn, via, MemFS.step, MemFS.Wrap.isDir, MemFS.Wrap.on1, HCall.toOp]
      cases reduceAbsPath p with
      | none => exact CSim.pure hb rfl
      | some p' => exact CSim.pure hb (isDir_sim h t (b ++ p'))
  | mkdirAll p =>
    cases ref with
    | root => exact CSim.ofR (mkdirAll_sim cfg h t hb p)
    | wrap b =>
      simp only [callOn, via, MemFS.step, MemFS.Wrap.mkdirAll, MemFS.Wrap.on1, HCall.toOp]
      cases reduceAbsPath p with
      | none => exact CSim.pure hb rfl
      | some p' => exact CSim.ofR (mkdirAll_sim cfg h t hb (b ++ p'))
  | readFile p =>
    cases ref with
    | root => exact CSim.ofQ hb (readFile_sim cfg hc h t p)
    | wrap b =>
      simp only [callOn, via, MemFS.step, MemFS.Wrap.readFile, MemFS.Wrap.on1, HCall.toOp]
      cases reduceAbsPath p with
      | none => exact CSim.pure hb rfl
      | some p' => exact CSim.ofQ hb (readFile_sim cfg hc h t (b ++ p'))
  | writeFile p data =>
    obtain ⟨hd, hd0⟩ := hargs data (by simp [HCall.args])
    cases ref with
    | root => exact CSim.ofR (writeFile_sim cfg hc h t hb p data hd hd0)
    | wrap b =>
      simp only [callOn, via, MemFS.step, MemFS.Wrap.writeFile, MemFS.Wrap.on1, HCall.toOp]
      cases reduceAbsPath p with
      | none => exact CSim.pure hb rfl
      | some p' => exact CSim.ofR (writeFile_sim cfg hc h t hb (b ++ p') data hd hd0)
  | filespace p =>
    cases ref with
    | root => exact CSim.pure hb rfl
    | wrap b => exact CSim.pure hb rfl
  | reader p sizes =>
    cases ref with
    | root => exact CSim.ofQ hb (reader_sim h t p sizes)
    | wrap b =>
      simp only [callOn, via, MemFS.step, MemFS.Wrap.reader, MemFS.Wrap.on1, HCall.toOp]
      cases reduceAbsPath p with
      | none => exact CSim.pure hb rfl
      | some p' => exact CSim.ofQ hb (reader_sim h t (b ++ p') sizes)
  | writer p cs =>
    have hcs : ∀ c ∈ cs, c < h.next ∧ t.cnt c = 0 := fun c hc' => hargs c (by simpa [HCall.args] using hc')
    cases ref with
    | root => exact CSim.ofR (writer_sim cfg h t hb p cs hcs)
    | wrap b =>
      simp only [callOn, via, MemFS.step, MemFS.Wrap.writer, MemFS.Wrap.on1, HCall.toOp]
      cases reduceAbsPath p with
      | none => exact CSim.pure hb rfl
      | some p' => exact CSim.ofR (writer_sim cfg h t hb (b ++ p') cs hcs)
  | remove p =>
    cases ref with
    | root => exact CSim.ofR (remove_sim h t hb p)
    | wrap b =>
      simp only [callOn, viaRm, MemFS.step, MemFS.Wrap.remove, HCall.toOp]
      cases reduceAbsPath p with
      | none => exact CSim.pure hb rfl
      | some p' =>
        by_cases e : p' = []
        · simp only [e, if_true]; exact CSim.pure hb rfl
        · simp only [e, if_false]; exact CSim.ofR (remove_sim h t hb (b ++ p'))
  | removeAll p =>
    cases ref with
    | root => exact CSim.ofR (removeAll_sim h t hb p)
    | wrap b =>
      simp only [callOn, viaRm, MemFS.step, MemFS.Wrap.removeAll, HCall.toOp]
      cases reduceAbsPath p with
      | none => exact CSim.pure hb rfl
      | some p' =>
        by_cases e : p' = []
        · simp only [e, if_true]; exact CSim.pure hb rfl
        · simp only [e, if_false]; exact CSim.ofR (removeAll_sim h t hb (b ++ p'))
  | lstat p =>
    cases ref with
    | root => exact CSim.pure hb (lstat_sim h t p)
    | wrap b =>
      simp only [callOn, via, MemFS.step, MemFS.Wrap.lstat, MemFS.Wrap.on1, HCall.toOp]
      cases reduceAbsPath p with
      | none => exact CSim.pure hb rfl
      | some p' => exact CSim.pure hb (lstat_sim h t (b ++ p'))

end MemFSHeap
end Goat
