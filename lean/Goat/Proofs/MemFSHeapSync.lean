/-
Helper lemmas for the snapshot clause of C01, part 9: the node arrays are in step with the tree.

The heap model keeps, for every directory, both the ordered content `k` of `d.nodes[:len]` and the heap
object `l` that is the backing array of that slice; every add/remove writes the array (`appendEntry`,
`shiftOut`), while the repaired `ReadDir` copies `k.entries` and `removeNodeByName` takes the position
from `k`.  `Sync` says the two never disagree: the first `k.length` elements of the array are exactly
`k.entries`.  It is preserved by every step of the repaired code (`sync_step`, `sync_run`), so "copy of
`k.entries`" IS "copy of `d.nodes[:len]`" (`readDir_reads_array`).
-/
import Goat.Proofs.MemFSHeapRun

set_option linter.unusedSimpArgs false
set_option linter.unusedVariables false

namespace Goat
namespace MemFSHeap

open Path (Name split join reduceAbsPath dotSeg slash)
open FS (Op Result)
open MemFS (FSRef World)

mutual
/-- every directory's array holds, in its first `len` places, the entries of the directory -/
def HNode.Sync (h : Heap) : HNode → Prop
  | .file _ => True
  | .dir l k => (h.lists l).take k.length = k.entries ∧ HKids.Sync h k
def HKids.Sync (h : Heap) : HKids → Prop
  | .nil => True
  | .cons _ x r => HNode.Sync h x ∧ HKids.Sync h r
end

@[simp] theorem sync_file (h : Heap) (b : BufId) : (HNode.file b).Sync h ↔ True := by simp [HNode.Sync]
theorem sync_dir (h : Heap) (l : BufId) (k : HKids) :
    (HNode.dir l k).Sync h ↔ (h.lists l).take k.length = k.entries ∧ k.Sync h := by simp [HNode.Sync]
@[simp] theorem sync_nil (h : Heap) : HKids.nil.Sync h ↔ True := by simp [HKids.Sync]
theorem sync_cons (h : Heap) (n : Name) (x : HNode) (r : HKids) :
    (HKids.cons n x r).Sync h ↔ x.Sync h ∧ r.Sync h := by simp [HKids.Sync]

/-! ### Lists -/

theorem take_append_one {α : Type} (arr ents : List α) (e : α) (len : Nat) (h : arr.take len = ents)
    (hl : ents.length = len) :
    (arr.take len ++ e :: arr.drop (len + 1)).take (len + 1) = ents ++ [e]
    ∧ (arr.take len ++ [e]).take (len + 1) = ents ++ [e] := by
  subst h
  have hlen : (arr.take len ++ [e]).length = len + 1 := by simp [hl]
  constructor
  · have : arr.take len ++ e :: arr.drop (len + 1) = (arr.take len ++ [e]) ++ arr.drop (len + 1) := by simp
    rw [this, List.take_left' hlen]
  · rw [List.take_of_length_le (by omega)]

theorem shiftOut_take (arr : Entries) (i len : Nat) (hi : i < len) (hl : len ≤ arr.length) :
    (shiftOut arr i len).take (len - 1) = (arr.take len).eraseIdx i := by
  unfold shiftOut
  have e1 : (arr.take len).take i = arr.take i := by rw [List.take_take]; congr 1; omega
  have l1 : (arr.take i).length = i := by rw [List.length_take]; omega
  have l2 : ((arr.take len).drop (i + 1)).length = len - (i + 1) := by
    rw [List.length_drop, List.length_take]; omega
  rw [List.take_left' (by rw [List.length_append, l1, l2]; omega), List.eraseIdx_eq_take_drop_succ, e1]

/-! ### Kids -/

namespace HKids

theorem length_set_found (k : HKids) (s : Name) (c c' : HNode) (h : k.find s = some c) :
    (k.set s c').length = k.length := by
  induction k using HKids.rec (motive_1 := fun _ => True) with
  | file => trivial
  | dir => trivial
  | nil => simp [find] at h
  | cons n y r _ ih =>
    simp only [find] at h
    simp only [set]
    split at h
    · next e => simp [e, length]
    · next e => simp [e, length, ih h]

theorem entries_set_found (k : HKids) (s : Name) (c c' : HNode) (h : k.find s = some c)
    (hd : c'.isDir = c.isDir) : (k.set s c').entries = k.entries := by
  induction k using HKids.rec (motive_1 := fun _ => True) with
  | file => trivial
  | dir => trivial
  | nil => simp [find] at h
  | cons n y r _ ih =>
    simp only [find] at h
    simp only [set]
    split at h
    · next e => cases h; simp [e, entries, hd]
    · next e => simp [e, entries, ih h]

theorem length_set_new (k : HKids) (s : Name) (x : HNode) (h : k.find s = none) :
    (k.set s x).length = k.length + 1 := by
  induction k using HKids.rec (motive_1 := fun _ => True) with
  | file => trivial
  | dir => trivial
  | nil => simp [set, length]
  | cons n y r _ ih =>
    simp only [find] at h
    simp only [set]
    split at h
    · cases h
    · next e => simp [e, length, ih h]

theorem entries_set_new (k : HKids) (s : Name) (x : HNode) (h : k.find s = none) :
    (k.set s x).entries = k.entries ++ [(s, x.isDir)] := by
  induction k using HKids.rec (motive_1 := fun _ => True) with
  | file => trivial
  | dir => trivial
  | nil => simp [set, entries]
  | cons n y r _ ih =>
    simp only [find] at h
    simp only [set]
    split at h
    · cases h
    · next e => simp [e, entries, ih h]

theorem entries_length' (k : HKids) : k.entries.length = k.length := by
  induction k using HKids.rec (motive_1 := fun _ => True) with
  | file => trivial
  | dir => trivial
  | nil => rfl
  | cons n y r _ ih => simp [entries, length, ih]

theorem indexOf_lt (k : HKids) (s : Name) (c : HNode) (h : k.find s = some c) : k.indexOf s < k.length := by
  induction k using HKids.rec (motive_1 := fun _ => True) with
  | file => trivial
  | dir => trivial
  | nil => simp [find] at h
  | cons n y r _ ih =>
    simp only [find] at h
    simp only [indexOf, length]
    split at h
    · next e => simp [e]
    · next e => simp only [e, if_false]; have := ih h; omega

theorem length_erase (k : HKids) (s : Name) (c : HNode) (h : k.find s = some c) :
    (k.erase s).length = k.length - 1 := by
  induction k using HKids.rec (motive_1 := fun _ => True) with
  | file => trivial
  | dir => trivial
  | nil => simp [find] at h
  | cons n y r _ ih =>
    simp only [find] at h
    simp only [erase, length]
    split at h
    · next e => simp [e]
    · next e =>
      simp only [e, if_false, length, ih h]
      have := indexOf_lt r s c h; omega

theorem entries_erase (k : HKids) (s : Name) (c : HNode) (h : k.find s = some c) :
    (k.erase s).entries = k.entries.eraseIdx (k.indexOf s) := by
  induction k using HKids.rec (motive_1 := fun _ => True) with
  | file => trivial
  | dir => trivial
  | nil => simp [find] at h
  | cons n y r _ ih =>
    simp only [find] at h
    simp only [erase, indexOf, entries]
    split at h
    · next e => simp [e]
    · next e => simp [e, entries, ih h]

theorem sync_find (h : Heap) (k : HKids) (s : Name) (c : HNode) (hs : k.Sync h) (hf : k.find s = some c) :
    c.Sync h := by
  induction k using HKids.rec (motive_1 := fun _ => True) with
  | file => trivial
  | dir => trivial
  | nil => simp [find] at hf
  | cons n y r _ ih =>
    simp only [find] at hf
    rw [sync_cons] at hs
    split at hf
    · cases hf; exact hs.1
    · exact ih hs.2 hf

end HKids

/-! ### `Sync` reads only the listing objects of the tree -/

theorem sync_congr (h h' : Heap) (n : HNode) :
    (∀ id : Nat, 0 < n.cnt id → h'.lists id = h.lists id) → n.Sync h → n.Sync h' := by
  induction n using HNode.rec
      (motive_2 := fun k => (∀ id : Nat, 0 < k.cnt id → h'.lists id = h.lists id) → k.Sync h → k.Sync h') with
  | file b => intro _ _; simp
  | dir l k ih =>
    intro hb hs
    rw [sync_dir] at hs ⊢
    rw [hb l (by rw [cnt_dir]; simp)]
    exact ⟨hs.1, ih (fun id hid => hb id (by rw [cnt_dir]; omegab)) hs.2⟩
  | nil => simp
  | cons n x r ihx ihr =>
    rename_i hk hs
    rw [sync_cons] at hs ⊢
    exact ⟨ihx (fun id hid => hk id (by rw [cnt_cons]; omegab)) hs.1,
           ihr (fun id hid => hk id (by rw [cnt_cons]; omegab)) hs.2⟩

theorem syncK_congr (h h' : Heap) (k : HKids) :
    (∀ id : Nat, 0 < k.cnt id → h'.lists id = h.lists id) → k.Sync h → k.Sync h' := by
  induction k using HKids.rec
      (motive_1 := fun n => (∀ id : Nat, 0 < n.cnt id → h'.lists id = h.lists id) → n.Sync h → n.Sync h') with
  | file b => rename_i hb hs; exact sync_congr h h' _ hb hs
  | dir l k ih => rename_i hb hs; exact sync_congr h h' _ hb hs
  | nil => intro _ _; simp
  | cons n x r ihx ihr =>
    intro hk hs
    rw [sync_cons] at hs ⊢
    exact ⟨ihx (fun id hid => hk id (by rw [cnt_cons]; omegab)) hs.1,
           ihr (fun id hid => hk id (by rw [cnt_cons]; omegab)) hs.2⟩

/-! ### Kids under `Sync` -/

theorem syncK_set_found (h h' : Heap) (k : HKids) (s : Name) (c c' : HNode) (hf : k.find s = some c)
    (hnd : ∀ id : Nat, k.cnt id ≤ 1) (hs : k.Sync h)
    (hb : ∀ id : Nat, 0 < k.cnt id → c.cnt id = 0 → h'.lists id = h.lists id) (hc : c'.Sync h') :
    (k.set s c').Sync h' := by
  induction k using HKids.rec (motive_1 := fun _ => True) with
  | file => trivial
  | dir => trivial
  | nil => simp [HKids.find] at hf
  | cons n y r _ ih =>
    simp only [HKids.find] at hf
    simp only [HKids.set]
    rw [sync_cons] at hs
    have hnd' : ∀ id : Nat, y.cnt id + r.cnt id ≤ 1 := fun id => by have := hnd id; rwa [cnt_cons] at this
    split at hf
    · next e =>
      cases hf
      simp only [e, if_true]
      rw [sync_cons]
      exact ⟨hc, syncK_congr h h' r (fun id hid => hb id (by rw [cnt_cons]; omegab)
        (by have := hnd' id; omegab)) hs.2⟩
    · next e =>
      simp only [e, if_false]
      rw [sync_cons]
      have hcr : ∀ id : Nat, c.cnt id ≤ r.cnt id := fun id => HKids.cnt_find_le r s c id hf
      exact ⟨sync_congr h h' y (fun id hid => hb id (by rw [cnt_cons]; omegab)
          (by have := hnd' id; have := hcr id; omegab)) hs.1,
        ih hf (fun id => by have := hnd' id; omegab) hs.2
          (fun id hid hz => hb id (by rw [cnt_cons]; omegab) hz)⟩

theorem syncK_set_new (h : Heap) (k : HKids) (s : Name) (x : HNode) (hs : k.Sync h) (hx : x.Sync h) :
    (k.set s x).Sync h := by
  induction k using HKids.rec (motive_1 := fun _ => True) with
  | file => trivial
  | dir => trivial
  | nil => simp only [HKids.set]; rw [sync_cons]; exact ⟨hx, by simp⟩
  | cons n y r _ ih =>
    rw [sync_cons] at hs
    simp only [HKids.set]
    split
    · rw [sync_cons]; exact ⟨hx, hs.2⟩
    · rw [sync_cons]; exact ⟨hs.1, ih hs.2⟩

theorem syncK_erase (h : Heap) (k : HKids) (s : Name) (hs : k.Sync h) : (k.erase s).Sync h := by
  induction k using HKids.rec (motive_1 := fun _ => True) with
  | file => trivial
  | dir => trivial
  | nil => simp [HKids.erase]
  | cons n y r _ ih =>
    rw [sync_cons] at hs
    simp only [HKids.erase]
    split
    · exact hs.2
    · rw [sync_cons]; exact ⟨hs.1, ih hs.2⟩

/-- replacing a child by the (synchronised, same-kind) result of a transformer applied to it -/
theorem sync_parent {h h1 : Heap} {l : BufId} {k : HKids} {s : Name} {c c' : HNode} (hb : Bound h (.dir l k))
    (hfs : k.find s = some c) (t : Tr h c h1 c') (hs : (HNode.dir l k).Sync h) (hc : c'.Sync h1)
    (hd : c'.isDir = c.isDir) : (HNode.dir l (k.set s c')).Sync h1 := by
  rw [sync_dir] at hs ⊢
  have hk1 : ∀ id : Nat, k.cnt id ≤ 1 := fun id => by
    have := hb.le_one id; rw [cnt_dir] at this; omegab
  have hcle : ∀ id : Nat, c.cnt id ≤ k.cnt id := fun id => HKids.cnt_find_le k s c id hfs
  have hl : l < h.next := hb.lt l (by rw [cnt_dir]; simp)
  have hkl : k.cnt l = 0 := by have := hb.le_one l; rw [cnt_dir] at this; simp at this; omegab
  have hcl : c.cnt l = 0 := by have := hcle l; omegab
  rw [HKids.length_set_found k s c c' hfs, HKids.entries_set_found k s c c' hfs hd,
    (t.frame.same l hl (by simp [hcl])).2]
  exact ⟨hs.1, syncK_set_found h h1 k s c c' hfs hk1 hs.2 (fun id hid hz =>
    (t.frame.same id (hb.lt id (by rw [cnt_dir]; omegab)) (by simp [hz])).2) hc⟩

/-- appending a new child: the directory's array (overwritten in place or reallocated by
`appendEntry`) holds the old entries and the new one -/
theorem sync_add (cfg : Cfg) {h h1 : Heap} {l : BufId} {k : HKids} {s : Name} {x : HNode} (hb : Bound h (.dir l k))
    (hfs : k.find s = none) (hs : (HNode.dir l k).Sync h) (hle : h.next ≤ h1.next)
    (F1 : ∀ id : Nat, 0 < (HNode.dir l k).cnt id → h1.lists id = h.lists id)
    (hx : x.Sync (appendEntry cfg h1 l k.length (s, x.isDir)).1) :
    (HNode.dir (appendEntry cfg h1 l k.length (s, x.isDir)).2 (k.set s x)).Sync
      (appendEntry cfg h1 l k.length (s, x.isDir)).1 := by
  rw [sync_dir] at hs ⊢
  have hl : l < h.next := hb.lt l (by rw [cnt_dir]; simp)
  have hkl : k.cnt l = 0 := by have := hb.le_one l; rw [cnt_dir] at this; simp at this; omegab
  have hll : h1.lists l = h.lists l := F1 l (by rw [cnt_dir]; simp)
  have hlen : k.entries.length = k.length := HKids.entries_length' k
  obtain ⟨t1, t2⟩ := take_append_one (h1.lists l) k.entries (s, x.isDir) k.length (by rw [hll]; exact hs.1) hlen
  rw [HKids.length_set_new k s x hfs, HKids.entries_set_new k s x hfs]
  have hk2 : ∀ h2 : Heap, (∀ id : Nat, id < h1.next → id ≠ l → h2.lists id = h1.lists id) → k.Sync h2 :=
    fun h2 e => syncK_congr h h2 k (fun id hid => by
      have hlt : id < h.next := hb.lt id (by rw [cnt_dir]; omegab)
      have hne : id ≠ l := fun e' => by subst e'; omegab
      rw [e id (by omegab) hne]
      exact F1 id (by rw [cnt_dir]; omegab)) hs.2
  unfold appendEntry at hx ⊢
  by_cases hr : cfg.realloc k.length 1 = true
  · simp only [hr, if_true] at hx ⊢
    refine ⟨by simpa using t2, syncK_set_new _ k s x (hk2 _ (fun id hid _ => ?_)) hx⟩
    simp [Heap.allocL, Nat.ne_of_lt hid]
  · simp only [hr, Bool.false_eq_true, if_false] at hx ⊢
    refine ⟨by simpa [Heap.setL] using t1, syncK_set_new _ k s x (hk2 _ (fun id hid hne => ?_)) hx⟩
    simp [Heap.setL, hne]

/-! ### Tree transformers keep `Sync` -/

theorem mkdirs_sync (cfg : Cfg) : ∀ (path : List Name) (h : Heap) (n : HNode), Bound h n → n.Sync h →
    ∀ h' n', n.mkdirs cfg h path = some (h', n') → n'.Sync h' ∧ n'.isDir = n.isDir := by
  intro path
  induction path with
  | nil =>
    intro h n hb hs h' n' e
    cases n with
    | file b => simp [HNode.mkdirs] at e
    | dir l k => simp [HNode.mkdirs] at e; obtain ⟨rfl, rfl⟩ := e; exact ⟨hs, rfl⟩
  | cons s rest ih =>
    intro h n hb hs h' n' e
    cases n with
    | file b => simp [HNode.mkdirs] at e
    | dir l k =>
      simp only [HNode.mkdirs] at e
      cases hfs : k.find s with
      | some c =>
        simp only [hfs] at e
        cases hu : c.mkdirs cfg h rest with
        | none => simp [hu] at e
        | some r =>
          obtain ⟨h1, c'⟩ := r
          simp only [hu, Option.some.injEq, Prod.mk.injEq] at e
          obtain ⟨rfl, rfl⟩ := e
          have hsc : c.Sync h := HKids.sync_find h k s c ((sync_dir _ _ _).mp hs).2 hfs
          obtain ⟨sc', dc'⟩ := ih h c (hb.child hfs) hsc h1 c' hu
          obtain ⟨_, t⟩ := (mkdirs_spec cfg rest h c (hb.child hfs)).2 h1 c' hu
          exact ⟨sync_parent hb hfs t hs sc' dc', rfl⟩
      | none =>
        simp only [hfs] at e
        have hl : l < h.next := hb.lt l (by rw [cnt_dir]; simp)
        obtain ⟨F2, B2, alt⟩ := appendEntry_spec cfg (h.allocL []).1 l k.length (s, true)
        have SA := sync_add cfg (h1 := (h.allocL []).1) (x := HNode.dir h.next .nil) (s := s) hb hfs hs
          (by simp) (fun id hid => by
            have := hb.lt id hid
            simp [Heap.allocL, Nat.ne_of_lt this])
        simp only [HNode.isDir] at SA
        generalize appendEntry cfg (h.allocL []).1 l k.length (s, true) = ae at F2 B2 alt e SA
        obtain ⟨h2, l'⟩ := ae
        simp only [allocL_id, allocL_next, allocL_bytes] at F2 B2 alt e SA
        have SA' := SA (by rw [sync_dir]; simp [HKids.length, HKids.entries])
        have hb0 : Bound h2 (.dir h.next .nil) := fun id => by
          rw [cnt_dir, cnt_nil]
          have := F2.next_le; simp only [allocL_next] at this
          by_cases e : id = h.next
          · subst e
            have : h.next < h2.next := by omegab
            simp [this]
          · simp [e]
        cases hu : HNode.mkdirs cfg h2 (.dir h.next .nil) rest with
        | none => simp [hu] at e
        | some r =>
          obtain ⟨h3, c'⟩ := r
          simp only [hu, Option.some.injEq, Prod.mk.injEq] at e
          obtain ⟨rfl, rfl⟩ := e
          obtain ⟨sc', dc'⟩ := ih h2 (.dir h.next .nil) hb0 (by rw [sync_dir]; simp [HKids.length, HKids.entries]) h3 c' hu
          obtain ⟨_, t⟩ := (mkdirs_spec cfg rest h2 (.dir h.next .nil) hb0).2 h3 c' hu
          -- the tree with the empty directory appended, then the directory filled
          have F02 : Frame (fun id => id = l) h h2 :=
            ((frame_allocL h []).weaken (fun _ _ x => x.elim)).trans F2 (fun id _ x => x)
          have hx1 : ∀ id : Nat, (HNode.dir h.next .nil).cnt id ≤ 1 := fun id => by
            rw [cnt_dir, cnt_nil]; split <;> omegab
          have hx2 : ∀ id : Nat, 0 < (HNode.dir h.next .nil).cnt id →
              h.next ≤ id ∧ id < h2.next ∧ id ≠ l' := fun id => by
            rw [cnt_dir, cnt_nil]
            have := F2.next_le; simp only [allocL_next] at this
            split
            · next e => intro _; rcases alt with a | a <;> omegab
            · intro c; omegab
          have hl'' : l' = l ∨ (h.next ≤ l' ∧ l' < h2.next) := by
            rcases alt with a | a
            · exact Or.inl a.1
            · exact Or.inr (by omegab)
          have T1 := tr_add (s := s) hb hfs F02 hl'' hx1 hx2
          have hfs2 : (k.set s (HNode.dir h.next .nil)).find s = some (HNode.dir h.next .nil) :=
            HKids.find_set_same k s _
          have := sync_parent (l := l') T1.bound hfs2 t SA' sc' dc'
          rw [HKids.set_set] at this
          exact ⟨this, rfl⟩

/-- a function on one directory keeps `Sync` -/
def FSync (P : Heap → Prop) (f : Heap → BufId → HKids → Option (Heap × BufId × HKids)) : Prop :=
  ∀ h l k, Bound h (.dir l k) → P h → (HNode.dir l k).Sync h →
    ∀ h' l' k', f h l k = some (h', l', k') → (HNode.dir l' k').Sync h'

theorem update_sync (P : Heap → Prop) (f : Heap → BufId → HKids → Option (Heap × BufId × HKids))
    (g : Kids → Option Kids) (hf : FSpec P f g) (hfs : FSync P f) :
    ∀ (path : List Name) (h : Heap) (n : HNode), Bound h n → P h → n.Sync h →
      ∀ h' n', n.update h path f = some (h', n') → n'.Sync h' ∧ n'.isDir = n.isDir := by
  intro path
  induction path with
  | nil =>
    intro h n hb hP hs h' n' e
    cases n with
    | file b => simp [HNode.update] at e
    | dir l k =>
      simp only [HNode.update] at e
      cases hfk : f h l k with
      | none => simp [hfk] at e
      | some r =>
        obtain ⟨a, b, c⟩ := r
        simp only [hfk, Option.some.injEq, Prod.mk.injEq] at e
        obtain ⟨rfl, rfl⟩ := e
        exact ⟨hfs h l k hb hP hs a b c hfk, rfl⟩
  | cons s rest ih =>
    intro h n hb hP hs h' n' e
    cases n with
    | file b => simp [HNode.update] at e
    | dir l k =>
      simp only [HNode.update] at e
      cases hfk : k.find s with
      | none => simp [hfk] at e
      | some c =>
        simp only [hfk] at e
        cases hu : c.update h rest f with
        | none => simp [hu] at e
        | some r =>
          obtain ⟨h1, c'⟩ := r
          simp only [hu, Option.some.injEq, Prod.mk.injEq] at e
          obtain ⟨rfl, rfl⟩ := e
          have hsc : c.Sync h := HKids.sync_find h k s c ((sync_dir _ _ _).mp hs).2 hfk
          obtain ⟨sc', dc'⟩ := ih h c (hb.child hfk) hP hsc h1 c' hu
          obtain ⟨_, t⟩ := (update_spec P f g hf rest h c (hb.child hfk) hP).2 h1 c' hu
          exact ⟨sync_parent hb hfk t hs sc' dc', rfl⟩

/-! ### The directory-level functions keep `Sync` -/

theorem FSpec.mono {P P' : Heap → Prop} {f : Heap → BufId → HKids → Option (Heap × BufId × HKids)}
    {g : Kids → Option Kids} (hf : FSpec P f g) (hp : ∀ h, P' h → P h) : FSpec P' f g :=
  fun h l k hb hP => hf h l k hb (hp h hP)

/-- replacing a file by a file in the same heap -/
theorem sync_replace_file {h : Heap} {l : BufId} {k : HKids} {s : Name} {b b' : BufId}
    (hb : Bound h (.dir l k)) (hs : (HNode.dir l k).Sync h) (hfs : k.find s = some (.file b)) :
    (HNode.dir l (k.set s (.file b'))).Sync h := by
  rw [sync_dir] at hs ⊢
  have hk1 : ∀ id : Nat, k.cnt id ≤ 1 := fun id => by
    have := hb.le_one id; rw [cnt_dir] at this; omegab
  rw [HKids.length_set_found k s (.file b) (.file b') hfs, HKids.entries_set_found k s (.file b) (.file b') hfs rfl]
  exact ⟨hs.1, syncK_set_found h h k s (.file b) (.file b') hfs hk1 hs.2 (fun _ _ _ => rfl) (by simp)⟩

theorem putIn_sync (cfg : Cfg) (name : Name) (d : Bytes) : FSync (fun _ => True) (putIn cfg name d) := by
  intro h l k hb _ hs h' l' k' e
  unfold putIn at e
  cases hfs : k.find name with
  | none =>
    simp only [hfs, allocB_id, Option.some.injEq, Prod.mk.injEq] at e
    obtain ⟨rfl, rfl, rfl⟩ := e
    exact sync_add cfg (h1 := (h.allocB d).1) (x := HNode.file h.next) hb hfs hs (by simp)
      (fun id hid => by simp) (by simp)
  | some c =>
    cases c with
    | file b =>
      simp only [hfs, allocB_id, Option.some.injEq, Prod.mk.injEq] at e
      obtain ⟨rfl, rfl, rfl⟩ := e
      have hs1 : (HNode.dir l k).Sync (h.allocB d).1 := sync_congr h _ _ (fun id hid => by simp) hs
      exact sync_replace_file (hb.mono (by simp)) hs1 hfs
    | dir l2 k2 => simp [hfs] at e

theorem appendBytes_lists (cfg : Cfg) (h : Heap) (b : BufId) (p : Bytes) :
    (appendBytes cfg h b p).1.lists = h.lists := by
  unfold appendBytes; split <;> rfl

theorem writeChunkIn_sync (cfg : Cfg) (name : Name) (chunk : BufId) (P : Heap → Prop) :
    FSync P (Root.writeChunkIn cfg name chunk) := by
  intro h l k hb _ hs h' l' k' e
  unfold Root.writeChunkIn at e
  cases hfs : k.find name with
  | none => simp [hfs] at e
  | some c =>
    cases c with
    | dir l2 k2 => simp [hfs] at e
    | file b =>
      simp only [hfs, Option.some.injEq, Prod.mk.injEq] at e
      obtain ⟨rfl, rfl, rfl⟩ := e
      obtain ⟨F, _, _⟩ := appendBytes_spec cfg h b (h.bytes chunk)
      have hs1 : (HNode.dir l k).Sync (appendBytes cfg h b (h.bytes chunk)).1 :=
        sync_congr h _ _ (fun id hid => by rw [appendBytes_lists]) hs
      exact sync_replace_file (hb.mono F.next_le) hs1 hfs

theorem removeNodeByName_sync (name : Name) (h : Heap) (l : BufId) (k : HKids) (hb : Bound h (.dir l k))
    (hs : (HNode.dir l k).Sync h) :
    ∀ h' l' k', removeNodeByName h l k name = some (h', l', k') → (HNode.dir l' k').Sync h' := by
  intro h' l' k' e
  unfold removeNodeByName at e
  cases hfs : k.find name with
  | none => simp [hfs] at e
  | some c =>
    simp only [hfs, Option.some.injEq, Prod.mk.injEq] at e
    obtain ⟨rfl, rfl, rfl⟩ := e
    rw [sync_dir] at hs ⊢
    have hkl : k.cnt l = 0 := by have := hb.le_one l; rw [cnt_dir] at this; simp at this; omegab
    have hlen : k.length ≤ (h.lists l).length := by
      have := congrArg List.length hs.1
      rw [List.length_take, HKids.entries_length'] at this; omegab
    constructor
    · rw [HKids.length_erase k name c hfs, HKids.entries_erase k name c hfs]
      simp only [Heap.setL, if_true]
      rw [shiftOut_take _ _ _ (HKids.indexOf_lt k name c hfs) hlen, hs.1]
    · exact syncK_erase _ k name (syncK_congr h _ k (fun id hid => by
        have : id ≠ l := fun e => by subst e; omegab
        simp [Heap.setL, this]) hs.2)

theorem removeIn_sync (name : Name) (emptyOnly : Bool) : FSync (fun _ => True) (removeIn name emptyOnly) := by
  intro h l k hb _ hs h' l' k' e
  have R := removeNodeByName_sync name h l k hb hs h' l' k'
  unfold removeIn at e
  cases emptyOnly with
  | false => exact R (by simpa using e)
  | true =>
    simp only [if_true] at e
    cases hfs : k.find name with
    | none => simp [hfs] at e
    | some c =>
      cases c with
      | file b => exact R (by simpa [hfs] using e)
      | dir l2 k2 =>
        simp only [hfs] at e
        cases he : k2.isEmpty with
        | true => exact R (by simpa [he] using e)
        | false => simp [he] at e

/-- a deep copy is synchronised (its arrays are filled from the entries), with the same entries -/
theorem copy_sync_aux (n : HNode) : ∀ h : Heap,
    (copyNode h n).2.Sync (copyNode h n).1 ∧ (copyNode h n).2.isDir = n.isDir
    ∧ (∀ id : Nat, 0 < (copyNode h n).2.cnt id → h.next ≤ id ∧ id < (copyNode h n).1.next)
    ∧ Frame (fun _ => False) h (copyNode h n).1 := by
  induction n using HNode.rec
    (motive_2 := fun k => ∀ h : Heap,
      (copyKids h k).2.Sync (copyKids h k).1 ∧ (copyKids h k).2.entries = k.entries
      ∧ (copyKids h k).2.length = k.length
      ∧ (∀ id : Nat, 0 < (copyKids h k).2.cnt id → h.next ≤ id ∧ id < (copyKids h k).1.next)
      ∧ Frame (fun _ => False) h (copyKids h k).1) with
  | file b =>
    intro h
    simp only [copyNode, Heap.copyB]
    refine ⟨by simp, rfl, fun id => ?_, frame_allocB h _⟩
    rw [cnt_file]; simp only [allocB_id, allocB_next]
    by_cases e : id = h.next <;> simp only [e, if_true, if_false] <;> intro c <;> omegab
  | dir l k ih =>
    intro h
    simp only [copyNode]
    obtain ⟨S, E, L, C, F⟩ := ih (h.allocL k.entries).1
    have hn := F.next_le
    simp only [allocL_next] at hn
    refine ⟨?_, rfl, fun id => ?_, (frame_allocL h _).trans F (fun _ _ x => x)⟩
    · rw [sync_dir]
      refine ⟨?_, S⟩
      simp only [allocL_id]
      rw [(F.same h.next (by simp) (fun f => f)).2, L, E]
      simp [List.take_of_length_le, HKids.entries_length']
    · rw [cnt_dir]; simp only [allocL_id]
      intro c
      by_cases c' : 0 < (copyKids (h.allocL k.entries).1 k).2.cnt id
      · have := C id c'; simp only [allocL_next] at this; omegab
      · by_cases e : id = h.next
        · omegab
        · simp only [e, if_false] at c; omegab
  | nil =>
    rename_i h
    simp only [copyKids]
    exact ⟨by simp, trivial, trivial, fun id c => by simp [cnt_nil] at c, Frame.refl _ _⟩
  | cons name x r ihx ihr =>
    rename_i h
    simp only [copyKids]
    obtain ⟨S1, D1, C1, F1⟩ := ihx h
    obtain ⟨S2, E2, L2, C2, F2⟩ := ihr (copyNode h x).1
    have n1 := F1.next_le
    have n2 := F2.next_le
    refine ⟨?_, by simp [HKids.entries, E2, D1], by simp [HKids.length, L2], fun id => ?_,
      F1.trans F2 (fun _ _ x => x)⟩
    · rw [sync_cons]
      exact ⟨sync_congr (copyNode h x).1 _ _ (fun id hid => (F2.same id (C1 id hid).2 (fun f => f)).2) S1, S2⟩
    · rw [cnt_cons]
      intro c
      by_cases c1 : 0 < (copyNode h x).2.cnt id
      · have := C1 id c1; omegab
      · have := C2 id (by omegab); omegab

theorem copyIn_sync (cfg : Cfg) (name : Name) (src : HNode) (P : Heap → Prop) :
    FSync P (copyIn cfg name src) := by
  intro h l k hb _ hs h' l' k' e
  obtain ⟨S, D, C, F⟩ := copy_sync_aux src h
  unfold copyIn addIn at e
  generalize copyNode h src = cn at S D C F e
  obtain ⟨h1, cp⟩ := cn
  simp only at S D C F e
  cases hfs : k.find name with
  | some c => simp [hfs] at e
  | none =>
    simp only [hfs, Option.some.injEq, Prod.mk.injEq] at e
    obtain ⟨rfl, rfl, rfl⟩ := e
    have hl : l < h.next := hb.lt l (by rw [cnt_dir]; simp)
    refine sync_add cfg (h1 := h1) (x := cp) hb hfs hs F.next_le
      (fun id hid => (F.same id (hb.lt id hid) (fun f => f)).2) ?_
    obtain ⟨F2, _, alt⟩ := appendEntry_spec cfg h1 l k.length (name, cp.isDir)
    refine sync_congr h1 _ cp (fun id hid => ?_) S
    have := C id hid
    exact (F2.same id this.2 (fun e => by have := F.next_le; omegab)).2

/-! ### Methods keep `Sync` -/

theorem writeIn_sync (cfg : Cfg) (hc : cfg.old = false) (name : Name) (data : BufId) (P : Heap → Prop) :
    FSync P (Root.writeIn cfg name data) := by
  intro h l k hb _ hs h' l' k' e
  rw [writeIn_eq cfg hc] at e
  exact putIn_sync cfg name _ h l k hb trivial hs h' l' k' e

theorem openIn_sync (cfg : Cfg) (name : Name) (P : Heap → Prop) : FSync P (Root.openIn cfg name) := by
  intro h l k hb _ hs h' l' k' e
  rw [openIn_eq] at e
  exact putIn_sync cfg name _ h l k hb trivial hs h' l' k' e

theorem FSync.mono {P P' : Heap → Prop} {f : Heap → BufId → HKids → Option (Heap × BufId × HKids)}
    (hf : FSync P f) (hp : ∀ h, P' h → P h) : FSync P' f :=
  fun h l k hb hP => hf h l k hb (hp h hP)

theorem sync_of_frame {h h' : Heap} {t : HNode} (hb : Bound h t) (hs : t.Sync h)
    (F : Frame (fun _ => False) h h') : t.Sync h' :=
  sync_congr h h' t (fun id hid => (F.same id (hb.lt id hid) (fun f => f)).2) hs

theorem writeFile_sync (cfg : Cfg) (hc : cfg.old = false) (h : Heap) (t : HNode) (hb : Bound h t)
    (hs : t.Sync h) (raw : Bytes) (data : BufId) (hd : data < h.next) (hd0 : t.cnt data = 0) :
    (Root.writeFile cfg h t raw data).1.2.Sync (Root.writeFile cfg h t raw data).1.1 := by
  unfold Root.writeFile
  cases reduceAbsPath raw with
  | none => exact hs
  | some p =>
    simp only
    cases MemFS.splitContainsPath p with
    | none => exact hs
    | some dn =>
      obtain ⟨dirPath, name⟩ := dn
      simp only
      cases hm : t.mkdirs cfg h dirPath with
      | none => exact hs
      | some s1 =>
        obtain ⟨h1, t1⟩ := s1
        obtain ⟨_, T1⟩ := (mkdirs_spec cfg dirPath h t hb).2 h1 t1 hm
        obtain ⟨S1, _⟩ := mkdirs_sync cfg dirPath h t hb hs h1 t1 hm
        simp only
        cases hu : t1.update h1 dirPath (Root.writeIn cfg name data) with
        | none => exact S1
        | some s2 =>
          obtain ⟨h2, t2⟩ := s2
          exact (update_sync _ _ _ (writeIn_spec cfg hc name data (h.bytes data)) (writeIn_sync cfg hc name data _)
            dirPath h1 t1 T1.bound (T1.held_bytes data hd hd0) S1 h2 t2 hu).1

theorem openWriter_sync (cfg : Cfg) (h : Heap) (t : HNode) (hb : Bound h t) (hs : t.Sync h) (raw : Bytes) :
    (Root.openWriter cfg h t raw).1.2.Sync (Root.openWriter cfg h t raw).1.1 := by
  unfold Root.openWriter
  cases reduceAbsPath raw with
  | none => exact hs
  | some p =>
    simp only
    cases MemFS.splitContainsPath p with
    | none => exact hs
    | some dn =>
      obtain ⟨dirPath, name⟩ := dn
      simp only
      cases hm : t.mkdirs cfg h dirPath with
      | none => exact hs
      | some s1 =>
        obtain ⟨h1, t1⟩ := s1
        obtain ⟨_, T1⟩ := (mkdirs_spec cfg dirPath h t hb).2 h1 t1 hm
        obtain ⟨S1, _⟩ := mkdirs_sync cfg dirPath h t hb hs h1 t1 hm
        simp only
        cases hu : t1.update h1 dirPath (Root.openIn cfg name) with
        | none => exact S1
        | some s2 =>
          obtain ⟨h2, t2⟩ := s2
          exact (update_sync _ _ _ (openIn_spec cfg name) (openIn_sync cfg name _)
            dirPath h1 t1 T1.bound trivial S1 h2 t2 hu).1

theorem writeChunks_sync (cfg : Cfg) (dir : List Name) (name : Name) : ∀ (chunks : List BufId) (h : Heap)
    (t : HNode), Bound h t → t.Sync h → ∀ h' t', Root.writeChunks cfg h t dir name chunks = some (h', t') →
      t'.Sync h' := by
  intro chunks
  induction chunks with
  | nil => intro h t hb hs h' t' e; simp [Root.writeChunks] at e; obtain ⟨rfl, rfl⟩ := e; exact hs
  | cons c cs ih =>
    intro h t hb hs h' t' e
    simp only [Root.writeChunks] at e
    cases hu : t.update h dir (Root.writeChunkIn cfg name c) with
    | none => simp [hu] at e
    | some s1 =>
      obtain ⟨h1, t1⟩ := s1
      simp only [hu] at e
      obtain ⟨_, T1⟩ := (update_spec _ _ _ (writeChunkIn_spec cfg name c (h.bytes c)) dir h t hb rfl).2 h1 t1 hu
      have S1 := (update_sync _ _ _ (writeChunkIn_spec cfg name c (h.bytes c)) (writeChunkIn_sync cfg name c _)
        dir h t hb rfl hs h1 t1 hu).1
      exact ih h1 t1 T1.bound S1 h' t' e

theorem writer_sync (cfg : Cfg) (h : Heap) (t : HNode) (hb : Bound h t) (hs : t.Sync h) (raw : Bytes)
    (chunks : List BufId) : (Root.writer cfg h t raw chunks).1.2.Sync (Root.writer cfg h t raw chunks).1.1 := by
  have S1 := openWriter_sync cfg h t hb hs raw
  obtain ⟨_, T1⟩ := openWriter_sim cfg h t hb raw
  unfold Root.writer
  generalize Root.openWriter cfg h t raw = ow at S1 T1 ⊢
  obtain ⟨⟨h1, t1⟩, o⟩ := ow
  cases o with
  | none => exact S1
  | some dn =>
    obtain ⟨dir, name⟩ := dn
    simp only at S1 T1 ⊢
    cases hw : Root.writeChunks cfg h1 t1 dir name chunks with
    | none => exact S1
    | some s2 =>
      obtain ⟨h2, t2⟩ := s2
      exact writeChunks_sync cfg dir name chunks h1 t1 T1.bound S1 h2 t2 hw

theorem mkdirAll_sync (cfg : Cfg) (h : Heap) (t : HNode) (hb : Bound h t) (hs : t.Sync h) (raw : Bytes) :
    (Root.mkdirAll cfg h t raw).1.2.Sync (Root.mkdirAll cfg h t raw).1.1 := by
  unfold Root.mkdirAll
  cases reduceAbsPath raw with
  | none => exact hs
  | some p =>
    simp only
    unfold mkdirAll
    cases reduceAbsPath p with
    | none => exact hs
    | some p' =>
      simp only
      by_cases e : p' = []
      · simp only [e, if_true]; exact hs
      · simp only [e, if_false]
        cases hm : t.mkdirs cfg h (split p') with
        | none => exact hs
        | some s1 =>
          obtain ⟨h1, t1⟩ := s1
          exact (mkdirs_sync cfg _ h t hb hs h1 t1 hm).1

theorem removeNodeByPath_sync (h : Heap) (t : HNode) (hb : Bound h t) (hs : t.Sync h) (p : Bytes) (eo : Bool) :
    ∀ h' t', removeNodeByPath h t p eo = some (h', t') → t'.Sync h' := by
  intro h' t' e
  unfold removeNodeByPath at e
  simp only at e
  cases hl : (split p).getLast? with
  | none => simp [hl] at e
  | some last =>
    simp only [hl] at e
    exact (update_sync _ _ _ (removeIn_spec last eo) (removeIn_sync last eo) _ h t hb trivial hs h' t' e).1

theorem remove_sync (h : Heap) (t : HNode) (hb : Bound h t) (hs : t.Sync h) (raw : Bytes) :
    (Root.remove h t raw).1.2.Sync (Root.remove h t raw).1.1 := by
  unfold Root.remove
  cases reduceAbsPath raw with
  | none => exact hs
  | some p =>
    simp only
    cases hm : removeNodeByPath h t p true with
    | none => exact hs
    | some s1 => obtain ⟨h1, t1⟩ := s1; exact removeNodeByPath_sync h t hb hs p true h1 t1 hm

theorem removeAll_sync (h : Heap) (t : HNode) (hb : Bound h t) (hs : t.Sync h) (raw : Bytes) :
    (Root.removeAll h t raw).1.2.Sync (Root.removeAll h t raw).1.1 := by
  unfold Root.removeAll
  cases reduceAbsPath raw with
  | none => exact hs
  | some p =>
    simp only
    cases hm : removeNodeByPath h t p false with
    | none => exact hs
    | some s1 => obtain ⟨h1, t1⟩ := s1; exact removeNodeByPath_sync h t hb hs p false h1 t1 hm

theorem copyWith_sync (cfg : Cfg) (acc : HNode → Bool) (h : Heap) (t : HNode) (hb : Bound h t) (hs : t.Sync h)
    (rs rd : Bytes) : (Root.copyWith cfg acc h t rs rd).1.2.Sync (Root.copyWith cfg acc h t rs rd).1.1 := by
  unfold Root.copyWith
  cases reduceAbsPath rs with
  | none => exact hs
  | some src =>
    simp only
    cases reduceAbsPath rd with
    | none => exact hs
    | some dst =>
      simp only
      cases MemFS.splitContainsPath dst with
      | none => exact hs
      | some dn =>
        obtain ⟨dirPath, name⟩ := dn
        simp only
        cases hg0 : getNodeByPath t src with
        | none => exact hs
        | some src0 =>
          simp only
          by_cases ha : acc src0 = true
          · simp only [ha, not_true_eq_false, if_false]
            cases hm : t.mkdirs cfg h dirPath with
            | none => exact hs
            | some s1 =>
              obtain ⟨h1, t1⟩ := s1
              obtain ⟨_, T1⟩ := (mkdirs_spec cfg dirPath h t hb).2 h1 t1 hm
              obtain ⟨S1, _⟩ := mkdirs_sync cfg dirPath h t hb hs h1 t1 hm
              simp only
              cases hg1 : getNodeByPath t1 src with
              | none => exact S1
              | some srcNode =>
                simp only
                have hall : ∀ id : Nat, 0 < srcNode.cnt id → id < h1.next := fun id hid =>
                  T1.bound.lt id (Nat.lt_of_lt_of_le hid (getNodeByPath_cnt id t1 srcNode src hg1))
                cases hu : t1.update h1 dirPath (copyIn cfg name srcNode) with
                | none => exact S1
                | some s2 =>
                  obtain ⟨h2, t2⟩ := s2
                  exact (update_sync _ _ _ (copyIn_spec cfg name srcNode (srcNode.deref h1))
                    (copyIn_sync cfg name srcNode _) dirPath h1 t1 T1.bound ⟨hall, rfl⟩ S1 h2 t2 hu).1
          · simp only [ha, not_false_eq_true, if_true]; exact hs

theorem callOn_sync (cfg : Cfg) (hc : cfg.old = false) (ref : FSRef) (h : Heap) (t : HNode) (hb : Bound h t)
    (hs : t.Sync h) (c : HCall) (hargs : ∀ id ∈ c.args, id < h.next ∧ t.cnt id = 0) :
    (callOn cfg ref h t c).1.2.Sync (callOn cfg ref h t c).1.1 := by
  cases c with
  | copy s d =>
    simp only [callOn]
    cases via ref s <;> cases via ref d <;> first | exact hs | exact copyWith_sync cfg _ h t hb hs _ _
  | copyDirectory s d =>
    simp only [callOn]
    cases via ref s <;> cases via ref d <;> first | exact hs | exact copyWith_sync cfg _ h t hb hs _ _
  | copyFile s d =>
    simp only [callOn]
    cases via ref s <;> cases via ref d <;> first | exact hs | exact copyWith_sync cfg _ h t hb hs _ _
  | readDir p =>
    simp only [callOn]
    cases via ref p with
    | none => exact hs
    | some p' => exact sync_of_frame hb hs (readDir_sim cfg hc h t p').2.1
  | isExist p => simp only [callOn]; cases via ref p <;> exact hs
  | isFile p => simp only [callOn]; cases via ref p <;> exact hs
  | isDir p => simp only [callOn]; cases via ref p <;> exact hs
  | mkdirAll p =>
    simp only [callOn]
    cases via ref p with
    | none => exact hs
    | some p' => exact mkdirAll_sync cfg h t hb hs p'
  | readFile p =>
    simp only [callOn]
    cases via ref p with
    | none => exact hs
    | some p' => exact sync_of_frame hb hs (readFile_sim cfg hc h t p').2.1
  | writeFile p data =>
    obtain ⟨hd, hd0⟩ := hargs data (by simp [HCall.args])
    simp only [callOn]
    cases via ref p with
    | none => exact hs
    | some p' => exact writeFile_sync cfg hc h t hb hs p' data hd hd0
  | filespace p => exact hs
  | reader p sizes =>
    simp only [callOn]
    cases via ref p with
    | none => exact hs
    | some p' => exact sync_of_frame hb hs (reader_sim h t p' sizes).2.1
  | writer p cs =>
    simp only [callOn]
    cases via ref p with
    | none => exact hs
    | some p' => exact writer_sync cfg h t hb hs p' cs
  | remove p =>
    simp only [callOn]
    cases viaRm ref p with
    | none => exact hs
    | some p' => exact remove_sync h t hb hs p'
  | removeAll p =>
    simp only [callOn]
    cases viaRm ref p with
    | none => exact hs
    | some p' => exact removeAll_sync h t hb hs p'
  | lstat p => simp only [callOn]; cases via ref p <;> exact hs

/-! ### The world -/

/-- `Sync` is kept by every step of the repaired code (caller steps cannot touch the tree's arrays) -/
theorem sync_step (cfg : Cfg) (hc : cfg.old = false) (w : HWorld) (s : Sep w) (hs : w.root.Sync w.heap)
    (op : HOp) : (w.step cfg op).1.root.Sync (w.step cfg op).1.heap := by
  cases op with
  | alloc d => exact sync_of_frame s.bound hs (frame_allocB _ d)
  | keep _ => exact hs
  | recheck _ => exact hs
  | mutate hd i b =>
    simp only [HWorld.step]
    split
    · next hh =>
      split
      · next h' e =>
        have h0 := s.held_zero hd hh
        refine sync_congr w.heap h' w.root (fun id hid => ?_) hs
        have hne : id ≠ hd.id := fun e' => by subst e'; omegab
        unfold mutateHandle at e
        cases hd with
        | buf id' => simp only at e; split at e <;> simp at e; subst e; rfl
        | listing id' len =>
          simp only at e
          split at e
          · split at e <;> simp at e; subst e
            simp only [Handle.id] at hne
            simp [Heap.setL, hne]
          · simp at e
      · exact hs
    · exact hs
  | call n c =>
    cases hv : w.views[n]? with
    | none => simp only [HWorld.step, hv]; exact hs
    | some ref =>
      by_cases ha : c.args.all (fun id => Handle.buf id ∈ w.held) = true
      · rw [step_call cfg w n c ref hv ha]
        exact callOn_sync cfg hc ref w.heap w.root s.bound hs c (args_ok s c ha)
      · simp only [HWorld.step, hv, ha, Bool.false_eq_true, if_false]; exact hs

theorem sync_init : HWorld.init.root.Sync HWorld.init.heap := by
  simp [HWorld.init, sync_dir, HKids.length, HKids.entries]

theorem sync_run (cfg : Cfg) (hc : cfg.old = false) (w : HWorld) (s : Sep w) (hs : w.root.Sync w.heap)
    (ops : List HOp) : (w.run cfg ops).1.root.Sync (w.run cfg ops).1.heap := by
  induction ops generalizing w with
  | nil => exact hs
  | cons op rest ih => rw [run_cons]; exact ih _ (sep_step cfg hc w s op) (sync_step cfg hc w s hs op)

/-- under `Sync`, the directory found at a path has its entries in its array -/
theorem sync_getNodeByPathNodes (h : Heap) : ∀ (segs : List Name) (n m : HNode), n.Sync h →
    getNodeByPathNodes n segs = some m → m.Sync h := by
  intro segs
  induction segs with
  | nil => intro n m hs e; simp [getNodeByPathNodes] at e; subst e; exact hs
  | cons s rest ih =>
    intro n m hs e
    simp only [getNodeByPathNodes] at e
    split at e
    · exact ih n m hs e
    · cases n with
      | file b => simp at e
      | dir l k =>
        simp only at e
        cases hfs : k.find s with
        | none => simp [hfs] at e
        | some c =>
          simp only [hfs] at e
          exact ih c m (HKids.sync_find h k s c ((sync_dir _ _ _).mp hs).2 hfs) e

theorem sync_getNodeByPath (h : Heap) (t m : HNode) (p : Bytes) (hs : t.Sync h)
    (e : getNodeByPath t p = some m) : m.Sync h := by
  unfold getNodeByPath at e
  split at e
  · simp at e; subst e; exact hs
  · exact sync_getNodeByPathNodes h _ t m hs e

/-- THE ARRAY IS THE LISTING: in every world reachable by the repaired code, the directory `ReadDir`
finds holds exactly its entries in the first `len` places of its node array — so the copy of
`k.entries` that the model's `ReadDir` hands out is the copy of `d.nodes[:len]` the Go code makes. -/
theorem readDir_reads_array (cfg : Cfg) (hc : cfg.old = false) (ops : List HOp) (p : Bytes) (l : BufId)
    (k : HKids) (hg : getDirByPath (HWorld.init.run cfg ops).1.root p = some (l, k)) :
    ((HWorld.init.run cfg ops).1.heap.lists l).take k.length = k.entries := by
  have hs := sync_run cfg hc _ sep_init sync_init ops
  unfold getDirByPath at hg
  cases hn : getNodeByPath (HWorld.init.run cfg ops).1.root p with
  | none => simp [hn] at hg
  | some m =>
    cases m with
    | file b => simp [hn] at hg
    | dir l' k' =>
      simp only [hn, Option.some.injEq, Prod.mk.injEq] at hg
      obtain ⟨rfl, rfl⟩ := hg
      exact ((sync_dir _ _ _).mp (sync_getNodeByPath _ _ _ p hs hn)).1

end MemFSHeap
end Goat
