/-
Helper lemmas for the snapshot clause of C01, part 2: footprints.

  `Frame S h h'`   `h'` is `h` with objects allocated and only objects in `S` overwritten
  `Bound h n`      the ids reachable from `n` are pairwise different and allocated in `h`
  `Tr h n h' n'`   footprint of a tree transformer: it writes only its own or fresh objects, the new
                   tree is made of ids of the old tree and of fresh ids, each at most once
  `NSpec`          a heap-level tree function against its value-level counterpart: same failure,
                   same value after `deref`, footprint `Tr`
  `update_spec`, `mkdirs_spec`, `copyNode_spec`
-/
import Goat.Proofs.MemFSHeap

set_option linter.unusedSimpArgs false
set_option linter.unusedVariables false

namespace Goat
namespace MemFSHeap

open Path (Name)

/-! ### Frames -/

structure Frame (S : BufId → Prop) (h h' : Heap) : Prop where
  next_le : h.next ≤ h'.next
  same : ∀ id, id < h.next → ¬ S id → h'.bytes id = h.bytes id ∧ h'.lists id = h.lists id

theorem Frame.refl (S : BufId → Prop) (h : Heap) : Frame S h h := ⟨Nat.le_refl _, fun _ _ _ => ⟨rfl, rfl⟩⟩

theorem Frame.trans {S S' : BufId → Prop} {h h1 h2 : Heap} (a : Frame S h h1) (b : Frame S' h1 h2)
    (hs : ∀ id, id < h.next → S' id → S id) : Frame S h h2 := by
  refine ⟨Nat.le_trans a.next_le b.next_le, fun id hid hn => ?_⟩
  have h1 := a.same id hid hn
  have h2 := b.same id (Nat.lt_of_lt_of_le hid a.next_le) (fun hs' => hn (hs id hid hs'))
  exact ⟨h2.1.trans h1.1, h2.2.trans h1.2⟩

theorem Frame.weaken {S S' : BufId → Prop} {h h' : Heap} (a : Frame S h h')
    (hs : ∀ id, id < h.next → S id → S' id) : Frame S' h h' :=
  ⟨a.next_le, fun id hid hn => a.same id hid (fun x => hn (hs id hid x))⟩

theorem frame_allocL (h : Heap) (l : Entries) : Frame (fun _ => False) h (h.allocL l).1 := by
  refine ⟨by simp [Heap.allocL], fun id hid _ => ?_⟩
  simp [Heap.allocL, Nat.ne_of_lt hid]

theorem frame_allocB (h : Heap) (d : Bytes) : Frame (fun _ => False) h (h.allocB d).1 := by
  refine ⟨by simp [Heap.allocB], fun id hid _ => ?_⟩
  simp [Heap.allocB, Nat.ne_of_lt hid]

theorem frame_setL (h : Heap) (l : BufId) (x : Entries) : Frame (· = l) h (h.setL l x) := by
  refine ⟨by simp [Heap.setL], fun id hid hn => ?_⟩
  simp [Heap.setL, hn]

theorem frame_setB (h : Heap) (b : BufId) (x : Bytes) : Frame (· = b) h (h.setB b x) := by
  refine ⟨by simp [Heap.setB], fun id hid hn => ?_⟩
  simp [Heap.setB, hn]

@[simp] theorem allocL_id (h : Heap) (l : Entries) : (h.allocL l).2 = h.next := rfl
@[simp] theorem allocB_id (h : Heap) (d : Bytes) : (h.allocB d).2 = h.next := rfl
@[simp] theorem allocL_next (h : Heap) (l : Entries) : (h.allocL l).1.next = h.next + 1 := rfl
@[simp] theorem allocB_next (h : Heap) (d : Bytes) : (h.allocB d).1.next = h.next + 1 := rfl
@[simp] theorem allocL_bytes (h : Heap) (l : Entries) : (h.allocL l).1.bytes = h.bytes := rfl
@[simp] theorem allocB_lists (h : Heap) (d : Bytes) : (h.allocB d).1.lists = h.lists := rfl
@[simp] theorem allocB_bytes_new (h : Heap) (d : Bytes) : (h.allocB d).1.bytes h.next = d := by
  simp [Heap.allocB]
@[simp] theorem allocL_lists_new (h : Heap) (l : Entries) : (h.allocL l).1.lists h.next = l := by
  simp [Heap.allocL]
theorem allocB_bytes_old (h : Heap) (d : Bytes) (id : Nat) (hid : id ≠ h.next) :
    (h.allocB d).1.bytes id = h.bytes id := by simp [Heap.allocB, hid]
@[simp] theorem setL_bytes (h : Heap) (l : BufId) (x : Entries) : (h.setL l x).bytes = h.bytes := rfl
@[simp] theorem setL_next (h : Heap) (l : BufId) (x : Entries) : (h.setL l x).next = h.next := rfl
@[simp] theorem setB_lists (h : Heap) (b : BufId) (x : Bytes) : (h.setB b x).lists = h.lists := rfl
@[simp] theorem setB_next (h : Heap) (b : BufId) (x : Bytes) : (h.setB b x).next = h.next := rfl

/-- `append` on a listing: overwrites only that array or allocates; never touches byte arrays -/
theorem appendEntry_spec (cfg : Cfg) (h : Heap) (l : BufId) (len : Nat) (e : Name × Bool) :
    Frame (· = l) h (appendEntry cfg h l len e).1
    ∧ (appendEntry cfg h l len e).1.bytes = h.bytes
    ∧ (((appendEntry cfg h l len e).2 = l ∧ (appendEntry cfg h l len e).1.next = h.next)
       ∨ ((appendEntry cfg h l len e).2 = h.next ∧ (appendEntry cfg h l len e).1.next = h.next + 1)) := by
  unfold appendEntry
  split
  · exact ⟨(frame_allocL h _).weaken (fun _ _ x => x.elim), rfl, Or.inr ⟨rfl, rfl⟩⟩
  · exact ⟨frame_setL h l _, rfl, Or.inl ⟨rfl, rfl⟩⟩

/-- `append` on a byte array -/
theorem appendBytes_spec (cfg : Cfg) (h : Heap) (b : BufId) (p : Bytes) :
    Frame (· = b) h (appendBytes cfg h b p).1
    ∧ (appendBytes cfg h b p).1.bytes (appendBytes cfg h b p).2 = h.bytes b ++ p
    ∧ (((appendBytes cfg h b p).2 = b ∧ (appendBytes cfg h b p).1.next = h.next)
       ∨ ((appendBytes cfg h b p).2 = h.next ∧ (appendBytes cfg h b p).1.next = h.next + 1)) := by
  unfold appendBytes
  split
  · exact ⟨(frame_allocB h _).weaken (fun _ _ x => x.elim), by simp, Or.inr ⟨rfl, rfl⟩⟩
  · exact ⟨frame_setB h b _, by simp [Heap.setB], Or.inl ⟨rfl, rfl⟩⟩

/-! ### Bounds and footprints -/

/-- the objects of `n` are pairwise different and allocated -/
def Bound (h : Heap) (n : HNode) : Prop := ∀ id : Nat, n.cnt id ≤ if id < h.next then 1 else 0

theorem Bound.le_one {h : Heap} {n : HNode} (b : Bound h n) (id : Nat) : n.cnt id ≤ 1 := by
  have := b id; split at this <;> omegab

theorem Bound.lt {h : Heap} {n : HNode} (b : Bound h n) (id : Nat) (hp : 0 < n.cnt id) : id < h.next := by
  have := b id; split at this <;> omegab

theorem Bound.zero {h : Heap} {n : HNode} (b : Bound h n) (id : Nat) (hp : h.next ≤ id) : n.cnt id = 0 := by
  have := b id; split at this <;> omegab

theorem Bound.mono {h h' : Heap} {n : HNode} (b : Bound h n) (hle : h.next ≤ h'.next) : Bound h' n := by
  intro id; have := b id; split at this <;> split <;> omegab

theorem Bound.child {h : Heap} {l : BufId} {k : HKids} {s : Name} {c : HNode} (b : Bound h (.dir l k))
    (hf : k.find s = some c) : Bound h c := by
  intro id
  have h1 := b id
  have h2 := HKids.cnt_find_le k s c id hf
  rw [cnt_dir] at h1
  split at h1 <;> split <;> split at h1 <;> omegab

structure Tr (h : Heap) (n : HNode) (h' : Heap) (n' : HNode) : Prop where
  frame : Frame (fun id => n.cnt id ≠ 0) h h'
  mono : ∀ id, id < h.next → n'.cnt id ≤ n.cnt id
  bound : Bound h' n'

theorem Tr.refl {h : Heap} {n : HNode} (b : Bound h n) : Tr h n h n := ⟨Frame.refl _ _, fun _ _ => Nat.le_refl _, b⟩

theorem Tr.trans {h h1 h2 : Heap} {n n1 n2 : HNode} (a : Tr h n h1 n1) (b : Tr h1 n1 h2 n2) : Tr h n h2 n2 := by
  refine ⟨a.frame.trans b.frame (fun id hid hs hz => hs ?_), fun id hid => ?_, b.bound⟩
  · have := a.mono id hid; omegab
  · exact Nat.le_trans (b.mono id (Nat.lt_of_lt_of_le hid a.frame.next_le)) (a.mono id hid)

/-- a transformer leaves every tree made of other allocated objects as it was -/
theorem Tr.deref_other {h h' : Heap} {n n' : HNode} (t : Tr h n h' n') (m : HNode)
    (hm : ∀ id, 0 < m.cnt id → id < h.next ∧ n.cnt id = 0) : m.deref h' = m.deref h :=
  deref_congr h h' m (fun id hid => (t.frame.same id (hm id hid).1 (by simp [(hm id hid).2])).1)

/-- a heap-level tree function against its value-level counterpart -/
def NSpec (h : Heap) (n : HNode) (res : Option (Heap × HNode)) (val : Option Node) : Prop :=
  (res = none → val = none) ∧ ∀ h' n', res = some (h', n') → val = some (n'.deref h') ∧ Tr h n h' n'

/-- the same for a function on the content of one directory -/
def FSpec (P : Heap → Prop) (f : Heap → BufId → HKids → Option (Heap × BufId × HKids))
    (g : Kids → Option Kids) : Prop :=
  ∀ h l k, Bound h (.dir l k) → P h →
    (f h l k = none → g (k.deref h) = none)
    ∧ ∀ h' l' k', f h l k = some (h', l', k') →
        g (k.deref h) = some (k'.deref h') ∧ Tr h (.dir l k) h' (.dir l' k')

/-- replacing one child in a changed heap: the other children still read the same -/
theorem set_deref_frame (h h' : Heap) (k : HKids) (s : Name) (c : HNode) (X : Node)
    (hf : k.find s = some c) (hnd : ∀ id, k.cnt id ≤ 1)
    (hb : ∀ id, 0 < k.cnt id → c.cnt id = 0 → h'.bytes id = h.bytes id) :
    (k.deref h').set s X = (k.deref h).set s X := by
  induction k using HKids.rec (motive_1 := fun _ => True) with
  | file => trivial
  | dir => trivial
  | nil => simp [HKids.find] at hf
  | cons n y r _ ih =>
    simp only [HKids.find] at hf
    simp only [deref_cons, Kids.set]
    have hnd' : ∀ id, y.cnt id + r.cnt id ≤ 1 := fun id => by have := hnd id; rwa [cnt_cons] at this
    split at hf
    · next e =>
      cases hf
      simp only [e, if_true]
      rw [derefK_congr h h' r (fun id hid => hb id (by rw [cnt_cons]; omegab) (by have := hnd' id; omegab))]
    · next e =>
      simp only [e, if_false]
      have hc : ∀ id, c.cnt id ≤ r.cnt id := fun id => HKids.cnt_find_le r s c id hf
      rw [deref_congr h h' y (fun id hid => hb id (by rw [cnt_cons]; omegab)
            (by have := hnd' id; have := hc id; omegab)),
          ih hf (fun id => by have := hnd' id; omegab)
            (fun id hid hz => hb id (by rw [cnt_cons]; omegab) hz)]

/-- `update` inherits the specification of the function it applies -/
theorem update_spec (P : Heap → Prop) (f : Heap → BufId → HKids → Option (Heap × BufId × HKids))
    (g : Kids → Option Kids) (hf : FSpec P f g) : ∀ (path : List Name) (h : Heap) (n : HNode), Bound h n → P h →
      NSpec h n (n.update h path f) ((n.deref h).update path g) := by
  intro path
  induction path with
  | nil =>
    intro h n hb hP
    cases n with
    | file b => exact ⟨fun _ => by simp [Node.update], fun h' n' e => by simp [HNode.update] at e⟩
    | dir l k =>
      obtain ⟨h1, h2⟩ := hf h l k hb hP
      simp only [HNode.update, deref_dir, Node.update]
      constructor
      · intro e
        cases hfk : f h l k with
        | none => simp [h1 hfk]
        | some r => obtain ⟨a, b, c⟩ := r; simp [hfk] at e
      · intro h' n' e
        cases hfk : f h l k with
        | none => simp [hfk] at e
        | some r =>
          obtain ⟨a, b, c⟩ := r
          simp [hfk] at e
          obtain ⟨rfl, rfl⟩ := e
          obtain ⟨v, t⟩ := h2 a b c hfk
          simp [v, t]
  | cons s rest ih =>
    intro h n hb hP
    cases n with
    | file b => exact ⟨fun _ => by simp [Node.update], fun h' n' e => by simp [HNode.update] at e⟩
    | dir l k =>
      simp only [HNode.update, deref_dir, Node.update, HKids.find_deref]
      cases hfs : k.find s with
      | none => exact ⟨fun _ => by simp, fun h' n' e => by simp at e⟩
      | some c =>
        have hbc : Bound h c := hb.child hfs
        obtain ⟨i1, i2⟩ := ih h c hbc hP
        simp only [Option.map_some]
        cases hu : c.update h rest f with
        | none => exact ⟨fun _ => by simp [i1 hu], fun h' n' e => by simp at e⟩
        | some r =>
          obtain ⟨h1, c'⟩ := r
          obtain ⟨v, t⟩ := i2 h1 c' hu
          refine ⟨fun e => by simp at e, fun h' n' e => ?_⟩
          simp at e
          obtain ⟨rfl, rfl⟩ := e
          have hk1 : ∀ id, k.cnt id ≤ 1 := fun id => by
            have := hb.le_one id; rw [cnt_dir] at this; omegab
          have hcle : ∀ id, c.cnt id ≤ k.cnt id := fun id => HKids.cnt_find_le k s c id hfs
          constructor
          · simp only [v, deref_dir, HKids.set_deref]
            rw [set_deref_frame h h1 k s c _ hfs hk1 (fun id hid hz =>
              (t.frame.same id (hb.lt id (by rw [cnt_dir]; omegab)) (by simp [hz])).1)]
          · refine ⟨t.frame.weaken (fun id hid hne hz => hne ?_), fun id hid => ?_, fun id => ?_⟩
            · have := hcle id; rw [cnt_dir] at hz; omegab
            · have := HKids.cnt_set_found k s c c' id hfs
              have := t.mono id hid
              rw [cnt_dir, cnt_dir]; omegab
            · have e1 := HKids.cnt_set_found k s c c' id hfs
              have e2 := t.bound id
              have e3 := hb id
              rw [cnt_dir] at e3 ⊢
              by_cases hid : id < h.next
              · have := t.mono id hid
                have := t.frame.next_le
                simp only [hid, if_true] at e3
                have : id < h1.next := by omegab
                simp only [this, if_true]; omegab
              · simp only [hid, if_false] at e3
                have := hcle id
                omegab

/-- appending a child made of fresh objects to a directory whose own array is overwritten or
reallocated -/
theorem tr_add {h h2 : Heap} {l l' : BufId} {k : HKids} {s : Name} {x : HNode} (hb : Bound h (.dir l k))
    (hfs : k.find s = none) (F : Frame (fun id => id = l) h h2)
    (hl' : l' = l ∨ (h.next ≤ l' ∧ l' < h2.next))
    (hx1 : ∀ id : Nat, x.cnt id ≤ 1)
    (hx2 : ∀ id : Nat, 0 < x.cnt id → h.next ≤ id ∧ id < h2.next ∧ id ≠ l') :
    Tr h (.dir l k) h2 (.dir l' (k.set s x)) := by
  have hl : l < h.next := hb.lt l (by rw [cnt_dir]; simp)
  refine ⟨F.weaken (fun id _ e => by subst e; rw [cnt_dir]; simp), fun id hid => ?_, fun id => ?_⟩
  · have e1 := HKids.cnt_set_new k s x id hfs
    rw [cnt_dir, cnt_dir, e1]
    have : x.cnt id = 0 := by
      by_cases c : 0 < x.cnt id
      · have := hx2 id c; omegab
      · omegab
    rcases hl' with rfl | hl'
    · omegab
    · have : ¬ id = l' := by omegab
      simp only [this, if_false]; omegab
  · have e1 := HKids.cnt_set_new k s x id hfs
    have e3 := hb id
    have := F.next_le
    have a1 := hx1 id
    rw [cnt_dir] at e3 ⊢
    rw [e1]
    by_cases hid : id < h.next
    · have hx0 : x.cnt id = 0 := by
        by_cases c : 0 < x.cnt id
        · have := hx2 id c; omegab
        · omegab
      have hlt : id < h2.next := by omegab
      simp only [hid, if_true] at e3
      simp only [hlt, if_true]
      rcases hl' with rfl | hl'
      · omegab
      · have : ¬ id = l' := by omegab
        simp only [this, if_false]; omegab
    · simp only [hid, if_false] at e3
      have hk0 : k.cnt id = 0 := by omegab
      by_cases hil : id = l'
      · subst hil
        have hx0 : x.cnt id = 0 := by
          by_cases c : 0 < x.cnt id
          · have := hx2 id c; omegab
          · omegab
        have hlt : id < h2.next := by
          rcases hl' with e | e <;> omegab
        simp only [hlt, if_true]; omegab
      · simp only [hil, if_false]
        by_cases c : 0 < x.cnt id
        · have := hx2 id c
          have hlt : id < h2.next := by omegab
          simp only [hlt, if_true]; omegab
        · split <;> omegab

/-- replacing a child by the result of a transformer applied to it -/
theorem tr_parent {h h1 : Heap} {l : BufId} {k : HKids} {s : Name} {c c' : HNode} (hb : Bound h (.dir l k))
    (hfs : k.find s = some c) (t : Tr h c h1 c') :
    (HNode.dir l (k.set s c')).deref h1 = .dir ((k.deref h).set s (c'.deref h1))
    ∧ Tr h (.dir l k) h1 (.dir l (k.set s c')) := by
  have hk1 : ∀ id, k.cnt id ≤ 1 := fun id => by
    have := hb.le_one id; rw [cnt_dir] at this; omegab
  have hcle : ∀ id, c.cnt id ≤ k.cnt id := fun id => HKids.cnt_find_le k s c id hfs
  constructor
  · simp only [deref_dir, HKids.set_deref]
    rw [set_deref_frame h h1 k s c _ hfs hk1 (fun id hid hz =>
      (t.frame.same id (hb.lt id (by rw [cnt_dir]; omegab)) (by simp [hz])).1)]
  · refine ⟨t.frame.weaken (fun id hid hne hz => hne ?_), fun id hid => ?_, fun id => ?_⟩
    · have := hcle id; rw [cnt_dir] at hz; omegab
    · have := HKids.cnt_set_found k s c c' id hfs
      have := t.mono id hid
      rw [cnt_dir, cnt_dir]; omegab
    · have e1 := HKids.cnt_set_found k s c c' id hfs
      have e2 := t.bound id
      have e3 := hb id
      rw [cnt_dir] at e3 ⊢
      by_cases hid : id < h.next
      · have := t.mono id hid
        have := t.frame.next_le
        simp only [hid, if_true] at e3
        have : id < h1.next := by omegab
        simp only [this, if_true]; omegab
      · simp only [hid, if_false] at e3
        have := hcle id
        omegab

theorem mkdirs_spec (cfg : Cfg) : ∀ (path : List Name) (h : Heap) (n : HNode), Bound h n →
    NSpec h n (n.mkdirs cfg h path) ((n.deref h).mkdirs path) := by
  intro path
  induction path with
  | nil =>
    intro h n hb
    cases n with
    | file b => exact ⟨fun _ => by simp [Node.mkdirs], fun h' n' e => by simp [HNode.mkdirs] at e⟩
    | dir l k =>
      refine ⟨fun e => by simp [HNode.mkdirs] at e, fun h' n' e => ?_⟩
      simp [HNode.mkdirs] at e
      obtain ⟨rfl, rfl⟩ := e
      exact ⟨by simp [Node.mkdirs], Tr.refl hb⟩
  | cons s rest ih =>
    intro h n hb
    cases n with
    | file b => exact ⟨fun _ => by simp [Node.mkdirs], fun h' n' e => by simp [HNode.mkdirs] at e⟩
    | dir l k =>
      simp only [HNode.mkdirs, deref_dir, Node.mkdirs, HKids.find_deref]
      cases hfs : k.find s with
      | some c =>
        obtain ⟨i1, i2⟩ := ih h c (hb.child hfs)
        simp only [Option.map_some]
        cases hu : c.mkdirs cfg h rest with
        | none => exact ⟨fun _ => by simp [i1 hu], fun h' n' e => by simp at e⟩
        | some r =>
          obtain ⟨h1, c'⟩ := r
          obtain ⟨v, t⟩ := i2 h1 c' hu
          refine ⟨fun e => by simp at e, fun h' n' e => ?_⟩
          simp at e
          obtain ⟨rfl, rfl⟩ := e
          obtain ⟨d, t'⟩ := tr_parent hb hfs t
          exact ⟨by simp only [v, d], t'⟩
      | none =>
        simp only [Option.map_none]
        -- the new directory's array, then the parent's array grows
        have hl : l < h.next := hb.lt l (by rw [cnt_dir]; simp)
        obtain ⟨F2, B2, alt⟩ := appendEntry_spec cfg (h.allocL []).1 l k.length (s, true)
        generalize appendEntry cfg (h.allocL []).1 l k.length (s, true) = ae at F2 B2 alt ⊢
        obtain ⟨h2, l'⟩ := ae
        simp only [allocL_id, allocL_next, allocL_bytes] at F2 B2 alt ⊢
        have hb0 : Bound h2 (.dir h.next .nil) := fun id => by
          rw [cnt_dir, cnt_nil]
          have := F2.next_le; simp only [allocL_next] at this
          by_cases e : id = h.next
          · subst e
            have : h.next < h2.next := by omegab
            simp [this]
          · simp [e]
        obtain ⟨i1, i2⟩ := ih h2 (.dir h.next .nil) hb0
        simp only [deref_dir, deref_nil] at i1 i2
        simp only [Node.empty]
        cases hu : HNode.mkdirs cfg h2 (.dir h.next .nil) rest with
        | none => exact ⟨fun _ => by simp [i1 hu], fun h' n' e => by simp at e⟩
        | some r =>
          obtain ⟨h', c'⟩ := r
          obtain ⟨v, t⟩ := i2 h' c' hu
          refine ⟨fun e => by simp at e, fun h'' n' e => ?_⟩
          simp at e
          obtain ⟨rfl, rfl⟩ := e
          have F02 : Frame (fun id => id = l) h h2 :=
            ((frame_allocL h []).weaken (fun _ _ x => x.elim)).trans F2 (fun id _ x => x)
          have hkb : k.deref h' = k.deref h := derefK_congr h h' k (fun id hid => by
            have hlt : id < h.next := hb.lt id (by rw [cnt_dir]; omegab)
            have := (t.frame.same id (Nat.lt_of_lt_of_le hlt F02.next_le)
              (by rw [cnt_dir, cnt_nil]; simp; omegab)).1
            rw [this, B2])
          constructor
          · simp only [v, deref_dir, HKids.set_deref, hkb]
          · -- first the empty directory is appended, then it is filled
            have hx1 : ∀ id : Nat, (HNode.dir h.next .nil).cnt id ≤ 1 := fun id => by
              rw [cnt_dir, cnt_nil]; split <;> omegab
            have hx2 : ∀ id : Nat, 0 < (HNode.dir h.next .nil).cnt id →
                h.next ≤ id ∧ id < h2.next ∧ id ≠ l' := fun id => by
              rw [cnt_dir, cnt_nil]
              have := F2.next_le; simp only [allocL_next] at this
              split
              · next e => intro _; rcases alt with a | a <;> omegab
              · intro c; omegab
            have hl'' : l' = l ∨ (h.next ≤ l' ∧ l' < h2.next) := by
              rcases alt with a | a
              · exact Or.inl a.1
              · exact Or.inr (by omegab)
            have T1 := tr_add (s := s) hb hfs F02 hl'' hx1 hx2
            have hfs2 : (k.set s (HNode.dir h.next .nil)).find s = some (HNode.dir h.next .nil) := by
              have := HKids.find_set_same k s (HNode.dir h.next .nil); exact this
            obtain ⟨_, T2⟩ := tr_parent (l := l') T1.bound hfs2 t
            rw [HKids.set_set] at T2
            exact T1.trans T2

end MemFSHeap
end Goat
