/-
Refinement lemmas, continued: Writer, Remove, RemoveAll, Copy*, and the queries of the root memory
filespace.  (Helper lemmas for C01.)
-/
import Goat.Proofs.MemFS

namespace Goat

open Path (Name)

namespace Node

/-- `update` applies its function only to the children of the addressed directory -/
theorem update_congr (t : Node) (p : List Name) (f g : Kids → Option Kids) (k : Kids)
    (hk : t.lookup p = some (.dir k)) (hfg : f k = g k) : t.update p f = t.update p g := by
  induction p generalizing t with
  | nil => simp at hk; subst hk; simp [update_dir_nil, hfg]
  | cons s rest ih =>
    cases t with
    | file d => simp at hk
    | dir k0 =>
      rw [lookup_dir_cons] at hk
      cases hf : k0.find s with
      | none => simp [hf] at hk
      | some c =>
        simp [hf] at hk
        rw [update_dir_cons, update_dir_cons, hf]
        simp only [Option.bind_some, ih c hk]

end Node

namespace MemFS

open Path (split join reduceAbsPath norm Reduced Plain NoSlash dotSeg slash)
open FS (Entry State Result Mut)
open MemAbs

theorem Keeps.trans {t t' t'' : Node} {segs : List Name} (a : Keeps t t' segs) (b : Keeps t' t'' segs) :
    Keeps t t'' segs :=
  ⟨b.isDir, b.nodup, fun P hP hs => b.all P (a.all P hP hs) hs⟩

/-! ### Writer -/

theorem writeSt_writeSt (S : State) (q : List Name) (a b : Bytes) :
    FS.writeSt (FS.writeSt S q a) q b = FS.writeSt S q b := by
  funext x
  simp only [FS.writeSt, FS.mkdirSt]
  by_cases h1 : x = q
  · simp [h1]
  · simp only [h1, if_false]
    split <;> rfl

theorem handleWrite_eq (t : Node) (init : List Name) (name : Name) (d c : Bytes)
    (h : t.lookup (init ++ [name]) = some (.file d)) :
    handleWrite t init name c = t.update init (Root.writeIn name (d ++ c)) := by
  obtain ⟨k, hk⟩ := parent_exists_of_child t init name _ h
  have hf : k.find name = some (.file d) := by
    rw [Node.lookup_append, hk] at h
    simp only [Option.bind_some, Node.lookup_dir_cons] at h
    cases hfn : k.find name with
    | none => simp [hfn] at h
    | some n => simpa [hfn] using h
  unfold handleWrite
  apply Node.update_congr t init _ _ k hk
  simp [Root.writeIn, hf]

theorem writeChunks_spec (t : Node) (ht : Inv t) (init : List Name) (name : Name)
    (hr : ∀ s ∈ init ++ [name], Plain s) (chunks : List Bytes) (d : Bytes)
    (h : t.lookup (init ++ [name]) = some (.file d)) :
    ∃ t', Root.writeChunks t init name chunks = some t'
      ∧ abs t' = FS.writeSt (abs t) (init ++ [name]) (d ++ chunks.flatten)
      ∧ Keeps t t' (init ++ [name])
      ∧ t'.lookup (init ++ [name]) = some (.file (d ++ chunks.flatten)) := by
  induction chunks generalizing t d with
  | nil =>
    refine ⟨t, rfl, ?_, Keeps.refl ht _, by simpa using h⟩
    -- writing the same data changes nothing
    funext x
    simp only [List.flatten_nil, List.append_nil, FS.writeSt, dropLast_concat, FS.mkdirSt]
    by_cases hx : x = init ++ [name]
    · subst hx; simp [abs, h, Node.entry]
    · simp only [hx, if_false]
      split
      · next hp =>
        obtain ⟨k, hk⟩ := parent_exists_of_child t init name _ h
        obtain ⟨r, hr'⟩ := hp
        have : abs t x = some .dir := by
          apply abs_parent_dir t x (r ++ [name]) (by simp)
          rw [← List.append_assoc, hr']
          simp [abs, h]
        exact this
      · rfl
  | cons c cs ih =>
    obtain ⟨k, hk⟩ := parent_exists_of_child t init name _ h
    have h1 : t.mkdirs init = some t := Node.mkdirs_eq_self t init k hk
    simp only [Root.writeChunks, handleWrite_eq t init name d c h]
    cases h2 : t.update init (Root.writeIn name (d ++ c)) with
    | none =>
      exfalso
      obtain ⟨hc, _⟩ := put_none t t init name _ _ notDir (writeIn_putLike name (d ++ c)) rfl h1 h2
      simp [h, notDir] at hc
    | some t1 =>
      dsimp only
      obtain ⟨_, habs, hkeep, hlook⟩ :=
        put_write_some t t t1 ht init name (d ++ c) _ (writeIn_putLike name (d ++ c)) h1 h2
      have ht1 : Inv t1 := hkeep.inv ht hr
      obtain ⟨t', e, habs', hkeep', hlook'⟩ := ih t1 ht1 (d ++ c) hlook
      refine ⟨t', e, ?_, hkeep.trans hkeep', ?_⟩
      · rw [habs', habs, writeSt_writeSt]; simp
      · simpa using hlook'

theorem root_writer (t : Node) (ht : Inv t) (raw : Bytes) (chunks : List Bytes) (p : List Name)
    (hn : norm raw = some p) :
    Mut (FS.writeOk (abs t) p) (FS.writeSt (abs t) p chunks.flatten) (abs t)
        (Root.writer t raw chunks).2 (abs (Root.writer t raw chunks).1)
    ∧ Keeps t (Root.writer t raw chunks).1 p
    ∧ ((Root.writer t raw chunks).2 = .err → (Root.writer t raw chunks).1 = t) := by
  have hp := Path.norm_reduced raw p hn
  simp only [Root.writer, Root.openWriter, reduceAbsPath_of_norm hn]
  rcases eq_nil_or_snoc p with rfl | ⟨init, name, rfl⟩
  · simp only [splitContainsPath_nil]
    exact ⟨Or.inr ⟨not_writeOk_nil _, rfl, rfl⟩, Keeps.refl ht _, by simp⟩
  · simp only [splitContainsPath_concat hp]
    cases h1 : t.mkdirs init with
    | none =>
      dsimp only
      exact ⟨Or.inr ⟨put_write_none1 t init name h1, rfl, rfl⟩, Keeps.refl ht _, by simp⟩
    | some t1 =>
      dsimp only
      cases h2 : t1.update init (Root.openIn name) with
      | none =>
        dsimp only
        obtain ⟨hno, e⟩ := put_write_none2 t t1 init name [] _ (openIn_putLike name) h1 h2
        rw [e]
        exact ⟨Or.inr ⟨hno, rfl, rfl⟩, Keeps.refl ht _, by simp⟩
      | some t2 =>
        dsimp only
        obtain ⟨hok, habs, hkeep, hlook⟩ :=
          put_write_some t t1 t2 ht init name [] _ (openIn_putLike name) h1 h2
        have hr : ∀ s ∈ init ++ [name], Plain s := fun s hs => (hp s hs).1
        obtain ⟨t3, e, habs', hkeep', _⟩ :=
          writeChunks_spec t2 (hkeep.inv ht hr) init name hr chunks [] hlook
        simp only [e]
        refine ⟨Or.inl ⟨hok, rfl, ?_⟩, hkeep.trans hkeep', by simp⟩
        rw [habs', habs, writeSt_writeSt]; simp

/-! ### Remove, RemoveAll -/

/-- what a successful `update init (removeIn name eo)` did -/
theorem erase_spec (t t' : Node) (ht : Inv t) (init : List Name) (name : Name) (eo : Bool)
    (h : t.update init (removeIn name eo) = some t') :
    ∃ k n, t.lookup init = some (.dir k) ∧ k.find name = some n ∧ k.NoDup
      ∧ (eo = true → (∃ d, n = .file d) ∨ n = .dir .nil)
      ∧ (∀ x, abs t' x = if init <+: x then abs (.dir (k.erase name)) (x.drop init.length) else abs t x)
      ∧ Keeps t t' [] := by
  obtain ⟨k, k', hk, hfk, hk'⟩ := Node.update_eq_some t t' init _ h
  have hnd : k.NoDup := (Node.nodup_dir k).mp (Node.lookup_nodup t init _ ht.wf.1 hk)
  have hshape : ∀ k0 k0', removeIn name eo k0 = some k0' → k0' = k0.erase name := by
    intro k0 k0' he
    simp only [removeIn, removeNodeByName] at he
    cases hf : k0.find name with
    | none => cases eo <;> simp [hf] at he
    | some n =>
      cases eo with
      | false => simp [hf] at he; exact he.symm
      | true =>
        cases n with
        | file d => simp [hf] at he; exact he.symm
        | dir k2 =>
          simp only [hf, if_true] at he
          split at he
          · simp at he; exact he.symm
          · cases he
  have hk'eq := hshape k k' hfk
  subst hk'eq
  cases hf : k.find name with
  | none => cases eo <;> simp [removeIn, removeNodeByName, hf] at hfk
  | some n =>
    refine ⟨k, n, hk, hf, hnd, ?_, abs_update t t' init _ _ h hk', ?_⟩
    · intro heo
      subst heo
      cases n with
      | file d => exact Or.inl ⟨d, rfl⟩
      | dir k2 =>
        right
        simp only [removeIn, hf, if_true] at hfk
        split at hfk
        · next he => rw [(Kids.isEmpty_eq_nil k2).mp he]
        · cases hfk
    · refine ⟨update_isDir t t' init _ h, ?_, ?_⟩
      · apply Node.update_nodup t t' init _ ht.wf.1 _ h
        intro k0 k0' hk0 he
        rw [hshape k0 k0' he]
        exact Kids.nodup_erase k0 name hk0
      · intro P hP _
        apply Node.update_all t t' init _ hP _ h
        intro k0 k0' hk0 he
        rw [hshape k0 k0' he]
        exact Kids.all_erase k0 name hk0

theorem abs_erase (k : Kids) (hk : k.NoDup) (name : Name) (r : List Name) :
    abs (.dir (k.erase name)) r =
      match r with
      | [] => some .dir
      | m :: r' => if name = m then none else abs (.dir k) (m :: r') := by
  cases r with
  | nil => simp [abs, Node.entry]
  | cons m r' =>
    simp only [abs_dir_cons, Kids.find_erase k name m hk]
    split <;> simp

/-- after erasing `name` in directory `init`: everything at or below `init ++ [name]` is gone,
everything else is as before -/
theorem abs_after_erase (t t' : Node) (init : List Name) (name : Name) (k : Kids)
    (hk : t.lookup init = some (.dir k)) (hnd : k.NoDup)
    (h : ∀ x, abs t' x = if init <+: x then abs (.dir (k.erase name)) (x.drop init.length) else abs t x) :
    abs t' = FS.removeAllSt (abs t) (init ++ [name]) := by
  funext x
  rw [h x]
  simp only [FS.removeAllSt]
  by_cases hx : init <+: x
  · obtain ⟨r, rfl⟩ := hx
    simp only [List.prefix_append, if_true, List.drop_left', abs_erase k hnd]
    cases r with
    | nil =>
      have : ¬ (init ++ [name] <+: init ++ []) := by
        intro hp; have := hp.length_le; simp at this; omega
      simp only [this, if_false]
      simp [abs, hk, Node.entry]
    | cons m r' =>
      by_cases e : name = m
      · subst e
        have : init ++ [name] <+: init ++ name :: r' := ⟨r', by simp⟩
        simp [this]
      · have : ¬ (init ++ [name] <+: init ++ m :: r') := by
          rintro ⟨z, hz⟩
          simp only [List.append_assoc, List.append_cancel_left_eq, List.cons_append,
            List.nil_append, List.cons.injEq] at hz
          exact e hz.1
        simp only [e, this, if_false]
        rw [abs_append, hk]; rfl
  · have : ¬ (init ++ [name] <+: x) := fun hp => hx ((List.prefix_append init [name]).trans hp)
    simp [hx, this]

theorem removeAllOk_iff (t : Node) (init : List Name) (name : Name) :
    FS.removeAllOk (abs t) (init ++ [name]) ↔ t.lookup (init ++ [name]) ≠ none := by
  simp [FS.removeAllOk, abs]

theorem lookup_child (t : Node) (init : List Name) (name : Name) (k : Kids)
    (hk : t.lookup init = some (.dir k)) : t.lookup (init ++ [name]) = k.find name := by
  rw [Node.lookup_append, hk]
  simp only [Option.bind_some, Node.lookup_dir_cons]
  cases k.find name <;> simp

theorem root_removeAll (t : Node) (ht : Inv t) (raw : Bytes) (p : List Name) (hn : norm raw = some p) :
    Mut (FS.removeAllOk (abs t) p) (FS.removeAllSt (abs t) p) (abs t)
        (Root.removeAll t raw).2 (abs (Root.removeAll t raw).1)
    ∧ Keeps t (Root.removeAll t raw).1 []
    ∧ ((Root.removeAll t raw).2 = .err → (Root.removeAll t raw).1 = t) := by
  have hp := Path.norm_reduced raw p hn
  simp only [Root.removeAll, reduceAbsPath_of_norm hn]
  rcases eq_nil_or_snoc p with rfl | ⟨init, name, rfl⟩
  · simp only [removeNodeByPath_nil t ht]
    exact ⟨Or.inr ⟨by simp [FS.removeAllOk], rfl, rfl⟩, Keeps.refl ht _, by simp⟩
  · simp only [removeNodeByPath_concat t hp]
    cases h : t.update init (removeIn name false) with
    | none =>
      dsimp only
      refine ⟨Or.inr ⟨?_, rfl, rfl⟩, Keeps.refl ht _, by simp⟩
      intro hok
      have hne := (removeAllOk_iff t init name).mp hok
      cases hl : t.lookup (init ++ [name]) with
      | none => exact hne hl
      | some n =>
        obtain ⟨k, hk⟩ := parent_exists_of_child t init name n hl
        have := Node.update_eq_none t init _ h k hk
        rw [lookup_child t init name k hk] at hl
        simp [removeIn, removeNodeByName, hl] at this
    | some t' =>
      dsimp only
      obtain ⟨k, n, hk, hf, hnd, _, habs, hkeep⟩ := erase_spec t t' ht init name false h
      refine ⟨Or.inl ⟨?_, rfl, abs_after_erase t t' init name k hk hnd habs⟩, hkeep, by simp⟩
      rw [removeAllOk_iff, lookup_child t init name k hk, hf]
      simp

theorem removeOk_concat_iff (t : Node) (init : List Name) (name : Name) :
    FS.removeOk (abs t) (init ++ [name]) ↔
      ((∃ d, t.lookup (init ++ [name]) = some (.file d)) ∨ t.lookup (init ++ [name]) = some (.dir .nil)) := by
  simp only [FS.removeOk, ne_eq, List.append_eq_nil_iff, List.cons_ne_self, and_false,
    not_false_eq_true, true_and, abs_eq_file, abs_eq_dir]
  constructor
  · rintro (h | ⟨⟨k, hk⟩, hall⟩)
    · exact Or.inl h
    · right
      rw [hk]
      have : k.isEmpty = true := by
        rw [Kids.isEmpty_iff]
        intro n
        have := hall n
        rw [abs_eq_none, lookup_child t (init ++ [name]) n k hk] at this
        exact this
      rw [(Kids.isEmpty_eq_nil k).mp this]
  · rintro (h | h)
    · exact Or.inl h
    · refine Or.inr ⟨⟨_, h⟩, ?_⟩
      intro n
      rw [abs_eq_none, lookup_child t (init ++ [name]) n .nil h]
      rfl

theorem removeSt_eq_removeAllSt (t : Node) (q : List Name)
    (h : (∃ d, t.lookup q = some (.file d)) ∨ t.lookup q = some (.dir .nil)) :
    FS.removeSt (abs t) q = FS.removeAllSt (abs t) q := by
  funext x
  simp only [FS.removeSt, FS.removeAllSt]
  by_cases hx : x = q
  · subst hx; simp
  · simp only [hx, if_false]
    split
    · next hp =>
      obtain ⟨r, rfl⟩ := hp
      have hr : r ≠ [] := fun e => hx (by simp [e])
      rcases h with ⟨d, hd⟩ | hd
      · exact abs_below t q r hr (by simp [abs, hd, Node.entry])
      · rw [abs_append, hd]
        cases r with
        | nil => exact absurd rfl hr
        | cons a b => simp [abs_dir_cons]
    · rfl

theorem root_remove (t : Node) (ht : Inv t) (raw : Bytes) (p : List Name) (hn : norm raw = some p) :
    Mut (FS.removeOk (abs t) p) (FS.removeSt (abs t) p) (abs t)
        (Root.remove t raw).2 (abs (Root.remove t raw).1)
    ∧ Keeps t (Root.remove t raw).1 []
    ∧ ((Root.remove t raw).2 = .err → (Root.remove t raw).1 = t) := by
  have hp := Path.norm_reduced raw p hn
  simp only [Root.remove, reduceAbsPath_of_norm hn]
  rcases eq_nil_or_snoc p with rfl | ⟨init, name, rfl⟩
  · simp only [removeNodeByPath_nil t ht]
    exact ⟨Or.inr ⟨by simp [FS.removeOk], rfl, rfl⟩, Keeps.refl ht _, by simp⟩
  · simp only [removeNodeByPath_concat t hp]
    cases h : t.update init (removeIn name true) with
    | none =>
      dsimp only
      refine ⟨Or.inr ⟨?_, rfl, rfl⟩, Keeps.refl ht _, by simp⟩
      intro hok
      have hcase := (removeOk_concat_iff t init name).mp hok
      have hsome : ∃ n, t.lookup (init ++ [name]) = some n := by
        rcases hcase with ⟨d, hd⟩ | hd
        · exact ⟨_, hd⟩
        · exact ⟨_, hd⟩
      obtain ⟨n, hl⟩ := hsome
      obtain ⟨k, hk⟩ := parent_exists_of_child t init name n hl
      have hnone := Node.update_eq_none t init _ h k hk
      rw [lookup_child t init name k hk] at hcase
      rcases hcase with ⟨d, hd⟩ | hd
      · simp [removeIn, removeNodeByName, hd] at hnone
      · simp [removeIn, removeNodeByName, hd, Kids.isEmpty] at hnone
    | some t' =>
      dsimp only
      obtain ⟨k, n, hk, hf, hnd, hshape, habs, hkeep⟩ := erase_spec t t' ht init name true h
      have hcase : (∃ d, t.lookup (init ++ [name]) = some (.file d))
          ∨ t.lookup (init ++ [name]) = some (.dir .nil) := by
        rw [lookup_child t init name k hk, hf]
        rcases hshape rfl with ⟨d, hd⟩ | hd
        · exact Or.inl ⟨d, by rw [hd]⟩
        · exact Or.inr (by rw [hd])
      refine ⟨Or.inl ⟨(removeOk_concat_iff t init name).mpr hcase, rfl, ?_⟩, hkeep, by simp⟩
      rw [removeSt_eq_removeAllSt t _ hcase]
      exact abs_after_erase t t' init name k hk hnd habs

end MemFS
end Goat
