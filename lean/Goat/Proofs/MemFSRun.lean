/-
Whole histories over a memory filespace and its child views refine `FS.Run`, and every name that is
ever in the tree was supplied by some call.  (Helper lemmas for C01.)
-/
import Goat.Proofs.MemFSStep

namespace Goat
namespace MemFS

open Path (Name split join reduceAbsPath norm Reduced Plain NoSlash dotSeg slash)
open FS (Entry State Result Mut CopyKind Op)
open MemAbs

/-- the open handles after a call through `ref` -/
def viewsNext (views : List FSRef) (ref : FSRef) (op : Op) : List FSRef :=
  match op with
  | .filespace p =>
    match openView ref p with
    | some v => views ++ [v]
    | none => views
  | _ => views

theorem world_step_none (w : World) (h : Nat) (op : Op) (hh : w.views[h]? = none) :
    w.step h op = (w, .err) := by
  simp [World.step, hh]

theorem world_step_some (w : World) (h : Nat) (op : Op) (ref : FSRef) (hh : w.views[h]? = some ref) :
    w.step h op = (⟨(step ref w.root op).1, viewsNext w.views ref op⟩, (step ref w.root op).2) := by
  simp only [World.step, hh, viewsNext]
  cases op <;> try rfl
  case filespace p => cases hv : openView ref p <;> simp [hv]

theorem run_nil (w : World) : w.run [] = (w, []) := rfl

theorem run_cons (w : World) (h : Nat) (op : Op) (rest : List (Nat × Op)) :
    w.run ((h, op) :: rest)
      = (((w.step h op).1.run rest).1, (w.step h op).2 :: ((w.step h op).1.run rest).2) := rfl

theorem viewsNext_bases (views : List FSRef) (ref : FSRef) (h : Nat) (op : Op)
    (hh : views[h]? = some ref) (hg : GoodRef ref) :
    (viewsNext views ref op).map baseOf = FS.viewsAfter (views.map baseOf) h op
    ∧ ∀ v ∈ viewsNext views ref op, v ∈ views ∨ (GoodRef v ∧ ∀ s ∈ baseOf v, s ∈ baseOf ref ∨ s ∈ opSegs op) := by
  have hb : (views.map baseOf)[h]? = some (baseOf ref) := by simp [hh]
  cases op with
  | filespace raw =>
    simp only [viewsNext, FS.viewsAfter, hb]
    cases hn : norm raw with
    | none =>
      simp only [openView_none ref raw hn]
      exact ⟨by simp, fun v hv => Or.inl hv⟩
    | some q =>
      obtain ⟨v, hv, hok⟩ := openView_some ref (baseOf ref) hg raw q hn
      simp only [hv, List.map_append, List.map_cons, List.map_nil, baseOf_of_viewOK hok]
      refine ⟨by simp, ?_⟩
      intro v' hv'
      rcases List.mem_append.mp hv' with h1 | h1
      · exact Or.inl h1
      · simp at h1; subst h1
        refine Or.inr ⟨goodRef_of_viewOK hok, ?_⟩
        rw [baseOf_of_viewOK hok]
        intro s hs
        rcases List.mem_append.mp hs with h2 | h2
        · exact Or.inl h2
        · exact Or.inr (by simp [opSegs, segsOf, hn, h2])
  | _ =>
    all_goals
      simp only [viewsNext, FS.viewsAfter]
      exact ⟨by simp, fun v hv => Or.inl hv⟩

/-- one call in a world -/
theorem world_step_ok (w : World) (hw : WorldOK w) (h : Nat) (op : Op) (ref : FSRef)
    (hh : w.views[h]? = some ref) :
    FS.Step (baseOf ref) (abs w.root) op (w.step h op).2 (abs (w.step h op).1.root)
    ∧ WorldOK (w.step h op).1
    ∧ (w.step h op).1.views.map baseOf = FS.viewsAfter (w.views.map baseOf) h op
    ∧ Keeps w.root (w.step h op).1.root (baseOf ref ++ opSegs op)
    ∧ ((w.step h op).2 = .err → (w.step h op).1.root = w.root) := by
  have hmem : ref ∈ w.views := List.mem_of_getElem? hh
  have hg := hw.views ref hmem
  obtain ⟨hstep, hkeep, herr⟩ := step_refines ref (baseOf ref) hg w.root hw.inv op
  obtain ⟨hv1, hv2⟩ := viewsNext_bases w.views ref h op hh hg
  rw [world_step_some w h op ref hh]
  refine ⟨hstep, ⟨?_, ?_⟩, hv1, hkeep, herr⟩
  · apply hkeep.inv hw.inv
    intro s hs
    rcases List.mem_append.mp hs with h1 | h1
    · exact (hg.reduced s h1).1
    · exact opSegs_plain op s h1
  · intro v hv
    rcases hv2 v hv with h1 | h1
    · exact hw.views v h1
    · exact h1.1

/-- every history refines the specification of histories -/
theorem run_refines_from (w : World) (hw : WorldOK w) (ops : List (Nat × Op)) :
    FS.Run (w.views.map baseOf) (abs w.root) ops (w.run ops).2 (abs (w.run ops).1.root)
    ∧ WorldOK (w.run ops).1 := by
  induction ops generalizing w with
  | nil => exact ⟨⟨rfl, rfl⟩, hw⟩
  | cons x rest ih =>
    obtain ⟨h, op⟩ := x
    rw [run_cons]
    simp only [FS.Run]
    cases hh : w.views[h]? with
    | none =>
      have hb : (w.views.map baseOf)[h]? = none := by simp [hh]
      rw [world_step_none w h op hh]
      simp only [hb]
      exact ⟨⟨_, rfl, (ih w hw).1⟩, (ih w hw).2⟩
    | some ref =>
      have hb : (w.views.map baseOf)[h]? = some (baseOf ref) := by simp [hh]
      obtain ⟨hstep, hok, hviews, _, _⟩ := world_step_ok w hw h op ref hh
      simp only [hb]
      have := ih (w.step h op).1 hok
      rw [hviews] at this
      exact ⟨⟨_, _, _, rfl, hstep, this.1⟩, this.2⟩

/-- results are values: what a history has answered is not changed by anything that follows -/
theorem run_append (w : World) (ops more : List (Nat × Op)) :
    (w.run (ops ++ more)).2 = (w.run ops).2 ++ ((w.run ops).1.run more).2
    ∧ (w.run (ops ++ more)).1 = ((w.run ops).1.run more).1 := by
  induction ops generalizing w with
  | nil => simp [run_nil]
  | cons x rest ih =>
    obtain ⟨h, op⟩ := x
    simp only [List.cons_append, run_cons]
    have := ih (w.step h op).1
    exact ⟨by rw [this.1], this.2⟩

/-! ### names -/

/-- every real name supplied by the calls of a history -/
def supplied (ops : List (Nat × Op)) : List Name := ops.flatMap fun x => opSegs x.2

theorem run_all (P : Name → Prop) (w : World) (hw : WorldOK w) (ops : List (Nat × Op))
    (hroot : w.root.All P) (hviews : ∀ ref ∈ w.views, ∀ s ∈ baseOf ref, P s)
    (hops : ∀ s ∈ supplied ops, P s) : (w.run ops).1.root.All P := by
  induction ops generalizing w with
  | nil => exact hroot
  | cons x rest ih =>
    obtain ⟨h, op⟩ := x
    rw [run_cons]
    have hrest : ∀ s ∈ supplied rest, P s := fun s hs => hops s (by simp [supplied] at hs ⊢; exact Or.inr hs)
    have hop : ∀ s ∈ opSegs op, P s := fun s hs => hops s (by simp [supplied]; exact Or.inl hs)
    cases hh : w.views[h]? with
    | none =>
      rw [world_step_none w h op hh]
      exact ih w hw hroot hviews hrest
    | some ref =>
      have hmem : ref ∈ w.views := List.mem_of_getElem? hh
      obtain ⟨_, hok, _, hkeep, _⟩ := world_step_ok w hw h op ref hh
      apply ih _ hok
      · apply hkeep.all P hroot
        intro s hs
        rcases List.mem_append.mp hs with h1 | h1
        · exact hviews ref hmem s h1
        · exact hop s h1
      · intro v hv s hs
        rw [world_step_some w h op ref hh] at hv
        obtain ⟨_, hv2⟩ := viewsNext_bases w.views ref h op hh (hw.views ref hmem)
        rcases hv2 v hv with h1 | ⟨_, h1⟩
        · exact hviews v h1 s hs
        · rcases h1 s hs with h2 | h2
          · exact hviews ref hmem s h2
          · exact hop s h2
      · exact hrest

end MemFS
end Goat
