/-
One call through any handle (root filespace or child view) refines `FS.Step`; whole histories refine
`FS.Run`.  (Helper lemmas for C01; the property statements are in `Goat/Props/C01.lean`.)
-/
import Goat.Proofs.MemFSCopy

namespace Goat
namespace MemFS

open Path (Name split join reduceAbsPath norm Reduced Plain NoSlash dotSeg slash)
open FS (Entry State Result Mut CopyKind Op)
open MemAbs

/-- `ViewOK ref b`: the handle `ref` is a view rooted at the reduced path `b` (`[]` for the root
filespace; a wrapper's `basePath` is `join b ++ "/"`) -/
def ViewOK : FSRef → List Name → Prop
  | .root, b => b = []
  | .wrap base, b => Reduced b ∧ base = join b ++ [slash]

theorem ViewOK.reduced {ref : FSRef} {b : List Name} (h : ViewOK ref b) : Reduced b := by
  cases ref with
  | root => simp only [ViewOK] at h; subst h; exact Reduced.nil
  | wrap base => exact h.1

/-- the segments a raw path contributes (empty when it climbs out) -/
def segsOf (raw : Bytes) : List Name := (norm raw).getD []

/-- every real name a call supplies -/
def opSegs : Op → List Name
  | .copy s d => segsOf d ++ segsOf s
  | .copyDirectory s d => segsOf d ++ segsOf s
  | .copyFile s d => segsOf d ++ segsOf s
  | .readDir p => segsOf p
  | .isExist p => segsOf p
  | .isFile p => segsOf p
  | .isDir p => segsOf p
  | .mkdirAll p => segsOf p
  | .readFile p => segsOf p
  | .writeFile p _ => segsOf p
  | .filespace p => segsOf p
  | .reader p _ => segsOf p
  | .writer p _ => segsOf p
  | .remove p => segsOf p
  | .removeAll p => segsOf p
  | .lstat p => segsOf p

theorem segsOf_plain (raw : Bytes) : ∀ s ∈ segsOf raw, Plain s := by
  intro s hs
  simp only [segsOf] at hs
  cases hn : norm raw with
  | none => simp [hn] at hs
  | some q => simp [hn] at hs; exact Path.norm_plain raw q hn s hs

theorem opSegs_plain (op : Op) : ∀ s ∈ opSegs op, Plain s := by
  cases op <;> simp only [opSegs, List.mem_append] <;> intro s hs
  all_goals first
    | exact segsOf_plain _ s hs
    | (rcases hs with h | h <;> exact segsOf_plain _ s h)

/-- a single-path method through a handle -/
def viewRun (ref : FSRef) (X : Node → Bytes → Node × Result) (bad : Result) (t : Node) (raw : Bytes) :
    Node × Result :=
  match ref with
  | .root => X t raw
  | .wrap base => Wrap.on1 base raw bad (X t) t

/-- a two-path method through a handle -/
def viewRun2 (ref : FSRef) (X : Node → Bytes → Bytes → Node × Result) (t : Node) (rs rd : Bytes) :
    Node × Result :=
  match ref with
  | .root => X t rs rd
  | .wrap base => Wrap.on2 base rs rd (X t) t

theorem base_join (b q : List Name) : (join b ++ [slash]) ++ join q = join b ++ slash :: join q := by
  simp

theorem viewRun_none (ref : FSRef) (X : Node → Bytes → Node × Result) (bad : Result)
    (hX : ∀ t raw, norm raw = none → X t raw = (t, bad)) (t : Node) (raw : Bytes)
    (hn : norm raw = none) : viewRun ref X bad t raw = (t, bad) := by
  cases ref with
  | root => exact hX t raw hn
  | wrap base => simp [viewRun, Wrap.on1, reduceAbsPath_none hn]

theorem viewRun_some (ref : FSRef) (b : List Name) (hv : ViewOK ref b)
    (X : Node → Bytes → Node × Result) (bad : Result) (t : Node) (raw : Bytes) (q : List Name)
    (hn : norm raw = some q) :
    ∃ raw', norm raw' = some (b ++ q) ∧ viewRun ref X bad t raw = X t raw' := by
  cases ref with
  | root => simp only [ViewOK] at hv; subst hv; exact ⟨raw, by simpa using hn, rfl⟩
  | wrap base =>
    obtain ⟨hb, rfl⟩ := hv
    refine ⟨(join b ++ [slash]) ++ join q, ?_, ?_⟩
    · rw [base_join]; exact Path.norm_base_join b q hb (Path.norm_reduced raw q hn)
    · simp [viewRun, Wrap.on1, reduceAbsPath_of_norm hn]

theorem viewRun2_some (ref : FSRef) (b : List Name) (hv : ViewOK ref b)
    (X : Node → Bytes → Bytes → Node × Result) (t : Node) (rs rd : Bytes) (s d : List Name)
    (hs : norm rs = some s) (hd : norm rd = some d) :
    ∃ rs' rd', norm rs' = some (b ++ s) ∧ norm rd' = some (b ++ d)
      ∧ viewRun2 ref X t rs rd = X t rs' rd' := by
  cases ref with
  | root => simp only [ViewOK] at hv; subst hv; exact ⟨rs, rd, by simpa using hs, by simpa using hd, rfl⟩
  | wrap base =>
    obtain ⟨hb, rfl⟩ := hv
    refine ⟨(join b ++ [slash]) ++ join s, (join b ++ [slash]) ++ join d, ?_, ?_, ?_⟩
    · rw [base_join]; exact Path.norm_base_join b s hb (Path.norm_reduced rs s hs)
    · rw [base_join]; exact Path.norm_base_join b d hb (Path.norm_reduced rd d hd)
    · simp [viewRun2, Wrap.on2, reduceAbsPath_of_norm hs, reduceAbsPath_of_norm hd]

theorem viewRun2_none (ref : FSRef) (X : Node → Bytes → Bytes → Node × Result)
    (hX1 : ∀ t rs rd, norm rs = none → X t rs rd = (t, .err))
    (hX2 : ∀ t rs rd, norm rd = none → X t rs rd = (t, .err))
    (t : Node) (rs rd : Bytes) (h : norm rs = none ∨ norm rd = none) :
    viewRun2 ref X t rs rd = (t, .err) := by
  cases ref with
  | root => rcases h with h | h; exact hX1 t rs rd h; exact hX2 t rs rd h
  | wrap base =>
    simp only [viewRun2, Wrap.on2]
    rcases h with h | h
    · simp [reduceAbsPath_none h]
    · simp only [reduceAbsPath_none h]; cases reduceAbsPath rs <;> rfl

/-! ### opening a child view -/

theorem norm_base (b : List Name) (hb : Reduced b) : norm (join b ++ [slash]) = some b := by
  have := Path.norm_base_join b [] hb Reduced.nil
  simpa [join] using this

theorem openView_some (ref : FSRef) (b : List Name) (hv : ViewOK ref b) (raw : Bytes) (q : List Name)
    (hn : norm raw = some q) : ∃ v, openView ref raw = some v ∧ ViewOK v (b ++ q) := by
  have hq := Path.norm_reduced raw q hn
  cases ref with
  | root =>
    simp only [ViewOK] at hv; subst hv
    refine ⟨.wrap (join q ++ [slash]), by simp [openView, newWrapper, reduceAbsPath_of_norm hn], ?_⟩
    exact ⟨by simpa using hq, by simp⟩
  | wrap base =>
    obtain ⟨hb, rfl⟩ := hv
    have hn' : norm (join b ++ slash :: join q) = some (b ++ q) := Path.norm_base_join b q hb hq
    refine ⟨.wrap (join (b ++ q) ++ [slash]), ?_, hb.append hq, rfl⟩
    simp [openView, newWrapper, reduceAbsPath_of_norm hn, reduceAbsPath_of_norm hn']

theorem openView_none (ref : FSRef) (raw : Bytes) (hn : norm raw = none) : openView ref raw = none := by
  cases ref <;> simp [openView, newWrapper, reduceAbsPath_none hn]

/-! ### one call -/

theorem keeps_view {t t' : Node} {b p : List Name} (raw : Bytes) (hn : norm raw = some p)
    (k : Keeps t t' (b ++ p)) : Keeps t t' (b ++ segsOf raw) := by
  simpa [segsOf, hn] using k

theorem keeps_nil_view {t t' : Node} (segs : List Name) (k : Keeps t t' []) : Keeps t t' segs :=
  k.mono (by simp)

theorem abs_isSome_file (t : Node) (p : List Name) :
    (asFile (t.lookup p)).isSome = match abs t p with | some (.file _) => true | _ => false := by
  simp only [abs]
  cases t.lookup p with
  | none => rfl
  | some n => cases n <;> rfl

theorem abs_isSome_dir (t : Node) (p : List Name) :
    (asDir (t.lookup p)).isSome = match abs t p with | some .dir => true | _ => false := by
  simp only [abs]
  cases t.lookup p with
  | none => rfl
  | some n => cases n <;> rfl

/-- Every call through every handle refines the specification, keeps the invariant, and changes
nothing when it fails. -/
theorem step_refines (ref : FSRef) (b : List Name) (hv : ViewOK ref b) (t : Node) (ht : Inv t) (op : Op) :
    FS.Step b (abs t) op (step ref t op).2 (abs (step ref t op).1)
    ∧ Keeps t (step ref t op).1 (b ++ opSegs op)
    ∧ ((step ref t op).2 = .err → (step ref t op).1 = t) := by
  cases op with
  | mkdirAll raw =>
    have hs : step ref t (.mkdirAll raw) = viewRun ref Root.mkdirAll .err t raw := by cases ref <;> rfl
    rw [hs]; simp only [FS.Step, opSegs]
    cases hn : norm raw with
    | none =>
      rw [viewRun_none ref _ _ (fun t raw h => by simp [Root.mkdirAll, reduceAbsPath_none h]) t raw hn]
      exact ⟨⟨rfl, rfl⟩, Keeps.refl ht _, fun _ => rfl⟩
    | some q =>
      obtain ⟨raw', hn', e⟩ := viewRun_some ref b hv Root.mkdirAll .err t raw q hn
      rw [e]
      have := root_mkdirAll t ht raw' (b ++ q) hn'
      exact ⟨this.1, keeps_view raw hn this.2.1, this.2.2⟩
  | writeFile raw data =>
    have hs : step ref t (.writeFile raw data)
        = viewRun ref (fun t p => Root.writeFile t p data) .err t raw := by cases ref <;> rfl
    rw [hs]; simp only [FS.Step, opSegs]
    cases hn : norm raw with
    | none =>
      rw [viewRun_none ref _ _ (fun t raw h => by simp [Root.writeFile, reduceAbsPath_none h]) t raw hn]
      exact ⟨⟨rfl, rfl⟩, Keeps.refl ht _, fun _ => rfl⟩
    | some q =>
      obtain ⟨raw', hn', e⟩ := viewRun_some ref b hv (fun t p => Root.writeFile t p data) .err t raw q hn
      rw [e]
      have := root_writeFile t ht raw' data (b ++ q) hn'
      exact ⟨this.1, keeps_view raw hn this.2.1, this.2.2⟩
  | writer raw chunks =>
    have hs : step ref t (.writer raw chunks)
        = viewRun ref (fun t p => Root.writer t p chunks) .err t raw := by cases ref <;> rfl
    rw [hs]; simp only [FS.Step, opSegs]
    cases hn : norm raw with
    | none =>
      rw [viewRun_none ref _ _ (fun t raw h => by
        simp [Root.writer, Root.openWriter, reduceAbsPath_none h]) t raw hn]
      exact ⟨⟨rfl, rfl⟩, Keeps.refl ht _, fun _ => rfl⟩
    | some q =>
      obtain ⟨raw', hn', e⟩ := viewRun_some ref b hv (fun t p => Root.writer t p chunks) .err t raw q hn
      rw [e]
      have := root_writer t ht raw' chunks (b ++ q) hn'
      exact ⟨this.1, keeps_view raw hn this.2.1, this.2.2⟩
  | remove raw =>
    simp only [FS.Step, opSegs]
    cases hn : norm raw with
    | none =>
      have : step ref t (.remove raw) = (t, .err) := by
        cases ref <;> simp [step, Root.remove, Wrap.remove, reduceAbsPath_none hn]
      rw [this]
      exact ⟨⟨rfl, rfl⟩, Keeps.refl ht _, fun _ => rfl⟩
    | some q =>
      have hq := Path.norm_reduced raw q hn
      dsimp only
      cases ref with
      | root =>
        simp only [ViewOK] at hv; subst hv
        have := root_remove t ht raw q hn
        simp only [step, List.nil_append]
        refine ⟨?_, keeps_nil_view _ this.2.1, this.2.2⟩
        rcases this.1 with ⟨h1, h2, h3⟩ | ⟨h1, h2, h3⟩
        · exact Or.inl ⟨⟨h1.1, h1⟩, h2, h3⟩
        · exact Or.inr ⟨fun h => h1 h.2, h2, h3⟩
      | wrap base =>
        obtain ⟨hb, rfl⟩ := hv
        simp only [step, Wrap.remove, reduceAbsPath_of_norm hn]
        by_cases hnil : q = []
        · subst hnil
          simp only [join, if_true]
          exact ⟨Or.inr ⟨by simp, rfl, rfl⟩, Keeps.refl ht _, by simp⟩
        · have hj : join q ≠ [] := fun e => hnil ((join_eq_nil hq).mp e)
          simp only [hj, if_false]
          have hn' : norm ((join b ++ [slash]) ++ join q) = some (b ++ q) := by
            rw [base_join]; exact Path.norm_base_join b q hb hq
          have := root_remove t ht _ (b ++ q) hn'
          refine ⟨?_, keeps_nil_view _ this.2.1, this.2.2⟩
          rcases this.1 with ⟨h1, h2, h3⟩ | ⟨h1, h2, h3⟩
          · exact Or.inl ⟨⟨hnil, h1⟩, h2, h3⟩
          · exact Or.inr ⟨fun h => h1 h.2, h2, h3⟩
  | removeAll raw =>
    simp only [FS.Step, opSegs]
    cases hn : norm raw with
    | none =>
      have : step ref t (.removeAll raw) = (t, .err) := by
        cases ref <;> simp [step, Root.removeAll, Wrap.removeAll, reduceAbsPath_none hn]
      rw [this]
      exact ⟨⟨rfl, rfl⟩, Keeps.refl ht _, fun _ => rfl⟩
    | some q =>
      have hq := Path.norm_reduced raw q hn
      dsimp only
      cases ref with
      | root =>
        simp only [ViewOK] at hv; subst hv
        have := root_removeAll t ht raw q hn
        simp only [step, List.nil_append]
        refine ⟨?_, keeps_nil_view _ this.2.1, this.2.2⟩
        rcases this.1 with ⟨h1, h2, h3⟩ | ⟨h1, h2, h3⟩
        · exact Or.inl ⟨⟨h1.1, h1⟩, h2, h3⟩
        · exact Or.inr ⟨fun h => h1 h.2, h2, h3⟩
      | wrap base =>
        obtain ⟨hb, rfl⟩ := hv
        simp only [step, Wrap.removeAll, reduceAbsPath_of_norm hn]
        by_cases hnil : q = []
        · subst hnil
          simp only [join, if_true]
          exact ⟨Or.inr ⟨by simp, rfl, rfl⟩, Keeps.refl ht _, by simp⟩
        · have hj : join q ≠ [] := fun e => hnil ((join_eq_nil hq).mp e)
          simp only [hj, if_false]
          have hn' : norm ((join b ++ [slash]) ++ join q) = some (b ++ q) := by
            rw [base_join]; exact Path.norm_base_join b q hb hq
          have := root_removeAll t ht _ (b ++ q) hn'
          refine ⟨?_, keeps_nil_view _ this.2.1, this.2.2⟩
          rcases this.1 with ⟨h1, h2, h3⟩ | ⟨h1, h2, h3⟩
          · exact Or.inl ⟨⟨hnil, h1⟩, h2, h3⟩
          · exact Or.inr ⟨fun h => h1 h.2, h2, h3⟩
  | copy rs rd =>
    have hs : step ref t (.copy rs rd) = viewRun2 ref (Root.copyWith (acceptOf .any)) t rs rd := by
      cases ref <;> rfl
    rw [hs]; simp only [FS.Step, opSegs]
    cases hns : norm rs with
    | none =>
      rw [viewRun2_none ref _ (copyWith_none_src _) (copyWith_none_dst _) t rs rd (Or.inl hns)]
      exact ⟨⟨rfl, rfl⟩, Keeps.refl ht _, fun _ => rfl⟩
    | some s =>
      cases hnd : norm rd with
      | none =>
        rw [viewRun2_none ref _ (copyWith_none_src _) (copyWith_none_dst _) t rs rd (Or.inr hnd)]
        exact ⟨⟨rfl, rfl⟩, Keeps.refl ht _, fun _ => rfl⟩
      | some d =>
        obtain ⟨rs', rd', h1, h2, e⟩ := viewRun2_some ref b hv (Root.copyWith (acceptOf .any)) t rs rd s d hns hnd
        rw [e]
        have := root_copyWith .any t ht rs' rd' (b ++ s) (b ++ d) h1 h2
        refine ⟨this.1, this.2.1.mono ?_, this.2.2⟩
        intro x hx; simp [segsOf, hns, hnd] at hx ⊢; rcases hx with h | h | h | h <;> simp [h]
  | copyDirectory rs rd =>
    have hs : step ref t (.copyDirectory rs rd) = viewRun2 ref (Root.copyWith (acceptOf .dirOnly)) t rs rd := by
      cases ref <;> rfl
    rw [hs]; simp only [FS.Step, opSegs]
    cases hns : norm rs with
    | none =>
      rw [viewRun2_none ref _ (copyWith_none_src _) (copyWith_none_dst _) t rs rd (Or.inl hns)]
      exact ⟨⟨rfl, rfl⟩, Keeps.refl ht _, fun _ => rfl⟩
    | some s =>
      cases hnd : norm rd with
      | none =>
        rw [viewRun2_none ref _ (copyWith_none_src _) (copyWith_none_dst _) t rs rd (Or.inr hnd)]
        exact ⟨⟨rfl, rfl⟩, Keeps.refl ht _, fun _ => rfl⟩
      | some d =>
        obtain ⟨rs', rd', h1, h2, e⟩ := viewRun2_some ref b hv (Root.copyWith (acceptOf .dirOnly)) t rs rd s d hns hnd
        rw [e]
        have := root_copyWith .dirOnly t ht rs' rd' (b ++ s) (b ++ d) h1 h2
        refine ⟨this.1, this.2.1.mono ?_, this.2.2⟩
        intro x hx; simp [segsOf, hns, hnd] at hx ⊢; rcases hx with h | h | h | h <;> simp [h]
  | copyFile rs rd =>
    have hs : step ref t (.copyFile rs rd) = viewRun2 ref (Root.copyWith (acceptOf .fileOnly)) t rs rd := by
      cases ref <;> rfl
    rw [hs]; simp only [FS.Step, opSegs]
    cases hns : norm rs with
    | none =>
      rw [viewRun2_none ref _ (copyWith_none_src _) (copyWith_none_dst _) t rs rd (Or.inl hns)]
      exact ⟨⟨rfl, rfl⟩, Keeps.refl ht _, fun _ => rfl⟩
    | some s =>
      cases hnd : norm rd with
      | none =>
        rw [viewRun2_none ref _ (copyWith_none_src _) (copyWith_none_dst _) t rs rd (Or.inr hnd)]
        exact ⟨⟨rfl, rfl⟩, Keeps.refl ht _, fun _ => rfl⟩
      | some d =>
        obtain ⟨rs', rd', h1, h2, e⟩ := viewRun2_some ref b hv (Root.copyWith (acceptOf .fileOnly)) t rs rd s d hns hnd
        rw [e]
        have := root_copyWith .fileOnly t ht rs' rd' (b ++ s) (b ++ d) h1 h2
        refine ⟨this.1, this.2.1.mono ?_, this.2.2⟩
        intro x hx; simp [segsOf, hns, hnd] at hx ⊢; rcases hx with h | h | h | h <;> simp [h]
  | readFile raw =>
    have hs : step ref t (.readFile raw) = viewRun ref (fun t p => (t, Root.readFile t p)) .err t raw := by
      cases ref <;> rfl
    rw [hs]; simp only [FS.Step, opSegs]
    cases hn : norm raw with
    | none =>
      rw [viewRun_none ref _ _ (fun t raw h => by simp [Root.readFile, reduceAbsPath_none h]) t raw hn]
      exact ⟨⟨rfl, rfl⟩, Keeps.refl ht _, fun _ => rfl⟩
    | some q =>
      obtain ⟨raw', hn', e⟩ := viewRun_some ref b hv (fun t p => (t, Root.readFile t p)) .err t raw q hn
      rw [e]
      refine ⟨⟨rfl, ?_⟩, Keeps.refl ht _, fun _ => rfl⟩
      dsimp only
      cases he : abs t (b ++ q) with
      | none =>
        exact root_readFile_other t raw' (b ++ q) hn' (fun d hd => by simp [abs, hd] at he)
      | some en =>
        cases en with
        | file d => exact root_readFile_file t raw' (b ++ q) d hn' ((abs_eq_file ..).mp he)
        | dir => exact root_readFile_other t raw' (b ++ q) hn' (fun d hd => by simp [abs, hd, Node.entry] at he)
  | reader raw sizes =>
    have hs : step ref t (.reader raw sizes)
        = viewRun ref (fun t p => (t, Root.reader t p sizes)) .err t raw := by cases ref <;> rfl
    rw [hs]; simp only [FS.Step, opSegs]
    cases hn : norm raw with
    | none =>
      rw [viewRun_none ref _ _ (fun t raw h => by simp [Root.reader, reduceAbsPath_none h]) t raw hn]
      exact ⟨⟨rfl, rfl⟩, Keeps.refl ht _, fun _ => rfl⟩
    | some q =>
      obtain ⟨raw', hn', e⟩ := viewRun_some ref b hv (fun t p => (t, Root.reader t p sizes)) .err t raw q hn
      rw [e]
      refine ⟨⟨rfl, ?_⟩, Keeps.refl ht _, fun _ => rfl⟩
      dsimp only
      cases he : abs t (b ++ q) with
      | none =>
        exact root_reader_other t raw' sizes (b ++ q) hn' (fun d hd => by simp [abs, hd] at he)
      | some en =>
        cases en with
        | file d => exact root_reader_file t raw' sizes (b ++ q) d hn' ((abs_eq_file ..).mp he)
        | dir => exact root_reader_other t raw' sizes (b ++ q) hn' (fun d hd => by simp [abs, hd, Node.entry] at he)
  | readDir raw =>
    have hs : step ref t (.readDir raw) = viewRun ref (fun t p => (t, Root.readDir t p)) .err t raw := by
      cases ref <;> rfl
    rw [hs]; simp only [FS.Step, opSegs]
    cases hn : norm raw with
    | none =>
      rw [viewRun_none ref _ _ (fun t raw h => by simp [Root.readDir, reduceAbsPath_none h]) t raw hn]
      exact ⟨⟨rfl, rfl⟩, Keeps.refl ht _, fun _ => rfl⟩
    | some q =>
      obtain ⟨raw', hn', e⟩ := viewRun_some ref b hv (fun t p => (t, Root.readDir t p)) .err t raw q hn
      rw [e]
      refine ⟨⟨rfl, ?_⟩, Keeps.refl ht _, fun _ => rfl⟩
      dsimp only
      cases he : abs t (b ++ q) with
      | none =>
        exact root_readDir_other t raw' (b ++ q) hn' (fun k hk => by simp [abs, hk] at he)
      | some en =>
        cases en with
        | file d => exact root_readDir_other t raw' (b ++ q) hn' (fun k hk => by simp [abs, hk, Node.entry] at he)
        | dir =>
          obtain ⟨k, hk⟩ := (abs_eq_dir ..).mp he
          exact ⟨k.entries, root_readDir_dir t raw' (b ++ q) k hn' hk, isListing_entries t ht (b ++ q) k hk⟩
  | isExist raw =>
    have hs : step ref t (.isExist raw)
        = viewRun ref (fun t p => (t, Root.isExist t p)) (.bool false) t raw := by cases ref <;> rfl
    rw [hs]; simp only [FS.Step, opSegs]
    cases hn : norm raw with
    | none =>
      rw [viewRun_none ref _ _ (fun t raw h => by simp [Root.isExist, reduceAbsPath_none h]) t raw hn]
      exact ⟨⟨rfl, rfl⟩, Keeps.refl ht _, fun _ => rfl⟩
    | some q =>
      obtain ⟨raw', hn', e⟩ := viewRun_some ref b hv (fun t p => (t, Root.isExist t p)) (.bool false) t raw q hn
      rw [e]
      exact ⟨⟨rfl, root_isExist t raw' (b ++ q) hn'⟩, Keeps.refl ht _, fun _ => rfl⟩
  | isFile raw =>
    have hs : step ref t (.isFile raw)
        = viewRun ref (fun t p => (t, Root.isFile t p)) (.bool false) t raw := by cases ref <;> rfl
    rw [hs]; simp only [FS.Step, opSegs]
    cases hn : norm raw with
    | none =>
      rw [viewRun_none ref _ _ (fun t raw h => by simp [Root.isFile, reduceAbsPath_none h]) t raw hn]
      exact ⟨⟨rfl, rfl⟩, Keeps.refl ht _, fun _ => rfl⟩
    | some q =>
      obtain ⟨raw', hn', e⟩ := viewRun_some ref b hv (fun t p => (t, Root.isFile t p)) (.bool false) t raw q hn
      rw [e]
      refine ⟨⟨rfl, ?_⟩, Keeps.refl ht _, fun _ => rfl⟩
      dsimp only
      rw [root_isFile t raw' (b ++ q) hn', abs_isSome_file]
      cases abs t (b ++ q) with
      | none => rfl
      | some en => cases en <;> rfl
  | isDir raw =>
    have hs : step ref t (.isDir raw)
        = viewRun ref (fun t p => (t, Root.isDir t p)) (.bool false) t raw := by cases ref <;> rfl
    rw [hs]; simp only [FS.Step, opSegs]
    cases hn : norm raw with
    | none =>
      rw [viewRun_none ref _ _ (fun t raw h => by simp [Root.isDir, reduceAbsPath_none h]) t raw hn]
      exact ⟨⟨rfl, rfl⟩, Keeps.refl ht _, fun _ => rfl⟩
    | some q =>
      obtain ⟨raw', hn', e⟩ := viewRun_some ref b hv (fun t p => (t, Root.isDir t p)) (.bool false) t raw q hn
      rw [e]
      refine ⟨⟨rfl, ?_⟩, Keeps.refl ht _, fun _ => rfl⟩
      dsimp only
      rw [root_isDir t raw' (b ++ q) hn', abs_isSome_dir]
      cases abs t (b ++ q) with
      | none => rfl
      | some en => cases en <;> rfl
  | lstat raw =>
    have hs : step ref t (.lstat raw) = viewRun ref (fun t p => (t, Root.lstat t p)) .err t raw := by
      cases ref <;> rfl
    rw [hs]; simp only [FS.Step, opSegs]
    cases hn : norm raw with
    | none =>
      rw [viewRun_none ref _ _ (fun t raw h => by simp [Root.lstat, reduceAbsPath_none h]) t raw hn]
      exact ⟨⟨rfl, rfl⟩, Keeps.refl ht _, fun _ => rfl⟩
    | some q =>
      obtain ⟨raw', hn', e⟩ := viewRun_some ref b hv (fun t p => (t, Root.lstat t p)) .err t raw q hn
      rw [e]
      refine ⟨⟨rfl, ?_⟩, Keeps.refl ht _, fun _ => rfl⟩
      dsimp only
      rw [root_lstat t raw' (b ++ q) hn']
      simp only [abs]
      cases t.lookup (b ++ q) with
      | none => rfl
      | some n => cases n <;> rfl
  | filespace raw =>
    simp only [FS.Step, opSegs, step]
    cases hn : norm raw with
    | none =>
      simp only [openView_none ref raw hn]
      exact ⟨by simp, Keeps.refl ht _, by simp⟩
    | some q =>
      obtain ⟨v, hv', _⟩ := openView_some ref b hv raw q hn
      simp only [hv']
      exact ⟨by simp, Keeps.refl ht _, by simp⟩

/-! ### histories -/

/-- the root path of a handle (determined by its `basePath`) -/
def baseOf : FSRef → List Name
  | .root => []
  | .wrap base => (norm base).getD []

theorem baseOf_of_viewOK {ref : FSRef} {b : List Name} (h : ViewOK ref b) : baseOf ref = b := by
  cases ref with
  | root => simp only [ViewOK] at h; simp [baseOf, h]
  | wrap base =>
    obtain ⟨hb, rfl⟩ := h
    simp [baseOf, norm_base b hb]

/-- a handle produced by `Filespace` calls -/
def GoodRef (ref : FSRef) : Prop := ViewOK ref (baseOf ref)

theorem goodRef_of_viewOK {ref : FSRef} {b : List Name} (h : ViewOK ref b) : GoodRef ref := by
  unfold GoodRef; rw [baseOf_of_viewOK h]; exact h

/-- invariant of a world: the root tree is well formed and every open handle is a proper view -/
structure WorldOK (w : World) : Prop where
  inv : Inv w.root
  views : ∀ ref ∈ w.views, GoodRef ref

theorem worldOK_init : WorldOK World.init :=
  ⟨inv_empty, by intro ref h; simp [World.init] at h; subst h; simp [GoodRef, ViewOK, baseOf]⟩

theorem abs_empty : abs Node.empty = FS.State.empty := by
  funext q
  cases q with
  | nil => simp [abs, FS.State.empty, Node.empty, Node.entry]
  | cons a r => simp [abs, FS.State.empty, Node.empty, Node.lookup]

end MemFS
end Goat
