/-
Helper lemmas for property C15, part 1: lock maps (`sortRows`), the rows a holder holds, the
shape of one step, and how a step changes the list of holders.
The model is `Goat/Model/Mutex.lean`; nothing here changes a definition of the model.
-/
import Goat.Model.Mutex

namespace Goat.Mutex

/-! ### `sortRows` produces a strictly sorted list from a map with distinct keys -/

theorem mem_insertRow {r x : Row} {l : List Row} : x ∈ insertRow r l ↔ x = r ∨ x ∈ l := by
  induction l with
  | nil => simp [insertRow]
  | cons y ys ih =>
    unfold insertRow
    split
    · simp
    · simp [ih]; constructor
      · rintro (h | h | h) <;> simp [h]
      · rintro (h | h | h) <;> simp [h]

theorem mem_sortRows {x : Row} {l : List Row} : x ∈ sortRows l ↔ x ∈ l := by
  induction l with
  | nil => simp [sortRows]
  | cons y ys ih => simp [sortRows, mem_insertRow, ih]

theorem sorted_insertRow {r : Row} {l : List Row} (hl : Sorted l) (hr : ∀ x ∈ l, x.1 ≠ r.1) :
    Sorted (insertRow r l) := by
  induction l with
  | nil => simp [insertRow, Sorted]
  | cons y ys ih =>
    unfold Sorted at hl
    simp only [List.map_cons, List.pairwise_cons] at hl
    unfold insertRow
    split
    · rename_i hle
      have hne : y.1 ≠ r.1 := hr y (by simp)
      have hlt : r.1 < y.1 := Nat.lt_of_le_of_ne hle (Ne.symm hne)
      unfold Sorted
      simp only [List.map_cons, List.pairwise_cons]
      refine ⟨?_, hl.1, hl.2⟩
      intro a ha
      rcases List.mem_cons.mp ha with rfl | ha
      · exact hlt
      · exact Nat.lt_trans hlt (hl.1 a ha)
    · rename_i hle
      have hlt : y.1 < r.1 := Nat.lt_of_not_le hle
      have ih' := ih hl.2 (fun x hx => hr x (List.mem_cons_of_mem _ hx))
      unfold Sorted
      simp only [List.map_cons, List.pairwise_cons]
      refine ⟨?_, ih'⟩
      intro a ha
      obtain ⟨x, hx, rfl⟩ := List.mem_map.mp ha
      rcases mem_insertRow.mp hx with rfl | hx
      · exact hlt
      · exact hl.1 x.1 (List.mem_map.mpr ⟨x, hx, rfl⟩)

theorem sorted_sortRows {m : LockMap} (h : NodupNames m) : Sorted (sortRows m) := by
  induction m with
  | nil => simp [sortRows, Sorted]
  | cons r rs ih =>
    unfold NodupNames at h
    simp only [List.map_cons, List.nodup_cons] at h
    simp only [sortRows]
    apply sorted_insertRow (ih h.2)
    intro x hx heq
    apply h.1
    rw [← heq]
    exact List.mem_map.mpr ⟨x, mem_sortRows.mp hx, rfl⟩

/-! ### Sorted request lists: names held are smaller than the name awaited -/

theorem sorted_take_lt_get {req : List Row} (hs : Sorted req) {k : Nat} {r r' : Row}
    (hr : r ∈ req.take k) (hr' : req[k]? = some r') : r.1 < r'.1 := by
  have hk : k < req.length := by
    rcases Nat.lt_or_ge k req.length with h | h
    · exact h
    · simp [List.getElem?_eq_none h] at hr'
  have hsplit : req = req.take k ++ req.drop k := (List.take_append_drop k req).symm
  unfold Sorted at hs
  rw [hsplit, List.map_append, List.pairwise_append] at hs
  apply hs.2.2 r.1 (List.mem_map.mpr ⟨r, hr, rfl⟩) r'.1
  apply List.mem_map.mpr
  refine ⟨r', ?_, rfl⟩
  rw [List.drop_eq_getElem_cons hk]
  rw [List.getElem?_eq_getElem hk] at hr'
  simp at hr'
  simp [hr']

theorem sorted_get_notin_drop {req : List Row} (hs : Sorted req) {u : Nat} {r r' : Row}
    (hr : req[u]? = some r) (hr' : r' ∈ req.drop (u + 1)) : r.1 < r'.1 := by
  have hu : u < req.length := by
    rcases Nat.lt_or_ge u req.length with h | h
    · exact h
    · simp [List.getElem?_eq_none h] at hr
  have hmem : r ∈ req.take (u + 1) := by
    rw [List.take_add_one, hr]; simp
  have hsplit : req = req.take (u + 1) ++ req.drop (u + 1) := (List.take_append_drop _ req).symm
  unfold Sorted at hs
  rw [hsplit, List.map_append, List.pairwise_append] at hs
  exact hs.2.2 r.1 (List.mem_map.mpr ⟨r, hmem, rfl⟩) r'.1 (List.mem_map.mpr ⟨r', hr', rfl⟩)

theorem sorted_names_inj {req : List Row} (hs : Sorted req) {m : Name} {w w' : Bool}
    (h1 : (m, w) ∈ req) (h2 : (m, w') ∈ req) : w = w' := by
  induction req with
  | nil => simp at h1
  | cons x xs ih =>
    unfold Sorted at hs
    simp only [List.map_cons, List.pairwise_cons] at hs
    rcases List.mem_cons.mp h1 with e1 | h1 <;> rcases List.mem_cons.mp h2 with e2 | h2
    · rw [← e1] at e2; simpa using e2.symm
    · have := hs.1 m (List.mem_map.mpr ⟨(m, w'), h2, rfl⟩); rw [← e1] at this; simp at this
    · have := hs.1 m (List.mem_map.mpr ⟨(m, w), h1, rfl⟩); rw [← e2] at this; simp at this
    · exact ih hs.2 h1 h2

/-! ### What a holder holds -/

theorem held_sub_req (h : Holder) {r : Row} (hr : r ∈ h.held) : r ∈ h.req := by
  unfold Holder.held at hr
  split at hr
  · exact List.mem_of_mem_take hr
  · exact hr
  · exact List.mem_of_mem_drop hr
  · simp at hr

theorem held_done {h : Holder} (hd : h.pc = .done) : h.held = [] := by
  simp [Holder.held, hd]

theorem held_inside {h : Holder} (hd : h.pc = .inside) : h.held = h.req := by
  simp [Holder.held, hd]

/-- in a sorted request list every row held while acquiring is strictly below the awaited row -/
theorem held_lt_awaited {h : Holder} (hs : Sorted h.req) {k : Nat} {ph : Phase}
    (hpc : h.pc = .acq k ph) {r r' : Row} (hr : r ∈ h.held) (hr' : h.req[k]? = some r') :
    r.1 < r'.1 := by
  simp only [Holder.held, hpc] at hr
  exact sorted_take_lt_get hs hr hr'

/-! ### Boolean observers as propositions -/

theorem writeHeld_iff {s : State} {m : Name} :
    writeHeld s m = true ↔ ∃ h ∈ s, (m, true) ∈ h.held := by
  simp [writeHeld, List.any_eq_true]

theorem readHeld_iff {s : State} {m : Name} :
    readHeld s m = true ↔ ∃ h ∈ s, (m, false) ∈ h.held := by
  simp [readHeld, List.any_eq_true]

theorem writerPresent_iff {s : State} {m : Name} :
    writerPresent s m = true ↔ ∃ h ∈ s, h.present m = true := by
  simp [writerPresent, List.any_eq_true]

theorem present_iff {h : Holder} {m : Name} :
    h.present m = true ↔ h.announcedOn m = true ∨ (m, true) ∈ h.held := by
  simp [Holder.present]

theorem announcedOn_iff {h : Holder} {m : Name} :
    h.announcedOn m = true ↔ ∃ k, h.pc = .acq k .announced ∧ h.req[k]? = some (m, true) := by
  unfold Holder.announcedOn
  split
  · rename_i k hpc; simp [hpc]
  · rename_i hne
    constructor
    · intro h; cases h
    · rintro ⟨k, hk, _⟩; exact absurd hk (hne k)

theorem rwaitOn_iff {h : Holder} {m : Name} :
    h.rwaitOn m = true ↔ ∃ k, h.pc = .acq k .rwait ∧ h.req[k]? = some (m, false) := by
  unfold Holder.rwaitOn
  split
  · rename_i k hpc; simp [hpc]
  · rename_i hne
    constructor
    · intro h; cases h
    · rintro ⟨k, hk, _⟩; exact absurd hk (hne k)

/-! ### Looking up a holder after a step -/

theorem getElem?_set' {α} (l : List α) (i j : Nat) (a : α) :
    (l.set i a)[j]? = if j = i then (l[i]?).map (fun _ => a) else l[j]? := by
  rw [List.getElem?_set]
  by_cases h : i = j
  · subst h
    by_cases hl : i < l.length
    · simp [hl]
    · simp [hl]
  · have h' : ¬ j = i := fun e => h e.symm
    simp [h, h']

theorem mem_iff_get {s : State} {h : Holder} : h ∈ s ↔ ∃ i : Nat, s[i]? = some h :=
  List.mem_iff_getElem?

theorem wakeAll_get (o : Option Name) (s : State) (j : Nat) :
    (wakeAll o s)[j]? = (s[j]?).map (fun h => match o with | none => h | some m => wake m h) := by
  cases o with
  | none => simp [wakeAll]
  | some m => simp [wakeAll]

theorem wakeAll_length (o : Option Name) (s : State) : (wakeAll o s).length = s.length := by
  cases o <;> simp [wakeAll]

theorem wake_req (m : Name) (h : Holder) : (wake m h).req = h.req := by
  unfold wake; split
  · split <;> rfl
  · rfl

/-- a holder that is not parked on `m` is untouched by the wake-up -/
theorem wake_of_not_rwait {m : Name} {h : Holder} (hn : h.rwaitOn m = false) : wake m h = h := by
  simp [wake, hn]

theorem wake_of_rwait {m : Name} {h : Holder} {k : Nat} (hpc : h.pc = .acq k .rwait)
    (hr : h.req[k]? = some (m, false)) : wake m h = { h with pc := .acq (k + 1) .idle } := by
  have : h.rwaitOn m = true := rwaitOn_iff.mpr ⟨k, hpc, hr⟩
  simp [wake, this, hpc]

end Goat.Mutex
