/-
Helper lemmas for property C15, part 4: termination.  Every step strictly decreases the number of
steps the holders still have to make, so (with deadlock freedom) from every reachable state all
holders can be brought to completion, and no schedule fires more than `remaining init` steps.
-/
import Goat.Proofs.MutexPref

namespace Goat.Mutex

open Goat.LTS

/-- 1 when the holder has already announced / registered for its next row, 2 otherwise -/
def phaseCost (h : Holder) (k : Nat) (ph : Phase) : Nat :=
  match h.req[k]?, ph with
  | some (_, true), .announced => 1
  | some (_, false), .rwait => 1
  | _, _ => 2

theorem phaseCost_le (h : Holder) (k : Nat) (ph : Phase) : 1 ≤ phaseCost h k ph ∧ phaseCost h k ph ≤ 2 := by
  unfold phaseCost; split <;> simp

/-- an upper bound on the number of steps a holder still makes -/
def Holder.remaining (h : Holder) : Nat :=
  match h.pc with
  | .acq k ph => 3 * (h.req.length - k) + phaseCost h k ph + h.req.length + 2
  | .inside => h.req.length + 2
  | .rel u => (h.req.length - u) + 1
  | .done => 0

def remaining (s : State) : Nat := (s.map Holder.remaining).sum

private theorem lt_len {α} {l : List α} {k : Nat} {a : α} (h : l[k]? = some a) : k < l.length := by
  rcases Nat.lt_or_ge k l.length with hk | hk
  · exact hk
  · simp [List.getElem?_eq_none hk] at h

theorem prefStep_remaining {s : State} {h h' : Holder} {o : Option Name} (hp : PrefStep s h h' o) :
    h'.remaining < h.remaining := by
  cases hp with
  | enter k ph hpc hrow =>
    have := phaseCost_le h k ph
    simp only [Holder.remaining, hpc]; omega
  | announce k ph m hpc hph hrow hg =>
    have h1 : phaseCost h k ph = 2 := by
      unfold phaseCost; rw [hrow]; cases ph <;> simp at hph ⊢
    have h2 : phaseCost { h with pc := PC.acq k .announced } k .announced = 1 := by
      unfold phaseCost; simp [hrow]
    simp only [Holder.remaining, hpc, h1, h2]; omega
  | wacquire k m hpc hrow hg =>
    have hk := lt_len hrow
    have h1 := phaseCost_le h k .announced
    have h2 := phaseCost_le { h with pc := PC.acq (k + 1) .idle } (k + 1) .idle
    simp only [Holder.remaining, hpc] at h2 ⊢; omega
  | racquire k ph m hpc hph hrow hg =>
    have hk := lt_len hrow
    have h1 := phaseCost_le h k ph
    have h2 := phaseCost_le { h with pc := PC.acq (k + 1) .idle } (k + 1) .idle
    simp only [Holder.remaining, hpc] at h2 ⊢; omega
  | rregister k ph m hpc hph hrow hg =>
    have h1 : phaseCost h k ph = 2 := by
      unfold phaseCost; rw [hrow]; cases ph <;> simp at hph ⊢
    have h2 : phaseCost { h with pc := PC.acq k .rwait } k .rwait = 1 := by
      unfold phaseCost; simp [hrow]
    simp only [Holder.remaining, hpc, h1, h2]; omega
  | leave hpc => simp only [Holder.remaining, hpc]; omega
  | release u m w hpc hrow =>
    have hk := lt_len hrow
    simp only [Holder.remaining, hpc]; omega
  | finish u hpc hrow => simp only [Holder.remaining, hpc]; omega

theorem wakeOpt_remaining (o : Option Name) (g : Holder) : (wakeOpt o g).remaining ≤ g.remaining := by
  cases o with
  | none => exact Nat.le_refl _
  | some m =>
    simp only [wakeOpt]
    rcases wake_cases m g with ⟨_, e⟩ | ⟨k, hpc, hrow, e⟩
    · rw [e]; exact Nat.le_refl _
    · rw [e]
      have hk := lt_len hrow
      have h1 := phaseCost_le g k .rwait
      have h2 := phaseCost_le { g with pc := PC.acq (k + 1) .idle } (k + 1) .idle
      simp only [Holder.remaining, hpc] at h2 ⊢; omega

theorem stepPlain_remaining {s : State} {h h' : Holder} (hst : stepPlain s h = some h') :
    h'.remaining < h.remaining := by
  unfold stepPlain at hst
  split at hst
  · rename_i k ph hpc
    split at hst
    · cases hst
      have := phaseCost_le h k ph
      simp only [Holder.remaining, hpc]; omega
    · rename_i m hrow
      split at hst
      · cases hst
      · cases hst
        have hk := lt_len hrow
        have h1 := phaseCost_le h k ph
        have h2 := phaseCost_le { h with pc := PC.acq (k + 1) .idle } (k + 1) .idle
        simp only [Holder.remaining, hpc] at h2 ⊢; omega
    · rename_i m hrow
      split at hst
      · cases hst
      · cases hst
        have hk := lt_len hrow
        have h1 := phaseCost_le h k ph
        have h2 := phaseCost_le { h with pc := PC.acq (k + 1) .idle } (k + 1) .idle
        simp only [Holder.remaining, hpc] at h2 ⊢; omega
  · rename_i hpc
    cases hst; simp only [Holder.remaining, hpc]; omega
  · rename_i u hpc
    split at hst
    · cases hst; simp only [Holder.remaining, hpc]; omega
    · rename_i r hrow
      cases hst
      have hk := lt_len hrow
      simp only [Holder.remaining, hpc]; omega
  · cases hst

/-- pointwise ≤ with one strict position gives a strictly smaller sum -/
theorem sum_lt_of_pointwise (f : Holder → Nat) : ∀ (s t : State) (i : Nat) (a b : Holder),
    (∀ j : Nat, (t[j]? = none ↔ s[j]? = none)) →
    (∀ (j : Nat) (x y : Holder), s[j]? = some x → t[j]? = some y → f y ≤ f x) →
    s[i]? = some a → t[i]? = some b → f b < f a → (t.map f).sum < (s.map f).sum
  | [], _, i, a, _, _, _, hs, _, _ => by simp at hs
  | x :: s, [], _, _, _, hl, _, _, _, _ => by have := (hl 0).mp (by simp); simp at this
  | x :: s, y :: t, i, a, b, hl, hle, hs, ht, hlt => by
    simp only [List.map_cons, List.sum_cons]
    cases i with
    | zero =>
      simp at hs ht; subst hs; subst ht
      have htail : (t.map f).sum ≤ (s.map f).sum := by
        clear hlt
        induction s generalizing t with
        | nil =>
          cases t with
          | nil => simp
          | cons z t => have := (hl 1).mpr (by simp); simp at this
        | cons x' s ih =>
          cases t with
          | nil => have := (hl 1).mp (by simp); simp at this
          | cons y' t =>
            simp only [List.map_cons, List.sum_cons]
            have h1 : f y' ≤ f x' := hle 1 x' y' (by simp) (by simp)
            have h2 := ih t
              (fun j => by
                cases j with
                | zero => simp
                | succ j => have := hl (j + 2); simpa using this)
              (fun j p q hp hq => by
                cases j with
                | zero => simp at hp hq; subst hp; subst hq; exact hle 0 _ _ (by simp) (by simp)
                | succ j => exact hle (j + 2) p q (by simpa using hp) (by simpa using hq))
            omega
      omega
    | succ i =>
      have h0 : f y ≤ f x := hle 0 x y (by simp) (by simp)
      have := sum_lt_of_pointwise f s t i a b
        (fun j => by have := hl (j + 1); simpa using this)
        (fun j p q hp hq => hle (j + 1) p q (by simpa using hp) (by simpa using hq))
        (by simpa using hs) (by simpa using ht) hlt
      omega

theorem remaining_step_pref {s t : State} {i : Nat} (hst : step .pref s i = some t) :
    remaining t < remaining s := by
  obtain ⟨h, h', o, hi, hp, hget⟩ := step_pref_inv hst
  apply sum_lt_of_pointwise Holder.remaining s t i h h'
  · intro j
    rw [hget j]
    by_cases hj : j = i
    · subst hj; simp [hi]
    · simp [hj]
  · intro j x y hx hy
    rw [hget j] at hy
    by_cases hj : j = i
    · subst hj
      rw [hi] at hx; cases hx
      simp at hy; subst hy
      exact Nat.le_of_lt (prefStep_remaining hp)
    · simp [hj, hx] at hy; subst hy
      exact wakeOpt_remaining o x
  · exact hi
  · rw [hget i]; simp
  · exact prefStep_remaining hp

theorem remaining_step_plain {s t : State} {i : Nat} (hst : step .plain s i = some t) :
    remaining t < remaining s := by
  obtain ⟨h, h', hi, hp, rfl⟩ := step_plain_inv hst
  apply sum_lt_of_pointwise Holder.remaining s (s.set i h') i h h'
  · intro j
    rw [getElem?_set']
    by_cases hj : j = i
    · subst hj; simp [hi]
    · simp [hj]
  · intro j x y hx hy
    rw [getElem?_set'] at hy
    by_cases hj : j = i
    · subst hj
      rw [hi] at hx; cases hx
      simp [hi] at hy; subst hy
      exact Nat.le_of_lt (stepPlain_remaining hp)
    · simp [hj, hx] at hy; subst hy
      exact Nat.le_refl _
  · exact hi
  · rw [getElem?_set']; simp [hi]
  · exact stepPlain_remaining hp

/-- sortedness of every request list is preserved by plain steps (requests never change) -/
theorem sorted_step_plain {s t : State} {i : Nat} (hs : ∀ h ∈ s, Sorted h.req)
    (hst : step .plain s i = some t) : ∀ h ∈ t, Sorted h.req := by
  obtain ⟨h, h', hi, hp, rfl⟩ := step_plain_inv hst
  intro g hg
  rcases List.mem_or_eq_of_mem_set hg with hg | rfl
  · exact hs g hg
  · rw [stepPlain_req hp]; exact hs h (mem_iff_get.mpr ⟨i, hi⟩)

/-- from every state satisfying the invariant some schedule completes every holder (Go lock) -/
theorem can_finish_pref (reqs : List (List Row)) : ∀ (n : Nat) (s : State), remaining s ≤ n → PInv s →
    ∃ sched : List Nat, ∀ h ∈ (sysRaw .pref reqs).runFrom s sched, h.pc = .done
  | 0, s, hn, hinv => by
    refine ⟨[], ?_⟩
    intro h hm
    apply Classical.byContradiction
    intro hd
    obtain ⟨i, hen⟩ := deadlock_free_pref_state hinv ⟨h, hm, hd⟩
    cases hs : step .pref s i with
    | none => simp [hs] at hen
    | some t => have := remaining_step_pref hs; omega
  | n + 1, s, hn, hinv => by
    by_cases hall : ∀ h ∈ s, h.pc = .done
    · exact ⟨[], hall⟩
    · have hact : ∃ h ∈ s, h.pc ≠ .done := by
        apply Classical.byContradiction
        intro hno
        apply hall
        intro h hm
        apply Classical.byContradiction
        intro hd
        exact hno ⟨h, hm, hd⟩
      obtain ⟨i, hen⟩ := deadlock_free_pref_state hinv hact
      cases hs : step .pref s i with
      | none => simp [hs] at hen
      | some t =>
        have hlt := remaining_step_pref hs
        obtain ⟨sched, hfin⟩ := can_finish_pref reqs n t (by omega) (pinv_step hinv hs)
        refine ⟨i :: sched, ?_⟩
        have : (sysRaw .pref reqs).runFrom s (i :: sched) = (sysRaw .pref reqs).runFrom t sched := by
          rw [runFrom_cons]
          simp [Sys.next, sysRaw, hs]
        rw [this]; exact hfin

/-- the same for the ideal lock -/
theorem can_finish_plain (reqs : List (List Row)) : ∀ (n : Nat) (s : State), remaining s ≤ n →
    (∀ h ∈ s, Sorted h.req) →
    ∃ sched : List Nat, ∀ h ∈ (sysRaw .plain reqs).runFrom s sched, h.pc = .done
  | 0, s, hn, hinv => by
    refine ⟨[], ?_⟩
    intro h hm
    apply Classical.byContradiction
    intro hd
    obtain ⟨i, hen⟩ := deadlock_free_plain_state hinv ⟨h, hm, hd⟩
    cases hs : step .plain s i with
    | none => simp [hs] at hen
    | some t => have := remaining_step_plain hs; omega
  | n + 1, s, hn, hinv => by
    by_cases hall : ∀ h ∈ s, h.pc = .done
    · exact ⟨[], hall⟩
    · have hact : ∃ h ∈ s, h.pc ≠ .done := by
        apply Classical.byContradiction
        intro hno
        apply hall
        intro h hm
        apply Classical.byContradiction
        intro hd
        exact hno ⟨h, hm, hd⟩
      obtain ⟨i, hen⟩ := deadlock_free_plain_state hinv hact
      cases hs : step .plain s i with
      | none => simp [hs] at hen
      | some t =>
        have hlt := remaining_step_plain hs
        obtain ⟨sched, hfin⟩ := can_finish_plain reqs n t (by omega) (sorted_step_plain hinv hs)
        refine ⟨i :: sched, ?_⟩
        have : (sysRaw .plain reqs).runFrom s (i :: sched) = (sysRaw .plain reqs).runFrom t sched := by
          rw [runFrom_cons]
          simp [Sys.next, sysRaw, hs]
        rw [this]; exact hfin

/-- the number of steps that actually fire in any schedule is bounded by the initial measure -/
theorem fired_bounded (v : Variant) (reqs : List (List Row)) : ∀ (sched : List Nat) (s : State),
    ((sysRaw v reqs).firedFrom s sched).length ≤ remaining s
  | [], s => by simp [Sys.firedFrom]
  | i :: rest, s => by
    unfold Sys.firedFrom
    cases hs : (sysRaw v reqs).step s i with
    | none => simp only; exact fired_bounded v reqs rest s
    | some t =>
      simp only [List.length_cons]
      have ih := fired_bounded v reqs rest t
      have hlt : remaining t < remaining s := by
        cases v with
        | plain => exact remaining_step_plain hs
        | pref => exact remaining_step_pref hs
      omega

end Goat.Mutex
