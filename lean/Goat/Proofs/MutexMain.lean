/-
Helper lemmas for property C15, part 6: the results of parts 2–4 stated for the states reached by a
schedule of `sys v maps` (both lock variants at once), in terms of the lock *maps*.
-/
import Goat.Proofs.MutexFinish
import Goat.Proofs.MutexMonitor

namespace Goat.Mutex

open Goat.LTS

theorem step_reqs {v : Variant} {s t : State} {i : Nat} (hst : step v s i = some t) : reqsOf t = reqsOf s := by
  cases v with
  | plain => exact step_plain_reqs hst
  | pref => exact step_pref_reqs hst

theorem reqsOf_reachable {v : Variant} {reqs : List (List Row)} {s : State}
    (hr : Reachable (sysRaw v reqs) s) : reqsOf s = reqs :=
  inv_of_init_step (sysRaw v reqs) (fun s => reqsOf s = reqs) (reqsOf_initRaw reqs)
    (fun _ _ _ hi hst => (step_reqs hst).trans hi) s hr

theorem sorted_of_reqs {reqs : List (List Row)} (hs : ∀ r ∈ reqs, Sorted r) {s : State}
    (hr : reqsOf s = reqs) : ∀ h ∈ s, Sorted h.req := by
  intro h hm
  apply hs
  rw [← hr]
  exact List.mem_map.mpr ⟨h, hm, rfl⟩

theorem sorted_maps {maps : List LockMap} (hmaps : ∀ m ∈ maps, NodupNames m) :
    ∀ r ∈ maps.map sortRows, Sorted r := by
  intro r hr
  obtain ⟨m, hm, rfl⟩ := List.mem_map.mp hr
  exact sorted_sortRows (hmaps m hm)

/-- holder number `i` of state `s` is inside its critical section -/
def InsideAt (s : State) (i : Nat) : Prop := ∃ h, s[i]? = some h ∧ h.pc = .inside

/-- holder number `i` of state `s` has not finished -/
def ActiveAt (s : State) (i : Nat) : Prop := ∃ h, s[i]? = some h ∧ h.pc ≠ .done

/-- holder number `i` currently holds row `r` (acquired and not yet released) -/
def HoldsAt (s : State) (i : Nat) (r : Row) : Prop := ∃ h, s[i]? = some h ∧ r ∈ h.held

/-- everybody has finished -/
def AllDone (s : State) : Prop := ∀ h ∈ s, h.pc = .done

/-- the lock maps `maps[i]` and `maps[j]` of two holders: a common name is read on both sides -/
def MapsCompatible (mi mj : LockMap) : Prop :=
  ∀ m w1 w2, (m, w1) ∈ mi → (m, w2) ∈ mj → w1 = false ∧ w2 = false

theorem req_of_reachable {v : Variant} {maps : List LockMap} {s : State}
    (hr : Reachable (sys v maps) s) {i : Nat} {h : Holder} (hi : s[i]? = some h) :
    ∃ mi, maps[i]? = some mi ∧ h.req = sortRows mi := by
  have := reqsOf_reachable (v := v) (reqs := maps.map sortRows) hr
  have hg := reqsOf_get hi
  rw [this, List.getElem?_map] at hg
  cases hm : maps[i]? with
  | none => simp [hm] at hg
  | some mi => simp [hm] at hg; exact ⟨mi, rfl, hg.symm⟩

theorem excl_reachable {v : Variant} {maps : List LockMap} (hmaps : ∀ m ∈ maps, NodupNames m) {s : State}
    (hr : Reachable (sys v maps) s) : Excl s := by
  cases v with
  | plain => exact excl_reachable_plain _ hr
  | pref => exact excl_of_pinv (pinv_reachable (sorted_maps hmaps) hr)

theorem exclusion_main (v : Variant) (maps : List LockMap) (hmaps : ∀ m ∈ maps, NodupNames m)
    {s : State} (hr : Reachable (sys v maps) s) {i j : Nat} (hne : i ≠ j) {mi mj : LockMap}
    (hmi : maps[i]? = some mi) (hmj : maps[j]? = some mj) (in1 : InsideAt s i) (in2 : InsideAt s j) :
    MapsCompatible mi mj := by
  obtain ⟨hi, h1, p1⟩ := in1
  obtain ⟨hj, h2, p2⟩ := in2
  obtain ⟨mi', e1, q1⟩ := req_of_reachable hr h1
  obtain ⟨mj', e2, q2⟩ := req_of_reachable hr h2
  rw [hmi] at e1; cases e1
  rw [hmj] at e2; cases e2
  intro m w1 w2 r1 r2
  apply excl_inside (excl_reachable hmaps hr) hne h1 h2 p1 p2 (m := m)
  · rw [q1]; exact mem_sortRows.mpr r1
  · rw [q2]; exact mem_sortRows.mpr r2

theorem exclusion_rows_main (v : Variant) (maps : List LockMap) (hmaps : ∀ m ∈ maps, NodupNames m)
    {s : State} (hr : Reachable (sys v maps) s) {i j : Nat} (hne : i ≠ j) {m : Name} {w : Bool}
    (h1 : HoldsAt s i (m, true)) : ¬ HoldsAt s j (m, w) := by
  obtain ⟨hi, g1, r1⟩ := h1
  rintro ⟨hj, g2, r2⟩
  exact excl_reachable hmaps hr i j hi hj hne g1 g2 m w r1 r2

theorem deadlock_free_main (v : Variant) (maps : List LockMap) (hmaps : ∀ m ∈ maps, NodupNames m)
    {s : State} (hr : Reachable (sys v maps) s) (hact : ¬ AllDone s) :
    ∃ i, (step v s i).isSome = true := by
  have hact' : ∃ h ∈ s, h.pc ≠ .done := by
    apply Classical.byContradiction
    intro hno
    apply hact
    intro h hm
    apply Classical.byContradiction
    intro hd
    exact hno ⟨h, hm, hd⟩
  cases v with
  | plain =>
    exact deadlock_free_plain_state (sorted_of_reqs (sorted_maps hmaps) (reqsOf_reachable hr)) hact'
  | pref => exact deadlock_free_pref_state (pinv_reachable (sorted_maps hmaps) hr) hact'

theorem compatible_sorted {maps : List LockMap} {i : Nat}
    (hc : ∀ mi, maps[i]? = some mi → ∀ j mj, j ≠ i → maps[j]? = some mj → MapsCompatible mi mj) :
    Compatible (maps.map sortRows) i := by
  intro ri hri j rj hji hrj m w1 w2 r1 r2
  rw [List.getElem?_map] at hri hrj
  cases hm1 : maps[i]? with
  | none => simp [hm1] at hri
  | some mi =>
    cases hm2 : maps[j]? with
    | none => simp [hm2] at hrj
    | some mj =>
      simp [hm1] at hri; simp [hm2] at hrj
      subst hri; subst hrj
      exact hc mi hm1 j mj hji hm2 m w1 w2 (mem_sortRows.mp r1) (mem_sortRows.mp r2)

theorem never_blocked_main (v : Variant) (maps : List LockMap) (hmaps : ∀ m ∈ maps, NodupNames m)
    {s : State} (hr : Reachable (sys v maps) s) {i : Nat}
    (hc : ∀ mi, maps[i]? = some mi → ∀ j mj, j ≠ i → maps[j]? = some mj → MapsCompatible mi mj)
    (hact : ActiveAt s i) : (step v s i).isSome = true := by
  obtain ⟨h, hi, hd⟩ := hact
  have hreqs := reqsOf_reachable hr
  have hc' : Compatible (reqsOf s) i := by rw [hreqs]; exact compatible_sorted hc
  cases v with
  | plain =>
    exact compatible_enabled_plain hi
      (sorted_of_reqs (sorted_maps hmaps) hreqs h (mem_iff_get.mpr ⟨i, hi⟩)) hc' hd
  | pref => exact compatible_enabled_pref (pinv_reachable (sorted_maps hmaps) hr) hi hc' hd

theorem can_finish_main (v : Variant) (maps : List LockMap) (hmaps : ∀ m ∈ maps, NodupNames m)
    {s : State} (hr : Reachable (sys v maps) s) :
    ∃ more : List Nat, AllDone ((sys v maps).runFrom s more) := by
  cases v with
  | plain =>
    exact can_finish_plain _ (remaining s) s (Nat.le_refl _)
      (sorted_of_reqs (sorted_maps hmaps) (reqsOf_reachable hr))
  | pref => exact can_finish_pref _ (remaining s) s (Nat.le_refl _) (pinv_reachable (sorted_maps hmaps) hr)

theorem length_insertRow (r : Row) (l : List Row) : (insertRow r l).length = l.length + 1 := by
  induction l with
  | nil => rfl
  | cons x xs ih =>
    unfold insertRow
    split
    · rfl
    · simp [ih]

theorem length_sortRows (l : List Row) : (sortRows l).length = l.length := by
  induction l with
  | nil => rfl
  | cons x xs ih => simp [sortRows, length_insertRow, ih]

theorem remaining_init (maps : List LockMap) :
    remaining (init maps) = (maps.map fun m => 4 * m.length + 4).sum := by
  induction maps with
  | nil => rfl
  | cons m ms ih =>
    simp only [remaining, init, initRaw, List.map_cons, List.sum_cons, List.map_map] at ih ⊢
    rw [ih]
    have : Holder.remaining { req := sortRows m, pc := PC.acq 0 Phase.idle } = 4 * m.length + 4 := by
      have := phaseCost_le { req := sortRows m, pc := PC.acq 0 Phase.idle } 0 .idle
      have h2 : phaseCost { req := sortRows m, pc := PC.acq 0 Phase.idle } 0 .idle = 2 := by
        unfold phaseCost; split <;> simp_all
      simp only [Holder.remaining, h2, length_sortRows]; omega
    rw [this]

theorem fired_bounded_main (v : Variant) (maps : List LockMap) (sched : List Nat) :
    ((sys v maps).fired sched).length ≤ (maps.map fun m => 4 * m.length + 4).sum := by
  rw [← remaining_init]
  exact fired_bounded v (maps.map sortRows) sched (init maps)

end Goat.Mutex
