/-
Helper lemmas for property C15, part 5: the interval monitor accepts a list of recorded
critical-section intervals exactly when no two of them intersect in time with conflicting maps.
-/
import Goat.Model.Mutex

namespace Goat.Mutex

theorem conflictRows_isSome_iff {a b : List Row} :
    (conflictRows a b).isSome = true ↔
      ∃ m w1 w2, (m, w1) ∈ a ∧ (m, w2) ∈ b ∧ (w1 = true ∨ w2 = true) := by
  simp only [conflictRows, Option.isSome_map, List.find?_isSome, List.any_eq_true, Bool.and_eq_true,
    beq_iff_eq, Bool.or_eq_true]
  constructor
  · rintro ⟨⟨m, w1⟩, ha, ⟨m2, w2⟩, hb, hm, hw⟩
    simp only at hm hw
    subst hm
    exact ⟨m, w1, w2, ha, hb, hw⟩
  · rintro ⟨m, w1, w2, ha, hb, hw⟩
    exact ⟨(m, w1), ha, (m, w2), hb, rfl, hw⟩

theorem conflictRows_none_iff {a b : List Row} :
    conflictRows a b = none ↔
      ∀ m w1 w2, (m, w1) ∈ a → (m, w2) ∈ b → w1 = false ∧ w2 = false := by
  constructor
  · intro hn m w1 w2 ha hb
    cases h1 : w1 <;> cases h2 : w2 <;> simp
    all_goals
      subst h1; subst h2
      have : (conflictRows a b).isSome = true :=
        conflictRows_isSome_iff.mpr ⟨m, _, _, ha, hb, by simp⟩
      rw [hn] at this; cases this
  · intro h
    cases hc : conflictRows a b with
    | none => rfl
    | some x =>
      have : (conflictRows a b).isSome = true := by simp [hc]
      obtain ⟨m, w1, w2, ha, hb, hw⟩ := conflictRows_isSome_iff.mp this
      obtain ⟨e1, e2⟩ := h m w1 w2 ha hb
      subst e1; subst e2
      simp at hw

theorem overlap_symm (x y : Interval) : overlap x y = overlap y x := by
  simp [overlap, Bool.and_comm]

theorem bad_symm (x y : Interval) : bad x y = bad y x := by
  have hc : (conflictRows x.rows y.rows).isSome = (conflictRows y.rows x.rows).isSome := by
    apply Bool.eq_iff_iff.mpr
    rw [conflictRows_isSome_iff, conflictRows_isSome_iff]
    constructor
    · rintro ⟨m, w1, w2, ha, hb, hw⟩; exact ⟨m, w2, w1, hb, ha, hw.symm⟩
    · rintro ⟨m, w1, w2, ha, hb, hw⟩; exact ⟨m, w2, w1, hb, ha, hw.symm⟩
  have hh : (x.holder != y.holder) = (y.holder != x.holder) := by
    cases h : x.holder == y.holder <;> simp [bne, h, BEq.comm (a := y.holder)]
  simp [bad, overlap_symm x y, hc, hh]

theorem monitorFrom_none_iff (base : Nat) (ivs : List Interval) :
    monitorFrom base ivs = none ↔ ivs.Pairwise (fun x y => bad x y = false) := by
  induction ivs generalizing base with
  | nil => simp [monitorFrom]
  | cons x rest ih =>
    simp only [monitorFrom, List.pairwise_cons]
    cases hf : rest.findIdx? (bad x) with
    | some d =>
      simp only [reduceCtorEq, false_iff, not_and]
      intro hall
      have := List.findIdx?_eq_none_iff.mpr (fun y hy => hall y hy)
      rw [hf] at this; cases this
    | none =>
      simp only
      rw [ih (base + 1)]
      have := List.findIdx?_eq_none_iff.mp hf
      constructor
      · intro hp; exact ⟨fun y hy => this y hy, hp⟩
      · intro hp; exact hp.2

/-- the monitor accepts iff any two distinct recorded intervals that intersect in time belong to
compatible lock maps (every common name is read on both sides) -/
theorem monitor_none_iff (ivs : List Interval) :
    monitor ivs = none ↔
      ∀ (i j : Nat) (x y : Interval), i ≠ j → ivs[i]? = some x → ivs[j]? = some y → x.holder ≠ y.holder →
        overlap x y = true → ∀ m w1 w2, (m, w1) ∈ x.rows → (m, w2) ∈ y.rows → w1 = false ∧ w2 = false := by
  unfold monitor
  rw [monitorFrom_none_iff, List.pairwise_iff_getElem]
  have key : ∀ x y : Interval, bad x y = false ↔
      (x.holder ≠ y.holder → overlap x y = true →
        ∀ m w1 w2, (m, w1) ∈ x.rows → (m, w2) ∈ y.rows → w1 = false ∧ w2 = false) := by
    intro x y
    rw [← conflictRows_none_iff]
    simp only [bad, Bool.and_eq_false_iff]
    constructor
    · rintro (h | h | h) hd ho
      · simp at h; exact absurd h hd
      · rw [ho] at h; cases h
      · cases hc : conflictRows x.rows y.rows with
        | none => rfl
        | some v => simp [hc] at h
    · intro h
      by_cases hd : x.holder = y.holder
      · left; simp [hd]
      · cases ho : overlap x y with
        | false => exact Or.inr (Or.inl rfl)
        | true => right; right; rw [h hd ho]; rfl
  constructor
  · intro hp i j x y hne hi hj
    have hil : i < ivs.length := by
      rcases Nat.lt_or_ge i ivs.length with h | h
      · exact h
      · simp [List.getElem?_eq_none h] at hi
    have hjl : j < ivs.length := by
      rcases Nat.lt_or_ge j ivs.length with h | h
      · exact h
      · simp [List.getElem?_eq_none h] at hj
    rw [List.getElem?_eq_getElem hil] at hi
    rw [List.getElem?_eq_getElem hjl] at hj
    simp only [Option.some.injEq] at hi hj
    rcases Nat.lt_or_gt_of_ne hne with hlt | hgt
    · have := hp i j hil hjl hlt
      rw [hi, hj] at this
      exact (key x y).mp this
    · have := hp j i hjl hil hgt
      rw [hi, hj, bad_symm] at this
      exact (key x y).mp this
  · intro h i j hi hj hlt
    apply (key _ _).mpr
    exact h i j _ _ (Nat.ne_of_lt hlt) (List.getElem?_eq_getElem hi) (List.getElem?_eq_getElem hj)

end Goat.Mutex
