/-
Helper lemmas for property C15, part 10: three and more parties.  A holder `a`, any number of further
holders `bs` (the waiters of the check's `parties` cases) and a late-comer `c` whose map is compatible
with all of them: the hypothesis of `never_blocked_main` for the last index of `a :: bs ++ [c]`.
-/
import Goat.Proofs.MutexMain

namespace Goat.Mutex

open Goat.LTS

theorem parties_last_compatible (a : LockMap) (bs : List LockMap) (c : LockMap)
    (hca : MapsCompatible c a) (hcb : ∀ b ∈ bs, MapsCompatible c b) :
    ∀ mi, (a :: bs ++ [c])[bs.length + 1]? = some mi → ∀ j mj, j ≠ bs.length + 1 →
      (a :: bs ++ [c])[j]? = some mj → MapsCompatible mi mj := by
  intro mi hmi j mj hj hmj
  have hc : mi = c := by
    simp at hmi; exact hmi.symm
  subst hc
  match j, hj, hmj with
  | 0, _, hmj =>
    simp at hmj; subst hmj; exact hca
  | (k + 1), hj, hmj =>
    have hk : k ≠ bs.length := fun h => hj (by omega)
    simp only [List.cons_append, List.getElem?_cons_succ] at hmj
    by_cases hlt : k < bs.length
    · rw [List.getElem?_append_left hlt] at hmj
      exact hcb mj (List.mem_of_getElem? hmj)
    · have hge : bs.length ≤ k := by omega
      rw [List.getElem?_append_right hge] at hmj
      have : k - bs.length ≠ 0 := by omega
      match hd : k - bs.length, this with
      | (d + 1), _ => rw [hd] at hmj; simp at hmj

theorem parties_never_blocked_main (v : Variant) (a : LockMap) (bs : List LockMap) (c : LockMap)
    (hmaps : ∀ m ∈ a :: bs ++ [c], NodupNames m)
    (hca : MapsCompatible c a) (hcb : ∀ b ∈ bs, MapsCompatible c b)
    {s : State} (hr : Reachable (sys v (a :: bs ++ [c])) s) (hact : ActiveAt s (bs.length + 1)) :
    (step v s (bs.length + 1)).isSome = true :=
  never_blocked_main v (a :: bs ++ [c]) hmaps hr (parties_last_compatible a bs c hca hcb) hact

end Goat.Mutex
