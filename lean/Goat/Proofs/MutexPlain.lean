/-
Helper lemmas for property C15, part 2: the ideal readers/writer lock (`Variant.plain`).
Exclusion invariant, deadlock freedom, non-interference, termination measure.
-/
import Goat.Proofs.Mutex

namespace Goat.Mutex

open Goat.LTS

/-! ### generic: a maximal element of a non-empty list -/

theorem exists_max {α} (f : α → Nat) : ∀ (l : List α), l ≠ [] → ∃ x ∈ l, ∀ y ∈ l, f y ≤ f x
  | [], h => absurd rfl h
  | [a], _ => ⟨a, by simp, by simp⟩
  | a :: b :: r, _ => by
    obtain ⟨x, hx, hmax⟩ := exists_max f (b :: r) (by simp)
    by_cases hle : f a ≤ f x
    · refine ⟨x, List.mem_cons_of_mem _ hx, ?_⟩
      intro y hy
      rcases List.mem_cons.mp hy with rfl | hy
      · exact hle
      · exact hmax y hy
    · refine ⟨a, by simp, ?_⟩
      intro y hy
      rcases List.mem_cons.mp hy with rfl | hy
      · exact Nat.le_refl _
      · have := hmax y hy; omega

/-! ### requests never change -/

/-- the request lists of the holders of a state -/
def reqsOf (s : State) : List (List Row) := s.map (·.req)

theorem reqsOf_initRaw (reqs : List (List Row)) : reqsOf (initRaw reqs) = reqs := by
  simp [reqsOf, initRaw, List.map_map, Function.comp_def]

theorem reqsOf_get {s : State} {j : Nat} {h : Holder} (hj : s[j]? = some h) :
    (reqsOf s)[j]? = some h.req := by
  simp [reqsOf, hj]

theorem get_of_reqsOf {s : State} {j : Nat} {r : List Row} (hj : (reqsOf s)[j]? = some r) :
    ∃ h, s[j]? = some h ∧ h.req = r := by
  simp only [reqsOf, List.getElem?_map] at hj
  cases hs : s[j]? with
  | none => simp [hs] at hj
  | some h => exact ⟨h, rfl, by simpa [hs] using hj⟩

theorem stepPlain_req {s : State} {h h' : Holder} (hst : stepPlain s h = some h') : h'.req = h.req := by
  unfold stepPlain at hst
  split at hst
  · split at hst
    · cases hst; rfl
    · split at hst
      · cases hst
      · cases hst; rfl
    · split at hst
      · cases hst
      · cases hst; rfl
  · cases hst; rfl
  · split at hst <;> (cases hst; rfl)
  · cases hst

theorem set_same_req {s : State} {i : Nat} {h h' : Holder} (hi : s[i]? = some h) (hr : h'.req = h.req) :
    reqsOf (s.set i h') = reqsOf s := by
  apply List.ext_getElem?
  intro j
  simp only [reqsOf, List.getElem?_map, getElem?_set']
  by_cases hj : j = i
  · subst hj; simp [hi, hr]
  · simp [hj]

theorem step_plain_reqs {s t : State} {i : Nat} (hst : step .plain s i = some t) : reqsOf t = reqsOf s := by
  unfold step at hst
  cases hi : s[i]? with
  | none => simp [hi] at hst
  | some h =>
    simp only [hi] at hst
    cases hp : stepPlain s h with
    | none => simp [hp] at hst
    | some h' =>
      simp only [hp, Option.map_some, Option.some.injEq] at hst
      subst hst
      exact set_same_req hi (stepPlain_req hp)

/-- what a plain step does to the stepping holder -/
theorem step_plain_inv {s t : State} {i : Nat} (hst : step .plain s i = some t) :
    ∃ h h', s[i]? = some h ∧ stepPlain s h = some h' ∧ t = s.set i h' := by
  unfold step at hst
  cases hi : s[i]? with
  | none => simp [hi] at hst
  | some h =>
    simp only [hi] at hst
    cases hp : stepPlain s h with
    | none => simp [hp] at hst
    | some h' =>
      simp only [hp, Option.map_some, Option.some.injEq] at hst
      exact ⟨h, h', rfl, hp, hst.symm⟩

/-- rows held after a plain step were held before or were just acquired under the lock's guard -/
theorem stepPlain_held {s : State} {h h' : Holder} (hst : stepPlain s h = some h') {r : Row}
    (hr : r ∈ h'.held) :
    r ∈ h.held ∨ (writeHeld s r.1 = false ∧ (r.2 = true → readHeld s r.1 = false)) := by
  unfold stepPlain at hst
  split at hst
  · rename_i k ph hpc
    split at hst
    · rename_i hnone
      cases hst
      left
      simp only [Holder.held, hpc] at hr ⊢
      have : h.req.length ≤ k := by
        rcases Nat.lt_or_ge k h.req.length with hk | hk
        · simp [List.getElem?_eq_getElem hk] at hnone
        · exact hk
      rw [List.take_of_length_le this]; exact hr
    · rename_i m hrow
      split at hst
      · cases hst
      · rename_i hg
        cases hst
        simp only [Holder.held, hpc, List.take_add_one, hrow, Option.toList_some, List.mem_append,
          List.mem_singleton] at hr ⊢
        rcases hr with hr | hr
        · exact Or.inl hr
        · right; subst hr
          simp only [Bool.or_eq_true, not_or, Bool.not_eq_true] at hg
          exact ⟨hg.1, fun _ => hg.2⟩
    · rename_i m hrow
      split at hst
      · cases hst
      · rename_i hg
        cases hst
        simp only [Holder.held, hpc, List.take_add_one, hrow, Option.toList_some, List.mem_append,
          List.mem_singleton] at hr ⊢
        rcases hr with hr | hr
        · exact Or.inl hr
        · right; subst hr
          simp only [Bool.not_eq_true] at hg
          exact ⟨hg, fun h => by cases h⟩
  · rename_i hpc
    cases hst
    left
    simp only [Holder.held, hpc] at hr ⊢
    simpa using hr
  · rename_i u hpc
    split at hst
    · cases hst
      simp [Holder.held] at hr
    · cases hst
      left
      simp only [Holder.held, hpc] at hr ⊢
      exact List.mem_of_mem_drop (by simpa using hr : r ∈ List.drop 1 (List.drop u h.req))
  · cases hst

/-! ### exclusion -/

/-- lock-level exclusion: a row held for writing excludes every row of the same name held by
another holder -/
def Excl (s : State) : Prop :=
  ∀ (i j : Nat) (hi hj : Holder), i ≠ j → s[i]? = some hi → s[j]? = some hj →
    ∀ (m : Name) (w : Bool), (m, true) ∈ hi.held → (m, w) ∉ hj.held

theorem excl_initRaw (reqs : List (List Row)) : Excl (initRaw reqs) := by
  intro i j hi hj _ h1 _ m w hm
  simp only [initRaw, List.getElem?_map] at h1
  cases hr : reqs[i]? with
  | none => simp [hr] at h1
  | some r =>
    simp [hr] at h1
    subst h1
    simp [Holder.held] at hm

theorem excl_step_plain {s t : State} {i0 : Nat} (hinv : Excl s) (hst : step .plain s i0 = some t) :
    Excl t := by
  obtain ⟨h, h', hi0, hp, rfl⟩ := step_plain_inv hst
  intro i j hi hj hne h1 h2 m w hm hw
  rw [getElem?_set'] at h1 h2
  by_cases e1 : i = i0
  · subst e1
    have e2 : ¬ j = i := fun e => hne e.symm
    simp only [e2, if_false, if_true, hi0, Option.map_some, Option.some.injEq] at h1 h2
    subst h1
    rcases stepPlain_held hp hm with hold | ⟨_, hg⟩
    · exact hinv i j h hj hne hi0 h2 m w hold hw
    · have hrd := hg rfl
      cases w with
      | true =>
        rename_i hwh
        have : writeHeld s m = true := writeHeld_iff.mpr ⟨hj, mem_iff_get.mpr ⟨j, h2⟩, hw⟩
        simp [hwh] at this
      | false =>
        have : readHeld s m = true := readHeld_iff.mpr ⟨hj, mem_iff_get.mpr ⟨j, h2⟩, hw⟩
        simp [hrd] at this
  · by_cases e2 : j = i0
    · subst e2
      simp only [e1, if_false, if_true, hi0, Option.map_some, Option.some.injEq] at h1 h2
      subst h2
      rcases stepPlain_held hp hw with hold | ⟨hg, _⟩
      · exact hinv i j hi h hne h1 hi0 m w hm hold
      · have : writeHeld s m = true := writeHeld_iff.mpr ⟨hi, mem_iff_get.mpr ⟨i, h1⟩, hm⟩
        simp [hg] at this
    · simp only [e1, e2, if_false] at h1 h2
      exact hinv i j hi hj hne h1 h2 m w hm hw

theorem excl_reachable_plain (reqs : List (List Row)) {s : State} (hr : Reachable (sysRaw .plain reqs) s) :
    Excl s :=
  inv_of_init_step (sysRaw .plain reqs) Excl (excl_initRaw reqs) (fun _ _ _ hi hs => excl_step_plain hi hs) s hr

/-- from lock-level exclusion: two holders inside their critical sections that name a common
resource both asked for read access -/
theorem excl_inside {s : State} (hx : Excl s) {i j : Nat} {hi hj : Holder} (hne : i ≠ j)
    (h1 : s[i]? = some hi) (h2 : s[j]? = some hj) (in1 : hi.pc = .inside) (in2 : hj.pc = .inside)
    {m : Name} {w1 w2 : Bool} (r1 : (m, w1) ∈ hi.req) (r2 : (m, w2) ∈ hj.req) :
    w1 = false ∧ w2 = false := by
  rw [← held_inside in1] at r1
  rw [← held_inside in2] at r2
  constructor
  · cases w1 with
    | false => rfl
    | true => exact absurd r2 (hx i j hi hj hne h1 h2 m w2 r1)
  · cases w2 with
    | false => rfl
    | true => exact absurd r1 (hx j i hj hi (fun e => hne e.symm) h2 h1 m w1 r2)

/-! ### blocked holders -/

/-- why a holder cannot move under the ideal lock -/
theorem stepPlain_none {s : State} {h : Holder} (hst : stepPlain s h = none) :
    h.pc = .done ∨ ∃ k ph m w, h.pc = .acq k ph ∧ h.req[k]? = some (m, w) ∧
      ∃ h' ∈ s, ∃ w', (m, w') ∈ h'.held := by
  unfold stepPlain at hst
  split at hst
  · rename_i k ph hpc
    split at hst
    · cases hst
    · rename_i m hrow
      split at hst
      · rename_i hg
        right
        refine ⟨k, ph, m, true, hpc, hrow, ?_⟩
        simp only [Bool.or_eq_true] at hg
        rcases hg with hg | hg
        · obtain ⟨h', hm, hh⟩ := writeHeld_iff.mp hg; exact ⟨h', hm, true, hh⟩
        · obtain ⟨h', hm, hh⟩ := readHeld_iff.mp hg; exact ⟨h', hm, false, hh⟩
      · cases hst
    · rename_i m hrow
      split at hst
      · rename_i hg
        right
        refine ⟨k, ph, m, false, hpc, hrow, ?_⟩
        obtain ⟨h', hm, hh⟩ := writeHeld_iff.mp hg; exact ⟨h', hm, true, hh⟩
      · cases hst
  · cases hst
  · split at hst <;> cases hst
  · left; assumption

theorem step_none_plain {s : State} {i : Nat} {h : Holder} (hi : s[i]? = some h)
    (hst : step .plain s i = none) : stepPlain s h = none := by
  unfold step at hst
  simp only [hi] at hst
  cases hp : stepPlain s h with
  | none => rfl
  | some h' => simp [hp] at hst

/-- the name a holder is waiting for (0 when it is not acquiring) -/
def awaitedName (h : Holder) : Nat :=
  match h.pc with
  | .acq k _ => match h.req[k]? with | some (m, _) => m | none => 0
  | _ => 0

theorem awaitedName_eq {h : Holder} {k : Nat} {ph : Phase} {m : Name} {w : Bool}
    (hpc : h.pc = .acq k ph) (hr : h.req[k]? = some (m, w)) : awaitedName h = m := by
  simp [awaitedName, hpc, hr]

/-- deadlock freedom for the ideal lock, on every state whose request lists are sorted -/
theorem deadlock_free_plain_state {s : State} (hsorted : ∀ h ∈ s, Sorted h.req)
    (hactive : ∃ h ∈ s, h.pc ≠ .done) : ∃ i, (step .plain s i).isSome = true := by
  apply Classical.byContradiction
  intro hno
  have hall : ∀ i, step .plain s i = none := by
    intro i
    cases hs : step .plain s i with
    | none => rfl
    | some t => exact absurd ⟨i, by simp [hs]⟩ hno
  have hblocked : ∀ h ∈ s, stepPlain s h = none := by
    intro h hm
    obtain ⟨i, hi⟩ := mem_iff_get.mp hm
    exact step_none_plain hi (hall i)
  let act := s.filter (fun h => h.pc ≠ .done)
  have hne : act ≠ [] := by
    obtain ⟨h, hm, hd⟩ := hactive
    intro he
    have : h ∈ act := by simp [act, hm, hd]
    simp [he] at this
  obtain ⟨x, hx, hmax⟩ := exists_max awaitedName act hne
  have hxm : x ∈ s := (List.mem_filter.mp hx).1
  have hxd : x.pc ≠ .done := by simpa using (List.mem_filter.mp hx).2
  rcases stepPlain_none (hblocked x hxm) with hd | ⟨k, ph, m, w, hpc, hrow, h', hm', w', hheld⟩
  · exact hxd hd
  · have hd' : h'.pc ≠ .done := by
      intro hd'; rw [held_done hd'] at hheld; simp at hheld
    rcases stepPlain_none (hblocked h' hm') with hd | ⟨k', ph', m', w2, hpc', hrow', _⟩
    · exact hd' hd
    · have hlt := held_lt_awaited (hsorted h' hm') hpc' hheld hrow'
      have hin : h' ∈ act := by simp [act, hm', hd']
      have hle := hmax h' hin
      rw [awaitedName_eq hpc hrow, awaitedName_eq hpc' hrow'] at hle
      have hlt' : (m : Nat) < (m' : Nat) := hlt
      exact Nat.lt_irrefl _ (Nat.lt_of_lt_of_le hlt' hle)

/-! ### non-interference -/

/-- `req` is compatible with every other request list of `reqs`: a common name is read on both sides -/
def Compatible (reqs : List (List Row)) (i : Nat) : Prop :=
  ∀ ri, reqs[i]? = some ri → ∀ j rj, j ≠ i → reqs[j]? = some rj →
    ∀ m w1 w2, (m, w1) ∈ ri → (m, w2) ∈ rj → w1 = false ∧ w2 = false

theorem stepPlain_some_of {s : State} {h : Holder} (hd : h.pc ≠ .done)
    (hfree : ∀ k ph m w, h.pc = .acq k ph → h.req[k]? = some (m, w) →
      writeHeld s m = false ∧ (w = true → readHeld s m = false)) :
    (stepPlain s h).isSome = true := by
  unfold stepPlain
  split
  · rename_i k ph hpc
    split
    · rfl
    · rename_i m hrow
      obtain ⟨h1, h2⟩ := hfree k ph m true hpc hrow
      simp [h1, h2 rfl]
    · rename_i m hrow
      obtain ⟨h1, _⟩ := hfree k ph m false hpc hrow
      simp [h1]
  · rfl
  · split <;> rfl
  · rename_i hpc; exact absurd hpc hd

/-- under the ideal lock a holder that is compatible with all others is enabled in *every* state -/
theorem compatible_enabled_plain {s : State} {i : Nat} {h : Holder} (hi : s[i]? = some h)
    (hs : Sorted h.req) (hc : Compatible (reqsOf s) i) (hd : h.pc ≠ .done) :
    (step .plain s i).isSome = true := by
  have hfree : ∀ k ph m w, h.pc = .acq k ph → h.req[k]? = some (m, w) →
      ∀ h' ∈ s, ∀ w', (m, w') ∈ h'.held → w = false ∧ w' = false := by
    intro k ph m w hpc hrow h' hm' w' hheld
    obtain ⟨j, hj⟩ := mem_iff_get.mp hm'
    by_cases hji : j = i
    · subst hji
      rw [hi] at hj; cases hj
      have := held_lt_awaited hs hpc hheld hrow
      simp at this
    · have hmem : (m, w) ∈ h.req := List.mem_of_getElem? hrow
      exact hc h.req (reqsOf_get hi) j h'.req hji (reqsOf_get hj) m w w' hmem (held_sub_req h' hheld)
  have : (stepPlain s h).isSome = true := by
    apply stepPlain_some_of hd
    intro k ph m w hpc hrow
    constructor
    · cases hwh : writeHeld s m with
      | false => rfl
      | true =>
        obtain ⟨h', hm', hh⟩ := writeHeld_iff.mp hwh
        have := (hfree k ph m w hpc hrow h' hm' true hh).2
        cases this
    · intro hw
      cases hrh : readHeld s m with
      | false => rfl
      | true =>
        obtain ⟨h', hm', hh⟩ := readHeld_iff.mp hrh
        have := (hfree k ph m w hpc hrow h' hm' false hh).1
        rw [hw] at this; cases this
  unfold step
  simp only [hi]
  cases hp : stepPlain s h with
  | none => simp [hp] at this
  | some h' => simp

end Goat.Mutex
