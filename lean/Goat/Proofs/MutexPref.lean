/-
Helper lemmas for property C15, part 3: the Go `sync.RWMutex` variant with writer preference
(`Variant.pref`): shape of a step, the invariant `PInv`, deadlock freedom, non-interference.
-/
import Goat.Proofs.MutexPlain

namespace Goat.Mutex

open Goat.LTS

/-! ### the eight kinds of step -/

inductive PrefStep (s : State) (h : Holder) : Holder → Option Name → Prop
  | enter (k : Nat) (ph : Phase) : h.pc = .acq k ph → h.req[k]? = none →
      PrefStep s h { h with pc := .inside } none
  | announce (k : Nat) (ph : Phase) (m : Name) : h.pc = .acq k ph → ph ≠ .announced →
      h.req[k]? = some (m, true) → writerPresent s m = false →
      PrefStep s h { h with pc := .acq k .announced } none
  | wacquire (k : Nat) (m : Name) : h.pc = .acq k .announced →
      h.req[k]? = some (m, true) → readHeld s m = false →
      PrefStep s h { h with pc := .acq (k + 1) .idle } none
  | racquire (k : Nat) (ph : Phase) (m : Name) : h.pc = .acq k ph → ph ≠ .rwait →
      h.req[k]? = some (m, false) → writerPresent s m = false →
      PrefStep s h { h with pc := .acq (k + 1) .idle } none
  | rregister (k : Nat) (ph : Phase) (m : Name) : h.pc = .acq k ph → ph ≠ .rwait →
      h.req[k]? = some (m, false) → writerPresent s m = true →
      PrefStep s h { h with pc := .acq k .rwait } none
  | leave : h.pc = .inside → PrefStep s h { h with pc := .rel 0 } none
  | release (u : Nat) (m : Name) (w : Bool) : h.pc = .rel u → h.req[u]? = some (m, w) →
      PrefStep s h { h with pc := .rel (u + 1) } (if w then some m else none)
  | finish (u : Nat) : h.pc = .rel u → h.req[u]? = none → PrefStep s h { h with pc := .done } none

theorem stepPref_cases {s : State} {h h' : Holder} {o : Option Name}
    (hst : stepPref s h = some (h', o)) : PrefStep s h h' o := by
  unfold stepPref at hst
  split at hst
  · rename_i k ph hpc
    split at hst
    · rename_i hrow
      cases hst; exact .enter k ph hpc hrow
    · rename_i m hrow
      split at hst
      · split at hst
        · cases hst
        · rename_i hg
          cases hst
          exact .wacquire k m hpc hrow (by simpa using hg)
      · rename_i hph
        split at hst
        · cases hst
        · rename_i hg
          cases hst
          refine .announce k ph m hpc ?_ hrow (by simpa using hg)
          intro e; exact hph e
    · rename_i m hrow
      split at hst
      · cases hst
      · rename_i hph
        split at hst
        · rename_i hg
          cases hst
          refine .rregister k ph m hpc ?_ hrow hg
          intro e; exact hph e
        · rename_i hg
          cases hst
          refine .racquire k ph m hpc ?_ hrow (by simpa using hg)
          intro e; exact hph e
  · rename_i hpc
    cases hst; exact .leave hpc
  · rename_i u hpc
    split at hst
    · rename_i hrow
      cases hst; exact .finish u hpc hrow
    · rename_i m w hrow
      cases hst; exact .release u m w hpc hrow
  · cases hst

/-- why a holder cannot move under the Go lock -/
theorem stepPref_none {s : State} {h : Holder} (hst : stepPref s h = none) :
    h.pc = .done ∨
    (∃ k ph m, h.pc = .acq k ph ∧ h.req[k]? = some (m, true) ∧ ph ≠ .announced ∧ writerPresent s m = true) ∨
    (∃ k m, h.pc = .acq k .announced ∧ h.req[k]? = some (m, true) ∧ readHeld s m = true) ∨
    (∃ k m, h.pc = .acq k .rwait ∧ h.req[k]? = some (m, false)) := by
  unfold stepPref at hst
  split at hst
  · rename_i k ph hpc
    split at hst
    · cases hst
    · rename_i m hrow
      split at hst
      · split at hst
        · rename_i hg
          exact Or.inr (Or.inr (Or.inl ⟨k, m, hpc, hrow, hg⟩))
        · cases hst
      · rename_i hph
        split at hst
        · rename_i hg
          exact Or.inr (Or.inl ⟨k, ph, m, hpc, hrow, fun e => hph e, hg⟩)
        · cases hst
    · rename_i m hrow
      split at hst
      · exact Or.inr (Or.inr (Or.inr ⟨k, m, hpc, hrow⟩))
      · split at hst <;> cases hst
  · cases hst
  · split at hst <;> cases hst
  · left; assumption

/-! ### effect of the stepping holder's own move -/

theorem present_of_held' {g : Holder} {m : Name} (h : (m, true) ∈ g.held) : g.present m = true := by
  simp [Holder.present, h]

theorem prefStep_req {s : State} {h h' : Holder} {o : Option Name} (hp : PrefStep s h h' o) :
    h'.req = h.req := by
  cases hp <;> rfl

private theorem take_all {α} {l : List α} {k : Nat} (h : l[k]? = none) : l.take k = l := by
  apply List.take_of_length_le
  rcases Nat.lt_or_ge k l.length with hk | hk
  · simp [List.getElem?_eq_getElem hk] at h
  · exact hk

private theorem drop_none {α} {l : List α} {k : Nat} (h : l[k]? = none) : l.drop k = [] := by
  apply List.drop_of_length_le
  rcases Nat.lt_or_ge k l.length with hk | hk
  · simp [List.getElem?_eq_getElem hk] at h
  · exact hk

private theorem drop_some {α} {l : List α} {k : Nat} {a : α} (h : l[k]? = some a) :
    l.drop k = a :: l.drop (k + 1) := by
  have hk : k < l.length := by
    rcases Nat.lt_or_ge k l.length with hk | hk
    · exact hk
    · simp [List.getElem?_eq_none hk] at h
  rw [List.drop_eq_getElem_cons hk]
  rw [List.getElem?_eq_getElem hk] at h
  simp at h
  rw [h]

/-- E1: a row held after the step was held before, or is a write row acquired while no reader was
inside, or a read row acquired while no writer was present -/
theorem prefStep_held {s : State} {h h' : Holder} {o : Option Name} (hp : PrefStep s h h' o) {r : Row}
    (hr : r ∈ h'.held) :
    r ∈ h.held ∨ (r.2 = true ∧ readHeld s r.1 = false) ∨ (r.2 = false ∧ writerPresent s r.1 = false) := by
  cases hp with
  | enter k ph hpc hrow =>
    left; simp only [Holder.held, hpc] at hr ⊢; rw [take_all hrow]; exact hr
  | announce k ph m hpc hph hrow hg =>
    left; simpa only [Holder.held, hpc] using hr
  | wacquire k m hpc hrow hg =>
    simp only [Holder.held, hpc, List.take_add_one, hrow, Option.toList_some, List.mem_append,
      List.mem_singleton] at hr ⊢
    rcases hr with hr | hr
    · exact Or.inl hr
    · subst hr; exact Or.inr (Or.inl ⟨rfl, hg⟩)
  | racquire k ph m hpc hph hrow hg =>
    simp only [Holder.held, hpc, List.take_add_one, hrow, Option.toList_some, List.mem_append,
      List.mem_singleton] at hr ⊢
    rcases hr with hr | hr
    · exact Or.inl hr
    · subst hr; exact Or.inr (Or.inr ⟨rfl, hg⟩)
  | rregister k ph m hpc hph hrow hg =>
    left; simpa only [Holder.held, hpc] using hr
  | leave hpc =>
    left; simp only [Holder.held, hpc] at hr ⊢; simpa using hr
  | release u m w hpc hrow =>
    left; simp only [Holder.held, hpc] at hr ⊢
    rw [drop_some hrow]; exact List.mem_cons_of_mem _ hr
  | finish u hpc hrow =>
    simp [Holder.held] at hr

/-- E6: a row held before the step is still held, unless this step released it -/
theorem prefStep_held_keep {s : State} {h h' : Holder} {o : Option Name} (hp : PrefStep s h h' o) {r : Row}
    (hr : r ∈ h.held) : r ∈ h'.held ∨ (r.2 = true ∧ o = some r.1) ∨ (r.2 = false) := by
  cases hp with
  | enter k ph hpc hrow =>
    left; simp only [Holder.held, hpc] at hr ⊢; rw [take_all hrow] at hr; exact hr
  | announce k ph m hpc hph hrow hg =>
    left; simpa only [Holder.held, hpc] using hr
  | wacquire k m hpc hrow hg =>
    left
    simp only [Holder.held, hpc, List.take_add_one, List.mem_append] at hr ⊢
    exact Or.inl hr
  | racquire k ph m hpc hph hrow hg =>
    left
    simp only [Holder.held, hpc, List.take_add_one, List.mem_append] at hr ⊢
    exact Or.inl hr
  | rregister k ph m hpc hph hrow hg =>
    left; simpa only [Holder.held, hpc] using hr
  | leave hpc =>
    left; simp only [Holder.held, hpc] at hr ⊢; simpa using hr
  | release u m w hpc hrow =>
    simp only [Holder.held, hpc] at hr ⊢
    rw [drop_some hrow] at hr
    rcases List.mem_cons.mp hr with e | hr
    · right
      subst e
      cases w with
      | true => exact Or.inl ⟨rfl, rfl⟩
      | false => exact Or.inr rfl
    · exact Or.inl hr
  | finish u hpc hrow =>
    simp only [Holder.held, hpc] at hr
    rw [drop_none hrow] at hr; simp at hr

/-- a write row held after the step was held before or was announced before -/
theorem prefStep_held_write {s : State} {h h' : Holder} {o : Option Name} (hp : PrefStep s h h' o) {m : Name}
    (hr : (m, true) ∈ h'.held) : h.present m = true := by
  cases hp with
  | enter k ph hpc hrow =>
    apply present_of_held'
    simp only [Holder.held, hpc] at hr ⊢; rw [take_all hrow]; exact hr
  | announce k ph m0 hpc hph hrow hg =>
    apply present_of_held'; simpa only [Holder.held, hpc] using hr
  | wacquire k m0 hpc hrow hg =>
    simp only [Holder.held, List.take_add_one, hrow, Option.toList_some, List.mem_append,
      List.mem_singleton, Prod.mk.injEq, and_true] at hr
    rcases hr with hr | hr
    · apply present_of_held'; simpa only [Holder.held, hpc] using hr
    · subst hr
      exact present_iff.mpr (Or.inl (announcedOn_iff.mpr ⟨k, hpc, hrow⟩))
  | racquire k ph m0 hpc hph hrow hg =>
    simp only [Holder.held, List.take_add_one, hrow, Option.toList_some, List.mem_append,
      List.mem_singleton, Prod.mk.injEq] at hr
    rcases hr with hr | hr
    · apply present_of_held'; simpa only [Holder.held, hpc] using hr
    · exact absurd hr.2 (by simp)
  | rregister k ph m0 hpc hph hrow hg =>
    apply present_of_held'; simpa only [Holder.held, hpc] using hr
  | leave hpc =>
    apply present_of_held'; simp only [Holder.held, hpc] at hr ⊢; simpa using hr
  | release u m0 w hpc hrow =>
    apply present_of_held'
    simp only [Holder.held, hpc] at hr ⊢
    rw [drop_some hrow]; exact List.mem_cons_of_mem _ hr
  | finish u hpc hrow =>
    simp [Holder.held] at hr

/-- E2: the writer side of `m` is owned after the step only if it was owned before or nobody owned it -/
theorem prefStep_present {s : State} {h h' : Holder} {o : Option Name} (hp : PrefStep s h h' o)
    {m : Name} (hm : h'.present m = true) : h.present m = true ∨ writerPresent s m = false := by
  rcases present_iff.mp hm with ha | hh
  · obtain ⟨k', hpc', hrow'⟩ := announcedOn_iff.mp ha
    cases hp with
    | announce k ph m0 hpc hph hrow hg =>
      right
      simp only [PC.acq.injEq, and_true] at hpc'
      subst hpc'
      simp only at hrow'
      rw [hrow] at hrow'
      simp only [Option.some.injEq, Prod.mk.injEq, and_true] at hrow'
      rw [← hrow']; exact hg
    | _ => simp at hpc'
  · exact Or.inl (prefStep_held_write hp hh)

/-- E2': the writer side of `m` stays owned unless this step released it -/
theorem prefStep_present_keep {s : State} {h h' : Holder} {o : Option Name} (hp : PrefStep s h h' o)
    {m : Name} (hm : h.present m = true) : h'.present m = true ∨ o = some m := by
  rcases present_iff.mp hm with ha | hh
  · obtain ⟨k0, hpc0, hrow0⟩ := announcedOn_iff.mp ha
    cases hp with
    | enter k ph hpc hrow =>
      rw [hpc0] at hpc; cases hpc; rw [hrow0] at hrow; cases hrow
    | announce k ph m0 hpc hph hrow hg =>
      rw [hpc0] at hpc; cases hpc; exact absurd rfl hph
    | wacquire k m0 hpc hrow hg =>
      left
      rw [hpc0] at hpc; cases hpc
      apply present_of_held'
      simp [Holder.held, List.take_add_one, hrow0]
    | racquire k ph m0 hpc hph hrow hg =>
      rw [hpc0] at hpc; cases hpc; rw [hrow0] at hrow; cases hrow
    | rregister k ph m0 hpc hph hrow hg =>
      rw [hpc0] at hpc; cases hpc; rw [hrow0] at hrow; cases hrow
    | leave hpc => rw [hpc0] at hpc; cases hpc
    | release u m0 w hpc hrow => rw [hpc0] at hpc; cases hpc
    | finish u hpc hrow => rw [hpc0] at hpc; cases hpc
  · rcases prefStep_held_keep hp hh with hk | ⟨_, ho⟩ | hf
    · exact Or.inl (present_of_held' hk)
    · exact Or.inr ho
    · cases hf

/-- E3: the stepping holder is parked afterwards only if it has just registered behind a present writer -/
theorem prefStep_rwait {s : State} {h h' : Holder} {o : Option Name} (hp : PrefStep s h h' o)
    {m : Name} (hm : h'.rwaitOn m = true) : writerPresent s m = true ∧ o = none := by
  cases hp with
  | rregister k ph m0 hpc hph hrow hg =>
    simp only [Holder.rwaitOn, hrow, beq_iff_eq, Option.some.injEq, Prod.mk.injEq, and_true] at hm
    rw [← hm]; exact ⟨hg, rfl⟩
  | _ => simp [Holder.rwaitOn] at hm

/-- E5: readers are admitted only by the release of a write row -/
theorem prefStep_wakes {s : State} {h h' : Holder} {o : Option Name} (hp : PrefStep s h h' o)
    {m : Name} (ho : o = some m) :
    ∃ u, h.pc = .rel u ∧ h.req[u]? = some (m, true) ∧ h'.pc = .rel (u + 1) := by
  cases hp with
  | release u m0 w hpc hrow =>
    cases w with
    | false => simp at ho
    | true =>
      simp only [if_true, Option.some.injEq] at ho
      subst ho
      exact ⟨u, hpc, hrow, rfl⟩
  | _ => cases ho

/-! ### effect of the wake-up on the other holders -/

def wakeOpt (o : Option Name) (h : Holder) : Holder :=
  match o with
  | none => h
  | some m => wake m h

theorem wakeOpt_req (o : Option Name) (h : Holder) : (wakeOpt o h).req = h.req := by
  cases o with
  | none => rfl
  | some m => exact wake_req m h

theorem wake_cases (m : Name) (g : Holder) :
    (g.rwaitOn m = false ∧ wake m g = g) ∨
    (∃ k, g.pc = .acq k .rwait ∧ g.req[k]? = some (m, false) ∧ wake m g = { g with pc := .acq (k + 1) .idle }) := by
  cases hr : g.rwaitOn m with
  | false => exact Or.inl ⟨rfl, wake_of_not_rwait hr⟩
  | true =>
    obtain ⟨k, hpc, hrow⟩ := rwaitOn_iff.mp hr
    exact Or.inr ⟨k, hpc, hrow, wake_of_rwait hpc hrow⟩

/-- W1 -/
theorem wakeOpt_held {o : Option Name} {g : Holder} {r : Row} (hr : r ∈ (wakeOpt o g).held) :
    r ∈ g.held ∨ (∃ m, o = some m ∧ r = (m, false) ∧ g.rwaitOn m = true) := by
  cases o with
  | none => exact Or.inl hr
  | some m =>
    simp only [wakeOpt] at hr
    rcases wake_cases m g with ⟨_, e⟩ | ⟨k, hpc, hrow, e⟩
    · rw [e] at hr; exact Or.inl hr
    · rw [e] at hr
      simp only [Holder.held, hpc, List.take_add_one, hrow, Option.toList_some, List.mem_append,
        List.mem_singleton] at hr ⊢
      rcases hr with hr | hr
      · exact Or.inl hr
      · exact Or.inr ⟨m, rfl, hr, rwaitOn_iff.mpr ⟨k, hpc, hrow⟩⟩

/-- W2 -/
theorem wakeOpt_present (o : Option Name) (g : Holder) (m : Name) :
    (wakeOpt o g).present m = g.present m := by
  cases o with
  | none => rfl
  | some m0 =>
    simp only [wakeOpt]
    rcases wake_cases m0 g with ⟨_, e⟩ | ⟨k, hpc, hrow, e⟩
    · rw [e]
    · rw [e]
      simp [Holder.present, Holder.announcedOn, Holder.held, hpc, List.take_add_one, hrow]

/-- W3 -/
theorem wakeOpt_rwait {o : Option Name} {g : Holder} {m : Name} (h : (wakeOpt o g).rwaitOn m = true) :
    g.rwaitOn m = true ∧ o ≠ some m := by
  cases o with
  | none => exact ⟨h, by simp⟩
  | some m0 =>
    simp only [wakeOpt] at h
    rcases wake_cases m0 g with ⟨hn, e⟩ | ⟨k, hpc, hrow, e⟩
    · rw [e] at h
      refine ⟨h, ?_⟩
      intro e'; cases e'; rw [hn] at h; cases h
    · rw [e] at h; simp [Holder.rwaitOn] at h

/-- a holder that is releasing is not parked, so the wake-up leaves it alone -/
theorem wakeOpt_self {s : State} {h h' : Holder} {o : Option Name} (hp : PrefStep s h h' o) :
    wakeOpt o h' = h' := by
  cases o with
  | none => rfl
  | some m =>
    obtain ⟨u, _, _, hpc'⟩ := prefStep_wakes hp rfl
    simp only [wakeOpt]
    apply wake_of_not_rwait
    simp [Holder.rwaitOn, hpc']

/-! ### the step on the whole state -/

theorem step_pref_inv {s t : State} {i : Nat} (hst : step .pref s i = some t) :
    ∃ h h' o, s[i]? = some h ∧ PrefStep s h h' o ∧
      ∀ j : Nat, t[j]? = if j = i then some h' else (s[j]?).map (wakeOpt o) := by
  unfold step at hst
  cases hi : s[i]? with
  | none => simp [hi] at hst
  | some h =>
    simp only [hi] at hst
    cases hp : stepPref s h with
    | none => simp [hp] at hst
    | some p =>
      obtain ⟨h', o⟩ := p
      simp only [hp, Option.map_some, Option.some.injEq] at hst
      have hps := stepPref_cases hp
      refine ⟨h, h', o, rfl, hps, ?_⟩
      intro j
      rw [← hst, wakeAll_get, getElem?_set']
      by_cases hj : j = i
      · subst hj
        simp only [if_true, hi, Option.map_some]
        have := wakeOpt_self hps
        cases o with
        | none => rfl
        | some m => simpa [wakeOpt] using this
      · simp only [hj, if_false]
        cases s[j]? with
        | none => rfl
        | some g => cases o <;> rfl

theorem step_none_pref {s : State} {i : Nat} {h : Holder} (hi : s[i]? = some h)
    (hst : step .pref s i = none) : stepPref s h = none := by
  unfold step at hst
  simp only [hi] at hst
  cases hp : stepPref s h with
  | none => rfl
  | some h' => simp [hp] at hst

theorem step_some_pref {s : State} {i : Nat} {h : Holder} (hi : s[i]? = some h)
    (hst : (stepPref s h).isSome = true) : (step .pref s i).isSome = true := by
  unfold step
  simp only [hi]
  cases hp : stepPref s h with
  | none => simp [hp] at hst
  | some h' => simp

theorem step_pref_reqs {s t : State} {i : Nat} (hst : step .pref s i = some t) : reqsOf t = reqsOf s := by
  obtain ⟨h, h', o, hi, hp, hget⟩ := step_pref_inv hst
  apply List.ext_getElem?
  intro j
  simp only [reqsOf, List.getElem?_map, hget j]
  by_cases hj : j = i
  · subst hj; simp [hi, prefStep_req hp]
  · simp only [hj, if_false]
    cases s[j]? with
    | none => rfl
    | some g => simp [wakeOpt_req]

/-! ### the invariant -/

structure PInv (s : State) : Prop where
  /-- request lists are sorted by name (this is what `SharedMutex.Lock`'s sort provides) -/
  sorted : ∀ h ∈ s, Sorted h.req
  /-- a parked reader is parked behind a writer that owns the writer side -/
  parked : ∀ (j : Nat) (g : Holder) (m : Name), s[j]? = some g → g.rwaitOn m = true → writerPresent s m = true
  /-- the writer side of a lock has at most one owner (Go: the internal mutex `w`) -/
  oneWriter : ∀ (i j : Nat) (hi hj : Holder) (m : Name), i ≠ j → s[i]? = some hi → s[j]? = some hj →
    hi.present m = true → hj.present m = false
  /-- a write-held lock has no reader inside -/
  noReader : ∀ (i j : Nat) (hi hj : Holder) (m : Name), i ≠ j → s[i]? = some hi → s[j]? = some hj →
    (m, true) ∈ hi.held → (m, false) ∉ hj.held

theorem pinv_initRaw {reqs : List (List Row)} (hs : ∀ r ∈ reqs, Sorted r) : PInv (initRaw reqs) := by
  have hget : ∀ (j : Nat) (g : Holder), (initRaw reqs)[j]? = some g → g.pc = .acq 0 .idle := by
    intro j g hg
    simp only [initRaw, List.getElem?_map] at hg
    cases hr : reqs[j]? with
    | none => simp [hr] at hg
    | some r => simp [hr] at hg; subst hg; rfl
  refine ⟨?_, ?_, ?_, ?_⟩
  · intro h hm
    simp only [initRaw, List.mem_map] at hm
    obtain ⟨r, hr, rfl⟩ := hm
    exact hs r hr
  · intro j g m hg hr
    simp [Holder.rwaitOn, hget j g hg] at hr
  · intro i j hi hj m _ h1 _ hp
    simp [Holder.present, Holder.announcedOn, Holder.held, hget i hi h1] at hp
  · intro i j hi hj m _ h1 _ hp
    simp [Holder.held, hget i hi h1] at hp

theorem present_of_held {g : Holder} {m : Name} (h : (m, true) ∈ g.held) : g.present m = true := by
  simp [Holder.present, h]

theorem writerPresent_of_get {s : State} {j : Nat} {g : Holder} {m : Name} (hj : s[j]? = some g)
    (hp : g.present m = true) : writerPresent s m = true :=
  writerPresent_iff.mpr ⟨g, mem_iff_get.mpr ⟨j, hj⟩, hp⟩

theorem readHeld_of_get {s : State} {j : Nat} {g : Holder} {m : Name} (hj : s[j]? = some g)
    (hp : (m, false) ∈ g.held) : readHeld s m = true :=
  readHeld_iff.mpr ⟨g, mem_iff_get.mpr ⟨j, hj⟩, hp⟩

theorem pinv_step {s t : State} {i0 : Nat} (hinv : PInv s) (hst : step .pref s i0 = some t) : PInv t := by
  obtain ⟨h, h', o, hi0, hp, hget⟩ := step_pref_inv hst
  -- pre-image of a holder of the new state
  have pre : ∀ (j : Nat) (g' : Holder), t[j]? = some g' →
      (j = i0 ∧ g' = h') ∨ (j ≠ i0 ∧ ∃ g, s[j]? = some g ∧ g' = wakeOpt o g) := by
    intro j g' hg
    rw [hget j] at hg
    by_cases hj : j = i0
    · left; simp [hj] at hg; exact ⟨hj, hg.symm⟩
    · right
      simp only [hj, if_false] at hg
      cases hs : s[j]? with
      | none => simp [hs] at hg
      | some g => simp [hs] at hg; exact ⟨hj, g, rfl, hg.symm⟩
  have hsorted_h : Sorted h.req := hinv.sorted h (mem_iff_get.mpr ⟨i0, hi0⟩)
  -- the writer side stays owned in the new state, unless released by this step
  have keep : ∀ (m : Name), writerPresent s m = true → o ≠ some m → writerPresent t m = true := by
    intro m hw ho
    obtain ⟨g0, hm0, hp0⟩ := writerPresent_iff.mp hw
    obtain ⟨j0, hj0⟩ := mem_iff_get.mp hm0
    by_cases e : j0 = i0
    · subst e
      rw [hi0] at hj0; cases hj0
      rcases prefStep_present_keep hp hp0 with hk | hk
      · exact writerPresent_of_get (by rw [hget j0]; simp) hk
      · exact absurd hk ho
    · refine writerPresent_of_get (j := j0) (g := wakeOpt o g0) ?_ ?_
      · rw [hget j0]; simp [e, hj0]
      · rw [wakeOpt_present]; exact hp0
  refine ⟨?_, ?_, ?_, ?_⟩
  · -- sorted
    intro g' hm
    obtain ⟨j, hj⟩ := mem_iff_get.mp hm
    rcases pre j g' hj with ⟨_, rfl⟩ | ⟨_, g, hg, rfl⟩
    · rw [prefStep_req hp]; exact hsorted_h
    · rw [wakeOpt_req]; exact hinv.sorted g (mem_iff_get.mpr ⟨j, hg⟩)
  · -- parked
    intro j g' m hj hr
    rcases pre j g' hj with ⟨_, rfl⟩ | ⟨hne, g, hg, rfl⟩
    · obtain ⟨hw, ho⟩ := prefStep_rwait hp hr
      exact keep m hw (by rw [ho]; simp)
    · obtain ⟨hr0, ho⟩ := wakeOpt_rwait hr
      exact keep m (hinv.parked j g m hg hr0) ho
  · -- oneWriter
    intro i j gi gj m hne h1 h2 hp1
    cases hp2 : gj.present m with
    | false => rfl
    | true =>
      exfalso
      rcases pre i gi h1 with ⟨ei, rfl⟩ | ⟨nei, g1, hg1, rfl⟩
      · rcases pre j gj h2 with ⟨ej, _⟩ | ⟨_, g2, hg2, rfl⟩
        · exact hne (ei.trans ej.symm)
        · rw [wakeOpt_present] at hp2
          rcases prefStep_present hp hp1 with hq | hq
          · have := hinv.oneWriter i j h g2 m hne (ei ▸ hi0) hg2 hq
            rw [hp2] at this; cases this
          · have := writerPresent_of_get hg2 hp2
            rw [hq] at this; cases this
      · rw [wakeOpt_present] at hp1
        rcases pre j gj h2 with ⟨ej, rfl⟩ | ⟨_, g2, hg2, rfl⟩
        · rcases prefStep_present hp hp2 with hq | hq
          · have := hinv.oneWriter i j g1 h m hne hg1 (ej ▸ hi0) hp1
            rw [hq] at this; cases this
          · have := writerPresent_of_get hg1 hp1
            rw [hq] at this; cases this
        · rw [wakeOpt_present] at hp2
          have := hinv.oneWriter i j g1 g2 m hne hg1 hg2 hp1
          rw [hp2] at this; cases this
  · -- noReader
    intro i j gi gj m hne h1 h2 hw hr
    -- the write row was held by the pre-image (a wake-up only adds read rows)
    rcases pre i gi h1 with ⟨ei, rfl⟩ | ⟨nei, g1, hg1, rfl⟩
    · -- the writer is the stepping holder
      rcases pre j gj h2 with ⟨ej, _⟩ | ⟨nej, g2, hg2, rfl⟩
      · exact hne (ei.trans ej.symm)
      · rcases wakeOpt_held hr with hr0 | ⟨m0, ho, hrow, hrw⟩
        · rcases prefStep_held hp hw with hq | ⟨_, hq⟩ | ⟨hq, _⟩
          · exact hinv.noReader i j h g2 m hne (ei ▸ hi0) hg2 hq hr0
          · have := readHeld_of_get hg2 hr0
            simp only at hq
            rw [hq] at this; cases this
          · cases hq
        · -- a reader admitted by this very step: the stepping holder released (m, true) and cannot still hold it
          simp only [Prod.mk.injEq] at hrow
          obtain ⟨rfl, _⟩ := hrow
          obtain ⟨u, hpc, hrowu, hpc'⟩ := prefStep_wakes hp ho
          have : (m, true) ∈ h.req.drop (u + 1) := by
            simpa [Holder.held, hpc', prefStep_req hp] using hw
          have := sorted_get_notin_drop hsorted_h hrowu this
          exact Nat.lt_irrefl _ this
    · have hw0 : (m, true) ∈ g1.held := by
        rcases wakeOpt_held hw with hw0 | ⟨m0, _, hrow, _⟩
        · exact hw0
        · simp at hrow
      rcases pre j gj h2 with ⟨ej, rfl⟩ | ⟨nej, g2, hg2, rfl⟩
      · -- the reader is the stepping holder
        rcases prefStep_held hp hr with hq | ⟨hq, _⟩ | ⟨_, hq⟩
        · exact hinv.noReader i j g1 h m hne hg1 (ej ▸ hi0) hw0 hq
        · cases hq
        · have := writerPresent_of_get hg1 (present_of_held hw0)
          simp only at hq
          rw [hq] at this; cases this
      · rcases wakeOpt_held hr with hr0 | ⟨m0, ho, hrow, hrw⟩
        · exact hinv.noReader i j g1 g2 m hne hg1 hg2 hw0 hr0
        · -- a reader admitted by this step while a third holder write-holds m: two owners of the writer side
          simp only [Prod.mk.injEq] at hrow
          obtain ⟨rfl, _⟩ := hrow
          obtain ⟨u, hpc, hrowu, _⟩ := prefStep_wakes hp ho
          have hh : (m, true) ∈ h.held := by
            simp only [Holder.held, hpc]; rw [drop_some hrowu]; simp
          have := hinv.oneWriter i i0 g1 h m nei hg1 hi0 (present_of_held hw0)
          rw [present_of_held hh] at this; cases this

theorem pinv_reachable {reqs : List (List Row)} (hs : ∀ r ∈ reqs, Sorted r) {s : State}
    (hr : Reachable (sysRaw .pref reqs) s) : PInv s :=
  inv_of_init_step (sysRaw .pref reqs) PInv (pinv_initRaw hs) (fun _ _ _ hi hst => pinv_step hi hst) s hr

/-- lock-level exclusion (as for the ideal lock) follows from the invariant -/
theorem excl_of_pinv {s : State} (hinv : PInv s) : Excl s := by
  intro i j hi hj hne h1 h2 m w hm hw
  cases w with
  | false => exact hinv.noReader i j hi hj m hne h1 h2 hm hw
  | true =>
    have := hinv.oneWriter i j hi hj m hne h1 h2 (present_of_held hm)
    rw [present_of_held hw] at this; cases this

/-! ### deadlock freedom -/

theorem deadlock_free_pref_state {s : State} (hinv : PInv s)
    (hactive : ∃ h ∈ s, h.pc ≠ .done) : ∃ i, (step .pref s i).isSome = true := by
  apply Classical.byContradiction
  intro hno
  have hall : ∀ i, step .pref s i = none := by
    intro i
    cases hs : step .pref s i with
    | none => rfl
    | some t => exact absurd ⟨i, by simp [hs]⟩ hno
  have hblocked : ∀ h ∈ s, stepPref s h = none := by
    intro h hm
    obtain ⟨i, hi⟩ := mem_iff_get.mp hm
    exact step_none_pref hi (hall i)
  let act := s.filter (fun h => h.pc ≠ .done)
  have hne : act ≠ [] := by
    obtain ⟨h, hm, hd⟩ := hactive
    intro he
    have : h ∈ act := by simp [act, hm, hd]
    simp [he] at this
  obtain ⟨x, hx, hmax⟩ := exists_max awaitedName act hne
  have hxm : x ∈ s := (List.mem_filter.mp hx).1
  have hxd : x.pc ≠ .done := by simpa using (List.mem_filter.mp hx).2
  -- every blocked, unfinished holder awaits some row
  have awaits : ∀ g ∈ s, g.pc ≠ .done → ∃ k ph m w, g.pc = .acq k ph ∧ g.req[k]? = some (m, w) := by
    intro g hg hd
    rcases stepPref_none (hblocked g hg) with h0 | ⟨k, ph, m, hpc, hrow, _⟩ | ⟨k, m, hpc, hrow, _⟩ | ⟨k, m, hpc, hrow⟩
    · exact absurd h0 hd
    · exact ⟨k, ph, m, true, hpc, hrow⟩
    · exact ⟨k, .announced, m, true, hpc, hrow⟩
    · exact ⟨k, .rwait, m, false, hpc, hrow⟩
  obtain ⟨k, ph, m, w, hpc, hrow⟩ := awaits x hxm hxd
  have hxa : awaitedName x = m := awaitedName_eq hpc hrow
  -- nobody holds the greatest awaited name
  have nohold : ∀ g ∈ s, ∀ w', (m, w') ∉ g.held := by
    intro g hg w' hheld
    have hd : g.pc ≠ .done := by
      intro hd; rw [held_done hd] at hheld; simp at hheld
    obtain ⟨k', ph', m', w2, hpc', hrow'⟩ := awaits g hg hd
    have hlt : (m : Nat) < (m' : Nat) := held_lt_awaited (hinv.sorted g hg) hpc' hheld hrow'
    have hin : g ∈ act := by simp [act, hg, hd]
    have hle := hmax g hin
    rw [hxa, awaitedName_eq hpc' hrow'] at hle
    exact Nat.lt_irrefl _ (Nat.lt_of_lt_of_le hlt hle)
  have noread : readHeld s m = false := by
    cases hr : readHeld s m with
    | false => rfl
    | true =>
      obtain ⟨g, hg, hh⟩ := readHeld_iff.mp hr
      exact absurd hh (nohold g hg false)
  -- hence nobody owns its writer side either: an announced writer would be enabled
  have nopresent : writerPresent s m = false := by
    cases hw : writerPresent s m with
    | false => rfl
    | true =>
      exfalso
      obtain ⟨g, hg, hp⟩ := writerPresent_iff.mp hw
      rcases present_iff.mp hp with ha | hh
      · obtain ⟨k', hpc', hrow'⟩ := announcedOn_iff.mp ha
        rcases stepPref_none (hblocked g hg) with h0 | ⟨k2, ph2, m2, hpc2, _, hph2, _⟩ | ⟨k2, m2, hpc2, hrow2, hrd⟩ | ⟨k2, m2, hpc2, _⟩
        · rw [hpc'] at h0; cases h0
        · rw [hpc'] at hpc2; cases hpc2; exact hph2 rfl
        · rw [hpc'] at hpc2; cases hpc2
          rw [hrow'] at hrow2; cases hrow2
          rw [noread] at hrd; cases hrd
        · rw [hpc'] at hpc2; cases hpc2
      · exact nohold g hg true hh
  rcases stepPref_none (hblocked x hxm) with h0 | ⟨k2, ph2, m2, hpc2, hrow2, _, hwp⟩ | ⟨k2, m2, hpc2, hrow2, hrd⟩ | ⟨k2, m2, hpc2, hrow2⟩
  · exact hxd h0
  · rw [hpc] at hpc2; cases hpc2
    rw [hrow] at hrow2; cases hrow2
    rw [nopresent] at hwp; cases hwp
  · rw [hpc] at hpc2; cases hpc2
    rw [hrow] at hrow2; cases hrow2
    rw [noread] at hrd; cases hrd
  · rw [hpc] at hpc2; cases hpc2
    rw [hrow] at hrow2; cases hrow2
    obtain ⟨j, hj⟩ := mem_iff_get.mp hxm
    have := hinv.parked j x m hj (rwaitOn_iff.mpr ⟨k, hpc, hrow⟩)
    rw [nopresent] at this; cases this

/-! ### non-interference -/

theorem present_row {g : Holder} {m : Name} (hp : g.present m = true) : (m, true) ∈ g.req := by
  rcases present_iff.mp hp with ha | hh
  · obtain ⟨k, _, hrow⟩ := announcedOn_iff.mp ha
    exact List.mem_of_getElem? hrow
  · exact held_sub_req g hh

/-- under the Go lock a holder that is compatible with all others is enabled in every state that
satisfies the invariant (in particular in every reachable state) -/
theorem compatible_enabled_pref {s : State} (hinv : PInv s) {i : Nat} {h : Holder} (hi : s[i]? = some h)
    (hc : Compatible (reqsOf s) i) (hd : h.pc ≠ .done) : (step .pref s i).isSome = true := by
  have hs : Sorted h.req := hinv.sorted h (mem_iff_get.mpr ⟨i, hi⟩)
  -- while acquiring row (m, w): no other holder has a conflicting row, and `h` itself holds no row named m
  have nopresent : ∀ k ph m w, h.pc = .acq k ph → ph ≠ .announced → h.req[k]? = some (m, w) →
      writerPresent s m = false := by
    intro k ph m w hpc hph hrow
    cases hw : writerPresent s m with
    | false => rfl
    | true =>
      exfalso
      obtain ⟨g, hg, hp⟩ := writerPresent_iff.mp hw
      obtain ⟨j, hj⟩ := mem_iff_get.mp hg
      by_cases hji : j = i
      · subst hji
        rw [hi] at hj; cases hj
        rcases present_iff.mp hp with ha | hh
        · obtain ⟨k', hpc', _⟩ := announcedOn_iff.mp ha
          rw [hpc] at hpc'; cases hpc'; exact hph rfl
        · have := held_lt_awaited hs hpc hh hrow
          exact Nat.lt_irrefl _ this
      · have := hc h.req (reqsOf_get hi) j g.req hji (reqsOf_get hj) m w true
          (List.mem_of_getElem? hrow) (present_row hp)
        cases this.2
  apply step_some_pref hi
  cases hst : stepPref s h with
  | some p => rfl
  | none =>
    exfalso
    rcases stepPref_none hst with h0 | ⟨k, ph, m, hpc, hrow, hph, hwp⟩ | ⟨k, m, hpc, hrow, hrd⟩ | ⟨k, m, hpc, hrow⟩
    · exact hd h0
    · rw [nopresent k ph m true hpc hph hrow] at hwp; cases hwp
    · obtain ⟨g, hg, hh⟩ := readHeld_iff.mp hrd
      obtain ⟨j, hj⟩ := mem_iff_get.mp hg
      by_cases hji : j = i
      · subst hji
        rw [hi] at hj; cases hj
        have := held_lt_awaited hs hpc hh hrow
        exact Nat.lt_irrefl _ this
      · have := hc h.req (reqsOf_get hi) j g.req hji (reqsOf_get hj) m true false
          (List.mem_of_getElem? hrow) (held_sub_req g hh)
        cases this.1
    · have hw := hinv.parked i h m hi (rwaitOn_iff.mpr ⟨k, hpc, hrow⟩)
      rw [nopresent k .rwait m false hpc (by simp) hrow] at hw; cases hw

end Goat.Mutex
