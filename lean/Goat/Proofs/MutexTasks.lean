/-
Helper lemmas for property C15, part 8 (tasks layer): shape of a task step, the invariant `TInv`,
deadlock freedom (tasks that still wait hold nothing, so the first layer's greatest-awaited-name
argument applies to the lock table unchanged; when the lock table is idle the waiting task with the
smallest index finds its prerequisite ended), the completion measure.
-/
import Goat.Proofs.MutexTasksLock

namespace Goat.MutexTasks

open Goat.Mutex Goat.LTS

/-! ### the three kinds of step -/

inductive StepKind (v : Variant) (tasks : List Task) (ts : TState) (i : Nat) (t : Task) : TState → Prop
  | start (k : Nat) : ts.stage[i]? = some (.waiting k) → t.waits[k]? = none →
      StepKind v tasks ts i t { lock := activate ts.lock i, stage := ts.stage.set i .running }
  | await (k j : Nat) : ts.stage[i]? = some (.waiting k) → t.waits[k]? = some j → finishedAt ts j = true →
      StepKind v tasks ts i t
        { ts with stage := ts.stage.set i (if failedAt tasks ts j then .aborted else .waiting (k + 1)) }
  | lockstep (l : State) : ts.stage[i]? = some .running → Mutex.step v ts.lock i = some l →
      StepKind v tasks ts i t { ts with lock := l }

theorem step_cases {v : Variant} {tasks : List Task} {ts ts' : TState} {i : Nat}
    (hst : step v tasks ts i = some ts') : ∃ t, tasks[i]? = some t ∧ StepKind v tasks ts i t ts' := by
  unfold step at hst
  cases ht : tasks[i]? with
  | none => simp [ht] at hst
  | some t =>
    refine ⟨t, rfl, ?_⟩
    cases hs : ts.stage[i]? with
    | none => simp [ht, hs] at hst
    | some st =>
      cases st with
      | waiting k =>
        simp only [ht, hs] at hst
        cases hw : t.waits[k]? with
        | none =>
          simp only [hw, Option.some.injEq] at hst
          subst hst
          exact .start k hs hw
        | some j =>
          simp only [hw] at hst
          by_cases hf : finishedAt ts j = true
          · simp only [hf, if_true, Option.some.injEq] at hst
            subst hst
            exact .await k j hs hw hf
          · simp [hf] at hst
      | running =>
        simp only [ht, hs] at hst
        cases hl : Mutex.step v ts.lock i with
        | none => simp [hl] at hst
        | some l =>
          simp only [hl, Option.map_some, Option.some.injEq] at hst
          subst hst
          exact .lockstep l hs hl
      | aborted => simp [ht, hs] at hst

theorem step_some_lock {v : Variant} {tasks : List Task} {ts : TState} {i : Nat} {t : Task}
    (ht : tasks[i]? = some t) (hs : ts.stage[i]? = some .running)
    (hl : (Mutex.step v ts.lock i).isSome = true) : (step v tasks ts i).isSome = true := by
  unfold step
  simp only [ht, hs]
  cases h : Mutex.step v ts.lock i with
  | none => simp [h] at hl
  | some l => simp

theorem step_some_start {v : Variant} {tasks : List Task} {ts : TState} {i k : Nat} {t : Task}
    (ht : tasks[i]? = some t) (hs : ts.stage[i]? = some (.waiting k)) (hw : t.waits[k]? = none) :
    (step v tasks ts i).isSome = true := by
  unfold step
  simp [ht, hs, hw]

theorem step_some_await {v : Variant} {tasks : List Task} {ts : TState} {i k j : Nat} {t : Task}
    (ht : tasks[i]? = some t) (hs : ts.stage[i]? = some (.waiting k)) (hw : t.waits[k]? = some j)
    (hf : finishedAt ts j = true) : (step v tasks ts i).isSome = true := by
  unfold step
  simp [ht, hs, hw, hf]

/-! ### `activate` -/

theorem activate_eq {s : State} {i : Nat} {h : Holder} (hi : s[i]? = some h) :
    activate s i = s.set i { h with pc := .acq 0 .idle } := by
  simp [activate, hi]

theorem activate_none {s : State} {i : Nat} (hi : s[i]? = none) : activate s i = s := by
  simp [activate, hi]

theorem activate_length (s : State) (i : Nat) : (activate s i).length = s.length := by
  unfold activate
  split <;> simp

theorem activate_get_ne {s : State} {i j : Nat} (hne : j ≠ i) : (activate s i)[j]? = s[j]? := by
  unfold activate
  split
  · rw [getElem?_set']; simp [hne]
  · rfl

theorem activate_reqs (s : State) (i : Nat) : reqsOf (activate s i) = reqsOf s := by
  cases hi : s[i]? with
  | none => rw [activate_none hi]
  | some h => rw [activate_eq hi]; exact set_same_req hi rfl

/-! ### ended tasks stay ended -/

theorem finishedAt_running {ts : TState} {j : Nat} (hs : ts.stage[j]? = some .running) :
    finishedAt ts j = true ↔ ∃ h, ts.lock[j]? = some h ∧ h.pc = .done := by
  unfold finishedAt
  simp only [hs]
  cases hl : ts.lock[j]? with
  | none => simp
  | some h => simp

theorem finishedAt_waiting {ts : TState} {j k : Nat} (hs : ts.stage[j]? = some (.waiting k)) :
    finishedAt ts j = false := by
  simp [finishedAt, hs]

theorem finishedAt_aborted {ts : TState} {j : Nat} (hs : ts.stage[j]? = some .aborted) :
    finishedAt ts j = true := by
  simp [finishedAt, hs]

theorem finishedAt_congr {ts ts' : TState} {j : Nat} (h1 : ts'.stage[j]? = ts.stage[j]?)
    (h2 : ts'.lock[j]? = ts.lock[j]?) : finishedAt ts' j = finishedAt ts j := by
  simp [finishedAt, h1, h2]

theorem failedAt_congr {tasks : List Task} {ts ts' : TState} {j : Nat} (h1 : ts'.stage[j]? = ts.stage[j]?) :
    failedAt tasks ts' j = failedAt tasks ts j := by
  simp [failedAt, h1]

/-- a task that has ended makes no further step, and no step of another task touches it -/
theorem finished_step {v : Variant} {tasks : List Task} {ts ts' : TState} {i : Nat}
    (hst : step v tasks ts i = some ts') {j : Nat} (hf : finishedAt ts j = true) :
    finishedAt ts' j = true ∧ failedAt tasks ts' j = failedAt tasks ts j := by
  obtain ⟨t, ht, hk⟩ := step_cases hst
  cases hk with
  | start k hs hw =>
    have hne : j ≠ i := by
      intro e; subst e; rw [finishedAt_waiting hs] at hf; cases hf
    have h1 : (ts.stage.set i Stage.running)[j]? = ts.stage[j]? := by rw [List.getElem?_set]; simp [Ne.symm hne]
    have h2 : (activate ts.lock i)[j]? = ts.lock[j]? := activate_get_ne hne
    exact ⟨by rw [finishedAt_congr h1 h2]; exact hf, failedAt_congr h1⟩
  | await k p hs hw hfp =>
    have hne : j ≠ i := by
      intro e; subst e; rw [finishedAt_waiting hs] at hf; cases hf
    have h1 : (ts.stage.set i (if failedAt tasks ts p then Stage.aborted else Stage.waiting (k + 1)))[j]? =
        ts.stage[j]? := by rw [List.getElem?_set]; simp [Ne.symm hne]
    refine ⟨?_, failedAt_congr h1⟩
    have := finishedAt_congr (ts := ts) (j := j)
      (ts' := { ts with stage := ts.stage.set i (if failedAt tasks ts p then Stage.aborted else Stage.waiting (k + 1)) })
      h1 rfl
    exact this.trans hf
  | lockstep l hs hl =>
    refine ⟨?_, failedAt_congr rfl⟩
    obtain ⟨h, h', hi, hi', hnd, _, _, hother⟩ := step_summary hl
    by_cases e : j = i
    · subst e
      obtain ⟨g, hg, hd⟩ := (finishedAt_running hs).mp hf
      rw [hi] at hg; cases hg
      exact absurd hd hnd
    · cases hsj : ts.stage[j]? with
      | none => simp [finishedAt, hsj] at hf
      | some st =>
        cases st with
        | waiting k => rw [finishedAt_waiting hsj] at hf; cases hf
        | aborted => exact finishedAt_aborted hsj
        | running =>
          obtain ⟨g, hg, hd⟩ := (finishedAt_running hsj).mp hf
          obtain ⟨g', hg', _, _, hsame⟩ := hother j e g hg
          apply (finishedAt_running (ts := { ts with lock := l }) hsj).mpr
          exact ⟨g', hg', by rw [hsame hd]; exact hd⟩

/-! ### the invariant -/

/-- the entries of the wait list the task has already got past -/
def doneWaits (t : Task) : Stage → List Nat
  | .waiting k => t.waits.take k
  | .running => t.waits
  | .aborted => []

structure TInv (v : Variant) (tasks : List Task) (ts : TState) : Prop where
  lenS : ts.stage.length = tasks.length
  reqs : reqsOf ts.lock = tasks.map fun t => sortRows t.map
  linv : LInv v ts.lock
  /-- a task that is not between `Lock` and the end of `Unlock` has an inert lock-table entry -/
  inert : ∀ (i : Nat) (st : Stage) (h : Holder), ts.stage[i]? = some st → st ≠ .running →
    ts.lock[i]? = some h → h.pc = .done
  /-- the prerequisites a task has got past have ended, without error -/
  prereq : ∀ (i : Nat) (t : Task) (st : Stage), tasks[i]? = some t → ts.stage[i]? = some st →
    ∀ j ∈ doneWaits t st, finishedAt ts j = true ∧ failedAt tasks ts j = false

theorem TInv.lenL {v : Variant} {tasks : List Task} {ts : TState} (h : TInv v tasks ts) :
    ts.lock.length = tasks.length := by
  have := congrArg List.length h.reqs
  simpa [reqsOf] using this

theorem get_of_lt {α} {l : List α} {i : Nat} (h : i < l.length) : ∃ a, l[i]? = some a :=
  ⟨l[i], List.getElem?_eq_getElem h⟩

theorem lt_of_get {α} {l : List α} {i : Nat} {a : α} (h : l[i]? = some a) : i < l.length := by
  rcases Nat.lt_or_ge i l.length with hk | hk
  · exact hk
  · simp [List.getElem?_eq_none hk] at h

theorem tinv_init {v : Variant} {tasks : List Task} (hmaps : ∀ t ∈ tasks, NodupNames t.map) :
    TInv v tasks (init tasks) := by
  have hget : ∀ (j : Nat) (g : Holder), (init tasks).lock[j]? = some g →
      ∃ t, tasks[j]? = some t ∧ g = inertHolder t := by
    intro j g hg
    simp only [init, List.getElem?_map] at hg
    cases ht : tasks[j]? with
    | none => simp [ht] at hg
    | some t => simp [ht] at hg; exact ⟨t, rfl, hg.symm⟩
  refine ⟨by simp [init], ?_, ?_, ?_, ?_⟩
  · simp [init, reqsOf, List.map_map, Function.comp_def, inertHolder]
  · apply linv_all_done
    · intro g hm
      obtain ⟨j, hj⟩ := mem_iff_get.mp hm
      obtain ⟨t, ht, rfl⟩ := hget j g hj
      exact sorted_sortRows (hmaps t (List.mem_of_getElem? ht))
    · intro g hm
      obtain ⟨j, hj⟩ := mem_iff_get.mp hm
      obtain ⟨t, _, rfl⟩ := hget j g hj
      rfl
  · intro i st h _ _ hl
    obtain ⟨t, _, rfl⟩ := hget i h hl
    rfl
  · intro i t st ht hs j hj
    simp only [init, List.getElem?_map, ht, Option.map_some, Option.some.injEq] at hs
    subst hs
    simp [doneWaits] at hj

theorem tinv_step {v : Variant} {tasks : List Task} {ts ts' : TState} {i : Nat}
    (hinv : TInv v tasks ts) (hst : step v tasks ts i = some ts') : TInv v tasks ts' := by
  obtain ⟨t, ht, hk⟩ := step_cases hst
  -- the prerequisites already passed stay ended for every task whose stage is unchanged
  have keep : ∀ (i' : Nat) (t' : Task) (st : Stage), tasks[i']? = some t' → ts.stage[i']? = some st →
      ∀ j ∈ doneWaits t' st, finishedAt ts' j = true ∧ failedAt tasks ts' j = false := by
    intro i' t' st ht' hs' j hj
    obtain ⟨h1, h2⟩ := hinv.prereq i' t' st ht' hs' j hj
    obtain ⟨h3, h4⟩ := finished_step hst h1
    exact ⟨h3, by rw [h4]; exact h2⟩
  cases hk with
  | start k hs hw =>
    obtain ⟨h, hi⟩ := get_of_lt (l := ts.lock) (i := i) (by rw [hinv.lenL]; exact lt_of_get ht)
    have hd : h.pc = .done := hinv.inert i _ h hs (by simp) hi
    refine ⟨by simp [hinv.lenS], by rw [activate_reqs]; exact hinv.reqs, ?_, ?_, ?_⟩
    · rw [activate_eq hi]; exact linv_set hinv.linv hi (obsEq_fresh hd)
    · intro j st g hsj hne hg
      by_cases e : j = i
      · subst e
        rw [List.getElem?_set] at hsj
        simp [lt_of_get hs] at hsj
        exact absurd hsj.symm hne
      · rw [List.getElem?_set] at hsj
        simp [Ne.symm e] at hsj
        rw [activate_get_ne e] at hg
        exact hinv.inert j st g hsj hne hg
    · intro i' t' st ht' hs' j hj
      by_cases e : i' = i
      · subst e
        rw [ht] at ht'; cases ht'
        rw [List.getElem?_set] at hs'
        simp [lt_of_get hs] at hs'
        subst hs'
        apply keep i' t (.waiting k) ht hs j
        have : t.waits.length ≤ k := by
          rcases Nat.lt_or_ge k t.waits.length with hlt | hge
          · simp [List.getElem?_eq_getElem hlt] at hw
          · exact hge
        simpa [doneWaits, List.take_of_length_le this] using hj
      · rw [List.getElem?_set] at hs'
        simp [Ne.symm e] at hs'
        exact keep i' t' st ht' hs' j hj
  | await k p hs hw hfp =>
    refine ⟨by simp [hinv.lenS], hinv.reqs, hinv.linv, ?_, ?_⟩
    · intro j st g hsj hne hg
      by_cases e : j = i
      · subst e
        exact hinv.inert j _ g hs (by simp) hg
      · rw [List.getElem?_set] at hsj
        simp [Ne.symm e] at hsj
        exact hinv.inert j st g hsj hne hg
    · intro i' t' st ht' hs' j hj
      by_cases e : i' = i
      · subst e
        rw [ht] at ht'; cases ht'
        rw [List.getElem?_set] at hs'
        simp [lt_of_get hs] at hs'
        by_cases hfail : failedAt tasks ts p = true
        · simp [hfail] at hs'; subst hs'
          simp [doneWaits] at hj
        · simp [hfail] at hs'; subst hs'
          have hk : k < t.waits.length := lt_of_get hw
          have hjj : j ∈ t.waits.take k ∨ j = p := by
            simp only [doneWaits, List.take_add_one, hw, Option.toList_some, List.mem_append,
              List.mem_singleton] at hj
            exact hj
          rcases hjj with hj | rfl
          · exact keep i' t (.waiting k) ht hs j (by simpa [doneWaits] using hj)
          · obtain ⟨h3, h4⟩ := finished_step hst hfp
            exact ⟨h3, by rw [h4]; simpa using hfail⟩
      · rw [List.getElem?_set] at hs'
        simp [Ne.symm e] at hs'
        exact keep i' t' st ht' hs' j hj
  | lockstep l hs hl =>
    obtain ⟨h, h', hi, hi', hnd, _, _, hother⟩ := step_summary hl
    refine ⟨hinv.lenS, (step_reqs hl).trans hinv.reqs, linv_step hinv.linv hl, ?_, keep⟩
    intro j st g hsj hne hg
    have e : j ≠ i := by
      intro e; subst e
      simp only at hsj
      rw [hs] at hsj; cases hsj; exact hne rfl
    obtain ⟨g0, hg0⟩ := get_of_lt (l := ts.lock) (i := j) (by rw [← step_length hl]; exact lt_of_get hg)
    have hd0 := hinv.inert j st g0 hsj hne hg0
    obtain ⟨g', hg', _, _, hsame⟩ := hother j e g0 hg0
    simp only at hg
    rw [hg'] at hg; cases hg
    rw [hsame hd0]; exact hd0

/-! ### why a task gives up -/

/-- a task returned from `waitForTasks` with the error only because a task of its wait list has ended
with an error -/
def AbortedWhy (tasks : List Task) (ts : TState) : Prop :=
  ∀ (i : Nat) (t : Task), tasks[i]? = some t → ts.stage[i]? = some .aborted →
    ∃ j ∈ t.waits, finishedAt ts j = true ∧ failedAt tasks ts j = true

theorem abortedWhy_init (tasks : List Task) : AbortedWhy tasks (init tasks) := by
  intro i t ht hs
  simp only [init, List.getElem?_map, ht, Option.map_some, Option.some.injEq] at hs
  cases hs

theorem abortedWhy_step {v : Variant} {tasks : List Task} {ts ts' : TState} {i : Nat}
    (hinv : AbortedWhy tasks ts) (hst : step v tasks ts i = some ts') : AbortedWhy tasks ts' := by
  have keep : ∀ (i' : Nat) (t' : Task), tasks[i']? = some t' → ts.stage[i']? = some .aborted →
      ∃ j ∈ t'.waits, finishedAt ts' j = true ∧ failedAt tasks ts' j = true := by
    intro i' t' ht' hs'
    obtain ⟨j, hj, h1, h2⟩ := hinv i' t' ht' hs'
    obtain ⟨h3, h4⟩ := finished_step hst h1
    exact ⟨j, hj, h3, by rw [h4]; exact h2⟩
  obtain ⟨t, ht, hk⟩ := step_cases hst
  intro i' t' ht' hs'
  cases hk with
  | start k hs hw =>
    by_cases e : i' = i
    · subst e
      simp only at hs'
      rw [List.getElem?_set] at hs'
      simp [lt_of_get hs] at hs'
    · simp only at hs'
      rw [List.getElem?_set] at hs'
      simp [Ne.symm e] at hs'
      exact keep i' t' ht' hs'
  | await k p hs hw hfp =>
    by_cases e : i' = i
    · subst e
      rw [ht] at ht'; cases ht'
      simp only at hs'
      rw [List.getElem?_set] at hs'
      simp [lt_of_get hs] at hs'
      by_cases hfail : failedAt tasks ts p = true
      · obtain ⟨h3, h4⟩ := finished_step hst hfp
        exact ⟨p, List.mem_of_getElem? hw, h3, by rw [h4]; exact hfail⟩
      · simp [hfail] at hs'
    · simp only at hs'
      rw [List.getElem?_set] at hs'
      simp [Ne.symm e] at hs'
      exact keep i' t' ht' hs'
  | lockstep l hs hl => exact keep i' t' ht' hs'

theorem abortedWhy_reachable {v : Variant} {tasks : List Task} {ts : TState}
    (hr : Reachable (tsys v tasks) ts) : AbortedWhy tasks ts :=
  inv_of_init_step (tsys v tasks) (AbortedWhy tasks) (abortedWhy_init tasks)
    (fun _ _ _ hi hst => abortedWhy_step hi hst) ts hr

theorem tinv_reachable {v : Variant} {tasks : List Task} (hmaps : ∀ t ∈ tasks, NodupNames t.map)
    {ts : TState} (hr : Reachable (tsys v tasks) ts) : TInv v tasks ts :=
  inv_of_init_step (tsys v tasks) (TInv v tasks) (tinv_init hmaps) (fun _ _ _ hi hst => tinv_step hi hst) ts hr

/-! ### deadlock freedom -/

/-- every task has ended -/
def AllFinished (tasks : List Task) (ts : TState) : Prop := ∀ j, j < tasks.length → finishedAt ts j = true

theorem deadlock_free_state {v : Variant} {tasks : List Task} (hwf : WellFormed tasks) {ts : TState}
    (hinv : TInv v tasks ts) (hact : ¬ AllFinished tasks ts) : ∃ i, (step v tasks ts i).isSome = true := by
  by_cases hlock : ∃ h ∈ ts.lock, h.pc ≠ .done
  · -- somebody is between Lock and the end of Unlock: the first layer's argument on the lock table
    obtain ⟨i, hen⟩ := linv_deadlock_free hinv.linv hlock
    obtain ⟨g, hg, hnd⟩ := step_some_of_get hen
    have hi : i < tasks.length := by rw [← hinv.lenL]; exact lt_of_get hg
    obtain ⟨t, ht⟩ := get_of_lt hi
    obtain ⟨st, hs⟩ := get_of_lt (l := ts.stage) (i := i) (by rw [hinv.lenS]; exact hi)
    have : st = .running := by
      apply Classical.byContradiction
      intro hne
      exact hnd (hinv.inert i st g hs hne hg)
    subst this
    exact ⟨i, step_some_lock ht hs hen⟩
  · -- the lock table is idle: every task that has not ended is in `waitForTasks`
    have hidle : ∀ (j : Nat) (g : Holder), ts.lock[j]? = some g → g.pc = .done := by
      intro j g hg
      apply Classical.byContradiction
      intro hd
      exact hlock ⟨g, mem_iff_get.mpr ⟨j, hg⟩, hd⟩
    have key : ∀ (n j : Nat), j ≤ n → j < tasks.length → finishedAt ts j = false →
        ∃ i, (step v tasks ts i).isSome = true := by
      intro n
      induction n with
      | zero =>
        intro j hj0 hj hnf
        have : j = 0 := Nat.le_zero.mp hj0
        subst this
        obtain ⟨t, ht⟩ := get_of_lt hj
        obtain ⟨st, hs⟩ := get_of_lt (l := ts.stage) (i := 0) (by rw [hinv.lenS]; exact hj)
        cases st with
        | aborted => rw [finishedAt_aborted hs] at hnf; cases hnf
        | running =>
          obtain ⟨g, hg⟩ := get_of_lt (l := ts.lock) (i := 0) (by rw [hinv.lenL]; exact hj)
          have := (finishedAt_running hs).mpr ⟨g, hg, hidle 0 g hg⟩
          rw [hnf] at this; cases this
        | waiting k =>
          cases hw : t.waits[k]? with
          | none => exact ⟨0, step_some_start ht hs hw⟩
          | some p =>
            have := hwf 0 t ht p (List.mem_of_getElem? hw)
            exact absurd this (Nat.not_lt_zero _)
      | succ n ih =>
        intro j hjn hj hnf
        obtain ⟨t, ht⟩ := get_of_lt hj
        obtain ⟨st, hs⟩ := get_of_lt (l := ts.stage) (i := j) (by rw [hinv.lenS]; exact hj)
        cases st with
        | aborted => rw [finishedAt_aborted hs] at hnf; cases hnf
        | running =>
          obtain ⟨g, hg⟩ := get_of_lt (l := ts.lock) (i := j) (by rw [hinv.lenL]; exact hj)
          have := (finishedAt_running hs).mpr ⟨g, hg, hidle j g hg⟩
          rw [hnf] at this; cases this
        | waiting k =>
          cases hw : t.waits[k]? with
          | none => exact ⟨j, step_some_start ht hs hw⟩
          | some p =>
            have hp : p < j := hwf j t ht p (List.mem_of_getElem? hw)
            cases hfp : finishedAt ts p with
            | true => exact ⟨j, step_some_await ht hs hw hfp⟩
            | false => exact ih p (by omega) (by omega) hfp
    have : ∃ j, j < tasks.length ∧ finishedAt ts j = false := by
      apply Classical.byContradiction
      intro hno
      apply hact
      intro j hj
      cases hf : finishedAt ts j with
      | true => rfl
      | false => exact absurd ⟨j, hj, hf⟩ hno
    obtain ⟨j, hj, hnf⟩ := this
    exact key j j (Nat.le_refl _) hj hnf

/-! ### the completion measure -/

/-- an upper bound on the number of steps a task still makes -/
def cost (t : Task) (st : Stage) (h : Holder) : Nat :=
  match st with
  | .waiting k => (t.waits.length - k) + (4 * h.req.length + 5)
  | .running => h.remaining
  | .aborted => 0

def measure : List Task → List Stage → List Holder → Nat
  | t :: ts, st :: ss, h :: hs => cost t st h + measure ts ss hs
  | _, _, _ => 0

def remainingT (tasks : List Task) (ts : TState) : Nat := measure tasks ts.stage ts.lock

theorem measure_le : ∀ (tasks : List Task) (ss ss' : List Stage) (hs hs' : List Holder),
    ss.length = tasks.length → hs.length = tasks.length → ss'.length = tasks.length → hs'.length = tasks.length →
    (∀ (j : Nat) (t : Task) (st st' : Stage) (h h' : Holder), tasks[j]? = some t → ss[j]? = some st → hs[j]? = some h →
      ss'[j]? = some st' → hs'[j]? = some h' → cost t st' h' ≤ cost t st h) →
    measure tasks ss' hs' ≤ measure tasks ss hs
  | [], _, _, _, _, _, _, _, _, _ => by simp [measure]
  | t :: tasks, [], _, _, _, h1, _, _, _, _ => by simp at h1
  | t :: tasks, _ :: _, [], _, _, _, _, h3, _, _ => by simp at h3
  | t :: tasks, _ :: _, _ :: _, [], _, _, h2, _, _, _ => by simp at h2
  | t :: tasks, _ :: _, _ :: _, _ :: _, [], _, _, _, h4, _ => by simp at h4
  | t :: tasks, st :: ss, st' :: ss', h :: hs, h' :: hs', h1, h2, h3, h4, hle => by
    simp only [measure]
    have h0 := hle 0 t st st' h h' (by simp) (by simp) (by simp) (by simp) (by simp)
    have := measure_le tasks ss ss' hs hs' (by simpa using h1) (by simpa using h2) (by simpa using h3)
      (by simpa using h4)
      (fun j t0 a a' b b' e1 e2 e3 e4 e5 => hle (j + 1) t0 a a' b b' (by simpa using e1) (by simpa using e2)
        (by simpa using e3) (by simpa using e4) (by simpa using e5))
    omega

theorem measure_lt : ∀ (tasks : List Task) (ss ss' : List Stage) (hs hs' : List Holder) (i : Nat),
    ss.length = tasks.length → hs.length = tasks.length → ss'.length = tasks.length → hs'.length = tasks.length →
    (∀ (j : Nat) (t : Task) (st st' : Stage) (h h' : Holder), tasks[j]? = some t → ss[j]? = some st → hs[j]? = some h →
      ss'[j]? = some st' → hs'[j]? = some h' → cost t st' h' ≤ cost t st h) →
    (∀ (t : Task) (st st' : Stage) (h h' : Holder), tasks[i]? = some t → ss[i]? = some st → hs[i]? = some h →
      ss'[i]? = some st' → hs'[i]? = some h' → cost t st' h' < cost t st h) →
    i < tasks.length →
    measure tasks ss' hs' < measure tasks ss hs
  | [], _, _, _, _, _, _, _, _, _, _, _, hi => by simp at hi
  | t :: tasks, [], _, _, _, _, h1, _, _, _, _, _, _ => by simp at h1
  | t :: tasks, _ :: _, [], _, _, _, _, _, h3, _, _, _, _ => by simp at h3
  | t :: tasks, _ :: _, _ :: _, [], _, _, _, h2, _, _, _, _, _ => by simp at h2
  | t :: tasks, _ :: _, _ :: _, _ :: _, [], _, _, _, _, h4, _, _, _ => by simp at h4
  | t :: tasks, st :: ss, st' :: ss', h :: hs, h' :: hs', i, h1, h2, h3, h4, hle, hlt, hi => by
    simp only [measure]
    have tailLe : ∀ (j : Nat) (t0 : Task) (a a' : Stage) (b b' : Holder), tasks[j]? = some t0 → ss[j]? = some a →
        hs[j]? = some b → ss'[j]? = some a' → hs'[j]? = some b' → cost t0 a' b' ≤ cost t0 a b :=
      fun j t0 a a' b b' e1 e2 e3 e4 e5 => hle (j + 1) t0 a a' b b' (by simpa using e1) (by simpa using e2)
        (by simpa using e3) (by simpa using e4) (by simpa using e5)
    cases i with
    | zero =>
      have h0 := hlt t st st' h h' (by simp) (by simp) (by simp) (by simp) (by simp)
      have := measure_le tasks ss ss' hs hs' (by simpa using h1) (by simpa using h2) (by simpa using h3)
        (by simpa using h4) tailLe
      omega
    | succ i =>
      have h0 := hle 0 t st st' h h' (by simp) (by simp) (by simp) (by simp) (by simp)
      have := measure_lt tasks ss ss' hs hs' i (by simpa using h1) (by simpa using h2) (by simpa using h3)
        (by simpa using h4) tailLe
        (fun t0 a a' b b' e1 e2 e3 e4 e5 => hlt t0 a a' b b' (by simpa using e1) (by simpa using e2)
          (by simpa using e3) (by simpa using e4) (by simpa using e5))
        (by simpa using hi)
      omega

/-- lengths only: enough for the measure -/
def Len (tasks : List Task) (ts : TState) : Prop :=
  ts.stage.length = tasks.length ∧ ts.lock.length = tasks.length

theorem len_init (tasks : List Task) : Len tasks (init tasks) := by simp [Len, init]

theorem len_step {v : Variant} {tasks : List Task} {ts ts' : TState} {i : Nat} (hl : Len tasks ts)
    (hst : step v tasks ts i = some ts') : Len tasks ts' := by
  obtain ⟨t, ht, hk⟩ := step_cases hst
  cases hk with
  | start k hs hw => exact ⟨by simp [hl.1], by rw [activate_length]; exact hl.2⟩
  | await k p hs hw hfp => exact ⟨by simp [hl.1], hl.2⟩
  | lockstep l hs hl' => exact ⟨hl.1, by rw [step_length hl']; exact hl.2⟩

theorem fresh_remaining (h : Holder) :
    Holder.remaining { h with pc := .acq 0 .idle } ≤ 4 * h.req.length + 4 := by
  have := phaseCost_le { h with pc := PC.acq 0 Phase.idle } 0 .idle
  simp only [Holder.remaining]
  omega

theorem remainingT_step {v : Variant} {tasks : List Task} {ts ts' : TState} {i : Nat} (hl : Len tasks ts)
    (hst : step v tasks ts i = some ts') : remainingT tasks ts' < remainingT tasks ts := by
  have hl' := len_step hl hst
  obtain ⟨t, ht, hk⟩ := step_cases hst
  have hi : i < tasks.length := lt_of_get ht
  unfold remainingT
  apply measure_lt tasks ts.stage ts'.stage ts.lock ts'.lock i hl.1 hl.2 hl'.1 hl'.2 ?_ ?_ hi
  · -- no task moves away from its end
    intro j t0 st st' h h' e1 e2 e3 e4 e5
    cases hk with
    | start k hs hw =>
      by_cases e : j = i
      · subst e
        rw [hs] at e2; cases e2
        simp only at e4 e5
        rw [List.getElem?_set] at e4
        simp [lt_of_get hs] at e4; subst e4
        rw [activate_eq e3, getElem?_set'] at e5
        simp [e3] at e5; subst e5
        have := fresh_remaining h
        simp only [cost]
        omega
      · simp only at e4 e5
        rw [List.getElem?_set] at e4
        simp [Ne.symm e] at e4
        rw [activate_get_ne e] at e5
        rw [e2] at e4; cases e4
        rw [e3] at e5; cases e5
        exact Nat.le_refl _
    | await k p hs hw hfp =>
      simp only at e4 e5
      rw [e3] at e5; cases e5
      by_cases e : j = i
      · subst e
        rw [hs] at e2; cases e2
        rw [ht] at e1; cases e1
        rw [List.getElem?_set] at e4
        simp [lt_of_get hs] at e4
        have hk : k < t.waits.length := lt_of_get hw
        by_cases hfail : failedAt tasks ts p = true
        · simp [hfail] at e4; subst e4; simp [cost]
        · simp [hfail] at e4; subst e4; simp only [cost]; omega
      · rw [List.getElem?_set] at e4
        simp [Ne.symm e] at e4
        rw [e2] at e4; cases e4
        exact Nat.le_refl _
    | lockstep l hs hl0 =>
      simp only at e4 e5
      rw [e2] at e4; cases e4
      obtain ⟨g, g', hg, hg', _, hreq, hrem, hother⟩ := step_summary hl0
      by_cases e : j = i
      · subst e
        rw [hs] at e2; cases e2
        rw [hg] at e3; cases e3
        rw [hg'] at e5; cases e5
        simp only [cost]; omega
      · obtain ⟨g2, hg2, hreq2, hrem2, _⟩ := hother j e h e3
        rw [hg2] at e5; cases e5
        cases st with
        | waiting k => simp only [cost, hreq2]; exact Nat.le_refl _
        | running => simpa only [cost] using hrem2
        | aborted => simp [cost]
  · -- the mover comes strictly closer
    intro t0 st st' h h' e1 e2 e3 e4 e5
    rw [ht] at e1; cases e1
    cases hk with
    | start k hs hw =>
      rw [hs] at e2; cases e2
      simp only at e4 e5
      rw [List.getElem?_set] at e4
      simp [lt_of_get hs] at e4; subst e4
      rw [activate_eq e3, getElem?_set'] at e5
      simp [e3] at e5; subst e5
      have := fresh_remaining h
      simp only [cost]
      omega
    | await k p hs hw hfp =>
      simp only at e4 e5
      rw [e3] at e5; cases e5
      rw [hs] at e2; cases e2
      rw [List.getElem?_set] at e4
      simp [lt_of_get hs] at e4
      have hk : k < t.waits.length := lt_of_get hw
      by_cases hfail : failedAt tasks ts p = true
      · simp [hfail] at e4; subst e4; simp only [cost]; omega
      · simp [hfail] at e4; subst e4; simp only [cost]; omega
    | lockstep l hs hl0 =>
      simp only at e4 e5
      rw [hs] at e2; cases e2
      rw [hs] at e4; cases e4
      obtain ⟨g, g', hg, hg', _, _, hrem, _⟩ := step_summary hl0
      rw [hg] at e3; cases e3
      rw [hg'] at e5; cases e5
      simpa only [cost] using hrem

theorem remainingT_init (tasks : List Task) :
    remainingT tasks (init tasks) = (tasks.map fun t => t.waits.length + 4 * t.map.length + 5).sum := by
  unfold remainingT init
  induction tasks with
  | nil => rfl
  | cons t tasks ih =>
    simp only [List.map_cons, measure, List.sum_cons, ih, cost, inertHolder, length_sortRows]
    omega

/-- the number of steps that actually fire in any schedule is bounded by the measure -/
theorem fired_bounded_t (v : Variant) (tasks : List Task) : ∀ (sched : List Nat) (ts : TState), Len tasks ts →
    ((tsys v tasks).firedFrom ts sched).length ≤ remainingT tasks ts
  | [], ts, _ => by simp [Sys.firedFrom]
  | i :: rest, ts, hl => by
    unfold Sys.firedFrom
    cases hs : (tsys v tasks).step ts i with
    | none => simp only; exact fired_bounded_t v tasks rest ts hl
    | some t =>
      simp only [List.length_cons]
      have ih := fired_bounded_t v tasks rest t (len_step hl hs)
      have hlt : remainingT tasks t < remainingT tasks ts := remainingT_step hl hs
      omega

/-- from every state satisfying the invariant some schedule brings every task to its end -/
theorem can_finish_t {v : Variant} {tasks : List Task} (hwf : WellFormed tasks) :
    ∀ (n : Nat) (ts : TState), remainingT tasks ts ≤ n → TInv v tasks ts →
    ∃ sched : List Nat, AllFinished tasks ((tsys v tasks).runFrom ts sched)
  | 0, ts, hn, hinv => by
    refine ⟨[], ?_⟩
    apply Classical.byContradiction
    intro hact
    obtain ⟨i, hen⟩ := deadlock_free_state hwf hinv hact
    cases hs : step v tasks ts i with
    | none => simp [hs] at hen
    | some t => have := remainingT_step ⟨hinv.lenS, hinv.lenL⟩ hs; omega
  | n + 1, ts, hn, hinv => by
    by_cases hall : AllFinished tasks ts
    · exact ⟨[], hall⟩
    · obtain ⟨i, hen⟩ := deadlock_free_state hwf hinv hall
      cases hs : step v tasks ts i with
      | none => simp [hs] at hen
      | some t =>
        have hlt := remainingT_step ⟨hinv.lenS, hinv.lenL⟩ hs
        obtain ⟨sched, hfin⟩ := can_finish_t hwf n t (by omega) (tinv_step hinv hs)
        refine ⟨i :: sched, ?_⟩
        have : (tsys v tasks).runFrom ts (i :: sched) = (tsys v tasks).runFrom t sched := by
          rw [runFrom_cons]
          simp [Sys.next, tsys, hs]
        rw [this]; exact hfin

end Goat.MutexTasks
