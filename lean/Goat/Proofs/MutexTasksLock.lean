/-
Helper lemmas for property C15, part 7 (tasks layer, lock-table side): replacing a lock-table entry
by one with the same observable content (a task that calls `SharedMutex.Lock` turns its inert entry
into a fresh holder) preserves every lock-level invariant; one statement of "what a lock step does"
for both lock variants.  Nothing here changes a definition of the model.
-/
import Goat.Proofs.MutexMain
import Goat.Model.MutexTasks

namespace Goat.MutexTasks

open Goat.Mutex Goat.LTS

/-! ### entries with the same observable content -/

/-- `g'` requests, holds, owns and is parked on exactly what `g` does -/
structure ObsEq (g g' : Holder) : Prop where
  req : g'.req = g.req
  held : g'.held = g.held
  present : ∀ m, g'.present m = g.present m
  rwait : ∀ m, g'.rwaitOn m = g.rwaitOn m

theorem obsEq_refl (g : Holder) : ObsEq g g := ⟨rfl, rfl, fun _ => rfl, fun _ => rfl⟩

/-- an entry that is done and the fresh holder made of it: neither holds, owns or awaits anything -/
theorem obsEq_fresh {h : Holder} (hd : h.pc = .done) : ObsEq h { h with pc := .acq 0 .idle } := by
  refine ⟨rfl, ?_, ?_, ?_⟩
  · simp [Holder.held, hd]
  · intro m; simp [Holder.present, Holder.announcedOn, Holder.held, hd]
  · intro m; simp [Holder.rwaitOn, hd]

theorem set_obs {s : State} {i : Nat} {h h' : Holder} (hi : s[i]? = some h) (ho : ObsEq h h')
    {j : Nat} {g' : Holder} (hj : (s.set i h')[j]? = some g') : ∃ g, s[j]? = some g ∧ ObsEq g g' := by
  rw [getElem?_set'] at hj
  by_cases e : j = i
  · subst e
    simp [hi] at hj
    subst hj
    exact ⟨h, hi, ho⟩
  · simp [e] at hj
    exact ⟨g', hj, obsEq_refl _⟩

theorem set_obs' {s : State} {i : Nat} {h h' : Holder} (hi : s[i]? = some h) (ho : ObsEq h h')
    {j : Nat} {g : Holder} (hj : s[j]? = some g) : ∃ g', (s.set i h')[j]? = some g' ∧ ObsEq g g' := by
  rw [getElem?_set']
  by_cases e : j = i
  · subst e
    rw [hi] at hj; cases hj
    exact ⟨h', by simp [hi], ho⟩
  · exact ⟨g, by simp [e, hj], obsEq_refl _⟩

theorem writerPresent_set {s : State} {i : Nat} {h h' : Holder} (hi : s[i]? = some h) (ho : ObsEq h h')
    (m : Name) : writerPresent (s.set i h') m = writerPresent s m := by
  apply Bool.eq_iff_iff.mpr
  rw [writerPresent_iff, writerPresent_iff]
  constructor
  · rintro ⟨g', hm, hp⟩
    obtain ⟨j, hj⟩ := mem_iff_get.mp hm
    obtain ⟨g, hg, o⟩ := set_obs hi ho hj
    exact ⟨g, mem_iff_get.mpr ⟨j, hg⟩, by rw [← o.present]; exact hp⟩
  · rintro ⟨g, hm, hp⟩
    obtain ⟨j, hj⟩ := mem_iff_get.mp hm
    obtain ⟨g', hg, o⟩ := set_obs' hi ho hj
    exact ⟨g', mem_iff_get.mpr ⟨j, hg⟩, by rw [o.present]; exact hp⟩

theorem sorted_set {s : State} {i : Nat} {h h' : Holder} (hs : ∀ g ∈ s, Sorted g.req)
    (hi : s[i]? = some h) (ho : ObsEq h h') : ∀ g ∈ s.set i h', Sorted g.req := by
  intro g' hm
  obtain ⟨j, hj⟩ := mem_iff_get.mp hm
  obtain ⟨g, hg, o⟩ := set_obs hi ho hj
  rw [o.req]; exact hs g (mem_iff_get.mpr ⟨j, hg⟩)

theorem excl_set {s : State} {i : Nat} {h h' : Holder} (hx : Excl s)
    (hi : s[i]? = some h) (ho : ObsEq h h') : Excl (s.set i h') := by
  intro a b ga gb hne h1 h2 m w hw hr
  obtain ⟨g1, hg1, o1⟩ := set_obs hi ho h1
  obtain ⟨g2, hg2, o2⟩ := set_obs hi ho h2
  rw [o1.held] at hw; rw [o2.held] at hr
  exact hx a b g1 g2 hne hg1 hg2 m w hw hr

theorem pinv_set {s : State} {i : Nat} {h h' : Holder} (hinv : PInv s)
    (hi : s[i]? = some h) (ho : ObsEq h h') : PInv (s.set i h') := by
  refine ⟨sorted_set hinv.sorted hi ho, ?_, ?_, ?_⟩
  · intro j g' m hj hr
    obtain ⟨g, hg, o⟩ := set_obs hi ho hj
    rw [writerPresent_set hi ho]
    exact hinv.parked j g m hg (by rw [← o.rwait]; exact hr)
  · intro a b ga gb m hne h1 h2 hp
    obtain ⟨g1, hg1, o1⟩ := set_obs hi ho h1
    obtain ⟨g2, hg2, o2⟩ := set_obs hi ho h2
    rw [o2.present]
    exact hinv.oneWriter a b g1 g2 m hne hg1 hg2 (by rw [← o1.present]; exact hp)
  · intro a b ga gb m hne h1 h2 hw hr
    obtain ⟨g1, hg1, o1⟩ := set_obs hi ho h1
    obtain ⟨g2, hg2, o2⟩ := set_obs hi ho h2
    rw [o1.held] at hw; rw [o2.held] at hr
    exact hinv.noReader a b g1 g2 m hne hg1 hg2 hw hr

/-! ### the lock-level invariant of either variant -/

/-- what the first layer's proofs need of a lock table: sorted request lists and exclusion for the
ideal lock, `PInv` for Go's lock -/
def LInv (v : Variant) (s : State) : Prop :=
  match v with
  | .plain => (∀ h ∈ s, Sorted h.req) ∧ Excl s
  | .pref => PInv s

theorem linv_sorted {v : Variant} {s : State} (h : LInv v s) : ∀ g ∈ s, Sorted g.req := by
  cases v with
  | plain => exact h.1
  | pref => exact h.sorted

theorem linv_excl {v : Variant} {s : State} (h : LInv v s) : Excl s := by
  cases v with
  | plain => exact h.2
  | pref => exact excl_of_pinv h

theorem linv_step {v : Variant} {s t : State} {i : Nat} (h : LInv v s) (hst : Mutex.step v s i = some t) :
    LInv v t := by
  cases v with
  | plain => exact ⟨sorted_step_plain h.1 hst, excl_step_plain h.2 hst⟩
  | pref => exact pinv_step h hst

theorem linv_set {v : Variant} {s : State} {i : Nat} {h h' : Holder} (hinv : LInv v s)
    (hi : s[i]? = some h) (ho : ObsEq h h') : LInv v (s.set i h') := by
  cases v with
  | plain => exact ⟨sorted_set hinv.1 hi ho, excl_set hinv.2 hi ho⟩
  | pref => exact pinv_set hinv hi ho

theorem linv_deadlock_free {v : Variant} {s : State} (hinv : LInv v s) (hact : ∃ h ∈ s, h.pc ≠ .done) :
    ∃ i, (Mutex.step v s i).isSome = true := by
  cases v with
  | plain => exact deadlock_free_plain_state hinv.1 hact
  | pref => exact deadlock_free_pref_state hinv hact

/-- a lock table in which nobody has called `Lock` yet -/
theorem linv_all_done {v : Variant} {s : State} (hs : ∀ h ∈ s, Sorted h.req) (hd : ∀ h ∈ s, h.pc = .done) :
    LInv v s := by
  have hheld : ∀ (j : Nat) (g : Holder), s[j]? = some g → g.held = [] :=
    fun j g hg => held_done (hd g (mem_iff_get.mpr ⟨j, hg⟩))
  have hx : Excl s := by
    intro a b ga gb _ h1 _ m w hw
    rw [hheld a ga h1] at hw; simp at hw
  cases v with
  | plain => exact ⟨hs, hx⟩
  | pref =>
    refine ⟨hs, ?_, ?_, ?_⟩
    · intro j g m hj hr
      simp [Holder.rwaitOn, hd g (mem_iff_get.mpr ⟨j, hj⟩)] at hr
    · intro a b ga gb m _ h1 _ hp
      simp [Holder.present, Holder.announcedOn, Holder.held, hd ga (mem_iff_get.mpr ⟨a, h1⟩)] at hp
    · intro a b ga gb m _ h1 _ hw
      rw [hheld a ga h1] at hw; simp at hw

/-! ### what one lock step does, for both variants -/

theorem stepPlain_not_done {s : State} {h h' : Holder} (hst : stepPlain s h = some h') : h.pc ≠ .done := by
  intro hd
  simp [stepPlain, hd] at hst

theorem prefStep_not_done {s : State} {h h' : Holder} {o : Option Name} (hp : PrefStep s h h' o) :
    h.pc ≠ .done := by
  intro hd
  cases hp <;> simp_all

theorem wakeOpt_done {o : Option Name} {g : Holder} (hd : g.pc = .done) : wakeOpt o g = g := by
  cases o with
  | none => rfl
  | some m =>
    simp only [wakeOpt]
    apply wake_of_not_rwait
    simp [Holder.rwaitOn, hd]

theorem step_length {v : Variant} {s t : State} {i : Nat} (hst : Mutex.step v s i = some t) :
    t.length = s.length := by
  have := congrArg List.length (step_reqs hst)
  simpa [reqsOf] using this

/-- the mover was not done and comes strictly closer to its end; every other entry keeps its request
list, comes no farther from its end, and is untouched when it is done -/
theorem step_summary {v : Variant} {s t : State} {i : Nat} (hst : Mutex.step v s i = some t) :
    ∃ h h', s[i]? = some h ∧ t[i]? = some h' ∧ h.pc ≠ .done ∧ h'.req = h.req ∧ h'.remaining < h.remaining ∧
      ∀ j, j ≠ i → ∀ g, s[j]? = some g →
        ∃ g', t[j]? = some g' ∧ g'.req = g.req ∧ g'.remaining ≤ g.remaining ∧ (g.pc = .done → g' = g) := by
  cases v with
  | plain =>
    obtain ⟨h, h', hi, hp, rfl⟩ := step_plain_inv hst
    refine ⟨h, h', hi, by rw [getElem?_set']; simp [hi], stepPlain_not_done hp, stepPlain_req hp,
      stepPlain_remaining hp, ?_⟩
    intro j hj g hg
    exact ⟨g, by rw [getElem?_set']; simp [hj, hg], rfl, Nat.le_refl _, fun _ => rfl⟩
  | pref =>
    obtain ⟨h, h', o, hi, hp, hget⟩ := step_pref_inv hst
    refine ⟨h, h', hi, by rw [hget i]; simp, prefStep_not_done hp, prefStep_req hp,
      prefStep_remaining hp, ?_⟩
    intro j hj g hg
    exact ⟨wakeOpt o g, by rw [hget j]; simp [hj, hg], wakeOpt_req o g, wakeOpt_remaining o g,
      fun hd => wakeOpt_done hd⟩

theorem step_some_of_get {v : Variant} {s : State} {i : Nat} (h : (Mutex.step v s i).isSome = true) :
    ∃ g, s[i]? = some g ∧ g.pc ≠ .done := by
  cases hs : Mutex.step v s i with
  | none => simp [hs] at h
  | some t =>
    obtain ⟨g, _, hg, _, hd, _⟩ := step_summary hs
    exact ⟨g, hg, hd⟩

end Goat.MutexTasks
