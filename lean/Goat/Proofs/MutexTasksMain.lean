/-
Helper lemmas for property C15, part 9 (tasks layer): the results of part 8 stated for the states
reached by a schedule of `tsys v tasks`, in terms of the tasks' lock maps and wait lists; the order
monitor; the stuck state of the swapped order.
-/
import Goat.Proofs.MutexTasks

namespace Goat.MutexTasks

open Goat.Mutex Goat.LTS

/-- the lock maps of the tasks, in task order -/
def mapsOf (tasks : List Task) : List LockMap := tasks.map (·.map)

theorem req_of_tinv {v : Variant} {tasks : List Task} {ts : TState} (hinv : TInv v tasks ts)
    {i : Nat} {h : Holder} {t : Task} (hi : ts.lock[i]? = some h) (ht : tasks[i]? = some t) :
    h.req = sortRows t.map := by
  have hg := reqsOf_get hi
  rw [hinv.reqs, List.getElem?_map, ht] at hg
  simpa using hg.symm

theorem reqs_mapsOf {v : Variant} {tasks : List Task} {ts : TState} (hinv : TInv v tasks ts) :
    reqsOf ts.lock = (mapsOf tasks).map sortRows := by
  rw [hinv.reqs]; simp [mapsOf, List.map_map, Function.comp_def]

theorem tasks_deadlock_free_main (v : Variant) (tasks : List Task) (hwf : WellFormed tasks)
    (hmaps : ∀ t ∈ tasks, NodupNames t.map) {ts : TState} (hr : Reachable (tsys v tasks) ts)
    (hact : ¬ AllFinished tasks ts) : ∃ i, (step v tasks ts i).isSome = true :=
  deadlock_free_state hwf (tinv_reachable hmaps hr) hact

theorem tasks_can_finish_main (v : Variant) (tasks : List Task) (hwf : WellFormed tasks)
    (hmaps : ∀ t ∈ tasks, NodupNames t.map) {ts : TState} (hr : Reachable (tsys v tasks) ts) :
    ∃ more : List Nat, AllFinished tasks ((tsys v tasks).runFrom ts more) :=
  can_finish_t hwf (remainingT tasks ts) ts (Nat.le_refl _) (tinv_reachable hmaps hr)

theorem tasks_fired_bounded_main (v : Variant) (tasks : List Task) (sched : List Nat) :
    ((tsys v tasks).fired sched).length ≤ (tasks.map fun t => t.waits.length + 4 * t.map.length + 5).sum := by
  rw [← remainingT_init]
  exact fired_bounded_t v tasks sched (init tasks) (len_init tasks)

theorem tasks_exclusion_main (v : Variant) (tasks : List Task) (hmaps : ∀ t ∈ tasks, NodupNames t.map)
    {ts : TState} (hr : Reachable (tsys v tasks) ts) {i j : Nat} (hne : i ≠ j) {ti tj : Task}
    (hti : tasks[i]? = some ti) (htj : tasks[j]? = some tj)
    (in1 : InsideAt ts.lock i) (in2 : InsideAt ts.lock j) : MapsCompatible ti.map tj.map := by
  have hinv := tinv_reachable hmaps hr
  obtain ⟨hi, h1, p1⟩ := in1
  obtain ⟨hj, h2, p2⟩ := in2
  intro m w1 w2 r1 r2
  apply excl_inside (linv_excl hinv.linv) hne h1 h2 p1 p2 (m := m)
  · rw [req_of_tinv hinv h1 hti]; exact mem_sortRows.mpr r1
  · rw [req_of_tinv hinv h2 htj]; exact mem_sortRows.mpr r2

theorem tasks_exclusion_rows_main (v : Variant) (tasks : List Task) (hmaps : ∀ t ∈ tasks, NodupNames t.map)
    {ts : TState} (hr : Reachable (tsys v tasks) ts) {i j : Nat} (hne : i ≠ j) {m : Name} {w : Bool}
    (h1 : HoldsAt ts.lock i (m, true)) : ¬ HoldsAt ts.lock j (m, w) := by
  obtain ⟨hi, g1, r1⟩ := h1
  rintro ⟨hj, g2, r2⟩
  exact linv_excl (tinv_reachable hmaps hr).linv i j hi hj hne g1 g2 m w r1 r2

/-- a task that is in `waitForTasks` (or returned from it with the error) holds nothing -/
theorem tasks_waiting_holds_nothing_main (v : Variant) (tasks : List Task) (hmaps : ∀ t ∈ tasks, NodupNames t.map)
    {ts : TState} (hr : Reachable (tsys v tasks) ts) {i : Nat} {st : Stage} (hs : ts.stage[i]? = some st)
    (hne : st ≠ .running) (r : Row) : ¬ HoldsAt ts.lock i r := by
  rintro ⟨h, hi, hr'⟩
  have := (tinv_reachable hmaps hr).inert i st h hs hne hi
  rw [held_done this] at hr'
  simp at hr'

/-- a task that has ended holds nothing -/
theorem tasks_finished_holds_nothing_main (v : Variant) (tasks : List Task) (hmaps : ∀ t ∈ tasks, NodupNames t.map)
    {ts : TState} (hr : Reachable (tsys v tasks) ts) {j : Nat} (hf : finishedAt ts j = true) (r : Row) :
    ¬ HoldsAt ts.lock j r := by
  rintro ⟨h, hi, hr'⟩
  cases hs : ts.stage[j]? with
  | none => simp [finishedAt, hs] at hf
  | some st =>
    cases st with
    | waiting k => rw [finishedAt_waiting hs] at hf; cases hf
    | aborted =>
      exact tasks_waiting_holds_nothing_main v tasks hmaps hr hs (by simp) r ⟨h, hi, hr'⟩
    | running =>
      obtain ⟨g, hg, hd⟩ := (finishedAt_running hs).mp hf
      rw [hi] at hg; cases hg
      rw [held_done hd] at hr'
      simp at hr'

/-- a task that got past `waitForTasks` without error: everything in its wait list has ended, without error -/
theorem tasks_started_after_prereqs_main (v : Variant) (tasks : List Task) (hmaps : ∀ t ∈ tasks, NodupNames t.map)
    {ts : TState} (hr : Reachable (tsys v tasks) ts) {i : Nat} {t : Task} (ht : tasks[i]? = some t)
    (hs : ts.stage[i]? = some .running) :
    ∀ j ∈ t.waits, finishedAt ts j = true ∧ failedAt tasks ts j = false :=
  (tinv_reachable hmaps hr).prereq i t .running ht hs

/-- a lock-table entry that is not done belongs to a task that got past `waitForTasks` -/
theorem running_of_not_done {v : Variant} {tasks : List Task} {ts : TState} (hinv : TInv v tasks ts)
    {i : Nat} {h : Holder} (hi : ts.lock[i]? = some h) (hnd : h.pc ≠ .done) : ts.stage[i]? = some .running := by
  obtain ⟨st, hs⟩ := get_of_lt (l := ts.stage) (i := i) (by rw [hinv.lenS, ← hinv.lenL]; exact lt_of_get hi)
  have : st = .running := by
    apply Classical.byContradiction
    intro hne
    exact hnd (hinv.inert i st h hs hne hi)
  rw [hs, this]

theorem tasks_body_after_prereqs_main (v : Variant) (tasks : List Task) (hmaps : ∀ t ∈ tasks, NodupNames t.map)
    {ts : TState} (hr : Reachable (tsys v tasks) ts) {i : Nat} {t : Task} (ht : tasks[i]? = some t)
    (hin : InsideAt ts.lock i) :
    ∀ j ∈ t.waits, finishedAt ts j = true ∧ failedAt tasks ts j = false := by
  obtain ⟨h, hi, hpc⟩ := hin
  have hs := running_of_not_done (tinv_reachable hmaps hr) hi (by rw [hpc]; simp)
  exact tasks_started_after_prereqs_main v tasks hmaps hr ht hs

/-- the lock never makes a task wait whose map is compatible with every other task's map -/
theorem tasks_never_blocked_main (v : Variant) (tasks : List Task) (hmaps : ∀ t ∈ tasks, NodupNames t.map)
    {ts : TState} (hr : Reachable (tsys v tasks) ts) {i : Nat}
    (hc : ∀ mi, (mapsOf tasks)[i]? = some mi → ∀ j mj, j ≠ i → (mapsOf tasks)[j]? = some mj → MapsCompatible mi mj)
    (hact : ActiveAt ts.lock i) : (step v tasks ts i).isSome = true := by
  have hinv := tinv_reachable hmaps hr
  obtain ⟨h, hi, hd⟩ := hact
  have hs := running_of_not_done hinv hi hd
  obtain ⟨t, ht⟩ := get_of_lt (l := tasks) (i := i) (by rw [← hinv.lenL]; exact lt_of_get hi)
  have hc' : Compatible (reqsOf ts.lock) i := by rw [reqs_mapsOf hinv]; exact compatible_sorted hc
  apply step_some_lock ht hs
  cases v with
  | plain => exact compatible_enabled_plain hi (linv_sorted hinv.linv h (mem_iff_get.mpr ⟨i, hi⟩)) hc' hd
  | pref => exact compatible_enabled_pref hinv.linv hi hc' hd

/-! ### the order monitor -/

theorem orderMonitor_none_iff (waits : List (List Nat)) (ivs : List Interval) :
    orderMonitor waits ivs = none ↔
      ∀ x ∈ ivs, ∀ j ∈ waits.getD x.holder [], ∃ y ∈ ivs, y.holder = j ∧ y.exit < x.enter := by
  simp only [orderMonitor, List.findSome?_eq_none_iff, Option.map_eq_none_iff, List.find?_eq_none, earlyFor,
    Bool.not_eq_eq_eq_not, Bool.not_true]
  constructor
  · intro h x hx j hj
    have := h x hx j hj
    simpa using this
  · intro h x hx j hj
    have := h x hx j hj
    simpa using this

theorem failMonitor_none_iff (waits : List (List Nat)) (fails : List Bool) (ivs : List Interval) :
    failMonitor waits fails ivs = none ↔
      ∀ x ∈ ivs, ∀ j ∈ waits.getD x.holder [], fails.getD j false = false := by
  simp only [failMonitor, List.findSome?_eq_none_iff, Option.map_eq_none_iff, List.find?_eq_none,
    Bool.not_eq_true]

end Goat.MutexTasks
