/-
Lemmas about `Goat/Base/Path.lean` (nothing here changes a definition).

  split / join     `split_append_slash`, `split_noSlash`, `split_join`, `split_noSlash_mem`
  reduce           `reduceGo_plain` / `norm_plain` (every output segment is a real name),
                   `reduceGo_eq_walk` (reduce = walking from the root, failing exactly when the walk
                   leaves the root), `reduceGo_append`, `reduceGo_of_plain`,
                   `norm_reduced`, `norm_join` (idempotence), `norm_base_join` (the path built by a
                   child view: `base/` ++ reduced path)
-/
import Goat.Base.Path

namespace Goat
namespace Path

/-- the byte string contains no `/` -/
def NoSlash (s : Bytes) : Prop := slash ∉ s

instance (s : Bytes) : Decidable (NoSlash s) := by unfold NoSlash; exact inferInstance

/-- a reduced path: every segment is a real name without `/` -/
def Reduced (q : List Name) : Prop := ∀ s ∈ q, Plain s ∧ NoSlash s

/-! ### split and join -/

theorem splitHT_append_slash (a b : Bytes) :
    splitHT (a ++ slash :: b) = ((splitHT a).1, (splitHT a).2 ++ split b) := by
  induction a with
  | nil => simp [splitHT, split]
  | cons c rest ih =>
    simp only [List.cons_append, splitHT, ih]
    split <;> simp

theorem split_append_slash (a b : Bytes) : split (a ++ slash :: b) = split a ++ split b := by
  simp [split, splitHT_append_slash]

theorem splitHT_noSlash (s : Bytes) (h : NoSlash s) : splitHT s = (s, []) := by
  induction s with
  | nil => rfl
  | cons c rest ih =>
    have hc : c ≠ slash := fun e => h (by simp [e])
    have hr : NoSlash rest := fun m => h (List.mem_cons_of_mem _ m)
    simp [splitHT, ih hr, hc]

theorem split_noSlash (s : Bytes) (h : NoSlash s) : split s = [s] := by
  simp [split, splitHT_noSlash s h]

theorem split_nil : split [] = [[]] := rfl

theorem split_ne_nil (s : Bytes) : split s ≠ [] := by simp [split]

theorem splitHT_noSlash_mem (s : Bytes) :
    NoSlash (splitHT s).1 ∧ ∀ x ∈ (splitHT s).2, NoSlash x := by
  induction s with
  | nil => simp [splitHT, NoSlash]
  | cons c rest ih =>
    simp only [splitHT]
    split
    · refine ⟨by simp [NoSlash], ?_⟩
      intro x hx
      rcases List.mem_cons.mp hx with rfl | hx
      · exact ih.1
      · exact ih.2 x hx
    · rename_i hc
      refine ⟨?_, ih.2⟩
      intro m
      rcases List.mem_cons.mp m with e | m
      · exact hc e.symm
      · exact ih.1 m

/-- segments produced by `split` never contain `/` -/
theorem split_noSlash_mem (p : Bytes) : ∀ s ∈ split p, NoSlash s := by
  intro s hs
  rcases List.mem_cons.mp hs with rfl | hs
  · exact (splitHT_noSlash_mem p).1
  · exact (splitHT_noSlash_mem p).2 s hs

theorem split_join (segs : List Name) (h : ∀ s ∈ segs, NoSlash s) (hne : segs ≠ []) :
    split (join segs) = segs := by
  induction segs with
  | nil => exact absurd rfl hne
  | cons s rest ih =>
    cases rest with
    | nil => simpa [join] using split_noSlash s (h s (by simp))
    | cons s' rest' =>
      have := ih (fun x hx => h x (List.mem_cons_of_mem _ hx)) (by simp)
      simp only [join] at this ⊢
      rw [split_append_slash, this, split_noSlash s (h s (by simp))]
      rfl

/-- `split (join q)` for any slash-free segment list: the list itself, or `[""]` for the empty one -/
theorem split_join' (segs : List Name) (h : ∀ s ∈ segs, NoSlash s) :
    split (join segs) = if segs = [] then [[]] else segs := by
  split
  · next e => subst e; rfl
  · next e => exact split_join segs h e

/-! ### reduce -/

theorem reduceGo_plain (segs acc : List Name) (hacc : ∀ s ∈ acc, Plain s) (out : List Name)
    (h : reduceGo segs acc = some out) : ∀ s ∈ out, Plain s := by
  induction segs generalizing acc with
  | nil =>
    simp [reduceGo] at h
    subst h
    intro s hs
    exact hacc s (by simpa using hs)
  | cons x rest ih =>
    unfold reduceGo at h
    split at h
    · exact ih acc hacc h
    · split at h
      · cases acc with
        | nil => simp at h
        | cons a acc' =>
          simp at h
          exact ih acc' (fun s hs => hacc s (List.mem_cons_of_mem _ hs)) h
      · rename_i h1 h2
        apply ih (x :: acc) _ h
        intro s hs
        rcases List.mem_cons.mp hs with rfl | hs
        · refine ⟨?_, ?_, h2⟩ <;> intro hc <;> simp [hc] at h1
        · exact hacc s hs

/-- every segment of a reduced path was a segment of the input (or of the initial stack) -/
theorem reduceGo_subset (segs acc : List Name) (out : List Name)
    (h : reduceGo segs acc = some out) : ∀ s ∈ out, s ∈ segs ∨ s ∈ acc := by
  induction segs generalizing acc with
  | nil =>
    simp [reduceGo] at h
    subst h
    intro s hs
    exact Or.inr (by simpa using hs)
  | cons x rest ih =>
    unfold reduceGo at h
    split at h
    · intro s hs
      rcases ih acc h s hs with h' | h'
      · exact Or.inl (List.mem_cons_of_mem _ h')
      · exact Or.inr h'
    · split at h
      · cases acc with
        | nil => simp at h
        | cons a acc' =>
          simp at h
          intro s hs
          rcases ih acc' h s hs with h' | h'
          · exact Or.inl (List.mem_cons_of_mem _ h')
          · exact Or.inr (List.mem_cons_of_mem _ h')
      · intro s hs
        rcases ih (x :: acc) h s hs with h' | h'
        · exact Or.inl (List.mem_cons_of_mem _ h')
        · rcases List.mem_cons.mp h' with rfl | h''
          · exact Or.inl (by simp)
          · exact Or.inr h''

/-- abstract resolution of a relative path: walk the segments from a directory stack (top = head);
`none` = the walk climbs above the root -/
def walk : List Name → List Name → Option (List Name)
  | [], cur => some cur
  | s :: rest, cur =>
    if s = [] ∨ s = dotSeg then walk rest cur
    else if s = dotdotSeg then
      match cur with
      | [] => none
      | _ :: up => walk rest up
    else walk rest (s :: cur)

/-- `ReduceAbsPath` is the walk from the root: it fails exactly when the walk leaves the root, and
otherwise returns the directory stack reached -/
theorem reduceGo_eq_walk (segs acc : List Name) :
    reduceGo segs acc = (walk segs acc).map List.reverse := by
  induction segs generalizing acc with
  | nil => simp [reduceGo, walk]
  | cons x rest ih =>
    unfold reduceGo walk
    split
    · exact ih acc
    · split
      · cases acc <;> simp [ih]
      · exact ih _

theorem reduceGo_append (xs ys acc : List Name) :
    reduceGo (xs ++ ys) acc = (reduceGo xs acc).bind fun r => reduceGo ys r.reverse := by
  induction xs generalizing acc with
  | nil => simp [reduceGo]
  | cons x rest ih =>
    simp only [List.cons_append, reduceGo]
    split
    · exact ih acc
    · split
      · cases acc with
        | nil => simp
        | cons a acc' => exact ih acc'
      · exact ih _

/-- real names are pushed one by one -/
theorem reduceGo_of_plain (segs acc : List Name) (h : ∀ s ∈ segs, Plain s) :
    reduceGo segs acc = some (acc.reverse ++ segs) := by
  induction segs generalizing acc with
  | nil => simp [reduceGo]
  | cons x rest ih =>
    have hx := h x (by simp)
    unfold reduceGo
    rw [if_neg (by rintro (e | e); exact hx.1 e; exact hx.2.1 e), if_neg hx.2.2]
    rw [ih _ (fun s hs => h s (List.mem_cons_of_mem _ hs))]
    simp

theorem reduceGo_empty_seg (acc : List Name) : reduceGo [[]] acc = some acc.reverse := by
  simp [reduceGo]

theorem norm_plain (p : Bytes) (q : List Name) (h : norm p = some q) : ∀ s ∈ q, Plain s :=
  reduceGo_plain (split p) [] (by simp) q h

theorem norm_reduced (p : Bytes) (q : List Name) (h : norm p = some q) : Reduced q := by
  intro s hs
  refine ⟨norm_plain p q h s hs, ?_⟩
  rcases reduceGo_subset (split p) [] q h s hs with h' | h'
  · exact split_noSlash_mem p s h'
  · simp at h'

/-- every segment of the normal form occurs literally between two `/` of the raw string -/
theorem norm_subset (p : Bytes) (q : List Name) (h : norm p = some q) : ∀ s ∈ q, s ∈ split p := by
  intro s hs
  rcases reduceGo_subset (split p) [] q h s hs with h' | h'
  · exact h'
  · simp at h'

/-- reducing a reduced path changes nothing (`ReduceAbsPath` is idempotent) -/
theorem norm_join (q : List Name) (h : Reduced q) : norm (join q) = some q := by
  unfold norm reduceSegs
  rw [split_join' q (fun s hs => (h s hs).2)]
  split
  · next e => subst e; rfl
  · simpa using reduceGo_of_plain q [] (fun s hs => (h s hs).1)

theorem reduce_idem (p : Bytes) (r : Bytes) (h : reduceAbsPath p = some r) : reduceAbsPath r = some r := by
  unfold reduceAbsPath at h ⊢
  cases hn : norm p with
  | none => simp [hn] at h
  | some q =>
    simp [hn] at h
    subst h
    simp [norm_join q (norm_reduced p q hn)]

/-- the path string a child view hands to its parent: `base/` followed by the reduced argument -/
theorem norm_base_join (b q : List Name) (hb : Reduced b) (hq : Reduced q) :
    norm (join b ++ slash :: join q) = some (b ++ q) := by
  unfold norm reduceSegs
  rw [split_append_slash, reduceGo_append, split_join' b (fun s hs => (hb s hs).2),
    split_join' q (fun s hs => (hq s hs).2)]
  have hb' : reduceGo (if b = [] then [[]] else b) [] = some b := by
    split
    · next e => subst e; rfl
    · simpa using reduceGo_of_plain b [] (fun s hs => (hb s hs).1)
  rw [hb']
  simp only [Option.bind_some]
  split
  · next e => subst e; simp [reduceGo]
  · simpa using reduceGo_of_plain q b.reverse (fun s hs => (hq s hs).1)

theorem Reduced.append {a b : List Name} (ha : Reduced a) (hb : Reduced b) : Reduced (a ++ b) := by
  intro s hs
  rcases List.mem_append.mp hs with h | h
  · exact ha s h
  · exact hb s h

theorem Reduced.nil : Reduced [] := by intro s hs; simp at hs

end Path
end Goat
