/-
Helper lemmas for properties C14/C16, part 1: the update function, consequences of `wf`,
trace splitting, and the equivalence of the monitor with the declarative trace property.
The model is `Goat/Model/Pipeline.lean`; nothing here changes a definition of the model.
-/
import Goat.Model.Pipeline

namespace Goat.Pipeline

/-! ### `upd` -/

@[simp] theorem upd_same {α : Type} (f : Nat → α) (k : Nat) (v : α) : upd f k v k = v := by
  simp [upd]

theorem upd_other {α : Type} (f : Nat → α) {k x : Nat} (v : α) (h : x ≠ k) : upd f k v x = f x := by
  simp [upd, h]

theorem upd_apply {α : Type} (f : Nat → α) (k x : Nat) (v : α) :
    upd f k v x = if x = k then v else f x := rfl

/-! ### Splitting a trace that was extended by one event -/

theorem split_snoc {α : Type} {tr pre post : List α} {e e' : α}
    (h : tr ++ [e] = pre ++ e' :: post) :
    (pre = tr ∧ e' = e ∧ post = []) ∨ ∃ post', post = post' ++ [e] ∧ tr = pre ++ e' :: post' := by
  rcases List.eq_nil_or_concat post with hp | ⟨post', b, hp⟩
  · subst hp
    have := List.append_singleton_inj.mp (by simpa using h : tr ++ [e] = pre ++ [e'])
    exact Or.inl ⟨this.1.symm, this.2.symm, rfl⟩
  · rw [List.concat_eq_append] at hp
    subst hp
    have h' : tr ++ [e] = (pre ++ e' :: post') ++ [b] := by simpa using h
    have := List.append_singleton_inj.mp h'
    exact Or.inr ⟨post', by rw [this.2], this.1⟩

theorem traceOk_nil (g : Graph) : TraceOk g [] := by
  intro pre e post h
  cases pre <;> simp at h

theorem traceOk_snoc {g : Graph} {tr : List Ev} {e : Ev} (h : TraceOk g tr) (he : Ok g tr e) :
    TraceOk g (tr ++ [e]) := by
  intro pre e' post hs
  rcases split_snoc hs with ⟨h1, h2, _⟩ | ⟨post', _, h2⟩
  · subst h1; subst h2; exact he
  · exact h pre e' post' h2

theorem traceOk_prefix {g : Graph} {a b : List Ev} (h : TraceOk g (a ++ b)) : TraceOk g a := by
  intro pre e post hs
  exact h pre e (post ++ b) (by simp [hs])

/-- every event of a trace that satisfies the property was `Ok` after some prefix of the trace -/
theorem traceOk_mem {g : Graph} {tr : List Ev} (h : TraceOk g tr) {e : Ev} (he : e ∈ tr) :
    ∃ pre post, tr = pre ++ e :: post ∧ Ok g pre e := by
  obtain ⟨pre, post, hs⟩ := List.append_of_mem he
  exact ⟨pre, post, hs, h pre e post hs⟩

/-! ### The monitor decides the declarative property -/

theorem traceOk2_nil (g : Graph) : TraceOk2 g [] := by
  intro pre e post h
  cases pre <;> simp at h

theorem traceOk2_snoc {g : Graph} {tr : List Ev} {e : Ev} (h : TraceOk2 g tr) (he : Ok2 g tr e) :
    TraceOk2 g (tr ++ [e]) := by
  intro pre e' post hs
  rcases split_snoc hs with ⟨h1, h2, _⟩ | ⟨post', _, h2⟩
  · subst h1; subst h2; exact he
  · exact h pre e' post' h2

theorem acceptsFrom_iff (g : Graph) (pre tr : List Ev) :
    acceptsFrom g pre tr = true ↔ ∀ a e b, tr = a ++ e :: b → Ok g (pre ++ a) e ∧ Ok2 g (pre ++ a) e := by
  induction tr generalizing pre with
  | nil =>
    simp only [acceptsFrom, true_iff]
    intro a e b h
    cases a <;> simp at h
  | cons x rest ih =>
    simp only [acceptsFrom, Bool.and_eq_true, decide_eq_true_eq, ih]
    constructor
    · rintro ⟨h1, h2⟩ a e b hs
      cases a with
      | nil =>
        simp only [List.nil_append, List.cons.injEq] at hs
        rw [← hs.1]; simpa using h1
      | cons y a' =>
        simp only [List.cons_append, List.cons.injEq] at hs
        have := h2 a' e b hs.2
        rw [← hs.1]
        simpa [List.append_assoc] using this
    · intro h
      refine ⟨by simpa using h [] x rest rfl, ?_⟩
      intro a e b hs
      have := h (x :: a) e b (by simp [hs])
      simpa [List.append_assoc] using this

theorem accepts_iff (g : Graph) (tr : List Ev) : accepts g tr = true ↔ TraceOk g tr ∧ TraceOk2 g tr := by
  unfold accepts TraceOk TraceOk2
  rw [acceptsFrom_iff]
  simp only [List.nil_append]
  exact ⟨fun h => ⟨fun a e b hs => (h a e b hs).1, fun a e b hs => (h a e b hs).2⟩,
    fun h a e b hs => ⟨h.1 a e b hs, h.2 a e b hs⟩⟩

/-! ### Consequences of `wf` -/

theorem allIdx_iff {α : Type} (l : List α) (p : Nat → α → Bool) :
    allIdx l p = true ↔ ∀ i a, l[i]? = some a → p i a = true := by
  unfold allIdx
  rw [List.all_eq_true]
  constructor
  · intro h i a hi
    have hlt : i < l.length := (List.getElem?_eq_some_iff.mp hi).1
    have := h i (List.mem_range.mpr hlt)
    simpa [hi] using this
  · intro h i _
    cases hi : l[i]? with
    | none => rfl
    | some a => simpa using h i a hi

structure WF (g : Graph) : Prop where
  role : ∀ t, t < g.n → roleOk g t = true
  body : ∀ t, t < g.n → (g.body t) ≠ []
  waits : ∀ t, t < g.n → ∀ w ∈ g.waits t, waitOk g t w = true
  cmd : ∀ t, t < g.n → ∀ i c, g.cmdAt t i = some c → cmdOk g t i c = true
  tryd : ∀ y, y < g.tries.length → tryOk g y = true
  top : ∀ t ∈ g.top, t < g.n ∧ g.role t = .top
  nodup : g.top.Nodup

theorem wf_iff (g : Graph) : wf g = true ↔ WF g := by
  unfold wf
  simp only [Bool.and_eq_true, List.all_eq_true, List.mem_range, decide_eq_true_eq, Bool.not_eq_true',
    List.isEmpty_eq_false_iff, beq_iff_eq]
  constructor
  · rintro ⟨⟨⟨h1, h2⟩, h3⟩, h4⟩
    refine ⟨fun t ht => (h1 t ht).1.1.1, fun t ht => (h1 t ht).1.1.2, fun t ht => (h1 t ht).1.2,
      fun t ht i c hc => ?_, h2, h3, h4⟩
    exact (allIdx_iff _ _).mp (h1 t ht).2 i c hc
  · intro h
    refine ⟨⟨⟨fun t ht => ⟨⟨⟨h.role t ht, h.body t ht⟩, h.waits t ht⟩, ?_⟩, h.tryd⟩, h.top⟩, h.nodup⟩
    exact (allIdx_iff _ _).mpr (h.cmd t ht)

/-- a task id outside the graph has the default definition: no waits, no body -/
theorem task_out {g : Graph} {t : Nat} (h : g.n ≤ t) : g.task t = TaskDef.dflt := by
  unfold Graph.task Graph.n at *
  rw [List.getD_eq_getElem?_getD, List.getElem?_eq_none h]
  rfl

theorem body_out {g : Graph} {t : Nat} (h : g.n ≤ t) : g.body t = [] := by
  unfold Graph.body; rw [task_out h]; rfl

theorem cmdAt_lt {g : Graph} {t i : Nat} {c : Cmd} (h : g.cmdAt t i = some c) : i < (g.body t).length := by
  unfold Graph.cmdAt at h
  exact (List.getElem?_eq_some_iff.mp h).1

theorem cmdAt_some_of_lt {g : Graph} {t i : Nat} (h : i < (g.body t).length) : ∃ c, g.cmdAt t i = some c := by
  unfold Graph.cmdAt
  exact ⟨(g.body t)[i], List.getElem?_eq_getElem h⟩

/-- tasks that can be named in a wait list -/
def nameable (g : Graph) (t : Nat) : Prop := g.role t = .top ∨ ∃ p i, g.role t = .child p i

theorem WF.wait_cases {g : Graph} (h : WF g) {t w : Nat} (ht : t < g.n) (hw : w ∈ g.waits t) :
    g.n ≤ w ∨ (nameable g w ∧ g.depth w = g.depth t ∧ g.ctx w = g.ctx t) := by
  have := h.waits t ht w hw
  unfold waitOk at this
  simp only [Bool.or_eq_true, decide_eq_true_eq, Bool.and_eq_true, beq_iff_eq] at this
  rcases this with h1 | ⟨⟨h2, h3⟩, h4⟩
  · exact Or.inl h1
  · refine Or.inr ⟨?_, h3, h4⟩
    unfold nameable
    cases hr : g.role w <;> simp [hr] at h2 ⊢

theorem WF.spawn {g : Graph} (h : WF g) {t i c : Nat} (ht : t < g.n) (hc : g.cmdAt t i = some (.spawn c)) :
    c < g.n ∧ g.role c = .child t i := by
  have := h.cmd t ht i _ hc
  simpa [cmdOk] using this

theorem WF.tryc {g : Graph} (h : WF g) {t i y : Nat} (ht : t < g.n) (hc : g.cmdAt t i = some (.try_ y)) :
    y < g.tries.length ∧ (g.tryd y).owner = t ∧ (g.tryd y).idx = i := by
  have := h.cmd t ht i _ hc
  simpa [cmdOk, and_assoc] using this

theorem WF.child {g : Graph} (h : WF g) {t p i : Nat} (ht : t < g.n) (hr : g.role t = .child p i) :
    g.cmdAt p i = some (.spawn t) ∧ g.depth t = g.depth p + 1 ∧ g.ctx t = g.ctx p := by
  have := h.role t ht
  unfold roleOk at this
  unfold Graph.role at hr
  simp only [hr, Bool.and_eq_true, beq_iff_eq] at this
  exact ⟨this.1.1, this.1.2, this.2⟩

theorem WF.topRole {g : Graph} (h : WF g) {t : Nat} (ht : t < g.n) (hr : g.role t = .top) :
    t ∈ g.top ∧ g.ctx t = 0 := by
  have := h.role t ht
  unfold roleOk at this
  unfold Graph.role at hr
  simp only [hr, Bool.and_eq_true, beq_iff_eq, List.contains_eq_mem, decide_eq_true_eq] at this
  exact ⟨this.2, this.1.2⟩

theorem role_out {g : Graph} {t : Nat} (h : g.n ≤ t) : g.role t = .top := by
  unfold Graph.role; rw [task_out h]; rfl

theorem WF.tryOwner {g : Graph} (h : WF g) {y : Nat} (hy : y < g.tries.length) :
    (g.tryd y).owner < g.n ∧ g.cmdAt (g.tryd y).owner (g.tryd y).idx = some (.try_ y) ∧
    (g.tryd y).body < g.n ∧ g.role (g.tryd y).body = .tbody y := by
  have := h.tryd y hy
  unfold tryOk at this
  simp only [Bool.and_eq_true, decide_eq_true_eq, beq_iff_eq] at this
  exact ⟨this.1.1.1.1.1.1, this.1.1.1.1.1.2, this.1.1.1.1.2, this.1.1.1.2⟩

theorem WF.tryHandlers {g : Graph} (h : WF g) {y : Nat} (hy : y < g.tries.length) :
    (∀ x, (g.tryd y).succ = some x → x < g.n ∧ g.role x = .hsucc y) ∧
    (∀ x, (g.tryd y).fail = some x → x < g.n ∧ g.role x = .hfail y) ∧
    (∀ x, (g.tryd y).fin = some x → x < g.n ∧ g.role x = .hfin y) := by
  have := h.tryd y hy
  unfold tryOk at this
  simp only [Bool.and_eq_true, decide_eq_true_eq, beq_iff_eq] at this
  refine ⟨fun x hx => ?_, fun x hx => ?_, fun x hx => ?_⟩
  · have h1 := this.1.1.2; rw [hx] at h1; simpa using h1
  · have h1 := this.1.2; rw [hx] at h1; simpa using h1
  · have h1 := this.2; rw [hx] at h1; simpa using h1

theorem WF.tbody {g : Graph} (h : WF g) {t y : Nat} (ht : t < g.n) (hr : g.role t = .tbody y) :
    y < g.tries.length ∧ (g.tryd y).body = t ∧ g.ctx t = y + 1 ∧
    g.depth t = g.depth (g.tryd y).owner + 1 ∧ g.waits t = [] := by
  have := h.role t ht
  unfold roleOk at this
  unfold Graph.role at hr
  simp only [hr, Bool.and_eq_true, beq_iff_eq, decide_eq_true_eq, List.isEmpty_iff] at this
  exact ⟨this.1.1.1.1, this.1.1.1.2, this.1.1.2, this.1.2, this.2⟩

theorem WF.hsucc {g : Graph} (h : WF g) {t y : Nat} (ht : t < g.n) (hr : g.role t = .hsucc y) :
    y < g.tries.length ∧ (g.tryd y).succ = some t ∧ g.ctx t = g.ctx (g.tryd y).owner ∧
    g.depth t = g.depth (g.tryd y).owner + 1 ∧ g.waits t = [] := by
  have := h.role t ht
  unfold roleOk at this
  unfold Graph.role at hr
  simp only [hr, Bool.and_eq_true, beq_iff_eq, decide_eq_true_eq, List.isEmpty_iff] at this
  exact ⟨this.1.1.1.1, this.1.1.1.2, this.1.1.2, this.1.2, this.2⟩

theorem WF.hfail {g : Graph} (h : WF g) {t y : Nat} (ht : t < g.n) (hr : g.role t = .hfail y) :
    y < g.tries.length ∧ (g.tryd y).fail = some t ∧ g.ctx t = g.ctx (g.tryd y).owner ∧
    g.depth t = g.depth (g.tryd y).owner + 1 ∧ g.waits t = [] := by
  have := h.role t ht
  unfold roleOk at this
  unfold Graph.role at hr
  simp only [hr, Bool.and_eq_true, beq_iff_eq, decide_eq_true_eq, List.isEmpty_iff] at this
  exact ⟨this.1.1.1.1, this.1.1.1.2, this.1.1.2, this.1.2, this.2⟩

theorem WF.hfin {g : Graph} (h : WF g) {t y : Nat} (ht : t < g.n) (hr : g.role t = .hfin y) :
    y < g.tries.length ∧ (g.tryd y).fin = some t ∧ g.ctx t = g.ctx (g.tryd y).owner ∧
    g.depth t = g.depth (g.tryd y).owner + 1 ∧ g.waits t = [] := by
  have := h.role t ht
  unfold roleOk at this
  unfold Graph.role at hr
  simp only [hr, Bool.and_eq_true, beq_iff_eq, decide_eq_true_eq, List.isEmpty_iff] at this
  exact ⟨this.1.1.1.1, this.1.1.1.2, this.1.1.2, this.1.2, this.2⟩

end Goat.Pipeline
