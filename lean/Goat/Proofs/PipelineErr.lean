/-
Helper lemmas for properties C14/C16, part 4: once the manager's `Wait` has returned nothing moves
any more (`Quiet`), and error reports are exact (`TraceOk2`) on every model run.
-/
import Goat.Proofs.PipelineStep

set_option linter.unusedSimpArgs false
set_option linter.unusedVariables false

namespace Goat.Pipeline

/-- a step only appends to the trace -/
theorem step_tr {g : Graph} {s s' : St} {l : Label} (hs : step g s l = some s') :
    s'.tr = s.tr ∨ ∃ e, s'.tr = s.tr ++ [e] := by
  cases l with
  | main =>
    simp only [step, stepMain] at hs
    repeat' split at hs
    all_goals first | (cases hs; first | exact Or.inl rfl | exact Or.inr ⟨_, rfl⟩) | cases hs
  | task t =>
    simp only [step, stepTask] at hs
    repeat' split at hs
    all_goals first | (cases hs; first | exact Or.inl rfl | exact Or.inr ⟨_, rfl⟩) | cases hs
  | stop t =>
    simp only [step, stepStop] at hs
    repeat' split at hs
    all_goals first | (cases hs; first | exact Or.inl rfl | exact Or.inr ⟨_, rfl⟩) | cases hs
  | tryg y =>
    simp only [step, stepTry, submitHandler] at hs
    repeat' split at hs
    all_goals first | (cases hs; first | exact Or.inl rfl | exact Or.inr ⟨_, rfl⟩) | cases hs

/-- events for which the second clause group says nothing -/
def plain : Ev → Prop
  | .mwait _ => False
  | .fin _ _ => False
  | .root _ => False
  | _ => True

theorem ok2_of_plain {g : Graph} {pre : List Ev} {e : Ev} (h : plain e) : Ok2 g pre e := by
  cases e <;> simp [plain] at h <;> simp [Ok2]

/-- only the main thread emits report events, and it moves no task -/
theorem step_plain {g : Graph} {s s' : St} {l : Label} (hl : l ≠ .main) (hs : step g s l = some s') :
    (s'.tr = s.tr ∨ ∃ e, s'.tr = s.tr ++ [e] ∧ plain e) ∧ s'.mp = s.mp := by
  cases l with
  | main => exact absurd rfl hl
  | task t =>
    simp only [step, stepTask] at hs
    repeat' split at hs
    all_goals first
      | (cases hs; exact ⟨Or.inl rfl, rfl⟩)
      | (cases hs; exact ⟨Or.inr ⟨_, rfl, trivial⟩, rfl⟩)
      | cases hs
  | stop t =>
    simp only [step, stepStop] at hs
    repeat' split at hs
    all_goals first
      | (cases hs; exact ⟨Or.inl rfl, rfl⟩)
      | cases hs
  | tryg y =>
    simp only [step, stepTry, submitHandler] at hs
    repeat' split at hs
    all_goals first
      | (cases hs; exact ⟨Or.inl rfl, rfl⟩)
      | (cases hs; exact ⟨Or.inr ⟨_, rfl, trivial⟩, rfl⟩)
      | cases hs

/-- after `TasksManager.Wait` has returned, every task of the table has released its latch -/
def Quiet (g : Graph) (s : St) : Prop :=
  ((∃ t, s.mp = .fins t) ∨ s.mp = .finished) → ∀ u, (s.pc u).accepted = true → s.pc u = .finished

/-- in a quiet state no runner and no try goroutine can move -/
theorem quiet_no_step {g : Graph} {s : St} {l : Label} (hI : Inv g s) (hq : Quiet g s)
    (hm : (∃ t, s.mp = .fins t) ∨ s.mp = .finished) (hl : l ≠ .main) : step g s l = none := by
  have Q := hq hm
  cases l with
  | main => exact absurd rfl hl
  | task t =>
    simp only [step, stepTask]
    cases hpc : s.pc t <;> simp
    all_goals
      have := Q t (by rw [hpc]; rfl)
      rw [hpc] at this; cases this
  | stop t =>
    simp only [step, stepStop]
    cases hpc : s.pc t <;> simp
    have := Q t (by rw [hpc]; rfl)
    rw [hpc] at this; cases this
  | tryg y =>
    simp only [step, stepTry]
    have key : s.tg y ≠ .idle → s.tg y ≠ .done → False := by
      intro h1 h2
      have hy := hI.tgr y h1
      have hact := (hI.yi y hy).active h1 h2
      have := Q _ (by rw [hact]; rfl)
      rw [hact] at this; cases this
    cases htg : s.tg y <;> simp
    all_goals exact absurd (key (by rw [htg]; simp) (by rw [htg]; simp)) id

theorem quiet_init (g : Graph) : Quiet g init := by
  intro h; rcases h with ⟨_, h⟩ | h <;> simp [init] at h

theorem allFinished_iff {g : Graph} {s : St} (hI : Inv g s) (h : allFinished g s = true) :
    ∀ u, (s.pc u).accepted = true → s.pc u = .finished := by
  intro u ha
  have hun : u < g.n := (hI.ti u).range (by intro h0; rw [h0] at ha; cases ha)
  unfold allFinished at h
  rw [List.all_eq_true] at h
  have := h u (List.mem_range.mpr hun)
  simp only [Bool.or_eq_true, Bool.not_eq_true', beq_iff_eq] at this
  rcases this with h1 | h1
  · rw [h1] at ha; cases ha
  · exact h1

/-- the witness of `I3` has closed with an error once everything has finished -/
theorem done_false_of_cerr {g : Graph} {s : St} (hI : Inv g s)
    (hall : ∀ u, (s.pc u).accepted = true → s.pc u = .finished) {X : Nat} (hc : s.cerr X = true) :
    ∃ u, u < g.n ∧ g.ctx u = X ∧ Ev.done u false ∈ s.tr := by
  obtain ⟨u, hu, ha, hd⟩ := hI.i3 X hc
  have hun : u < g.n := (hI.ti u).range (by intro h0; rw [h0] at ha; cases ha)
  rcases hd with hd | hd
  · exact absurd (hall u ha) hd
  · exact ⟨u, hun, hu, hd⟩

theorem quiet_and_ok2_step {g : Graph} {s s' : St} (hw : WF g) (hI : Inv g s) (hq : Quiet g s)
    (h2 : TraceOk2 g s.tr) (l : Label) (hs : step g s l = some s') : Quiet g s' ∧ TraceOk2 g s'.tr := by
  by_cases hl : l = .main
  · subst hl
    simp only [step] at hs
    unfold stepMain at hs
    split at hs
    · -- sub j
      split at hs
      · cases hs
        refine ⟨fun hm => (by rcases hm with ⟨_, hm⟩ | hm <;> cases hm), ?_⟩
        exact traceOk2_snoc h2 (ok2_of_plain trivial)
      · cases hs
        exact ⟨fun hm => (by rcases hm with ⟨_, hm⟩ | hm <;> cases hm), h2⟩
    · -- create j
      split at hs
      · split at hs
        · cases hs
          exact ⟨fun hm => (by rcases hm with ⟨_, hm⟩ | hm <;> cases hm),
            traceOk2_snoc h2 (ok2_of_plain trivial)⟩
        · cases hs
          exact ⟨fun hm => (by rcases hm with ⟨_, hm⟩ | hm <;> cases hm),
            traceOk2_snoc h2 (ok2_of_plain trivial)⟩
      · cases hs
    · -- wait
      split at hs
      · rename_i hall
        cases hs
        have hall' := allFinished_iff hI hall
        refine ⟨fun _ => hall', ?_⟩
        apply traceOk2_snoc h2
        cases htab : tableOk g s
        · unfold Ok2
          simp only
          have : ∃ u, u < g.n ∧ (s.pc u).accepted = true ∧ s.cerr (g.ctx u) = true := by
            apply Classical.byContradiction
            intro hcon
            have hall2 : (List.range g.n).all (fun t => !(s.pc t).accepted || !s.cerr (g.ctx t)) = true := by
              rw [List.all_eq_true]
              intro u hu
              rw [List.mem_range] at hu
              cases ha : (s.pc u).accepted <;> cases hc : s.cerr (g.ctx u) <;> simp
              exact hcon ⟨u, hu, ha, hc⟩
            unfold tableOk at htab
            rw [hall2] at htab; cases htab
          obtain ⟨u, _, _, hc⟩ := this
          obtain ⟨v, _, _, hd⟩ := done_false_of_cerr hI hall' hc
          exact ⟨_, hd, rfl⟩
        · simp [Ok2]
      · cases hs
    · -- fins t
      rename_i t hmp
      have hall' := hq (Or.inl ⟨t, hmp⟩)
      split at hs
      · split at hs
        · cases hs
          refine ⟨fun _ => hall', ?_⟩
          apply traceOk2_snoc h2
          cases hc : s.cerr (g.ctx t)
          · simp [Ok2]
          · obtain ⟨v, hv, hx, hd⟩ := done_false_of_cerr hI hall' hc
            simp only [Bool.not_true, Ok2]
            exact ⟨v, List.mem_range.mpr hv, hd, hx⟩
        · cases hs
          exact ⟨fun _ => hall', h2⟩
      · cases hs
        refine ⟨fun _ => hall', ?_⟩
        apply traceOk2_snoc h2
        cases hc : s.cerr 0
        · simp [Ok2]
        · obtain ⟨v, hv, hx, hd⟩ := done_false_of_cerr hI hall' hc
          simp only [Bool.not_true, Ok2]
          exact ⟨v, List.mem_range.mpr hv, hd, hx⟩
    · cases hs
  · obtain ⟨htr, hmp⟩ := step_plain hl hs
    constructor
    · intro hm
      rw [hmp] at hm
      rw [quiet_no_step hI hq hm hl] at hs
      cases hs
    · rcases htr with htr | ⟨e, htr, hp⟩
      · rw [htr]; exact h2
      · rw [htr]; exact traceOk2_snoc h2 (ok2_of_plain hp)

/-- every run of the model satisfies the exact error-report clauses, and stays quiet after `Wait` -/
theorem run_quiet_ok2 {g : Graph} (hw : WF g) (sched : List Label) :
    Quiet g (run g sched) ∧ TraceOk2 g (run g sched).tr := by
  have : ∀ s, LTS.Reachable (sys g) s → Quiet g s ∧ TraceOk2 g s.tr := by
    intro s hr
    induction hr with
    | init => exact ⟨quiet_init g, traceOk2_nil g⟩
    | step i hprev hstep ih =>
      exact quiet_and_ok2_step hw (inv_reachable hw hprev) ih.1 ih.2 i hstep
  exact this _ (LTS.run_reachable (sys g) sched)

/-- every run of the model is accepted by the trace monitor -/
theorem run_accepted {g : Graph} (hw : WF g) (sched : List Label) : accepts g (run g sched).tr = true :=
  (accepts_iff g _).mpr ⟨run_traceOk hw sched, (run_quiet_ok2 hw sched).2⟩

end Goat.Pipeline
