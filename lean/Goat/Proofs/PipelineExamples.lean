/-
Concrete graphs, schedules and the traces the model produces for them: the witnesses used by the
non-vacuity `example`s of `Props/C14.lean` and `Props/C16.lean` (evaluated by the kernel, `decide`).
-/
import Goat.Proofs.PipelineTry
import Goat.Proofs.PipelineLatch

namespace Goat.Pipeline

def rep (n : Nat) (l : Label) : List Label := List.replicate n l

/-- task 0: `p`; task 1 waits for 0: `p, f`; task 2 waits for 1: `p` -/
def gEx14 : Graph :=
  ⟨[⟨.top, 0, 0, [], [.probe]⟩, ⟨.top, 0, 0, [0], [.probe, .fail]⟩, ⟨.top, 0, 0, [1], [.probe]⟩], [], [0, 1, 2]⟩

def schedEx14 : List Label :=
  rep 6 .main ++ rep 6 (.task 0) ++ rep 8 (.task 1) ++ rep 3 (.task 2) ++ rep 6 .main

theorem gEx14_wf : wf gEx14 = true := by decide

theorem gEx14_trace : (run gEx14 schedEx14).tr =
    [.sub 0, .acc 0, .sub 1, .acc 1, .sub 2, .acc 2, .cmd 0 0, .ret 0 0 true, .done 0 true,
     .cmd 1 0, .ret 1 0 true, .cmd 1 1, .ret 1 1 false, .done 1 false, .done 2 false,
     .mwait false, .fin 0 false, .fin 1 false, .fin 2 false, .root false] := by decide

theorem gEx14_finished : (run gEx14 schedEx14).mp = .finished := by decide

/-- task 0: `p, try 0, p`; body of the try (task 1, its own context 1): `p, f`;
handlers: fail = 2, finally = 3, success = 4, each `p` -/
def gEx16 : Graph :=
  ⟨[⟨.top, 0, 0, [], [.probe, .try_ 0, .probe]⟩, ⟨.tbody 0, 1, 1, [], [.probe, .fail]⟩,
    ⟨.hfail 0, 1, 0, [], [.probe]⟩, ⟨.hfin 0, 1, 0, [], [.probe]⟩, ⟨.hsucc 0, 1, 0, [], [.probe]⟩],
   [⟨0, 1, 1, some 4, some 2, some 3⟩], [0]⟩

/-- the same graph with a FAILING fail handler (task 2: `f`) -/
def gEx16f : Graph :=
  ⟨[⟨.top, 0, 0, [], [.probe, .try_ 0, .probe]⟩, ⟨.tbody 0, 1, 1, [], [.probe, .fail]⟩,
    ⟨.hfail 0, 1, 0, [], [.fail]⟩, ⟨.hfin 0, 1, 0, [], [.probe]⟩, ⟨.hsucc 0, 1, 0, [], [.probe]⟩],
   [⟨0, 1, 1, some 4, some 2, some 3⟩], [0]⟩

def schedEx16 : List Label :=
  rep 2 .main ++ rep 6 (.task 0) ++ rep 7 (.task 1) ++ rep 4 (.tryg 0) ++ rep 6 (.task 3) ++ rep 6 (.task 2) ++
  rep 6 (.task 0) ++ rep 8 .main

theorem gEx16_wf : wf gEx16 = true := by decide

set_option maxRecDepth 4000 in
theorem gEx16_trace : (run gEx16 schedEx16).tr =
    [.sub 0, .acc 0, .cmd 0 0, .ret 0 0 true, .cmd 0 1, .ret 0 1 true, .cmd 1 0, .ret 1 0 true,
     .cmd 1 1, .ret 1 1 false, .done 1 false, .hacc 3, .hacc 2, .cmd 3 0, .ret 3 0 true, .done 3 true,
     .cmd 2 0, .ret 2 0 true, .done 2 true, .cmd 0 2, .ret 0 2 true, .done 0 true,
     .mwait false, .fin 0 true, .fin 1 false, .fin 2 true, .fin 3 true, .root true] := by decide

/-- on `gEx16f` the fail handler (2) runs and fails before `finally` (3) has entered its first command;
RunLoop of `finally` then takes the `<-Done()` branch (label `stop 3`) -/
def schedEx16f : List Label :=
  rep 2 .main ++ rep 6 (.task 0) ++ rep 7 (.task 1) ++ rep 4 (.tryg 0) ++ rep 4 (.task 2) ++ [.task 3, .stop 3, .task 3] ++
  rep 6 (.task 0) ++ rep 8 .main

theorem gEx16f_wf : wf gEx16f = true := by decide

set_option maxRecDepth 8000 in
theorem gEx16f_trace : (run gEx16f schedEx16f).tr =
    [.sub 0, .acc 0, .cmd 0 0, .ret 0 0 true, .cmd 0 1, .ret 0 1 true, .cmd 1 0, .ret 1 0 true,
     .cmd 1 1, .ret 1 1 false, .done 1 false, .hacc 3, .hacc 2, .cmd 2 0, .ret 2 0 false, .done 2 false,
     .done 3 false, .done 0 false, .mwait false, .fin 0 false, .fin 1 false, .fin 2 false, .fin 3 false,
     .root false] := by decide

/-- a try block whose body (task 1, in a context of its own) stops its scope at its second command:
`p, stop, p`; fail handler 2, success handler 3 -/
def gStop : Graph :=
  ⟨[⟨.top, 0, 0, [], [.probe, .try_ 0, .probe]⟩, ⟨.tbody 0, 1, 1, [], [.probe, .stop, .probe]⟩,
    ⟨.hfail 0, 1, 0, [], [.probe]⟩, ⟨.hsucc 0, 1, 0, [], [.probe]⟩],
   [⟨0, 1, 1, some 3, some 2, none⟩], [0]⟩

/-- RunLoop of the body takes the `<-Done()` branch (label `stop 1`) instead of reading the third command -/
def schedStop : List Label :=
  rep 2 .main ++ rep 6 (.task 0) ++ rep 7 (.task 1) ++ [.stop 1, .task 1] ++ rep 4 (.tryg 0) ++ rep 6 (.task 3) ++
  rep 6 (.task 0) ++ rep 8 .main

theorem gStop_wf : wf gStop = true := by decide

set_option maxRecDepth 8000 in
theorem gStop_trace : (run gStop schedStop).tr =
    [.sub 0, .acc 0, .cmd 0 0, .ret 0 0 true, .cmd 0 1, .ret 0 1 true, .cmd 1 0, .ret 1 0 true, .cmd 1 1,
     .ret 1 1 true, .done 1 true, .hacc 3, .cmd 3 0, .ret 3 0 true, .done 3 true, .cmd 0 2, .ret 0 2 true,
     .done 0 true, .mwait true, .fin 0 true, .fin 1 true, .fin 3 true, .root true] := by decide

/-! steering of `gEx16`: the fail handler (task 2) is held in its first command until the finally
handler (task 3) has started -/

def polSel : Nat → Steer := fun _ => .holdSel false
def polFin : Nat → Steer := fun _ => .holdFin true

/-- up to the moment the fail handler sits in its first command -/
def schedHeld : List Label :=
  rep 2 .main ++ rep 6 (.task 0) ++ rep 7 (.task 1) ++ rep 4 (.tryg 0) ++ rep 2 (.task 2)

/-- … then the held handler is scheduled five times in vain, `finally` runs, the fail handler continues -/
def schedSteered : List Label :=
  schedHeld ++ rep 5 (.task 2) ++ rep 6 (.task 3) ++ rep 6 (.task 2) ++ rep 6 (.task 0) ++ rep 8 .main

set_option maxRecDepth 8000 in
theorem gEx16_steered_trace : ((sysS gEx16 polSel).run schedSteered).tr =
    [.sub 0, .acc 0, .cmd 0 0, .ret 0 0 true, .cmd 0 1, .ret 0 1 true, .cmd 1 0, .ret 1 0 true,
     .cmd 1 1, .ret 1 1 false, .done 1 false, .hacc 3, .hacc 2, .cmd 2 0, .cmd 3 0, .ret 3 0 true, .done 3 true,
     .ret 2 0 true, .done 2 true, .cmd 0 2, .ret 0 2 true, .done 0 true,
     .mwait false, .fin 0 true, .fin 1 false, .fin 2 true, .fin 3 true, .root true] := by decide

theorem gLatch_wf : wf gLatch = true := by decide

end Goat.Pipeline
