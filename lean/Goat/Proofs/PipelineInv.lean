/-
Helper lemmas for properties C14/C16, part 2: the invariant of the pipeline model and the frame
lemmas (what a step of one thread cannot change for the others).
-/
import Goat.Proofs.Pipeline

namespace Goat.Pipeline

/-! ### Quantities read off a program counter -/

/-- commands with index below this bound may have been issued (none = no bound known) -/
def issued : PC → Option Nat
  | .idle => some 0
  | .rejected => some 0
  | .waiting _ => some 0
  | .run i => some i
  | .inCmd i => some (i + 1)
  | .afterCmd i => some (i + 1)
  | _ => none

def returned : PC → Option Nat
  | .idle => some 0
  | .rejected => some 0
  | .waiting _ => some 0
  | .run i => some i
  | .inCmd i => some i
  | .afterCmd i => some (i + 1)
  | _ => none

/-- commands below this bound have completed successfully (and the wait list was passed) -/
def okUpTo (g : Graph) (t : Nat) : PC → Option Nat
  | .run i => some i
  | .inCmd i => some i
  | .afterCmd i => some i
  | .closing true => some (g.body t).length
  | _ => none

def TG.rank : TG → Nat
  | .idle => 0
  | .waitBody => 1
  | .subFin _ => 2
  | .subFail _ => 3
  | .subSucc _ => 4
  | .done => 5

/-- the try block a body/handler task belongs to -/
def tryOf (g : Graph) (t : Nat) : Nat :=
  match g.role t with
  | .tbody y => y
  | .hsucc y => y
  | .hfail y => y
  | .hfin y => y
  | _ => 0

/-- evidence that the (single) submission of `t` has already been decided -/
def created (g : Graph) (tr : List Ev) (tgv : TG) (t : Nat) : Prop :=
  match g.role t with
  | .top => Ev.acc t ∈ tr ∨ Ev.rej t ∈ tr
  | .child p i => hasRet tr p i
  | .tbody y => hasRet tr (g.tryd y).owner (g.tryd y).idx
  | .hfin _ => 3 ≤ tgv.rank
  | .hfail _ => 4 ≤ tgv.rank
  | .hsucc _ => 5 ≤ tgv.rank

/-- event `e` can change a negative fact of the invariant of task `t` -/
def touches (g : Graph) (t : Nat) : Ev → Prop
  | .acc u => u = t
  | .rej u => u = t
  | .cmd u _ => u = t
  | .done u _ => u = t
  | .hacc u => u = t
  | .ret u i _ => u = t ∨ g.role t = .child u i ∨
      ∃ y, g.role t = .tbody y ∧ (g.tryd y).owner = u ∧ (g.tryd y).idx = i
  | _ => False

/-- the invariant of one task, as a predicate on the values it depends on -/
structure TI (g : Graph) (t : Nat) (pc : PC) (tr : List Ev) (ce : Bool) (tgv : TG) : Prop where
  range  : pc ≠ .idle → t < g.n
  once   : pc ≠ .idle → created g tr tgv t
  sub    : pc.accepted = true → submitted g tr t
  accEv  : pc.accepted = true → nameable g t → acceptedEv g tr t
  accEv' : acceptedEv g tr t → pc.accepted = true
  cmdB   : ∀ m, issued pc = some m → ∀ j, Ev.cmd t j ∈ tr → j < m
  retB   : ∀ m, returned pc = some m → ∀ j b, Ev.ret t j b ∈ tr → j < m
  okB    : ∀ m, okUpTo g t pc = some m → waitsOk g tr t ∧ ∀ j, j < m → cmdDoneOk g tr t j
  wait   : ∀ k, pc = .waiting k → ∀ j, j < k → ∀ w, (g.waits t)[j]? = some w → Ev.done w true ∈ tr
  inc    : ∀ i, pc = .inCmd i → i < (g.body t).length ∧ Ev.cmd t i ∈ tr
  aft    : ∀ i, pc = .afterCmd i → i < (g.body t).length ∧ Ev.ret t i true ∈ tr
  runB   : ∀ i, pc = .run i → i ≤ (g.body t).length
  clo    : ∀ f, pc = .closing f →
             (∀ i, i < (g.body t).length → Ev.cmd t i ∈ tr → hasRet tr t i) ∧
             (f = false → ce = true ∨ (selfStop g tr t ∧ ∀ j, Ev.cmd t j ∈ tr → cmdDoneOk g tr t j))
  nodone : pc ≠ .finished → ¬ hasDone tr t
  fin    : pc = .finished → hasDone tr t ∧ (Ev.cmd t 0 ∈ tr ∨ ce = true)
  df     : Ev.done t false ∈ tr → ce = true
  duniq  : ¬ (Ev.done t true ∈ tr ∧ Ev.done t false ∈ tr)

/-! ### Monotonicity of the trace predicates -/

theorem hasDone_mono {tr : List Ev} {t : Nat} (es : List Ev) (h : hasDone tr t) : hasDone (tr ++ es) t := by
  unfold hasDone at *
  rcases h with h | h
  · exact Or.inl (List.mem_append_left _ h)
  · exact Or.inr (List.mem_append_left _ h)

theorem hasRet_mono {tr : List Ev} {t i : Nat} (es : List Ev) (h : hasRet tr t i) : hasRet (tr ++ es) t i := by
  unfold hasRet at *
  rcases h with h | h
  · exact Or.inl (List.mem_append_left _ h)
  · exact Or.inr (List.mem_append_left _ h)

theorem hasMwait_mono {tr : List Ev} (es : List Ev) (h : hasMwait tr) : hasMwait (tr ++ es) := by
  unfold hasMwait at *
  rcases h with h | h
  · exact Or.inl (List.mem_append_left _ h)
  · exact Or.inr (List.mem_append_left _ h)

theorem causeIn_mono {g : Graph} {X : Nat} {tr : List Ev} (es : List Ev) (h : causeIn g X tr) :
    causeIn g X (tr ++ es) := by
  obtain ⟨e, he, hc⟩ := h
  exact ⟨e, List.mem_append_left _ he, hc⟩

theorem causeFor_mono {g : Graph} {t : Nat} {tr : List Ev} (es : List Ev) (h : causeFor g tr t) :
    causeFor g (tr ++ es) t := by
  rcases h with h | h
  · exact Or.inl (causeIn_mono es h)
  · exact Or.inr (causeIn_mono es h)

theorem submitted_mono {g : Graph} {tr : List Ev} {t : Nat} (es : List Ev) (h : submitted g tr t) :
    submitted g (tr ++ es) t := by
  unfold submitted at *
  split at h <;> first | exact List.mem_append_left _ h | exact hasDone_mono es h

theorem acceptedEv_mono {g : Graph} {tr : List Ev} {t : Nat} (es : List Ev) (h : acceptedEv g tr t) :
    acceptedEv g (tr ++ es) t := by
  unfold acceptedEv at *
  split at h <;> first | exact List.mem_append_left _ h | exact h

theorem waitsOk_mono {g : Graph} {tr : List Ev} {t : Nat} (es : List Ev) (h : waitsOk g tr t) :
    waitsOk g (tr ++ es) t := fun w hw => List.mem_append_left _ (h w hw)

theorem created_mono {g : Graph} {tr : List Ev} {tgv tgv' : TG} {t : Nat} (es : List Ev)
    (hr : tgv.rank ≤ tgv'.rank) (h : created g tr tgv t) : created g (tr ++ es) tgv' t := by
  unfold created at *
  split at h
  · rcases h with h | h
    · exact Or.inl (List.mem_append_left _ h)
    · exact Or.inr (List.mem_append_left _ h)
  · exact hasRet_mono es h
  · exact hasRet_mono es h
  · omega
  · omega
  · omega

/-- new events never close a task a second time -/
def FreshDone (tr es : List Ev) : Prop := ∀ u b, Ev.done u b ∈ es → ¬ hasDone tr u

theorem done_stable {tr es : List Ev} (hd : FreshDone tr es) {u : Nat} (h : hasDone tr u) (b : Bool) :
    Ev.done u b ∈ tr ++ es ↔ Ev.done u b ∈ tr := by
  constructor
  · intro hm
    rcases List.mem_append.mp hm with hm | hm
    · exact hm
    · exact absurd h (hd u b hm)
  · exact List.mem_append_left _

theorem selected_stable {g : Graph} {tr es : List Ev} (hd : FreshDone tr es) {y : Nat}
    (h : hasDone tr (g.tryd y).body) : selected g (tr ++ es) y = selected g tr y := by
  unfold selected
  simp only [done_stable hd h]

theorem cmdDoneOk_mono {g : Graph} {tr : List Ev} {t i : Nat} (es : List Ev) (hd : FreshDone tr es)
    (h : cmdDoneOk g tr t i) : cmdDoneOk g (tr ++ es) t i := by
  unfold cmdDoneOk at *
  refine ⟨List.mem_append_left _ h.1, ?_⟩
  have h2 := h.2
  split
  · rename_i c hc
    simp only [hc] at h2
    exact List.mem_append_left _ h2
  · rename_i y hc
    simp only [hc] at h2
    refine ⟨hasDone_mono es h2.1, ?_⟩
    rw [selected_stable hd h2.1]
    exact fun hh hm => List.mem_append_left _ (h2.2 hh hm)
  · trivial

/-! ### The frame lemma: a step that neither moves task `t` nor emits an event touching it -/

theorem TI.frame {g : Graph} {t : Nat} {pc : PC} {tr : List Ev} {ce : Bool} {tgv : TG}
    (h : TI g t pc tr ce tgv) {es : List Ev} {ce' : Bool} {tgv' : TG}
    (hno : ∀ e ∈ es, ¬ touches g t e) (hd : FreshDone tr es)
    (hce : ce = true → ce' = true) (htg : tgv.rank ≤ tgv'.rank) :
    TI g t pc (tr ++ es) ce' tgv' := by
  have memOld : ∀ e, touches g t e → e ∈ tr ++ es → e ∈ tr := by
    intro e ht hm
    rcases List.mem_append.mp hm with hm | hm
    · exact hm
    · exact absurd ht (hno e hm)
  refine ⟨h.range, fun hp => created_mono es htg (h.once hp), fun hp => submitted_mono es (h.sub hp),
    fun hp hn => acceptedEv_mono es (h.accEv hp hn), ?_, ?_, ?_, ?_, ?_, ?_, ?_, h.runB, ?_, ?_, ?_, ?_, ?_⟩
  · intro ha
    apply h.accEv'
    unfold acceptedEv at *
    split at ha
    · exact memOld _ (by simp [touches]) ha
    · rename_i p i hr
      exact memOld _ (by simp [touches, hr]) ha
    · rename_i y hr
      exact memOld _ (by simp [touches, hr]) ha
    · exact ha
  · intro m hm j hj
    exact h.cmdB m hm j (memOld _ (by simp [touches]) hj)
  · intro m hm j b hj
    exact h.retB m hm j b (memOld _ (by simp [touches]) hj)
  · intro m hm
    have := h.okB m hm
    exact ⟨waitsOk_mono es this.1, fun j hj => cmdDoneOk_mono es hd (this.2 j hj)⟩
  · intro k hk j hj w hw
    exact List.mem_append_left _ (h.wait k hk j hj w hw)
  · intro i hi
    exact ⟨(h.inc i hi).1, List.mem_append_left _ (h.inc i hi).2⟩
  · intro i hi
    exact ⟨(h.aft i hi).1, List.mem_append_left _ (h.aft i hi).2⟩
  · intro f hf
    refine ⟨fun i hi hc => hasRet_mono es ((h.clo f hf).1 i hi (memOld _ (by simp [touches]) hc)), ?_⟩
    intro hff
    rcases (h.clo f hf).2 hff with h1 | ⟨⟨h0, i, hi, hc, hm⟩, h2⟩
    · exact Or.inl (hce h1)
    · exact Or.inr ⟨⟨List.mem_append_left _ h0, i, hi, hc, List.mem_append_left _ hm⟩,
        fun j hj => cmdDoneOk_mono es hd (h2 j (memOld _ (by simp [touches]) hj))⟩
  · intro hp hdn
    apply h.nodone hp
    unfold hasDone at *
    rcases hdn with hdn | hdn
    · exact Or.inl (memOld _ (by simp [touches]) hdn)
    · exact Or.inr (memOld _ (by simp [touches]) hdn)
  · intro hp
    have := h.fin hp
    refine ⟨hasDone_mono es this.1, ?_⟩
    rcases this.2 with h2 | h2
    · exact Or.inl (List.mem_append_left _ h2)
    · exact Or.inr (hce h2)
  · intro hdf
    exact hce (h.df (memOld _ (by simp [touches]) hdf))
  · intro hdu
    exact h.duniq ⟨memOld _ (by simp [touches]) hdu.1, memOld _ (by simp [touches]) hdu.2⟩

/-! ### The invariants of a try block, of the main thread, and the cross invariants -/

abbrev TIs (g : Graph) (s : St) (u : Nat) : Prop :=
  TI g u (s.pc u) s.tr (s.cerr (g.ctx u)) (s.tg (tryOf g u))

/-- the submission of handler `h` of try `y` is visible in the trace: it was accepted (`hacc`, and the
task exists), or some submission of this try was refused (`hrej`; the try goroutine then stopped) -/
def subSeen (g : Graph) (s : St) (y h : Nat) : Prop :=
  ((s.pc h).accepted = true ∧ Ev.hacc h ∈ s.tr) ∨ ∃ h' ∈ g.handlers y, Ev.hrej h' ∈ s.tr

structure YI (g : Graph) (s : St) (y : Nat) : Prop where
  started : s.tg y ≠ .idle → Ev.ret (g.tryd y).owner (g.tryd y).idx true ∈ s.tr
  bodyAcc : s.tg y = .waitBody → (s.pc (g.tryd y).body).accepted = true
  v       : ∀ v, (s.tg y = .subFin v ∨ s.tg y = .subFail v ∨ s.tg y = .subSucc v) →
              hasDone s.tr (g.tryd y).body ∧ (v = true ↔ Ev.done (g.tryd y).body true ∈ s.tr)
  dn      : s.tg y = .done → hasDone s.tr (g.tryd y).body
  finAcc  : 3 ≤ (s.tg y).rank → ∀ h, (g.tryd y).fin = some h →
              (s.pc h).accepted = true ∨ s.cerr (g.ctx (g.tryd y).owner) = true
  failAcc : 4 ≤ (s.tg y).rank → Ev.done (g.tryd y).body false ∈ s.tr → ∀ h, (g.tryd y).fail = some h →
              (s.pc h).accepted = true ∨ s.cerr (g.ctx (g.tryd y).owner) = true
  succAcc : 5 ≤ (s.tg y).rank → Ev.done (g.tryd y).body true ∈ s.tr → ∀ h, (g.tryd y).succ = some h →
              (s.pc h).accepted = true ∨ s.cerr (g.ctx (g.tryd y).owner) = true
  finSub  : 3 ≤ (s.tg y).rank → ∀ h, (g.tryd y).fin = some h → subSeen g s y h
  failSub : 4 ≤ (s.tg y).rank → Ev.done (g.tryd y).body false ∈ s.tr → ∀ h, (g.tryd y).fail = some h →
              subSeen g s y h
  succSub : 5 ≤ (s.tg y).rank → Ev.done (g.tryd y).body true ∈ s.tr → ∀ h, (g.tryd y).succ = some h →
              subSeen g s y h
  active  : s.tg y ≠ .idle → s.tg y ≠ .done → s.pc (g.tryd y).owner = .afterCmd (g.tryd y).idx
  started' : Ev.ret (g.tryd y).owner (g.tryd y).idx true ∈ s.tr → s.tg y ≠ .idle

structure MI (g : Graph) (s : St) : Prop where
  early : ∀ j, (s.mp = .sub j ∨ s.mp = .create j) → ∀ t, (Ev.acc t ∈ s.tr ∨ Ev.rej t ∈ s.tr) →
            ∃ j', j' < j ∧ g.top[j']? = some t
  cr    : ∀ j, s.mp = .create j → ∃ t, g.top[j]? = some t ∧ Ev.sub t ∈ s.tr
  mw    : ((∃ t, s.mp = .fins t) ∨ s.mp = .finished) → hasMwait s.tr

/-- the command that submits a task: (task, command index) -/
def parentOf (g : Graph) (u : Nat) : Option (Nat × Nat) :=
  match g.role u with
  | .top => none
  | .child p i => some (p, i)
  | .tbody y => some ((g.tryd y).owner, (g.tryd y).idx)
  | .hsucc y => some ((g.tryd y).owner, (g.tryd y).idx)
  | .hfail y => some ((g.tryd y).owner, (g.tryd y).idx)
  | .hfin y => some ((g.tryd y).owner, (g.tryd y).idx)

/-- where the submitter of a task is while the task runs: blocked in the command that submitted it -/
def parentAt (g : Graph) (s : St) (u : Nat) : Prop :=
  ∀ p i, parentOf g u = some (p, i) → s.pc p = .afterCmd i

/-- a task that is accepted and has not closed keeps its submitter blocked -/
def X3 (g : Graph) (s : St) : Prop :=
  ∀ u, (s.pc u).accepted = true → s.pc u ≠ .finished → parentAt g s u

/-- a context with an error has a task that is still running or has closed with an error -/
def I3 (g : Graph) (s : St) : Prop :=
  ∀ X, s.cerr X = true → ∃ u, g.ctx u = X ∧ (s.pc u).accepted = true ∧
    (s.pc u ≠ .finished ∨ Ev.done u false ∈ s.tr)

structure Inv (g : Graph) (s : St) : Prop where
  ti : ∀ u, TIs g s u
  yi : ∀ y, y < g.tries.length → YI g s y
  x3 : X3 g s
  mi : MI g s
  i2 : ∀ X, s.cerr X = true → causeIn g X s.tr ∨ causeIn g 0 s.tr
  ok : TraceOk g s.tr
  tgr : ∀ y, s.tg y ≠ .idle → y < g.tries.length
  i3 : I3 g s
  ha : ∀ h, Ev.hacc h ∈ s.tr → (s.pc h).accepted = true

end Goat.Pipeline
