/-
Helper lemmas for property C14, part 8: the defect of the pinned tree.  In the model of the code
before fix a91657e (`sysOld`) one rejected submission is enough for `TasksManager.Wait` never to
return: no schedule produces an `mwait` event.
-/
import Goat.Model.Pipeline
import Goat.Base.LTS

namespace Goat.Pipeline

/-- one top-level task whose wait list names a task that does not exist -/
def gLatch : Graph := ⟨[⟨.top, 0, 0, [900], [.probe]⟩], [], [0]⟩

/-- what is reachable in the pre-fix model of `gLatch` -/
def LatchInv (s : St) : Prop :=
  (∀ b, Ev.mwait b ∉ s.tr) ∧ (∀ y, s.tg y = .idle) ∧ (∀ t, t ≠ 0 → s.pc t = .idle) ∧
  (((s.mp = .sub 0 ∨ s.mp = .create 0) ∧ s.pc 0 = .idle) ∨ ((s.mp = .sub 1 ∨ s.mp = .wait) ∧ s.pc 0 = .rejected))

theorem latch_canCreate (s : St) : canCreate gLatch s 0 = false := by
  have hw : gLatch.waits 0 = [900] := rfl
  have hin : inTable gLatch s 900 = false := by
    simp [inTable, gLatch, Graph.n]
  unfold canCreate
  rw [hw, show (101 : Nat) = 100 + 1 from rfl, validWL]
  simp [hin]

theorem latch_step {s s' : St} (hJ : LatchInv s) (l : Label) (h : stepOld gLatch s l = some s') :
    LatchInv s' := by
  obtain ⟨h1, h2, h3, h4⟩ := hJ
  have hnotask : ∀ t, stepTask gLatch s t = none := by
    intro t
    by_cases ht : t = 0
    · subst ht
      rcases h4 with ⟨_, hp⟩ | ⟨_, hp⟩ <;> simp [stepTask, hp]
    · simp [stepTask, h3 t ht]
  cases l with
  | task t => simp [stepOld, step, hnotask] at h
  | stop t =>
    simp only [stepOld, step, stepStop] at h
    by_cases ht : t = 0
    · subst ht
      rcases h4 with ⟨_, hp⟩ | ⟨_, hp⟩ <;> simp [hp] at h
    · simp [h3 t ht] at h
  | tryg y => simp [stepOld, step, stepTry, h2 y] at h
  | main =>
    simp only [stepOld, stepMainOld] at h
    rcases h4 with ⟨hm | hm, hp⟩ | ⟨hm | hm, hp⟩
    · -- sub 0
      simp [hm, stepMain, gLatch, emit] at h
      subst h
      refine ⟨?_, h2, h3, Or.inl ⟨Or.inr rfl, hp⟩⟩
      intro b hb; simp at hb; exact h1 b hb
    · -- create 0
      simp [hm, stepMain] at h
      have htop : gLatch.top[0]? = some 0 := rfl
      simp [htop, latch_canCreate, emit] at h
      subst h
      refine ⟨?_, h2, ?_, Or.inr ⟨Or.inl rfl, by simp [upd]⟩⟩
      · intro b hb; simp at hb; exact h1 b hb
      · intro t ht; simp [upd, ht]; exact h3 t ht
    · -- sub 1
      simp [hm, stepMain, gLatch] at h
      subst h
      exact ⟨h1, h2, h3, Or.inr ⟨Or.inr rfl, hp⟩⟩
    · -- wait: the rejected entry never releases its latch
      simp [hm, allFinishedOld, gLatch, Graph.n, hp, List.range, List.range.loop] at h

theorem latch_init : LatchInv init := by
  refine ⟨by simp [init], by simp [init], by simp [init], Or.inl ⟨Or.inl rfl, rfl⟩⟩

/-- pre-fix model: after the rejected submission no schedule lets `Wait` return -/
theorem latch_never_returns (sched : List Label) (b : Bool) :
    Ev.mwait b ∉ ((sysOld gLatch).run sched).tr :=
  (LTS.inv_run (sysOld gLatch) LatchInv latch_init (fun _ i _ hJ hs => latch_step hJ i hs) sched).1 b

end Goat.Pipeline
