/-
Helper lemmas for properties C14/C16, part 6: deadlock freedom.  In every reachable state in which
the main thread has not finished some thread can move.  The argument follows the waits-for chain:
a task waits for an entry of its wait list (same nesting depth, accepted strictly earlier) or for
something it submitted itself (one level deeper), so the chain ends.
-/
import Goat.Proofs.PipelineTrace

set_option linter.unusedSimpArgs false
set_option linter.unusedVariables false

namespace Goat.Pipeline

/-! ### Position of the first occurrence of an event -/

def firstIdx (e : Ev) : List Ev → Nat
  | [] => 0
  | x :: xs => if x = e then 0 else firstIdx e xs + 1

theorem firstIdx_lt_of_mem {e : Ev} {pre : List Ev} (rest : List Ev) (h : e ∈ pre) :
    firstIdx e (pre ++ rest) < pre.length := by
  induction pre with
  | nil => cases h
  | cons x xs ih =>
    simp only [List.cons_append, firstIdx, List.length_cons]
    split
    · omega
    · rename_i hx
      have : e ∈ xs := by
        rcases List.mem_cons.mp h with h1 | h1
        · exact absurd h1.symm hx
        · exact h1
      have := ih this
      omega

theorem firstIdx_eq_of_not_mem {e : Ev} {pre : List Ev} (post : List Ev) (h : e ∉ pre) :
    firstIdx e (pre ++ e :: post) = pre.length := by
  induction pre with
  | nil => simp [firstIdx]
  | cons x xs ih =>
    simp only [List.cons_append, firstIdx, List.length_cons]
    have hx : x ≠ e := fun hh => h (by rw [hh]; simp)
    have hxs : e ∉ xs := fun hh => h (List.mem_cons_of_mem _ hh)
    rw [if_neg hx, ih hxs]

/-- split a list at the first occurrence of an element -/
theorem first_split {e : Ev} {l : List Ev} (h : e ∈ l) : ∃ pre post, l = pre ++ e :: post ∧ e ∉ pre := by
  induction l with
  | nil => cases h
  | cons x xs ih =>
    by_cases hx : x = e
    · exact ⟨[], xs, by rw [hx]; rfl, by simp⟩
    · have : e ∈ xs := by
        rcases List.mem_cons.mp h with h1 | h1
        · exact absurd h1.symm hx
        · exact h1
      obtain ⟨p, q, hs, hn⟩ := ih this
      refine ⟨x :: p, q, by rw [hs]; rfl, ?_⟩
      intro hm
      rcases List.mem_cons.mp hm with h1 | h1
      · exact hx h1.symm
      · exact hn h1

/-! ### Depth bound -/

def maxD (g : Graph) : Nat → Nat
  | 0 => 0
  | k + 1 => max (maxD g k) (g.depth k)

theorem depth_le_maxD (g : Graph) : ∀ k t, t < k → g.depth t ≤ maxD g k := by
  intro k
  induction k with
  | zero => intro t h; omega
  | succ k ih =>
    intro t h
    simp only [maxD]
    rcases Nat.lt_or_ge t k with h1 | h1
    · have := ih t h1; omega
    · have : t = k := by omega
      subst this; omega

/-! ### The acceptance event of a task that can be named in a wait list -/

def accEvOf (g : Graph) (u : Nat) : Ev :=
  match g.role u with
  | .child p i => .ret p i true
  | _ => .acc u

theorem acceptedEv_iff_nameable {g : Graph} {tr : List Ev} {u : Nat} (h : nameable g u) :
    acceptedEv g tr u ↔ accEvOf g u ∈ tr := by
  unfold acceptedEv accEvOf
  rcases h with h | ⟨p, i, h⟩ <;> rw [h]

/-- the entries of the wait list of an accepted task were accepted strictly earlier -/
theorem wait_earlier {g : Graph} {s : St} (hw : WF g) (hI : Inv g s) {u w : Nat}
    (hu : (s.pc u).accepted = true) (hwm : w ∈ g.waits u) :
    nameable g u ∧ nameable g w ∧ (s.pc w).accepted = true ∧ g.depth w = g.depth u ∧
    firstIdx (accEvOf g w) s.tr < firstIdx (accEvOf g u) s.tr := by
  have U := hI.ti u
  have hun : u < g.n := U.range (by intro h0; rw [h0] at hu; cases hu)
  -- a task with a wait list is submitted by name
  have hnu : nameable g u := by
    unfold nameable
    cases hr : g.role u with
    | top => exact Or.inl rfl
    | child p i => exact Or.inr ⟨p, i, rfl⟩
    | tbody y => have := (hw.tbody hun hr).2.2.2.2; rw [this] at hwm; cases hwm
    | hsucc y => have := (hw.hsucc hun hr).2.2.2.2; rw [this] at hwm; cases hwm
    | hfail y => have := (hw.hfail hun hr).2.2.2.2; rw [this] at hwm; cases hwm
    | hfin y => have := (hw.hfin hun hr).2.2.2.2; rw [this] at hwm; cases hwm
  have hacc := (acceptedEv_iff_nameable hnu).mp (U.accEv hu hnu)
  obtain ⟨pre, post, hs, hnp⟩ := first_split hacc
  have hok := hI.ok pre _ post hs
  -- at its acceptance event the wait list was checked
  have hwacc : acceptedEv g pre w := by
    unfold accEvOf at hok hs
    rcases hnu with hr | ⟨p, i, hr⟩
    · rw [hr] at hok; exact hok.2 w hwm
    · rw [hr] at hok
      have hcmd := (hw.child hun hr).1
      have := hok.2.2.2
      unfold retOk at this
      rw [hcmd] at this
      exact this rfl w hwm
  have hwacc' : acceptedEv g s.tr w := by rw [hs]; exact acceptedEv_mono _ hwacc
  have hwa : (s.pc w).accepted = true := (hI.ti w).accEv' hwacc'
  have hwn : w < g.n := (hI.ti w).range (by intro h0; rw [h0] at hwa; cases hwa)
  rcases hw.wait_cases hun hwm with h1 | ⟨hnw, hd, _⟩
  · omega
  · refine ⟨hnu, hnw, hwa, hd, ?_⟩
    have hwin : accEvOf g w ∈ pre := (acceptedEv_iff_nameable hnw).mp hwacc
    rw [hs, firstIdx_eq_of_not_mem post hnp]
    exact firstIdx_lt_of_mem _ hwin

/-! ### Some thread can always move -/

def Enabled (g : Graph) (s : St) : Prop := ∃ l, (step g s l).isSome = true

theorem enabled_task {g : Graph} {s : St} {t : Nat} (h : (stepTask g s t).isSome = true) : Enabled g s :=
  ⟨.task t, h⟩

/-- an accepted, unfinished task either can move itself or waits for something that can -/
theorem enabled_of_unfinished {g : Graph} {s : St} (hw : WF g) (hI : Inv g s) :
    ∀ d n u, maxD g g.n - g.depth u = d → firstIdx (accEvOf g u) s.tr = n →
      (s.pc u).accepted = true → s.pc u ≠ .finished → Enabled g s := by
  intro d
  induction d using Nat.strongRecOn with
  | _ d ihd =>
  intro n
  induction n using Nat.strongRecOn with
  | _ n ihn =>
  intro u hd hn ha hf
  have U := hI.ti u
  have hun : u < g.n := U.range (by intro h0; rw [h0] at ha; cases ha)
  have hdu : g.depth u ≤ maxD g g.n := depth_le_maxD g g.n u hun
  -- something submitted from the body of `u` that is accepted and unfinished can move (deeper)
  have deeper : ∀ c, c < g.n → g.depth c = g.depth u + 1 → (s.pc c).accepted = true →
      s.pc c ≠ .finished → Enabled g s := by
    intro c hc hdc hca hcf
    have hdc' : g.depth c ≤ maxD g g.n := depth_le_maxD g g.n c hc
    exact ihd (maxD g g.n - g.depth c) (by omega) _ c rfl rfl hca hcf
  cases hpc : s.pc u with
  | idle => rw [hpc] at ha; cases ha
  | rejected => rw [hpc] at ha; cases ha
  | finished => exact absurd hpc hf
  | closing f => exact enabled_task (t := u) (by simp [stepTask, hpc])
  | run i =>
    apply enabled_task (t := u)
    simp only [stepTask, hpc]
    split <;> rfl
  | inCmd i =>
    unfold TIs at U; rw [hpc] at U
    obtain ⟨c, hc⟩ := cmdAt_some_of_lt (U.inc i rfl).1
    apply enabled_task (t := u)
    simp only [stepTask, hpc, hc]
    cases c <;> simp <;> split <;> rfl
  | waiting k =>
    cases hk : (g.waits u)[k]? with
    | none => exact enabled_task (t := u) (by simp [stepTask, hpc, hk])
    | some w =>
      by_cases hwf : s.pc w = .finished
      · apply enabled_task (t := u)
        simp only [stepTask, hpc, hk, hwf, beq_self_eq_true, if_true]
        split <;> rfl
      · obtain ⟨_, _, hwa, hdw, hlt⟩ := wait_earlier hw hI ha (List.mem_of_getElem? hk)
        exact ihn _ (by rw [← hn]; exact hlt) w (by rw [hdw]; exact hd) rfl hwa hwf
  | afterCmd i =>
    unfold TIs at U; rw [hpc] at U
    obtain ⟨hil, hret⟩ := U.aft i rfl
    obtain ⟨c, hc⟩ := cmdAt_some_of_lt hil
    by_cases hg : cmdChildrenFinished g s c = true
    · apply enabled_task (t := u)
      simp only [stepTask, hpc, hc, hg, if_true]
      split <;> rfl
    · cases c with
      | probe => simp [cmdChildrenFinished] at hg
      | fail => simp [cmdChildrenFinished] at hg
      | stop => simp [cmdChildrenFinished] at hg
      | spawn c =>
        simp only [cmdChildrenFinished, beq_iff_eq] at hg
        obtain ⟨hcn, hcr⟩ := hw.spawn hun hc
        have hca : (s.pc c).accepted = true := by
          apply (hI.ti c).accEv'; unfold acceptedEv; rw [hcr]; exact hret
        exact deeper c hcn (hw.child hcn hcr).2.1 hca hg
      | try_ y =>
        obtain ⟨hy, ho, hix⟩ := hw.tryc hun hc
        obtain ⟨_, _, hbn, hbr⟩ := hw.tryOwner hy
        have Y := hI.yi y hy
        have hba : (s.pc (g.tryd y).body).accepted = true := by
          apply (hI.ti _).accEv'; unfold acceptedEv; rw [hbr]; simp only; rw [ho, hix]; exact hret
        have hbd : g.depth (g.tryd y).body = g.depth u + 1 := by
          rw [(hw.tbody hbn hbr).2.2.2.1, ho]
        by_cases hbf : s.pc (g.tryd y).body = .finished
        · -- the body has closed: the try goroutine or a handler can move
          have hst : s.tg y ≠ .idle := Y.started' (by rw [ho, hix]; exact hret)
          cases htg : s.tg y with
          | idle => exact absurd htg hst
          | waitBody => exact ⟨.tryg y, by simp [step, stepTry, htg, hbf]⟩
          | subFin v => exact ⟨.tryg y, by simp [step, stepTry, htg]⟩
          | subFail v => exact ⟨.tryg y, by simp [step, stepTry, htg]⟩
          | subSucc v => exact ⟨.tryg y, by simp [step, stepTry, htg]⟩
          | done =>
            -- some accepted handler has not finished
            simp only [cmdChildrenFinished, htg, hbf, beq_self_eq_true, Bool.true_and] at hg
            have : ∃ h ∈ g.handlers y, (s.pc h).accepted = true ∧ s.pc h ≠ .finished := by
              apply Classical.byContradiction
              intro hcon
              apply hg
              rw [List.all_eq_true]
              intro h hh
              cases hha : (s.pc h).accepted
              · rfl
              · simp only [Bool.not_true, Bool.false_or, beq_iff_eq]
                apply Classical.byContradiction
                intro hne
                exact hcon ⟨h, hh, hha, hne⟩
            obtain ⟨h, hh, hha, hhf⟩ := this
            obtain ⟨hhn, _, _⟩ := handler_facts hw hy hh
            have hhd : g.depth h = g.depth u + 1 := by
              obtain ⟨h1, h2, h3⟩ := hw.tryHandlers hy
              rcases mem_handlers.mp hh with hx | hx | hx
              · rw [(hw.hfin hhn (h3 h hx).2).2.2.2.1, ho]
              · rw [(hw.hfail hhn (h2 h hx).2).2.2.2.1, ho]
              · rw [(hw.hsucc hhn (h1 h hx).2).2.2.2.1, ho]
            exact deeper h hhn hhd hha hhf
        · exact deeper _ hbn hbd hba hbf

/-- deadlock freedom: while the main thread has not finished, some thread can move -/
theorem progress {g : Graph} {s : St} (hw : WF g) (hI : Inv g s) (hm : s.mp ≠ .finished) : Enabled g s := by
  cases hmp : s.mp with
  | finished => exact absurd hmp hm
  | sub j =>
    refine ⟨.main, ?_⟩
    simp only [step, stepMain, hmp]
    split <;> rfl
  | create j =>
    obtain ⟨t, ht, _⟩ := hI.mi.cr j hmp
    refine ⟨.main, ?_⟩
    simp only [step, stepMain, hmp, ht]
    split <;> rfl
  | fins t =>
    refine ⟨.main, ?_⟩
    simp only [step, stepMain, hmp]
    split
    · split <;> rfl
    · rfl
  | wait =>
    by_cases hall : allFinished g s = true
    · exact ⟨.main, by simp [step, stepMain, hmp, hall]⟩
    · have : ∃ u, (s.pc u).accepted = true ∧ s.pc u ≠ .finished := by
        apply Classical.byContradiction
        intro hcon
        apply hall
        unfold allFinished
        rw [List.all_eq_true]
        intro u _
        cases hua : (s.pc u).accepted
        · rfl
        · simp only [Bool.not_true, Bool.false_or, beq_iff_eq]
          apply Classical.byContradiction
          intro hne
          exact hcon ⟨u, hua, hne⟩
      obtain ⟨u, hua, huf⟩ := this
      exact enabled_of_unfinished hw hI _ _ u rfl rfl hua huf

end Goat.Pipeline
