/-
Helper lemmas for property C16, part 8: the pipeline model under a steering policy of the harness's
gate controller (`Model/Pipeline.lean`, "Steered schedules").  Deadlock freedom survives every
policy: a handler that is held in its first command waits for a handler of the SAME try block that
is itself never held, and that handler can be driven to its first command / its close without the
held one (`progressS`).  Hence the controller's time-out never fires (`no_stall`).
-/
import Goat.Proofs.PipelineTerm

set_option linter.unusedSimpArgs false
set_option linter.unusedVariables false

namespace Goat.Pipeline

variable {g : Graph} {pol : Nat → Steer}

/-- some label is enabled and not held back by the controller -/
def EnabledS (g : Graph) (pol : Nat → Steer) (s : St) : Prop :=
  ∃ l, blocked g pol s l = false ∧ (step g s l).isSome = true

theorem blocked_tryg (s : St) (y : Nat) : blocked g pol s (.tryg y) = false := rfl
theorem blocked_main (s : St) : blocked g pol s .main = false := rfl

theorem not_blocked_of_pc {s : St} {u : Nat} (h : s.pc u ≠ .inCmd 0) : blocked g pol s (.task u) = false := by
  have : (s.pc u == PC.inCmd 0) = false := by
    cases hq : s.pc u == PC.inCmd 0
    · rfl
    · exact absurd (by simpa using hq) h
  simp only [blocked, this, Bool.false_and]

/-- what it means for the runner of `h` to be held -/
theorem blocked_task {s : St} {h : Nat} (hb : blocked g pol s (.task h) = true) :
    s.pc h = .inCmd 0 ∧ ∃ y w d, heldFor g pol s.tr h = some (y, w, d) ∧ fateSeen g s.tr y w d = false := by
  unfold blocked at hb
  simp only [Bool.and_eq_true, beq_iff_eq] at hb
  refine ⟨hb.1, ?_⟩
  have h2 := hb.2
  split at h2
  · rename_i y w d heq
    exact ⟨y, w, d, heq, by simpa using h2⟩
  · cases h2

/-- the two ways a handler can be held -/
theorem heldFor_cases {tr : List Ev} {h y w : Nat} {d : Bool} (hh : heldFor g pol tr h = some (y, w, d)) :
    (g.role h = .hfin y ∧ pol y = .holdFin d ∧ selectedH g tr y = some w) ∨
    ((g.role h = .hfail y ∨ g.role h = .hsucc y) ∧ pol y = .holdSel d ∧ (g.tryd y).fin = some w) := by
  unfold heldFor at hh
  split at hh
  · rename_i y' hr
    split at hh
    · rename_i d' hp
      cases hs : selectedH g tr y' with
      | none => rw [hs] at hh; cases hh
      | some w' => rw [hs] at hh; simp at hh; obtain ⟨rfl, rfl, rfl⟩ := hh; exact Or.inl ⟨hr, hp, hs⟩
    · cases hh
  · rename_i y' hr
    split at hh
    · rename_i d' hp
      cases hs : (g.tryd y').fin with
      | none => rw [hs] at hh; cases hh
      | some w' => rw [hs] at hh; simp at hh; obtain ⟨rfl, rfl, rfl⟩ := hh; exact Or.inr ⟨Or.inl hr, hp, hs⟩
    · cases hh
  · rename_i y' hr
    split at hh
    · rename_i d' hp
      cases hs : (g.tryd y').fin with
      | none => rw [hs] at hh; cases hh
      | some w' => rw [hs] at hh; simp at hh; obtain ⟨rfl, rfl, rfl⟩ := hh; exact Or.inr ⟨Or.inr hr, hp, hs⟩
    · cases hh
  · cases hh

theorem selectedH_cases {tr : List Ev} {y w : Nat} (h : selectedH g tr y = some w) :
    (Ev.done (g.tryd y).body false ∈ tr ∧ (g.tryd y).fail = some w) ∨
    (Ev.done (g.tryd y).body true ∈ tr ∧ (g.tryd y).succ = some w) := by
  unfold selectedH at h
  split at h
  · rename_i hd; exact Or.inl ⟨hd, h⟩
  · split at h
    · rename_i hd; exact Or.inr ⟨hd, h⟩
    · cases h

/-- a task that is not a handler is never held -/
theorem not_blocked_of_nameable {s : St} {u : Nat} (hn : nameable g u) : blocked g pol s (.task u) = false := by
  cases hb : blocked g pol s (.task u)
  · rfl
  · obtain ⟨_, y, w, d, hh, _⟩ := blocked_task hb
    rcases heldFor_cases hh with ⟨hr, _, _⟩ | ⟨hr | hr, _, _⟩ <;>
      rcases hn with h | ⟨p, i, h⟩ <;> rw [h] at hr <;> cases hr

theorem fateSeen_false {tr : List Ev} {y w : Nat} {d : Bool} (h : fateSeen g tr y w d = false) :
    ¬ hasDone tr w ∧ ∀ h' ∈ g.handlers y, Ev.hrej h' ∉ tr := by
  unfold fateSeen at h
  simp only [Bool.or_eq_false_iff, decide_eq_false_iff_not, List.any_eq_false, decide_eq_true_eq] at h
  exact ⟨h.1.2, fun h' hm => h.2 h' hm⟩

/-- the handler awaited by a held handler: same try, same depth, never held, and — as soon as the try
goroutine has got to it — an accepted task that has not closed -/
theorem awaited {s : St} (hw : WF g) (hI : Inv g s) {h : Nat} (hb : blocked g pol s (.task h) = true) :
    ∃ y w, y < g.tries.length ∧ w < g.n ∧ g.depth w = g.depth h ∧ blocked g pol s (.task w) = false ∧
      ((step g s (.tryg y)).isSome = true ∨ ((s.pc w).accepted = true ∧ s.pc w ≠ .finished)) := by
  obtain ⟨hpc, y, w, d, hh, hfs⟩ := blocked_task hb
  obtain ⟨hnd, hnr⟩ := fateSeen_false hfs
  have hacc : (s.pc h).accepted = true := by rw [hpc]; rfl
  have H := hI.ti h
  have hn : h < g.n := H.range (by rw [hpc]; simp)
  have hcr := H.once (by rw [hpc]; simp)
  -- an accepted, unclosed `w`
  have live : ∀ y w, y < g.tries.length → w ∈ g.handlers y → subSeen g s y w →
      (∀ h' ∈ g.handlers y, Ev.hrej h' ∉ s.tr) → ¬ hasDone s.tr w → (s.pc w).accepted = true ∧ s.pc w ≠ .finished := by
    intro y w hy hm hs hnr hnd
    rcases hs with ⟨ha, _⟩ | ⟨h', hm', hr⟩
    · exact ⟨ha, fun hf => hnd ((hI.ti w).fin hf).1⟩
    · exact absurd hr (hnr h' hm')
  rcases heldFor_cases hh with ⟨hr, hp, hsel⟩ | ⟨hr, hp, hfin⟩
  · -- the finally handler is held, the selected handler is awaited
    obtain ⟨hy, _, _, hdh, _⟩ := hw.hfin hn hr
    have Y := hI.yi y hy
    obtain ⟨h1, h2, h3⟩ := hw.tryHandlers hy
    have htof : tryOf g h = y := by unfold tryOf; rw [hr]
    have hrk : 3 ≤ (s.tg y).rank := by
      unfold TIs at H; rw [htof] at H
      have := H.once (by rw [hpc]; simp)
      unfold created at this; rw [hr] at this; exact this
    have wfacts : w < g.n ∧ g.depth w = g.depth h ∧ blocked g pol s (.task w) = false ∧ w ∈ g.handlers y := by
      rcases selectedH_cases hsel with ⟨_, hf⟩ | ⟨_, hf⟩
      · obtain ⟨a, b⟩ := h2 w hf
        refine ⟨a, by rw [(hw.hfail a b).2.2.2.1, hdh], ?_, mem_handlers.mpr (Or.inr (Or.inl hf))⟩
        cases hbw : blocked g pol s (.task w)
        · rfl
        · obtain ⟨_, y', w', d', hh', _⟩ := blocked_task hbw
          rcases heldFor_cases hh' with ⟨hr', _, _⟩ | ⟨hr' | hr', hp', _⟩
          · rw [b] at hr'; cases hr'
          · rw [b] at hr'; cases hr'; rw [hp] at hp'; cases hp'
          · rw [b] at hr'; cases hr'
      · obtain ⟨a, b⟩ := h1 w hf
        refine ⟨a, by rw [(hw.hsucc a b).2.2.2.1, hdh], ?_, mem_handlers.mpr (Or.inr (Or.inr hf))⟩
        cases hbw : blocked g pol s (.task w)
        · rfl
        · obtain ⟨_, y', w', d', hh', _⟩ := blocked_task hbw
          rcases heldFor_cases hh' with ⟨hr', _, _⟩ | ⟨hr' | hr', hp', _⟩
          · rw [b] at hr'; cases hr'
          · rw [b] at hr'; cases hr'
          · rw [b] at hr'; cases hr'; rw [hp] at hp'; cases hp'
    refine ⟨y, w, hy, wfacts.1, wfacts.2.1, wfacts.2.2.1, ?_⟩
    cases htg : s.tg y with
    | idle => rw [htg] at hrk; simp [TG.rank] at hrk
    | waitBody => rw [htg] at hrk; simp [TG.rank] at hrk
    | subFin v => rw [htg] at hrk; simp [TG.rank] at hrk
    | subFail v => exact Or.inl (by simp [step, stepTry, htg])
    | subSucc v => exact Or.inl (by simp [step, stepTry, htg])
    | done =>
      refine Or.inr (live y w hy wfacts.2.2.2 ?_ hnr hnd)
      rcases selectedH_cases hsel with ⟨hd, hf⟩ | ⟨hd, hf⟩
      · exact Y.failSub (by rw [htg]; simp [TG.rank]) hd w hf
      · exact Y.succSub (by rw [htg]; simp [TG.rank]) hd w hf
  · -- the selected handler is held, the finally handler is awaited
    have hy : y < g.tries.length := by
      rcases hr with hr | hr
      · exact (hw.hfail hn hr).1
      · exact (hw.hsucc hn hr).1
    have hdh : g.depth h = g.depth (g.tryd y).owner + 1 := by
      rcases hr with hr | hr
      · exact (hw.hfail hn hr).2.2.2.1
      · exact (hw.hsucc hn hr).2.2.2.1
    have Y := hI.yi y hy
    obtain ⟨h1, h2, h3⟩ := hw.tryHandlers hy
    obtain ⟨a, b⟩ := h3 w hfin
    have htof : tryOf g h = y := by unfold tryOf; rcases hr with hr | hr <;> rw [hr]
    have hrk : 3 ≤ (s.tg y).rank := by
      unfold TIs at H; rw [htof] at H
      have := H.once (by rw [hpc]; simp)
      unfold created at this
      rcases hr with hr | hr <;> rw [hr] at this <;> simp only at this <;> omega
    have hbw : blocked g pol s (.task w) = false := by
      cases hbw : blocked g pol s (.task w)
      · rfl
      · obtain ⟨_, y', w', d', hh', _⟩ := blocked_task hbw
        rcases heldFor_cases hh' with ⟨hr', hp', _⟩ | ⟨hr' | hr', _, _⟩
        · rw [b] at hr'; cases hr'; rw [hp] at hp'; cases hp'
        · rw [b] at hr'; cases hr'
        · rw [b] at hr'; cases hr'
    refine ⟨y, w, hy, a, by rw [(hw.hfin a b).2.2.2.1, hdh], hbw, Or.inr ?_⟩
    exact live y w hy (mem_handlers.mpr (Or.inl hfin)) (Y.finSub hrk w hfin) hnr hnd

/-- an accepted, unfinished task either can move itself (unless it is held) or waits for something
that can; a held handler waits for a handler that is not held -/
theorem enabledS_of_unfinished {s : St} (hw : WF g) (hI : Inv g s) :
    ∀ d u, maxD g g.n - g.depth u = d → (s.pc u).accepted = true → s.pc u ≠ .finished → EnabledS g pol s := by
  intro d
  induction d using Nat.strongRecOn with
  | _ d ihd =>
  -- first: tasks that are not held, by the position of their acceptance event
  have free : ∀ n u, maxD g g.n - g.depth u = d → firstIdx (accEvOf g u) s.tr = n →
      (s.pc u).accepted = true → s.pc u ≠ .finished → blocked g pol s (.task u) = false → EnabledS g pol s := by
    intro n
    induction n using Nat.strongRecOn with
    | _ n ihn =>
    intro u hd hn ha hf hnb
    have U := hI.ti u
    have hun : u < g.n := U.range (by intro h0; rw [h0] at ha; cases ha)
    have hdu : g.depth u ≤ maxD g g.n := depth_le_maxD g g.n u hun
    have self : (stepTask g s u).isSome = true → EnabledS g pol s := fun h => ⟨.task u, hnb, h⟩
    have deeper : ∀ c, c < g.n → g.depth c = g.depth u + 1 → (s.pc c).accepted = true →
        s.pc c ≠ .finished → EnabledS g pol s := by
      intro c hc hdc hca hcf
      have hdc' : g.depth c ≤ maxD g g.n := depth_le_maxD g g.n c hc
      exact ihd (maxD g g.n - g.depth c) (by omega) c rfl hca hcf
    cases hpc : s.pc u with
    | idle => rw [hpc] at ha; cases ha
    | rejected => rw [hpc] at ha; cases ha
    | finished => exact absurd hpc hf
    | closing f => exact self (by simp [stepTask, hpc])
    | run i =>
      apply self
      simp only [stepTask, hpc]
      split <;> rfl
    | inCmd i =>
      unfold TIs at U; rw [hpc] at U
      obtain ⟨c, hc⟩ := cmdAt_some_of_lt (U.inc i rfl).1
      apply self
      simp only [stepTask, hpc, hc]
      cases c <;> simp <;> split <;> rfl
    | waiting k =>
      cases hk : (g.waits u)[k]? with
      | none => exact self (by simp [stepTask, hpc, hk])
      | some w =>
        by_cases hwf : s.pc w = .finished
        · apply self
          simp only [stepTask, hpc, hk, hwf, beq_self_eq_true, if_true]
          split <;> rfl
        · obtain ⟨_, hnw, hwa, hdw, hlt⟩ := wait_earlier hw hI ha (List.mem_of_getElem? hk)
          exact ihn _ (by rw [← hn]; exact hlt) w (by rw [hdw]; exact hd) rfl hwa hwf
            (not_blocked_of_nameable hnw)
    | afterCmd i =>
      unfold TIs at U; rw [hpc] at U
      obtain ⟨hil, hret⟩ := U.aft i rfl
      obtain ⟨c, hc⟩ := cmdAt_some_of_lt hil
      by_cases hg : cmdChildrenFinished g s c = true
      · apply self
        simp only [stepTask, hpc, hc, hg, if_true]
        split <;> rfl
      · cases c with
        | probe => simp [cmdChildrenFinished] at hg
        | fail => simp [cmdChildrenFinished] at hg
        | stop => simp [cmdChildrenFinished] at hg
        | spawn c =>
          simp only [cmdChildrenFinished, beq_iff_eq] at hg
          obtain ⟨hcn, hcr⟩ := hw.spawn hun hc
          have hca : (s.pc c).accepted = true := by
            apply (hI.ti c).accEv'; unfold acceptedEv; rw [hcr]; exact hret
          exact deeper c hcn (hw.child hcn hcr).2.1 hca hg
        | try_ y =>
          obtain ⟨hy, ho, hix⟩ := hw.tryc hun hc
          obtain ⟨_, _, hbn, hbr⟩ := hw.tryOwner hy
          have Y := hI.yi y hy
          have hba : (s.pc (g.tryd y).body).accepted = true := by
            apply (hI.ti _).accEv'; unfold acceptedEv; rw [hbr]; simp only; rw [ho, hix]; exact hret
          have hbd : g.depth (g.tryd y).body = g.depth u + 1 := by
            rw [(hw.tbody hbn hbr).2.2.2.1, ho]
          by_cases hbf : s.pc (g.tryd y).body = .finished
          · have hst : s.tg y ≠ .idle := Y.started' (by rw [ho, hix]; exact hret)
            cases htg : s.tg y with
            | idle => exact absurd htg hst
            | waitBody => exact ⟨.tryg y, rfl, by simp [step, stepTry, htg, hbf]⟩
            | subFin v => exact ⟨.tryg y, rfl, by simp [step, stepTry, htg]⟩
            | subFail v => exact ⟨.tryg y, rfl, by simp [step, stepTry, htg]⟩
            | subSucc v => exact ⟨.tryg y, rfl, by simp [step, stepTry, htg]⟩
            | done =>
              simp only [cmdChildrenFinished, htg, hbf, beq_self_eq_true, Bool.true_and] at hg
              have : ∃ h ∈ g.handlers y, (s.pc h).accepted = true ∧ s.pc h ≠ .finished := by
                apply Classical.byContradiction
                intro hcon
                apply hg
                rw [List.all_eq_true]
                intro h hh
                cases hha : (s.pc h).accepted
                · rfl
                · simp only [Bool.not_true, Bool.false_or, beq_iff_eq]
                  apply Classical.byContradiction
                  intro hne
                  exact hcon ⟨h, hh, hha, hne⟩
              obtain ⟨h, hh, hha, hhf⟩ := this
              obtain ⟨hhn, _, _⟩ := handler_facts hw hy hh
              have hhd : g.depth h = g.depth u + 1 := by
                obtain ⟨h1, h2, h3⟩ := hw.tryHandlers hy
                rcases mem_handlers.mp hh with hx | hx | hx
                · rw [(hw.hfin hhn (h3 h hx).2).2.2.2.1, ho]
                · rw [(hw.hfail hhn (h2 h hx).2).2.2.2.1, ho]
                · rw [(hw.hsucc hhn (h1 h hx).2).2.2.2.1, ho]
              exact deeper h hhn hhd hha hhf
          · exact deeper _ hbn hbd hba hbf
  -- then: a held task waits for one that is not held, at the same depth
  intro u hd ha hf
  cases hb : blocked g pol s (.task u) with
  | false => exact free _ u hd rfl ha hf hb
  | true =>
    obtain ⟨y, w, hy, hwn, hdw, hbw, hor⟩ := awaited hw hI hb
    rcases hor with h | ⟨hwa, hwf⟩
    · exact ⟨.tryg y, rfl, h⟩
    · exact free _ w (by rw [hdw]; exact hd) rfl hwa hwf hbw

/-- deadlock freedom under every steering policy -/
theorem progressS {s : St} (hw : WF g) (hI : Inv g s) (hm : s.mp ≠ .finished) : EnabledS g pol s := by
  cases hmp : s.mp with
  | finished => exact absurd hmp hm
  | sub j =>
    refine ⟨.main, rfl, ?_⟩
    simp only [step, stepMain, hmp]
    split <;> rfl
  | create j =>
    obtain ⟨t, ht, _⟩ := hI.mi.cr j hmp
    refine ⟨.main, rfl, ?_⟩
    simp only [step, stepMain, hmp, ht]
    split <;> rfl
  | fins t =>
    refine ⟨.main, rfl, ?_⟩
    simp only [step, stepMain, hmp]
    split
    · split <;> rfl
    · rfl
  | wait =>
    by_cases hall : allFinished g s = true
    · exact ⟨.main, rfl, by simp [step, stepMain, hmp, hall]⟩
    · have : ∃ u, (s.pc u).accepted = true ∧ s.pc u ≠ .finished := by
        apply Classical.byContradiction
        intro hcon
        apply hall
        unfold allFinished
        rw [List.all_eq_true]
        intro u _
        cases hua : (s.pc u).accepted
        · rfl
        · simp only [Bool.not_true, Bool.false_or, beq_iff_eq]
          apply Classical.byContradiction
          intro hne
          exact hcon ⟨u, hua, hne⟩
      obtain ⟨u, hua, huf⟩ := this
      exact enabledS_of_unfinished hw hI _ u rfl hua huf

/-! ### Labels that can be enabled are among `labels g` -/

theorem enabled_mem_labels {s : St} (hI : Inv g s) {l : Label} (h : (step g s l).isSome = true) : l ∈ labels g := by
  unfold labels
  cases l with
  | main => simp
  | task t =>
    have : t < g.n := by
      apply (hI.ti t).range
      intro h0
      simp [step, stepTask, h0] at h
    simp only [List.mem_cons, List.mem_append, List.mem_map, List.mem_range]
    exact Or.inr (Or.inl (Or.inl ⟨t, this, rfl⟩))
  | stop t =>
    have : t < g.n := by
      apply (hI.ti t).range
      intro h0
      simp [step, stepStop, h0] at h
    simp only [List.mem_cons, List.mem_append, List.mem_map, List.mem_range]
    exact Or.inr (Or.inl (Or.inr ⟨t, this, rfl⟩))
  | tryg y =>
    have : y < g.tries.length := by
      apply hI.tgr y
      intro h0
      simp [step, stepTry, h0] at h
    simp only [List.mem_cons, List.mem_append, List.mem_map, List.mem_range]
    exact Or.inr (Or.inr ⟨y, this, rfl⟩)

/-! ### The steered system is a sub-system of the model -/

theorem stepS_sub {s s' : St} {l : Label} (h : stepS g pol s l = some s') : step g s l = some s' := by
  unfold stepS at h
  split at h
  · cases h
  · exact h

theorem reachableS_reachable {s : St} (h : LTS.Reachable (sysS g pol) s) : LTS.Reachable (sys g) s := by
  induction h with
  | init => exact LTS.Reachable.init
  | step i _ hs ih => exact LTS.Reachable.step i ih (stepS_sub hs)

theorem quiet_ok2_reachable {s : St} (hw : WF g) (h : LTS.Reachable (sys g) s) : Quiet g s ∧ TraceOk2 g s.tr := by
  induction h with
  | init => exact ⟨quiet_init g, traceOk2_nil g⟩
  | step i hprev hstep ih => exact quiet_and_ok2_step hw (inv_reachable hw hprev) ih.1 ih.2 i hstep

/-- every reachable state of the model satisfies `Quiet` -/
theorem quiet_reachable {s : St} (hw : WF g) (h : LTS.Reachable (sys g) s) : Quiet g s :=
  (quiet_ok2_reachable hw h).1

/-- a steered run is a run of the model: its trace is accepted by the monitor -/
theorem runS_accepted (hw : WF g) (pol : Nat → Steer) (sched : List Label) :
    accepts g ((sysS g pol).run sched).tr = true := by
  have hr := reachableS_reachable (LTS.run_reachable (sysS g pol) sched)
  exact (accepts_iff g _).mpr ⟨(inv_reachable hw hr).ok, (quiet_ok2_reachable hw hr).2⟩

/-- under steering, too, some continuation of every schedule lets the main thread finish -/
theorem can_finishS (hw : WF g) : ∀ (m : Nat) (s : St), LTS.Reachable (sysS g pol) s → mu g s = m →
    ∃ ext, ((sysS g pol).runFrom s ext).mp = .finished := by
  intro m
  induction m using Nat.strongRecOn with
  | _ m ih =>
  intro s hr hm
  by_cases hfin : s.mp = .finished
  · exact ⟨[], hfin⟩
  · have hI := inv_reachable hw (reachableS_reachable hr)
    obtain ⟨l, hnb, hl⟩ := progressS (pol := pol) hw hI hfin
    cases hs : step g s l with
    | none => rw [hs] at hl; cases hl
    | some s' =>
      have hlt := mu_step hw hI l hs
      have hsS : stepS g pol s l = some s' := by unfold stepS; rw [hnb]; exact hs
      obtain ⟨ext, hext⟩ := ih (mu g s') (by omega) s' (LTS.Reachable.step l hr hsS) rfl
      refine ⟨l :: ext, ?_⟩
      rw [LTS.runFrom_cons]
      have : (sysS g pol).next s l = s' := by
        unfold LTS.Sys.next
        show (stepS g pol s l).getD s = s'
        rw [hsS]; rfl
      rw [this]; exact hext

/-! ### The controller's time-out never fires -/

/-- invariant of the system with time-outs: no handler was ever let go by a time-out, the state is a
reachable state of the steered system, and no `stall` was recorded -/
structure CInv (g : Graph) (pol : Nat → Steer) (c : CSt) : Prop where
  rel : c.rel = []
  reach : LTS.Reachable (sysS g pol) c.st

theorem blockedC_eq {c : CSt} (h : c.rel = []) (l : Label) : blockedC g pol c l = blocked g pol c.st l := by
  unfold blockedC
  rw [h]
  cases l <;> simp

theorem cinv_step (hw : WF g) {c c' : CSt} (hJ : CInv g pol c) (l : CLabel) (h : stepC g pol c l = some c') :
    CInv g pol c' := by
  cases l with
  | sys l =>
    simp only [stepC, Option.map_eq_some_iff] at h
    obtain ⟨s', hs, rfl⟩ := h
    refine ⟨hJ.rel, LTS.Reachable.step l hJ.reach ?_⟩
    unfold stepSysC at hs
    rw [blockedC_eq hJ.rel] at hs
    exact hs
  | timeout h' =>
    exfalso
    simp only [stepC] at h
    split at h
    · rename_i hcond
      simp only [Bool.and_eq_true] at hcond
      obtain ⟨hb, hq⟩ := hcond
      rw [blockedC_eq hJ.rel] at hb
      have hR := reachableS_reachable hJ.reach
      have hI := inv_reachable hw hR
      obtain ⟨hpc, _⟩ := blocked_task hb
      -- the main thread has not finished: a task is still in its first command
      have hm : c.st.mp ≠ .finished := by
        intro hfin
        have := quiet_reachable hw hR (Or.inr hfin) h' (by rw [hpc]; rfl)
        rw [hpc] at this; cases this
      obtain ⟨l, hnb, hl⟩ := progressS (pol := pol) hw hI hm
      unfold quiescent at hq
      rw [List.all_eq_true] at hq
      have := hq l (enabled_mem_labels hI hl)
      unfold stepSysC at this
      rw [blockedC_eq hJ.rel, hnb] at this
      simp only [Bool.false_eq_true, if_false] at this
      rw [Option.isNone_iff_eq_none] at this
      rw [this] at hl; cases hl
    · cases h

theorem cinv_run (hw : WF g) (sched : List CLabel) : CInv g pol (runC g pol sched) := by
  unfold runC
  apply LTS.inv_run (sysC g pol) (CInv g pol)
  · exact ⟨rfl, LTS.Reachable.init⟩
  · intro s i t hJ hs; exact cinv_step hw hJ i hs

/-- the model never records a `stall`: no step of it emits one … -/
theorem step_no_stall {s s' : St} {l : Label} (hs : step g s l = some s') (t : Nat)
    (h : Ev.stall t ∉ s.tr) : Ev.stall t ∉ s'.tr := by
  have key : ∀ e, (s'.tr = s.tr ∨ s'.tr = s.tr ++ [e]) → (∀ t, e ≠ .stall t) → Ev.stall t ∉ s'.tr := by
    intro e he hne hm
    rcases he with he | he
    · rw [he] at hm; exact h hm
    · rw [he] at hm
      rcases List.mem_append.mp hm with hm | hm
      · exact h hm
      · simp at hm; exact hne t hm.symm
  cases l with
  | main =>
    simp only [step, stepMain] at hs
    repeat' split at hs
    all_goals first
      | (cases hs; exact key (.sub 0) (Or.inl rfl) (by simp))
      | (cases hs; exact key _ (Or.inr rfl) (by simp))
      | cases hs
  | task u =>
    simp only [step, stepTask] at hs
    repeat' split at hs
    all_goals first
      | (cases hs; exact key (.sub 0) (Or.inl rfl) (by simp))
      | (cases hs; exact key _ (Or.inr rfl) (by simp))
      | cases hs
  | stop u =>
    simp only [step, stepStop] at hs
    repeat' split at hs
    all_goals first
      | (cases hs; exact key (.sub 0) (Or.inl rfl) (by simp))
      | cases hs
  | tryg y =>
    simp only [step, stepTry, submitHandler] at hs
    repeat' split at hs
    all_goals first
      | (cases hs; exact key (.sub 0) (Or.inl rfl) (by simp))
      | (cases hs; exact key _ (Or.inr rfl) (by simp))
      | cases hs

/-- … and the controller's time-out, the only other source, is never enabled -/
theorem no_stall (hw : WF g) (sched : List CLabel) (t : Nat) : Ev.stall t ∉ (runC g pol sched).st.tr := by
  have : ∀ c, LTS.Reachable (sysC g pol) c → CInv g pol c ∧ Ev.stall t ∉ c.st.tr := by
    intro c hr
    induction hr with
    | init => exact ⟨⟨rfl, LTS.Reachable.init⟩, by simp [sysC, init]⟩
    | step i _ hs ih =>
      refine ⟨cinv_step hw ih.1 i hs, ?_⟩
      cases i with
      | sys l =>
        simp only [sysC, stepC, Option.map_eq_some_iff] at hs
        obtain ⟨s', hs', rfl⟩ := hs
        unfold stepSysC at hs'
        split at hs'
        · cases hs'
        · exact step_no_stall hs' t ih.2
      | timeout h' =>
        -- impossible: `cinv_step` shows the guard is false; reuse it
        exfalso
        have hJ' := cinv_step hw ih.1 (.timeout h') hs
        simp only [sysC, stepC] at hs
        split at hs
        · split at hs
          · cases hs
            have := hJ'.rel
            simp at this
          · cases hs
        · cases hs
  exact (this _ (LTS.run_reachable (sysC g pol) sched)).2

end Goat.Pipeline
