/-
Helper lemmas for properties C14/C16, part 3: every transition of the pipeline model preserves
the invariant `Inv` (and therefore the declarative trace property `TraceOk`).
-/
import Goat.Proofs.PipelineInv

set_option linter.unusedSimpArgs false
set_option linter.unusedVariables false

namespace Goat.Pipeline

/-! ### Generic assembly lemmas -/

theorem freshDone_nil (tr : List Ev) : FreshDone tr [] := by
  intro u b h; cases h

theorem ti_frame_all {g : Graph} {s s' : St} (hI : Inv g s) {es : List Ev}
    (htr : s'.tr = s.tr ++ es) (hfd : FreshDone s.tr es)
    (hce : ∀ X, s.cerr X = true → s'.cerr X = true)
    (htg : ∀ y, (s.tg y).rank ≤ (s'.tg y).rank)
    (mv : Nat → Prop)
    (hmv : ∀ u, ¬ mv u → s'.pc u = s.pc u ∧ ∀ e ∈ es, ¬ touches g u e)
    (hnew : ∀ u, mv u → TIs g s' u) : ∀ u, TIs g s' u := by
  intro u
  rcases Classical.em (mv u) with h | h
  · exact hnew u h
  · obtain ⟨hpc, hno⟩ := hmv u h
    unfold TIs
    rw [hpc, htr]
    exact (hI.ti u).frame hno hfd (hce _) (htg _)

theorem subSeen_mono {g : Graph} {s s' : St} {y h : Nat} (htr : ∀ e, e ∈ s.tr → e ∈ s'.tr)
    (hacc : ∀ u, (s.pc u).accepted = true → (s'.pc u).accepted = true) (hs : subSeen g s y h) :
    subSeen g s' y h := by
  rcases hs with ⟨h1, h2⟩ | ⟨h', hh, hr⟩
  · exact Or.inl ⟨hacc _ h1, htr _ h2⟩
  · exact Or.inr ⟨h', hh, htr _ hr⟩

theorem YI.frame {g : Graph} {s s' : St} {y : Nat} (h : YI g s y) {es : List Ev}
    (htr : s'.tr = s.tr ++ es) (hfd : FreshDone s.tr es)
    (htg : s'.tg y = s.tg y)
    (hce : ∀ X, s.cerr X = true → s'.cerr X = true)
    (hacc : ∀ u, (s.pc u).accepted = true → (s'.pc u).accepted = true)
    (hown : s.tg y ≠ .idle → s.tg y ≠ .done → s'.pc (g.tryd y).owner = s.pc (g.tryd y).owner)
    (hnr : Ev.ret (g.tryd y).owner (g.tryd y).idx true ∈ es → s.tg y ≠ .idle) :
    YI g s' y := by
  have hdone : ∀ b, hasDone s.tr (g.tryd y).body →
      (Ev.done (g.tryd y).body b ∈ s'.tr ↔ Ev.done (g.tryd y).body b ∈ s.tr) := by
    intro b hb; rw [htr]; exact done_stable hfd hb b
  constructor
  · intro hs; rw [htr]; exact List.mem_append_left _ (h.started (htg ▸ hs))
  · intro hs; exact hacc _ (h.bodyAcc (htg ▸ hs))
  · intro v hv
    rw [htg] at hv
    have := h.v v hv
    refine ⟨by rw [htr]; exact hasDone_mono es this.1, ?_⟩
    rw [hdone true this.1]; exact this.2
  · intro hs; rw [htr]; exact hasDone_mono es (h.dn (htg ▸ hs))
  · intro hr hh hf
    rw [htg] at hr
    rcases h.finAcc hr hh hf with h1 | h1
    · exact Or.inl (hacc _ h1)
    · exact Or.inr (hce _ h1)
  · intro hr hd hh hf
    rw [htg] at hr
    have hb : hasDone s.tr (g.tryd y).body := by
      rcases Nat.lt_or_ge (s.tg y).rank 5 with h5 | h5
      · have : ∃ v, s.tg y = .subSucc v := by
          cases hq : s.tg y <;> simp [hq, TG.rank] at hr h5
          exact ⟨_, rfl⟩
        obtain ⟨v, hv⟩ := this
        exact (h.v v (Or.inr (Or.inr hv))).1
      · have : s.tg y = .done := by
          cases hq : s.tg y <;> simp [hq, TG.rank] at h5
          rfl
        exact h.dn this
    rw [hdone false hb] at hd
    rcases h.failAcc hr hd hh hf with h1 | h1
    · exact Or.inl (hacc _ h1)
    · exact Or.inr (hce _ h1)
  · intro hr hd hh hf
    rw [htg] at hr
    have hb : hasDone s.tr (g.tryd y).body := by
      have : s.tg y = .done := by
        cases hq : s.tg y <;> simp [hq, TG.rank] at hr
        rfl
      exact h.dn this
    rw [hdone true hb] at hd
    rcases h.succAcc hr hd hh hf with h1 | h1
    · exact Or.inl (hacc _ h1)
    · exact Or.inr (hce _ h1)
  · intro hr hh hf
    rw [htg] at hr
    exact subSeen_mono (fun e he => by rw [htr]; exact List.mem_append_left _ he) hacc (h.finSub hr hh hf)
  · intro hr hd hh hf
    rw [htg] at hr
    have hb : hasDone s.tr (g.tryd y).body := by
      rcases Nat.lt_or_ge (s.tg y).rank 5 with h5 | h5
      · have : ∃ v, s.tg y = .subSucc v := by
          cases hq : s.tg y <;> simp [hq, TG.rank] at hr h5
          exact ⟨_, rfl⟩
        obtain ⟨v, hv⟩ := this
        exact (h.v v (Or.inr (Or.inr hv))).1
      · have : s.tg y = .done := by
          cases hq : s.tg y <;> simp [hq, TG.rank] at h5
          rfl
        exact h.dn this
    rw [hdone false hb] at hd
    exact subSeen_mono (fun e he => by rw [htr]; exact List.mem_append_left _ he) hacc (h.failSub hr hd hh hf)
  · intro hr hd hh hf
    rw [htg] at hr
    have hb : hasDone s.tr (g.tryd y).body := by
      have : s.tg y = .done := by
        cases hq : s.tg y <;> simp [hq, TG.rank] at hr
        rfl
      exact h.dn this
    rw [hdone true hb] at hd
    exact subSeen_mono (fun e he => by rw [htr]; exact List.mem_append_left _ he) hacc (h.succSub hr hd hh hf)
  · intro h1 h2
    rw [htg] at h1 h2
    rw [hown h1 h2]; exact h.active h1 h2
  · intro hm
    rw [htg]
    rw [htr] at hm
    rcases List.mem_append.mp hm with hm | hm
    · exact h.started' hm
    · exact hnr hm

theorem MI.frame {g : Graph} {s s' : St} (h : MI g s) {es : List Ev}
    (htr : s'.tr = s.tr ++ es) (hmp : s'.mp = s.mp)
    (hno : ∀ t, Ev.acc t ∉ es ∧ Ev.rej t ∉ es) : MI g s' := by
  constructor
  · intro j hj t ht
    rw [hmp] at hj
    apply h.early j hj t
    rw [htr] at ht
    rcases ht with ht | ht
    · rcases List.mem_append.mp ht with ht | ht
      · exact Or.inl ht
      · exact absurd ht (hno t).1
    · rcases List.mem_append.mp ht with ht | ht
      · exact Or.inr ht
      · exact absurd ht (hno t).2
  · intro j hj
    rw [hmp] at hj
    obtain ⟨t, h1, h2⟩ := h.cr j hj
    exact ⟨t, h1, by rw [htr]; exact List.mem_append_left _ h2⟩
  · intro hm
    rw [hmp] at hm
    rw [htr]; exact hasMwait_mono es (h.mw hm)

theorem i2_frame {g : Graph} {s s' : St} (hI : Inv g s) {es : List Ev}
    (htr : s'.tr = s.tr ++ es)
    (hce : ∀ X, s'.cerr X = true → s.cerr X = true ∨ causeIn g X s'.tr ∨ causeIn g 0 s'.tr) :
    ∀ X, s'.cerr X = true → causeIn g X s'.tr ∨ causeIn g 0 s'.tr := by
  intro X hX
  rcases hce X hX with h | h
  · rw [htr]
    rcases hI.i2 X h with h | h
    · exact Or.inl (causeIn_mono es h)
    · exact Or.inr (causeIn_mono es h)
  · exact h

theorem i3_frame {g : Graph} {s s' : St} (h3 : I3 g s) {es : List Ev} (htr : s'.tr = s.tr ++ es)
    (hkeep : ∀ u, (s.pc u).accepted = true → s.cerr (g.ctx u) = true →
      (s'.pc u).accepted = true ∧ (s'.pc u = .finished → s.pc u = .finished ∨ Ev.done u false ∈ s'.tr))
    (hnew : ∀ X, s'.cerr X = true → s.cerr X = true ∨
      ∃ u, g.ctx u = X ∧ (s'.pc u).accepted = true ∧ s'.pc u ≠ .finished) : I3 g s' := by
  intro X hX
  rcases hnew X hX with h | ⟨u, h1, h2, h3'⟩
  · obtain ⟨u, hu, ha, hd⟩ := h3 X h
    obtain ⟨ha', hf'⟩ := hkeep u ha (by rw [hu]; exact h)
    refine ⟨u, hu, ha', ?_⟩
    rcases Classical.em (s'.pc u = .finished) with hfin | hfin
    · rcases hf' hfin with h4 | h4
      · rcases hd with h5 | h5
        · exact absurd h4 h5
        · exact Or.inr (by rw [htr]; exact List.mem_append_left _ h5)
      · exact Or.inr h4
    · exact Or.inl hfin
  · exact ⟨u, h1, h2, Or.inl h3'⟩

/-- `i3_frame` when no task moves and no flag changes -/
theorem i3_same {g : Graph} {s s' : St} (h3 : I3 g s) {es : List Ev} (htr : s'.tr = s.tr ++ es)
    (hpc : s'.pc = s.pc) (hcerr : s'.cerr = s.cerr) : I3 g s' :=
  i3_frame h3 htr (fun u ha _ => ⟨by rw [hpc]; exact ha, fun h => Or.inl (by rw [hpc] at h; exact h)⟩)
    (fun X hX => Or.inl (by rw [hcerr] at hX; exact hX))

/-- the acceptance events of handlers: nothing new, and accepted tasks stay accepted -/
theorem ha_frame {g : Graph} {s s' : St} (hI : Inv g s) {es : List Ev} (htr : s'.tr = s.tr ++ es)
    (hno : ∀ h, Ev.hacc h ∉ es) (hacc : ∀ u, (s.pc u).accepted = true → (s'.pc u).accepted = true) :
    ∀ h, Ev.hacc h ∈ s'.tr → (s'.pc h).accepted = true := by
  intro h hm
  rw [htr] at hm
  rcases List.mem_append.mp hm with hm | hm
  · exact hacc _ (hI.ha h hm)
  · exact absurd hm (hno h)

/-! ### The initial state -/

theorem inv_init (g : Graph) : Inv g init := by
  refine ⟨fun u => ?_, fun y _ => ?_, ?_, ?_, ?_, traceOk_nil g, fun y h => by simp [init] at h,
    fun X h => by simp [init] at h, fun h hm => by simp [init] at hm⟩
  · constructor <;> simp [init, PC.accepted, issued, returned, okUpTo, hasDone, acceptedEv]
    · split <;> simp
  · constructor <;> simp [init, TG.rank]
  · intro u h; simp [init, PC.accepted] at h
  · constructor <;> simp [init]
  · intro X h; simp [init] at h

/-! ### A task moves (no submission involved) -/

theorem accepted_upd {pc : Nat → PC} {t : Nat} {q : PC} (hq : (pc t).accepted = true → q.accepted = true)
    (u : Nat) (h : (pc u).accepted = true) : (upd pc t q u).accepted = true := by
  rw [upd_apply]; split
  · rename_i h1; subst h1; exact hq h
  · exact h

theorem parentAt_upd {g : Graph} {s s' : St} {t : Nat} {q : PC} (hpc : s'.pc = upd s.pc t q)
    (hna : ∀ i, s.pc t ≠ .afterCmd i) {u : Nat} (h : parentAt g s u) : parentAt g s' u := by
  intro p i hp
  have := h p i hp
  rw [hpc, upd_other]
  · exact this
  · intro heq; rw [heq] at this; exact hna _ this

theorem traceOk_ext {g : Graph} {tr es : List Ev} (h : TraceOk g tr) (hlen : es.length ≤ 1)
    (hok : ∀ e ∈ es, Ok g tr e) : TraceOk g (tr ++ es) := by
  match es, hlen with
  | [], _ => simpa using h
  | [e], _ => exact traceOk_snoc h (hok e (by simp))

theorem cmd_of_ret {g : Graph} {tr : List Ev} (h : TraceOk g tr) {t i : Nat} {b : Bool}
    (hr : Ev.ret t i b ∈ tr) : Ev.cmd t i ∈ tr := by
  obtain ⟨pre, post, hs, hok⟩ := traceOk_mem h hr
  rw [hs]; exact List.mem_append_left _ hok.1

/-- the general shape of a step in which task `t` moves from `s.pc t` to `q`, possibly emitting one
event and setting error flags, and nothing is submitted -/
theorem inv_move {g : Graph} {s s' : St} (hI : Inv g s) {t : Nat} {q : PC} {es : List Ev}
    (hpc : s'.pc = upd s.pc t q) (htr : s'.tr = s.tr ++ es) (htg : s'.tg = s.tg) (hmp : s'.mp = s.mp)
    (hlen : es.length ≤ 1)
    (hacc : (s.pc t).accepted = true) (hqacc : q.accepted = true)
    (hq : TI g t q s'.tr (s'.cerr (g.ctx t)) (s.tg (tryOf g t)))
    (hfd : FreshDone s.tr es)
    (hev : ∀ u, u ≠ t → ∀ e ∈ es, ¬ touches g u e)
    (hce : ∀ X, s.cerr X = true → s'.cerr X = true)
    (hi2 : ∀ X, s'.cerr X = true → s.cerr X = true ∨ causeIn g X s'.tr ∨ causeIn g 0 s'.tr)
    (hok : ∀ e ∈ es, Ok g s.tr e)
    (hnoacc : ∀ u, Ev.acc u ∉ es ∧ Ev.rej u ∉ es ∧ Ev.hacc u ∉ es)
    (hpar : ∀ u, u ≠ t → (s.pc u).accepted = true → s.pc u ≠ .finished → parentAt g s u → parentAt g s' u)
    (hpart : q ≠ .finished → parentAt g s' t)
    (hown : ∀ y, y < g.tries.length → s.tg y ≠ .idle → s.tg y ≠ .done → (g.tryd y).owner ≠ t)
    (hnr : ∀ y, y < g.tries.length → Ev.ret (g.tryd y).owner (g.tryd y).idx true ∈ es → s.tg y ≠ .idle)
    (hi3 : ∀ X, s'.cerr X = true → s.cerr X = true ∨ (X = g.ctx t ∧ q ≠ .finished))
    (hfin3 : q = .finished → s.cerr (g.ctx t) = true → Ev.done t false ∈ s'.tr) :
    Inv g s' := by
  have hne : s.pc t ≠ .idle := by intro h; rw [h] at hacc; simp [PC.accepted] at hacc
  refine ⟨?_, ?_, ?_, ?_, ?_, ?_, ?_, ?_, ha_frame hI htr (fun u => (hnoacc u).2.2)
    (fun u hu => by rw [hpc]; exact accepted_upd (fun _ => hqacc) u hu)⟩
  · apply ti_frame_all hI htr hfd hce (fun y => by rw [htg]; exact Nat.le_refl _) (fun u => u = t)
    · intro u hu
      exact ⟨by rw [hpc]; exact upd_other _ _ hu, hev u hu⟩
    · intro u hu
      subst hu
      unfold TIs
      rw [hpc, upd_same, htg]; exact hq
  · intro y hy
    apply (hI.yi y hy).frame htr hfd (by rw [htg]) hce
    · intro u hu; rw [hpc]; exact accepted_upd (fun _ => hqacc) u hu
    · intro h1 h2
      rw [hpc, upd_other _ _ (hown y hy h1 h2)]
    · exact hnr y hy
  · intro u ha hf
    by_cases hu : u = t
    · subst hu
      rw [hpc, upd_same] at hf
      exact hpart hf
    · rw [hpc, upd_other _ _ hu] at ha hf
      exact hpar u hu ha hf (hI.x3 u ha hf)
  · exact hI.mi.frame htr hmp (fun u => ⟨(hnoacc u).1, (hnoacc u).2.1⟩)
  · exact i2_frame hI htr hi2
  · rw [htr]; exact traceOk_ext hI.ok hlen hok
  · rw [htg]; exact hI.tgr
  · apply i3_frame hI.i3 htr
    · intro u ha hc
      by_cases hu : u = t
      · subst hu
        rw [hpc, upd_same]
        exact ⟨hqacc, fun hq' => Or.inr (hfin3 hq' hc)⟩
      · rw [hpc, upd_other _ _ hu]
        exact ⟨ha, fun h => Or.inl h⟩
    · intro X hX
      rcases hi3 X hX with h | ⟨h1, h2⟩
      · exact Or.inl h
      · exact Or.inr ⟨t, h1.symm, by rw [hpc, upd_same]; exact hqacc, by rw [hpc, upd_same]; exact h2⟩

/-- `inv_move` for a task that is not blocked in a command (no child can be waiting on it moving) -/
theorem inv_move_na {g : Graph} {s s' : St} (hI : Inv g s) {t : Nat} {q : PC} {es : List Ev}
    (hpc : s'.pc = upd s.pc t q) (htr : s'.tr = s.tr ++ es) (htg : s'.tg = s.tg) (hmp : s'.mp = s.mp)
    (hlen : es.length ≤ 1)
    (hacc : (s.pc t).accepted = true) (hnf : s.pc t ≠ .finished) (hna : ∀ i, s.pc t ≠ .afterCmd i)
    (hqacc : q.accepted = true)
    (hq : TI g t q s'.tr (s'.cerr (g.ctx t)) (s.tg (tryOf g t)))
    (hfd : FreshDone s.tr es)
    (hev : ∀ u, u ≠ t → ∀ e ∈ es, ¬ touches g u e)
    (hce : ∀ X, s.cerr X = true → s'.cerr X = true)
    (hi2 : ∀ X, s'.cerr X = true → s.cerr X = true ∨ causeIn g X s'.tr ∨ causeIn g 0 s'.tr)
    (hok : ∀ e ∈ es, Ok g s.tr e)
    (hnoacc : ∀ u, Ev.acc u ∉ es ∧ Ev.rej u ∉ es ∧ Ev.hacc u ∉ es)
    (hnr : ∀ y, y < g.tries.length → Ev.ret (g.tryd y).owner (g.tryd y).idx true ∈ es → s.tg y ≠ .idle)
    (hi3 : ∀ X, s'.cerr X = true → s.cerr X = true ∨ (X = g.ctx t ∧ q ≠ .finished))
    (hfin3 : q = .finished → s.cerr (g.ctx t) = true → Ev.done t false ∈ s'.tr) :
    Inv g s' := by
  apply inv_move hI hpc htr htg hmp hlen hacc hqacc hq hfd hev hce hi2 hok hnoacc
    (hi3 := hi3) (hfin3 := hfin3)
  · intro u _ _ _ h; exact parentAt_upd hpc hna h
  · intro _; exact parentAt_upd hpc hna (hI.x3 t hacc hnf)
  · intro y hy h1 h2 heq
    have := (hI.yi y hy).active h1 h2
    rw [heq] at this
    exact hna _ this
  · exact hnr

theorem waitsOk_of_wait {g : Graph} {tr : List Ev} {t k : Nat}
    (h : ∀ j, j < k → ∀ w, (g.waits t)[j]? = some w → Ev.done w true ∈ tr)
    (hk : (g.waits t)[k]? = none) : waitsOk g tr t := by
  intro w hw
  obtain ⟨j, hj, hjw⟩ := List.getElem_of_mem hw
  have hlen : (g.waits t).length ≤ k := by
    rcases Nat.lt_or_ge k (g.waits t).length with h1 | h1
    · rw [List.getElem?_eq_getElem h1] at hk; cases hk
    · exact h1
  exact h j (by omega) w (by rw [List.getElem?_eq_getElem hj, hjw])

/-- T1: the wait list is exhausted, the body starts -/
theorem inv_T1 {g : Graph} {s : St} (hI : Inv g s) {t k : Nat} (hpc : s.pc t = .waiting k)
    (hk : (g.waits t)[k]? = none) : Inv g { s with pc := upd s.pc t (.run 0) } := by
  have T := hI.ti t
  unfold TIs at T; rw [hpc] at T
  apply inv_move_na hI (t := t) (q := .run 0) (es := [])
  case hpc => rfl
  case htr => simp
  case htg => rfl
  case hmp => rfl
  case hlen => simp
  case hacc => rw [hpc]; rfl
  case hnf => rw [hpc]; simp
  case hna => rw [hpc]; simp
  case hqacc => rfl
  case hfd => exact freshDone_nil _
  case hev => simp
  case hce => exact fun _ h => h
  case hi2 => exact fun _ h => Or.inl h
  case hok => simp
  case hnoacc => simp
  case hnr => simp
  case hi3 => exact fun _ h => Or.inl h
  case hfin3 => intro h; cases h
  case hq => exact {
    range := fun _ => T.range (by simp)
    once := fun _ => T.once (by simp)
    sub := fun _ => T.sub rfl
    accEv := fun _ hn => T.accEv rfl hn
    accEv' := fun _ => rfl
    cmdB := by intro m hm j hj; simp [issued] at hm; subst hm; exact T.cmdB 0 rfl j hj
    retB := by intro m hm j b hj; simp [returned] at hm; subst hm; exact T.retB 0 rfl j b hj
    okB := by
      intro m hm; simp [okUpTo] at hm; subst hm
      exact ⟨waitsOk_of_wait (T.wait k rfl) hk, fun j hj => absurd hj (Nat.not_lt_zero _)⟩
    wait := by intro k hk; cases hk
    inc := by intro i hi; cases hi
    aft := by intro i hi; cases hi
    runB := by intro i hi; cases hi; exact Nat.zero_le _
    clo := by intro f hf; cases hf
    nodone := fun _ => T.nodone (by simp)
    fin := by intro hf; cases hf
    df := T.df
    duniq := T.duniq }

/-- a finished task whose context has no error closed without error -/
theorem done_true_of_finished {g : Graph} {s : St} (hI : Inv g s) {w : Nat} (hf : s.pc w = .finished)
    (hc : s.cerr (g.ctx w) = false) : Ev.done w true ∈ s.tr := by
  have W := hI.ti w
  unfold TIs at W
  rcases (W.fin hf).1 with h | h
  · exact h
  · have := W.df h; rw [hc] at this; cases this

theorem mem_snoc_ne {tr : List Ev} {e e' : Ev} (hne : e' ≠ e) : e' ∈ tr ++ [e] ↔ e' ∈ tr := by
  simp [List.mem_append, hne]

/-- T3: one more entry of the wait list has finished without error -/
theorem inv_T3 {g : Graph} {s : St} (hI : Inv g s) {t k w : Nat} (hpc : s.pc t = .waiting k)
    (hk : (g.waits t)[k]? = some w) (hwf : s.pc w = .finished) (hwc : s.cerr (g.ctx w) = false) :
    Inv g { s with pc := upd s.pc t (.waiting (k + 1)) } := by
  have T := hI.ti t
  unfold TIs at T; rw [hpc] at T
  apply inv_move_na hI (t := t) (q := .waiting (k + 1)) (es := [])
  case hpc => rfl
  case htr => simp
  case htg => rfl
  case hmp => rfl
  case hlen => simp
  case hacc => rw [hpc]; rfl
  case hnf => rw [hpc]; simp
  case hna => rw [hpc]; simp
  case hqacc => rfl
  case hfd => exact freshDone_nil _
  case hev => simp
  case hce => exact fun _ h => h
  case hi2 => exact fun _ h => Or.inl h
  case hok => simp
  case hnoacc => simp
  case hnr => simp
  case hi3 => exact fun _ h => Or.inl h
  case hfin3 => intro h; cases h
  case hq => exact {
    range := fun _ => T.range (by simp)
    once := fun _ => T.once (by simp)
    sub := fun _ => T.sub rfl
    accEv := fun _ hn => T.accEv rfl hn
    accEv' := fun _ => rfl
    cmdB := by intro m hm j hj; simp [issued] at hm; subst hm; exact T.cmdB 0 rfl j hj
    retB := by intro m hm j b hj; simp [returned] at hm; subst hm; exact T.retB 0 rfl j b hj
    okB := by intro m hm; simp [okUpTo] at hm
    wait := by
      intro k' hk' j hj w' hw'
      cases hk'
      rcases Nat.lt_or_ge j k with h1 | h1
      · exact T.wait k rfl j h1 w' hw'
      · have : j = k := by omega
        subst this
        rw [hk] at hw'; cases hw'
        exact done_true_of_finished hI hwf hwc
    inc := by intro i hi; cases hi
    aft := by intro i hi; cases hi
    runB := by intro i hi; cases hi
    clo := by intro f hf; cases hf
    nodone := fun _ => T.nodone (by simp)
    fin := by intro hf; cases hf
    df := T.df
    duniq := T.duniq }

/-- T2: an entry of the wait list finished with an error: the task fails without running its body -/
theorem inv_T2 {g : Graph} {s : St} (hw : WF g) (hI : Inv g s) {t k w : Nat} (hpc : s.pc t = .waiting k)
    (hk : (g.waits t)[k]? = some w) (hwf : s.pc w = .finished) (hwc : s.cerr (g.ctx w) = true) :
    Inv g { s with pc := upd s.pc t (.closing false), cerr := upd s.cerr (g.ctx t) true } := by
  have T := hI.ti t
  unfold TIs at T; rw [hpc] at T
  have ht : t < g.n := T.range (by simp)
  have hctx : g.ctx w = g.ctx t := by
    have W := hI.ti w
    unfold TIs at W
    have hwn : w < g.n := W.range (by rw [hwf]; simp)
    rcases hw.wait_cases ht (List.mem_of_getElem? hk) with h | h
    · omega
    · exact h.2.2
  apply inv_move_na hI (t := t) (q := .closing false) (es := [])
  case hpc => rfl
  case htr => simp
  case htg => rfl
  case hmp => rfl
  case hlen => simp
  case hacc => rw [hpc]; rfl
  case hnf => rw [hpc]; simp
  case hna => rw [hpc]; simp
  case hqacc => rfl
  case hfd => exact freshDone_nil _
  case hev => simp
  case hce => intro X h; simp only [upd_apply]; split <;> simp [h]
  case hi2 =>
    intro X h
    simp only [upd_apply] at h
    split at h
    · rename_i hX
      subst hX
      rw [← hctx]
      simp only [List.append_nil]
      exact Or.inr (hI.i2 _ hwc)
    · exact Or.inl h
  case hok => simp
  case hnoacc => simp
  case hnr => simp
  case hi3 => 
    intro X h
    change upd s.cerr (g.ctx t) true X = true at h
    simp only [upd_apply] at h
    split at h
    · rename_i hX; exact Or.inr ⟨hX, by simp⟩
    · exact Or.inl h
  case hfin3 => intro h; cases h
  case hq => exact {
    range := fun _ => ht
    once := fun _ => T.once (by simp)
    sub := fun _ => T.sub rfl
    accEv := fun _ hn => T.accEv rfl hn
    accEv' := fun _ => rfl
    cmdB := by intro m hm; simp [issued] at hm
    retB := by intro m hm; simp [returned] at hm
    okB := by intro m hm; simp [okUpTo] at hm
    wait := by intro k hk; cases hk
    inc := by intro i hi; cases hi
    aft := by intro i hi; cases hi
    runB := by intro i hi; cases hi
    clo := by
      intro f _
      refine ⟨fun i _ hc => absurd (T.cmdB 0 rfl i hc) (Nat.not_lt_zero _), fun _ => Or.inl (by simp [upd_apply])⟩
    nodone := fun _ => T.nodone (by simp)
    fin := by intro hf; cases hf
    df := fun _ => by simp [upd_apply]
    duniq := T.duniq }

/-! ### Events of a task do not touch other tasks unless the command is a submission -/

theorem ret_not_touch {g : Graph} (hw : WF g) {t i u : Nat} {b : Bool} (hne : u ≠ t)
    (hs : ∀ c, g.cmdAt t i ≠ some (.spawn c)) (hy : ∀ y, g.cmdAt t i ≠ some (.try_ y)) :
    ¬ touches g u (.ret t i b) := by
  intro h
  unfold touches at h
  rcases h with h | h | ⟨y, h1, h2, h3⟩
  · exact hne h.symm
  · rcases Nat.lt_or_ge u g.n with hu | hu
    · exact hs u (hw.child hu h).1
    · rw [role_out hu] at h; cases h
  · rcases Nat.lt_or_ge u g.n with hu | hu
    · have := (hw.tryOwner (hw.tbody hu h1).1).2.1
      rw [h2, h3] at this
      exact hy y this
    · rw [role_out hu] at h1; cases h1

theorem ret_not_try {g : Graph} (hw : WF g) {t i y : Nat} (hy : y < g.tries.length)
    (hc : ∀ y, g.cmdAt t i ≠ some (.try_ y)) {b : Bool} :
    Ev.ret (g.tryd y).owner (g.tryd y).idx true ∉ [Ev.ret t i b] := by
  intro h
  simp only [List.mem_singleton, Ev.ret.injEq] at h
  have := (hw.tryOwner hy).2.1
  rw [h.1, h.2.1] at this
  exact hc y this

/-- T4: the next command is entered -/
theorem inv_T4 {g : Graph} {s : St} (hI : Inv g s) {t i : Nat} (hpc : s.pc t = .run i)
    (hi : i < (g.body t).length) :
    Inv g (emit { s with pc := upd s.pc t (.inCmd i) } (.cmd t i)) := by
  have T := hI.ti t
  unfold TIs at T; rw [hpc] at T
  have hfd : FreshDone s.tr [Ev.cmd t i] := by intro u b h; simp at h
  apply inv_move_na hI (t := t) (q := .inCmd i) (es := [.cmd t i])
  case hpc => rfl
  case htr => rfl
  case htg => rfl
  case hmp => rfl
  case hlen => simp
  case hacc => rw [hpc]; rfl
  case hnf => rw [hpc]; simp
  case hna => rw [hpc]; simp
  case hqacc => rfl
  case hfd => exact hfd
  case hev => intro u hu e he; simp at he; subst he; simp [touches]; exact fun h => hu h.symm
  case hce => exact fun _ h => h
  case hi2 => exact fun _ h => Or.inl h
  case hok =>
    intro e he; simp at he; subst he
    refine ⟨hi, fun h => Nat.lt_irrefl _ (T.cmdB i rfl i h), T.nodone (by simp), ?_⟩
    split
    · exact ⟨T.sub rfl, (T.okB i rfl).1⟩
    · exact (T.okB i rfl).2 (i - 1) (by omega)
  case hnoacc => simp
  case hnr => intro y hy h; simp at h
  case hi3 => exact fun _ h => Or.inl h
  case hfin3 => intro h; cases h
  case hq =>
    show TI g t (.inCmd i) (s.tr ++ [.cmd t i]) _ _
    exact {
    range := fun _ => T.range (by simp)
    once := fun _ => created_mono _ (Nat.le_refl _) (T.once (by simp))
    sub := fun _ => submitted_mono _ (T.sub rfl)
    accEv := fun _ hn => acceptedEv_mono _ (T.accEv rfl hn)
    accEv' := fun _ => rfl
    cmdB := by
      intro m hm j hj; simp [issued] at hm; subst hm
      rcases List.mem_append.mp hj with hj | hj
      · exact Nat.lt_succ_of_lt (T.cmdB i rfl j hj)
      · simp at hj; omega
    retB := by
      intro m hm j b hj; simp [returned] at hm; subst hm
      rw [mem_snoc_ne (by simp)] at hj
      exact T.retB i rfl j b hj
    okB := by
      intro m hm; simp [okUpTo] at hm; subst hm
      have := T.okB i rfl
      exact ⟨waitsOk_mono _ this.1, fun j hj => cmdDoneOk_mono _ hfd (this.2 j hj)⟩
    wait := by intro k hk; cases hk
    inc := by intro i' hi'; cases hi'; exact ⟨hi, by simp⟩
    aft := by intro i hi; cases hi
    runB := by intro i hi; cases hi
    clo := by intro f hf; cases hf
    nodone := by
      intro _ h; apply T.nodone (by simp)
      unfold hasDone at *
      rw [mem_snoc_ne (by simp), mem_snoc_ne (by simp)] at h; exact h
    fin := by intro hf; cases hf
    df := by intro h; rw [mem_snoc_ne (by simp)] at h; exact T.df h
    duniq := by intro h; rw [mem_snoc_ne (by simp), mem_snoc_ne (by simp)] at h; exact T.duniq h }

/-- T5: end of script -/
theorem inv_T5 {g : Graph} {s : St} (hI : Inv g s) {t i : Nat} (hpc : s.pc t = .run i)
    (hi : ¬ i < (g.body t).length) :
    Inv g { s with pc := upd s.pc t (.closing true) } := by
  have T := hI.ti t
  unfold TIs at T; rw [hpc] at T
  have hil : i = (g.body t).length := by have := T.runB i rfl; omega
  apply inv_move_na hI (t := t) (q := .closing true) (es := [])
  case hpc => rfl
  case htr => simp
  case htg => rfl
  case hmp => rfl
  case hlen => simp
  case hacc => rw [hpc]; rfl
  case hnf => rw [hpc]; simp
  case hna => rw [hpc]; simp
  case hqacc => rfl
  case hfd => exact freshDone_nil _
  case hev => simp
  case hce => exact fun _ h => h
  case hi2 => exact fun _ h => Or.inl h
  case hok => simp
  case hnoacc => simp
  case hnr => simp
  case hi3 => exact fun _ h => Or.inl h
  case hfin3 => intro h; cases h
  case hq => exact {
    range := fun _ => T.range (by simp)
    once := fun _ => T.once (by simp)
    sub := fun _ => T.sub rfl
    accEv := fun _ hn => T.accEv rfl hn
    accEv' := fun _ => rfl
    cmdB := by intro m hm; simp [issued] at hm
    retB := by intro m hm; simp [returned] at hm
    okB := by intro m hm; simp [okUpTo] at hm; subst hm; rw [← hil]; exact T.okB i rfl
    wait := by intro k hk; cases hk
    inc := by intro i hi; cases hi
    aft := by intro i hi; cases hi
    runB := by intro i hi; cases hi
    clo := by
      intro f _
      refine ⟨fun j hj _ => Or.inl ((T.okB i rfl).2 j (by omega)).1, fun h => ?_⟩
      rename_i hf; cases hf; cases h
    nodone := fun _ => T.nodone (by simp)
    fin := by intro hf; cases hf
    df := T.df
    duniq := T.duniq }

/-- S1: RunLoop takes the `<-Done()` branch -/
theorem inv_S1 {g : Graph} {s : St} (hI : Inv g s) {t i : Nat} (hpc : s.pc t = .run i)
    (hc : (s.cerr (g.ctx t) || selfStopped g t i) = true) :
    Inv g { s with pc := upd s.pc t (.closing false) } := by
  have T := hI.ti t
  unfold TIs at T; rw [hpc] at T
  apply inv_move_na hI (t := t) (q := .closing false) (es := [])
  case hpc => rfl
  case htr => simp
  case htg => rfl
  case hmp => rfl
  case hlen => simp
  case hacc => rw [hpc]; rfl
  case hnf => rw [hpc]; simp
  case hna => rw [hpc]; simp
  case hqacc => rfl
  case hfd => exact freshDone_nil _
  case hev => simp
  case hce => exact fun _ h => h
  case hi2 => exact fun _ h => Or.inl h
  case hok => simp
  case hnoacc => simp
  case hnr => simp
  case hi3 => exact fun _ h => Or.inl h
  case hfin3 => intro h; cases h
  case hq => exact {
    range := fun _ => T.range (by simp)
    once := fun _ => T.once (by simp)
    sub := fun _ => T.sub rfl
    accEv := fun _ hn => T.accEv rfl hn
    accEv' := fun _ => rfl
    cmdB := by intro m hm; simp [issued] at hm
    retB := by intro m hm; simp [returned] at hm
    okB := by intro m hm; simp [okUpTo] at hm
    wait := by intro k hk; cases hk
    inc := by intro i hi; cases hi
    aft := by intro i hi; cases hi
    runB := by intro i hi; cases hi
    clo := by
      intro f _
      refine ⟨fun j _ hc => Or.inl ((T.okB i rfl).2 j (T.cmdB i rfl j hc)).1, fun _ => ?_⟩
      rcases Bool.or_eq_true_iff.mp hc with h1 | h1
      · exact Or.inl h1
      · right
        unfold selfStopped at h1
        rw [List.any_eq_true] at h1
        obtain ⟨k, hk, hkc⟩ := h1
        have hki : k < i := List.mem_range.mp hk
        have hkc' : g.cmdAt t k = some .stop := by simpa using hkc
        have dn := (T.okB i rfl).2
        refine ⟨⟨cmd_of_ret hI.ok (dn 0 (by omega)).1, k, List.mem_range.mpr (cmdAt_lt hkc'), hkc',
          cmd_of_ret hI.ok (dn k hki).1⟩, fun j hj => dn j (T.cmdB i rfl j hj)⟩
    nodone := fun _ => T.nodone (by simp)
    fin := by intro hf; cases hf
    df := T.df
    duniq := T.duniq }

/-- T6: a probe command returns nil -/
theorem inv_T6 {g : Graph} {s : St} (hw : WF g) (hI : Inv g s) {t i : Nat} (hpc : s.pc t = .inCmd i)
    (hcmd : g.cmdAt t i = some .probe) :
    Inv g (emit { s with pc := upd s.pc t (.afterCmd i) } (.ret t i true)) := by
  have T := hI.ti t
  unfold TIs at T; rw [hpc] at T
  have hfd : FreshDone s.tr [Ev.ret t i true] := by intro u b h; simp at h
  apply inv_move_na hI (t := t) (q := .afterCmd i) (es := [.ret t i true])
  case hpc => rfl
  case htr => rfl
  case htg => rfl
  case hmp => rfl
  case hlen => simp
  case hacc => rw [hpc]; rfl
  case hnf => rw [hpc]; simp
  case hna => rw [hpc]; simp
  case hqacc => rfl
  case hfd => exact hfd
  case hev =>
    intro u hu e he; simp at he; subst he
    exact ret_not_touch hw hu (by simp [hcmd]) (by simp [hcmd])
  case hce => exact fun _ h => h
  case hi2 => exact fun _ h => Or.inl h
  case hok =>
    intro e he; simp at he; subst he
    refine ⟨(T.inc i rfl).2, ?_, T.nodone (by simp), ?_⟩
    · intro h; rcases h with h | h <;> exact Nat.lt_irrefl _ (T.retB i rfl i _ h)
    · simp [retOk, hcmd]
  case hnoacc => simp
  case hnr => intro y hy h; exact absurd h (ret_not_try hw hy (by simp [hcmd]))
  case hi3 => exact fun _ h => Or.inl h
  case hfin3 => intro h; cases h
  case hq =>
    show TI g t (.afterCmd i) (s.tr ++ [.ret t i true]) _ _
    exact {
    range := fun _ => T.range (by simp)
    once := fun _ => created_mono _ (Nat.le_refl _) (T.once (by simp))
    sub := fun _ => submitted_mono _ (T.sub rfl)
    accEv := fun _ hn => acceptedEv_mono _ (T.accEv rfl hn)
    accEv' := fun _ => rfl
    cmdB := by
      intro m hm j hj; simp [issued] at hm; subst hm
      rw [mem_snoc_ne (by simp)] at hj
      exact T.cmdB (i + 1) rfl j hj
    retB := by
      intro m hm j b hj; simp [returned] at hm; subst hm
      rcases List.mem_append.mp hj with hj | hj
      · exact Nat.lt_succ_of_lt (T.retB i rfl j b hj)
      · simp at hj; omega
    okB := by
      intro m hm; simp [okUpTo] at hm; subst hm
      have := T.okB i rfl
      exact ⟨waitsOk_mono _ this.1, fun j hj => cmdDoneOk_mono _ hfd (this.2 j hj)⟩
    wait := by intro k hk; cases hk
    inc := by intro i hi; cases hi
    aft := by intro i' hi'; cases hi'; exact ⟨(T.inc i rfl).1, by simp⟩
    runB := by intro i hi; cases hi
    clo := by intro f hf; cases hf
    nodone := by
      intro _ h; apply T.nodone (by simp)
      unfold hasDone at *
      rw [mem_snoc_ne (by simp), mem_snoc_ne (by simp)] at h; exact h
    fin := by intro hf; cases hf
    df := by intro h; rw [mem_snoc_ne (by simp)] at h; exact T.df h
    duniq := by intro h; rw [mem_snoc_ne (by simp), mem_snoc_ne (by simp)] at h; exact T.duniq h }

/-- T6': a command that stops its scope returns nil -/
theorem inv_T6s {g : Graph} {s : St} (hw : WF g) (hI : Inv g s) {t i : Nat} (hpc : s.pc t = .inCmd i)
    (hcmd : g.cmdAt t i = some .stop) :
    Inv g (emit { s with pc := upd s.pc t (.afterCmd i) } (.ret t i true)) := by
  have T := hI.ti t
  unfold TIs at T; rw [hpc] at T
  have hfd : FreshDone s.tr [Ev.ret t i true] := by intro u b h; simp at h
  apply inv_move_na hI (t := t) (q := .afterCmd i) (es := [.ret t i true])
  case hpc => rfl
  case htr => rfl
  case htg => rfl
  case hmp => rfl
  case hlen => simp
  case hacc => rw [hpc]; rfl
  case hnf => rw [hpc]; simp
  case hna => rw [hpc]; simp
  case hqacc => rfl
  case hfd => exact hfd
  case hev =>
    intro u hu e he; simp at he; subst he
    exact ret_not_touch hw hu (by simp [hcmd]) (by simp [hcmd])
  case hce => exact fun _ h => h
  case hi2 => exact fun _ h => Or.inl h
  case hok =>
    intro e he; simp at he; subst he
    refine ⟨(T.inc i rfl).2, ?_, T.nodone (by simp), ?_⟩
    · intro h; rcases h with h | h <;> exact Nat.lt_irrefl _ (T.retB i rfl i _ h)
    · simp [retOk, hcmd]
  case hnoacc => simp
  case hnr => intro y hy h; exact absurd h (ret_not_try hw hy (by simp [hcmd]))
  case hi3 => exact fun _ h => Or.inl h
  case hfin3 => intro h; cases h
  case hq =>
    show TI g t (.afterCmd i) (s.tr ++ [.ret t i true]) _ _
    exact {
    range := fun _ => T.range (by simp)
    once := fun _ => created_mono _ (Nat.le_refl _) (T.once (by simp))
    sub := fun _ => submitted_mono _ (T.sub rfl)
    accEv := fun _ hn => acceptedEv_mono _ (T.accEv rfl hn)
    accEv' := fun _ => rfl
    cmdB := by
      intro m hm j hj; simp [issued] at hm; subst hm
      rw [mem_snoc_ne (by simp)] at hj
      exact T.cmdB (i + 1) rfl j hj
    retB := by
      intro m hm j b hj; simp [returned] at hm; subst hm
      rcases List.mem_append.mp hj with hj | hj
      · exact Nat.lt_succ_of_lt (T.retB i rfl j b hj)
      · simp at hj; omega
    okB := by
      intro m hm; simp [okUpTo] at hm; subst hm
      have := T.okB i rfl
      exact ⟨waitsOk_mono _ this.1, fun j hj => cmdDoneOk_mono _ hfd (this.2 j hj)⟩
    wait := by intro k hk; cases hk
    inc := by intro i hi; cases hi
    aft := by intro i' hi'; cases hi'; exact ⟨(T.inc i rfl).1, by simp⟩
    runB := by intro i hi; cases hi
    clo := by intro f hf; cases hf
    nodone := by
      intro _ h; apply T.nodone (by simp)
      unfold hasDone at *
      rw [mem_snoc_ne (by simp), mem_snoc_ne (by simp)] at h; exact h
    fin := by intro hf; cases hf
    df := by intro h; rw [mem_snoc_ne (by simp)] at h; exact T.df h
    duniq := by intro h; rw [mem_snoc_ne (by simp), mem_snoc_ne (by simp)] at h; exact T.duniq h }

theorem causeIn_self {g : Graph} {tr : List Ev} {t i : Nat} :
    causeIn g (g.ctx t) (tr ++ [Ev.ret t i false]) :=
  ⟨Ev.ret t i false, by simp, by simp [isCause]⟩

/-- T7: a failing command returns its error; RunLoop records it and returns -/
theorem inv_T7 {g : Graph} {s : St} (hw : WF g) (hI : Inv g s) {t i : Nat} (hpc : s.pc t = .inCmd i)
    (hcmd : g.cmdAt t i = some .fail) :
    Inv g (emit { s with pc := upd s.pc t (.closing false), cerr := upd s.cerr (g.ctx t) true }
      (.ret t i false)) := by
  have T := hI.ti t
  unfold TIs at T; rw [hpc] at T
  have hfd : FreshDone s.tr [Ev.ret t i false] := by intro u b h; simp at h
  apply inv_move_na hI (t := t) (q := .closing false) (es := [.ret t i false])
  case hpc => rfl
  case htr => rfl
  case htg => rfl
  case hmp => rfl
  case hlen => simp
  case hacc => rw [hpc]; rfl
  case hnf => rw [hpc]; simp
  case hna => rw [hpc]; simp
  case hqacc => rfl
  case hfd => exact hfd
  case hev =>
    intro u hu e he; simp at he; subst he
    exact ret_not_touch hw hu (by simp [hcmd]) (by simp [hcmd])
  case hce => intro X h; show upd s.cerr (g.ctx t) true X = true; simp only [upd_apply]; split <;> simp [h]
  case hi2 =>
    intro X h
    change upd s.cerr (g.ctx t) true X = true at h
    simp only [upd_apply] at h
    split at h
    · rename_i hX; subst hX; exact Or.inr (Or.inl causeIn_self)
    · exact Or.inl h
  case hok =>
    intro e he; simp at he; subst he
    refine ⟨(T.inc i rfl).2, ?_, T.nodone (by simp), ?_⟩
    · intro h; rcases h with h | h <;> exact Nat.lt_irrefl _ (T.retB i rfl i _ h)
    · simp [retOk, hcmd]
  case hnoacc => simp
  case hnr => intro y hy h; simp at h
  case hi3 => 
    intro X h
    change upd s.cerr (g.ctx t) true X = true at h
    simp only [upd_apply] at h
    split at h
    · rename_i hX; exact Or.inr ⟨hX, by simp⟩
    · exact Or.inl h
  case hfin3 => intro h; cases h
  case hq =>
    show TI g t (.closing false) (s.tr ++ [.ret t i false]) (upd s.cerr (g.ctx t) true (g.ctx t)) _
    exact {
    range := fun _ => T.range (by simp)
    once := fun _ => created_mono _ (Nat.le_refl _) (T.once (by simp))
    sub := fun _ => submitted_mono _ (T.sub rfl)
    accEv := fun _ hn => acceptedEv_mono _ (T.accEv rfl hn)
    accEv' := fun _ => rfl
    cmdB := by intro m hm; simp [issued] at hm
    retB := by intro m hm; simp [returned] at hm
    okB := by intro m hm; simp [okUpTo] at hm
    wait := by intro k hk; cases hk
    inc := by intro i hi; cases hi
    aft := by intro i hi; cases hi
    runB := by intro i hi; cases hi
    clo := by
      intro f _
      refine ⟨fun j _ hc => ?_, fun _ => Or.inl (by simp)⟩
      rw [mem_snoc_ne (by simp)] at hc
      have hj := T.cmdB (i + 1) rfl j hc
      rcases Nat.lt_or_ge j i with h1 | h1
      · exact hasRet_mono _ (Or.inl ((T.okB i rfl).2 j h1).1)
      · have : j = i := by omega
        subst this; exact Or.inr (by simp)
    nodone := by
      intro _ h; apply T.nodone (by simp)
      unfold hasDone at *
      rw [mem_snoc_ne (by simp), mem_snoc_ne (by simp)] at h; exact h
    fin := by intro hf; cases hf
    df := by intro _; simp
    duniq := by intro h; rw [mem_snoc_ne (by simp), mem_snoc_ne (by simp)] at h; exact T.duniq h }

theorem finished_of_not_parentAt {g : Graph} {s : St} (hI : Inv g s) {u : Nat}
    (ha : (s.pc u).accepted = true) (hp : ¬ parentAt g s u) : s.pc u = .finished := by
  rcases Classical.em (s.pc u = .finished) with h | h
  · exact h
  · exact absurd (hI.x3 u ha h) hp

/-- a task that has issued a command is accepted -/
theorem accepted_of_cmd {g : Graph} {s : St} (hI : Inv g s) {u j : Nat} (hc : Ev.cmd u j ∈ s.tr) :
    (s.pc u).accepted = true := by
  have U := hI.ti u
  unfold TIs at U
  cases hpc : s.pc u <;> simp [PC.accepted]
  · rw [hpc] at U; exact absurd (U.cmdB 0 rfl j hc) (Nat.not_lt_zero _)
  · rw [hpc] at U; exact absurd (U.cmdB 0 rfl j hc) (Nat.not_lt_zero _)

theorem mem_handlers {g : Graph} {y h : Nat} :
    h ∈ g.handlers y ↔ (g.tryd y).fin = some h ∨ (g.tryd y).fail = some h ∨ (g.tryd y).succ = some h := by
  unfold Graph.handlers
  simp only [List.mem_append, Option.mem_toList, or_assoc]

/-- facts about a handler `h` of try `y` -/
theorem handler_facts {g : Graph} (hw : WF g) {y h : Nat} (hy : y < g.tries.length) (hh : h ∈ g.handlers y) :
    h < g.n ∧ g.ctx h = g.ctx (g.tryd y).owner ∧
    parentOf g h = some ((g.tryd y).owner, (g.tryd y).idx) := by
  obtain ⟨h1, h2, h3⟩ := hw.tryHandlers hy
  rcases mem_handlers.mp hh with hx | hx | hx
  · obtain ⟨a, b⟩ := h3 h hx
    refine ⟨a, (hw.hfin a b).2.2.1, ?_⟩
    unfold parentOf; rw [b]
  · obtain ⟨a, b⟩ := h2 h hx
    refine ⟨a, (hw.hfail a b).2.2.1, ?_⟩
    unfold parentOf; rw [b]
  · obtain ⟨a, b⟩ := h1 h hx
    refine ⟨a, (hw.hsucc a b).2.2.1, ?_⟩
    unfold parentOf; rw [b]

theorem not_parentAt {g : Graph} {s : St} {u p i : Nat} (hp : parentOf g u = some (p, i))
    (hn : s.pc p ≠ .afterCmd i) : ¬ parentAt g s u := fun h => hn (h p i hp)

/-- a task that closed without error had entered its first command -/
theorem cmd0_of_done_true {g : Graph} (hw : WF g) {tr : List Ev} (hok : TraceOk g tr) {h : Nat} (hn : h < g.n)
    (hd : Ev.done h true ∈ tr) : Ev.cmd h 0 ∈ tr := by
  obtain ⟨pre, post, hs, hk⟩ := traceOk_mem hok hd
  have h0 : 0 < (g.body h).length := List.length_pos_iff.mpr (hw.body h hn)
  have h3 := hk.2.2
  simp only [if_true] at h3
  have hpre : TraceOk g pre := traceOk_prefix (b := Ev.done h true :: post) (by rw [← hs]; exact hok)
  rw [hs]
  rcases h3.2 with h4 | h4
  · exact List.mem_append_left _ (cmd_of_ret hpre (h4 0 (List.mem_range.mpr h0)).1)
  · exact List.mem_append_left _ h4.1.1

theorem mem_selected {g : Graph} {tr : List Ev} {y h : Nat} (hsel : h ∈ selected g tr y) :
    (g.tryd y).fin = some h ∨ (Ev.done (g.tryd y).body false ∈ tr ∧ (g.tryd y).fail = some h) ∨
    (Ev.done (g.tryd y).body true ∈ tr ∧ (g.tryd y).succ = some h) := by
  unfold selected at hsel
  simp only [List.mem_append, Option.mem_toList] at hsel
  rcases hsel with (h1 | h1) | h1
  · exact Or.inl h1
  · split at h1
    · rename_i hd; exact Or.inr (Or.inl ⟨hd, by simpa using h1⟩)
    · simp at h1
  · split at h1
    · rename_i hd; exact Or.inr (Or.inr ⟨hd, by simpa using h1⟩)
    · simp at h1

/-- what a task that is no longer blocked at command `i` knows about a try block it started there -/
theorem try_closed {g : Graph} {s : St} (hw : WF g) (hI : Inv g s) {t i y : Nat}
    (hcmd : g.cmdAt t i = some (.try_ y)) (hret : Ev.ret t i true ∈ s.tr) (hna : s.pc t ≠ .afterCmd i) :
    hasDone s.tr (g.tryd y).body ∧
    (∀ h ∈ g.handlers y, Ev.cmd h 0 ∈ s.tr → hasDone s.tr h) ∧
    (∀ h ∈ g.handlers y, Ev.hacc h ∈ s.tr → hasDone s.tr h) ∧
    (∀ h ∈ selected g s.tr y, handlerFate g s.tr y h) := by
  have ht : t < g.n := by
    rcases Nat.lt_or_ge t g.n with h | h
    · exact h
    · have := cmdAt_lt hcmd; rw [body_out h] at this; simp at this
  obtain ⟨hy, ho, hi⟩ := hw.tryc ht hcmd
  obtain ⟨_, _, hbn, hbr⟩ := hw.tryOwner hy
  have hown : ¬ (s.pc (g.tryd y).owner = .afterCmd (g.tryd y).idx) := by rw [ho, hi]; exact hna
  -- the body task
  have B := hI.ti (g.tryd y).body
  unfold TIs at B
  have hbacc : (s.pc (g.tryd y).body).accepted = true := by
    apply B.accEv'
    unfold acceptedEv; rw [hbr]; simp only; rw [ho, hi]; exact hret
  have hbfin : s.pc (g.tryd y).body = .finished := by
    apply finished_of_not_parentAt hI hbacc
    exact not_parentAt (by unfold parentOf; rw [hbr]) hown
  have hbd := (B.fin hbfin).1
  -- a handler that is accepted has finished
  have hfin : ∀ h ∈ g.handlers y, (s.pc h).accepted = true → s.pc h = .finished := by
    intro h hh ha
    apply finished_of_not_parentAt hI ha
    exact not_parentAt (handler_facts hw hy hh).2.2 hown
  refine ⟨hbd, ?_, ?_, ?_⟩
  · intro h hh hc
    exact ((hI.ti h).fin (hfin h hh (accepted_of_cmd hI hc))).1
  · intro h hh hc
    exact ((hI.ti h).fin (hfin h hh (hI.ha h hc))).1
  · -- the try goroutine is done
    have Y := hI.yi y hy
    have hst : s.tg y ≠ .idle := Y.started' (by rw [ho, hi]; exact hret)
    have hdn : s.tg y = .done := by
      rcases Classical.em (s.tg y = .done) with h | h
      · exact h
      · exact absurd (Y.active hst h) hown
    have hrank : (s.tg y).rank = 5 := by rw [hdn]; rfl
    intro h hsel
    have hsub : subSeen g s y h := by
      rcases mem_selected hsel with h1 | ⟨hd, h1⟩ | ⟨hd, h1⟩
      · exact Y.finSub (by omega) h h1
      · exact Y.failSub (by omega) hd h h1
      · exact Y.succSub (by omega) hd h h1
    have hhand : h ∈ g.handlers y := by
      apply mem_handlers.mpr
      rcases mem_selected hsel with h1 | ⟨_, h1⟩ | ⟨_, h1⟩
      · exact Or.inl h1
      · exact Or.inr (Or.inl h1)
      · exact Or.inr (Or.inr h1)
    rcases hsub with ⟨ha, hac⟩ | hr
    · have hf := hfin h hhand ha
      by_cases hc0 : Ev.cmd h 0 ∈ s.tr
      · exact Or.inl hc0
      · refine Or.inr (Or.inl ⟨hac, ?_⟩)
        rcases ((hI.ti h).fin hf).1 with hd | hd
        · exact absurd (cmd0_of_done_true hw hI.ok (handler_facts hw hy hhand).1 hd) hc0
        · exact hd
    · exact Or.inr (Or.inr hr)

theorem spawn_closed {g : Graph} {s : St} (hw : WF g) (hI : Inv g s) {t i c : Nat}
    (hcmd : g.cmdAt t i = some (.spawn c)) (hret : Ev.ret t i true ∈ s.tr) (hna : s.pc t ≠ .afterCmd i) :
    hasDone s.tr c := by
  have ht : t < g.n := by
    rcases Nat.lt_or_ge t g.n with h | h
    · exact h
    · have := cmdAt_lt hcmd; rw [body_out h] at this; simp at this
  obtain ⟨hc, hr⟩ := hw.spawn ht hcmd
  have C := hI.ti c
  unfold TIs at C
  have hacc : (s.pc c).accepted = true := by
    apply C.accEv'; unfold acceptedEv; rw [hr]; exact hret
  have : s.pc c = .finished := by
    apply finished_of_not_parentAt hI hacc
    exact not_parentAt (by unfold parentOf; rw [hr]) hna
  exact (C.fin this).1

/-- T14: the deferred closes run: `done` event, latch released, task scope closed -/
theorem inv_T14 {g : Graph} {s : St} (hw : WF g) (hI : Inv g s) {t : Nat} {f : Bool}
    (hpc : s.pc t = .closing f) :
    Inv g (emit { s with pc := upd s.pc t .finished } (.done t (!s.cerr (g.ctx t)))) := by
  have T := hI.ti t
  unfold TIs at T; rw [hpc] at T
  have ht : t < g.n := T.range (by simp)
  have hnd : ¬ hasDone s.tr t := T.nodone (by simp)
  have hfd : FreshDone s.tr [Ev.done t (!s.cerr (g.ctx t))] := by
    intro u b h; simp at h; rw [h.1]; exact hnd
  have hna : ∀ i, s.pc t ≠ .afterCmd i := by rw [hpc]; simp
  apply inv_move_na hI (t := t) (q := .finished) (es := [.done t (!s.cerr (g.ctx t))])
  case hpc => rfl
  case htr => rfl
  case htg => rfl
  case hmp => rfl
  case hlen => simp
  case hacc => rw [hpc]; rfl
  case hnf => rw [hpc]; simp
  case hna => exact hna
  case hqacc => rfl
  case hfd => exact hfd
  case hev => intro u hu e he; simp at he; subst he; simp [touches]; exact fun h => hu h.symm
  case hce => exact fun _ h => h
  case hi2 => exact fun _ h => Or.inl h
  case hok =>
    intro e he; simp at he; subst he
    refine ⟨hnd, ?_, ?_⟩
    · intro i hi hc
      rw [List.mem_range] at hi
      refine ⟨(T.clo f rfl).1 i hi hc, fun hret => ?_⟩
      split
      · rename_i c hcmd; exact spawn_closed hw hI hcmd hret (hna i)
      · rename_i y hcmd; exact try_closed hw hI hcmd hret (hna i)
      · trivial
    · cases hce : s.cerr (g.ctx t)
      · simp only [Bool.not_false, if_true]
        cases f
        · rcases (T.clo false rfl).2 rfl with h1 | ⟨h1, h2⟩
          · rw [hce] at h1; cases h1
          · refine ⟨?_, Or.inr ⟨h1, fun i _ hc => h2 i hc⟩⟩
            obtain ⟨pre0, post0, hs0, hk0⟩ := traceOk_mem hI.ok h1.1
            have := hk0.2.2.2
            simp only [if_true] at this
            rw [hs0]; exact waitsOk_mono _ this.2
        · have := T.okB _ rfl
          exact ⟨this.1, Or.inl (fun i hi => this.2 i (List.mem_range.mp hi))⟩
      · simp only [Bool.not_true]
        exact hI.i2 _ hce
  case hnoacc => simp
  case hnr => intro y hy h; simp at h
  case hi3 => exact fun _ h => Or.inl h
  case hfin3 => 
    intro _ hc
    show Ev.done t false ∈ s.tr ++ [Ev.done t (!s.cerr (g.ctx t))]
    rw [hc]; simp
  case hq =>
    show TI g t .finished (s.tr ++ [.done t (!s.cerr (g.ctx t))]) (s.cerr (g.ctx t)) _
    exact {
    range := fun _ => ht
    once := fun _ => created_mono _ (Nat.le_refl _) (T.once (by simp))
    sub := fun _ => submitted_mono _ (T.sub rfl)
    accEv := fun _ hn => acceptedEv_mono _ (T.accEv rfl hn)
    accEv' := fun _ => rfl
    cmdB := by intro m hm; simp [issued] at hm
    retB := by intro m hm; simp [returned] at hm
    okB := by intro m hm; simp [okUpTo] at hm
    wait := by intro k hk; cases hk
    inc := by intro i hi; cases hi
    aft := by intro i hi; cases hi
    runB := by intro i hi; cases hi
    clo := by intro f hf; cases hf
    nodone := by intro h; exact absurd rfl h
    fin := by
      intro _
      refine ⟨?_, ?_⟩
      · unfold hasDone; cases (!s.cerr (g.ctx t)) <;> simp
      · cases f
        · rcases (T.clo false rfl).2 rfl with h1 | h1
          · exact Or.inr h1
          · exact Or.inl (List.mem_append_left _ h1.1.1)
        · have h0 : 0 < (g.body t).length := List.length_pos_iff.mpr (hw.body t ht)
          have := ((T.okB _ rfl).2 0 h0).1
          exact Or.inl (List.mem_append_left _ (cmd_of_ret hI.ok this))
    df := by
      intro h
      rcases List.mem_append.mp h with h | h
      · exact absurd (Or.inr h) hnd
      · simp at h; cases hc : s.cerr (g.ctx t) <;> simp [hc] at h ⊢
    duniq := by
      intro h
      have h1 := h.1; have h2 := h.2
      rcases List.mem_append.mp h1 with h1 | h1
      · exact hnd (Or.inl h1)
      · rcases List.mem_append.mp h2 with h2 | h2
        · exact hnd (Or.inr h2)
        · simp at h1 h2; rw [h1] at h2; cases h2 }

/-! ### Leaving a command: the guard `cmdChildrenFinished` -/

theorem parentOf_lt {g : Graph} {u p i : Nat} (h : parentOf g u = some (p, i)) : u < g.n := by
  rcases Nat.lt_or_ge u g.n with hu | hu
  · exact hu
  · unfold parentOf at h; rw [role_out hu] at h; cases h

/-- everything submitted by command `i` of `t` has closed when the guard holds -/
theorem guard_child {g : Graph} {s : St} (hw : WF g) {t i u : Nat} {c : Cmd}
    (hp : parentOf g u = some (t, i)) (hcmd : g.cmdAt t i = some c)
    (hg : cmdChildrenFinished g s c = true) (ha : (s.pc u).accepted = true) : s.pc u = .finished := by
  have hu := parentOf_lt hp
  unfold parentOf at hp
  split at hp
  · cases hp
  · rename_i p' i' hr
    simp only [Option.some.injEq, Prod.mk.injEq] at hp
    have := (hw.child hu hr).1
    rw [hp.1, hp.2, hcmd] at this
    cases this
    simpa [cmdChildrenFinished] using hg
  · rename_i y hr
    simp only [Option.some.injEq, Prod.mk.injEq] at hp
    obtain ⟨hy, hb, _⟩ := hw.tbody hu hr
    have := (hw.tryOwner hy).2.1
    rw [hp.1, hp.2, hcmd] at this
    cases this
    simp only [cmdChildrenFinished, Bool.and_eq_true, beq_iff_eq] at hg
    rw [← hb]; exact hg.1.2
  · rename_i y hr
    simp only [Option.some.injEq, Prod.mk.injEq] at hp
    obtain ⟨hy, hb, _⟩ := hw.hsucc hu hr
    have := (hw.tryOwner hy).2.1
    rw [hp.1, hp.2, hcmd] at this
    cases this
    simp only [cmdChildrenFinished, Bool.and_eq_true, beq_iff_eq, List.all_eq_true, Bool.or_eq_true,
      Bool.not_eq_true'] at hg
    have hm : u ∈ g.handlers y := mem_handlers.mpr (by simp [hb])
    rcases hg.2 u hm with h | h
    · rw [h] at ha; cases ha
    · exact h
  · rename_i y hr
    simp only [Option.some.injEq, Prod.mk.injEq] at hp
    obtain ⟨hy, hb, _⟩ := hw.hfail hu hr
    have := (hw.tryOwner hy).2.1
    rw [hp.1, hp.2, hcmd] at this
    cases this
    simp only [cmdChildrenFinished, Bool.and_eq_true, beq_iff_eq, List.all_eq_true, Bool.or_eq_true,
      Bool.not_eq_true'] at hg
    have hm : u ∈ g.handlers y := mem_handlers.mpr (by simp [hb])
    rcases hg.2 u hm with h | h
    · rw [h] at ha; cases ha
    · exact h
  · rename_i y hr
    simp only [Option.some.injEq, Prod.mk.injEq] at hp
    obtain ⟨hy, hb, _⟩ := hw.hfin hu hr
    have := (hw.tryOwner hy).2.1
    rw [hp.1, hp.2, hcmd] at this
    cases this
    simp only [cmdChildrenFinished, Bool.and_eq_true, beq_iff_eq, List.all_eq_true, Bool.or_eq_true,
      Bool.not_eq_true'] at hg
    have hm : u ∈ g.handlers y := mem_handlers.mpr (by simp [hb])
    rcases hg.2 u hm with h | h
    · rw [h] at ha; cases ha
    · exact h

/-- `inv_move` for a task that leaves `afterCmd i` under the guard -/
theorem inv_move_after {g : Graph} {s s' : St} (hw : WF g) (hI : Inv g s) {t i : Nat} {c : Cmd} {q : PC}
    (hpc0 : s.pc t = .afterCmd i) (hcmd : g.cmdAt t i = some c)
    (hg : cmdChildrenFinished g s c = true)
    (hpc : s'.pc = upd s.pc t q) (htr : s'.tr = s.tr) (htg : s'.tg = s.tg) (hmp : s'.mp = s.mp)
    (hcerr : s'.cerr = s.cerr) (hqacc : q.accepted = true) (hqnf : q ≠ .finished)
    (hq : TI g t q s.tr (s.cerr (g.ctx t)) (s.tg (tryOf g t))) :
    Inv g s' := by
  have hself : ∀ u, parentOf g u = some (t, i) → (s.pc u).accepted = true → s.pc u = .finished :=
    fun u hp ha => guard_child hw hp hcmd hg ha
  have hparent : ∀ u, (s.pc u).accepted = true → s.pc u ≠ .finished → parentAt g s u → parentAt g s' u := by
    intro u ha hf h p j hp
    have hpj := h p j hp
    by_cases hpt : p = t
    · subst hpt
      rw [hpc0] at hpj; cases hpj
      exact absurd (hself u hp ha) hf
    · rw [hpc, upd_other _ _ hpt]; exact hpj
  apply inv_move hI (es := []) hpc (by simp [htr]) htg hmp (by simp) (by rw [hpc0]; rfl) hqacc
  case hq => rw [htr, hcerr]; exact hq
  case hfd => exact freshDone_nil _
  case hev => simp
  case hce => rw [hcerr]; exact fun _ h => h
  case hi2 => rw [hcerr]; exact fun _ h => Or.inl h
  case hok => simp
  case hnoacc => simp
  case hpar => intro u _ ha hf h; exact hparent u ha hf h
  case hpart =>
    intro _
    have ha : (s.pc t).accepted = true := by rw [hpc0]; rfl
    have hf : s.pc t ≠ .finished := by rw [hpc0]; simp
    exact hparent t ha hf (hI.x3 t ha hf)
  case hown =>
    intro y hy h1 h2 heq
    have hact := (hI.yi y hy).active h1 h2
    rw [heq, hpc0] at hact
    cases hact
    have := (hw.tryOwner hy).2.1
    rw [heq, hcmd] at this
    cases this
    simp only [cmdChildrenFinished, Bool.and_eq_true, beq_iff_eq] at hg
    exact h2 hg.1.1
  case hnr => simp
  case hi3 => rw [hcerr]; exact fun _ h => Or.inl h
  case hfin3 => intro h; exact absurd h hqnf

/-- the command a task is blocked in has completed successfully, if the guard holds and its context is clean -/
theorem cmdDoneOk_of_guard {g : Graph} {s : St} (hw : WF g) (hI : Inv g s) {t i : Nat} {c : Cmd}
    (ht : t < g.n) (hcmd : g.cmdAt t i = some c) (hret : Ev.ret t i true ∈ s.tr)
    (hg : cmdChildrenFinished g s c = true) (hce : s.cerr (g.ctx t) = false) :
    cmdDoneOk g s.tr t i := by
  refine ⟨hret, ?_⟩
  rw [hcmd]
  cases c with
  | probe => trivial
  | fail => trivial
  | stop => trivial
  | spawn c =>
    simp only [cmdChildrenFinished, beq_iff_eq] at hg
    have hc := hw.spawn ht hcmd
    apply done_true_of_finished hI hg
    rw [(hw.child hc.1 hc.2).2.2]; exact hce
  | try_ y =>
    simp only [cmdChildrenFinished, Bool.and_eq_true, beq_iff_eq, List.all_eq_true, Bool.or_eq_true,
      Bool.not_eq_true'] at hg
    obtain ⟨hy, ho, hi⟩ := hw.tryc ht hcmd
    have Y := hI.yi y hy
    refine ⟨((hI.ti _).fin hg.1.2).1, ?_⟩
    intro h hsel
    have hrank : (s.tg y).rank = 5 := by rw [hg.1.1]; rfl
    have hacc_or : (s.pc h).accepted = true ∨ s.cerr (g.ctx (g.tryd y).owner) = true := by
      unfold selected at hsel
      simp only [List.mem_append, Option.mem_toList] at hsel
      rcases hsel with (h1 | h1) | h1
      · exact Y.finAcc (by omega) h h1
      · split at h1
        · rename_i hd; exact Y.failAcc (by omega) hd h (by simpa using h1)
        · simp at h1
      · split at h1
        · rename_i hd; exact Y.succAcc (by omega) hd h (by simpa using h1)
        · simp at h1
    have hhand : h ∈ g.handlers y := by
      unfold selected at hsel
      simp only [List.mem_append, Option.mem_toList] at hsel
      apply mem_handlers.mpr
      rcases hsel with (h1 | h1) | h1
      · exact Or.inl h1
      · split at h1
        · exact Or.inr (Or.inl (by simpa using h1))
        · simp at h1
      · split at h1
        · exact Or.inr (Or.inr (by simpa using h1))
        · simp at h1
    rcases hacc_or with ha | hc
    · have hf : s.pc h = .finished := by
        rcases hg.2 h hhand with h1 | h1
        · rw [h1] at ha; cases ha
        · exact h1
      apply done_true_of_finished hI hf
      rw [(handler_facts hw hy hhand).2.1, ho]; exact hce
    · rw [ho, hce] at hc; cases hc

/-- T13: the command scope closed without error, next command -/
theorem inv_T13 {g : Graph} {s : St} (hw : WF g) (hI : Inv g s) {t i : Nat} {c : Cmd}
    (hpc : s.pc t = .afterCmd i) (hcmd : g.cmdAt t i = some c)
    (hg : cmdChildrenFinished g s c = true) (hce : s.cerr (g.ctx t) = false) :
    Inv g { s with pc := upd s.pc t (.run (i + 1)) } := by
  have T := hI.ti t
  unfold TIs at T; rw [hpc] at T
  have ht : t < g.n := T.range (by simp)
  refine inv_move_after (s' := { s with pc := upd s.pc t (.run (i + 1)) }) hw hI hpc hcmd hg
    rfl rfl rfl rfl rfl rfl (by simp) ?_
  exact {
    range := fun _ => ht
    once := fun _ => T.once (by simp)
    sub := fun _ => T.sub rfl
    accEv := fun _ hn => T.accEv rfl hn
    accEv' := fun _ => rfl
    cmdB := by intro m hm j hj; simp [issued] at hm; subst hm; exact T.cmdB (i + 1) rfl j hj
    retB := by intro m hm j b hj; simp [returned] at hm; subst hm; exact T.retB (i + 1) rfl j b hj
    okB := by
      intro m hm; simp [okUpTo] at hm; subst hm
      have := T.okB i rfl
      refine ⟨this.1, fun j hj => ?_⟩
      rcases Nat.lt_or_ge j i with h1 | h1
      · exact this.2 j h1
      · have : j = i := by omega
        subst this
        exact cmdDoneOk_of_guard hw hI ht hcmd (T.aft j rfl).2 hg hce
    wait := by intro k hk; cases hk
    inc := by intro i hi; cases hi
    aft := by intro i hi; cases hi
    runB := by intro i' hi'; cases hi'; have := (T.aft i rfl).1; omega
    clo := by intro f hf; cases hf
    nodone := fun _ => T.nodone (by simp)
    fin := by intro hf; cases hf
    df := T.df
    duniq := T.duniq }

/-- T12: the command scope's Close reports the context's error: RunLoop records it and returns -/
theorem inv_T12 {g : Graph} {s : St} (hw : WF g) (hI : Inv g s) {t i : Nat} {c : Cmd}
    (hpc : s.pc t = .afterCmd i) (hcmd : g.cmdAt t i = some c)
    (hg : cmdChildrenFinished g s c = true) (hce : s.cerr (g.ctx t) = true) :
    Inv g { s with pc := upd s.pc t (.closing false) } := by
  have T := hI.ti t
  unfold TIs at T; rw [hpc] at T
  have ht : t < g.n := T.range (by simp)
  refine inv_move_after (s' := { s with pc := upd s.pc t (.closing false) }) hw hI hpc hcmd hg
    rfl rfl rfl rfl rfl rfl (by simp) ?_
  exact {
    range := fun _ => ht
    once := fun _ => T.once (by simp)
    sub := fun _ => T.sub rfl
    accEv := fun _ hn => T.accEv rfl hn
    accEv' := fun _ => rfl
    cmdB := by intro m hm; simp [issued] at hm
    retB := by intro m hm; simp [returned] at hm
    okB := by intro m hm; simp [okUpTo] at hm
    wait := by intro k hk; cases hk
    inc := by intro i hi; cases hi
    aft := by intro i hi; cases hi
    runB := by intro i hi; cases hi
    clo := by
      intro f _
      refine ⟨fun j _ hc => ?_, fun _ => Or.inl hce⟩
      have hj := T.cmdB (i + 1) rfl j hc
      rcases Nat.lt_or_ge j i with h1 | h1
      · exact Or.inl ((T.okB i rfl).2 j h1).1
      · have : j = i := by omega
        subst this; exact Or.inl (T.aft j rfl).2
    nodone := fun _ => T.nodone (by simp)
    fin := by intro hf; cases hf
    df := T.df
    duniq := T.duniq }

/-! ### Submissions -/

/-- TI-level effect of a command returning nil -/
theorem TI.ret_true {g : Graph} {t i : Nat} {tr : List Ev} {ce : Bool} {tgv : TG}
    (T : TI g t (.inCmd i) tr ce tgv) : TI g t (.afterCmd i) (tr ++ [.ret t i true]) ce tgv := by
  have hfd : FreshDone tr [Ev.ret t i true] := by intro u b h; simp at h
  exact {
    range := fun _ => T.range (by simp)
    once := fun _ => created_mono _ (Nat.le_refl _) (T.once (by simp))
    sub := fun _ => submitted_mono _ (T.sub rfl)
    accEv := fun _ hn => acceptedEv_mono _ (T.accEv rfl hn)
    accEv' := fun _ => rfl
    cmdB := by
      intro m hm j hj; simp [issued] at hm; subst hm
      rw [mem_snoc_ne (by simp)] at hj
      exact T.cmdB (i + 1) rfl j hj
    retB := by
      intro m hm j b hj; simp [returned] at hm; subst hm
      rcases List.mem_append.mp hj with hj | hj
      · exact Nat.lt_succ_of_lt (T.retB i rfl j b hj)
      · simp at hj; omega
    okB := by
      intro m hm; simp [okUpTo] at hm; subst hm
      have := T.okB i rfl
      exact ⟨waitsOk_mono _ this.1, fun j hj => cmdDoneOk_mono _ hfd (this.2 j hj)⟩
    wait := by intro k hk; cases hk
    inc := by intro i hi; cases hi
    aft := by intro i' hi'; cases hi'; exact ⟨(T.inc i rfl).1, by simp⟩
    runB := by intro i hi; cases hi
    clo := by intro f hf; cases hf
    nodone := by
      intro _ h; apply T.nodone (by simp)
      unfold hasDone at *
      rw [mem_snoc_ne (by simp), mem_snoc_ne (by simp)] at h; exact h
    fin := by intro hf; cases hf
    df := by intro h; rw [mem_snoc_ne (by simp)] at h; exact T.df h
    duniq := by intro h; rw [mem_snoc_ne (by simp), mem_snoc_ne (by simp)] at h; exact T.duniq h }

/-- TI-level effect of a command returning an error (which RunLoop records in the context) -/
theorem TI.ret_false {g : Graph} {t i : Nat} {tr : List Ev} {ce : Bool} {tgv : TG}
    (T : TI g t (.inCmd i) tr ce tgv) : TI g t (.closing false) (tr ++ [.ret t i false]) true tgv := by
  exact {
    range := fun _ => T.range (by simp)
    once := fun _ => created_mono _ (Nat.le_refl _) (T.once (by simp))
    sub := fun _ => submitted_mono _ (T.sub rfl)
    accEv := fun _ hn => acceptedEv_mono _ (T.accEv rfl hn)
    accEv' := fun _ => rfl
    cmdB := by intro m hm; simp [issued] at hm
    retB := by intro m hm; simp [returned] at hm
    okB := by intro m hm; simp [okUpTo] at hm
    wait := by intro k hk; cases hk
    inc := by intro i hi; cases hi
    aft := by intro i hi; cases hi
    runB := by intro i hi; cases hi
    clo := by
      intro f _
      refine ⟨fun j _ hc => ?_, fun _ => Or.inl rfl⟩
      rw [mem_snoc_ne (by simp)] at hc
      have hj := T.cmdB (i + 1) rfl j hc
      rcases Nat.lt_or_ge j i with h1 | h1
      · exact hasRet_mono _ (Or.inl ((T.okB i rfl).2 j h1).1)
      · have : j = i := by omega
        subst this; exact Or.inr (by simp)
    nodone := by
      intro _ h; apply T.nodone (by simp)
      unfold hasDone at *
      rw [mem_snoc_ne (by simp), mem_snoc_ne (by simp)] at h; exact h
    fin := by intro hf; cases hf
    df := fun _ => rfl
    duniq := by intro h; rw [mem_snoc_ne (by simp), mem_snoc_ne (by simp)] at h; exact T.duniq h }

/-- TI of a task at the moment its submission is decided: `q` is `waiting 0` or `rejected`; the new
events `es` contain no command/return/done event of the task itself -/
theorem TI.create {g : Graph} {c : Nat} {tr : List Ev} {ce ce' : Bool} {tgv tgv' : TG}
    (C : TI g c .idle tr ce tgv) {es : List Ev} {q : PC} (hq : q = .waiting 0 ∨ q = .rejected)
    (hn : c < g.n)
    (hcr : created g (tr ++ es) tgv' c)
    (hsub : q = .waiting 0 → submitted g (tr ++ es) c)
    (hacc : q = .waiting 0 → nameable g c → acceptedEv g (tr ++ es) c)
    (hacc' : q = .rejected → ¬ acceptedEv g (tr ++ es) c)
    (hno : ∀ e ∈ es, (∀ j, e ≠ .cmd c j) ∧ (∀ j b, e ≠ .ret c j b) ∧ (∀ b, e ≠ .done c b))
    (hce : ce = true → ce' = true) :
    TI g c q (tr ++ es) ce' tgv' := by
  have memOld : ∀ e, ((∃ j, e = .cmd c j) ∨ (∃ j b, e = .ret c j b) ∨ (∃ b, e = .done c b)) →
      e ∈ tr ++ es → e ∈ tr := by
    intro e he hm
    rcases List.mem_append.mp hm with hm | hm
    · exact hm
    · obtain ⟨h1, h2, h3⟩ := hno e hm
      rcases he with ⟨j, he⟩ | ⟨j, b, he⟩ | ⟨b, he⟩
      · exact absurd he (h1 j)
      · exact absurd he (h2 j b)
      · exact absurd he (h3 b)
  have hiss : issued q = some 0 := by rcases hq with h | h <;> subst h <;> rfl
  have hret : returned q = some 0 := by rcases hq with h | h <;> subst h <;> rfl
  exact {
    range := fun _ => hn
    once := fun _ => hcr
    sub := by
      intro ha
      rcases hq with h | h
      · exact hsub h
      · subst h; cases ha
    accEv := by
      intro ha hnm
      rcases hq with h | h
      · exact hacc h hnm
      · subst h; cases ha
    accEv' := by
      intro ha
      rcases hq with h | h
      · subst h; rfl
      · exact absurd ha (hacc' h)
    cmdB := by
      intro m hm j hj; rw [hiss] at hm; cases hm
      exact C.cmdB 0 rfl j (memOld _ (Or.inl ⟨j, rfl⟩) hj)
    retB := by
      intro m hm j b hj; rw [hret] at hm; cases hm
      exact C.retB 0 rfl j b (memOld _ (Or.inr (Or.inl ⟨j, b, rfl⟩)) hj)
    okB := by intro m hm; rcases hq with h | h <;> subst h <;> simp [okUpTo] at hm
    wait := by
      intro k hk j hj
      rcases hq with h | h
      · subst h; cases hk; omega
      · subst h; cases hk
    inc := by intro i hi; rcases hq with h | h <;> subst h <;> cases hi
    aft := by intro i hi; rcases hq with h | h <;> subst h <;> cases hi
    runB := by intro i hi; rcases hq with h | h <;> subst h <;> cases hi
    clo := by intro f hf; rcases hq with h | h <;> subst h <;> cases hf
    nodone := by
      intro _ h
      apply C.nodone (by simp)
      rcases h with h | h
      · exact Or.inl (memOld _ (Or.inr (Or.inr ⟨_, rfl⟩)) h)
      · exact Or.inr (memOld _ (Or.inr (Or.inr ⟨_, rfl⟩)) h)
    fin := by intro hf; rcases hq with h | h <;> subst h <;> cases hf
    df := fun h => hce (C.df (memOld _ (Or.inr (Or.inr ⟨_, rfl⟩)) h))
    duniq := fun h => C.duniq ⟨memOld _ (Or.inr (Or.inr ⟨_, rfl⟩)) h.1, memOld _ (Or.inr (Or.inr ⟨_, rfl⟩)) h.2⟩ }

/-- a task whose submission has not been decided is idle -/
theorem idle_of_not_created {g : Graph} {s : St} (hI : Inv g s) {c : Nat}
    (h : ¬ created g s.tr (s.tg (tryOf g c)) c) : s.pc c = .idle := by
  rcases Classical.em (s.pc c = .idle) with h1 | h1
  · exact h1
  · exact absurd ((hI.ti c).once h1) h

/-- the general X3 step: the only task that may become active is `c` -/
theorem x3_general {g : Graph} {s s' : St} (hI : Inv g s) (c : Nat)
    (h1 : ∀ u, u ≠ c → (s'.pc u).accepted = true → s'.pc u ≠ .finished →
        (s.pc u).accepted = true ∧ s.pc u ≠ .finished)
    (h2 : ∀ p j, s.pc p = .afterCmd j → s'.pc p = .afterCmd j)
    (h3 : (s'.pc c).accepted = true → s'.pc c ≠ .finished → parentAt g s' c) : X3 g s' := by
  intro u ha hf
  by_cases hu : u = c
  · subst hu; exact h3 ha hf
  · obtain ⟨a, b⟩ := h1 u hu ha hf
    intro p j hp
    exact h2 p j (hI.x3 u a b p j hp)

/-- `Create` accepted the wait list: every name in it is in the table, so its acceptance is in the trace -/
theorem waits_accepted_of_canCreate {g : Graph} {s : St} (hw : WF g) (hI : Inv g s) {c : Nat}
    (hc : c < g.n) (h : canCreate g s c = true) : ∀ w ∈ g.waits c, acceptedEv g s.tr w := by
  intro w hwm
  unfold canCreate at h
  simp only [Bool.and_eq_true] at h
  have h1 := h.1.1
  rw [show (101 : Nat) = 100 + 1 from rfl] at h1
  unfold validWL at h1
  rw [List.all_eq_true] at h1
  have := h1 w hwm
  simp only [Bool.and_eq_true, inTable, decide_eq_true_eq] at this
  obtain ⟨⟨_, hwn, hwa⟩, _⟩ := this
  rcases hw.wait_cases hc hwm with h2 | h2
  · omega
  · exact (hI.ti w).accEv hwa h2.1

theorem t_lt_of_cmd {g : Graph} {t i : Nat} {c : Cmd} (hcmd : g.cmdAt t i = some c) : t < g.n := by
  rcases Nat.lt_or_ge t g.n with h | h
  · exact h
  · have := cmdAt_lt hcmd; rw [body_out h] at this; simp at this

/-- T8/T9: `pip:run` from a body: the nested submission is accepted (`acc = true`) or refused -/
theorem inv_spawn {g : Graph} {s s' : St} (hw : WF g) (hI : Inv g s) {t i c : Nat}
    (hpc : s.pc t = .inCmd i) (hcmd : g.cmdAt t i = some (.spawn c)) (acc : Bool)
    (hcan : acc = true → canCreate g s c = true)
    (hpc' : s'.pc = upd (upd s.pc c (if acc then .waiting 0 else .rejected)) t
        (if acc then .afterCmd i else .closing false))
    (hcerr' : s'.cerr = if acc then s.cerr else upd s.cerr (g.ctx t) true)
    (htr' : s'.tr = s.tr ++ [.ret t i acc]) (htg' : s'.tg = s.tg) (hmp' : s'.mp = s.mp) :
    Inv g s' := by
  have T := hI.ti t
  unfold TIs at T; rw [hpc] at T
  have ht : t < g.n := t_lt_of_cmd hcmd
  obtain ⟨hc, hr⟩ := hw.spawn ht hcmd
  have hnoret : ¬ hasRet s.tr t i := by
    intro h; rcases h with h | h <;> exact Nat.lt_irrefl _ (T.retB i rfl i _ h)
  have hcidle : s.pc c = .idle := by
    apply idle_of_not_created hI
    unfold created; rw [hr]; exact hnoret
  have hct : c ≠ t := by intro h; rw [h, hpc] at hcidle; cases hcidle
  have C := hI.ti c
  unfold TIs at C; rw [hcidle] at C
  have hfd : FreshDone s.tr [Ev.ret t i acc] := by intro u b h; simp at h
  have hce : ∀ X, s.cerr X = true → s'.cerr X = true := by
    intro X h; rw [hcerr']; cases acc <;> simp [upd_apply, h]
  have hpcO : ∀ u, u ≠ t → u ≠ c → s'.pc u = s.pc u := by
    intro u h1 h2; rw [hpc', upd_other _ _ h1, upd_other _ _ h2]
  have hpct : s'.pc t = if acc then .afterCmd i else .closing false := by rw [hpc', upd_same]
  have hpcc : s'.pc c = if acc then .waiting 0 else .rejected := by rw [hpc', upd_other _ _ hct, upd_same]
  have hi3 : I3 g s' := by
    apply i3_frame hI.i3 htr'
    · intro u ha _
      by_cases h1 : u = t
      · subst h1; rw [hpct]; cases acc <;> exact ⟨rfl, fun h => by cases h⟩
      · by_cases h2 : u = c
        · subst h2; rw [hcidle] at ha; cases ha
        · rw [hpcO u h1 h2]; exact ⟨ha, fun h => Or.inl h⟩
    · intro X hX
      rw [hcerr'] at hX
      cases acc
      · simp only [Bool.false_eq_true, if_false, upd_apply] at hX
        split at hX
        · rename_i hXe
          exact Or.inr ⟨t, hXe.symm, by rw [hpct]; rfl, by rw [hpct]; simp⟩
        · exact Or.inl hX
      · exact Or.inl hX
  have haccm0 : ∀ u, (s.pc u).accepted = true → (s'.pc u).accepted = true := by
    intro u hu
    by_cases h1 : u = t
    · subst h1; rw [hpct]; cases acc <;> rfl
    · by_cases h2 : u = c
      · subst h2; rw [hcidle] at hu; cases hu
      · rw [hpcO u h1 h2]; exact hu
  refine ⟨?_, ?_, ?_, ?_, ?_, ?_, by rw [htg']; exact hI.tgr, hi3, ha_frame hI htr' (by simp) haccm0⟩
  · apply ti_frame_all hI htr' hfd hce (fun _ => by rw [htg']; exact Nat.le_refl _) (fun u => u = t ∨ u = c)
    · intro u hu
      have h1 : u ≠ t := fun h => hu (Or.inl h)
      have h2 : u ≠ c := fun h => hu (Or.inr h)
      refine ⟨hpcO u h1 h2, ?_⟩
      intro e he; simp at he; subst he
      intro htch
      unfold touches at htch
      rcases htch with h | h | ⟨y, hy1, hy2, hy3⟩
      · exact h1 h.symm
      · have hu' : u < g.n := by
          rcases Nat.lt_or_ge u g.n with hh | hh
          · exact hh
          · rw [role_out hh] at h; cases h
        have := (hw.child hu' h).1
        rw [hcmd] at this; cases this; exact h2 rfl
      · have hu' : u < g.n := by
          rcases Nat.lt_or_ge u g.n with hh | hh
          · exact hh
          · rw [role_out hh] at hy1; cases hy1
        have := (hw.tryOwner (hw.tbody hu' hy1).1).2.1
        rw [hy2, hy3, hcmd] at this; cases this
    · intro u hu
      rcases hu with hu | hu
      · subst hu
        unfold TIs
        rw [hpct, htr', htg', hcerr']
        cases acc
        · simp only [Bool.false_eq_true, if_false, upd_same]; exact T.ret_false
        · simp only [if_true]; exact T.ret_true
      · subst hu
        unfold TIs
        rw [hpcc, htr', htg']
        apply C.create (by cases acc <;> simp) hc
        · unfold created; rw [hr]; cases acc <;> simp [hasRet]
        · intro _; unfold submitted; rw [hr]; exact List.mem_append_left _ (T.inc i rfl).2
        · intro hq _
          have : acc = true := by cases acc <;> simp at hq ⊢
          subst this
          unfold acceptedEv; rw [hr]; simp
        · intro hq
          have : acc = false := by cases acc <;> simp at hq ⊢
          subst this
          unfold acceptedEv; rw [hr]
          simp only [List.mem_append, List.mem_singleton, Ev.ret.injEq, Bool.true_eq_false, and_false,
            or_false]
          exact fun h => hnoret (Or.inl h)
        · intro e he; simp at he; subst he
          refine ⟨by simp, ?_, by simp⟩
          intro j b h; simp at h; exact hct h.1.symm
        · exact hce _
  · intro y hy
    apply (hI.yi y hy).frame htr' hfd (by rw [htg']) hce
    · intro u hu
      by_cases h1 : u = t
      · subst h1; rw [hpct]; cases acc <;> rfl
      · by_cases h2 : u = c
        · subst h2; rw [hcidle] at hu; cases hu
        · rw [hpcO u h1 h2]; exact hu
    · intro h1 h2
      have hact := (hI.yi y hy).active h1 h2
      apply hpcO
      · intro h; rw [h, hpc] at hact; cases hact
      · intro h; rw [h, hcidle] at hact; cases hact
    · intro h
      exact absurd h (ret_not_try hw hy (by simp [hcmd]))
  · apply x3_general hI c
    · intro u huc ha hf
      by_cases h1 : u = t
      · subst h1; rw [hpc]; exact ⟨rfl, by simp⟩
      · rw [hpcO u h1 huc] at ha hf; exact ⟨ha, hf⟩
    · intro p j hp
      have h1 : p ≠ t := by intro h; rw [h, hpc] at hp; cases hp
      have h2 : p ≠ c := by intro h; rw [h, hcidle] at hp; cases hp
      rw [hpcO p h1 h2]; exact hp
    · intro ha _ p j hp
      have hpo : parentOf g c = some (t, i) := by unfold parentOf; rw [hr]
      rw [hpo] at hp; cases hp
      rw [hpcc] at ha
      rw [hpct]
      cases acc
      · cases ha
      · rfl
  · exact hI.mi.frame htr' hmp' (by simp)
  · apply i2_frame hI htr'
    intro X hX
    rw [hcerr'] at hX
    cases acc
    · simp only [Bool.false_eq_true, if_false, upd_apply] at hX
      split at hX
      · rename_i hXe; subst hXe; rw [htr']; exact Or.inr (Or.inl causeIn_self)
      · exact Or.inl hX
    · exact Or.inl hX
  · rw [htr']
    apply traceOk_snoc hI.ok
    refine ⟨(T.inc i rfl).2, hnoret, T.nodone (by simp), ?_⟩
    unfold retOk; rw [hcmd]
    intro ha
    exact waits_accepted_of_canCreate hw hI hc (hcan ha)

/-- T10/T11: `pip:try` from a body: the body task is accepted (`acc = true`) or the command fails -/
theorem inv_try {g : Graph} {s s' : St} (hw : WF g) (hI : Inv g s) {t i y : Nat}
    (hpc : s.pc t = .inCmd i) (hcmd : g.cmdAt t i = some (.try_ y)) (acc : Bool)
    (hpc' : s'.pc = upd (upd s.pc (g.tryd y).body (if acc then .waiting 0 else .rejected)) t
        (if acc then .afterCmd i else .closing false))
    (hcerr' : s'.cerr = if acc then s.cerr else upd s.cerr (g.ctx t) true)
    (htr' : s'.tr = s.tr ++ [.ret t i acc])
    (htg' : s'.tg = if acc then upd s.tg y .waitBody else s.tg) (hmp' : s'.mp = s.mp) :
    Inv g s' := by
  have T := hI.ti t
  unfold TIs at T; rw [hpc] at T
  have ht : t < g.n := t_lt_of_cmd hcmd
  obtain ⟨hy, ho, hix⟩ := hw.tryc ht hcmd
  obtain ⟨_, _, hc, hr⟩ := hw.tryOwner hy
  have hnoret : ¬ hasRet s.tr t i := by
    intro h; rcases h with h | h <;> exact Nat.lt_irrefl _ (T.retB i rfl i _ h)
  have hcidle : s.pc (g.tryd y).body = .idle := by
    apply idle_of_not_created hI
    unfold created; rw [hr]; simp only; rw [ho, hix]; exact hnoret
  have hct : (g.tryd y).body ≠ t := by intro h; rw [h, hpc] at hcidle; cases hcidle
  have C := hI.ti (g.tryd y).body
  unfold TIs at C; rw [hcidle] at C
  have Y := hI.yi y hy
  have htgidle : s.tg y = .idle := by
    rcases Classical.em (s.tg y = .idle) with h | h
    · exact h
    · have := Y.started h; rw [ho, hix] at this; exact absurd (Or.inl this) hnoret
  have hfd : FreshDone s.tr [Ev.ret t i acc] := by intro u b h; simp at h
  have hce : ∀ X, s.cerr X = true → s'.cerr X = true := by
    intro X h; rw [hcerr']; cases acc <;> simp [upd_apply, h]
  have hpcO : ∀ u, u ≠ t → u ≠ (g.tryd y).body → s'.pc u = s.pc u := by
    intro u h1 h2; rw [hpc', upd_other _ _ h1, upd_other _ _ h2]
  have hpct : s'.pc t = if acc then .afterCmd i else .closing false := by rw [hpc', upd_same]
  have hpcc : s'.pc (g.tryd y).body = if acc then .waiting 0 else .rejected := by
    rw [hpc', upd_other _ _ hct, upd_same]
  have htgm : ∀ z, (s.tg z).rank ≤ (s'.tg z).rank := by
    intro z; rw [htg']
    cases acc
    · exact Nat.le_refl _
    · simp only [if_true, upd_apply]; split
      · rename_i hz; subst hz; rw [htgidle]; exact Nat.zero_le _
      · exact Nat.le_refl _
  have htgO : ∀ z, z ≠ y → s'.tg z = s.tg z := by
    intro z hz; rw [htg']; cases acc
    · rfl
    · simp only [if_true]; exact upd_other _ _ hz
  have hnrO : ∀ z, z < g.tries.length → z ≠ y →
      Ev.ret (g.tryd z).owner (g.tryd z).idx true ∉ [Ev.ret t i acc] := by
    intro z hz hzy h
    simp only [List.mem_singleton, Ev.ret.injEq] at h
    have := (hw.tryOwner hz).2.1
    rw [h.1, h.2.1, hcmd] at this
    cases this; exact hzy rfl
  have haccm : ∀ u, (s.pc u).accepted = true → (s'.pc u).accepted = true := by
    intro u hu
    by_cases h1 : u = t
    · subst h1; rw [hpct]; cases acc <;> rfl
    · by_cases h2 : u = (g.tryd y).body
      · subst h2; rw [hcidle] at hu; cases hu
      · rw [hpcO u h1 h2]; exact hu
  have hownO : ∀ z, z < g.tries.length → s.tg z ≠ .idle → s.tg z ≠ .done →
      s'.pc (g.tryd z).owner = s.pc (g.tryd z).owner := by
    intro z hz h1 h2
    have hact := (hI.yi z hz).active h1 h2
    apply hpcO
    · intro h; rw [h, hpc] at hact; cases hact
    · intro h; rw [h, hcidle] at hact; cases hact
  have htgr : ∀ z, s'.tg z ≠ .idle → z < g.tries.length := by
    intro z hz
    by_cases hzy : z = y
    · subst hzy; exact hy
    · rw [htgO z hzy] at hz; exact hI.tgr z hz
  have hi3 : I3 g s' := by
    apply i3_frame hI.i3 htr'
    · intro u ha _
      by_cases h1 : u = t
      · subst h1; rw [hpct]; cases acc <;> exact ⟨rfl, fun h => by cases h⟩
      · by_cases h2 : u = (g.tryd y).body
        · subst h2; rw [hcidle] at ha; cases ha
        · rw [hpcO u h1 h2]; exact ⟨ha, fun h => Or.inl h⟩
    · intro X hX
      rw [hcerr'] at hX
      cases acc
      · simp only [Bool.false_eq_true, if_false, upd_apply] at hX
        split at hX
        · rename_i hXe
          exact Or.inr ⟨t, hXe.symm, by rw [hpct]; rfl, by rw [hpct]; simp⟩
        · exact Or.inl hX
      · exact Or.inl hX
  refine ⟨?_, ?_, ?_, ?_, ?_, ?_, htgr, hi3, ha_frame hI htr' (by simp) haccm⟩
  · apply ti_frame_all hI htr' hfd hce htgm (fun u => u = t ∨ u = (g.tryd y).body)
    · intro u hu
      have h1 : u ≠ t := fun h => hu (Or.inl h)
      have h2 : u ≠ (g.tryd y).body := fun h => hu (Or.inr h)
      refine ⟨hpcO u h1 h2, ?_⟩
      intro e he; simp at he; subst he
      intro htch
      unfold touches at htch
      rcases htch with h | h | ⟨z, hy1, hy2, hy3⟩
      · exact h1 h.symm
      · have hu' : u < g.n := by
          rcases Nat.lt_or_ge u g.n with hh | hh
          · exact hh
          · rw [role_out hh] at h; cases h
        have := (hw.child hu' h).1
        rw [hcmd] at this; cases this
      · have hu' : u < g.n := by
          rcases Nat.lt_or_ge u g.n with hh | hh
          · exact hh
          · rw [role_out hh] at hy1; cases hy1
        obtain ⟨hz, hzb, _⟩ := hw.tbody hu' hy1
        have := (hw.tryOwner hz).2.1
        rw [hy2, hy3, hcmd] at this; cases this
        exact h2 hzb.symm
    · intro u hu
      rcases hu with hu | hu
      · subst hu
        unfold TIs
        rw [hpct, htr', hcerr']
        cases acc
        · simp only [Bool.false_eq_true, if_false, upd_same]
          rw [htg']; exact T.ret_false
        · simp only [if_true]
          exact (T.ret_true).frame (es := []) (by simp) (freshDone_nil _) (fun h => h) (htgm _) |> (by simpa using ·)
      · subst hu
        unfold TIs
        rw [hpcc, htr']
        apply C.create (by cases acc <;> simp) hc
        · unfold created; rw [hr]; simp only; rw [ho, hix]; cases acc <;> simp [hasRet]
        · intro _; unfold submitted; rw [hr]; simp only; rw [ho, hix]
          exact List.mem_append_left _ (T.inc i rfl).2
        · intro _ hn
          unfold nameable at hn; rw [hr] at hn
          rcases hn with h | ⟨_, _, h⟩ <;> cases h
        · intro hq
          have : acc = false := by cases acc <;> simp at hq ⊢
          subst this
          unfold acceptedEv; rw [hr]; simp only; rw [ho, hix]
          simp only [List.mem_append, List.mem_singleton, Ev.ret.injEq, Bool.true_eq_false, and_false,
            or_false]
          exact fun h => hnoret (Or.inl h)
        · intro e he; simp at he; subst he
          refine ⟨by simp, ?_, by simp⟩
          intro j b h; simp at h; exact hct h.1.symm
        · exact hce _
  · intro z hz
    by_cases hzy : z = y
    · subst hzy
      cases acc
      · apply Y.frame htr' hfd (by rw [htg']; rfl) hce haccm (hownO z hz)
        intro h; simp at h
      · have htgz : s'.tg z = .waitBody := by rw [htg']; simp
        constructor
        · intro _; rw [htr', ho, hix]; simp
        · intro _; rw [hpcc]; rfl
        · intro v hv; rw [htgz] at hv; rcases hv with h | h | h <;> cases h
        · intro h; rw [htgz] at h; cases h
        · intro h; rw [htgz] at h; simp [TG.rank] at h
        · intro h; rw [htgz] at h; simp [TG.rank] at h
        · intro h; rw [htgz] at h; simp [TG.rank] at h
        · intro h; rw [htgz] at h; simp [TG.rank] at h
        · intro h; rw [htgz] at h; simp [TG.rank] at h
        · intro h; rw [htgz] at h; simp [TG.rank] at h
        · intro _ _; rw [ho, hix, hpct]; rfl
        · intro _; rw [htgz]; simp
    · apply (hI.yi z hz).frame htr' hfd (htgO z hzy) hce haccm (hownO z hz)
      intro h; exact absurd h (hnrO z hz hzy)
  · apply x3_general hI (g.tryd y).body
    · intro u huc ha hf
      by_cases h1 : u = t
      · subst h1; rw [hpc]; exact ⟨rfl, by simp⟩
      · rw [hpcO u h1 huc] at ha hf; exact ⟨ha, hf⟩
    · intro p j hp
      have h1 : p ≠ t := by intro h; rw [h, hpc] at hp; cases hp
      have h2 : p ≠ (g.tryd y).body := by intro h; rw [h, hcidle] at hp; cases hp
      rw [hpcO p h1 h2]; exact hp
    · intro ha _ p j hp
      have hpo : parentOf g (g.tryd y).body = some (t, i) := by
        unfold parentOf; rw [hr]; simp only; rw [ho, hix]
      rw [hpo] at hp; cases hp
      rw [hpcc] at ha
      rw [hpct]
      cases acc
      · cases ha
      · rfl
  · exact hI.mi.frame htr' hmp' (by simp)
  · apply i2_frame hI htr'
    intro X hX
    rw [hcerr'] at hX
    cases acc
    · simp only [Bool.false_eq_true, if_false, upd_apply] at hX
      split at hX
      · rename_i hXe; subst hXe; rw [htr']; exact Or.inr (Or.inl causeIn_self)
      · exact Or.inl hX
    · exact Or.inl hX
  · rw [htr']
    apply traceOk_snoc hI.ok
    refine ⟨(T.inc i rfl).2, hnoret, T.nodone (by simp), ?_⟩
    unfold retOk; rw [hcmd]; trivial

/-! ### Assembly: every step of a task's runner preserves the invariant -/

theorem inv_stepTask {g : Graph} {s s' : St} {t : Nat} (hw : WF g) (hI : Inv g s)
    (h : stepTask g s t = some s') : Inv g s' := by
  unfold stepTask at h
  split at h
  · rename_i k hpc
    split at h
    · rename_i hk
      cases h; exact inv_T1 hI hpc hk
    · rename_i w hk
      split at h
      · rename_i hwf
        simp only [beq_iff_eq] at hwf
        split at h
        · rename_i hwc
          cases h; exact inv_T2 hw hI hpc hk hwf hwc
        · rename_i hwc
          cases h; exact inv_T3 hI hpc hk hwf (by simpa using hwc)
      · cases h
  · rename_i i hpc
    split at h
    · rename_i hi; cases h; exact inv_T4 hI hpc hi
    · rename_i hi; cases h; exact inv_T5 hI hpc hi
  · rename_i i hpc
    split at h
    · cases h
    · rename_i hcmd; cases h; exact inv_T6 hw hI hpc hcmd
    · rename_i hcmd; cases h; exact inv_T6s hw hI hpc hcmd
    · rename_i hcmd; cases h; exact inv_T7 hw hI hpc hcmd
    · rename_i c hcmd
      split at h
      · rename_i hcan
        cases h
        exact inv_spawn hw hI hpc hcmd true (fun _ => hcan) rfl rfl rfl rfl rfl
      · cases h
        exact inv_spawn hw hI hpc hcmd false (fun hh => by cases hh) rfl rfl rfl rfl rfl
    · rename_i y hcmd
      split at h
      · cases h
        exact inv_try hw hI hpc hcmd true rfl rfl rfl rfl rfl
      · cases h
        exact inv_try hw hI hpc hcmd false rfl rfl rfl rfl rfl
  · rename_i i hpc
    split at h
    · cases h
    · rename_i c hcmd
      split at h
      · rename_i hg
        split at h
        · rename_i hce; cases h; exact inv_T12 hw hI hpc hcmd hg hce
        · rename_i hce; cases h; exact inv_T13 hw hI hpc hcmd hg (by simpa using hce)
      · cases h
  · rename_i f hpc
    cases h; exact inv_T14 hw hI hpc
  · cases h

theorem inv_stepStop {g : Graph} {s s' : St} {t : Nat} (hI : Inv g s)
    (h : stepStop g s t = some s') : Inv g s' := by
  unfold stepStop at h
  split at h
  · rename_i i hpc
    split at h
    · rename_i hc; cases h; exact inv_S1 hI hpc hc
    · cases h
  · cases h

/-! ### The try goroutine -/

theorem inv_tg_only {g : Graph} {s s' : St} (hI : Inv g s) {y : Nat} {q : TG}
    (hpc' : s'.pc = s.pc) (hcerr' : s'.cerr = s.cerr) (htr' : s'.tr = s.tr) (hmp' : s'.mp = s.mp)
    (htg' : s'.tg = upd s.tg y q) (hrk : (s.tg y).rank ≤ q.rank) (hnid : s.tg y ≠ .idle)
    (hY : y < g.tries.length → YI g s' y) : Inv g s' := by
  have htgm : ∀ z, (s.tg z).rank ≤ (s'.tg z).rank := by
    intro z; rw [htg', upd_apply]; split
    · rename_i h; subst h; exact hrk
    · exact Nat.le_refl _
  refine ⟨?_, ?_, ?_, ?_, ?_, ?_, ?_, i3_same hI.i3 (es := []) (by simp [htr']) hpc' hcerr',
    ha_frame hI (es := []) (by simp [htr']) (by simp) (by rw [hpc']; exact fun _ h => h)⟩
  · apply ti_frame_all hI (es := []) (by simp [htr']) (freshDone_nil _) (by rw [hcerr']; exact fun _ h => h)
      htgm (fun _ => False)
    · intro u _; exact ⟨by rw [hpc'], by simp⟩
    · intro u h; cases h
  · intro z hz
    by_cases hzy : z = y
    · subst hzy; exact hY hz
    · apply (hI.yi z hz).frame (es := []) (by simp [htr']) (freshDone_nil _)
        (by rw [htg', upd_other _ _ hzy]) (by rw [hcerr']; exact fun _ h => h)
        (by rw [hpc']; exact fun _ h => h) (by rw [hpc']; exact fun _ _ => rfl) (by simp)
  · intro u ha hf p j hp
    rw [hpc'] at ha hf ⊢
    exact hI.x3 u ha hf p j hp
  · exact hI.mi.frame (es := []) (by simp [htr']) hmp' (by simp)
  · apply i2_frame hI (es := []) (by simp [htr'])
    intro X hX; rw [hcerr'] at hX; exact Or.inl hX
  · rw [htr']; exact hI.ok
  · intro z hz
    rw [htg', upd_apply] at hz
    split at hz
    · rename_i h; subst h; exact hI.tgr z hnid
    · exact hI.tgr z hz

/-- Y1: `separatedScope.Wait()` returned -/
theorem inv_Y1 {g : Graph} {s : St} (hI : Inv g s) {y : Nat} (htg : s.tg y = .waitBody)
    (hb : s.pc (g.tryd y).body = .finished) :
    Inv g { s with tg := upd s.tg y (.subFin (decide (Ev.done (g.tryd y).body true ∈ s.tr))) } := by
  refine inv_tg_only
    (s' := { s with tg := upd s.tg y (.subFin (decide (Ev.done (g.tryd y).body true ∈ s.tr))) })
    hI (y := y) rfl rfl rfl rfl rfl (by rw [htg]; simp [TG.rank]) (by rw [htg]; simp) ?_
  intro hy
  have Y := hI.yi y hy
  have hne1 : s.tg y ≠ .idle := by rw [htg]; simp
  have hne2 : s.tg y ≠ .done := by rw [htg]; simp
  have key : ∀ s' : St, s'.tg y = .subFin (decide (Ev.done (g.tryd y).body true ∈ s.tr)) → s'.tr = s.tr →
      s'.pc = s.pc → YI g s' y := by
    intro s' htgz htr hpc
    constructor
    · intro _; rw [htr]; exact Y.started hne1
    · intro h; rw [htgz] at h; cases h
    · intro v hv
      rw [htgz] at hv
      rw [htr]
      rcases hv with h | h | h <;> cases h
      exact ⟨((hI.ti _).fin hb).1, by simp⟩
    · intro h; rw [htgz] at h; cases h
    · intro h; rw [htgz] at h; simp [TG.rank] at h
    · intro h; rw [htgz] at h; simp [TG.rank] at h
    · intro h; rw [htgz] at h; simp [TG.rank] at h
    · intro h; rw [htgz] at h; simp [TG.rank] at h
    · intro h; rw [htgz] at h; simp [TG.rank] at h
    · intro h; rw [htgz] at h; simp [TG.rank] at h
    · intro _ _; rw [hpc]; exact Y.active hne1 hne2
    · intro _; rw [htgz]; simp
  exact key _ (upd_same _ _ _) rfl rfl

theorem validWL_nil (acc : Nat → Bool) (wo : Nat → List Nat) (self f : Nat) : validWL acc wo self (f + 1) [] = true := by
  simp [validWL]

/-- what the generic handler step needs to know about the handler being submitted -/
structure HandlerAt (g : Graph) (s : St) (y : Nat) (next : TG) (sel : Bool) (hh : Nat) : Prop where
  lt : hh < g.n
  par : parentOf g hh = some ((g.tryd y).owner, (g.tryd y).idx)
  tof : tryOf g hh = y
  ctx : g.ctx hh = g.ctx (g.tryd y).owner
  nn : ¬ nameable g hh
  nw : g.waits hh = []
  cr : ∀ tr tgv, created g tr tgv hh ↔ next.rank ≤ tgv.rank
  sb : sel = true → submitted g s.tr hh
  na : ∀ tr, ¬ acceptedEv g tr hh
  ih : isHandler g hh = true

/-- a selected handler is accepted -/
theorem inv_handler_acc {g : Graph} {s s' : St} (hI : Inv g s) {y hh : Nat} {next : TG}
    (H : HandlerAt g s y next true hh) (hrk : (s.tg y).rank + 1 = next.rank) (hnid : s.tg y ≠ .idle)
    (hact : s.pc (g.tryd y).owner = .afterCmd (g.tryd y).idx)
    (hpc' : s'.pc = upd s.pc hh (.waiting 0)) (htg' : s'.tg = upd s.tg y next)
    (hcerr' : s'.cerr = s.cerr) (htr' : s'.tr = s.tr ++ [.hacc hh]) (hmp' : s'.mp = s.mp)
    (hY : YI g s' y) : Inv g s' := by
  have hcidle : s.pc hh = .idle := by
    apply idle_of_not_created hI
    rw [H.tof, H.cr]; omega
  have C := hI.ti hh
  unfold TIs at C; rw [hcidle] at C
  have hown_ne : (g.tryd y).owner ≠ hh := by intro h; rw [h, hcidle] at hact; cases hact
  have htgm : ∀ z, (s.tg z).rank ≤ (s'.tg z).rank := by
    intro z; rw [htg', upd_apply]; split
    · rename_i h; subst h; omega
    · exact Nat.le_refl _
  have htr0 := htr'
  have hfd0 : FreshDone s.tr [Ev.hacc hh] := by intro u b h; simp at h
  have hce : ∀ X, s.cerr X = true → s'.cerr X = true := by rw [hcerr']; exact fun _ h => h
  have haccm : ∀ u, (s.pc u).accepted = true → (s'.pc u).accepted = true := by
    intro u hu; rw [hpc']; exact accepted_upd (by rw [hcidle]; intro h; cases h) u hu
  have htgr : ∀ z, s'.tg z ≠ .idle → z < g.tries.length := by
    intro z hz
    by_cases hzy : z = y
    · subst hzy; exact hI.tgr z hnid
    · rw [htg', upd_other _ _ hzy] at hz; exact hI.tgr z hz
  have hi3 : I3 g s' := by
    apply i3_frame hI.i3 htr0
    · intro u ha _
      by_cases h1 : u = hh
      · subst h1; rw [hcidle] at ha; cases ha
      · rw [hpc', upd_other _ _ h1]; exact ⟨ha, fun h => Or.inl h⟩
    · intro X hX; rw [hcerr'] at hX; exact Or.inl hX
  have hha : ∀ h, Ev.hacc h ∈ s'.tr → (s'.pc h).accepted = true := by
    intro h hm
    rw [htr'] at hm
    rcases List.mem_append.mp hm with hm | hm
    · exact haccm _ (hI.ha h hm)
    · simp at hm; subst hm; rw [hpc', upd_same]; rfl
  refine ⟨?_, ?_, ?_, ?_, ?_, ?_, htgr, hi3, hha⟩
  · refine ti_frame_all hI htr0 hfd0 hce htgm (fun u => u = hh) ?_ ?_
    · intro u hu
      exact ⟨by rw [hpc', upd_other _ _ hu], by intro e he; simp at he; subst he; simp [touches]; exact fun h => hu h.symm⟩
    · intro u hu; subst hu
      unfold TIs
      rw [hpc', upd_same, htg', H.tof, upd_same, htr', hcerr']
      exact C.create (es := [.hacc u]) (q := .waiting 0) (ce' := s.cerr (g.ctx u)) (tgv' := next)
        (Or.inl rfl) H.lt (by rw [H.cr]; exact Nat.le_refl _)
        (fun _ => submitted_mono _ (H.sb rfl)) (fun _ hn => absurd hn H.nn)
        (fun h => by cases h) (by simp) (fun h => h)
  · intro z hz
    by_cases hzy : z = y
    · subst hzy; exact hY
    · refine (hI.yi z hz).frame htr0 hfd0 (by rw [htg', upd_other _ _ hzy]) hce haccm ?_ (by simp)
      intro h1 h2
      have := (hI.yi z hz).active h1 h2
      rw [hpc']; apply upd_other; intro h; rw [h, hcidle] at this; cases this
  · apply x3_general hI hh
    · intro u hu ha hf
      rw [hpc', upd_other _ _ hu] at ha hf; exact ⟨ha, hf⟩
    · intro p j hp
      rw [hpc', upd_other]; exact hp
      intro h; rw [h, hcidle] at hp; cases hp
    · intro _ _ p j hp
      rw [H.par] at hp; cases hp
      rw [hpc', upd_other _ _ hown_ne]; exact hact
  · exact hI.mi.frame htr0 hmp' (by simp)
  · exact i2_frame hI htr0 (fun X hX => Or.inl (by rw [hcerr'] at hX; exact hX))
  · rw [htr']; exact traceOk_snoc hI.ok ⟨H.ih, H.sb rfl⟩

/-- a selected handler is refused because the root scope is done -/
theorem inv_handler_rej {g : Graph} {s s' : St} (hI : Inv g s) {y hh : Nat} {next : TG}
    (H : HandlerAt g s y next true hh) (hrk : (s.tg y).rank + 1 = next.rank) (hn5 : next.rank ≤ 5)
    (hnid : s.tg y ≠ .idle)
    (hact : s.pc (g.tryd y).owner = .afterCmd (g.tryd y).idx)
    (hroot : s.cerr 0 = true ∨ s.cerr (g.ctx hh) = true)
    (hpc' : s'.pc = upd s.pc hh .rejected) (htg' : s'.tg = upd s.tg y .done)
    (hcerr' : s'.cerr = upd s.cerr (g.ctx (g.tryd y).owner) true) (htr' : s'.tr = s.tr ++ [.hrej hh])
    (hmp' : s'.mp = s.mp)
    (hY : YI g s' y) : Inv g s' := by
  have hcidle : s.pc hh = .idle := by
    apply idle_of_not_created hI
    rw [H.tof, H.cr]; omega
  have C := hI.ti hh
  unfold TIs at C; rw [hcidle] at C
  have htgm : ∀ z, (s.tg z).rank ≤ (s'.tg z).rank := by
    intro z; rw [htg', upd_apply]; split
    · rename_i h; subst h
      show _ ≤ 5
      omega
    · exact Nat.le_refl _
  have htr0 := htr'
  have hfd0 : FreshDone s.tr [Ev.hrej hh] := by intro u b h; simp at h
  have hce : ∀ X, s.cerr X = true → s'.cerr X = true := by
    intro X h; rw [hcerr', upd_apply]; split <;> simp [h]
  have haccm : ∀ u, (s.pc u).accepted = true → (s'.pc u).accepted = true := by
    intro u hu
    rw [hpc', upd_apply]; split
    · rename_i h; subst h; rw [hcidle] at hu; cases hu
    · exact hu
  have htgr : ∀ z, s'.tg z ≠ .idle → z < g.tries.length := by
    intro z hz
    by_cases hzy : z = y
    · subst hzy; exact hI.tgr z hnid
    · rw [htg', upd_other _ _ hzy] at hz; exact hI.tgr z hz
  have hown_ne : (g.tryd y).owner ≠ hh := by intro h; rw [h, hcidle] at hact; cases hact
  have hroot0 : causeFor g s.tr hh := by
    rcases hroot with h0 | h0
    · rcases hI.i2 0 h0 with h | h <;> exact Or.inr h
    · exact hI.i2 _ h0
  have hi3 : I3 g s' := by
    apply i3_frame hI.i3 htr0
    · intro u ha _
      by_cases h1 : u = hh
      · subst h1; rw [hcidle] at ha; cases ha
      · rw [hpc', upd_other _ _ h1]; exact ⟨ha, fun h => Or.inl h⟩
    · intro X hX
      rw [hcerr', upd_apply] at hX
      split at hX
      · rename_i hXe
        refine Or.inr ⟨(g.tryd y).owner, hXe.symm, ?_, ?_⟩
        · rw [hpc', upd_other _ _ hown_ne, hact]; rfl
        · rw [hpc', upd_other _ _ hown_ne, hact]; simp
      · exact Or.inl hX
  refine ⟨?_, ?_, ?_, ?_, ?_, ?_, htgr, hi3, ha_frame hI htr0 (by simp) haccm⟩
  · refine ti_frame_all hI htr0 hfd0 hce htgm (fun u => u = hh) ?_ ?_
    · intro u hu; exact ⟨by rw [hpc', upd_other _ _ hu], by simp [touches]⟩
    · intro u hu; subst hu
      unfold TIs
      rw [hpc', upd_same, htg', H.tof, upd_same, htr']
      exact C.create (es := [.hrej u]) (q := .rejected) (ce' := s'.cerr (g.ctx u)) (tgv' := .done)
        (Or.inr rfl) H.lt (by rw [H.cr]; exact hn5)
        (fun h => by cases h) (fun h => by cases h)
        (fun _ => H.na _) (by simp) (hce _)
  · intro z hz
    by_cases hzy : z = y
    · subst hzy; exact hY
    · refine (hI.yi z hz).frame htr0 hfd0 (by rw [htg', upd_other _ _ hzy]) hce haccm ?_ (by simp)
      intro h1 h2
      have := (hI.yi z hz).active h1 h2
      rw [hpc']; apply upd_other; intro h; rw [h, hcidle] at this; cases this
  · apply x3_general hI hh
    · intro u hu ha hf
      rw [hpc', upd_other _ _ hu] at ha hf; exact ⟨ha, hf⟩
    · intro p j hp
      rw [hpc', upd_other]; exact hp
      intro h; rw [h, hcidle] at hp; cases hp
    · intro ha _
      rw [hpc', upd_same] at ha; cases ha
  · exact hI.mi.frame htr0 hmp' (by simp)
  · apply i2_frame hI htr0
    intro X hX
    rw [hcerr', upd_apply] at hX
    split at hX
    · rename_i hXe
      subst hXe
      rw [htr']
      have := causeFor_mono [Ev.hrej hh] hroot0
      unfold causeFor at this
      rw [H.ctx] at this
      exact Or.inr this
    · exact Or.inl hX
  · rw [htr']; exact traceOk_snoc hI.ok ⟨H.ih, H.sb rfl, hroot0⟩

/-- what is known after one `Runner.Run` of a handler (or its omission): either the try goroutine
moved on and the handler (if it was to be run) exists and its acceptance is in the trace, or the
submission was refused, which is in the trace as well -/
def SubOut (g : Graph) (s' : St) (y : Nat) (next : TG) (ho : Option Nat) (sel : Bool) : Prop :=
  (s'.tg y = next ∧ ∀ hh, ho = some hh → sel = true → (s'.pc hh).accepted = true ∧ Ev.hacc hh ∈ s'.tr) ∨
  (s'.tg y = .done ∧ s'.cerr (g.ctx (g.tryd y).owner) = true ∧ ∃ hh, ho = some hh ∧ Ev.hrej hh ∈ s'.tr)

/-- Y2–Y4: one `Runner.Run` of a handler (or its omission) from the try goroutine -/
theorem inv_submitHandler {g : Graph} {s : St} (hI : Inv g s) {y : Nat} (hy : y < g.tries.length)
    {cur next : TG} {v : Bool} (hcur : s.tg y = cur)
    (hcurv : cur = .subFin v ∨ cur = .subFail v ∨ cur = .subSucc v)
    (hnext : next = .subFail v ∨ next = .subSucc v ∨ next = .done)
    (hrk : cur.rank + 1 = next.rank)
    (ho : Option Nat) (sel : Bool)
    (hH : ∀ hh, ho = some hh → sel = true → HandlerAt g s y next true hh)
    (hAcc : ∀ s', s' = submitHandler g s y ho sel next →
      (∀ u, (s.pc u).accepted = true → (s'.pc u).accepted = true) →
      (∀ X, s.cerr X = true → s'.cerr X = true) →
      (∀ e, e ∈ s.tr → e ∈ s'.tr) →
      SubOut g s' y next ho sel →
      (3 ≤ (s'.tg y).rank → ∀ h, (g.tryd y).fin = some h →
          (s'.pc h).accepted = true ∨ s'.cerr (g.ctx (g.tryd y).owner) = true) ∧
      (4 ≤ (s'.tg y).rank → Ev.done (g.tryd y).body false ∈ s.tr → ∀ h, (g.tryd y).fail = some h →
          (s'.pc h).accepted = true ∨ s'.cerr (g.ctx (g.tryd y).owner) = true) ∧
      (5 ≤ (s'.tg y).rank → Ev.done (g.tryd y).body true ∈ s.tr → ∀ h, (g.tryd y).succ = some h →
          (s'.pc h).accepted = true ∨ s'.cerr (g.ctx (g.tryd y).owner) = true) ∧
      (3 ≤ (s'.tg y).rank → ∀ h, (g.tryd y).fin = some h → subSeen g s' y h) ∧
      (4 ≤ (s'.tg y).rank → Ev.done (g.tryd y).body false ∈ s.tr → ∀ h, (g.tryd y).fail = some h →
          subSeen g s' y h) ∧
      (5 ≤ (s'.tg y).rank → Ev.done (g.tryd y).body true ∈ s.tr → ∀ h, (g.tryd y).succ = some h →
          subSeen g s' y h)) :
    Inv g (submitHandler g s y ho sel next) := by
  have Y := hI.yi y hy
  have hne1 : s.tg y ≠ .idle := by rw [hcur]; rcases hcurv with h | h | h <;> subst h <;> simp
  have hne2 : s.tg y ≠ .done := by rw [hcur]; rcases hcurv with h | h | h <;> subst h <;> simp
  have hv := Y.v v (by rw [hcur]; exact hcurv)
  have hact := Y.active hne1 hne2
  have hrcur : (s.tg y).rank = cur.rank := by rw [hcur]
  have hn5 : next.rank ≤ 5 := by rcases hnext with h | h | h <;> subst h <;> simp [TG.rank]
  have hnextne : next ≠ .idle ∧ next ≠ .waitBody := by
    rcases hnext with h | h | h <;> subst h <;> simp
  -- YI at the new state, given the generic facts about it
  have mkY : ∀ (s' : St) (es : List Ev), s' = submitHandler g s y ho sel next → s'.tr = s.tr ++ es →
      (∀ u b, Ev.done u b ∉ es) →
      (∀ u, (s.pc u).accepted = true → (s'.pc u).accepted = true) →
      (∀ X, s.cerr X = true → s'.cerr X = true) →
      SubOut g s' y next ho sel →
      (s'.tg y ≠ .done → s'.pc (g.tryd y).owner = s.pc (g.tryd y).owner) → YI g s' y := by
    intro s' es hs' htr hes hm1 hm2 hout hown
    have htgn : s'.tg y = next ∨ s'.tg y = .done := by
      rcases hout with h | h
      · exact Or.inl h.1
      · exact Or.inr h.1
    have hfd : FreshDone s.tr es := fun u b h => absurd h (hes u b)
    have hmem : ∀ e, e ∈ s.tr → e ∈ s'.tr := fun e he => by rw [htr]; exact List.mem_append_left _ he
    have hdone : ∀ b, Ev.done (g.tryd y).body b ∈ s'.tr ↔ Ev.done (g.tryd y).body b ∈ s.tr := by
      intro b; rw [htr]; exact done_stable hfd hv.1 b
    obtain ⟨a1, a2, a3, a4, a5, a6⟩ := hAcc s' hs' hm1 hm2 hmem hout
    constructor
    · intro _; exact hmem _ (Y.started hne1)
    · intro h; rcases htgn with h1 | h1 <;> rw [h1] at h
      · exact absurd h hnextne.2
      · cases h
    · intro v' hv'
      have hv2 : hasDone s'.tr (g.tryd y).body ∧ (v = true ↔ Ev.done (g.tryd y).body true ∈ s'.tr) :=
        ⟨by rw [htr]; exact hasDone_mono es hv.1, by rw [hdone true]; exact hv.2⟩
      rcases htgn with h1 | h1 <;> rw [h1] at hv'
      · rcases hnext with h2 | h2 | h2 <;> subst h2
        · rcases hv' with h | h | h <;> cases h; exact hv2
        · rcases hv' with h | h | h <;> cases h; exact hv2
        · rcases hv' with h | h | h <;> cases h
      · rcases hv' with h | h | h <;> cases h
    · intro _; rw [htr]; exact hasDone_mono es hv.1
    · exact a1
    · intro hr hd; rw [hdone false] at hd; exact a2 hr hd
    · intro hr hd; rw [hdone true] at hd; exact a3 hr hd
    · exact a4
    · intro hr hd; rw [hdone false] at hd; exact a5 hr hd
    · intro hr hd; rw [hdone true] at hd; exact a6 hr hd
    · intro _ h2; rw [hown h2]; exact hact
    · intro _ h
      rcases htgn with h1 | h1 <;> rw [h1] at h
      · exact hnextne.1 h
      · cases h
  -- nothing to submit
  have skip : submitHandler g s y ho sel next = { s with tg := upd s.tg y next } →
      (∀ hh, ho = some hh → sel = true → False) →
      Inv g (submitHandler g s y ho sel next) := by
    intro hs' hvac
    rw [hs']
    refine inv_tg_only (s' := { s with tg := upd s.tg y next }) hI (y := y) rfl rfl rfl rfl rfl (by omega) hne1 ?_
    intro _
    apply mkY _ [] hs'.symm (by simp) (by simp) (fun _ h => h) (fun _ h => h)
      (Or.inl ⟨upd_same _ _ _, fun hh h1 h2 => (hvac hh h1 h2).elim⟩)
    intro _; rfl
  cases ho with
  | none => exact skip (by unfold submitHandler; rfl) (fun _ h _ => by cases h)
  | some hh =>
  cases sel with
  | false => exact skip (by unfold submitHandler; rfl) (fun _ _ h => by cases h)
  | true =>
    have H := hH hh rfl rfl
    have hcidle : s.pc hh = .idle := by
      apply idle_of_not_created hI
      rw [H.tof, H.cr]; omega
    have hown_ne : (g.tryd y).owner ≠ hh := by intro h; rw [h, hcidle] at hact; cases hact
    by_cases hcan : canCreate g s hh = true
    · have hs' : submitHandler g s y (some hh) true next =
          emit { s with pc := upd s.pc hh (.waiting 0), tg := upd s.tg y next } (.hacc hh) := by
        unfold submitHandler; simp [hcan]
      rw [hs']
      refine inv_handler_acc hI H (by omega) hne1 hact rfl rfl rfl rfl rfl ?_
      apply mkY _ [.hacc hh] hs'.symm rfl (by simp)
        (fun u hu => accepted_upd (by rw [hcidle]; intro h; cases h) u hu) (fun _ h => h)
        (Or.inl ⟨upd_same _ _ _, fun hh' h1 _ => by
          cases h1
          exact ⟨by show (upd s.pc hh _ hh).accepted = true; rw [upd_same]; rfl,
                 by show Ev.hacc hh ∈ s.tr ++ [Ev.hacc hh]; simp⟩⟩)
      intro _; exact upd_other _ _ hown_ne
    · have hroot : s.cerr 0 = true ∨ s.cerr (g.ctx hh) = true := by
        unfold canCreate submitCtxOk at hcan
        rw [H.nw, validWL_nil] at hcan
        have hih := H.ih
        unfold isHandler at hih
        cases hr : g.role hh <;> simp [hr] at hih hcan
        all_goals
          cases h0 : s.cerr 0
          · exact Or.inr (hcan h0)
          · exact Or.inl rfl
      have hs' : submitHandler g s y (some hh) true next =
          emit { s with pc := upd s.pc hh PC.rejected, cerr := upd s.cerr (g.ctx (g.tryd y).owner) true,
                        tg := upd s.tg y TG.done } (.hrej hh) := by
        unfold submitHandler; simp [hcan]
      rw [hs']
      refine inv_handler_rej hI H (by omega) hn5 hne1 hact hroot rfl rfl rfl rfl rfl ?_
      apply mkY _ [.hrej hh] hs'.symm rfl (by simp)
        (fun u hu => by
          show (upd s.pc hh PC.rejected u).accepted = true
          rw [upd_apply]; split
          · rename_i h; subst h; rw [hcidle] at hu; cases hu
          · exact hu)
        (fun X h => by
          show upd s.cerr _ true X = true
          rw [upd_apply]; split <;> simp [h])
        (Or.inr ⟨upd_same _ _ _, upd_same _ _ _, hh, rfl, by show Ev.hrej hh ∈ s.tr ++ [Ev.hrej hh]; simp⟩)
      intro h; exact absurd (upd_same _ _ _) h

theorem done_false_of_not_true {tr : List Ev} {b : Nat} (h : hasDone tr b) (hn : Ev.done b true ∉ tr) :
    Ev.done b false ∈ tr := by
  rcases h with h | h
  · exact absurd h hn
  · exact h

/-- after a refused submission every handler of the try counts as "seen" -/
theorem subSeen_of_rej {g : Graph} {s' : St} {y h hh : Nat} (hm : hh ∈ g.handlers y)
    (hr : Ev.hrej hh ∈ s'.tr) : subSeen g s' y h := Or.inr ⟨hh, hm, hr⟩

theorem inv_stepTry {g : Graph} {s s' : St} {y : Nat} (hw : WF g) (hI : Inv g s)
    (h : stepTry g s y = some s') : Inv g s' := by
  unfold stepTry at h
  have hy : s.tg y ≠ .idle → y < g.tries.length := hI.tgr y
  split at h
  · rename_i htg
    split at h
    · rename_i hb; cases h; exact inv_Y1 hI htg (by simpa using hb)
    · cases h
  · -- finally
    rename_i v htg
    have hy := hy (by rw [htg]; simp)
    have Y := hI.yi y hy
    have hv := Y.v v (Or.inl htg)
    obtain ⟨h1, h2, h3⟩ := hw.tryHandlers hy
    cases h
    apply inv_submitHandler hI hy htg (Or.inl rfl) (Or.inl rfl) rfl
    · intro hh hho _
      obtain ⟨a, b⟩ := h3 hh hho
      exact {
        lt := a
        par := by unfold parentOf; rw [b]
        tof := by unfold tryOf; rw [b]
        ctx := (hw.hfin a b).2.2.1
        nn := by unfold nameable; rw [b]; simp
        nw := (hw.hfin a b).2.2.2.2
        cr := by intro tr tgv; unfold created; rw [b]; simp [TG.rank]
        sb := by intro _; unfold submitted; rw [b]; exact hv.1
        na := by intro tr; unfold acceptedEv; rw [b]; simp
        ih := by unfold isHandler; rw [b] }
    · intro s' _ hm1 hm2 hm3 hout
      rcases hout with ⟨ht, ha⟩ | ⟨ht, hc, hh, hho, hrj⟩
      · rw [ht]
        refine ⟨fun _ h hf => Or.inl (ha h hf rfl).1, fun h => ?_, fun h => ?_,
          fun _ h hf => Or.inl (ha h hf rfl), fun h => ?_, fun h => ?_⟩ <;> simp [TG.rank] at h
      · have hm : hh ∈ g.handlers y := mem_handlers.mpr (Or.inl hho)
        exact ⟨fun _ _ _ => Or.inr hc, fun _ _ _ _ => Or.inr hc, fun _ _ _ _ => Or.inr hc,
          fun _ _ _ => subSeen_of_rej hm hrj, fun _ _ _ _ => subSeen_of_rej hm hrj,
          fun _ _ _ _ => subSeen_of_rej hm hrj⟩
  · -- fail
    rename_i v htg
    have hy := hy (by rw [htg]; simp)
    have Y := hI.yi y hy
    have hv := Y.v v (Or.inr (Or.inl htg))
    obtain ⟨h1, h2, h3⟩ := hw.tryHandlers hy
    cases h
    apply inv_submitHandler hI hy htg (Or.inr (Or.inl rfl)) (Or.inr (Or.inl rfl)) rfl
    · intro hh hho hsel
      obtain ⟨a, b⟩ := h2 hh hho
      have hvf : v = false := by cases v <;> simp at hsel ⊢
      exact {
        lt := a
        par := by unfold parentOf; rw [b]
        tof := by unfold tryOf; rw [b]
        ctx := (hw.hfail a b).2.2.1
        nn := by unfold nameable; rw [b]; simp
        nw := (hw.hfail a b).2.2.2.2
        cr := by intro tr tgv; unfold created; rw [b]; simp [TG.rank]
        sb := by
          intro _; unfold submitted; rw [b]
          apply done_false_of_not_true hv.1
          intro hd; have := hv.2.mpr hd; rw [hvf] at this; cases this
        na := by intro tr; unfold acceptedEv; rw [b]; simp
        ih := by unfold isHandler; rw [b] }
    · intro s' _ hm1 hm2 hm3 hout
      have hold : ∀ h, (g.tryd y).fin = some h →
          (s'.pc h).accepted = true ∨ s'.cerr (g.ctx (g.tryd y).owner) = true := by
        intro h hf
        rcases Y.finAcc (by rw [htg]; simp [TG.rank]) h hf with hh | hh
        · exact Or.inl (hm1 _ hh)
        · exact Or.inr (hm2 _ hh)
      have holdS : ∀ h, (g.tryd y).fin = some h → subSeen g s' y h := fun h hf =>
        subSeen_mono hm3 hm1 (Y.finSub (by rw [htg]; simp [TG.rank]) h hf)
      rcases hout with ⟨ht, ha⟩ | ⟨ht, hc, hh, hho, hrj⟩
      · rw [ht]
        have hvf : Ev.done (g.tryd y).body false ∈ s.tr → v = false := by
          intro hd
          cases v
          · rfl
          · exact absurd ⟨hv.2.mp rfl, hd⟩ (hI.ti _).duniq
        refine ⟨fun _ => hold, fun _ hd h hf => ?_, fun h => ?_, fun _ => holdS, fun _ hd h hf => ?_, fun h => ?_⟩
        · exact Or.inl (ha h hf (by rw [hvf hd]; rfl)).1
        · simp [TG.rank] at h
        · exact Or.inl (ha h hf (by rw [hvf hd]; rfl))
        · simp [TG.rank] at h
      · have hm : hh ∈ g.handlers y := mem_handlers.mpr (Or.inr (Or.inl hho))
        exact ⟨fun _ _ _ => Or.inr hc, fun _ _ _ _ => Or.inr hc, fun _ _ _ _ => Or.inr hc,
          fun _ _ _ => subSeen_of_rej hm hrj, fun _ _ _ _ => subSeen_of_rej hm hrj,
          fun _ _ _ _ => subSeen_of_rej hm hrj⟩
  · -- success
    rename_i v htg
    have hy := hy (by rw [htg]; simp)
    have Y := hI.yi y hy
    have hv := Y.v v (Or.inr (Or.inr htg))
    obtain ⟨h1, h2, h3⟩ := hw.tryHandlers hy
    cases h
    apply inv_submitHandler hI hy htg (Or.inr (Or.inr rfl)) (Or.inr (Or.inr rfl)) rfl
    · intro hh hho hsel
      obtain ⟨a, b⟩ := h1 hh hho
      exact {
        lt := a
        par := by unfold parentOf; rw [b]
        tof := by unfold tryOf; rw [b]
        ctx := (hw.hsucc a b).2.2.1
        nn := by unfold nameable; rw [b]; simp
        nw := (hw.hsucc a b).2.2.2.2
        cr := by intro tr tgv; unfold created; rw [b]; simp [TG.rank]
        sb := by intro _; unfold submitted; rw [b]; exact hv.2.mp hsel
        na := by intro tr; unfold acceptedEv; rw [b]; simp
        ih := by unfold isHandler; rw [b] }
    · intro s' _ hm1 hm2 hm3 hout
      have hold1 : ∀ h, (g.tryd y).fin = some h →
          (s'.pc h).accepted = true ∨ s'.cerr (g.ctx (g.tryd y).owner) = true := by
        intro h hf
        rcases Y.finAcc (by rw [htg]; simp [TG.rank]) h hf with hh | hh
        · exact Or.inl (hm1 _ hh)
        · exact Or.inr (hm2 _ hh)
      have hold2 : Ev.done (g.tryd y).body false ∈ s.tr → ∀ h, (g.tryd y).fail = some h →
          (s'.pc h).accepted = true ∨ s'.cerr (g.ctx (g.tryd y).owner) = true := by
        intro hd h hf
        rcases Y.failAcc (by rw [htg]; simp [TG.rank]) hd h hf with hh | hh
        · exact Or.inl (hm1 _ hh)
        · exact Or.inr (hm2 _ hh)
      have hold1S : ∀ h, (g.tryd y).fin = some h → subSeen g s' y h := fun h hf =>
        subSeen_mono hm3 hm1 (Y.finSub (by rw [htg]; simp [TG.rank]) h hf)
      have hold2S : Ev.done (g.tryd y).body false ∈ s.tr → ∀ h, (g.tryd y).fail = some h →
          subSeen g s' y h := fun hd h hf =>
        subSeen_mono hm3 hm1 (Y.failSub (by rw [htg]; simp [TG.rank]) hd h hf)
      rcases hout with ⟨ht, ha⟩ | ⟨ht, hc, hh, hho, hrj⟩
      · refine ⟨fun _ => hold1, fun _ => hold2, fun _ hd h hf => ?_, fun _ => hold1S, fun _ => hold2S,
          fun _ hd h hf => ?_⟩
        · exact Or.inl (ha h hf (hv.2.mpr hd)).1
        · exact Or.inl (ha h hf (hv.2.mpr hd))
      · have hm : hh ∈ g.handlers y := mem_handlers.mpr (Or.inr (Or.inr hho))
        exact ⟨fun _ _ _ => Or.inr hc, fun _ _ _ _ => Or.inr hc, fun _ _ _ _ => Or.inr hc,
          fun _ _ _ => subSeen_of_rej hm hrj, fun _ _ _ _ => subSeen_of_rej hm hrj,
          fun _ _ _ _ => subSeen_of_rej hm hrj⟩
  · cases h

/-! ### The main thread -/

theorem nodup_idx {α : Type} {l : List α} (h : l.Nodup) {i j : Nat} {a : α}
    (hi : l[i]? = some a) (hj : l[j]? = some a) : i = j := by
  induction l generalizing i j with
  | nil => simp at hi
  | cons x xs ih =>
    rw [List.nodup_cons] at h
    cases i with
    | zero =>
      cases j with
      | zero => rfl
      | succ j =>
        simp at hi hj
        subst hi
        exact absurd (List.mem_of_getElem? hj) h.1
    | succ i =>
      cases j with
      | zero =>
        simp at hi hj
        subst hj
        exact absurd (List.mem_of_getElem? hi) h.1
      | succ j =>
        simp at hi hj
        rw [ih h.2 hi hj]

/-- a step of the main thread that only logs an event `e` that touches no task -/
theorem inv_main_log {g : Graph} {s s' : St} (hI : Inv g s) {es : List Ev}
    (hpc' : s'.pc = s.pc) (htg' : s'.tg = s.tg) (hcerr' : s'.cerr = s.cerr) (htr' : s'.tr = s.tr ++ es)
    (hlen : es.length ≤ 1)
    (hnt : ∀ u, ∀ e ∈ es, ¬ touches g u e) (hnd : ∀ u b, Ev.done u b ∉ es)
    (hnr : ∀ p i b, Ev.ret p i b ∉ es)
    (hok : ∀ e ∈ es, Ok g s.tr e) (hmi : MI g s') : Inv g s' := by
  have hfd : FreshDone s.tr es := fun u b h => absurd h (hnd u b)
  refine ⟨?_, ?_, ?_, hmi, ?_, ?_, by rw [htg']; exact hI.tgr, i3_same hI.i3 htr' hpc' hcerr',
    ha_frame hI htr' (fun h hm => hnt h _ hm (by simp [touches])) (by rw [hpc']; exact fun _ h => h)⟩
  · refine ti_frame_all hI htr' hfd (by rw [hcerr']; exact fun _ h => h)
      (fun _ => by rw [htg']; exact Nat.le_refl _) (fun _ => False) ?_ ?_
    · intro u _; exact ⟨by rw [hpc'], hnt u⟩
    · intro u h; cases h
  · intro z hz
    exact (hI.yi z hz).frame htr' hfd (by rw [htg']) (by rw [hcerr']; exact fun _ h => h)
      (by rw [hpc']; exact fun _ h => h) (by rw [hpc']; exact fun _ _ => rfl)
      (fun h => absurd h (hnr _ _ _))
  · intro u ha hf p j hp
    rw [hpc'] at ha hf ⊢
    exact hI.x3 u ha hf p j hp
  · apply i2_frame hI htr'
    intro X hX; rw [hcerr'] at hX; exact Or.inl hX
  · rw [htr']; exact traceOk_ext hI.ok hlen hok

theorem anyCause_of_causeIn {g : Graph} {X : Nat} {tr : List Ev} (h : causeIn g X tr) : anyCause tr := by
  obtain ⟨e, he, hc⟩ := h
  refine ⟨e, he, ?_⟩
  cases e <;> simp [isCause] at hc ⊢
  rename_i t i b
  cases b <;> simp [isCause, isFail] at hc ⊢

theorem finished_of_done {g : Graph} {s : St} (hI : Inv g s) {u : Nat} (h : hasDone s.tr u) :
    s.pc u = .finished := by
  rcases Classical.em (s.pc u = .finished) with h1 | h1
  · exact h1
  · exact absurd h ((hI.ti u).nodone h1)

theorem inv_stepMain {g : Graph} {s s' : St} (hw : WF g) (hI : Inv g s)
    (h : stepMain g s = some s') : Inv g s' := by
  unfold stepMain at h
  split at h
  · -- sub j
    rename_i j hmp
    split at h
    · rename_i t htop
      cases h
      refine inv_main_log hI (es := [.sub t]) rfl rfl rfl rfl (by simp) ?_ (by simp) (by simp) ?_ ?_
      · intro u e he; simp at he; subst he; simp [touches]
      · intro e he; simp at he; subst he; exact List.mem_of_getElem? htop
      · constructor
        · intro j' hj' u hu
          have hjj : j' = j := by rcases hj' with h | h <;> cases h <;> rfl
          subst hjj
          apply hI.mi.early j' (Or.inl hmp) u
          rcases hu with hu | hu
          · exact Or.inl (by simpa [emit] using hu)
          · exact Or.inr (by simpa [emit] using hu)
        · intro j' hj'; cases hj'
          exact ⟨t, htop, by simp [emit]⟩
        · intro hm; rcases hm with ⟨_, hm⟩ | hm <;> cases hm
    · rename_i htop
      cases h
      refine inv_main_log hI (es := []) rfl rfl rfl (by simp) (by simp) (by simp) (by simp) (by simp) (by simp) ?_
      constructor
      · intro j' hj'; rcases hj' with h | h <;> cases h
      · intro j' hj'; cases hj'
      · intro hm; rcases hm with ⟨_, hm⟩ | hm <;> cases hm
  · -- create j
    rename_i j hmp
    split at h
    · rename_i t htop
      obtain ⟨t', ht', hsub⟩ := hI.mi.cr j hmp
      rw [htop] at ht'; cases ht'
      obtain ⟨htn, htr⟩ := hw.top t (List.mem_of_getElem? htop)
      have hnoacc : ¬ (Ev.acc t ∈ s.tr ∨ Ev.rej t ∈ s.tr) := by
        intro hh
        obtain ⟨j', hj', hj''⟩ := hI.mi.early j (Or.inr hmp) t hh
        have := nodup_idx hw.nodup hj'' htop
        omega
      have hcidle : s.pc t = .idle := by
        apply idle_of_not_created hI
        unfold created; rw [htr]; exact hnoacc
      have C := hI.ti t
      unfold TIs at C; rw [hcidle] at C
      -- both outcomes at once: `acc` says which
      have key : ∀ (acc : Bool) (s' : St), (acc = true → canCreate g s t = true) →
          s'.pc = upd s.pc t (if acc then .waiting 0 else .rejected) → s'.tg = s.tg → s'.cerr = s.cerr →
          s'.mp = .sub (j + 1) → s'.tr = s.tr ++ [if acc then Ev.acc t else Ev.rej t] → Inv g s' := by
        intro acc s' hcan hpc' htg' hcerr' hmp' htr'
        have hfd : FreshDone s.tr [if acc then Ev.acc t else Ev.rej t] := by
          intro u b h; cases acc <;> simp at h
        have hce : ∀ X, s.cerr X = true → s'.cerr X = true := by rw [hcerr']; exact fun _ h => h
        have hi3 : I3 g s' := by
          apply i3_frame hI.i3 htr'
          · intro u ha _
            by_cases h1 : u = t
            · subst h1; rw [hcidle] at ha; cases ha
            · rw [hpc', upd_other _ _ h1]; exact ⟨ha, fun h => Or.inl h⟩
          · intro X hX; rw [hcerr'] at hX; exact Or.inl hX
        refine ⟨?_, ?_, ?_, ?_, ?_, ?_, by rw [htg']; exact hI.tgr, hi3,
          ha_frame hI htr' (by intro h hm; cases acc <;> simp at hm)
            (fun u hu => by rw [hpc']; exact accepted_upd (by rw [hcidle]; intro h; cases h) u hu)⟩
        · refine ti_frame_all hI htr' hfd hce (fun _ => by rw [htg']; exact Nat.le_refl _) (fun u => u = t) ?_ ?_
          · intro u hu
            refine ⟨by rw [hpc', upd_other _ _ hu], ?_⟩
            intro e he; simp at he; subst he
            cases acc <;> simp [touches] <;> exact fun h => hu h.symm
          · intro u hu; subst hu
            unfold TIs
            rw [hpc', upd_same, htr', htg']
            apply C.create (by cases acc <;> simp) htn
            · unfold created; rw [htr]; cases acc <;> simp
            · intro _; unfold submitted; rw [htr]; exact List.mem_append_left _ hsub
            · intro hq _
              have : acc = true := by cases acc <;> simp at hq ⊢
              subst this
              unfold acceptedEv; rw [htr]; simp
            · intro hq
              have : acc = false := by cases acc <;> simp at hq ⊢
              subst this
              unfold acceptedEv; rw [htr]
              simp only [Bool.false_eq_true, if_false, List.mem_append, List.mem_singleton]
              intro h
              rcases h with h | h
              · exact hnoacc (Or.inl h)
              · cases h
            · intro e he; simp at he; subst he
              cases acc <;> simp
            · exact hce _
        · intro z hz
          refine (hI.yi z hz).frame htr' hfd (by rw [htg']) hce ?_ ?_ ?_
          · intro u hu; rw [hpc']
            exact accepted_upd (by rw [hcidle]; intro h; cases h) u hu
          · intro h1 h2
            have := (hI.yi z hz).active h1 h2
            rw [hpc']; apply upd_other; intro h; rw [h, hcidle] at this; cases this
          · intro h; cases acc <;> simp at h
        · apply x3_general hI t
          · intro u hu ha hf
            rw [hpc', upd_other _ _ hu] at ha hf; exact ⟨ha, hf⟩
          · intro p i hp
            rw [hpc', upd_other]; exact hp
            intro h; rw [h, hcidle] at hp; cases hp
          · intro _ _ p i hp
            unfold parentOf at hp; rw [htr] at hp; cases hp
        · constructor
          · intro j' hj' u hu
            rw [hmp'] at hj'
            have hjj : j' = j + 1 := by rcases hj' with h | h <;> cases h; rfl
            subst hjj
            rw [htr'] at hu
            by_cases hut : u = t
            · subst hut; exact ⟨j, by omega, htop⟩
            · have : Ev.acc u ∈ s.tr ∨ Ev.rej u ∈ s.tr := by
                rcases hu with hu | hu
                · rcases List.mem_append.mp hu with hu | hu
                  · exact Or.inl hu
                  · cases acc <;> simp at hu; exact absurd hu hut
                · rcases List.mem_append.mp hu with hu | hu
                  · exact Or.inr hu
                  · cases acc <;> simp at hu; exact absurd hu hut
              obtain ⟨j'', h1, h2⟩ := hI.mi.early j (Or.inr hmp) u this
              exact ⟨j'', by omega, h2⟩
          · intro j' hj'; rw [hmp'] at hj'; cases hj'
          · intro hm; rw [hmp'] at hm; rcases hm with ⟨_, hm⟩ | hm <;> cases hm
        · apply i2_frame hI htr'
          intro X hX; rw [hcerr'] at hX; exact Or.inl hX
        · rw [htr']
          apply traceOk_snoc hI.ok
          cases acc
          · exact hsub
          · exact ⟨hsub, waits_accepted_of_canCreate hw hI htn (hcan rfl)⟩
      split at h
      · rename_i hcan
        cases h
        exact key true _ (fun _ => hcan) rfl rfl rfl rfl rfl
      · cases h
        exact key false _ (fun hh => by cases hh) rfl rfl rfl rfl rfl
    · cases h
  · -- wait
    rename_i hmp
    split at h
    · rename_i hall
      cases h
      have hall' : ∀ u, u < g.n → (s.pc u).accepted = true → s.pc u = .finished := by
        intro u hu ha
        unfold allFinished at hall
        rw [List.all_eq_true] at hall
        have := hall u (List.mem_range.mpr hu)
        simp only [Bool.or_eq_true, Bool.not_eq_true', beq_iff_eq] at this
        rcases this with h | h
        · rw [h] at ha; cases ha
        · exact h
      refine inv_main_log hI (es := [.mwait (tableOk g s)]) rfl rfl rfl rfl (by simp) ?_ (by simp) (by simp) ?_ ?_
      · intro u e he; simp at he; subst he; simp [touches]
      · intro e he; simp at he; subst he
        refine ⟨?_, ?_⟩
        · intro u hu hacc
          rw [List.mem_range] at hu
          exact ((hI.ti u).fin (hall' u hu ((hI.ti u).accEv' hacc))).1
        · cases htab : tableOk g s
          · simp only [Bool.false_eq_true, if_false]
            unfold tableOk at htab
            have : ∃ u, u < g.n ∧ (s.pc u).accepted = true ∧ s.cerr (g.ctx u) = true := by
              apply Classical.byContradiction
              intro hcon
              have hall2 : (List.range g.n).all (fun t => !(s.pc t).accepted || !s.cerr (g.ctx t)) = true := by
                rw [List.all_eq_true]
                intro u hu
                rw [List.mem_range] at hu
                cases ha : (s.pc u).accepted <;> cases hc : s.cerr (g.ctx u) <;> simp
                exact hcon ⟨u, hu, ha, hc⟩
              rw [hall2] at htab; cases htab
            obtain ⟨u, _, _, hc⟩ := this
            rcases hI.i2 _ hc with h | h <;> exact anyCause_of_causeIn h
          · simp only [if_true]
            intro e he
            cases e <;> simp [isDoneFail]
            rename_i u b
            cases b <;> simp [isDoneFail]
            have hfin := finished_of_done hI (Or.inr he)
            have hun : u < g.n := (hI.ti u).range (by rw [hfin]; simp)
            have hc := (hI.ti u).df he
            unfold tableOk at htab
            rw [List.all_eq_true] at htab
            have := htab u (List.mem_range.mpr hun)
            rw [hfin, hc] at this
            simp [PC.accepted] at this
      · constructor
        · intro j' hj'; rcases hj' with h | h <;> cases h
        · intro j' hj'; cases hj'
        · intro _; simp [emit, hasMwait]
          cases tableOk g s <;> simp
    · cases h
  · -- fins t
    rename_i t hmp
    have hmw := hI.mi.mw (Or.inl ⟨t, hmp⟩)
    have mkMI : ∀ s' : St, (∃ es, s'.tr = s.tr ++ es) → ((∃ t', s'.mp = .fins t') ∨ s'.mp = .finished) → MI g s' := by
      intro s' ⟨es, htr⟩ hmp'
      constructor
      · intro j' hj'; rcases hmp' with ⟨_, h⟩ | h <;> rw [h] at hj' <;> rcases hj' with h | h <;> cases h
      · intro j' hj'; rcases hmp' with ⟨_, h⟩ | h <;> rw [h] at hj' <;> cases hj'
      · intro _; rw [htr]; exact hasMwait_mono _ hmw
    split at h
    · split at h
      · cases h
        refine inv_main_log hI (es := [.fin t (!s.cerr (g.ctx t))]) rfl rfl rfl rfl (by simp) ?_ (by simp) (by simp) ?_
          (mkMI _ ⟨_, rfl⟩ (Or.inl ⟨_, rfl⟩))
        · intro u e he; simp at he; subst he; simp [touches]
        · intro e he; simp at he; subst he
          refine ⟨hmw, ?_⟩
          cases hc : s.cerr (g.ctx t)
          · simp only [Bool.not_false, if_true]
            intro u _ hd heq
            have := (hI.ti u).df hd
            rw [heq, hc] at this; cases this
          · simp only [Bool.not_true, Bool.false_eq_true, if_false]
            exact hI.i2 _ hc
      · cases h
        exact inv_main_log hI (es := []) rfl rfl rfl (by simp) (by simp) (by simp) (by simp) (by simp) (by simp)
          (mkMI _ ⟨[], by simp⟩ (Or.inl ⟨_, rfl⟩))
    · cases h
      refine inv_main_log hI (es := [.root (!s.cerr 0)]) rfl rfl rfl rfl (by simp) ?_ (by simp) (by simp) ?_
        (mkMI _ ⟨_, rfl⟩ (Or.inr rfl))
      · intro u e he; simp at he; subst he; simp [touches]
      · intro e he; simp at he; subst he
        refine ⟨hmw, ?_⟩
        cases hc : s.cerr 0
        · simp only [Bool.not_false, if_true]
          intro u _ hd heq
          have := (hI.ti u).df hd
          rw [heq, hc] at this; cases this
        · simp only [Bool.not_true, Bool.false_eq_true, if_false]
          rcases hI.i2 _ hc with h | h <;> exact h
  · cases h

/-- every step preserves the invariant -/
theorem inv_step {g : Graph} {s s' : St} (hw : WF g) (hI : Inv g s) (l : Label)
    (h : step g s l = some s') : Inv g s' := by
  cases l with
  | main => exact inv_stepMain hw hI h
  | task t => exact inv_stepTask hw hI h
  | stop t => exact inv_stepStop hI h
  | tryg y => exact inv_stepTry hw hI h

/-- the invariant holds in every reachable state -/
theorem inv_reachable {g : Graph} (hw : WF g) {s : St} (h : LTS.Reachable (sys g) s) : Inv g s :=
  LTS.inv_of_init_step (sys g) (Inv g) (inv_init g) (fun s i t hI hs => inv_step hw hI i hs) s h

/-- every run of the model satisfies the declarative trace property -/
theorem run_traceOk {g : Graph} (hw : WF g) (sched : List Label) : TraceOk g (run g sched).tr :=
  (inv_reachable hw (LTS.run_reachable (sys g) sched)).ok

end Goat.Pipeline
