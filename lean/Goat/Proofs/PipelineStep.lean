/-
Helper lemmas for properties C14/C16, part 3: every transition of the pipeline model preserves
the invariant `Inv` (and therefore the declarative trace property `TraceOk`).
-/
import Goat.Proofs.PipelineInv

namespace Goat.Pipeline

/-! ### Generic assembly lemmas -/

theorem freshDone_nil (tr : List Ev) : FreshDone tr [] := by
  intro u b h; cases h

theorem ti_frame_all {g : Graph} {s s' : St} (hI : Inv g s) {es : List Ev}
    (htr : s'.tr = s.tr ++ es) (hfd : FreshDone s.tr es)
    (hce : ∀ X, s.cerr X = true → s'.cerr X = true)
    (htg : ∀ y, (s.tg y).rank ≤ (s'.tg y).rank)
    (mv : Nat → Prop)
    (hmv : ∀ u, ¬ mv u → s'.pc u = s.pc u ∧ ∀ e ∈ es, ¬ touches g u e)
    (hnew : ∀ u, mv u → TIs g s' u) : ∀ u, TIs g s' u := by
  intro u
  rcases Classical.em (mv u) with h | h
  · exact hnew u h
  · obtain ⟨hpc, hno⟩ := hmv u h
    unfold TIs
    rw [hpc, htr]
    exact (hI.ti u).frame hno hfd (hce _) (htg _)

theorem YI.frame {g : Graph} {s s' : St} {y : Nat} (h : YI g s y) {es : List Ev}
    (htr : s'.tr = s.tr ++ es) (hfd : FreshDone s.tr es)
    (htg : s'.tg y = s.tg y)
    (hce : ∀ X, s.cerr X = true → s'.cerr X = true)
    (hacc : ∀ u, (s.pc u).accepted = true → (s'.pc u).accepted = true)
    (hown : s.tg y ≠ .idle → s.tg y ≠ .done → s'.pc (g.tryd y).owner = s.pc (g.tryd y).owner)
    (hnr : Ev.ret (g.tryd y).owner (g.tryd y).idx true ∈ es → s.tg y ≠ .idle) :
    YI g s' y := by
  have hdone : ∀ b, hasDone s.tr (g.tryd y).body →
      (Ev.done (g.tryd y).body b ∈ s'.tr ↔ Ev.done (g.tryd y).body b ∈ s.tr) := by
    intro b hb; rw [htr]; exact done_stable hfd hb b
  constructor
  · intro hs; rw [htr]; exact List.mem_append_left _ (h.started (htg ▸ hs))
  · intro hs; exact hacc _ (h.bodyAcc (htg ▸ hs))
  · intro v hv
    rw [htg] at hv
    have := h.v v hv
    refine ⟨by rw [htr]; exact hasDone_mono es this.1, ?_⟩
    rw [hdone true this.1]; exact this.2
  · intro hs; rw [htr]; exact hasDone_mono es (h.dn (htg ▸ hs))
  · intro hr hh hf
    rw [htg] at hr
    rcases h.finAcc hr hh hf with h1 | h1
    · exact Or.inl (hacc _ h1)
    · exact Or.inr (hce _ h1)
  · intro hr hd hh hf
    rw [htg] at hr
    have hb : hasDone s.tr (g.tryd y).body := by
      rcases Nat.lt_or_ge (s.tg y).rank 5 with h5 | h5
      · have : ∃ v, s.tg y = .subSucc v := by
          cases hq : s.tg y <;> simp [hq, TG.rank] at hr h5
          exact ⟨_, rfl⟩
        obtain ⟨v, hv⟩ := this
        exact (h.v v (Or.inr (Or.inr hv))).1
      · have : s.tg y = .done := by
          cases hq : s.tg y <;> simp [hq, TG.rank] at h5
          rfl
        exact h.dn this
    rw [hdone false hb] at hd
    rcases h.failAcc hr hd hh hf with h1 | h1
    · exact Or.inl (hacc _ h1)
    · exact Or.inr (hce _ h1)
  · intro hr hd hh hf
    rw [htg] at hr
    have hb : hasDone s.tr (g.tryd y).body := by
      have : s.tg y = .done := by
        cases hq : s.tg y <;> simp [hq, TG.rank] at hr
        rfl
      exact h.dn this
    rw [hdone true hb] at hd
    rcases h.succAcc hr hd hh hf with h1 | h1
    · exact Or.inl (hacc _ h1)
    · exact Or.inr (hce _ h1)
  · intro h1 h2
    rw [htg] at h1 h2
    rw [hown h1 h2]; exact h.active h1 h2
  · intro hm
    rw [htg]
    rw [htr] at hm
    rcases List.mem_append.mp hm with hm | hm
    · exact h.started' hm
    · exact hnr hm

theorem MI.frame {g : Graph} {s s' : St} (h : MI g s) {es : List Ev}
    (htr : s'.tr = s.tr ++ es) (hmp : s'.mp = s.mp)
    (hno : ∀ t, Ev.acc t ∉ es ∧ Ev.rej t ∉ es)
    (hpc : ∀ u, s.pc u ≠ .idle → s'.pc u ≠ .idle) : MI g s' := by
  constructor
  · intro j hj t ht
    rw [hmp] at hj
    apply h.early j hj t
    rw [htr] at ht
    rcases ht with ht | ht
    · rcases List.mem_append.mp ht with ht | ht
      · exact Or.inl ht
      · exact absurd ht (hno t).1
    · rcases List.mem_append.mp ht with ht | ht
      · exact Or.inr ht
      · exact absurd ht (hno t).2
  · intro j hj
    rw [hmp] at hj
    obtain ⟨t, h1, h2⟩ := h.cr j hj
    exact ⟨t, h1, by rw [htr]; exact List.mem_append_left _ h2⟩
  · intro hm
    rw [hmp] at hm
    rw [htr]; exact hasMwait_mono es (h.mw hm)
  · intro hm t hr ht
    rw [hmp] at hm
    exact hpc t (h.late hm t hr ht)

theorem i2_frame {g : Graph} {s s' : St} (hI : Inv g s) {es : List Ev}
    (htr : s'.tr = s.tr ++ es)
    (hce : ∀ X, s'.cerr X = true → s.cerr X = true ∨ causeIn g X s'.tr ∨ causeIn g 0 s'.tr) :
    ∀ X, s'.cerr X = true → causeIn g X s'.tr ∨ causeIn g 0 s'.tr := by
  intro X hX
  rcases hce X hX with h | h
  · rw [htr]
    rcases hI.i2 X h with h | h
    · exact Or.inl (causeIn_mono es h)
    · exact Or.inr (causeIn_mono es h)
  · exact h

/-! ### The initial state -/

theorem inv_init (g : Graph) : Inv g init := by
  refine ⟨fun u => ?_, fun y _ => ?_, ?_, ?_, ?_, traceOk_nil g⟩
  · constructor <;> simp [init, PC.accepted, issued, returned, okUpTo, hasDone, acceptedEv]
    · split <;> simp
  · constructor <;> simp [init, TG.rank]
  · intro u h; simp [init, PC.accepted] at h
  · constructor <;> simp [init]
  · intro X h; simp [init] at h

/-! ### A task moves (no submission involved) -/

theorem accepted_upd {pc : Nat → PC} {t : Nat} {q : PC} (hq : (pc t).accepted = true → q.accepted = true)
    (u : Nat) (h : (pc u).accepted = true) : (upd pc t q u).accepted = true := by
  rw [upd_apply]; split
  · rename_i h1; subst h1; exact hq h
  · exact h

theorem parentAt_upd {g : Graph} {s s' : St} {t : Nat} {q : PC} (hpc : s'.pc = upd s.pc t q)
    (hna : ∀ i, s.pc t ≠ .afterCmd i) {u : Nat} (h : parentAt g s u) : parentAt g s' u := by
  unfold parentAt at *
  rw [hpc]
  split at h
  · trivial
  all_goals
    rw [upd_other]
    · exact h
    · intro heq; rw [heq] at h; exact hna _ h

theorem traceOk_ext {g : Graph} {tr es : List Ev} (h : TraceOk g tr) (hlen : es.length ≤ 1)
    (hok : ∀ e ∈ es, Ok g tr e) : TraceOk g (tr ++ es) := by
  match es, hlen with
  | [], _ => simpa using h
  | [e], _ => exact traceOk_snoc h (hok e (by simp))

/-- the general shape of a step in which task `t` moves from `s.pc t` to `q`, possibly emitting one
event and setting error flags, and nothing is submitted -/
theorem inv_move {g : Graph} {s s' : St} (hI : Inv g s) {t : Nat} {q : PC} {es : List Ev}
    (hpc : s'.pc = upd s.pc t q) (htr : s'.tr = s.tr ++ es) (htg : s'.tg = s.tg) (hmp : s'.mp = s.mp)
    (hlen : es.length ≤ 1)
    (hacc : (s.pc t).accepted = true) (hqacc : q.accepted = true)
    (hq : TI g t q s'.tr (s'.cerr (g.ctx t)) (s.tg (tryOf g t)))
    (hfd : FreshDone s.tr es)
    (hev : ∀ u, u ≠ t → ∀ e ∈ es, ¬ touches g u e)
    (hce : ∀ X, s.cerr X = true → s'.cerr X = true)
    (hi2 : ∀ X, s'.cerr X = true → s.cerr X = true ∨ causeIn g X s'.tr ∨ causeIn g 0 s'.tr)
    (hok : ∀ e ∈ es, Ok g s.tr e)
    (hnoacc : ∀ u, Ev.acc u ∉ es ∧ Ev.rej u ∉ es)
    (hpar : ∀ u, u ≠ t → (s.pc u).accepted = true → s.pc u ≠ .finished → parentAt g s u → parentAt g s' u)
    (hpart : q ≠ .finished → parentAt g s' t)
    (hown : ∀ y, y < g.tries.length → s.tg y ≠ .idle → s.tg y ≠ .done → (g.tryd y).owner ≠ t)
    (hnr : ∀ y, y < g.tries.length → Ev.ret (g.tryd y).owner (g.tryd y).idx true ∈ es → s.tg y ≠ .idle) :
    Inv g s' := by
  have hne : s.pc t ≠ .idle := by intro h; rw [h] at hacc; simp [PC.accepted] at hacc
  refine ⟨?_, ?_, ?_, ?_, ?_, ?_⟩
  · apply ti_frame_all hI htr hfd hce (fun y => by rw [htg]; exact Nat.le_refl _) (fun u => u = t)
    · intro u hu
      exact ⟨by rw [hpc]; exact upd_other _ _ hu, hev u hu⟩
    · intro u hu
      subst hu
      unfold TIs
      rw [hpc, upd_same, htg]; exact hq
  · intro y hy
    apply (hI.yi y hy).frame htr hfd (by rw [htg]) hce
    · intro u hu; rw [hpc]; exact accepted_upd (fun _ => hqacc) u hu
    · intro h1 h2
      rw [hpc, upd_other _ _ (hown y hy h1 h2)]
    · exact hnr y hy
  · intro u ha hf
    by_cases hu : u = t
    · subst hu
      rw [hpc, upd_same] at hf
      exact hpart hf
    · rw [hpc, upd_other _ _ hu] at ha hf
      exact hpar u hu ha hf (hI.x3 u ha hf)
  · apply hI.mi.frame htr hmp hnoacc
    intro u hu; rw [hpc, upd_apply]; split
    · intro h; rw [h] at hqacc; simp [PC.accepted] at hqacc
    · exact hu
  · exact i2_frame hI htr hi2
  · rw [htr]; exact traceOk_ext hI.ok hlen hok

end Goat.Pipeline
