/-
Helper lemmas for properties C14/C16, part 7: termination.  Every step strictly decreases a
measure (remaining work of the main thread + of every task + of every try goroutine), so together
with deadlock freedom every run can be extended to one in which the main thread has finished —
`TasksManager.Wait` has returned and every accepted task has released its latch.
-/
import Goat.Proofs.PipelineLive

set_option linter.unusedSimpArgs false
set_option linter.unusedVariables false

namespace Goat.Pipeline

/-! ### Sums over an initial segment -/

def sumTo : Nat → (Nat → Nat) → Nat
  | 0, _ => 0
  | k + 1, f => sumTo k f + f k

theorem sumTo_le {f f' : Nat → Nat} (h : ∀ u, f' u ≤ f u) : ∀ k, sumTo k f' ≤ sumTo k f := by
  intro k
  induction k with
  | zero => exact Nat.le_refl _
  | succ k ih => simp only [sumTo]; have := h k; omega

theorem sumTo_lt {f f' : Nat → Nat} (h : ∀ u, f' u ≤ f u) {t : Nat} (ht : f' t < f t) :
    ∀ k, t < k → sumTo k f' < sumTo k f := by
  intro k
  induction k with
  | zero => intro h0; omega
  | succ k ih =>
    intro hk
    simp only [sumTo]
    rcases Nat.lt_or_ge t k with h1 | h1
    · have := ih h1; have := h k; omega
    · have : t = k := by omega
      subst this
      have := sumTo_le h t; omega

/-! ### The measure -/

def taskW (g : Graph) (u : Nat) : PC → Nat
  | .idle => (g.waits u).length + 3 * (g.body u).length + 4
  | .rejected => 0
  | .waiting k => ((g.waits u).length - k) + 3 * (g.body u).length + 3
  | .run i => 3 * ((g.body u).length - i) + 2
  | .inCmd i => 3 * ((g.body u).length - i) + 1
  | .afterCmd i => 3 * ((g.body u).length - i)
  | .closing _ => 1
  | .finished => 0

def tgW : TG → Nat
  | .idle => 5
  | .waitBody => 4
  | .subFin _ => 3
  | .subFail _ => 2
  | .subSucc _ => 1
  | .done => 0

def mainW (g : Graph) : MP → Nat
  | .sub j => 2 * (g.top.length - j) + g.n + 4
  | .create j => 2 * (g.top.length - j) + g.n + 3
  | .wait => g.n + 3
  | .fins t => (g.n - t) + 1
  | .finished => 0

def mu (g : Graph) (s : St) : Nat :=
  mainW g s.mp + sumTo g.n (fun u => taskW g u (s.pc u)) + sumTo g.tries.length (fun y => tgW (s.tg y))

theorem mu_lt {g : Graph} {s s' : St}
    (hp : ∀ u, taskW g u (s'.pc u) ≤ taskW g u (s.pc u))
    (ht : ∀ y, tgW (s'.tg y) ≤ tgW (s.tg y))
    (hm : mainW g s'.mp ≤ mainW g s.mp)
    (hs : (∃ u, u < g.n ∧ taskW g u (s'.pc u) < taskW g u (s.pc u)) ∨
          (∃ y, y < g.tries.length ∧ tgW (s'.tg y) < tgW (s.tg y)) ∨
          mainW g s'.mp < mainW g s.mp) : mu g s' < mu g s := by
  unfold mu
  have h1 := sumTo_le (f := fun u => taskW g u (s.pc u)) (f' := fun u => taskW g u (s'.pc u)) hp g.n
  have h2 := sumTo_le (f := fun y => tgW (s.tg y)) (f' := fun y => tgW (s'.tg y)) ht g.tries.length
  rcases hs with ⟨u, hu, hlt⟩ | ⟨y, hy, hlt⟩ | hlt
  · have := sumTo_lt (f := fun u => taskW g u (s.pc u)) (f' := fun u => taskW g u (s'.pc u)) hp hlt g.n hu
    omega
  · have := sumTo_lt (f := fun y => tgW (s.tg y)) (f' := fun y => tgW (s'.tg y)) ht hlt g.tries.length hy
    omega
  · omega

theorem taskW_le_idle (g : Graph) (u : Nat) (q : PC) (h : q = .waiting 0 ∨ q = .rejected) :
    taskW g u q < taskW g u .idle := by
  rcases h with h | h <;> subst h <;> simp [taskW] <;> omega

/-- a task moves to a state of smaller weight -/
theorem mu_move {g : Graph} {s s' : St} {t : Nat} {q : PC} (hpc : s'.pc = upd s.pc t q)
    (htg : s'.tg = s.tg) (hmp : s'.mp = s.mp) (htn : t < g.n)
    (hlt : taskW g t q < taskW g t (s.pc t)) : mu g s' < mu g s := by
  apply mu_lt
  · intro u; rw [hpc, upd_apply]; split
    · rename_i h; subst h; omega
    · exact Nat.le_refl _
  · intro y; rw [htg]; exact Nat.le_refl _
  · rw [hmp]; exact Nat.le_refl _
  · exact Or.inl ⟨t, htn, by rw [hpc, upd_same]; exact hlt⟩

/-- a task moves and decides the submission of an idle task; try goroutines do not gain weight -/
theorem mu_move_create {g : Graph} {s s' : St} {t c : Nat} {q qc : PC}
    (hpc : s'.pc = upd (upd s.pc c qc) t q) (hct : c ≠ t) (hci : s.pc c = .idle)
    (hqc : qc = .waiting 0 ∨ qc = .rejected)
    (htg : ∀ y, tgW (s'.tg y) ≤ tgW (s.tg y)) (hmp : s'.mp = s.mp) (htn : t < g.n)
    (hlt : taskW g t q < taskW g t (s.pc t)) : mu g s' < mu g s := by
  apply mu_lt
  · intro u; rw [hpc, upd_apply]; split
    · rename_i h; subst h; omega
    · rw [upd_apply]; split
      · rename_i h; subst h; rw [hci]; exact Nat.le_of_lt (taskW_le_idle g u qc hqc)
      · exact Nat.le_refl _
  · exact htg
  · rw [hmp]; exact Nat.le_refl _
  · exact Or.inl ⟨t, htn, by rw [hpc, upd_same]; exact hlt⟩

/-! ### Targets of a submission are idle -/

theorem spawn_idle {g : Graph} {s : St} (hw : WF g) (hI : Inv g s) {t i c : Nat}
    (hpc : s.pc t = .inCmd i) (hcmd : g.cmdAt t i = some (.spawn c)) : s.pc c = .idle ∧ c ≠ t := by
  have T := hI.ti t
  unfold TIs at T; rw [hpc] at T
  obtain ⟨_, hr⟩ := hw.spawn (t_lt_of_cmd hcmd) hcmd
  have hnoret : ¬ hasRet s.tr t i := by
    intro h; rcases h with h | h <;> exact Nat.lt_irrefl _ (T.retB i rfl i _ h)
  have hcidle : s.pc c = .idle := by
    apply idle_of_not_created hI
    unfold created; rw [hr]; exact hnoret
  exact ⟨hcidle, by intro h; rw [h, hpc] at hcidle; cases hcidle⟩

theorem try_idle {g : Graph} {s : St} (hw : WF g) (hI : Inv g s) {t i y : Nat}
    (hpc : s.pc t = .inCmd i) (hcmd : g.cmdAt t i = some (.try_ y)) :
    s.pc (g.tryd y).body = .idle ∧ (g.tryd y).body ≠ t ∧ s.tg y = .idle ∧ y < g.tries.length := by
  have T := hI.ti t
  unfold TIs at T; rw [hpc] at T
  obtain ⟨hy, ho, hix⟩ := hw.tryc (t_lt_of_cmd hcmd) hcmd
  obtain ⟨_, _, _, hr⟩ := hw.tryOwner hy
  have hnoret : ¬ hasRet s.tr t i := by
    intro h; rcases h with h | h <;> exact Nat.lt_irrefl _ (T.retB i rfl i _ h)
  have hcidle : s.pc (g.tryd y).body = .idle := by
    apply idle_of_not_created hI
    unfold created; rw [hr]; simp only; rw [ho, hix]; exact hnoret
  refine ⟨hcidle, (by intro h; rw [h, hpc] at hcidle; cases hcidle), ?_, hy⟩
  rcases Classical.em (s.tg y = .idle) with h | h
  · exact h
  · have := (hI.yi y hy).started h; rw [ho, hix] at this; exact absurd (Or.inl this) hnoret

theorem top_idle {g : Graph} {s : St} (hw : WF g) (hI : Inv g s) {j t : Nat}
    (hmp : s.mp = .create j) (htop : g.top[j]? = some t) : s.pc t = .idle ∧ t < g.n := by
  obtain ⟨htn, htr⟩ := hw.top t (List.mem_of_getElem? htop)
  refine ⟨?_, htn⟩
  apply idle_of_not_created hI
  unfold created; rw [htr]
  intro hh
  obtain ⟨j', hj', hj''⟩ := hI.mi.early j (Or.inr hmp) t hh
  have := nodup_idx hw.nodup hj'' htop
  omega

theorem handler_idle {g : Graph} {s : St} (hw : WF g) (hI : Inv g s) {y hh : Nat} (hy : y < g.tries.length)
    (h : ((g.tryd y).fin = some hh ∧ (s.tg y).rank < 3) ∨ ((g.tryd y).fail = some hh ∧ (s.tg y).rank < 4) ∨
         ((g.tryd y).succ = some hh ∧ (s.tg y).rank < 5)) : s.pc hh = .idle ∧ hh < g.n := by
  obtain ⟨h1, h2, h3⟩ := hw.tryHandlers hy
  rcases h with ⟨hx, hr⟩ | ⟨hx, hr⟩ | ⟨hx, hr⟩
  · obtain ⟨a, b⟩ := h3 hh hx
    refine ⟨?_, a⟩
    apply idle_of_not_created hI
    unfold created tryOf; rw [b]; simp only; omega
  · obtain ⟨a, b⟩ := h2 hh hx
    refine ⟨?_, a⟩
    apply idle_of_not_created hI
    unfold created tryOf; rw [b]; simp only; omega
  · obtain ⟨a, b⟩ := h1 hh hx
    refine ⟨?_, a⟩
    apply idle_of_not_created hI
    unfold created tryOf; rw [b]; simp only; omega

/-! ### Every step decreases the measure -/

theorem mu_stepTask {g : Graph} {s s' : St} {t : Nat} (hw : WF g) (hI : Inv g s)
    (h : stepTask g s t = some s') : mu g s' < mu g s := by
  have htn : s.pc t ≠ .idle → t < g.n := (hI.ti t).range
  unfold stepTask at h
  split at h
  · rename_i k hpc
    have ht := htn (by rw [hpc]; simp)
    split at h
    · cases h; exact mu_move rfl rfl rfl ht (by rw [hpc]; simp [taskW] <;> omega)
    · rename_i w hk
      have hkl : k < (g.waits t).length := (List.getElem?_eq_some_iff.mp hk).1
      split at h
      · split at h
        · cases h; exact mu_move rfl rfl rfl ht (by rw [hpc]; simp [taskW] <;> omega)
        · cases h; exact mu_move rfl rfl rfl ht (by rw [hpc]; simp [taskW] <;> omega)
      · cases h
  · rename_i i hpc
    have ht := htn (by rw [hpc]; simp)
    split at h
    · cases h; exact mu_move rfl rfl rfl ht (by rw [hpc]; simp [taskW])
    · cases h; exact mu_move rfl rfl rfl ht (by rw [hpc]; simp [taskW])
  · rename_i i hpc
    have ht := htn (by rw [hpc]; simp)
    split at h
    · cases h
    · rename_i hcmd; have := cmdAt_lt hcmd
      cases h; exact mu_move rfl rfl rfl ht (by rw [hpc]; simp [taskW])
    · rename_i hcmd; have := cmdAt_lt hcmd
      cases h; exact mu_move rfl rfl rfl ht (by rw [hpc]; simp [taskW])
    · rename_i hcmd; have := cmdAt_lt hcmd
      cases h; exact mu_move rfl rfl rfl ht (by rw [hpc]; simp [taskW] <;> omega)
    · rename_i c hcmd; have := cmdAt_lt hcmd
      obtain ⟨hci, hct⟩ := spawn_idle hw hI hpc hcmd
      split at h
      · cases h
        exact mu_move_create rfl hct hci (Or.inl rfl) (fun _ => Nat.le_refl _) rfl ht (by rw [hpc]; simp [taskW])
      · cases h
        exact mu_move_create rfl hct hci (Or.inr rfl) (fun _ => Nat.le_refl _) rfl ht
          (by rw [hpc]; simp [taskW] <;> omega)
    · rename_i y hcmd; have := cmdAt_lt hcmd
      obtain ⟨hci, hct, htgi, _⟩ := try_idle hw hI hpc hcmd
      split at h
      · cases h
        refine mu_move_create rfl hct hci (Or.inl rfl) ?_ rfl ht (by rw [hpc]; simp [taskW])
        intro z
        show tgW (upd s.tg y .waitBody z) ≤ _
        rw [upd_apply]; split
        · rename_i hz; subst hz; rw [htgi]; simp [tgW]
        · exact Nat.le_refl _
      · cases h
        exact mu_move_create rfl hct hci (Or.inr rfl) (fun _ => Nat.le_refl _) rfl ht
          (by rw [hpc]; simp [taskW] <;> omega)
  · rename_i i hpc
    have ht := htn (by rw [hpc]; simp)
    split at h
    · cases h
    · rename_i c hcmd; have := cmdAt_lt hcmd
      split at h
      · split at h
        · cases h; exact mu_move rfl rfl rfl ht (by rw [hpc]; simp [taskW] <;> omega)
        · cases h; exact mu_move rfl rfl rfl ht (by rw [hpc]; simp [taskW] <;> omega)
      · cases h
  · rename_i f hpc
    have ht := htn (by rw [hpc]; simp)
    cases h; exact mu_move rfl rfl rfl ht (by rw [hpc]; simp [taskW])
  · cases h

theorem mu_stepStop {g : Graph} {s s' : St} {t : Nat} (hI : Inv g s)
    (h : stepStop g s t = some s') : mu g s' < mu g s := by
  unfold stepStop at h
  split at h
  · rename_i i hpc
    have ht := (hI.ti t).range (by rw [hpc]; simp)
    split at h
    · cases h; exact mu_move rfl rfl rfl ht (by rw [hpc]; simp [taskW])
    · cases h
  · cases h

/-- the try goroutine moves, possibly deciding the submission of an idle handler -/
theorem mu_tg {g : Graph} {s s' : St} {y : Nat} {q : TG} (hy : y < g.tries.length)
    (hpc : ∀ u, taskW g u (s'.pc u) ≤ taskW g u (s.pc u)) (htg : s'.tg = upd s.tg y q)
    (hmp : s'.mp = s.mp) (hlt : tgW q < tgW (s.tg y)) : mu g s' < mu g s := by
  apply mu_lt hpc
  · intro z; rw [htg, upd_apply]; split
    · rename_i h; subst h; omega
    · exact Nat.le_refl _
  · rw [hmp]; exact Nat.le_refl _
  · exact Or.inr (Or.inl ⟨y, hy, by rw [htg, upd_same]; exact hlt⟩)

theorem mu_submitHandler {g : Graph} {s : St} (hw : WF g) (hI : Inv g s) {y : Nat} (hy : y < g.tries.length)
    (ho : Option Nat) (sel : Bool) (next : TG)
    (hidle : ∀ hh, ho = some hh → s.pc hh = .idle)
    (hlt : tgW next < tgW (s.tg y)) : mu g (submitHandler g s y ho sel next) < mu g s := by
  have hdone : tgW .done < tgW (s.tg y) := by
    have : tgW .done = 0 := rfl
    omega
  unfold submitHandler
  split
  · rename_i hh
    have hci := hidle hh rfl
    split
    · refine mu_tg hy ?_ rfl rfl hlt
      intro u
      show taskW g u (upd s.pc hh (.waiting 0) u) ≤ _
      rw [upd_apply]; split
      · rename_i hu; subst hu; rw [hci]; exact Nat.le_of_lt (taskW_le_idle g u _ (Or.inl rfl))
      · exact Nat.le_refl _
    · refine mu_tg hy ?_ rfl rfl hdone
      intro u
      show taskW g u (upd s.pc hh .rejected u) ≤ _
      rw [upd_apply]; split
      · rename_i hu; subst hu; rw [hci]; exact Nat.le_of_lt (taskW_le_idle g u _ (Or.inr rfl))
      · exact Nat.le_refl _
  · exact mu_tg hy (fun _ => Nat.le_refl _) rfl rfl hlt

theorem mu_stepTry {g : Graph} {s s' : St} {y : Nat} (hw : WF g) (hI : Inv g s)
    (h : stepTry g s y = some s') : mu g s' < mu g s := by
  unfold stepTry at h
  split at h
  · rename_i htg
    have hy := hI.tgr y (by rw [htg]; simp)
    split at h
    · cases h; exact mu_tg hy (fun _ => Nat.le_refl _) rfl rfl (by rw [htg]; simp [tgW])
    · cases h
  · rename_i v htg
    have hy := hI.tgr y (by rw [htg]; simp)
    cases h
    apply mu_submitHandler hw hI hy
    · intro hh hho; exact (handler_idle hw hI hy (Or.inl ⟨hho, by rw [htg]; simp [TG.rank]⟩)).1
    · rw [htg]; simp [tgW]
  · rename_i v htg
    have hy := hI.tgr y (by rw [htg]; simp)
    cases h
    apply mu_submitHandler hw hI hy
    · intro hh hho; exact (handler_idle hw hI hy (Or.inr (Or.inl ⟨hho, by rw [htg]; simp [TG.rank]⟩))).1
    · rw [htg]; simp [tgW]
  · rename_i v htg
    have hy := hI.tgr y (by rw [htg]; simp)
    cases h
    apply mu_submitHandler hw hI hy
    · intro hh hho; exact (handler_idle hw hI hy (Or.inr (Or.inr ⟨hho, by rw [htg]; simp [TG.rank]⟩))).1
    · rw [htg]; simp [tgW]
  · cases h

theorem mu_stepMain {g : Graph} {s s' : St} (hw : WF g) (hI : Inv g s)
    (h : stepMain g s = some s') : mu g s' < mu g s := by
  have main_only : ∀ s' : St, s'.pc = s.pc → s'.tg = s.tg → mainW g s'.mp < mainW g s.mp → mu g s' < mu g s := by
    intro s' hpc htg hlt
    apply mu_lt
    · intro u; rw [hpc]; exact Nat.le_refl _
    · intro y; rw [htg]; exact Nat.le_refl _
    · exact Nat.le_of_lt hlt
    · exact Or.inr (Or.inr hlt)
  unfold stepMain at h
  split at h
  · rename_i j hmp
    split at h
    · rename_i t htop
      have : j < g.top.length := (List.getElem?_eq_some_iff.mp htop).1
      cases h; exact main_only _ rfl rfl (by rw [hmp]; simp [mainW, emit])
    · rename_i htop
      cases h; exact main_only _ rfl rfl (by rw [hmp]; simp [mainW] <;> omega)
  · rename_i j hmp
    split at h
    · rename_i t htop
      have hjl : j < g.top.length := (List.getElem?_eq_some_iff.mp htop).1
      obtain ⟨hci, htn⟩ := top_idle hw hI hmp htop
      have key : ∀ (q : PC) (s' : St), (q = .waiting 0 ∨ q = .rejected) → s'.pc = upd s.pc t q → s'.tg = s.tg →
          s'.mp = .sub (j + 1) → mu g s' < mu g s := by
        intro q s' hq hpc htg hmp'
        apply mu_lt
        · intro u; rw [hpc, upd_apply]; split
          · rename_i hu; subst hu; rw [hci]; exact Nat.le_of_lt (taskW_le_idle g u q hq)
          · exact Nat.le_refl _
        · intro y; rw [htg]; exact Nat.le_refl _
        · rw [hmp', hmp]; simp [mainW] <;> omega
        · exact Or.inr (Or.inr (by rw [hmp', hmp]; simp [mainW] <;> omega))
      split at h
      · cases h; exact key _ _ (Or.inl rfl) rfl rfl rfl
      · cases h; exact key _ _ (Or.inr rfl) rfl rfl rfl
    · cases h
  · rename_i hmp
    split at h
    · cases h; exact main_only _ rfl rfl (by rw [hmp]; simp [mainW, emit])
    · cases h
  · rename_i t hmp
    split at h
    · split at h
      · cases h; exact main_only _ rfl rfl (by rw [hmp]; simp [mainW, emit] <;> omega)
      · cases h; exact main_only _ rfl rfl (by rw [hmp]; simp [mainW] <;> omega)
    · cases h; exact main_only _ rfl rfl (by rw [hmp]; simp [mainW, emit])
  · cases h

theorem mu_step {g : Graph} {s s' : St} (hw : WF g) (hI : Inv g s) (l : Label)
    (h : step g s l = some s') : mu g s' < mu g s := by
  cases l with
  | main => exact mu_stepMain hw hI h
  | task t => exact mu_stepTask hw hI h
  | stop t => exact mu_stepStop hI h
  | tryg y => exact mu_stepTry hw hI h

/-- from every reachable state some continuation of the schedule lets the main thread finish -/
theorem can_finish {g : Graph} (hw : WF g) : ∀ (m : Nat) (s : St), LTS.Reachable (sys g) s → mu g s = m →
    ∃ ext, ((sys g).runFrom s ext).mp = .finished := by
  intro m
  induction m using Nat.strongRecOn with
  | _ m ih =>
  intro s hr hm
  by_cases hfin : s.mp = .finished
  · exact ⟨[], hfin⟩
  · have hI := inv_reachable hw hr
    obtain ⟨l, hl⟩ := progress hw hI hfin
    cases hs : step g s l with
    | none => rw [hs] at hl; cases hl
    | some s' =>
      have hlt := mu_step hw hI l hs
      obtain ⟨ext, hext⟩ := ih (mu g s') (by omega) s' (LTS.Reachable.step l hr hs) rfl
      refine ⟨l :: ext, ?_⟩
      rw [LTS.runFrom_cons]
      have : (sys g).next s l = s' := by
        unfold LTS.Sys.next
        show (step g s l).getD s = s'
        rw [hs]; rfl
      rw [this]; exact hext

end Goat.Pipeline
