/-
Helper lemmas for properties C14/C16, part 5: consequences of the declarative trace property
`TraceOk` that need reasoning about several positions of a trace (uniqueness of return and close
events, commands in script order).
-/
import Goat.Proofs.PipelineErr

set_option linter.unusedSimpArgs false
set_option linter.unusedVariables false

namespace Goat.Pipeline

/-- of two different elements of a list one comes first -/
theorem two_mem_split {α : Type} {l : List α} {a b : α} (ha : a ∈ l) (hb : b ∈ l) (hne : a ≠ b) :
    (∃ pre post, l = pre ++ b :: post ∧ a ∈ pre) ∨ (∃ pre post, l = pre ++ a :: post ∧ b ∈ pre) := by
  induction l with
  | nil => cases ha
  | cons x xs ih =>
    by_cases hxa : x = a
    · subst hxa
      have hb' : b ∈ xs := by
        rcases List.mem_cons.mp hb with h | h
        · exact absurd h.symm hne
        · exact h
      obtain ⟨p, q, hs⟩ := List.append_of_mem hb'
      exact Or.inl ⟨x :: p, q, by rw [hs]; rfl, by simp⟩
    · by_cases hxb : x = b
      · subst hxb
        have ha' : a ∈ xs := by
          rcases List.mem_cons.mp ha with h | h
          · exact absurd h.symm hxa
          · exact h
        obtain ⟨p, q, hs⟩ := List.append_of_mem ha'
        exact Or.inr ⟨x :: p, q, by rw [hs]; rfl, by simp⟩
      · have ha' : a ∈ xs := by
          rcases List.mem_cons.mp ha with h | h
          · exact absurd h.symm hxa
          · exact h
        have hb' : b ∈ xs := by
          rcases List.mem_cons.mp hb with h | h
          · exact absurd h.symm hxb
          · exact h
        rcases ih ha' hb' with ⟨p, q, hs, hm⟩ | ⟨p, q, hs, hm⟩
        · exact Or.inl ⟨x :: p, q, by rw [hs]; rfl, List.mem_cons_of_mem _ hm⟩
        · exact Or.inr ⟨x :: p, q, by rw [hs]; rfl, List.mem_cons_of_mem _ hm⟩

/-- a command returns once -/
theorem ret_unique {g : Graph} {tr : List Ev} (h : TraceOk g tr) {t i : Nat}
    (h1 : Ev.ret t i true ∈ tr) (h2 : Ev.ret t i false ∈ tr) : False := by
  rcases two_mem_split h1 h2 (by simp) with ⟨p, q, hs, hm⟩ | ⟨p, q, hs, hm⟩
  · exact (h p _ q hs).2.1 (Or.inl hm)
  · exact (h p _ q hs).2.1 (Or.inr hm)

/-- a task closes once -/
theorem done_unique {g : Graph} {tr : List Ev} (h : TraceOk g tr) {t : Nat}
    (h1 : Ev.done t true ∈ tr) (h2 : Ev.done t false ∈ tr) : False := by
  rcases two_mem_split h1 h2 (by simp) with ⟨p, q, hs, hm⟩ | ⟨p, q, hs, hm⟩
  · exact (h p _ q hs).1 (Or.inl hm)
  · exact (h p _ q hs).1 (Or.inr hm)

/-- commands are entered in script order, each after the previous one returned nil -/
theorem cmd_prev {g : Graph} {t : Nat} : ∀ (i : Nat) {tr pre post : List Ev}, TraceOk g tr →
    tr = pre ++ Ev.cmd t i :: post → ∀ j, j < i → Ev.cmd t j ∈ pre ∧ Ev.ret t j true ∈ pre := by
  intro i
  induction i with
  | zero => intro tr pre post _ _ j hj; omega
  | succ i ih =>
    intro tr pre post h hs j hj
    have hok := h pre _ post hs
    have hdo : cmdDoneOk g pre t i := by
      have := hok.2.2.2
      simpa using this
    have hret : Ev.ret t i true ∈ pre := hdo.1
    have hpre : TraceOk g pre := traceOk_prefix (b := Ev.cmd t (i + 1) :: post) (by rw [← hs]; exact h)
    have hcmd : Ev.cmd t i ∈ pre := cmd_of_ret hpre hret
    rcases Nat.lt_or_ge j i with h1 | h1
    · obtain ⟨p2, q2, hs2⟩ := List.append_of_mem hcmd
      have := ih hpre hs2 j h1
      rw [hs2]
      exact ⟨List.mem_append_left _ this.1, List.mem_append_left _ this.2⟩
    · have : j = i := by omega
      subst this
      exact ⟨hcmd, hret⟩

/-- after a command returned an error no further command of the task is entered -/
theorem no_cmd_after_failure {g : Graph} {tr : List Ev} (h : TraceOk g tr) {t j i : Nat}
    (hf : Ev.ret t j false ∈ tr) (hji : j < i) : Ev.cmd t i ∉ tr := by
  intro hc
  obtain ⟨p, q, hs⟩ := List.append_of_mem hc
  have := (cmd_prev i h hs j hji).2
  exact ret_unique h (by rw [hs]; exact List.mem_append_left _ this) hf

/-- a task one of whose commands failed (returned an error / unknown name / unreadable text) does not close ok -/
theorem no_done_true_after_failure {g : Graph} {tr : List Ev} (h : TraceOk g tr) {t j : Nat}
    (hf : Ev.ret t j false ∈ tr) : Ev.done t true ∉ tr := by
  intro hd
  obtain ⟨pre, post, hs, hk⟩ := traceOk_mem h hd
  have h3 := hk.2.2
  simp only [if_true] at h3
  -- the failing return and its command
  obtain ⟨p2, q2, hs2, hk2⟩ := traceOk_mem h hf
  have hcmd : Ev.cmd t j ∈ tr := by rw [hs2]; exact List.mem_append_left _ hk2.1
  obtain ⟨p3, q3, hs3, hk3⟩ := traceOk_mem h hcmd
  have hjl : j < (g.body t).length := hk3.1
  have key : cmdDoneOk g pre t j → False := fun hdn =>
    ret_unique h (by rw [hs]; exact List.mem_append_left _ hdn.1) hf
  rcases h3.2 with h4 | h4
  · exact key (h4 j (List.mem_range.mpr hjl))
  · -- the command was entered before the close (no command event after the close)
    have hin : Ev.cmd t j ∈ pre := by
      rw [hs] at hcmd
      rcases List.mem_append.mp hcmd with hm | hm
      · exact hm
      · exfalso
        rcases List.mem_cons.mp hm with hm | hm
        · cases hm
        · obtain ⟨a, b, hab⟩ := List.append_of_mem hm
          have hok : Ok g (pre ++ Ev.done t true :: a) (Ev.cmd t j) :=
            h (pre ++ Ev.done t true :: a) (Ev.cmd t j) b (by rw [hs, hab]; simp)
          exact hok.2.2.1 (Or.inl (by simp))
    exact key (h4.2 j (List.mem_range.mpr hjl) hin)

/-- a task that has entered some command has entered its first command -/
theorem cmd_zero_of_cmd {g : Graph} {tr : List Ev} (h : TraceOk g tr) {t i : Nat}
    (hc : Ev.cmd t i ∈ tr) : Ev.cmd t 0 ∈ tr := by
  cases i with
  | zero => exact hc
  | succ i =>
    obtain ⟨p, q, hs⟩ := List.append_of_mem hc
    rw [hs]
    exact List.mem_append_left _ (cmd_prev (i + 1) h hs 0 (by omega)).1

/-- a task with a failed prerequisite never runs and cannot close without error -/
theorem failed_prereq {g : Graph} {tr : List Ev} (h : TraceOk g tr) {t w : Nat} (hw : w ∈ g.waits t)
    (hf : Ev.done w false ∈ tr) : (∀ i, Ev.cmd t i ∉ tr) ∧ Ev.done t true ∉ tr := by
  constructor
  · intro i hc
    have h0 := cmd_zero_of_cmd h hc
    obtain ⟨p, q, hs⟩ := List.append_of_mem h0
    have hok := h p _ q hs
    have : waitsOk g p t := by
      have := hok.2.2.2
      simp only [if_true] at this
      exact this.2
    exact done_unique h (by rw [hs]; exact List.mem_append_left _ (this w hw)) hf
  · intro hd
    obtain ⟨p, q, hs⟩ := List.append_of_mem hd
    have hok := h p _ q hs
    have : waitsOk g p t := by
      have := hok.2.2
      simp only [if_true] at this
      exact this.1
    exact done_unique h (by rw [hs]; exact List.mem_append_left _ (this w hw)) hf

end Goat.Pipeline
