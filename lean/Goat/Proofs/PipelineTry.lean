/-
Helper lemmas for property C16, part 9: the fate of a selected handler is TIMED (the event that seals
it has its cause of failure strictly before it), and the try goroutine submits `finally` before the
selected handler (`TraceOrd`, an invariant of the model that is NOT a clause of the monitor: the
property does not prescribe an order of submission, the model has one).
-/
import Goat.Proofs.PipelineSteer

set_option linter.unusedSimpArgs false
set_option linter.unusedVariables false

namespace Goat.Pipeline

variable {g : Graph}

/-! ### The timed excuse -/

/-- an event that seals the fate of a handler of try `y` that did not start -/
def sealsFate (g : Graph) (y h : Nat) (e : Ev) : Prop :=
  e = .done h false ∨ ∃ h' ∈ g.handlers y, e = .hrej h'

/-- a handler that met its fate either started, or the trace splits at a sealing event with a cause of
failure in the owner's or the root context strictly before it -/
theorem fate_timed (hw : WF g) {pre : List Ev} (hok : TraceOk g pre) {y h : Nat} (hy : y < g.tries.length)
    (hh : h ∈ g.handlers y) (hf : handlerFate g pre y h) :
    Ev.cmd h 0 ∈ pre ∨ ∃ a e b, pre = a ++ e :: b ∧ sealsFate g y h e ∧ causeFor g a (g.tryd y).owner := by
  have hctx := (handler_facts hw hy hh).2.1
  rcases hf with h1 | ⟨_, hd⟩ | ⟨h', hm, hr⟩
  · exact Or.inl h1
  · obtain ⟨a, b, hs, hk⟩ := traceOk_mem hok hd
    refine Or.inr ⟨a, _, b, hs, Or.inl rfl, ?_⟩
    have := hk.2.2
    simp only [Bool.false_eq_true, if_false] at this
    unfold causeFor at this ⊢
    rw [hctx] at this
    exact this
  · obtain ⟨a, b, hs, hk⟩ := traceOk_mem hok hr
    refine Or.inr ⟨a, _, b, hs, Or.inr ⟨h', hm, rfl⟩, ?_⟩
    have := hk.2.2
    unfold causeFor at this ⊢
    rw [(handler_facts hw hy hm).2.1] at this
    exact this

/-- the untimed consequence (the clause as it was before): started, or a cause somewhere before -/
theorem fate_cause (hw : WF g) {pre : List Ev} (hok : TraceOk g pre) {y h : Nat} (hy : y < g.tries.length)
    (hh : h ∈ g.handlers y) (hf : handlerFate g pre y h) :
    Ev.cmd h 0 ∈ pre ∨ causeFor g pre (g.tryd y).owner := by
  rcases fate_timed hw hok hy hh hf with h1 | ⟨a, e, b, hs, _, hc⟩
  · exact Or.inl h1
  · rw [hs]; exact Or.inr (causeFor_mono _ hc)

theorem selected_sub_handlers {pre : List Ev} {y h : Nat} (hsel : h ∈ selected g pre y) : h ∈ g.handlers y := by
  apply mem_handlers.mpr
  rcases mem_selected hsel with h1 | ⟨_, h1⟩ | ⟨_, h1⟩
  · exact Or.inl h1
  · exact Or.inr (Or.inl h1)
  · exact Or.inr (Or.inr h1)

/-- what the close of the owner of a try block knows about a selected handler -/
theorem fate_at_close (hw : WF g) {tr pre post : List Ev} (htr : TraceOk g tr) {p i y h : Nat} {ok : Bool}
    (hs : tr = pre ++ Ev.done p ok :: post) (hc : g.cmdAt p i = some (.try_ y)) (hret : Ev.ret p i true ∈ pre)
    (hsel : h ∈ selected g pre y) : handlerFate g pre y h := by
  have hpre : TraceOk g pre := traceOk_prefix (b := Ev.done p ok :: post) (by rw [← hs]; exact htr)
  have hcl := (htr pre _ post hs).2.1 i (List.mem_range.mpr (cmdAt_lt hc)) (cmd_of_ret hpre hret)
  have := hcl.2 hret
  rw [hc] at this
  exact this.2.2.2 h hsel

/-- the owner of a try block never leaves the `pip:try` command while a handler that was accepted has
not closed (state form of the clause `hacc h ∈ pre → hasDone pre h` of `cmdClosed`) -/
theorem accepted_closed_when_owner_leaves (hw : WF g) {s : St} (hI : Inv g s) {y h : Nat} (hy : y < g.tries.length)
    (hh : h ∈ g.handlers y) (hna : s.pc (g.tryd y).owner ≠ .afterCmd (g.tryd y).idx)
    (hacc : Ev.hacc h ∈ s.tr) : hasDone s.tr h := by
  have ha := hI.ha h hacc
  have : s.pc h = .finished := by
    apply finished_of_not_parentAt hI ha
    exact not_parentAt (handler_facts hw hy hh).2.2 hna
  exact ((hI.ti h).fin this).1

/-! ### The order of submission inside the try goroutine -/

/-- the selected handler is submitted after `finally` has been accepted -/
def ordOk (g : Graph) (pre : List Ev) : Ev → Prop
  | .hacc h => ∀ y f, (g.role h = .hfail y ∨ g.role h = .hsucc y) → (g.tryd y).fin = some f → Ev.hacc f ∈ pre
  | .hrej h => (∀ y f, (g.role h = .hfail y ∨ g.role h = .hsucc y) → (g.tryd y).fin = some f → Ev.hacc f ∈ pre) ∧
      causeFor g pre h       -- a submission is refused only because the handler's scope or the root scope is done
  | _ => True

def TraceOrd (g : Graph) (tr : List Ev) : Prop :=
  ∀ pre e post, tr = pre ++ e :: post → ordOk g pre e

theorem traceOrd_snoc {tr : List Ev} {e : Ev} (h : TraceOrd g tr) (he : ordOk g tr e) : TraceOrd g (tr ++ [e]) := by
  intro pre e' post hs
  rcases split_snoc hs with ⟨h1, h2, _⟩ | ⟨post', _, h2⟩
  · subst h1; subst h2; exact he
  · exact h pre e' post' h2

/-- events that are no handler submissions -/
def nosub : Ev → Prop
  | .hacc _ => False
  | .hrej _ => False
  | _ => True

theorem ordOk_of_nosub {pre : List Ev} {e : Ev} (h : nosub e) : ordOk g pre e := by
  cases e <;> simp [nosub] at h <;> simp [ordOk]

structure OInv (g : Graph) (s : St) : Prop where
  tg  : ∀ y v f, (s.tg y = .subFail v ∨ s.tg y = .subSucc v) → (g.tryd y).fin = some f → Ev.hacc f ∈ s.tr
  ord : TraceOrd g s.tr

/-- a step of the main thread or of a runner: no handler submission, no try goroutine past `waitBody` -/
theorem step_other {s s' : St} {l : Label} (hl : ∀ y, l ≠ .tryg y) (hs : step g s l = some s') :
    (∀ z, s'.tg z = s.tg z ∨ s'.tg z = .waitBody) ∧
    (s'.tr = s.tr ∨ ∃ e, s'.tr = s.tr ++ [e] ∧ nosub e) := by
  have updw : ∀ (f : Nat → TG) (y z : Nat), upd f y .waitBody z = f z ∨ upd f y .waitBody z = .waitBody := by
    intro f y z; rw [upd_apply]; split
    · exact Or.inr rfl
    · exact Or.inl rfl
  cases l with
  | tryg y => exact absurd rfl (hl y)
  | main =>
    simp only [step, stepMain] at hs
    repeat' split at hs
    all_goals first
      | (cases hs; exact ⟨fun _ => Or.inl rfl, Or.inl rfl⟩)
      | (cases hs; exact ⟨fun _ => Or.inl rfl, Or.inr ⟨_, rfl, trivial⟩⟩)
      | cases hs
  | stop t =>
    simp only [step, stepStop] at hs
    repeat' split at hs
    all_goals first
      | (cases hs; exact ⟨fun _ => Or.inl rfl, Or.inl rfl⟩)
      | cases hs
  | task t =>
    simp only [step, stepTask] at hs
    repeat' split at hs
    all_goals first
      | (cases hs; exact ⟨fun _ => Or.inl rfl, Or.inl rfl⟩)
      | (cases hs; exact ⟨fun _ => Or.inl rfl, Or.inr ⟨_, rfl, trivial⟩⟩)
      | (cases hs; exact ⟨updw _ _, Or.inr ⟨_, rfl, trivial⟩⟩)
      | cases hs

theorem oinv_other {s s' : St} {l : Label} (hO : OInv g s) (hl : ∀ y, l ≠ .tryg y)
    (hs : step g s l = some s') : OInv g s' := by
  obtain ⟨htg, htr⟩ := step_other hl hs
  have hmem : ∀ e, e ∈ s.tr → e ∈ s'.tr := by
    intro e he
    rcases htr with h | ⟨e', h, _⟩ <;> rw [h]
    · exact he
    · exact List.mem_append_left _ he
  constructor
  · intro y v f hy hf
    have : s'.tg y = s.tg y := by
      rcases htg y with h | h
      · exact h
      · rw [h] at hy; rcases hy with hy | hy <;> cases hy
    rw [this] at hy
    exact hmem _ (hO.tg y v f hy hf)
  · rcases htr with h | ⟨e', h, hn⟩ <;> rw [h]
    · exact hO.ord
    · exact traceOrd_snoc hO.ord (ordOk_of_nosub hn)

/-- one `Runner.Run` of a handler by the try goroutine keeps the order invariant -/
theorem oinv_submit {s : St} (hO : OInv g s) {y : Nat} {ho : Option Nat} {sel : Bool} {next : TG}
    (hnext : ∀ v f, (next = .subFail v ∨ next = .subSucc v) → (g.tryd y).fin = some f →
      Ev.hacc f ∈ s.tr ∨ (ho = some f ∧ sel = true))
    (hord : ∀ h, ho = some h → ∀ y' f, (g.role h = .hfail y' ∨ g.role h = .hsucc y') → (g.tryd y').fin = some f →
      Ev.hacc f ∈ s.tr)
    (hrejc : ∀ h, ho = some h → ¬ canCreate g s h = true → causeFor g s.tr h) :
    OInv g (submitHandler g s y ho sel next) := by
  have other : ∀ (s' : St) (q : TG), s'.tg = upd s.tg y q → (∀ e, e ∈ s.tr → e ∈ s'.tr) →
      ∀ z v f, z ≠ y → (s'.tg z = .subFail v ∨ s'.tg z = .subSucc v) → (g.tryd z).fin = some f → Ev.hacc f ∈ s'.tr := by
    intro s' q htg hmem z v f hz hq hf
    rw [htg, upd_other _ _ hz] at hq
    exact hmem _ (hO.tg z v f hq hf)
  have skip : submitHandler g s y ho sel next = { s with tg := upd s.tg y next } →
      (∀ f, ho = some f → sel = true → False) → OInv g (submitHandler g s y ho sel next) := by
    intro hs' hvac
    rw [hs']
    constructor
    · intro z v f hq hf
      by_cases hz : z = y
      · subst hz
        have hq' : next = .subFail v ∨ next = .subSucc v := by
          simpa [upd_same] using hq
        rcases hnext v f hq' hf with h | ⟨h1, h2⟩
        · exact h
        · exact (hvac f h1 h2).elim
      · exact other { s with tg := upd s.tg y next } next rfl (fun _ h => h) z v f hz hq hf
    · exact hO.ord
  cases ho with
  | none => exact skip (by unfold submitHandler; rfl) (fun _ h _ => by cases h)
  | some h =>
  cases sel with
  | false => exact skip (by unfold submitHandler; rfl) (fun _ _ h => by cases h)
  | true =>
    by_cases hcan : canCreate g s h = true
    · have hs' : submitHandler g s y (some h) true next =
          emit { s with pc := upd s.pc h (.waiting 0), tg := upd s.tg y next } (.hacc h) := by
        unfold submitHandler; simp [hcan]
      rw [hs']
      constructor
      · intro z v f hq hf
        by_cases hz : z = y
        · subst hz
          have hq' : next = .subFail v ∨ next = .subSucc v := by
            simpa [emit, upd_same] using hq
          show Ev.hacc f ∈ s.tr ++ [Ev.hacc h]
          rcases hnext v f hq' hf with h1 | ⟨h1, _⟩
          · exact List.mem_append_left _ h1
          · cases h1; simp
        · exact other _ next rfl (fun e he => List.mem_append_left _ he) z v f hz hq hf
      · exact traceOrd_snoc hO.ord (hord h rfl)
    · have hs' : submitHandler g s y (some h) true next =
          emit { s with pc := upd s.pc h PC.rejected, cerr := upd s.cerr (g.ctx (g.tryd y).owner) true,
                        tg := upd s.tg y TG.done } (.hrej h) := by
        unfold submitHandler; simp [hcan]
      rw [hs']
      constructor
      · intro z v f hq hf
        by_cases hz : z = y
        · subst hz
          simp [emit, upd_same] at hq
        · exact other _ .done rfl (fun e he => List.mem_append_left _ he) z v f hz hq hf
      · exact traceOrd_snoc hO.ord ⟨hord h rfl, hrejc h rfl hcan⟩

/-- a handler has an empty wait list, so its submission is refused only when its scope or the root scope is done -/
theorem root_cause_of_refusal {s : St} (hI : Inv g s) {h : Nat} (hnw : g.waits h = []) (hih : isHandler g h = true)
    (hcan : ¬ canCreate g s h = true) : causeFor g s.tr h := by
  unfold canCreate submitCtxOk at hcan
  rw [hnw, validWL_nil] at hcan
  unfold isHandler at hih
  cases hr : g.role h <;> simp [hr] at hih hcan
  all_goals
    cases h0 : s.cerr 0
    · exact hI.i2 _ (hcan h0)
    · rcases hI.i2 0 h0 with h1 | h1 <;> exact Or.inr h1

theorem oinv_step {s s' : St} (hw : WF g) (hI : Inv g s) (hO : OInv g s) (l : Label)
    (hs : step g s l = some s') : OInv g s' := by
  cases l with
  | main => exact oinv_other hO (fun _ h => by cases h) hs
  | task t => exact oinv_other hO (fun _ h => by cases h) hs
  | stop t => exact oinv_other hO (fun _ h => by cases h) hs
  | tryg y =>
    simp only [step] at hs
    unfold stepTry at hs
    have hy : s.tg y ≠ .idle → y < g.tries.length := hI.tgr y
    split at hs
    · -- waitBody
      split at hs
      · cases hs
        constructor
        · intro z v f hq hf
          by_cases hz : z = y
          · subst hz; simp [upd_same] at hq
          · simp only [upd_other _ _ hz] at hq
            exact hO.tg z v f hq hf
        · exact hO.ord
      · cases hs
    · -- finally
      rename_i v htg
      have hy := hy (by rw [htg]; simp)
      obtain ⟨h1, h2, h3⟩ := hw.tryHandlers hy
      cases hs
      apply oinv_submit hO
      · intro v' f _ hf; exact Or.inr ⟨hf, rfl⟩
      · intro h hho y' f hr _
        obtain ⟨_, b⟩ := h3 h hho
        rw [b] at hr; rcases hr with hr | hr <;> cases hr
      · intro h hho hcan
        obtain ⟨a, b⟩ := h3 h hho
        exact root_cause_of_refusal hI (hw.hfin a b).2.2.2.2 (by unfold isHandler; rw [b]) hcan
    · -- fail
      rename_i v htg
      have hy := hy (by rw [htg]; simp)
      obtain ⟨h1, h2, h3⟩ := hw.tryHandlers hy
      cases hs
      apply oinv_submit hO
      · intro v' f _ hf; exact Or.inl (hO.tg y v f (Or.inl htg) hf)
      · intro h hho y' f hr hf
        obtain ⟨_, b⟩ := h2 h hho
        rw [b] at hr
        rcases hr with hr | hr <;> cases hr
        exact hO.tg y v f (Or.inl htg) hf
      · intro h hho hcan
        obtain ⟨a, b⟩ := h2 h hho
        exact root_cause_of_refusal hI (hw.hfail a b).2.2.2.2 (by unfold isHandler; rw [b]) hcan
    · -- success
      rename_i v htg
      have hy := hy (by rw [htg]; simp)
      obtain ⟨h1, h2, h3⟩ := hw.tryHandlers hy
      cases hs
      apply oinv_submit hO
      · intro v' f hq _; rcases hq with hq | hq <;> cases hq
      · intro h hho y' f hr hf
        obtain ⟨_, b⟩ := h1 h hho
        rw [b] at hr
        rcases hr with hr | hr <;> cases hr
        exact hO.tg y v f (Or.inr htg) hf
      · intro h hho hcan
        obtain ⟨a, b⟩ := h1 h hho
        exact root_cause_of_refusal hI (hw.hsucc a b).2.2.2.2 (by unfold isHandler; rw [b]) hcan
    · cases hs

theorem oinv_init (g : Graph) : OInv g init := by
  constructor
  · intro y v f h; simp [init] at h
  · intro pre e post h; simp [init] at h

/-- in every run of the model the selected handler is submitted after `finally` has been accepted -/
theorem run_traceOrd (hw : WF g) (sched : List Label) : TraceOrd g (run g sched).tr := by
  have : ∀ s, LTS.Reachable (sys g) s → OInv g s := by
    intro s hr
    induction hr with
    | init => exact oinv_init g
    | step i hprev hstep ih => exact oinv_step hw (inv_reachable hw hprev) ih i hstep
  exact (this _ (LTS.run_reachable (sys g) sched)).ord

end Goat.Pipeline
