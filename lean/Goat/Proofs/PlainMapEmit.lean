/-
Helper lemmas for C20, part 6: the emitter.  `emitTree` is `emitLoop` producing concrete syntax instead
of bytes; it is well formed, renders to what `emitLoop` writes and denotes exactly the entries of the
keys it consumed — whatever the order of the keys.  `read_emit` puts the reader on top.
-/
import Goat.Proofs.PlainMapEsc
import Goat.Proofs.PlainMapRead
import Goat.Proofs.PlainMapTree

namespace Goat.PlainMap

/-- the value the emitter writes for a key (`plainmap[fullkey]`) -/
def valOf (m : Flat Bytes) (k : Bytes) : Bytes := (m.get k).getD []

def emitTree (m : Flat Bytes) : Nat → Bytes → List Bytes → List Bytes × CObj
  | 0, _, ks => (ks, .nil)
  | _ + 1, _, [] => ([], .nil)
  | fuel + 1, pre, k :: ks =>
    match stripPrefix pre k with
    | none => (k :: ks, .nil)
    | some diff =>
      match cutDot diff with
      | some (seg, _) =>
        let r1 := emitTree m fuel (pre ++ seg ++ [dot]) (k :: ks)
        let r2 := emitTree m fuel pre r1.1
        (r2.1, .sub [] (escItems 0 true seg) [] [] [] r1.2 [] r2.2)
      | none =>
        let r2 := emitTree m fuel pre ks
        (r2.1, .leaf [] (escItems 0 true diff) [] [] (.str (escItems 0 true (valOf m k))) [] r2.2)

theorem sepIf_renderMs (o : CObj) : sepIf o.renderMs = o.sep := by
  cases o with
  | nil => rfl
  | leaf w0 key w1 w2 v w3 rest =>
    have : (CObj.leaf w0 key w1 w2 v w3 rest).renderMs ≠ [] := by
      simp [CObj.renderMs]
    simp [sepIf, this, CObj.sep]
  | sub w0 key w1 w2 wo child w3 rest =>
    have : (CObj.sub w0 key w1 w2 wo child w3 rest).renderMs ≠ [] := by
      simp [CObj.renderMs]
    simp [sepIf, this, CObj.sep]

theorem emitLoop_eq (m : Flat Bytes) (fuel : Nat) : ∀ (pre : Bytes) (ks : List Bytes),
    emitLoop m fuel pre ks = ((emitTree m fuel pre ks).1, (emitTree m fuel pre ks).2.renderMs) := by
  induction fuel with
  | zero => intro pre ks; rfl
  | succ fuel ih =>
    intro pre ks
    cases ks with
    | nil => rfl
    | cons k ks =>
      rw [emitLoop, emitTree]
      cases stripPrefix pre k with
      | none => rfl
      | some diff =>
        simp only
        cases cutDot diff with
        | none =>
          simp only [ih, CObj.renderMs, fmtString_eq, sepIf_renderMs, CLeaf.render, valOf]
          simp
        | some sm =>
          obtain ⟨seg, more⟩ := sm
          simp only [ih, CObj.renderMs, fmtString_eq, sepIf_renderMs]
          simp

/-! ### prefixes and dots -/

theorem stripPrefix_some {pre k diff : Bytes} (h : stripPrefix pre k = some diff) : k = pre ++ diff := by
  induction pre generalizing k with
  | nil => simp [stripPrefix] at h; simp [h]
  | cons a pre ih =>
    cases k with
    | nil => simp [stripPrefix] at h
    | cons b k =>
      rw [stripPrefix] at h
      split at h
      · next hab => subst hab; rw [ih h]; rfl
      · cases h

theorem stripPrefix_append (pre x : Bytes) : stripPrefix pre (pre ++ x) = some x := by
  induction pre with
  | nil => simp [stripPrefix]
  | cons a pre ih => rw [List.cons_append, stripPrefix, if_pos rfl, ih]

theorem cutDot_some {d seg more : Bytes} (h : cutDot d = some (seg, more)) : d = seg ++ dot :: more := by
  induction d generalizing seg with
  | nil => simp [cutDot] at h
  | cons c d ih =>
    rw [cutDot] at h
    split at h
    · next hc => simp at h; obtain ⟨rfl, rfl⟩ := h; simp [hc]
    · cases hd : cutDot d with
      | none => simp [hd] at h
      | some sm =>
        obtain ⟨s', m'⟩ := sm
        simp [hd] at h
        obtain ⟨rfl, rfl⟩ := h
        rw [ih hd]; rfl

def sumLen (ks : List Bytes) : Nat := (ks.map fun k => k.length + 1).sum

theorem sumLen_cons (k : Bytes) (ks : List Bytes) : sumLen (k :: ks) = k.length + 1 + sumLen ks := by
  simp [sumLen]

theorem sumLen_append (a b : List Bytes) : sumLen (a ++ b) = sumLen a + sumLen b := by
  simp [sumLen]

/-- recursion depth `emitTree` needs -/
def bound (pre : Bytes) : List Bytes → Nat
  | [] => 0
  | k :: ks =>
    match stripPrefix pre k with
    | none => 0
    | some diff => diff.length + 1 + sumLen ks

theorem bound_le (pre : Bytes) (ks : List Bytes) : bound pre ks ≤ sumLen ks := by
  cases ks with
  | nil => simp [bound]
  | cons k ks =>
    rw [bound, sumLen_cons]
    cases h : stripPrefix pre k with
    | none => simp
    | some diff =>
      have := stripPrefix_some h
      simp only
      have : k.length = pre.length + diff.length := by rw [this]; simp
      omega

/-! ### what the emitted tree denotes -/

theorem wsOK_nil : WsOK [] := by intro b hb; cases hb

/-- the entries the emitter writes for a list of keys -/
def entriesOf (m : Flat Bytes) (ks : List Bytes) : Flat Bytes := ks.map fun k => (k, valOf m k)

theorem emitTree_spec (m : Flat Bytes) (fuel : Nat) : ∀ (pre : Bytes) (ks : List Bytes), bound pre ks ≤ fuel →
    (pre = [] ∨ ∃ p, pre = p ++ [dot]) →
    (∀ k ∈ ks, ValidUTF8 k ∧ ValidUTF8 (valOf m k)) →
    ∃ taken, ks = taken ++ (emitTree m fuel pre ks).1 ∧
      (emitTree m fuel pre ks).2.WF ∧
      (emitTree m fuel pre ks).2.leaves pre = entriesOf m taken ∧
      (∀ k ks', ks = k :: ks' → stripPrefix pre k ≠ none → taken ≠ []) ∧
      (pre = [] → (∀ k ∈ taken, k.head? ≠ some dot) → ¬ (emitTree m fuel pre ks).2.emptyTopKey) ∧
      ((emitTree m fuel pre ks).1 = [] ∨ ∃ k r, (emitTree m fuel pre ks).1 = k :: r ∧ stripPrefix pre k = none) := by
  induction fuel with
  | zero =>
    intro pre ks hb _ _
    refine ⟨[], rfl, trivial, rfl, ?_, fun _ _ h => h, ?_⟩
    · intro k ks' e hs
      subst e
      rw [bound] at hb
      cases h : stripPrefix pre k with
      | none => exact absurd h hs
      | some d => rw [h] at hb; simp at hb
    · cases ks with
      | nil => exact Or.inl rfl
      | cons k ks' =>
        right
        refine ⟨k, ks', rfl, ?_⟩
        rw [bound] at hb
        cases h : stripPrefix pre k with
        | none => rfl
        | some d => rw [h] at hb; simp at hb
  | succ fuel ih =>
    intro pre ks hb hpre hval
    cases ks with
    | nil =>
      refine ⟨[], ?_, ?_, ?_, ?_, ?_, ?_⟩
      · rfl
      · exact trivial
      · rfl
      · intro k ks' e; cases e
      · intro _ _ h; exact h
      · exact Or.inl rfl
    | cons k ks' =>
      rw [emitTree]
      cases hs : stripPrefix pre k with
      | none =>
        exact ⟨[], rfl, trivial, rfl, by intro k2 ks2 e h; injection e with e1 _; subst e1; exact absurd hs h,
          fun _ _ h => h, Or.inr ⟨k, ks', rfl, hs⟩⟩
      | some diff =>
        have hk := stripPrefix_some hs
        rw [bound, hs] at hb
        simp only at hb
        obtain ⟨hvk, hvv⟩ := hval k List.mem_cons_self
        have hvdiff : ValidUTF8 diff := by
          rcases hpre with rfl | ⟨p, rfl⟩
          · have : k = diff := by simpa using hk
            exact this ▸ hvk
          · have : k = p ++ dot :: diff := by rw [hk]; simp
            exact (valid_split_dot hvk p diff this).2
        simp only
        cases hc : cutDot diff with
        | none =>
          simp only
          have hb2 : bound pre ks' ≤ fuel := by have := bound_le pre ks'; omega
          obtain ⟨taken2, e2, w2, l2, _, d2, t2⟩ := ih pre ks' hb2 hpre
            (fun x hx => hval x (List.mem_cons_of_mem _ hx))
          obtain ⟨wk, vk⟩ := esc_valid hvdiff
          obtain ⟨wv, vv⟩ := esc_valid hvv
          refine ⟨k :: taken2, by rw [List.cons_append, ← e2], ?_, ?_, by intros; simp, ?_, t2⟩
          · show WsOK [] ∧ WsOK [] ∧ WsOK [] ∧ WsOK [] ∧ _ ∧ _ ∧ _
            exact ⟨wsOK_nil, wsOK_nil, wsOK_nil, wsOK_nil, wk, wv, w2⟩
          · simp only [CObj.leaves, vk, vv, l2, entriesOf, List.map_cons, ← hk]
          · intro hp hd
            simp only [CObj.emptyTopKey]
            exact d2 hp (fun x hx => hd x (List.mem_cons_of_mem _ hx))
        | some sm =>
          obtain ⟨seg, more⟩ := sm
          simp only
          have hdiff := cutDot_some hc
          obtain ⟨hvseg, _⟩ := valid_split_dot hvdiff seg more hdiff
          have hk' : k = (pre ++ seg ++ [dot]) ++ more := by rw [hk, hdiff]; simp
          have hs' : stripPrefix (pre ++ seg ++ [dot]) k = some more := by rw [hk']; exact stripPrefix_append _ _
          have hlen : diff.length = seg.length + 1 + more.length := by rw [hdiff]; simp; omega
          have hb1 : bound (pre ++ seg ++ [dot]) (k :: ks') ≤ fuel := by
            rw [bound, hs']; simp only; omega
          obtain ⟨taken1, e1, w1, l1, n1, _, _⟩ := ih (pre ++ seg ++ [dot]) (k :: ks') hb1 (Or.inr ⟨pre ++ seg, rfl⟩) hval
          have hne1 : taken1 ≠ [] := n1 k ks' rfl (by rw [hs']; simp)
          obtain ⟨t0, taken1', rfl⟩ : ∃ a b, taken1 = a :: b := by
            cases taken1 with
            | nil => exact absurd rfl hne1
            | cons a b => exact ⟨a, b, rfl⟩
          rw [List.cons_append] at e1
          injection e1 with e1a e1b
          subst e1a
          have hsum : sumLen (emitTree m fuel (pre ++ seg ++ [dot]) (k :: ks')).1 ≤ sumLen ks' := by
            have := congrArg sumLen e1b
            rw [sumLen_append] at this; omega
          have hb2 : bound pre (emitTree m fuel (pre ++ seg ++ [dot]) (k :: ks')).1 ≤ fuel := by
            have := bound_le pre (emitTree m fuel (pre ++ seg ++ [dot]) (k :: ks')).1; omega
          obtain ⟨taken2, e2, w2, l2, _, d2, t2⟩ := ih pre (emitTree m fuel (pre ++ seg ++ [dot]) (k :: ks')).1 hb2 hpre
            (fun x hx => hval x (List.mem_cons_of_mem _ (by rw [e1b]; exact List.mem_append_right _ hx)))
          obtain ⟨wk, vk⟩ := esc_valid hvseg
          refine ⟨(k :: taken1') ++ taken2, ?_, ?_, ?_, by intros; simp, ?_, t2⟩
          · rw [List.append_assoc, ← e2, List.cons_append, ← e1b]
          · show WsOK [] ∧ WsOK [] ∧ WsOK [] ∧ WsOK [] ∧ WsOK [] ∧ _ ∧ _ ∧ _
            exact ⟨wsOK_nil, wsOK_nil, wsOK_nil, wsOK_nil, wsOK_nil, wk, w1, w2⟩
          · simp only [CObj.leaves, vk, l1, l2, entriesOf, List.map_append]
          · intro hp hd
            subst hp
            simp only [CObj.emptyTopKey, vk, not_or]
            refine ⟨?_, d2 rfl (fun x hx => hd x (List.mem_append_right _ hx))⟩
            intro hseg
            have : k.head? = some dot := by rw [hk, hdiff, hseg]; rfl
            exact hd k (List.mem_append_left _ List.mem_cons_self) this

/-! ### reader after emitter -/

theorem sumLen_eq (ks : List Bytes) : emitFuel ks = sumLen ks + 1 := rfl

/-- the reader applied to the emitted document returns the entries of the sorted keys -/
theorem read_emit (fixed : Bool) (m : Flat Bytes)
    (hval : ∀ k ∈ m.keys, ValidUTF8 k ∧ ValidUTF8 (valOf m k))
    (hdot : fixed = false → ∀ k ∈ m.keys, k.head? ≠ some dot) :
    readWith fixed (emit m) = some (entriesOf m (sortKeys m.keys)) := by
  have hperm : (sortKeys m.keys).Perm m.keys := List.mergeSort_perm _ _
  have hval' : ∀ k ∈ sortKeys m.keys, ValidUTF8 k ∧ ValidUTF8 (valOf m k) := fun k hk => hval k (hperm.mem_iff.mp hk)
  obtain ⟨taken, e, w, l, _, d, t⟩ := emitTree_spec m (emitFuel (sortKeys m.keys)) [] (sortKeys m.keys)
    (by have := bound_le [] (sortKeys m.keys); rw [sumLen_eq]; omega) (Or.inl rfl) hval'
  have hrest : (emitTree m (emitFuel (sortKeys m.keys)) [] (sortKeys m.keys)).1 = [] := by
    rcases t with t | ⟨k, r, _, hk⟩
    · exact t
    · simp [stripPrefix] at hk
  rw [hrest, List.append_nil] at e
  rw [← e] at l d
  have hemit : emit m = lbrace :: ([] ++ ((emitTree m (emitFuel (sortKeys m.keys)) [] (sortKeys m.keys)).2.renderMs ++ rbrace :: [])) := by
    simp only [emit, emitLoop_eq, List.nil_append, List.cons_append]
  rw [readWith, hemit, skipWs_cons (by decide)]
  simp only [if_true]
  rw [members_render _ fixed _ true [] [] [] [] w
    (by unfold KeyRel; cases fixed <;> simp)
    (fun hf _ => d rfl (fun k hk => hdot hf k (hperm.mem_iff.mp hk)))
    (by simp [List.length_append]; omega)
    wsOK_nil]
  rw [l]

theorem entriesOf_equiv (m : Flat Bytes) (hn : m.keys.Nodup) {ks : List Bytes} (hperm : ks.Perm m.keys) :
    (entriesOf m ks).Equiv m := by
  have hkeys : (entriesOf m ks).keys = ks := by
    simp [entriesOf, Flat.keys, List.map_map, Function.comp_def]
  intro k
  cases hg : m.get k with
  | none =>
    apply Flat.get_none_of_not_mem
    rw [hkeys]
    intro hk
    obtain ⟨e, he, hfe⟩ := List.mem_map.mp (hperm.mem_iff.mp hk)
    obtain ⟨k', v⟩ := e
    simp only at hfe; subst hfe
    obtain ⟨v', hv'⟩ := Flat.get_isSome_of_mem he
    rw [hg] at hv'; cases hv'
  | some v =>
    have hk : k ∈ ks := hperm.mem_iff.mpr (List.mem_map.mpr ⟨(k, v), Flat.mem_of_get hg, rfl⟩)
    apply Flat.get_of_mem_nodup (by rw [hkeys]; exact hperm.nodup_iff.mpr hn)
    have : (k, v) = (k, valOf m k) := by simp [valOf, hg]
    rw [this]
    exact List.mem_map.mpr ⟨k, hk, rfl⟩

end Goat.PlainMap
