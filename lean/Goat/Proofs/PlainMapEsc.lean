/-
Helper lemmas for C20, part 5: the string encoder.  `escItems` is `escLoop` producing string elements
instead of bytes; on well-formed UTF-8 every element is well formed and the elements denote the input.
Also: well-formed UTF-8 stays well formed when cut at a dot.
-/
import Goat.Proofs.PlainMapJson

namespace Goat.PlainMap

def escItemAscii (b : Byte) : SItem :=
  if b = dq ∨ b = bsl then .esc b
  else if b = 8 then .esc 98
  else if b = 12 then .esc 102
  else if b = 10 then .esc 110
  else if b = 13 then .esc 114
  else if b = 9 then .esc 116
  else if b < 32 ∨ b = 60 ∨ b = 62 ∨ b = 38 then .uni 48 48 (hexDigit (b.toNat / 16)) (hexDigit (b.toNat % 16))
  else .raw b

def escItems : Nat → Bool → Bytes → List SItem
  | _, _, [] => []
  | n + 1, cp, b :: rest => (if cp then [.raw b] else []) ++ escItems n cp rest
  | 0, _, b :: rest =>
    if b < 0x80 then escItemAscii b :: escItems 0 true rest
    else match runeLen (b :: rest) with
      | 0 => .uni 102 102 102 100 :: escItems 0 true rest
      | n + 1 =>
        if b = 0xE2 ∧ rest.take 2 = [0x80, 0xA8] then .uni 50 48 50 56 :: escItems n false rest
        else if b = 0xE2 ∧ rest.take 2 = [0x80, 0xA9] then .uni 50 48 50 57 :: escItems n false rest
        else .raw b :: escItems n true rest

theorem escItemAscii_render (b : Byte) : (escItemAscii b).render = escAscii b := by
  unfold escItemAscii escAscii
  repeat' split
  all_goals rfl

theorem escItems_render (s : Bytes) : ∀ (n : Nat) (cp : Bool), renderItems (escItems n cp s) = escLoop n cp s := by
  induction s with
  | nil => intro n cp; cases n <;> rfl
  | cons b rest ih =>
    intro n cp
    cases n with
    | succ n =>
      rw [escItems, escLoop]
      cases cp <;> simp [renderItems, ← ih n, SItem.render]
    | zero =>
      rw [escItems, escLoop]
      split
      · rw [renderItems_cons, escItemAscii_render, ih]
      · cases h : runeLen (b :: rest) with
        | zero => simp only [renderItems_cons, ih]; rfl
        | succ m =>
          simp only
          split
          · rw [renderItems_cons, ih]; rfl
          · split
            · rw [renderItems_cons, ih]; rfl
            · rw [renderItems_cons, ih]; rfl

theorem fmtString_eq (s : Bytes) : fmtString s = dq :: renderItems (escItems 0 true s) ++ [dq] := by
  rw [fmtString, escItems_render]

theorem escItems_zero_cp (cp : Bool) (s : Bytes) : escItems 0 cp s = escItems 0 true s := by
  cases s <;> rfl

/-! ### single bytes -/

theorem h2I_hexDigit (n : Nat) (h : n < 16) : h2I (hexDigit n) = some n := by
  have : ∀ n : Fin 16, h2I (hexDigit n.val) = some n.val := by decide
  exact this ⟨n, h⟩

theorem ofNat_toNat (b : Byte) : UInt8.ofNat b.toNat = b := by
  apply UInt8.toNat_inj.mp
  simp

theorem escItemAscii_ok (b : Byte) (hb : b < 0x80) : (escItemAscii b).WF ∧ (escItemAscii b).val = [b] := by
  unfold escItemAscii
  split
  · next h => rcases h with h | h <;> subst h <;> exact ⟨by show (simpleEsc _).isSome = true; decide, by decide⟩
  split
  · next h => subst h; exact ⟨by show (simpleEsc _).isSome = true; decide, by decide⟩
  split
  · next h => subst h; exact ⟨by show (simpleEsc _).isSome = true; decide, by decide⟩
  split
  · next h => subst h; exact ⟨by show (simpleEsc _).isSome = true; decide, by decide⟩
  split
  · next h => subst h; exact ⟨by show (simpleEsc _).isSome = true; decide, by decide⟩
  split
  · next h => subst h; exact ⟨by show (simpleEsc _).isSome = true; decide, by decide⟩
  split
  · have hlt : b.toNat < 128 := by u8
    have h1 := h2I_hexDigit (b.toNat / 16) (by omega)
    have h2 := h2I_hexDigit (b.toNat % 16) (by omega)
    have h0 : h2I 48 = some 0 := by decide
    have hx : hex4 48 48 (hexDigit (b.toNat / 16)) (hexDigit (b.toNat % 16)) = some b.toNat := by
      simp only [hex4, h0, h1, h2]; congr 1; omega
    refine ⟨⟨b.toNat, hx, by simp [isSurrogate]; omega⟩, ?_⟩
    simp only [SItem.val, hx, encodeRune]
    rw [if_pos (by omega), ofNat_toNat]
  · next h1 _ _ _ _ _ _ =>
    simp only [not_or] at h1
    exact ⟨h1, rfl⟩

/-! ### multi-byte sequences -/

theorem raw_ok {b : Byte} (h : 0x80 ≤ b) : (SItem.raw b).WF := by
  constructor <;> u8

theorem escItems_two {b0 b1 : Byte} (r : Bytes) (cp : Bool) (h0 : 0xC2 ≤ b0) (h0' : b0 ≤ 0xDF) (h1 : Cont b1) :
    escItems 0 cp (b0 :: b1 :: r) = .raw b0 :: .raw b1 :: escItems 0 true r := by
  have hf : firstInfo b0 = some (2, 0x80, 0xBF) := by
    have : inRange 0xC2 0xDF b0 = true := by u8
    simp [firstInfo, this]
  have hr : inRange 0x80 0xBF b1 = true := by u8
  have hl : runeLen (b0 :: b1 :: r) = 2 := by simp [runeLen, hf, hr]
  have n1 : ¬ b0 < 0x80 := by u8
  have n2 : ¬ b0 = 0xE2 := by u8
  rw [escItems, if_neg n1, hl]
  simp only [n2, false_and, if_false]
  rw [escItems]
  simp

theorem escItems_three {b0 b1 b2 lo hi : Byte} (r : Bytes) (cp : Bool) (h0 : 0x80 ≤ b0)
    (hf : firstInfo b0 = some (3, lo, hi)) (h1 : inRange lo hi b1 = true) (h2 : Cont b2) :
    escItems 0 cp (b0 :: b1 :: b2 :: r) =
      if b0 = 0xE2 ∧ b1 = 0x80 ∧ b2 = 0xA8 then .uni 50 48 50 56 :: escItems 0 true r
      else if b0 = 0xE2 ∧ b1 = 0x80 ∧ b2 = 0xA9 then .uni 50 48 50 57 :: escItems 0 true r
      else .raw b0 :: .raw b1 :: .raw b2 :: escItems 0 true r := by
  have hr : inRange 0x80 0xBF b2 = true := by u8
  have hl : runeLen (b0 :: b1 :: b2 :: r) = 3 := by simp [runeLen, hf, h1, hr]
  have n1 : ¬ b0 < 0x80 := by u8
  rw [escItems, if_neg n1, hl]
  simp only [List.take, List.cons.injEq, and_true]
  split
  · rw [escItems, escItems]; simp [escItems_zero_cp]
  · split
    · rw [escItems, escItems]; simp [escItems_zero_cp]
    · rw [escItems, escItems]; simp

theorem escItems_four {b0 b1 b2 b3 lo hi : Byte} (r : Bytes) (cp : Bool) (h0 : 0xF0 ≤ b0)
    (hf : firstInfo b0 = some (4, lo, hi)) (h1 : inRange lo hi b1 = true) (h2 : Cont b2) (h3 : Cont b3) :
    escItems 0 cp (b0 :: b1 :: b2 :: b3 :: r) = .raw b0 :: .raw b1 :: .raw b2 :: .raw b3 :: escItems 0 true r := by
  have hr2 : inRange 0x80 0xBF b2 = true := by u8
  have hr3 : inRange 0x80 0xBF b3 = true := by u8
  have hl : runeLen (b0 :: b1 :: b2 :: b3 :: r) = 4 := by simp [runeLen, hf, h1, hr2, hr3]
  have n1 : ¬ b0 < 0x80 := by u8
  have n2 : ¬ b0 = 0xE2 := by u8
  rw [escItems, if_neg n1, hl]
  simp only [n2, false_and, if_false]
  rw [escItems, escItems, escItems]
  simp

/-- three well-formed bytes: every element is fine and they denote the bytes -/
theorem three_ok {b0 b1 b2 lo hi : Byte} (r : Bytes) (h0 : 0x80 ≤ b0) (hc1 : 0x80 ≤ b1)
    (hf : firstInfo b0 = some (3, lo, hi)) (h1 : inRange lo hi b1 = true) (h2 : Cont b2)
    (ih : (∀ i ∈ escItems 0 true r, i.WF) ∧ valItems (escItems 0 true r) = r) :
    (∀ i ∈ escItems 0 true (b0 :: b1 :: b2 :: r), i.WF) ∧ valItems (escItems 0 true (b0 :: b1 :: b2 :: r)) = b0 :: b1 :: b2 :: r := by
  rw [escItems_three r true h0 hf h1 h2]
  have hc2 : 0x80 ≤ b2 := h2.1
  split
  · next h =>
    obtain ⟨rfl, rfl, rfl⟩ := h
    refine ⟨?_, ?_⟩
    · intro i hi
      rcases List.mem_cons.mp hi with hi | hi
      · subst hi; exact ⟨0x2028, by decide, by decide⟩
      · exact ih.1 i hi
    · rw [valItems_cons, ih.2]
      have : (SItem.uni 50 48 50 56).val = [0xE2, 0x80, 0xA8] := by decide
      rw [this]; rfl
  · split
    · next h =>
      obtain ⟨rfl, rfl, rfl⟩ := h
      refine ⟨?_, ?_⟩
      · intro i hi
        rcases List.mem_cons.mp hi with hi | hi
        · subst hi; exact ⟨0x2029, by decide, by decide⟩
        · exact ih.1 i hi
      · rw [valItems_cons, ih.2]
        have : (SItem.uni 50 48 50 57).val = [0xE2, 0x80, 0xA9] := by decide
        rw [this]; rfl
    · refine ⟨?_, ?_⟩
      · intro i hi
        simp only [List.mem_cons] at hi
        rcases hi with hi | hi | hi | hi
        · subst hi; exact raw_ok h0
        · subst hi; exact raw_ok hc1
        · subst hi; exact raw_ok hc2
        · exact ih.1 i hi
      · simp only [valItems_cons, SItem.val, ih.2]; rfl

theorem four_ok {b0 b1 b2 b3 lo hi : Byte} (r : Bytes) (h0 : 0xF0 ≤ b0) (hc1 : 0x80 ≤ b1)
    (hf : firstInfo b0 = some (4, lo, hi)) (h1 : inRange lo hi b1 = true) (h2 : Cont b2) (h3 : Cont b3)
    (ih : (∀ i ∈ escItems 0 true r, i.WF) ∧ valItems (escItems 0 true r) = r) :
    (∀ i ∈ escItems 0 true (b0 :: b1 :: b2 :: b3 :: r), i.WF) ∧
      valItems (escItems 0 true (b0 :: b1 :: b2 :: b3 :: r)) = b0 :: b1 :: b2 :: b3 :: r := by
  rw [escItems_four r true h0 hf h1 h2 h3]
  have hb0 : 0x80 ≤ b0 := by u8
  refine ⟨?_, ?_⟩
  · intro i hi
    simp only [List.mem_cons] at hi
    rcases hi with hi | hi | hi | hi | hi
    · subst hi; exact raw_ok hb0
    · subst hi; exact raw_ok hc1
    · subst hi; exact raw_ok h2.1
    · subst hi; exact raw_ok h3.1
    · exact ih.1 i hi
  · simp only [valItems_cons, SItem.val, ih.2]; rfl

/-- on well-formed UTF-8 the encoder writes well-formed string elements that denote its input -/
theorem esc_valid {s : Bytes} (h : ValidUTF8 s) :
    (∀ i ∈ escItems 0 true s, i.WF) ∧ valItems (escItems 0 true s) = s := by
  induction h with
  | nil => exact ⟨by intro i hi; simp [escItems] at hi, rfl⟩
  | ascii b r hb _ ih =>
    rw [escItems, if_pos hb]
    obtain ⟨hw, hv⟩ := escItemAscii_ok b hb
    refine ⟨?_, ?_⟩
    · intro i hi
      rcases List.mem_cons.mp hi with hi | hi
      · subst hi; exact hw
      · exact ih.1 i hi
    · rw [valItems_cons, hv, ih.2]; rfl
  | two b0 b1 r h0 h0' h1 _ ih =>
    rw [escItems_two r true h0 h0' h1]
    refine ⟨?_, ?_⟩
    · intro i hi
      simp only [List.mem_cons] at hi
      rcases hi with hi | hi | hi
      · subst hi; exact raw_ok (by u8)
      · subst hi; exact raw_ok h1.1
      · exact ih.1 i hi
    · simp only [valItems_cons, SItem.val, ih.2]; rfl
  | threeE0 b1 b2 r h1 h1' h2 _ ih =>
    exact three_ok r (by decide) (by u8) (lo := 0xA0) (hi := 0xBF) (by decide) (by u8) h2 ih
  | three b0 b1 b2 r h0 h1 h2 _ ih =>
    have hf : firstInfo b0 = some (3, 0x80, 0xBF) := by
      rcases h0 with h0 | h0
      · have a1 : inRange 0xC2 0xDF b0 = false := by u8
        have a2 : ¬ b0 = 0xE0 := by u8
        have a3 : inRange 0xE1 0xEC b0 = true := by u8
        simp [firstInfo, a1, a2, a3]
      · have a1 : inRange 0xC2 0xDF b0 = false := by u8
        have a2 : ¬ b0 = 0xE0 := by u8
        have a3 : inRange 0xE1 0xEC b0 = false := by u8
        have a4 : ¬ b0 = 0xED := by u8
        have a5 : inRange 0xEE 0xEF b0 = true := by u8
        simp [firstInfo, a1, a2, a3, a4, a5]
    exact three_ok r (by rcases h0 with h0 | h0 <;> u8) h1.1 hf (by u8) h2 ih
  | threeED b1 b2 r h1 h1' h2 _ ih =>
    exact three_ok r (by decide) h1 (lo := 0x80) (hi := 0x9F) (by decide) (by u8) h2 ih
  | fourF0 b1 b2 b3 r h1 h1' h2 h3 _ ih =>
    exact four_ok r (by decide) (by u8) (lo := 0x90) (hi := 0xBF) (by decide) (by u8) h2 h3 ih
  | four b0 b1 b2 b3 r h0 h0' h1 h2 h3 _ ih =>
    have hf : firstInfo b0 = some (4, 0x80, 0xBF) := by
      have a1 : inRange 0xC2 0xDF b0 = false := by u8
      have a2 : ¬ b0 = 0xE0 := by u8
      have a3 : inRange 0xE1 0xEC b0 = false := by u8
      have a4 : ¬ b0 = 0xED := by u8
      have a5 : inRange 0xEE 0xEF b0 = false := by u8
      have a6 : ¬ b0 = 0xF0 := by u8
      have a7 : inRange 0xF1 0xF3 b0 = true := by u8
      simp [firstInfo, a1, a2, a3, a4, a5, a6, a7]
    exact four_ok r (by u8) h1.1 hf (by u8) h2 h3 ih
  | fourF4 b1 b2 b3 r h1 h1' h2 h3 _ ih =>
    exact four_ok r (by decide) h1 (lo := 0x80) (hi := 0x8F) (by decide) (by u8) h2 h3 ih

/-! ### cutting well-formed UTF-8 at a dot -/

theorem valid_split_dot {s : Bytes} (h : ValidUTF8 s) : ∀ (a b : Bytes), s = a ++ dot :: b → ValidUTF8 a ∧ ValidUTF8 b := by
  induction h with
  | nil => intro a b e; cases a <;> cases e
  | ascii c r hc hr ih =>
    intro a b e
    cases a with
    | nil => simp at e; exact ⟨.nil, e.2 ▸ hr⟩
    | cons x a =>
      simp at e
      obtain ⟨h1, h2⟩ := ih a b e.2
      exact ⟨e.1 ▸ .ascii c a hc h1, h2⟩
  | two b0 b1 r h0 h0' h1 hr ih =>
    intro a b e
    rcases a with _ | ⟨x, _ | ⟨y, a⟩⟩
    · simp at e; exfalso; obtain ⟨e1, _⟩ := e; subst e1; u8
    · simp at e; exfalso; obtain ⟨_, e2, _⟩ := e; subst e2; u8
    · simp at e
      obtain ⟨e1, e2, e3⟩ := e
      obtain ⟨g1, g2⟩ := ih a b e3
      exact ⟨e1 ▸ e2 ▸ .two b0 b1 a h0 h0' h1 g1, g2⟩
  | threeE0 b1 b2 r h1 h1' h2 hr ih =>
    intro a b e
    rcases a with _ | ⟨x, _ | ⟨y, _ | ⟨z, a⟩⟩⟩
    · simp at e; exfalso; exact absurd e.1 (by decide)
    · simp at e; exfalso; obtain ⟨_, e2, _⟩ := e; subst e2; u8
    · simp at e; exfalso; obtain ⟨_, _, e3, _⟩ := e; subst e3; u8
    · simp at e
      obtain ⟨e1, e2, e3, e4⟩ := e
      obtain ⟨g1, g2⟩ := ih a b e4
      exact ⟨e1 ▸ e2 ▸ e3 ▸ .threeE0 b1 b2 a h1 h1' h2 g1, g2⟩
  | three b0 b1 b2 r h0 h1 h2 hr ih =>
    intro a b e
    rcases a with _ | ⟨x, _ | ⟨y, _ | ⟨z, a⟩⟩⟩
    · simp at e; exfalso; obtain ⟨e1, _⟩ := e; subst e1; u8
    · simp at e; exfalso; obtain ⟨_, e2, _⟩ := e; subst e2; u8
    · simp at e; exfalso; obtain ⟨_, _, e3, _⟩ := e; subst e3; u8
    · simp at e
      obtain ⟨e1, e2, e3, e4⟩ := e
      obtain ⟨g1, g2⟩ := ih a b e4
      exact ⟨e1 ▸ e2 ▸ e3 ▸ .three b0 b1 b2 a h0 h1 h2 g1, g2⟩
  | threeED b1 b2 r h1 h1' h2 hr ih =>
    intro a b e
    rcases a with _ | ⟨x, _ | ⟨y, _ | ⟨z, a⟩⟩⟩
    · simp at e; exfalso; exact absurd e.1 (by decide)
    · simp at e; exfalso; obtain ⟨_, e2, _⟩ := e; subst e2; u8
    · simp at e; exfalso; obtain ⟨_, _, e3, _⟩ := e; subst e3; u8
    · simp at e
      obtain ⟨e1, e2, e3, e4⟩ := e
      obtain ⟨g1, g2⟩ := ih a b e4
      exact ⟨e1 ▸ e2 ▸ e3 ▸ .threeED b1 b2 a h1 h1' h2 g1, g2⟩
  | fourF0 b1 b2 b3 r h1 h1' h2 h3 hr ih =>
    intro a b e
    rcases a with _ | ⟨x, _ | ⟨y, _ | ⟨z, _ | ⟨w, a⟩⟩⟩⟩
    · simp at e; exfalso; exact absurd e.1 (by decide)
    · simp at e; exfalso; obtain ⟨_, e2, _⟩ := e; subst e2; u8
    · simp at e; exfalso; obtain ⟨_, _, e3, _⟩ := e; subst e3; u8
    · simp at e; exfalso; obtain ⟨_, _, _, e4, _⟩ := e; subst e4; u8
    · simp at e
      obtain ⟨e1, e2, e3, e4, e5⟩ := e
      obtain ⟨g1, g2⟩ := ih a b e5
      exact ⟨e1 ▸ e2 ▸ e3 ▸ e4 ▸ .fourF0 b1 b2 b3 a h1 h1' h2 h3 g1, g2⟩
  | four b0 b1 b2 b3 r h0 h0' h1 h2 h3 hr ih =>
    intro a b e
    rcases a with _ | ⟨x, _ | ⟨y, _ | ⟨z, _ | ⟨w, a⟩⟩⟩⟩
    · simp at e; exfalso; obtain ⟨e1, _⟩ := e; subst e1; u8
    · simp at e; exfalso; obtain ⟨_, e2, _⟩ := e; subst e2; u8
    · simp at e; exfalso; obtain ⟨_, _, e3, _⟩ := e; subst e3; u8
    · simp at e; exfalso; obtain ⟨_, _, _, e4, _⟩ := e; subst e4; u8
    · simp at e
      obtain ⟨e1, e2, e3, e4, e5⟩ := e
      obtain ⟨g1, g2⟩ := ih a b e5
      exact ⟨e1 ▸ e2 ▸ e3 ▸ e4 ▸ .four b0 b1 b2 b3 a h0 h0' h1 h2 h3 g1, g2⟩
  | fourF4 b1 b2 b3 r h1 h1' h2 h3 hr ih =>
    intro a b e
    rcases a with _ | ⟨x, _ | ⟨y, _ | ⟨z, _ | ⟨w, a⟩⟩⟩⟩
    · simp at e; exfalso; exact absurd e.1 (by decide)
    · simp at e; exfalso; obtain ⟨_, e2, _⟩ := e; subst e2; u8
    · simp at e; exfalso; obtain ⟨_, _, e3, _⟩ := e; subst e3; u8
    · simp at e; exfalso; obtain ⟨_, _, _, e4, _⟩ := e; subst e4; u8
    · simp at e
      obtain ⟨e1, e2, e3, e4, e5⟩ := e
      obtain ⟨g1, g2⟩ := ih a b e5
      exact ⟨e1 ▸ e2 ▸ e3 ▸ e4 ▸ .fourF4 b1 b2 b3 a h1 h1' h2 h3 g1, g2⟩

end Goat.PlainMap
