/-
Helper lemmas for C20, part 3: the reader on rendered documents.  String literals (`stringEnd`,
`unesc`), the block scanner on balanced text, `getValue` on every kind of value, and the main lemma
`members_render`: reading the rendering of a well-formed concrete syntax tree yields its leaves.
-/
import Goat.Proofs.PlainMapSpec

namespace Goat.PlainMap

/-- byte (in)equalities and range facts, via `toNat` and `omega` -/
macro "u8" : tactic => `(tactic|
  (simp only [UInt8.le_iff_toNat_le, UInt8.lt_iff_toNat_lt, ← UInt8.toNat_inj, inRange, Cont, Bool.and_eq_true,
     decide_eq_true_eq, Bool.not_eq_true, Bool.and_eq_false_iff, decide_eq_false_iff_not, ne_eq, dq, bsl, dot, colon, comma,
     lbrace, rbrace, lbrack, rbrack] at *
   <;> (try simp only [UInt8.toNat_ofNat, UInt8.reduceToNat, Nat.reducePow, Nat.reduceMod] at *) <;> omega))

/-! ### white space -/

theorem skipWs_append {w : Bytes} (hw : WsOK w) (r : Bytes) : skipWs (w ++ r) = skipWs r := by
  induction w with
  | nil => rfl
  | cons c w ih =>
    rw [List.cons_append, skipWs, if_pos (hw c List.mem_cons_self)]
    exact ih (fun b hb => hw b (List.mem_cons_of_mem _ hb))

theorem skipWs_cons {c : Byte} (hc : isWs c = false) (r : Bytes) : skipWs (c :: r) = c :: r := by
  rw [skipWs]; simp [hc]

theorem skipWs_ws_cons {w : Bytes} (hw : WsOK w) {c : Byte} (hc : isWs c = false) (r : Bytes) :
    skipWs (w ++ c :: r) = c :: r := by
  rw [skipWs_append hw, skipWs_cons hc]

/-! ### hex digits -/

theorem h2I_some_ne {a : Byte} {n : Nat} (h : h2I a = some n) : a ≠ dq ∧ a ≠ bsl := by
  constructor
  · intro e; subst e
    have : h2I dq = none := by decide
    rw [this] at h; cases h
  · intro e; subst e
    have : h2I bsl = none := by decide
    rw [this] at h; cases h

theorem hex4_some {a b c d : Byte} {n : Nat} (h : hex4 a b c d = some n) :
    (a ≠ dq ∧ a ≠ bsl) ∧ (b ≠ dq ∧ b ≠ bsl) ∧ (c ≠ dq ∧ c ≠ bsl) ∧ (d ≠ dq ∧ d ≠ bsl) := by
  unfold hex4 at h
  cases ha : h2I a <;> cases hb : h2I b <;> cases hc : h2I c <;> cases hd : h2I d <;> simp [ha, hb, hc, hd] at h
  exact ⟨h2I_some_ne ha, h2I_some_ne hb, h2I_some_ne hc, h2I_some_ne hd⟩

/-! ### string literals -/

theorem stringEnd_plain {b : Byte} (h1 : b ≠ dq) (h2 : b ≠ bsl) (r : Bytes) :
    stringEnd false (b :: r) = (stringEnd false r).map fun x => (b :: x.1, x.2) := by
  rw [stringEnd]
  simp only [h1, h2, false_and, if_false]
  cases stringEnd false r <;> rfl

theorem stringEnd_esc (c : Byte) (r : Bytes) :
    stringEnd false (bsl :: c :: r) = (stringEnd false r).map fun x => (bsl :: c :: x.1, x.2) := by
  rw [stringEnd]
  have : ¬ bsl = dq := by decide
  simp only [this, false_and, if_false, if_true, Bool.not_false]
  rw [stringEnd]
  simp only [Bool.true_eq_false, and_false, if_false]
  have : (if c = bsl then !true else false) = false := by split <;> rfl
  rw [this]
  cases stringEnd false r <;> rfl

theorem stringEnd_item (i : SItem) (hi : i.WF) (r : Bytes) :
    stringEnd false (i.render ++ r) = (stringEnd false r).map fun x => (i.render ++ x.1, x.2) := by
  cases i with
  | raw b => exact stringEnd_plain hi.1 hi.2 r
  | esc c => exact stringEnd_esc c r
  | uni a b c d =>
    obtain ⟨cp, hcp, _⟩ := hi
    obtain ⟨ha, hb, hc, hd⟩ := hex4_some hcp
    simp only [SItem.render, List.cons_append, List.nil_append]
    rw [stringEnd_esc, stringEnd_plain ha.1 ha.2, stringEnd_plain hb.1 hb.2, stringEnd_plain hc.1 hc.2,
      stringEnd_plain hd.1 hd.2]
    cases stringEnd false r <;> rfl
  | pair a b c d e f g h =>
    obtain ⟨hi', lo, h1, h2, _⟩ := hi
    obtain ⟨ha, hb, hc, hd⟩ := hex4_some h1
    obtain ⟨he, hf, hg, hh⟩ := hex4_some h2
    simp only [SItem.render, List.cons_append, List.nil_append]
    rw [stringEnd_esc, stringEnd_plain ha.1 ha.2, stringEnd_plain hb.1 hb.2, stringEnd_plain hc.1 hc.2,
      stringEnd_plain hd.1 hd.2, stringEnd_esc, stringEnd_plain he.1 he.2, stringEnd_plain hf.1 hf.2,
      stringEnd_plain hg.1 hg.2, stringEnd_plain hh.1 hh.2]
    cases stringEnd false r <;> rfl

theorem renderItems_cons (i : SItem) (l : List SItem) : renderItems (i :: l) = i.render ++ renderItems l := by
  simp [renderItems]

theorem valItems_cons (i : SItem) (l : List SItem) : valItems (i :: l) = i.val ++ valItems l := by
  simp [valItems]

/-- the closing quote of a rendered string is found where it was written -/
theorem stringEnd_render (items : List SItem) (hw : ∀ i ∈ items, i.WF) (r : Bytes) :
    stringEnd false (renderItems items ++ dq :: r) = some (renderItems items, r) := by
  induction items with
  | nil => simp [renderItems, stringEnd]
  | cons i items ih =>
    rw [renderItems_cons, List.append_assoc, stringEnd_item i (hw i List.mem_cons_self),
      ih (fun j hj => hw j (List.mem_cons_of_mem _ hj))]
    rfl

theorem unesc_plain {b : Byte} (h : b ≠ bsl) (r : Bytes) : unesc (b :: r) = (unesc r).map (b :: ·) := by
  rw [unesc.eq_def]; simp [h]

theorem unesc_item (i : SItem) (hi : i.WF) (r : Bytes) :
    unesc (i.render ++ r) = (unesc r).map (i.val ++ ·) := by
  cases i with
  | raw b => exact unesc_plain hi.2 r
  | esc c =>
    simp only [SItem.WF] at hi
    cases hs : simpleEsc c with
    | none => rw [hs] at hi; cases hi
    | some x =>
      simp only [SItem.render, SItem.val, hs, List.cons_append, List.nil_append]
      rw [unesc.eq_def]
      simp [hs]
  | uni a b c d =>
    obtain ⟨cp, hcp, hsur⟩ := hi
    simp only [SItem.render, SItem.val, hcp, List.cons_append, List.nil_append]
    rw [unesc.eq_def]
    have : simpleEsc 117 = none := by decide
    simp [this, hcp, hsur]
  | pair a b c d e f g h =>
    obtain ⟨hi', lo, h1, h2, hr1, hr2, hr3, hr4⟩ := hi
    simp only [SItem.render, SItem.val, h1, h2, List.cons_append, List.nil_append]
    rw [unesc.eq_def]
    have : simpleEsc 117 = none := by decide
    have hs : isSurrogate hi' = true := by simp [isSurrogate]; omega
    have hlo : ¬ lo < 0xDC00 := by omega
    simp [this, h1, h2, hs, hlo]

/-- a rendered string decodes to the value of its elements -/
theorem unesc_render (items : List SItem) (hw : ∀ i ∈ items, i.WF) : unesc (renderItems items) = some (valItems items) := by
  induction items with
  | nil => simp [renderItems, valItems]; rw [unesc.eq_def]
  | cons i items ih =>
    rw [renderItems_cons, unesc_item i (hw i List.mem_cons_self), ih (fun j hj => hw j (List.mem_cons_of_mem _ hj)),
      valItems_cons]
    rfl

/-! ### the block scanner -/

theorem blockEnd_str_plain (o c : Byte) (lvl : Nat) {b : Byte} (h1 : b ≠ dq) (h2 : b ≠ bsl) (r : Bytes) :
    blockEnd o c lvl (.str false) (b :: r) = (blockEnd o c lvl (.str false) r).map fun x => (b :: x.1, x.2) := by
  rw [blockEnd]; simp [h1, h2]

theorem blockEnd_str_esc (o c : Byte) (lvl : Nat) (e : Byte) (r : Bytes) :
    blockEnd o c lvl (.str false) (bsl :: e :: r) =
      (blockEnd o c lvl (.str false) r).map fun x => (bsl :: e :: x.1, x.2) := by
  rw [blockEnd]
  have : ¬ bsl = dq := by decide
  simp only [this, false_and, if_false, if_true, Bool.not_false]
  rw [blockEnd]
  simp only [Bool.true_eq_false, and_false, if_false]
  have : (if e = bsl then !true else false) = false := by split <;> rfl
  rw [this, Option.map_map]
  rfl

theorem blockEnd_str_close (o c : Byte) (lvl : Nat) (r : Bytes) :
    blockEnd o c lvl (.str false) (dq :: r) = (blockEnd o c lvl .out r).map fun x => (dq :: x.1, x.2) := by
  rw [blockEnd]; simp

theorem blockEnd_strBody {s : Bytes} (hs : StrBody s) (o c : Byte) (lvl : Nat) (tail : Bytes) :
    blockEnd o c lvl (.str false) (s ++ dq :: tail) =
      (blockEnd o c lvl .out tail).map fun x => (s ++ dq :: x.1, x.2) := by
  induction hs with
  | nil => exact blockEnd_str_close o c lvl tail
  | chr b r h1 h2 _ ih =>
    rw [List.cons_append, blockEnd_str_plain o c lvl h1 h2, ih, Option.map_map]; rfl
  | esc e r _ ih =>
    rw [List.cons_append, List.cons_append, blockEnd_str_esc, ih, Option.map_map]; rfl

/-- the two bracket kinds the reader scans for -/
def IsPair (o c : Byte) : Prop := (o = lbrace ∧ c = rbrace) ∨ (o = lbrack ∧ c = rbrack)

theorem blockEnd_out_plain {o c : Byte} (lvl : Nat) {b : Byte} (h1 : b ≠ dq) (h2 : b ≠ o) (h3 : b ≠ c) (r : Bytes) :
    blockEnd o c lvl .out (b :: r) = (blockEnd o c lvl .out r).map fun x => (b :: x.1, x.2) := by
  rw [blockEnd]; simp [h1, h2, h3]

/-- balanced text is skipped without changing the nesting level -/
theorem blockEnd_bal {a : Bytes} (ha : Bal a) {o c : Byte} (hp : IsPair o c) : ∀ (lvl : Nat) (tail : Bytes), 1 ≤ lvl →
    blockEnd o c lvl .out (a ++ tail) = (blockEnd o c lvl .out tail).map fun x => (a ++ x.1, x.2) := by
  induction ha with
  | nil => intro lvl tail _; simp
  | chr b r h1 h2 h3 h4 h5 _ ih =>
    intro lvl tail hl
    have hbo : b ≠ o := by rcases hp with ⟨rfl, _⟩ | ⟨rfl, _⟩ <;> assumption
    have hbc : b ≠ c := by rcases hp with ⟨_, rfl⟩ | ⟨_, rfl⟩ <;> assumption
    rw [List.cons_append, blockEnd_out_plain lvl h1 hbo hbc, ih lvl tail hl, Option.map_map]; rfl
  | str s r hs _ ih =>
    intro lvl tail hl
    have : (dq :: s ++ dq :: r) ++ tail = dq :: (s ++ dq :: (r ++ tail)) := by simp
    rw [this, blockEnd]
    simp only [if_true]
    rw [blockEnd_strBody hs, ih lvl tail hl, Option.map_map, Option.map_map]
    congr 1; funext x; simp
  | brace a r _ _ iha ihr =>
    intro lvl tail hl
    have e : (lbrace :: a ++ rbrace :: r) ++ tail = lbrace :: (a ++ (rbrace :: (r ++ tail))) := by simp
    rw [e]
    rcases hp with ⟨rfl, rfl⟩ | ⟨rfl, rfl⟩
    · -- scanning for braces: one level deeper and back
      rw [blockEnd]
      have h1 : ¬ lbrace = dq := by decide
      simp only [h1, if_false, if_true]
      rw [iha (lvl + 1) _ (by omega), blockEnd]
      have h2 : ¬ rbrace = dq := by decide
      have h3 : ¬ rbrace = lbrace := by decide
      have h4 : ¬ lvl + 1 ≤ 1 := by omega
      simp only [h2, h3, h4, if_false, if_true, Nat.add_sub_cancel]
      rw [ihr lvl tail hl, Option.map_map, Option.map_map, Option.map_map]
      congr 1; funext x; simp
    · -- scanning for brackets: braces are ordinary bytes
      rw [blockEnd_out_plain lvl (by decide) (by decide) (by decide), iha lvl _ hl,
        blockEnd_out_plain lvl (by decide) (by decide) (by decide), ihr lvl tail hl, Option.map_map, Option.map_map,
        Option.map_map]
      congr 1; funext x; simp
  | brack a r _ _ iha ihr =>
    intro lvl tail hl
    have e : (lbrack :: a ++ rbrack :: r) ++ tail = lbrack :: (a ++ (rbrack :: (r ++ tail))) := by simp
    rw [e]
    rcases hp with ⟨rfl, rfl⟩ | ⟨rfl, rfl⟩
    · rw [blockEnd_out_plain lvl (by decide) (by decide) (by decide), iha lvl _ hl,
        blockEnd_out_plain lvl (by decide) (by decide) (by decide), ihr lvl tail hl, Option.map_map, Option.map_map,
        Option.map_map]
      congr 1; funext x; simp
    · rw [blockEnd]
      have h1 : ¬ lbrack = dq := by decide
      simp only [h1, if_false, if_true]
      rw [iha (lvl + 1) _ (by omega), blockEnd]
      have h2 : ¬ rbrack = dq := by decide
      have h3 : ¬ rbrack = lbrack := by decide
      have h4 : ¬ lvl + 1 ≤ 1 := by omega
      simp only [h2, h3, h4, if_false, if_true, Nat.add_sub_cancel]
      rw [ihr lvl tail hl, Option.map_map, Option.map_map, Option.map_map]
      congr 1; funext x; simp

/-- a block `o … c` with balanced content is found whole -/
theorem blockEnd_block {a : Bytes} (ha : Bal a) {o c : Byte} (hp : IsPair o c) (tail : Bytes) :
    blockEnd o c 0 .out (o :: a ++ c :: tail) = some (o :: a ++ [c], tail) := by
  have hod : o ≠ dq := by rcases hp with ⟨rfl, _⟩ | ⟨rfl, _⟩ <;> decide
  have hcd : c ≠ dq := by rcases hp with ⟨_, rfl⟩ | ⟨_, rfl⟩ <;> decide
  have hco : c ≠ o := by rcases hp with ⟨rfl, rfl⟩ | ⟨rfl, rfl⟩ <;> decide
  rw [List.cons_append, blockEnd]
  simp only [hod, if_false, if_true]
  rw [blockEnd_bal ha hp 1 _ (by omega), blockEnd]
  simp [hcd, hco]

/-! ### balanced text: what the renderer writes -/

theorem Bal.append {a b : Bytes} (ha : Bal a) (hb : Bal b) : Bal (a ++ b) := by
  induction ha with
  | nil => simpa using hb
  | chr c r h1 h2 h3 h4 h5 _ ih => exact Bal.chr c _ h1 h2 h3 h4 h5 ih
  | str s r hs _ ih =>
    have : (dq :: s ++ dq :: r) ++ b = dq :: s ++ dq :: (r ++ b) := by simp
    rw [this]; exact Bal.str s _ hs ih
  | brace x r hx _ _ ih =>
    have : (lbrace :: x ++ rbrace :: r) ++ b = lbrace :: x ++ rbrace :: (r ++ b) := by simp
    rw [this]; exact Bal.brace x _ hx ih
  | brack x r hx _ _ ih =>
    have : (lbrack :: x ++ rbrack :: r) ++ b = lbrack :: x ++ rbrack :: (r ++ b) := by simp
    rw [this]; exact Bal.brack x _ hx ih

theorem Bal.of_plain {w : Bytes} (hw : ∀ b ∈ w, b ≠ dq ∧ b ≠ lbrace ∧ b ≠ rbrace ∧ b ≠ lbrack ∧ b ≠ rbrack) : Bal w := by
  induction w with
  | nil => exact Bal.nil
  | cons c w ih =>
    obtain ⟨h1, h2, h3, h4, h5⟩ := hw c List.mem_cons_self
    exact Bal.chr c w h1 h2 h3 h4 h5 (ih fun b hb => hw b (List.mem_cons_of_mem _ hb))

theorem ws_plain {b : Byte} (h : isWs b = true) : b ≠ dq ∧ b ≠ lbrace ∧ b ≠ rbrace ∧ b ≠ lbrack ∧ b ≠ rbrack := by
  refine ⟨?_, ?_, ?_, ?_, ?_⟩ <;> (intro e; subst e; revert h; decide)

theorem Bal.of_ws {w : Bytes} (hw : WsOK w) : Bal w := Bal.of_plain fun b hb => ws_plain (hw b hb)

theorem numChar_plain {b : Byte} (h : isNumChar b = true) : b ≠ dq ∧ b ≠ lbrace ∧ b ≠ rbrace ∧ b ≠ lbrack ∧ b ≠ rbrack := by
  refine ⟨?_, ?_, ?_, ?_, ?_⟩ <;> (intro e; subst e; revert h; decide)

theorem strBody_item (i : SItem) (hi : i.WF) {r : Bytes} (hr : StrBody r) : StrBody (i.render ++ r) := by
  cases i with
  | raw b => exact StrBody.chr b r hi.1 hi.2 hr
  | esc c => exact StrBody.esc c r hr
  | uni a b c d =>
    obtain ⟨cp, hcp, _⟩ := hi
    obtain ⟨ha, hb, hc, hd⟩ := hex4_some hcp
    exact StrBody.esc 117 _ (StrBody.chr a _ ha.1 ha.2 (StrBody.chr b _ hb.1 hb.2 (StrBody.chr c _ hc.1 hc.2
      (StrBody.chr d _ hd.1 hd.2 hr))))
  | pair a b c d e f g h =>
    obtain ⟨hi', lo, h1, h2, _⟩ := hi
    obtain ⟨ha, hb, hc, hd⟩ := hex4_some h1
    obtain ⟨he, hf, hg, hh⟩ := hex4_some h2
    exact StrBody.esc 117 _ (StrBody.chr a _ ha.1 ha.2 (StrBody.chr b _ hb.1 hb.2 (StrBody.chr c _ hc.1 hc.2
      (StrBody.chr d _ hd.1 hd.2 (StrBody.esc 117 _ (StrBody.chr e _ he.1 he.2 (StrBody.chr f _ hf.1 hf.2
      (StrBody.chr g _ hg.1 hg.2 (StrBody.chr h _ hh.1 hh.2 hr)))))))))

theorem strBody_render (items : List SItem) (hw : ∀ i ∈ items, i.WF) : StrBody (renderItems items) := by
  induction items with
  | nil => exact StrBody.nil
  | cons i items ih =>
    rw [renderItems_cons]
    exact strBody_item i (hw i List.mem_cons_self) (ih fun j hj => hw j (List.mem_cons_of_mem _ hj))

theorem Bal.of_string (items : List SItem) (hw : ∀ i ∈ items, i.WF) : Bal (dq :: renderItems items ++ [dq]) :=
  Bal.str _ [] (strBody_render items hw) Bal.nil

theorem Bal.of_leaf (v : CLeaf) (hv : v.WF) : Bal v.render := by
  cases v with
  | str items => exact Bal.of_string items hv
  | num lit => exact Bal.of_plain fun b hb => numChar_plain (hv.2 b hb)
  | other raw =>
    rcases hv with h | h | h | ⟨a, h, ha⟩
    · subst h; exact Bal.of_plain (by decide)
    · subst h; exact Bal.of_plain (by decide)
    · subst h; exact Bal.of_plain (by decide)
    · subst h
      have : lbrack :: a ++ [rbrack] = lbrack :: a ++ rbrack :: [] := rfl
      rw [CLeaf.render, this]; exact Bal.brack a [] ha Bal.nil

theorem Bal.of_sep (o : CObj) : Bal o.sep := by
  cases o with
  | nil => exact Bal.nil
  | leaf => show Bal [comma]; exact Bal.of_plain (by decide)
  | sub => show Bal [comma]; exact Bal.of_plain (by decide)

theorem Bal.of_members (o : CObj) (hw : o.WF) : Bal o.renderMs := by
  induction o with
  | nil => exact Bal.nil
  | leaf w0 key w1 w2 v w3 rest ih =>
    obtain ⟨h0, h1, h2, h3, hk, hv, hr⟩ := hw
    rw [CObj.renderMs]
    have e : w0 ++ dq :: renderItems key ++ dq :: w1 ++ colon :: w2 ++ v.render ++ w3 ++ rest.sep ++ rest.renderMs =
        w0 ++ ((dq :: renderItems key ++ [dq]) ++ (w1 ++ ([colon] ++ (w2 ++ (v.render ++ (w3 ++ (rest.sep ++ rest.renderMs))))))) := by
      simp
    rw [e]
    exact (Bal.of_ws h0).append ((Bal.of_string key hk).append ((Bal.of_ws h1).append ((Bal.of_plain (by decide)).append
      ((Bal.of_ws h2).append ((Bal.of_leaf v hv).append ((Bal.of_ws h3).append ((Bal.of_sep rest).append (ih hr))))))))
  | sub w0 key w1 w2 wo child w3 rest ihc ih =>
    obtain ⟨h0, h1, h2, ho, h3, hk, hc, hr⟩ := hw
    rw [CObj.renderMs]
    have e : w0 ++ dq :: renderItems key ++ dq :: w1 ++ colon :: w2 ++ (lbrace :: wo ++ child.renderMs ++ [rbrace]) ++ w3 ++
          rest.sep ++ rest.renderMs =
        w0 ++ ((dq :: renderItems key ++ [dq]) ++ (w1 ++ ([colon] ++ (w2 ++ ((lbrace :: (wo ++ child.renderMs) ++ rbrace :: []) ++
          (w3 ++ (rest.sep ++ rest.renderMs))))))) := by
      simp
    rw [e]
    exact (Bal.of_ws h0).append ((Bal.of_string key hk).append ((Bal.of_ws h1).append ((Bal.of_plain (by decide)).append
      ((Bal.of_ws h2).append ((Bal.brace _ [] ((Bal.of_ws ho).append (ihc hc)) Bal.nil).append
      ((Bal.of_ws h3).append ((Bal.of_sep rest).append (ih hr))))))))

end Goat.PlainMap
