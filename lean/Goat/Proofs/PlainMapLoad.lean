/-
Helper lemmas for C20, part 7: the loader is a fold of `I18.set` over the files; a key translates to
what the last file defining it says.
-/
import Goat.Proofs.PlainMapTree

namespace Goat.PlainMap

/-- one file handed to `OnFile` -/
def lstep (reader : Bytes → Option (Flat Bytes)) (st : I18) (f : Bytes × Bytes) : Option I18 :=
  (reader f.2).map fun tmap => I18.set st tmap

theorem load_eq (reader : Bytes → Option (Flat Bytes)) (files : List (Bytes × Bytes)) :
    load reader files = (files.filter fun f => isJsonName f.1).foldlM (lstep reader) [] := rfl

theorem fold_spec (reader : Bytes → Option (Flat Bytes)) (l : List (Bytes × Bytes)) : ∀ (st0 : I18),
    (∀ f ∈ l, ∃ m, reader f.2 = some m) →
    ∃ st, l.foldlM (lstep reader) st0 = some st ∧
      (∀ pre f post m k v, l = pre ++ f :: post → reader f.2 = some m → m.get k = some v →
        (∀ g ∈ post, ∀ m', reader g.2 = some m' → m'.get k = none) → st.get k = some v) ∧
      (∀ k, (∀ g ∈ l, ∀ m', reader g.2 = some m' → m'.get k = none) → st.get k = st0.get k) := by
  induction l with
  | nil =>
    intro st0 _
    refine ⟨st0, rfl, ?_, fun _ _ => rfl⟩
    intro pre f post m k v e
    cases pre <;> cases e
  | cons g l ih =>
    intro st0 hok
    obtain ⟨mg, hmg⟩ := hok g List.mem_cons_self
    obtain ⟨st, hst, h1, h2⟩ := ih (I18.set st0 mg) (fun f hf => hok f (List.mem_cons_of_mem _ hf))
    refine ⟨st, ?_, ?_, ?_⟩
    · rw [List.foldlM_cons]
      have : lstep reader st0 g = some (I18.set st0 mg) := by simp [lstep, hmg]
      rw [this]; exact hst
    · intro pre f post m k v e hm hv hpost
      cases pre with
      | nil =>
        simp only [List.nil_append, List.cons.injEq] at e
        obtain ⟨rfl, rfl⟩ := e
        rw [h2 k hpost, I18.set, Flat.get_append]
        rw [hmg] at hm; cases hm
        rw [hv]
      | cons x pre =>
        simp only [List.cons_append, List.cons.injEq] at e
        exact h1 pre f post m k v e.2 hm hv hpost
    · intro k hnone
      rw [h2 k (fun x hx => hnone x (List.mem_cons_of_mem _ hx)), I18.set, Flat.get_append,
        hnone g List.mem_cons_self mg hmg]

end Goat.PlainMap
