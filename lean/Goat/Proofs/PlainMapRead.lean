/-
Helper lemmas for C20, part 4: `getValue` on every kind of rendered value and the main lemma
`members_render` — reading the rendering of a well-formed concrete syntax tree yields its leaves.
-/
import Goat.Proofs.PlainMapJson

namespace Goat.PlainMap

/-- the text after a value starts with a byte that ends a bare token -/
def TermHead (r : Bytes) : Prop := ∃ c r', r = c :: r' ∧ isTerm c = true

theorem tokenSplit_lit (lit : Bytes) (hl : ∀ b ∈ lit, isTerm b = false) {rest : Bytes} (hr : TermHead rest) :
    tokenSplit (lit ++ rest) = (lit, rest) := by
  induction lit with
  | nil =>
    obtain ⟨c, r', rfl, hc⟩ := hr
    rw [List.nil_append, tokenSplit, if_pos hc]
  | cons b lit ih =>
    rw [List.cons_append, tokenSplit]
    have : isTerm b = false := hl b List.mem_cons_self
    simp only [this, Bool.false_eq_true, if_false]
    rw [ih fun x hx => hl x (List.mem_cons_of_mem _ hx)]

theorem isTerm_cases {b : Byte} (h : isTerm b = true) : b = 32 ∨ b = 10 ∨ b = 13 ∨ b = 9 ∨ b = comma ∨ b = rbrace ∨ b = rbrack := by
  simp only [isTerm, isWs, Bool.or_eq_true, decide_eq_true_eq] at h
  rcases h with (((((h | h) | h) | h) | h) | h) | h <;> subst h <;> decide

theorem numChar_not_term {b : Byte} (h : isNumChar b = true) : isTerm b = false := by
  cases ht : isTerm b with
  | false => rfl
  | true =>
    rcases isTerm_cases ht with e | e | e | e | e | e | e <;> (subst e; revert h; decide)

theorem getValue_str (items : List SItem) (hw : ∀ i ∈ items, i.WF) (rest : Bytes) :
    getValue (dq :: (renderItems items ++ dq :: rest)) = some (.string, renderItems items, rest) := by
  rw [getValue]
  simp only [if_true]
  rw [stringEnd_render items hw]; rfl

theorem getValue_num {lit : Bytes} (h1 : ∃ c r, lit = c :: r ∧ (inRange 48 57 c = true ∨ c = 45))
    (h2 : ∀ b ∈ lit, isNumChar b = true) {rest : Bytes} (hr : TermHead rest) :
    getValue (lit ++ rest) = some (.number, lit, rest) := by
  obtain ⟨c, r, rfl, hc⟩ := h1
  have hts := tokenSplit_lit (c :: r) (fun b hb => numChar_not_term (h2 b hb)) hr
  rw [List.cons_append] at hts ⊢
  rw [getValue]
  have n1 : ¬ c = dq := by rcases hc with hc | hc <;> u8
  have n2 : ¬ c = lbrack := by rcases hc with hc | hc <;> u8
  have n3 : ¬ c = lbrace := by rcases hc with hc | hc <;> u8
  have n4 : ¬ (c = 116 ∨ c = 102) := by rcases hc with hc | hc <;> u8
  have n5 : ¬ (c = 117 ∨ c = 110) := by rcases hc with hc | hc <;> u8
  simp only [n1, n2, n3, n4, n5, if_false, hts]
  rw [if_pos hc]

theorem getValue_true {rest : Bytes} (hr : TermHead rest) : getValue (litTrue ++ rest) = some (.boolean, litTrue, rest) := by
  have hts := tokenSplit_lit litTrue (by decide) hr
  simp only [litTrue, List.cons_append, List.nil_append] at hts ⊢
  rw [getValue]
  have n1 : ¬ (116 : Byte) = dq := by decide
  have n2 : ¬ (116 : Byte) = lbrack := by decide
  have n3 : ¬ (116 : Byte) = lbrace := by decide
  simp [n1, n2, n3, hts, litTrue]

theorem getValue_false {rest : Bytes} (hr : TermHead rest) : getValue (litFalse ++ rest) = some (.boolean, litFalse, rest) := by
  have hts := tokenSplit_lit litFalse (by decide) hr
  simp only [litFalse, List.cons_append, List.nil_append] at hts ⊢
  rw [getValue]
  have n1 : ¬ (102 : Byte) = dq := by decide
  have n2 : ¬ (102 : Byte) = lbrack := by decide
  have n3 : ¬ (102 : Byte) = lbrace := by decide
  simp [n1, n2, n3, hts, litFalse]

theorem getValue_null {rest : Bytes} (hr : TermHead rest) : getValue (litNull ++ rest) = some (.null, litNull, rest) := by
  have hts := tokenSplit_lit litNull (by decide) hr
  simp only [litNull, List.cons_append, List.nil_append] at hts ⊢
  rw [getValue]
  have n1 : ¬ (110 : Byte) = dq := by decide
  have n2 : ¬ (110 : Byte) = lbrack := by decide
  have n3 : ¬ (110 : Byte) = lbrace := by decide
  simp [n1, n2, n3, hts, litNull]

theorem getValue_arr {a : Bytes} (ha : Bal a) (rest : Bytes) :
    getValue (lbrack :: a ++ rbrack :: rest) = some (.array, lbrack :: a ++ [rbrack], rest) := by
  rw [List.cons_append, getValue]
  have n1 : ¬ lbrack = dq := by decide
  simp only [n1, if_false, if_true]
  have := blockEnd_block ha (Or.inr ⟨rfl, rfl⟩ : IsPair lbrack rbrack) rest
  rw [List.cons_append] at this
  rw [this]; rfl

theorem getValue_obj {a : Bytes} (ha : Bal a) (rest : Bytes) :
    getValue (lbrace :: a ++ rbrace :: rest) = some (.object, lbrace :: a ++ [rbrace], rest) := by
  rw [List.cons_append, getValue]
  have n1 : ¬ lbrace = dq := by decide
  have n2 : ¬ lbrace = lbrack := by decide
  simp only [n1, n2, if_false, if_true]
  have := blockEnd_block ha (Or.inl ⟨rfl, rfl⟩ : IsPair lbrace rbrace) rest
  rw [List.cons_append] at this
  rw [this]; rfl

/-! ### one member -/

/-- the callback of `jsonToPlainStringMap` for one member (as inlined in `members`) -/
def hereF (fixed : Bool) (n : Nat) (top : Bool) (pfx key : Bytes) (kind : Kind) (value : Bytes) : Option (Flat Bytes) :=
  let nested := if fixed then !top else decide (pfx ≠ [])
  let nk := if nested then pfx ++ dot :: key else key
  match kind with
  | .object =>
    match skipWs value with
    | c' :: inner => if c' = lbrace then members fixed n false nk inner else none
    | [] => none
  | .string => (unesc value).map fun s => [(nk, s)]
  | .number => some [(nk, value)]
  | _ => some []

theorem members_step (fixed : Bool) (n : Nat) (top : Bool) (pfx : Bytes) {w0 w1 : Bytes} {key : List SItem}
    (V : Bytes) {kind : Kind} {value AFTER : Bytes}
    (h0 : WsOK w0) (h1 : WsOK w1) (hk : ∀ i ∈ key, i.WF)
    (hV : getValue (skipWs V) = some (kind, value, AFTER)) :
    members fixed (n + 1) top pfx (w0 ++ dq :: (renderItems key ++ dq :: (w1 ++ colon :: V))) =
      match hereF fixed n top pfx (valItems key) kind value with
      | none => none
      | some es =>
        match skipWs AFTER with
        | [] => none
        | c5 :: d6 =>
          if c5 = rbrace then some es
          else if c5 = comma then (members fixed n top pfx d6).map (es ++ ·)
          else none := by
  rw [members]
  rw [skipWs_ws_cons h0 (by decide)]
  have n1 : ¬ dq = rbrace := by decide
  simp only [n1, if_false, ne_eq, not_true_eq_false]
  rw [stringEnd_render key hk]
  simp only
  rw [unesc_render key hk]
  simp only
  rw [skipWs_ws_cons h1 (by decide)]
  simp only [not_true_eq_false, if_false]
  rw [hV]
  rfl

/-! ### the accumulated key -/

/-- `pre` (empty at the top, `outer key ++ "."` below) as the reader represents it -/
def KeyRel (fixed top : Bool) (pfx pre : Bytes) : Prop :=
  if fixed then (top = true ∧ pre = []) ∨ (top = false ∧ pre = pfx ++ [dot])
  else (pfx = [] ∧ pre = []) ∨ (pfx ≠ [] ∧ pre = pfx ++ [dot])

theorem nk_eq {fixed top : Bool} {pfx pre : Bytes} (h : KeyRel fixed top pfx pre) (key : Bytes) :
    (if (if fixed then !top else decide (pfx ≠ [])) then pfx ++ dot :: key else key) = pre ++ key := by
  unfold KeyRel at h
  cases fixed with
  | true =>
    simp only [if_true] at h ⊢
    rcases h with ⟨rfl, rfl⟩ | ⟨rfl, rfl⟩ <;> simp
  | false =>
    simp only [Bool.false_eq_true, if_false] at h ⊢
    rcases h with ⟨rfl, rfl⟩ | ⟨hne, rfl⟩ <;> simp [*]

theorem rel_child {fixed top : Bool} {pfx pre : Bytes} (_h : KeyRel fixed top pfx pre) (key : Bytes)
    (hne : fixed = false → pre ++ key ≠ []) : KeyRel fixed false (pre ++ key) (pre ++ key ++ [dot]) := by
  unfold KeyRel
  cases fixed with
  | true => simp
  | false => rw [if_neg Bool.false_ne_true]; exact Or.inr ⟨hne rfl, rfl⟩

theorem hereF_string {fixed top : Bool} {pfx pre : Bytes} (h : KeyRel fixed top pfx pre) (n : Nat) (key : Bytes)
    (items : List SItem) (hw : ∀ i ∈ items, i.WF) :
    hereF fixed n top pfx key .string (renderItems items) = some [(pre ++ key, valItems items)] := by
  simp only [hereF, nk_eq h, unesc_render items hw, Option.map_some]

theorem hereF_number {fixed top : Bool} {pfx pre : Bytes} (h : KeyRel fixed top pfx pre) (n : Nat) (key lit : Bytes) :
    hereF fixed n top pfx key .number lit = some [(pre ++ key, lit)] := by
  simp only [hereF, nk_eq h]

theorem hereF_object {fixed top : Bool} {pfx pre : Bytes} (h : KeyRel fixed top pfx pre) (n : Nat) (key inner : Bytes) :
    hereF fixed n top pfx key .object (lbrace :: inner) = members fixed n false (pre ++ key) inner := by
  simp only [hereF, nk_eq h]
  rw [skipWs_cons (by decide)]
  simp

/-! ### the text after a value -/

theorem sep_of_ne_nil {o : CObj} (h : o ≠ .nil) : o.sep = [comma] := by
  cases o with
  | nil => exact absurd rfl h
  | leaf => rfl
  | sub => rfl

theorem termHead_after {w3 : Bytes} (h3 : WsOK w3) (rest : CObj) (tail : Bytes) :
    TermHead (w3 ++ (rest.sep ++ (rest.renderMs ++ rbrace :: tail))) := by
  cases w3 with
  | cons c w =>
    refine ⟨c, _, rfl, ?_⟩
    have := h3 c List.mem_cons_self
    simp [isTerm, this]
  | nil =>
    by_cases hn : rest = .nil
    · subst hn; exact ⟨rbrace, tail, rfl, by decide⟩
    · rw [sep_of_ne_nil hn]; exact ⟨comma, _, rfl, by decide⟩

theorem leaf_render_head (v : CLeaf) (hv : v.WF) : ∃ c r, v.render = c :: r ∧ isWs c = false := by
  cases v with
  | str items => exact ⟨dq, _, rfl, by decide⟩
  | num lit =>
    obtain ⟨⟨c, r, rfl, hc⟩, _⟩ := hv
    refine ⟨c, r, rfl, ?_⟩
    rcases hc with hc | hc
    · cases hw : isWs c with
      | false => rfl
      | true =>
        simp only [isWs, Bool.or_eq_true, decide_eq_true_eq] at hw
        rcases hw with ((hw | hw) | hw) | hw <;> (subst hw; revert hc; decide)
    · subst hc; decide
  | other raw =>
    rcases hv with h | h | h | ⟨a, h, _⟩ <;> subst h
    · exact ⟨116, _, rfl, by decide⟩
    · exact ⟨102, _, rfl, by decide⟩
    · exact ⟨110, _, rfl, by decide⟩
    · exact ⟨lbrack, _, rfl, by decide⟩

/-! ### the main lemma -/

theorem members_nil_input (fixed : Bool) (n : Nat) (top : Bool) (pfx : Bytes) {ws : Bytes} (hws : WsOK ws) (tail : Bytes) :
    members fixed (n + 1) top pfx (ws ++ rbrace :: tail) = some [] := by
  rw [members, skipWs_ws_cons hws (by decide)]
  simp

theorem members_render (o : CObj) : ∀ (fixed : Bool) (n : Nat) (top : Bool) (pfx pre tail ws : Bytes), o.WF →
    KeyRel fixed top pfx pre → (fixed = false → pre = [] → ¬ o.emptyTopKey) → o.renderMs.length < n → WsOK ws →
    members fixed n top pfx (ws ++ (o.renderMs ++ rbrace :: tail)) = some (o.leaves pre) := by
  induction o with
  | nil =>
    intro fixed n top pfx pre tail ws _ _ _ hn hws
    cases n with
    | zero => cases hn
    | succ n => simpa [CObj.renderMs, CObj.leaves] using members_nil_input fixed n top pfx hws tail
  | leaf w0 key w1 w2 v w3 rest ih =>
    intro fixed n top pfx pre tail ws hwf hrel hdef hn hws
    obtain ⟨h0, h1, h2, h3, hk, hv, hr⟩ := hwf
    cases n with
    | zero => cases hn
    | succ n =>
    have hlen : rest.renderMs.length < n := by
      simp only [CObj.renderMs, List.length_append, List.length_cons] at hn; omega
    -- the text after the value, and the continuation
    have hcont : ∀ es : Flat Bytes,
        (match skipWs (w3 ++ (rest.sep ++ (rest.renderMs ++ rbrace :: tail))) with
          | [] => none
          | c5 :: d6 =>
            if c5 = rbrace then some es
            else if c5 = comma then (members fixed n top pfx d6).map (es ++ ·)
            else none) = some (es ++ rest.leaves pre) := by
      intro es
      by_cases hnil : rest = .nil
      · subst hnil
        simp only [CObj.sep, CObj.renderMs, CObj.leaves, List.nil_append, List.append_nil]
        rw [skipWs_ws_cons h3 (by decide)]; simp
      · rw [sep_of_ne_nil hnil, List.cons_append, List.nil_append, skipWs_ws_cons h3 (by decide)]
        have c1 : ¬ comma = rbrace := by decide
        simp only [c1, if_false, if_true]
        have := ih fixed n top pfx pre tail [] hr hrel (fun hf hp => by
          have := hdef hf hp; simpa [CObj.emptyTopKey] using this) hlen (by intro b hb; cases hb)
        rw [List.nil_append] at this
        rw [this]; rfl
    have hth := termHead_after h3 rest tail
    have e : ws ++ ((CObj.leaf w0 key w1 w2 v w3 rest).renderMs ++ rbrace :: tail) =
        (ws ++ w0) ++ dq :: (renderItems key ++ dq :: (w1 ++ colon ::
          (w2 ++ (v.render ++ (w3 ++ (rest.sep ++ (rest.renderMs ++ rbrace :: tail))))))) := by
      simp [CObj.renderMs]
    have hws0 : WsOK (ws ++ w0) := by
      intro b hb; rcases List.mem_append.mp hb with hb | hb
      · exact hws b hb
      · exact h0 b hb
    obtain ⟨c, r, hvr, hcw⟩ := leaf_render_head v hv
    have hskip : skipWs (w2 ++ (v.render ++ (w3 ++ (rest.sep ++ (rest.renderMs ++ rbrace :: tail))))) =
        v.render ++ (w3 ++ (rest.sep ++ (rest.renderMs ++ rbrace :: tail))) := by
      rw [skipWs_append h2, hvr, List.cons_append, skipWs_cons hcw]
    rw [e]
    cases v with
    | str items =>
      have hV : getValue (skipWs (w2 ++ ((CLeaf.str items).render ++ (w3 ++ (rest.sep ++ (rest.renderMs ++ rbrace :: tail)))))) =
          some (.string, renderItems items, w3 ++ (rest.sep ++ (rest.renderMs ++ rbrace :: tail))) := by
        rw [hskip]
        have := getValue_str items hv (w3 ++ (rest.sep ++ (rest.renderMs ++ rbrace :: tail)))
        simpa [CLeaf.render] using this
      rw [members_step fixed n top pfx _ hws0 h1 hk hV, hereF_string hrel n _ items hv]
      simp only
      rw [hcont]; rfl
    | num lit =>
      have hV : getValue (skipWs (w2 ++ ((CLeaf.num lit).render ++ (w3 ++ (rest.sep ++ (rest.renderMs ++ rbrace :: tail)))))) =
          some (.number, lit, w3 ++ (rest.sep ++ (rest.renderMs ++ rbrace :: tail))) := by
        rw [hskip]
        exact getValue_num hv.1 hv.2 hth
      rw [members_step fixed n top pfx _ hws0 h1 hk hV, hereF_number hrel n]
      simp only
      rw [hcont]; rfl
    | other raw =>
      have hV : ∃ kind, kind ≠ .object ∧ kind ≠ .string ∧ kind ≠ .number ∧
          getValue (skipWs (w2 ++ ((CLeaf.other raw).render ++ (w3 ++ (rest.sep ++ (rest.renderMs ++ rbrace :: tail)))))) =
          some (kind, raw, w3 ++ (rest.sep ++ (rest.renderMs ++ rbrace :: tail))) := by
        rw [hskip]
        rcases hv with h | h | h | ⟨a, h, ha⟩ <;> subst h
        · exact ⟨.boolean, by decide, by decide, by decide, getValue_true hth⟩
        · exact ⟨.boolean, by decide, by decide, by decide, getValue_false hth⟩
        · exact ⟨.null, by decide, by decide, by decide, getValue_null hth⟩
        · refine ⟨.array, by decide, by decide, by decide, ?_⟩
          have := getValue_arr ha (w3 ++ (rest.sep ++ (rest.renderMs ++ rbrace :: tail)))
          simpa [CLeaf.render] using this
      obtain ⟨kind, k1, k2, k3, hV⟩ := hV
      rw [members_step fixed n top pfx _ hws0 h1 hk hV]
      have : hereF fixed n top pfx (valItems key) kind raw = some [] := by
        cases kind <;> simp_all [hereF]
      rw [this]
      simp only
      rw [hcont]; rfl
  | sub w0 key w1 w2 wo child w3 rest ihc ih =>
    intro fixed n top pfx pre tail ws hwf hrel hdef hn hws
    obtain ⟨h0, h1, h2, ho, h3, hk, hc, hr⟩ := hwf
    cases n with
    | zero => cases hn
    | succ n =>
    have hlen : rest.renderMs.length < n := by
      simp only [CObj.renderMs, List.length_append, List.length_cons] at hn; omega
    have hlenc : child.renderMs.length < n := by
      simp only [CObj.renderMs, List.length_append, List.length_cons] at hn; omega
    have hdef' : fixed = false → pre = [] → valItems key ≠ [] ∧ ¬ rest.emptyTopKey := by
      intro hf hp
      have := hdef hf hp
      simpa [CObj.emptyTopKey, not_or] using this
    have hcont : ∀ es : Flat Bytes,
        (match skipWs (w3 ++ (rest.sep ++ (rest.renderMs ++ rbrace :: tail))) with
          | [] => none
          | c5 :: d6 =>
            if c5 = rbrace then some es
            else if c5 = comma then (members fixed n top pfx d6).map (es ++ ·)
            else none) = some (es ++ rest.leaves pre) := by
      intro es
      by_cases hnil : rest = .nil
      · subst hnil
        simp only [CObj.sep, CObj.renderMs, CObj.leaves, List.nil_append, List.append_nil]
        rw [skipWs_ws_cons h3 (by decide)]; simp
      · rw [sep_of_ne_nil hnil, List.cons_append, List.nil_append, skipWs_ws_cons h3 (by decide)]
        have c1 : ¬ comma = rbrace := by decide
        simp only [c1, if_false, if_true]
        have := ih fixed n top pfx pre tail [] hr hrel (fun hf hp => (hdef' hf hp).2) hlen (by intro b hb; cases hb)
        rw [List.nil_append] at this
        rw [this]; rfl
    have e : ws ++ ((CObj.sub w0 key w1 w2 wo child w3 rest).renderMs ++ rbrace :: tail) =
        (ws ++ w0) ++ dq :: (renderItems key ++ dq :: (w1 ++ colon ::
          (w2 ++ (lbrace :: (wo ++ child.renderMs) ++ rbrace :: (w3 ++ (rest.sep ++ (rest.renderMs ++ rbrace :: tail))))))) := by
      simp [CObj.renderMs]
    have hws0 : WsOK (ws ++ w0) := by
      intro b hb; rcases List.mem_append.mp hb with hb | hb
      · exact hws b hb
      · exact h0 b hb
    have hV : getValue (skipWs (w2 ++ (lbrace :: (wo ++ child.renderMs) ++ rbrace ::
          (w3 ++ (rest.sep ++ (rest.renderMs ++ rbrace :: tail)))))) =
        some (.object, lbrace :: (wo ++ child.renderMs) ++ [rbrace], w3 ++ (rest.sep ++ (rest.renderMs ++ rbrace :: tail))) := by
      rw [skipWs_append h2, List.cons_append, skipWs_cons (by decide)]
      have := getValue_obj ((Bal.of_ws ho).append (Bal.of_members child hc)) (w3 ++ (rest.sep ++ (rest.renderMs ++ rbrace :: tail)))
      rw [List.cons_append] at this
      exact this
    rw [e, members_step fixed n top pfx _ hws0 h1 hk hV]
    have hrelc : KeyRel fixed false (pre ++ valItems key) (pre ++ valItems key ++ [dot]) := by
      apply rel_child hrel
      intro hf hne
      by_cases hp : pre = []
      · subst hp; exact (hdef' hf rfl).1 (by simpa using hne)
      · exact hp (List.append_eq_nil_iff.mp hne).1
    have hchild := ihc fixed n false (pre ++ valItems key) (pre ++ valItems key ++ [dot]) [] wo hc hrelc
      (fun _ hp => by simp at hp) hlenc ho
    have : hereF fixed n top pfx (valItems key) .object (lbrace :: (wo ++ child.renderMs) ++ [rbrace]) =
        some (child.leaves (pre ++ valItems key ++ [dot])) := by
      rw [List.cons_append, hereF_object hrel, List.append_assoc]
      exact hchild
    rw [this]
    simp only
    rw [hcont]; rfl

end Goat.PlainMap
