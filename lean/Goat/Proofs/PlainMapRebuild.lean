/-
Helper lemmas for C20, part 2: `flatten` lists exactly the leaves of a key-unique tree under their
dotted paths, and `rebuild` (a fold of `insert` in any order) builds a tree with exactly those leaves.
-/
import Goat.Proofs.PlainMapTree

namespace Goat.PlainMap

theorem opt_ext {β : Type} {a b : Option β} (h : ∀ v, a = some v ↔ b = some v) : a = b := by
  cases a with
  | none =>
    cases b with
    | none => rfl
    | some y => exact ((h y).mpr rfl).symm ▸ rfl
  | some x => exact ((h x).mp rfl).symm

theorem nodup_map_on {β γ : Type} (f : β → γ) (l : List β) (hn : l.Nodup)
    (hinj : ∀ a ∈ l, ∀ b ∈ l, f a = f b → a = b) : (l.map f).Nodup := by
  induction l with
  | nil => simp
  | cons x l ih =>
    rw [List.nodup_cons] at hn
    rw [List.map_cons, List.nodup_cons]
    refine ⟨?_, ih hn.2 (fun a ha b hb => hinj a (List.mem_cons_of_mem _ ha) b (List.mem_cons_of_mem _ hb))⟩
    intro hm
    obtain ⟨y, hy, hfy⟩ := List.mem_map.mp hm
    have := hinj y (List.mem_cons_of_mem _ hy) x List.mem_cons_self hfy
    subst this
    exact hn.1 hy

theorem splitDot_append_dot' (a r : Bytes) : splitDot (a ++ dot :: r) = splitDot a ++ splitDot r := by
  induction a with
  | nil => simp [splitDot]
  | cons c a ih =>
    rw [List.cons_append, splitDot, splitDot]
    by_cases hc : c = dot
    · simp [hc, ih]
    · simp only [if_neg hc, ih]
      cases hs : splitDot a with
      | nil => exact absurd hs (splitDot_ne_nil a)
      | cons seg segs => simp

namespace Tree
variable {α : Type}

/-- the leaves with their paths, in source order -/
def paths : Tree α → List (List Bytes × α)
  | nil => []
  | leaf k v rest => ([k], v) :: paths rest
  | node k c rest => (paths c).map (fun e => (k :: e.1, e.2)) ++ paths rest

theorem paths_ne_nil {t : Tree α} {p : List Bytes} {v : α} (h : (p, v) ∈ paths t) : p ≠ [] := by
  induction t with
  | nil => cases h
  | leaf k v0 rest ih =>
    rcases List.mem_cons.mp h with h | h
    · cases h; simp
    · exact ih h
  | node k c rest _ ih =>
    rcases List.mem_append.mp h with h | h
    · obtain ⟨e, _, he⟩ := List.mem_map.mp h
      cases he; simp
    · exact ih h

theorem paths_dotFree {t : Tree α} (hd : DotFreeKeys t) {p : List Bytes} {v : α} (h : (p, v) ∈ paths t) :
    ∀ k ∈ p, DotFree k := by
  induction t generalizing p with
  | nil => cases h
  | leaf k v0 rest ih =>
    rcases List.mem_cons.mp h with h | h
    · cases h; intro k' hk'; simp at hk'; subst hk'; exact hd.1
    · exact ih hd.2 h
  | node k c rest ihc ih =>
    rcases List.mem_append.mp h with h | h
    · obtain ⟨e, hm, he⟩ := List.mem_map.mp h
      cases he
      intro k' hk'
      rcases List.mem_cons.mp hk' with hk' | hk'
      · subst hk'; exact hd.1
      · exact ihc hd.2.1 (p := e.1) (by simpa using hm) k' hk'
    · exact ih hd.2.2 h

theorem flattenNode_eq (t : Tree α) : ∀ (base sep : Bytes),
    flattenNode base sep t = (paths t).map fun e => (base ++ sep ++ joinDot e.1, e.2) := by
  induction t with
  | nil => intros; rfl
  | leaf k v rest ih => intro base sep; simp [flattenNode, paths, ih, joinDot]
  | node k c rest ihc ih =>
    intro base sep
    rw [flattenNode, ihc, ih, paths, List.map_append, List.map_map]
    congr 1
    apply List.map_congr_left
    intro e he
    have hne : e.1 ≠ [] := paths_ne_nil (p := e.1) (v := e.2) (by simpa using he)
    simp [joinDot_cons_of_ne k hne]

theorem flatten_eq (t : Tree α) : flatten t = (paths t).map fun e => (joinDot e.1, e.2) := by
  rw [flatten, flattenNode_eq]; simp

/-! #### paths versus lookups -/

theorem paths_of_find_leaf {k : Bytes} {t : Tree α} {v : α} (h : find? k t = some (.inl v)) : ([k], v) ∈ paths t := by
  induction t with
  | nil => simp [find?] at h
  | leaf k0 v0 rest ih =>
    rw [find?] at h; split at h
    · next hk => cases h; subst hk; exact List.mem_cons_self
    · exact List.mem_cons_of_mem _ (ih h)
  | node k0 c rest _ ih =>
    rw [find?] at h; split at h
    · cases h
    · exact List.mem_append_right _ (ih h)

theorem paths_of_find_node {k : Bytes} {t c : Tree α} (h : find? k t = some (.inr c)) {p : List Bytes} {v : α}
    (hp : (p, v) ∈ paths c) : (k :: p, v) ∈ paths t := by
  induction t with
  | nil => simp [find?] at h
  | leaf k0 v0 rest ih =>
    rw [find?] at h; split at h
    · cases h
    · exact List.mem_cons_of_mem _ (ih h)
  | node k0 c0 rest _ ih =>
    rw [find?] at h; split at h
    · next hk => cases h; subst hk; exact List.mem_append_left _ (List.mem_map.mpr ⟨(p, v), hp, rfl⟩)
    · exact List.mem_append_right _ (ih h)

theorem mem_paths_of_leafAt (p : List Bytes) : ∀ {t : Tree α} {v : α}, leafAt t p = some v → (p, v) ∈ paths t := by
  induction p with
  | nil => intro t v h; rw [leafAt_nil_path] at h; cases h
  | cons k p ih =>
    intro t v h
    cases p with
    | nil =>
      rw [leafAt_single] at h
      cases hf : find? k t with
      | none => simp [hf] at h
      | some e =>
        cases e with
        | inl v' => simp [hf] at h; subst h; exact paths_of_find_leaf hf
        | inr c => simp [hf] at h
    | cons k2 p2 =>
      rw [leafAt_cons2] at h
      cases hf : find? k t with
      | none => simp [hf] at h
      | some e =>
        cases e with
        | inl v' => simp [hf] at h
        | inr c => simp [hf] at h; exact paths_of_find_node hf (ih h)

theorem no_path_of_find_none {k : Bytes} {t : Tree α} (h : find? k t = none) (p : List Bytes) (v : α) :
    (k :: p, v) ∉ paths t := by
  induction t with
  | nil => simp [paths]
  | leaf k0 v0 rest ih =>
    rw [find?] at h; split at h
    · cases h
    · next hk =>
      intro hm
      rcases List.mem_cons.mp hm with hm | hm
      · cases hm; exact hk rfl
      · exact ih h hm
  | node k0 c rest _ ih =>
    rw [find?] at h; split at h
    · cases h
    · next hk =>
      intro hm
      rcases List.mem_append.mp hm with hm | hm
      · obtain ⟨e, _, he⟩ := List.mem_map.mp hm
        cases he; exact hk rfl
      · exact ih h hm

theorem find_of_path {t : Tree α} (hu : Uniq t) {k : Bytes} {p : List Bytes} {v : α} (h : (k :: p, v) ∈ paths t) :
    (p = [] ∧ find? k t = some (.inl v)) ∨ (p ≠ [] ∧ ∃ c, find? k t = some (.inr c) ∧ (p, v) ∈ paths c) := by
  induction t with
  | nil => cases h
  | leaf k0 v0 rest ih =>
    rcases List.mem_cons.mp h with h | h
    · cases h; left; simp [find?]
    · have hne : k0 ≠ k := by
        intro e; subst e; exact no_path_of_find_none hu.1 p v h
      rw [find?, if_neg hne]; exact ih hu.2 h
  | node k0 c rest _ ih =>
    rcases List.mem_append.mp h with h | h
    · obtain ⟨e, hm, he⟩ := List.mem_map.mp h
      cases he
      right
      exact ⟨paths_ne_nil (p := e.1) (v := e.2) (by simpa using hm), c, by simp [find?], by simpa using hm⟩
    · have hne : k0 ≠ k := by
        intro e; subst e; exact no_path_of_find_none hu.1 p v h
      rw [find?, if_neg hne]; exact ih hu.2.2 h

theorem leafAt_of_mem_paths (p : List Bytes) : ∀ {t : Tree α} {v : α}, Uniq t → (p, v) ∈ paths t → leafAt t p = some v := by
  induction p with
  | nil => intro t v _ h; exact absurd rfl (paths_ne_nil h)
  | cons k p ih =>
    intro t v hu h
    rcases find_of_path hu h with ⟨hp, hf⟩ | ⟨hp, c, hf, hc⟩
    · subst hp; rw [leafAt_single, hf]
    · rw [leafAt_cons_of_ne _ _ hp, hf]
      exact ih ((find?_node_props hf).1 hu) hc

theorem leafAt_prefix_none (p : List Bytes) : ∀ {t : Tree α} {v : α} {r : List Bytes}, leafAt t p = some v → r ≠ [] →
    leafAt t (p ++ r) = none := by
  induction p with
  | nil => intro t v r h; rw [leafAt_nil_path] at h; cases h
  | cons k p ih =>
    intro t v r h hr
    cases p with
    | nil =>
      rw [leafAt_single] at h
      rw [List.singleton_append, leafAt_cons_of_ne _ _ hr]
      cases hf : find? k t with
      | none => rfl
      | some e =>
        cases e with
        | inl v' => rfl
        | inr c => simp [hf] at h
    | cons k2 p2 =>
      rw [leafAt_cons2] at h
      rw [List.cons_append, List.cons_append, leafAt_cons2]
      cases hf : find? k t with
      | none => rfl
      | some e =>
        cases e with
        | inl v' => rfl
        | inr c => simp only [hf] at h ⊢; exact ih h hr

theorem paths_nodup {t : Tree α} (hu : Uniq t) : ((paths t).map Prod.fst).Nodup := by
  induction t with
  | nil => simp [paths]
  | leaf k v rest ih =>
    simp only [paths, List.map_cons, List.nodup_cons]
    refine ⟨?_, ih hu.2⟩
    intro hm
    obtain ⟨e, he, hfe⟩ := List.mem_map.mp hm
    obtain ⟨p, v'⟩ := e
    simp at hfe; subst hfe
    exact no_path_of_find_none hu.1 [] v' he
  | node k c rest ihc ih =>
    simp only [paths, List.map_append, List.map_map]
    rw [List.nodup_append]
    refine ⟨?_, ih hu.2.2, ?_⟩
    · have := nodup_map_on (fun p : List Bytes => k :: p) _ (ihc hu.2.1) (by intro a _ b _ h; injection h)
      rw [List.map_map] at this
      exact this
    · intro a ha b hb hab
      subst hab
      obtain ⟨e, _, he⟩ := List.mem_map.mp ha
      obtain ⟨e2, he2, hfe2⟩ := List.mem_map.mp hb
      obtain ⟨p2, v2⟩ := e2
      simp at he hfe2
      subst hfe2
      rw [← he] at he2
      exact no_path_of_find_none hu.1 _ _ he2

/-! #### flatten -/

theorem mem_flatten {t : Tree α} {key : Bytes} {v : α} :
    (key, v) ∈ flatten t ↔ ∃ p, (p, v) ∈ paths t ∧ joinDot p = key := by
  rw [flatten_eq, List.mem_map]
  constructor
  · rintro ⟨⟨p, v'⟩, hm, he⟩
    simp at he
    exact ⟨p, he.2 ▸ hm, he.1⟩
  · rintro ⟨p, hm, he⟩
    exact ⟨(p, v), hm, by simp [he]⟩

theorem get_flatten {t : Tree α} (hu : Uniq t) (hd : DotFreeKeys t) (key : Bytes) :
    (flatten t).get key = leafAt t (splitDot key) := by
  apply opt_ext
  intro v
  constructor
  · intro h
    obtain ⟨p, hm, he⟩ := mem_flatten.mp (Flat.mem_of_get h)
    rw [← he, splitDot_joinDot p (paths_ne_nil hm) (paths_dotFree hd hm)]
    exact leafAt_of_mem_paths p hu hm
  · intro h
    have hm : (key, v) ∈ flatten t :=
      mem_flatten.mpr ⟨splitDot key, mem_paths_of_leafAt _ h, joinDot_splitDot key⟩
    obtain ⟨v', hv'⟩ := Flat.get_isSome_of_mem hm
    obtain ⟨p, hm', he⟩ := mem_flatten.mp (Flat.mem_of_get hv')
    have : leafAt t (splitDot key) = some v' := by
      rw [← he, splitDot_joinDot p (paths_ne_nil hm') (paths_dotFree hd hm')]
      exact leafAt_of_mem_paths p hu hm'
    rw [h] at this; cases this; exact hv'

theorem flatten_keys_nodup {t : Tree α} (hu : Uniq t) (hd : DotFreeKeys t) : (flatten t).keys.Nodup := by
  rw [Flat.keys, flatten_eq, List.map_map]
  have h1 := paths_nodup hu
  have : (List.map (Prod.fst ∘ fun e : List Bytes × α => (joinDot e.1, e.2)) (paths t)) =
      List.map joinDot ((paths t).map Prod.fst) := by
    rw [List.map_map]; rfl
  rw [this]
  apply nodup_map_on _ _ h1
  intro a ha b hb hab
  obtain ⟨ea, hea, rfl⟩ := List.mem_map.mp ha
  obtain ⟨eb, heb, rfl⟩ := List.mem_map.mp hb
  rw [← splitDot_joinDot ea.1 (paths_ne_nil (v := ea.2) hea) (paths_dotFree hd (v := ea.2) hea), hab,
    splitDot_joinDot eb.1 (paths_ne_nil (v := eb.2) heb) (paths_dotFree hd (v := eb.2) heb)]

theorem flatten_prefixFree {t : Tree α} (hu : Uniq t) (hd : DotFreeKeys t) : PrefixFree (flatten t).keys := by
  intro a ha b hb r hbr
  obtain ⟨⟨ka, va⟩, hma, rfl⟩ := List.mem_map.mp ha
  obtain ⟨⟨kb, vb⟩, hmb, rfl⟩ := List.mem_map.mp hb
  obtain ⟨pa, hpa, hea⟩ := mem_flatten.mp hma
  obtain ⟨pb, hpb, heb⟩ := mem_flatten.mp hmb
  simp only at hbr
  have h1 : splitDot ka = pa := by rw [← hea, splitDot_joinDot pa (paths_ne_nil hpa) (paths_dotFree hd hpa)]
  have h2 : splitDot kb = pb := by rw [← heb, splitDot_joinDot pb (paths_ne_nil hpb) (paths_dotFree hd hpb)]
  have h3 : pb = pa ++ splitDot r := by rw [← h2, hbr, splitDot_append_dot', h1]
  have := leafAt_prefix_none pa (leafAt_of_mem_paths pa hu hpa) (splitDot_ne_nil r)
  rw [← h3, leafAt_of_mem_paths pb hu hpb] at this
  cases this

theorem flatten_no_empty_key {t : Tree α} (hu : Uniq t) (hd : DotFreeKeys t) (he : leafAt t [[]] = none) :
    [] ∉ (flatten t).keys := by
  intro h
  obtain ⟨⟨k, v⟩, hm, hk⟩ := List.mem_map.mp h
  simp only at hk; subst hk
  obtain ⟨p, hp, hj⟩ := mem_flatten.mp hm
  have : splitDot [] = p := by rw [← hj, splitDot_joinDot p (paths_ne_nil hp) (paths_dotFree hd hp)]
  rw [← this] at hp
  have := leafAt_of_mem_paths _ hu hp
  simp only [splitDot] at this
  rw [he] at this; cases this

end Tree

/-! ### rebuild -/
section rebuild
variable {α : Type}

/-- one iteration of `ToRecursiveMap` -/
def rstep (out : Tree α) (kv : Bytes × α) : Option (Tree α) :=
  if kv.1 = [] then none else Tree.insert (splitDot kv.1) kv.2 out

theorem rebuild_eq (src : Flat α) : rebuild src = src.foldlM rstep Tree.nil := rfl

/-- the tree built so far holds exactly the entries processed so far -/
def RInv (t : Tree α) (S : Flat α) : Prop :=
  t.Uniq ∧ t.NoEmpty ∧ t.DotFreeKeys ∧ ∀ q v, t.leafAt q = some v ↔ ∃ k, (k, v) ∈ S ∧ q = splitDot k

theorem rebuild_fold (src : Flat α) : ∀ (t : Tree α) (S : Flat α), RInv t S →
    (S ++ src).keys.Nodup → PrefixFree (S ++ src).keys → [] ∉ (S ++ src).keys →
    ∃ t', src.foldlM rstep t = some t' ∧ RInv t' (S ++ src) := by
  induction src with
  | nil => intro t S h _ _ _; exact ⟨t, rfl, by simpa using h⟩
  | cons e src ih =>
    intro t S hinv hn hpf hne
    obtain ⟨k, v⟩ := e
    obtain ⟨hu, hno, hd, hl⟩ := hinv
    have hkmem : k ∈ (S ++ (k, v) :: src).keys := by simp [Flat.keys]
    have hk : k ≠ [] := fun e => hne (e ▸ hkmem)
    have hkS : k ∉ S.keys := by
      have : (S.keys ++ (k :: Flat.keys src)).Nodup := by simpa [Flat.keys] using hn
      rw [List.nodup_append] at this
      intro hm
      exact this.2.2 k hm k List.mem_cons_self rfl
    have memS : ∀ {k' : Bytes} {v' : α}, (k', v') ∈ S → k' ∈ (S ++ (k, v) :: src).keys := by
      intro k' v' h
      exact List.mem_map.mpr ⟨(k', v'), List.mem_append_left _ h, rfl⟩
    obtain ⟨t1, ht1, hu1, hno1, _, hl1, hd1⟩ := Tree.insert_spec (splitDot k) v t (splitDot_ne_nil k) hu hno
      (by
        intro q r hqr hq hr
        cases hq' : t.leafAt q with
        | none => rfl
        | some v' =>
          obtain ⟨k', hk', hqk⟩ := (hl q v').mp hq'
          subst hqk
          exact absurd (splitDot_prefix hr hqr.symm) (hpf k' (memS hk') k hkmem _))
      (by
        intro r
        cases hq' : t.leafAt (splitDot k ++ r) with
        | none => rfl
        | some v' =>
          obtain ⟨k', hk', hqk⟩ := (hl _ v').mp hq'
          by_cases hr : r = []
          · subst hr
            rw [List.append_nil] at hqk
            have := splitDot_inj hqk
            subst this
            exact absurd (List.mem_map.mpr ⟨(k, v'), hk', rfl⟩) hkS
          · exact absurd (splitDot_prefix hr hqk) (hpf k hkmem k' (memS hk') _))
    have hinv1 : RInv t1 (S ++ [(k, v)]) := by
      refine ⟨hu1, hno1, hd1 hd (splitDot_dotFree k), ?_⟩
      intro q v'
      rw [hl1]
      constructor
      · intro h
        by_cases hq : q = splitDot k
        · rw [if_pos hq] at h; cases h
          exact ⟨k, by simp, hq⟩
        · rw [if_neg hq] at h
          obtain ⟨k', hk', hqk⟩ := (hl q v').mp h
          exact ⟨k', List.mem_append_left _ hk', hqk⟩
      · rintro ⟨k', hk', hqk⟩
        rcases List.mem_append.mp hk' with hk' | hk'
        · have : q ≠ splitDot k := by
            intro e; rw [hqk] at e
            have hkk : k' = k := splitDot_inj e
            exact hkS (hkk ▸ List.mem_map.mpr ⟨(k', v'), hk', rfl⟩)
          rw [if_neg this]
          exact (hl q v').mpr ⟨k', hk', hqk⟩
        · simp at hk'; obtain ⟨rfl, rfl⟩ := hk'
          rw [if_pos hqk]
    have happ : (S ++ [(k, v)]) ++ src = S ++ (k, v) :: src := by simp
    obtain ⟨t', ht', hinv'⟩ := ih t1 (S ++ [(k, v)]) hinv1 (happ ▸ hn) (happ ▸ hpf) (happ ▸ hne)
    refine ⟨t', ?_, happ ▸ hinv'⟩
    rw [List.foldlM_cons]
    have : rstep t (k, v) = some t1 := by simp [rstep, hk, ht1]
    rw [this]; exact ht'

theorem rebuild_spec (f : Flat α) (hn : f.keys.Nodup) (hp : PrefixFree f.keys) (he : [] ∉ f.keys) :
    ∃ t, rebuild f = some t ∧ RInv t f := by
  have h0 : RInv (Tree.nil : Tree α) [] := by
    refine ⟨trivial, trivial, trivial, ?_⟩
    intro q v
    rw [Tree.leafAt_nil_tree]
    simp
  obtain ⟨t, ht, hinv⟩ := rebuild_fold f Tree.nil [] h0 (by simpa using hn) (by simpa using hp) (by simpa using he)
  exact ⟨t, ht, by simpa using hinv⟩

end rebuild

end Goat.PlainMap
