/-
Specification-side definitions for property C20 (no lemmas here): the well-formedness predicates the
theorems of `Props/C20.lean` quantify over, map equality, well-formed UTF-8, and JSON documents as
concrete syntax (`CObj`) with the value they denote.  The model these are about is
`Goat/Model/PlainMap.lean`.
-/
import Goat.Model.PlainMap

namespace Goat.PlainMap

/-! ## maps -/

/-- equality of flat maps (as maps, not as write logs) -/
def Flat.Equiv {α : Type} (f g : Flat α) : Prop := ∀ k, f.get k = g.get k

def DotFree (k : Bytes) : Prop := dot ∉ k

/-- no key is another key followed by `.something` -/
def PrefixFree (ks : List Bytes) : Prop := ∀ a ∈ ks, ∀ b ∈ ks, ∀ r, b ≠ a ++ dot :: r

namespace Tree
variable {α : Type}

/-- sibling keys are pairwise different, at every level -/
def Uniq : Tree α → Prop
  | nil => True
  | leaf k _ rest => find? k rest = none ∧ Uniq rest
  | node k c rest => find? k rest = none ∧ Uniq c ∧ Uniq rest

def DotFreeKeys : Tree α → Prop
  | nil => True
  | leaf k _ rest => DotFree k ∧ DotFreeKeys rest
  | node k c rest => DotFree k ∧ DotFreeKeys c ∧ DotFreeKeys rest

/-- no sub-map is empty -/
def NoEmpty : Tree α → Prop
  | nil => True
  | leaf _ _ rest => NoEmpty rest
  | node _ c rest => c ≠ nil ∧ NoEmpty c ∧ NoEmpty rest

/-- the nested maps of the property: key-unique, dot-free keys, no empty sub-maps -/
def WFNested (t : Tree α) : Prop := t.Uniq ∧ t.DotFreeKeys ∧ t.NoEmpty

/-- equality of nested maps without empty sub-maps: the same leaf under every path -/
def Equiv (s t : Tree α) : Prop := ∀ p, s.leafAt p = t.leafAt p

end Tree

/-! ## well-formed UTF-8 (Unicode standard, table 3-7) -/

def Cont (b : Byte) : Prop := 0x80 ≤ b ∧ b ≤ 0xBF

inductive ValidUTF8 : Bytes → Prop
  | nil : ValidUTF8 []
  | ascii (b : Byte) (r : Bytes) : b < 0x80 → ValidUTF8 r → ValidUTF8 (b :: r)
  | two (b0 b1 : Byte) (r : Bytes) : 0xC2 ≤ b0 → b0 ≤ 0xDF → Cont b1 → ValidUTF8 r → ValidUTF8 (b0 :: b1 :: r)
  | threeE0 (b1 b2 : Byte) (r : Bytes) : 0xA0 ≤ b1 → b1 ≤ 0xBF → Cont b2 → ValidUTF8 r →
      ValidUTF8 (0xE0 :: b1 :: b2 :: r)
  | three (b0 b1 b2 : Byte) (r : Bytes) : (0xE1 ≤ b0 ∧ b0 ≤ 0xEC) ∨ (0xEE ≤ b0 ∧ b0 ≤ 0xEF) → Cont b1 → Cont b2 →
      ValidUTF8 r → ValidUTF8 (b0 :: b1 :: b2 :: r)
  | threeED (b1 b2 : Byte) (r : Bytes) : 0x80 ≤ b1 → b1 ≤ 0x9F → Cont b2 → ValidUTF8 r →
      ValidUTF8 (0xED :: b1 :: b2 :: r)
  | fourF0 (b1 b2 b3 : Byte) (r : Bytes) : 0x90 ≤ b1 → b1 ≤ 0xBF → Cont b2 → Cont b3 → ValidUTF8 r →
      ValidUTF8 (0xF0 :: b1 :: b2 :: b3 :: r)
  | four (b0 b1 b2 b3 : Byte) (r : Bytes) : 0xF1 ≤ b0 → b0 ≤ 0xF3 → Cont b1 → Cont b2 → Cont b3 → ValidUTF8 r →
      ValidUTF8 (b0 :: b1 :: b2 :: b3 :: r)
  | fourF4 (b1 b2 b3 : Byte) (r : Bytes) : 0x80 ≤ b1 → b1 ≤ 0x8F → Cont b2 → Cont b3 → ValidUTF8 r →
      ValidUTF8 (0xF4 :: b1 :: b2 :: b3 :: r)

/-! ## JSON documents as concrete syntax

A document is described by how it is written (white space, the spelling chosen for every character of
a string) and denotes a value; `render` gives its bytes.  Quantifying over all well-formed `CObj`
is quantifying over all JSON texts whose top-level value is an object. -/

/-- one element of a string literal -/
inductive SItem where
  | raw (b : Byte)                       -- a byte written as itself
  | esc (c : Byte)                       -- `\c`, c one of `" \ / b f n r t`
  | uni (a b c d : Byte)                 -- backslash u a b c d: four hex digits, not a surrogate code unit
  | pair (a b c d e f g h : Byte)        -- two such escapes: a high and a low surrogate
deriving Repr

def SItem.render : SItem → Bytes
  | .raw b => [b]
  | .esc c => [bsl, c]
  | .uni a b c d => [bsl, 117, a, b, c, d]
  | .pair a b c d e f g h => [bsl, 117, a, b, c, d, bsl, 117, e, f, g, h]

/-- the bytes a string element denotes (UTF-8 of the character) -/
def SItem.val : SItem → Bytes
  | .raw b => [b]
  | .esc c => match simpleEsc c with
    | some x => [x]
    | none => []
  | .uni a b c d => match hex4 a b c d with
    | some cp => encodeRune cp
    | none => []
  | .pair a b c d e f g h => match hex4 a b c d, hex4 e f g h with
    | some hi, some lo => encodeRune (combine hi lo)
    | _, _ => []

def SItem.WF : SItem → Prop
  | .raw b => b ≠ dq ∧ b ≠ bsl
  | .esc c => (simpleEsc c).isSome
  | .uni a b c d => ∃ cp, hex4 a b c d = some cp ∧ isSurrogate cp = false
  | .pair a b c d e f g h => ∃ hi lo, hex4 a b c d = some hi ∧ hex4 e f g h = some lo ∧
      0xD800 ≤ hi ∧ hi ≤ 0xDBFF ∧ 0xDC00 ≤ lo ∧ lo ≤ 0xDFFF

def renderItems (l : List SItem) : Bytes := l.flatMap SItem.render
def valItems (l : List SItem) : Bytes := l.flatMap SItem.val

/-- white space between tokens -/
def WsOK (w : Bytes) : Prop := ∀ b ∈ w, isWs b = true

/-- the inside of a string literal as the block scanner sees it: no unescaped quote -/
inductive StrBody : Bytes → Prop
  | nil : StrBody []
  | chr (b : Byte) (r : Bytes) : b ≠ dq → b ≠ bsl → StrBody r → StrBody (b :: r)
  | esc (c : Byte) (r : Bytes) : StrBody r → StrBody (bsl :: c :: r)

/-- text in which strings are closed and brackets / braces are nested properly (every JSON value
is such a text) -/
inductive Bal : Bytes → Prop
  | nil : Bal []
  | chr (b : Byte) (r : Bytes) : b ≠ dq → b ≠ lbrace → b ≠ rbrace → b ≠ lbrack → b ≠ rbrack → Bal r → Bal (b :: r)
  | str (s r : Bytes) : StrBody s → Bal r → Bal (dq :: s ++ dq :: r)
  | brace (a r : Bytes) : Bal a → Bal r → Bal (lbrace :: a ++ rbrace :: r)
  | brack (a r : Bytes) : Bal a → Bal r → Bal (lbrack :: a ++ rbrack :: r)

def isNumChar (b : Byte) : Bool :=
  inRange 48 57 b || b = 45 || b = 43 || b = 46 || b = 101 || b = 69

/-- a leaf value -/
inductive CLeaf where
  | str (items : List SItem)
  | num (lit : Bytes)           -- a number literal, kept as written
  | other (raw : Bytes)         -- `true`, `false`, `null` or an array
deriving Repr

def CLeaf.render : CLeaf → Bytes
  | .str items => dq :: renderItems items ++ [dq]
  | .num lit => lit
  | .other raw => raw

def CLeaf.WF : CLeaf → Prop
  | .str items => ∀ i ∈ items, i.WF
  | .num lit => (∃ c r, lit = c :: r ∧ (inRange 48 57 c = true ∨ c = 45)) ∧ ∀ b ∈ lit, isNumChar b = true
  | .other raw => raw = litTrue ∨ raw = litFalse ∨ raw = litNull ∨ ∃ a, raw = lbrack :: a ++ [rbrack] ∧ Bal a

/-- the members of an object, in document order.  `w0 … w3`: white space before the key, before the
colon, after the colon, after the value. -/
inductive CObj where
  | nil : CObj
  | leaf (w0 : Bytes) (key : List SItem) (w1 w2 : Bytes) (v : CLeaf) (w3 : Bytes) (rest : CObj) : CObj
  | sub (w0 : Bytes) (key : List SItem) (w1 w2 : Bytes) (wOpen : Bytes) (child : CObj) (w3 : Bytes) (rest : CObj) : CObj
deriving Repr

namespace CObj

def sep : CObj → Bytes
  | nil => []
  | _ => [comma]

/-- the members, comma separated (without the braces) -/
def renderMs : CObj → Bytes
  | nil => []
  | leaf w0 key w1 w2 v w3 rest =>
    w0 ++ dq :: renderItems key ++ dq :: w1 ++ colon :: w2 ++ v.render ++ w3 ++ sep rest ++ renderMs rest
  | sub w0 key w1 w2 wo child w3 rest =>
    w0 ++ dq :: renderItems key ++ dq :: w1 ++ colon :: w2 ++ (lbrace :: wo ++ renderMs child ++ [rbrace]) ++ w3 ++
      sep rest ++ renderMs rest

/-- `{ … }`; `wOpen` is the white space after the opening brace (only an empty object shows it: for a
non-empty one the first member's `w0` follows it) -/
def render (wOpen : Bytes) (o : CObj) : Bytes := lbrace :: wOpen ++ renderMs o ++ [rbrace]

def WF : CObj → Prop
  | nil => True
  | leaf w0 key w1 w2 v w3 rest =>
    WsOK w0 ∧ WsOK w1 ∧ WsOK w2 ∧ WsOK w3 ∧ (∀ i ∈ key, i.WF) ∧ v.WF ∧ WF rest
  | sub w0 key w1 w2 wo child w3 rest =>
    WsOK w0 ∧ WsOK w1 ∧ WsOK w2 ∧ WsOK wo ∧ WsOK w3 ∧ (∀ i ∈ key, i.WF) ∧ WF child ∧ WF rest

/-- the flat map a document denotes: every string leaf with its decoded value and every number leaf
with its literal, under the decoded keys joined by dots; other leaves are skipped.
`pre` is empty at the top and `outer key ++ "."` inside a sub-object. -/
def leaves (pre : Bytes) : CObj → Flat Bytes
  | nil => []
  | leaf _ key _ _ (.str items) _ rest => (pre ++ valItems key, valItems items) :: leaves pre rest
  | leaf _ key _ _ (.num lit) _ rest => (pre ++ valItems key, lit) :: leaves pre rest
  | leaf _ _ _ _ (.other _) _ rest => leaves pre rest
  | sub _ key _ _ _ child _ rest => leaves (pre ++ valItems key ++ [dot]) child ++ leaves pre rest

/-- defect class of KF-C20-1: at the top level an object is stored under the empty key -/
def emptyTopKey : CObj → Prop
  | nil => False
  | leaf _ _ _ _ _ _ rest => emptyTopKey rest
  | sub _ key _ _ _ _ _ rest => valItems key = [] ∨ emptyTopKey rest

end CObj

end Goat.PlainMap
