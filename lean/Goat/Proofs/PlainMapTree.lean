/-
Helper lemmas for C20, part 1: flat maps, dotted keys, `flatten` and `rebuild`.
-/
import Goat.Proofs.PlainMapSpec

namespace Goat.PlainMap

/-! ### Flat.get -/
section flat
variable {α : Type}

theorem Flat.get_cons (k' : Bytes) (v : α) (rest : Flat α) (k : Bytes) :
    Flat.get ((k', v) :: rest) k =
      match Flat.get rest k with
      | some x => some x
      | none => if k' = k then some v else none := rfl

theorem Flat.get_nil (k : Bytes) : Flat.get ([] : Flat α) k = none := rfl

theorem Flat.mem_of_get {f : Flat α} {k : Bytes} {v : α} (h : f.get k = some v) : (k, v) ∈ f := by
  induction f with
  | nil => simp [Flat.get] at h
  | cons e rest ih =>
    obtain ⟨k', v'⟩ := e
    rw [Flat.get_cons] at h
    cases hr : Flat.get rest k with
    | some x => rw [hr] at h; simp at h; subst h; exact List.mem_cons_of_mem _ (ih hr)
    | none =>
      rw [hr] at h
      by_cases hk : k' = k
      · simp [hk] at h; subst h; subst hk; exact List.mem_cons_self
      · simp [hk] at h

theorem Flat.get_isSome_of_mem {f : Flat α} {k : Bytes} {v : α} (h : (k, v) ∈ f) : ∃ v', f.get k = some v' := by
  induction f with
  | nil => cases h
  | cons e rest ih =>
    obtain ⟨k', v'⟩ := e
    rw [Flat.get_cons]
    cases hr : Flat.get rest k with
    | some x => exact ⟨x, rfl⟩
    | none =>
      rcases List.mem_cons.mp h with h | h
      · cases h; exact ⟨v, by simp⟩
      · obtain ⟨w, hw⟩ := ih h; rw [hr] at hw; cases hw

theorem Flat.get_none_of_not_mem {f : Flat α} {k : Bytes} (h : k ∉ f.keys) : f.get k = none := by
  cases hg : f.get k with
  | none => rfl
  | some v => exact absurd (List.mem_map.mpr ⟨(k, v), Flat.mem_of_get hg, rfl⟩) h

theorem Flat.get_append (f g : Flat α) (k : Bytes) :
    (f ++ g).get k = match g.get k with
      | some x => some x
      | none => f.get k := by
  induction f with
  | nil => simp [Flat.get]; cases g.get k <;> rfl
  | cons e rest ih =>
    obtain ⟨k', v'⟩ := e
    rw [List.cons_append, Flat.get_cons, ih, Flat.get_cons]
    cases g.get k <;> rfl

/-- in a map with distinct keys every entry is what `get` finds -/
theorem Flat.get_of_mem_nodup {f : Flat α} (hn : f.keys.Nodup) {k : Bytes} {v : α} (h : (k, v) ∈ f) :
    f.get k = some v := by
  induction f with
  | nil => cases h
  | cons e rest ih =>
    obtain ⟨k', v'⟩ := e
    simp only [Flat.keys, List.map_cons, List.nodup_cons] at hn
    rw [Flat.get_cons]
    rcases List.mem_cons.mp h with h | h
    · cases h
      rw [Flat.get_none_of_not_mem (by simpa [Flat.keys] using hn.1)]; simp
    · rw [ih (by simpa [Flat.keys] using hn.2) h]

end flat

/-! ### splitDot / joinDot -/

theorem splitDot_ne_nil (s : Bytes) : splitDot s ≠ [] := by
  cases s with
  | nil => simp [splitDot]
  | cons c r =>
    rw [splitDot]; split
    · simp
    · split <;> simp

theorem joinDot_cons_cons (a b : Bytes) (rest : List Bytes) :
    joinDot (a :: b :: rest) = a ++ dot :: joinDot (b :: rest) := rfl

theorem joinDot_cons_of_ne {p : List Bytes} (a : Bytes) (h : p ≠ []) : joinDot (a :: p) = a ++ dot :: joinDot p := by
  cases p with
  | nil => exact absurd rfl h
  | cons b rest => rfl

theorem joinDot_splitDot (s : Bytes) : joinDot (splitDot s) = s := by
  induction s with
  | nil => rfl
  | cons c r ih =>
    rw [splitDot]; split
    · next h => rw [joinDot_cons_of_ne _ (splitDot_ne_nil r), ih, h]; rfl
    · split
      · next seg segs hs =>
        rw [hs] at ih
        cases segs with
        | nil => simp [joinDot] at ih ⊢; exact ih
        | cons b rest => rw [joinDot_cons_cons] at ih ⊢; rw [List.cons_append, ih]
      · next hs => exact absurd hs (splitDot_ne_nil r)

theorem splitDot_dotFree (s : Bytes) : ∀ k ∈ splitDot s, DotFree k := by
  induction s with
  | nil => intro k hk; simp [splitDot] at hk; subst hk; simp [DotFree]
  | cons c r ih =>
    intro k hk
    rw [splitDot] at hk; split at hk
    · rcases List.mem_cons.mp hk with h | h
      · subst h; simp [DotFree]
      · exact ih k h
    · next hc =>
      split at hk
      · next seg segs hs =>
        rw [hs] at ih
        rcases List.mem_cons.mp hk with h | h
        · subst h
          have := ih seg List.mem_cons_self
          simp only [DotFree, List.mem_cons, not_or] at this ⊢
          exact ⟨fun e => hc e.symm, this⟩
        · exact ih k (List.mem_cons_of_mem _ h)
      · simp at hk; subst hk
        simp only [DotFree, List.mem_cons, List.not_mem_nil, or_false]
        exact fun e => hc e.symm

theorem splitDot_of_dotFree {k : Bytes} (h : DotFree k) : splitDot k = [k] := by
  induction k with
  | nil => rfl
  | cons c r ih =>
    simp only [DotFree, List.mem_cons, not_or] at h
    rw [splitDot, if_neg (fun e => h.1 e.symm), ih h.2]

theorem splitDot_append_dot (a r : Bytes) (h : DotFree a) : splitDot (a ++ dot :: r) = a :: splitDot r := by
  induction a with
  | nil => simp [splitDot]
  | cons c a ih =>
    simp only [DotFree, List.mem_cons, not_or] at h
    rw [List.cons_append, splitDot, if_neg (fun e => h.1 e.symm), ih h.2]

theorem splitDot_joinDot (p : List Bytes) (hne : p ≠ []) (h : ∀ k ∈ p, DotFree k) : splitDot (joinDot p) = p := by
  induction p with
  | nil => exact absurd rfl hne
  | cons a p ih =>
    cases p with
    | nil => simp [joinDot]; exact splitDot_of_dotFree (h a List.mem_cons_self)
    | cons b rest =>
      rw [joinDot_cons_cons, splitDot_append_dot _ _ (h a List.mem_cons_self),
        ih (by simp) (fun k hk => h k (List.mem_cons_of_mem _ hk))]

theorem joinDot_append {p r : List Bytes} (hp : p ≠ []) (hr : r ≠ []) :
    joinDot (p ++ r) = joinDot p ++ dot :: joinDot r := by
  induction p with
  | nil => exact absurd rfl hp
  | cons a p ih =>
    cases p with
    | nil => simp [joinDot_cons_of_ne a hr, joinDot]
    | cons b rest =>
      rw [List.cons_append, joinDot_cons_of_ne a (by simp), ih (by simp), joinDot_cons_cons]
      simp

/-- a segment list extended by more segments is the key followed by `.more` -/
theorem splitDot_prefix {a b : Bytes} {r : List Bytes} (hr : r ≠ []) (h : splitDot a ++ r = splitDot b) :
    b = a ++ dot :: joinDot r := by
  rw [← joinDot_splitDot b, ← h, joinDot_append (splitDot_ne_nil a) hr, joinDot_splitDot]

theorem splitDot_inj {a b : Bytes} (h : splitDot a = splitDot b) : a = b := by
  rw [← joinDot_splitDot a, h, joinDot_splitDot]

/-! ### trees -/
namespace Tree
variable {α : Type}

theorem find?_put (k k' : Bytes) (e : α ⊕ Tree α) (t : Tree α) :
    find? k' (put k e t) = if k = k' then some e else find? k' t := by
  induction t with
  | nil => cases e <;> simp [put, mk, find?]
  | leaf k0 v rest ih =>
    rw [put]; split
    · next h0 =>
      subst h0
      by_cases hk : k0 = k'
      · cases e <;> simp [mk, find?, hk]
      · cases e <;> simp [mk, find?, hk]
    · next h0 =>
      rw [find?, ih, find?]
      by_cases hk : k = k'
      · subst hk; simp [h0]
      · simp [hk]
  | node k0 c rest _ ih =>
    rw [put]; split
    · next h0 =>
      subst h0
      by_cases hk : k0 = k'
      · cases e <;> simp [mk, find?, hk]
      · cases e <;> simp [mk, find?, hk]
    · next h0 =>
      rw [find?, ih, find?]
      by_cases hk : k = k'
      · subst hk; simp [h0]
      · simp [hk]

theorem put_ne_nil (k : Bytes) (e : α ⊕ Tree α) (t : Tree α) : put k e t ≠ nil := by
  cases t with
  | nil => cases e <;> simp [put, mk]
  | leaf k0 v rest => rw [put]; split <;> cases e <;> simp [mk]
  | node k0 c rest => rw [put]; split <;> cases e <;> simp [mk]

/-- what may be stored as an entry of a good tree -/
def EntryOK (P : Tree α → Prop) (nonempty : Bool) : α ⊕ Tree α → Prop
  | .inl _ => True
  | .inr c => P c ∧ (nonempty = true → c ≠ nil)

theorem uniq_put (k : Bytes) (e : α ⊕ Tree α) (t : Tree α) (ht : Uniq t) (he : ∀ c, e = .inr c → Uniq c) :
    Uniq (put k e t) := by
  induction t with
  | nil => cases e with
    | inl v => simp [put, mk, Uniq, find?]
    | inr c => simp [put, mk, Uniq, find?]; exact he c rfl
  | leaf k0 v rest ih =>
    rw [put]; split
    · next h0 =>
      subst h0
      cases e with
      | inl v' => simp only [mk, Uniq] at ht ⊢; exact ht
      | inr c => simp only [mk, Uniq] at ht ⊢; exact ⟨ht.1, he c rfl, ht.2⟩
    · next h0 =>
      simp only [Uniq] at ht ⊢
      refine ⟨?_, ih ht.2⟩
      rw [find?_put, if_neg (fun e => h0 e.symm)]; exact ht.1
  | node k0 c0 rest _ ih =>
    rw [put]; split
    · next h0 =>
      subst h0
      cases e with
      | inl v' => simp only [mk, Uniq] at ht ⊢; exact ⟨ht.1, ht.2.2⟩
      | inr c => simp only [mk, Uniq] at ht ⊢; exact ⟨ht.1, he c rfl, ht.2.2⟩
    · next h0 =>
      simp only [Uniq] at ht ⊢
      refine ⟨?_, ht.2.1, ih ht.2.2⟩
      rw [find?_put, if_neg (fun e => h0 e.symm)]; exact ht.1

theorem noEmpty_put (k : Bytes) (e : α ⊕ Tree α) (t : Tree α) (ht : NoEmpty t)
    (he : ∀ c, e = .inr c → c ≠ nil ∧ NoEmpty c) : NoEmpty (put k e t) := by
  induction t with
  | nil => cases e with
    | inl v => simp [put, mk, NoEmpty]
    | inr c => simp only [put, mk, NoEmpty]; exact ⟨(he c rfl).1, (he c rfl).2, trivial⟩
  | leaf k0 v rest ih =>
    rw [put]; split
    · cases e with
      | inl v' => simpa only [mk, NoEmpty] using ht
      | inr c => simp only [mk, NoEmpty] at ht ⊢; exact ⟨(he c rfl).1, (he c rfl).2, ht⟩
    · simp only [NoEmpty] at ht ⊢; exact ih ht
  | node k0 c0 rest _ ih =>
    rw [put]; split
    · cases e with
      | inl v' => simp only [mk, NoEmpty] at ht ⊢; exact ht.2.2
      | inr c => simp only [mk, NoEmpty] at ht ⊢; exact ⟨(he c rfl).1, (he c rfl).2, ht.2.2⟩
    · simp only [NoEmpty] at ht ⊢; exact ⟨ht.1, ht.2.1, ih ht.2.2⟩

theorem dotFree_put (k : Bytes) (e : α ⊕ Tree α) (t : Tree α) (ht : DotFreeKeys t) (hk : DotFree k)
    (he : ∀ c, e = .inr c → DotFreeKeys c) : DotFreeKeys (put k e t) := by
  induction t with
  | nil => cases e with
    | inl v => simp [put, mk, DotFreeKeys, hk]
    | inr c => simp only [put, mk, DotFreeKeys]; exact ⟨hk, he c rfl, trivial⟩
  | leaf k0 v rest ih =>
    rw [put]; split
    · cases e with
      | inl v' => simp only [mk, DotFreeKeys] at ht ⊢; exact ⟨hk, ht.2⟩
      | inr c => simp only [mk, DotFreeKeys] at ht ⊢; exact ⟨hk, he c rfl, ht.2⟩
    · simp only [DotFreeKeys] at ht ⊢; exact ⟨ht.1, ih ht.2⟩
  | node k0 c0 rest _ ih =>
    rw [put]; split
    · cases e with
      | inl v' => simp only [mk, DotFreeKeys] at ht ⊢; exact ⟨hk, ht.2.2⟩
      | inr c => simp only [mk, DotFreeKeys] at ht ⊢; exact ⟨hk, he c rfl, ht.2.2⟩
    · simp only [DotFreeKeys] at ht ⊢; exact ⟨ht.1, ht.2.1, ih ht.2.2⟩

/-- properties of the sub-map found under a key -/
theorem find?_node_props {k : Bytes} {t c : Tree α} (h : find? k t = some (.inr c)) :
    (Uniq t → Uniq c) ∧ (NoEmpty t → c ≠ nil ∧ NoEmpty c) ∧ (DotFreeKeys t → DotFreeKeys c) := by
  induction t with
  | nil => simp [find?] at h
  | leaf k0 v rest ih =>
    rw [find?] at h; split at h
    · cases h
    · obtain ⟨a, b, c'⟩ := ih h
      exact ⟨fun hu => a hu.2, fun hn => b hn, fun hd => c' hd.2⟩
  | node k0 c0 rest _ ih =>
    rw [find?] at h; split at h
    · cases h
      exact ⟨fun hu => hu.2.1, fun hn => ⟨hn.1, hn.2.1⟩, fun hd => hd.2.1⟩
    · obtain ⟨a, b, c'⟩ := ih h
      exact ⟨fun hu => a hu.2.2, fun hn => b hn.2.2, fun hd => c' hd.2.2⟩

theorem leafAt_nil_path (t : Tree α) : leafAt t [] = none := by
  cases t <;> rfl

theorem leafAt_single (t : Tree α) (k : Bytes) :
    leafAt t [k] = match find? k t with
      | some (.inl v) => some v
      | _ => none := by
  rw [leafAt]
  cases find? k t with
  | none => rfl
  | some e => cases e <;> rfl

theorem leafAt_cons2 (t : Tree α) (k k2 : Bytes) (p : List Bytes) :
    leafAt t (k :: k2 :: p) = match find? k t with
      | some (.inr c) => leafAt c (k2 :: p)
      | _ => none := by
  rw [leafAt]
  · cases find? k t with
    | none => rfl
    | some e => cases e <;> rfl
  · intro h; cases h

theorem insert_cons2 (k k2 : Bytes) (p : List Bytes) (v : α) (t : Tree α) :
    insert (k :: k2 :: p) v t =
      match t.find? k with
      | none => (insert (k2 :: p) v nil).map fun c => t.put k (.inr c)
      | some (.inr c) => (insert (k2 :: p) v c).map fun c' => t.put k (.inr c')
      | some (.inl _) => none := by
  rw [insert]
  · cases find? k t with
    | none => rfl
    | some e => cases e <;> rfl
  · intro h; cases h

theorem leafAt_nil_tree (p : List Bytes) : leafAt (nil : Tree α) p = none := by
  cases p with
  | nil => rfl
  | cons k p => cases p <;> simp [leafAt, find?]

theorem leafAt_cons_of_ne (t : Tree α) (k : Bytes) {p : List Bytes} (hp : p ≠ []) :
    leafAt t (k :: p) = match find? k t with
      | some (.inr c) => leafAt c p
      | _ => none := by
  cases p with
  | nil => exact absurd rfl hp
  | cons k2 p => exact leafAt_cons2 t k k2 p

/-- a non-empty map without empty sub-maps has a leaf -/
theorem exists_leaf (t : Tree α) (hne : t ≠ nil) (h : NoEmpty t) : ∃ r v, leafAt t r = some v := by
  induction t with
  | nil => exact absurd rfl hne
  | leaf k v rest _ => exact ⟨[k], v, by simp [leafAt_single, find?]⟩
  | node k c rest ihc _ =>
    obtain ⟨r, v, hr⟩ := ihc h.1 h.2.1
    have hrne : r ≠ [] := by intro e; subst e; rw [leafAt_nil_path] at hr; cases hr
    exact ⟨k :: r, v, by rw [leafAt_cons_of_ne _ _ hrne]; simp [find?, hr]⟩

/-- `insert` at a path that is free (nothing at or below it, no leaf on the way) adds exactly that leaf -/
theorem insert_spec (p : List Bytes) (v : α) : ∀ (t : Tree α), p ≠ [] → Uniq t → NoEmpty t →
    (∀ q r, p = q ++ r → q ≠ [] → r ≠ [] → leafAt t q = none) →
    (∀ r, leafAt t (p ++ r) = none) →
    ∃ t', insert p v t = some t' ∧ Uniq t' ∧ NoEmpty t' ∧ t' ≠ nil ∧
      (∀ q, leafAt t' q = if q = p then some v else leafAt t q) ∧
      (DotFreeKeys t → (∀ k ∈ p, DotFree k) → DotFreeKeys t') := by
  induction p with
  | nil => intro t h; exact absurd rfl h
  | cons k p ih =>
    intro t _ hu hn h1 h2
    cases p with
    | nil =>
      -- last segment: the key is absent
      have hfind : find? k t = none := by
        cases hf : find? k t with
        | none => rfl
        | some e =>
          cases e with
          | inl v' => have := h2 []; simp [leafAt_single, hf] at this
          | inr c =>
            obtain ⟨_, hb, _⟩ := find?_node_props hf
            obtain ⟨r, v', hr⟩ := exists_leaf c (hb hn).1 (hb hn).2
            have hrne : r ≠ [] := by intro e; subst e; rw [leafAt_nil_path] at hr; cases hr
            have := h2 r
            rw [List.singleton_append, leafAt_cons_of_ne _ _ hrne, hf] at this
            simp [hr] at this
      refine ⟨put k (.inl v) t, by simp [insert], uniq_put _ _ _ hu (by intro c hc; cases hc),
        noEmpty_put _ _ _ hn (by intro c hc; cases hc), put_ne_nil _ _ _, ?_, ?_⟩
      · intro q
        cases q with
        | nil => simp [leafAt_nil_path]
        | cons k' q' =>
          cases q' with
          | nil =>
            rw [leafAt_single, leafAt_single, find?_put]
            by_cases hk : k = k'
            · subst hk; simp
            · have : ¬ ([k'] = [k]) := by simp; exact fun e => hk e.symm
              simp [hk, this]
          | cons k2 q2 =>
            rw [leafAt_cons2, leafAt_cons2, find?_put]
            by_cases hk : k = k'
            · subst hk; simp [hfind]
            · simp [hk]
      · intro hd hk
        exact dotFree_put _ _ _ hd (hk k List.mem_cons_self) (by intro c hc; cases hc)
    | cons k2 p2 =>
      -- an inner segment: descend into (or create) the sub-map
      have hleafnone : ∀ v', find? k t ≠ some (.inl v') := by
        intro v' hf
        have := h1 [k] (k2 :: p2) rfl (by simp) (by simp)
        simp [leafAt_single, hf] at this
      -- the sub-map to descend into
      have key : ∀ (c : Tree α), Uniq c → NoEmpty c → (DotFreeKeys t → DotFreeKeys c) →
          (∀ q, q ≠ [] → leafAt c q = leafAt t (k :: q)) →
          (find? k t = none ∨ find? k t = some (.inr c)) →
          ((insert (k2 :: p2) v c).map fun c' => put k (.inr c') t) = insert (k :: k2 :: p2) v t →
          ∃ t', insert (k :: k2 :: p2) v t = some t' ∧ Uniq t' ∧ NoEmpty t' ∧ t' ≠ nil ∧
            (∀ q, leafAt t' q = if q = k :: k2 :: p2 then some v else leafAt t q) ∧
            (DotFreeKeys t → (∀ k' ∈ k :: k2 :: p2, DotFree k') → DotFreeKeys t') := by
        intro c huc hnc hdc hlc hfc hins
        obtain ⟨c', hc', huc', hnc', hne', hl', hd'⟩ := ih c (by simp) huc hnc
          (by
            intro q r hqr hq hr
            rw [hlc q hq]
            exact h1 (k :: q) r (by rw [hqr]; rfl) (by simp) hr)
          (by
            intro r
            rw [hlc _ (by simp)]
            exact h2 r)
        refine ⟨put k (.inr c') t, by rw [← hins, hc']; rfl, uniq_put _ _ _ hu (by intro x hx; cases hx; exact huc'),
          noEmpty_put _ _ _ hn (by intro x hx; cases hx; exact ⟨hne', hnc'⟩), put_ne_nil _ _ _, ?_, ?_⟩
        · intro q
          cases q with
          | nil => simp [leafAt_nil_path]
          | cons k' q' =>
            cases q' with
            | nil =>
              rw [leafAt_single, leafAt_single, find?_put]
              by_cases hk : k = k'
              · subst hk
                rcases hfc with hfc | hfc <;> simp [hfc]
              · simp [hk]
            | cons k3 q3 =>
              rw [leafAt_cons2, leafAt_cons2, find?_put]
              by_cases hk : k = k'
              · subst hk
                simp only [if_true]
                rw [hl']
                by_cases hq : k3 :: q3 = k2 :: p2
                · simp [hq]
                · have : ¬ (k :: k3 :: q3 = k :: k2 :: p2) := by simpa using hq
                  rw [if_neg hq, if_neg this, hlc _ (by simp), leafAt_cons2]
              · have : ¬ (k' :: k3 :: q3 = k :: k2 :: p2) := by
                  intro e; injection e with e1 _; exact hk e1.symm
                simp [hk, this]
        · intro hd hk
          exact dotFree_put _ _ _ hd (hk k List.mem_cons_self)
            (by intro x hx; cases hx; exact hd' (hdc hd) (fun k' hk' => hk k' (List.mem_cons_of_mem _ hk')))
      cases hf : find? k t with
      | none =>
        refine key nil trivial trivial (fun _ => trivial) ?_ (Or.inl hf) (by rw [insert_cons2 k k2 p2 v t, hf])
        · intro q hq
          rw [leafAt_nil_tree, leafAt_cons_of_ne _ _ hq, hf]
      | some e =>
        cases e with
        | inl v' => exact absurd hf (hleafnone v')
        | inr c =>
          obtain ⟨ha, hb, hc⟩ := find?_node_props hf
          refine key c (ha hu) (hb hn).2 hc ?_ (Or.inr hf) (by rw [insert_cons2 k k2 p2 v t, hf])
          · intro q hq
            rw [leafAt_cons_of_ne _ _ hq, hf]

end Tree

end Goat.PlainMap
