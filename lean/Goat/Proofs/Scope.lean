/-
Helper lemmas for property C11 (scope close protocol), part 1: what the event machinery
(`trigger`, `addError`, `appendError`, `fire`) changes and what it leaves alone.
Core Lean only (no Mathlib is needed).
-/
import Goat.Model.Scope

namespace Goat.Scope

@[simp] theorem upd_same {α : Type} (f : Nat → α) (i : Nat) (v : α) : upd f i v i = v := by
  simp [upd]

theorem upd_ne {α : Type} (f : Nat → α) {i j : Nat} (v : α) (h : j ≠ i) : upd f i v j = f j := by
  simp [upd, h]

theorem upd_apply {α : Type} (f : Nat → α) (i j : Nat) (v : α) :
    upd f i v j = if j = i then v else f j := rfl

/-! ### `modScp` / `modCtx` -/

@[simp] theorem modScp_ctx (st : State) (s : Nat) (f : Scp → Scp) : (st.modScp s f).ctx = st.ctx := rfl
@[simp] theorem modScp_nScopes (st : State) (s : Nat) (f : Scp → Scp) : (st.modScp s f).nScopes = st.nScopes := rfl
@[simp] theorem modScp_nCtxs (st : State) (s : Nat) (f : Scp → Scp) : (st.modScp s f).nCtxs = st.nCtxs := rfl
@[simp] theorem modScp_nListeners (st : State) (s : Nat) (f : Scp → Scp) :
    (st.modScp s f).nListeners = st.nListeners := rfl
@[simp] theorem modScp_log (st : State) (s : Nat) (f : Scp → Scp) : (st.modScp s f).log = st.log := rfl
@[simp] theorem modScp_trace (st : State) (s : Nat) (f : Scp → Scp) : (st.modScp s f).trace = st.trace := rfl
@[simp] theorem modScp_gates (st : State) (s : Nat) (f : Scp → Scp) : (st.modScp s f).gates = st.gates := rfl
@[simp] theorem modScp_scp_same (st : State) (s : Nat) (f : Scp → Scp) :
    (st.modScp s f).scp s = f (st.scp s) := by simp [State.modScp]
theorem modScp_scp_ne (st : State) {s t : Nat} (f : Scp → Scp) (h : t ≠ s) :
    (st.modScp s f).scp t = st.scp t := by simp [State.modScp, upd_ne _ _ h]
theorem modScp_scp (st : State) (s t : Nat) (f : Scp → Scp) :
    (st.modScp s f).scp t = if t = s then f (st.scp s) else st.scp t := by
  by_cases h : t = s
  · subst h; simp
  · simp [h, modScp_scp_ne st f h]

@[simp] theorem modCtx_scp (st : State) (c : Nat) (f : Ctx → Ctx) : (st.modCtx c f).scp = st.scp := rfl
@[simp] theorem modCtx_nScopes (st : State) (c : Nat) (f : Ctx → Ctx) : (st.modCtx c f).nScopes = st.nScopes := rfl
@[simp] theorem modCtx_nCtxs (st : State) (c : Nat) (f : Ctx → Ctx) : (st.modCtx c f).nCtxs = st.nCtxs := rfl
@[simp] theorem modCtx_nListeners (st : State) (c : Nat) (f : Ctx → Ctx) :
    (st.modCtx c f).nListeners = st.nListeners := rfl
@[simp] theorem modCtx_log (st : State) (c : Nat) (f : Ctx → Ctx) : (st.modCtx c f).log = st.log := rfl
@[simp] theorem modCtx_trace (st : State) (c : Nat) (f : Ctx → Ctx) : (st.modCtx c f).trace = st.trace := rfl
@[simp] theorem modCtx_gates (st : State) (c : Nat) (f : Ctx → Ctx) : (st.modCtx c f).gates = st.gates := rfl
@[simp] theorem modCtx_ctx_same (st : State) (c : Nat) (f : Ctx → Ctx) :
    (st.modCtx c f).ctx c = f (st.ctx c) := by simp [State.modCtx]
theorem modCtx_ctx_ne (st : State) {c d : Nat} (f : Ctx → Ctx) (h : d ≠ c) :
    (st.modCtx c f).ctx d = st.ctx d := by simp [State.modCtx, upd_ne _ _ h]
theorem modCtx_ctx (st : State) (c d : Nat) (f : Ctx → Ctx) :
    (st.modCtx c f).ctx d = if d = c then f (st.ctx c) else st.ctx d := by
  by_cases h : d = c
  · subst h; simp
  · simp [h, modCtx_ctx_ne st f h]

/-! ### `EvStep`: the footprint of the event machinery run by scope `s` -/

/-- `st'` arises from `st` by listener invocations and error appends of scope `s`: the scopes are
untouched; only the context of `s` changes, and only by gaining errors / becoming done -/
structure EvStep (st st' : State) (s : Nat) : Prop where
  scp : st'.scp = st.scp
  nScopes : st'.nScopes = st.nScopes
  nCtxs : st'.nCtxs = st.nCtxs
  nListeners : st'.nListeners = st.nListeners
  ctx_other : ∀ c, c ≠ (st.scp s).ctx → st'.ctx c = st.ctx c
  ctx_parent : ∀ c, (st'.ctx c).parent = (st.ctx c).parent
  ctx_watch : ∀ c, (st'.ctx c).watch = (st.ctx c).watch
  ctx_errors : ∀ c, (st.ctx c).errors ≤ (st'.ctx c).errors
  ctx_done : ∀ c, (st.ctx c).done = true → (st'.ctx c).done = true
  ctx_errdone : ∀ c, (st.ctx c).errors < (st'.ctx c).errors → (st'.ctx c).done = true
  gates : st'.gates = st.gates

theorem EvStep.refl (st : State) (s : Nat) : EvStep st st s :=
  ⟨rfl, rfl, rfl, rfl, fun _ _ => rfl, fun _ => rfl, fun _ => rfl, fun _ => Nat.le_refl _, fun _ h => h,
   fun _ h => absurd h (Nat.lt_irrefl _), rfl⟩

theorem EvStep.trans {a b c : State} {s : Nat} (h1 : EvStep a b s) (h2 : EvStep b c s) : EvStep a c s where
  scp := h2.scp.trans h1.scp
  nScopes := h2.nScopes.trans h1.nScopes
  nCtxs := h2.nCtxs.trans h1.nCtxs
  nListeners := h2.nListeners.trans h1.nListeners
  ctx_other := fun x hx => by
    rw [h2.ctx_other x (by rw [h1.scp]; exact hx), h1.ctx_other x hx]
  ctx_parent := fun x => (h2.ctx_parent x).trans (h1.ctx_parent x)
  ctx_watch := fun x => (h2.ctx_watch x).trans (h1.ctx_watch x)
  ctx_errors := fun x => Nat.le_trans (h1.ctx_errors x) (h2.ctx_errors x)
  ctx_done := fun x hx => h2.ctx_done x (h1.ctx_done x hx)
  ctx_errdone := fun x hx => by
    by_cases h : (a.ctx x).errors < (b.ctx x).errors
    · exact h2.ctx_done x (h1.ctx_errdone x h)
    · have := h1.ctx_errors x
      exact h2.ctx_errdone x (by omega)
  gates := h2.gates.trans h1.gates

theorem evStep_trigger (st : State) (s : Nat) (ev : Ev) (src : Option Nat) :
    EvStep st (st.trigger s ev src).1 s :=
  ⟨rfl, rfl, rfl, rfl, fun _ _ => rfl, fun _ => rfl, fun _ => rfl, fun _ => Nat.le_refl _, fun _ h => h,
   fun _ h => absurd h (Nat.lt_irrefl _), rfl⟩

theorem evStep_addError (st : State) (s : Nat) : EvStep st (st.addError s) s := by
  refine ⟨rfl, rfl, rfl, rfl, ?_, ?_, ?_, ?_, ?_, ?_, rfl⟩
  · intro c hc; simp [State.addError, modCtx_ctx_ne _ _ hc]
  all_goals
    intro c
    simp only [State.addError, modCtx_ctx]
    split <;> simp_all

theorem evStep_setDone (st : State) (s : Nat) : EvStep st (st.setDone s) s := by
  refine ⟨rfl, rfl, rfl, rfl, ?_, ?_, ?_, ?_, ?_, ?_, rfl⟩
  · intro c hc; simp [State.setDone, modCtx_ctx_ne _ _ hc]
  all_goals
    intro c
    simp only [State.setDone, modCtx_ctx]
    split <;> simp_all

theorem evStep_appendError (st : State) (s : Nat) : EvStep st (st.appendError s) s := by
  unfold State.appendError
  have h1 := evStep_addError st s
  have h2 := evStep_trigger (st.addError s) s .error none
  have h12 := h1.trans h2
  simp only []
  split
  · exact h12.trans (evStep_addError _ s)
  · exact h12

theorem evStep_fire (st : State) (s : Nat) (ev : Ev) (src : Option Nat) : EvStep st (st.fire s ev src) s := by
  unfold State.fire
  have h1 := evStep_trigger st s ev src
  simp only []
  split
  · exact h1.trans (evStep_appendError _ s)
  · exact h1

/-! ### the trace of close events -/

theorem closeTrace_of_trace_append (st st' : State) (l : List (Nat × Ev)) (h : st'.trace = st.trace ++ l) (t : Nat) :
    st'.closeTrace t = st.closeTrace t ++ ((l.filter fun e => e.1 == t && e.2.isClose).map (·.2)) := by
  simp [State.closeTrace, h, List.filter_append]

@[simp] theorem trigger_trace (st : State) (s : Nat) (ev : Ev) (src : Option Nat) :
    (st.trigger s ev src).1.trace = st.trace ++ [(s, ev)] := rfl

@[simp] theorem addError_trace (st : State) (s : Nat) : (st.addError s).trace = st.trace := rfl
@[simp] theorem setDone_trace (st : State) (s : Nat) : (st.setDone s).trace = st.trace := rfl

theorem appendError_trace (st : State) (s : Nat) : (st.appendError s).trace = st.trace ++ [(s, .error)] := by
  unfold State.appendError
  simp only []
  split <;> simp

theorem fire_trace (st : State) (s : Nat) (ev : Ev) (src : Option Nat) :
    (st.fire s ev src).trace = st.trace ++ [(s, ev)] ∨
    (st.fire s ev src).trace = st.trace ++ [(s, ev), (s, .error)] := by
  unfold State.fire
  simp only []
  split
  · right; simp [appendError_trace]
  · left; simp

@[simp] theorem closeTrace_addError (st : State) (s t : Nat) : (st.addError s).closeTrace t = st.closeTrace t := rfl
@[simp] theorem closeTrace_setDone (st : State) (s t : Nat) : (st.setDone s).closeTrace t = st.closeTrace t := rfl

@[simp] theorem closeTrace_modScp (st : State) (s t : Nat) (f : Scp → Scp) :
    (st.modScp s f).closeTrace t = st.closeTrace t := rfl

@[simp] theorem closeTrace_modCtx (st : State) (c t : Nat) (f : Ctx → Ctx) :
    (st.modCtx c f).closeTrace t = st.closeTrace t := rfl

@[simp] theorem closeTrace_appendError (st : State) (s t : Nat) :
    (st.appendError s).closeTrace t = st.closeTrace t := by
  rw [closeTrace_of_trace_append st _ _ (appendError_trace st s)]
  have he : Ev.isClose .error = false := rfl
  simp [he]

theorem closeTrace_fire (st : State) (s : Nat) (ev : Ev) (src : Option Nat) (t : Nat) :
    (st.fire s ev src).closeTrace t = st.closeTrace t ++ (if s = t ∧ ev.isClose = true then [ev] else []) := by
  rcases fire_trace st s ev src with h | h
  · rw [closeTrace_of_trace_append st _ _ h]
    by_cases h1 : s = t <;> by_cases h2 : ev.isClose = true <;> simp [h1, h2]
  · rw [closeTrace_of_trace_append st _ _ h]
    have he : Ev.isClose .error = false := rfl
    by_cases h1 : s = t <;> by_cases h2 : ev.isClose = true <;> simp [h1, h2, he]

theorem closeTrace_fire_ne (st : State) {s t : Nat} (ev : Ev) (src : Option Nat) (h : s ≠ t) :
    (st.fire s ev src).closeTrace t = st.closeTrace t := by
  simp [closeTrace_fire, h]

theorem closeTrace_fire_nonclose (st : State) (s : Nat) {ev : Ev} (src : Option Nat) (t : Nat)
    (h : ev.isClose = false) : (st.fire s ev src).closeTrace t = st.closeTrace t := by
  simp [closeTrace_fire, h]

/-! ### field projections through `fire` -/

@[simp] theorem fire_scp (st : State) (s : Nat) (ev : Ev) (src : Option Nat) : (st.fire s ev src).scp = st.scp :=
  (evStep_fire st s ev src).scp
@[simp] theorem fire_nScopes (st : State) (s : Nat) (ev : Ev) (src : Option Nat) :
    (st.fire s ev src).nScopes = st.nScopes := (evStep_fire st s ev src).nScopes
@[simp] theorem fire_nCtxs (st : State) (s : Nat) (ev : Ev) (src : Option Nat) :
    (st.fire s ev src).nCtxs = st.nCtxs := (evStep_fire st s ev src).nCtxs
@[simp] theorem appendError_scp (st : State) (s : Nat) : (st.appendError s).scp = st.scp :=
  (evStep_appendError st s).scp
@[simp] theorem appendError_nScopes (st : State) (s : Nat) : (st.appendError s).nScopes = st.nScopes :=
  (evStep_appendError st s).nScopes
@[simp] theorem appendError_nCtxs (st : State) (s : Nat) : (st.appendError s).nCtxs = st.nCtxs :=
  (evStep_appendError st s).nCtxs
@[simp] theorem addError_scp (st : State) (s : Nat) : (st.addError s).scp = st.scp := rfl
@[simp] theorem addError_nScopes (st : State) (s : Nat) : (st.addError s).nScopes = st.nScopes := rfl
@[simp] theorem addError_nCtxs (st : State) (s : Nat) : (st.addError s).nCtxs = st.nCtxs := rfl
@[simp] theorem setDone_scp (st : State) (s : Nat) : (st.setDone s).scp = st.scp := rfl
@[simp] theorem setDone_nScopes (st : State) (s : Nat) : (st.setDone s).nScopes = st.nScopes := rfl
@[simp] theorem setDone_nCtxs (st : State) (s : Nat) : (st.setDone s).nCtxs = st.nCtxs := rfl

/-- after `addError` the context of `s` holds an error and is done -/
theorem addError_hasErr (st : State) (s : Nat) :
    ((st.addError s).ctx (st.scp s).ctx).errors ≠ 0 ∧ ((st.addError s).ctx (st.scp s).ctx).done = true := by
  simp [State.addError]

/-! ### the triggers of `Close` (listeners may be gated) -/

/-- logging listener invocations and recording a `Trigger` call touch neither scopes nor contexts -/
theorem evStep_log (st : State) (s : Nat) (es : List Entry) : EvStep st { st with log := st.log ++ es } s :=
  ⟨rfl, rfl, rfl, rfl, fun _ _ => rfl, fun _ => rfl, fun _ => rfl, fun _ => Nat.le_refl _, fun _ h => h,
   fun _ h => absurd h (Nat.lt_irrefl _), rfl⟩

theorem evStep_traceApp (st : State) (s : Nat) (l : List (Nat × Ev)) :
    EvStep st { st with trace := st.trace ++ l } s :=
  ⟨rfl, rfl, rfl, rfl, fun _ _ => rfl, fun _ => rfl, fun _ => rfl, fun _ => Nat.le_refl _, fun _ h => h,
   fun _ h => absurd h (Nat.lt_irrefl _), rfl⟩

theorem evStep_appendError_from_add (st : State) (s : Nat) : EvStep (st.addError s) (st.appendError s) s := by
  unfold State.appendError
  have h2 := evStep_trigger (st.addError s) s .error none
  simp only []
  split
  · exact h2.trans (evStep_addError _ s)
  · exact h2

/-- after `Scope.appendError` the context of `s` holds an error -/
theorem appendError_hasErr (st : State) (s : Nat) : ((st.appendError s).ctx (st.scp s).ctx).errors ≠ 0 := by
  have h1 := (addError_hasErr st s).1
  have h2 := (evStep_appendError_from_add st s).ctx_errors (st.scp s).ctx
  omega

/-- what one piece of a trigger of `Close` of scope `s` does: listener invocations and at most one
`Scope.appendError` (an `EvStep`), then the record of `s` notes that the goroutine parked, or that
the trigger ended (next phase; a returned error is in the context by then) -/
inductive TrigStep (st : State) (s : Nat) : State → Prop where
  | parked (st1 : State) (p : Park) (e : EvStep st st1 s) :
      TrigStep st s (st1.modScp s fun x => { x with park := some p })
  | ended (st1 : State) (failed : Bool) (e : EvStep st st1 s)
      (herr : failed = true → (st1.ctx (st.scp s).ctx).errors ≠ 0) :
      TrigStep st s (st1.modScp s fun x =>
        { x with phase := x.phase.next, park := none, lfail := failed || x.lfail })

theorem TrigStep.of_evStep {st sta st' : State} {s : Nat} (e : EvStep st sta s) (t : TrigStep sta s st') :
    TrigStep st s st' := by
  cases t with
  | parked st1 p e1 => exact .parked st1 p (e.trans e1)
  | ended st1 failed e1 herr => exact .ended st1 failed (e.trans e1) (by rw [← e.scp]; exact herr)

theorem trigStep_endTrigger (st : State) (s : Nat) (failed : Bool) : TrigStep st s (st.endTrigger s failed) := by
  unfold State.endTrigger
  refine .ended _ failed ?_ ?_
  · cases failed
    · exact EvStep.refl st s
    · exact evStep_appendError st s
  · intro hf; subst hf; exact appendError_hasErr st s

theorem trigStep_applyTrig (st : State) (s : Nat) (r : List Entry × TrigRes) : TrigStep st s (st.applyTrig s r) := by
  unfold State.applyTrig
  split
  · exact (trigStep_endTrigger _ s _).of_evStep (evStep_log st s r.1)
  · exact .parked _ _ (evStep_log st s r.1)

theorem trigStep_startTrigger (st : State) (s : Nat) (ev : Ev) : TrigStep st s (st.startTrigger s ev) := by
  unfold State.startTrigger
  exact (trigStep_applyTrig _ s _).of_evStep (evStep_traceApp st s _)

theorem trigStep_resumeTrigger (st : State) (s : Nat) (ev : Ev) (p : Park) :
    TrigStep st s (st.resumeTrigger s ev p) := by
  unfold State.resumeTrigger
  split
  · exact trigStep_endTrigger st s true
  · split
    · exact trigStep_applyTrig st s _
    · exact trigStep_applyTrig st s _

/-- close events are recorded when a trigger starts, nothing else of a trigger is a close event -/
theorem closeTrace_endTrigger (st : State) (s : Nat) (failed : Bool) (t : Nat) :
    (st.endTrigger s failed).closeTrace t = st.closeTrace t := by
  unfold State.endTrigger
  cases failed <;> simp

theorem closeTrace_applyTrig (st : State) (s : Nat) (r : List Entry × TrigRes) (t : Nat) :
    (st.applyTrig s r).closeTrace t = st.closeTrace t := by
  unfold State.applyTrig
  split
  · rw [closeTrace_endTrigger]; rfl
  · rfl

theorem closeTrace_startTrigger (st : State) (s : Nat) (ev : Ev) (t : Nat) :
    (st.startTrigger s ev).closeTrace t = st.closeTrace t ++ (if s = t ∧ ev.isClose = true then [ev] else []) := by
  unfold State.startTrigger
  rw [closeTrace_applyTrig]
  rw [closeTrace_of_trace_append st { st with trace := st.trace ++ [(s, ev)] } [(s, ev)] rfl]
  by_cases h1 : s = t <;> by_cases h2 : ev.isClose = true <;> simp [h1, h2]

theorem closeTrace_resumeTrigger (st : State) (s : Nat) (ev : Ev) (p : Park) (t : Nat) :
    (st.resumeTrigger s ev p).closeTrace t = st.closeTrace t := by
  unfold State.resumeTrigger
  split
  · exact closeTrace_endTrigger st s true t
  · split <;> exact closeTrace_applyTrig st s _ t

/-! ### the phases -/

theorem evOf_facts {ph : Phase} {rb : Bool} {ev : Ev} (h : evOf ph rb = some ev) :
    ph.live = true ∧ ph.next.live = true ∧ ph ≠ .opened ∧ ph.next ≠ .opened ∧
      (ph.next.waited = true → ph.waited = true) ∧ ph.next.idx = ph.idx + 1 ∧ ev.isClose = true ∧
      (fullSeq rb).take (ph.idx + 1) = (fullSeq rb).take ph.idx ++ [ev] ∧
      (ph.waited = false → ph = .begun) := by
  cases ph <;> cases rb <;> simp [evOf] at h <;> subst h <;> decide

/-- before `Wait()` has returned the events fired do not depend on the branch -/
theorem closeSeq_unwaited {ph : Phase} (h : ph.waited = false) (rb rb' : Bool) {pk : Bool}
    (hp : pk = true → ph = .begun) : closeSeq ph rb pk = closeSeq ph rb' pk := by
  cases pk
  · cases ph <;> cases rb <;> cases rb' <;> first | rfl | (exact absurd h (by decide))
  · rw [hp rfl]; cases rb <;> cases rb' <;> rfl

end Goat.Scope
