/-
Helper lemmas for property C11, part 5: the moment `Wait()` returns (`pick`), what a scope that has
signed off looks like, and how a `Close` reports.
-/
import Goat.Proofs.ScopeGate

namespace Goat.Scope

theorem closeSeq_prefix (ph : Phase) (rb pk : Bool) : closeSeq ph rb pk <+: fullSeq rb :=
  List.take_prefix _ _

theorem closeSeq_done {ph : Phase} (h : ph.live = false) (rb : Bool) : closeSeq ph rb false = fullSeq rb := by
  cases ph <;> cases rb <;> first | rfl | cases h

theorem closeSeq_finished (rb : Bool) : closeSeq .finished rb false = fullSeq rb := by cases rb <;> rfl

/-- a scope that has signed off: its goroutine is in no listener and it has fired everything -/
theorem signed_off_facts {st : State} (h : Inv st) {c : Nat} (hl : (st.scp c).phase.live = false) :
    (st.scp c).park = none ∧ st.closeTrace c = fullSeq (st.scp c).rolled := by
  have hpk : (st.scp c).park = none :=
    h.x.park_none (by revert hl; cases (st.scp c).phase <;> simp [Phase.live, evOf])
  refine ⟨hpk, ?_⟩
  rw [h.order c, hpk]
  exact closeSeq_done hl _

/-- the act ends the wait of `s`: the coarse `finish`, or the step of a goroutine sitting in `Wait()` -/
def IsPick (st : State) (a : Act) (s : Nat) : Prop :=
  a = .finish s ∨ (a = .step s ∧ (st.scp s).phase = .closing)

/-- when the wait of `s` ends: nothing is outstanding, the branch is chosen by the error state of
that moment and never changes, the rest of the act only moves the goroutine of `s` forward -/
theorem pick_facts {st st' : State} {a : Act} {s : Nat} {o : Outcome} (h : Inv st) (hp : IsPick st a s)
    (he : exec st a = some (st', o)) :
    s < st.nScopes ∧ (st.scp s).phase = .closing ∧ (st.scp s).wg = 0 ∧ (st.scp s).kids = [] ∧
      (st.scp s).dones = (st.scp s).adds ∧ Inv (st.pick s) ∧ Mono (st.pick s) st' ∧
      (st'.scp s).phase.waited = true ∧ (st'.scp s).rolled = st.hasErr s := by
  have key : ∀ (hs : s < st.nScopes) (hph : (st.scp s).phase = .closing) (hpk : (st.scp s).park = none)
      (hwg : (st.scp s).wg = 0) (m : Inv (st.pick s) → Mono (st.pick s) st'),
      s < st.nScopes ∧ (st.scp s).phase = .closing ∧ (st.scp s).wg = 0 ∧ (st.scp s).kids = [] ∧
      (st.scp s).dones = (st.scp s).adds ∧ Inv (st.pick s) ∧ Mono (st.pick s) st' ∧
      (st'.scp s).phase.waited = true ∧ (st'.scp s).rolled = st.hasErr s := by
    intro hs hph hpk hwg m
    have hI := inv_pick h hs hpk hph hwg
    have h1 := h.s.wgEq s
    have h2 := h.s.donesLe s
    rw [hwg] at h1
    have hk : (st.scp s).kids = [] := List.eq_nil_of_length_eq_zero (by omega)
    have hm := m hI
    have hw := hm.waited s (by simpa [State.pick] using hs) (by simp [State.pick, Phase.waited])
    refine ⟨hs, hph, hwg, hk, by omega, hI, hm, hw.1, ?_⟩
    rw [hw.2]; simp [State.pick]
  rcases hp with hp | ⟨hp, hph⟩ <;> subst hp
  · obtain ⟨hs, hph, hpk, hwg, hr⟩ := exec_finish_inv he
    refine key hs hph hpk hwg (fun hI => ?_)
    have := mono_runSteps hI (by simpa [State.pick] using hs) 7
    rw [← hr] at this; exact this
  · obtain ⟨hs, hm⟩ := exec_step_inv he
    have hpk : (st.scp s).park = none := h.x.park_none (by rw [hph]; rfl)
    obtain ⟨hwg, hr⟩ := micro_closing hph hpk hm
    refine key hs hph hpk hwg (fun _ => ?_)
    have : st' = st.pick s := by cases hr; rfl
    rw [this]; exact Mono.refl _

/-- a `Close` that returns: which act, from where -/
theorem closed_facts {st st' : State} {a : Act} {s : Nat} {e : Bool} (h : Inv st)
    (ha : a = .finish s ∨ a = .step s) (he : exec st a = some (st', .closed e)) :
    e = st'.hasErr s ∧ (st'.scp s).result = some e ∧ (st'.scp s).phase = .finished ∧
      ((st'.scp s).rolled = true → e = true) ∧ ((st'.scp s).lfail = true → e = true) := by
  rcases ha with ha | ha <;> subst ha
  · obtain ⟨hs, hph, hpk, hwg, hr⟩ := exec_finish_inv he
    have hI := inv_pick h hs hpk hph hwg
    have hout := runSteps_out (P := fun x => Inv x ∧ s < x.nScopes) (s := s)
      (fun a b o ha hm => ⟨inv_micro ha.1 ha.2 hm, by rw [microCase_nScopes (micro_cases hm)]; exact ha.2⟩)
      7 (st.pick s) ⟨hI, by simpa [State.pick] using hs⟩
    rw [← hr] at hout
    rcases hout.2 with h0 | ⟨stp, e', hP, hm, he'⟩
    · cases h0
    · simp only [Outcome.closed.injEq] at he'
      subst he'
      have := micro_closed hP.1 hm
      exact ⟨this.1, this.2.1, this.2.2.1, this.2.2.2.2.1, this.2.2.2.2.2⟩
  · obtain ⟨_, hm⟩ := exec_step_inv he
    have := micro_closed h hm
    exact ⟨this.1, this.2.1, this.2.2.1, this.2.2.2.2.1, this.2.2.2.2.2⟩

/-- the coarse `finish` either returns from `Close` or leaves the goroutine unable to move (parked) -/
theorem finish_ok_or_closed {st st' : State} {s : Nat} {o : Outcome}
    (he : exec st (.finish s) = some (st', o)) : o = .ok ∨ ∃ e, o = .closed e := by
  obtain ⟨hs, hph, hpk, hwg, hr⟩ := exec_finish_inv he
  have hout := runSteps_out (P := fun _ => True) (s := s) (fun _ _ _ _ _ => trivial) 7 (st.pick s) trivial
  rw [← hr] at hout
  rcases hout.2 with h0 | ⟨_, e, _, _, he'⟩
  · exact Or.inl h0
  · exact Or.inr ⟨e, he'⟩

/-- the events of a scope whose wait has ended follow the branch chosen then, in every later state -/
theorem trace_follows_pick {st : State} (h : Inv st) {s : Nat} (hs : s < st.nScopes)
    (hw : (st.scp s).phase.waited = true) (rest : List Act) :
    ((runFrom st rest).scp s).rolled = (st.scp s).rolled ∧
      (runFrom st rest).closeTrace s <+: fullSeq (st.scp s).rolled ∧
      (((runFrom st rest).scp s).phase.live = false → (runFrom st rest).closeTrace s = fullSeq (st.scp s).rolled) := by
  have m := (mono_runFrom h rest).waited s hs hw
  have hI := inv_runFrom h rest
  refine ⟨m.2, ?_, ?_⟩
  · rw [hI.order s, m.2]; exact closeSeq_prefix _ _ _
  · intro hl
    rw [(signed_off_facts hI hl).2, m.2]

/-- a close event of the triple in the trace: the wait has ended -/
theorem waited_of_triple {st : State} (h : Inv st) {s : Nat}
    (hf : Ev.beforeCommit ∈ st.closeTrace s ∨ Ev.beforeRollback ∈ st.closeTrace s) :
    (st.scp s).phase.waited = true := by
  rw [h.order s] at hf
  have hp := h.x.parkOk s
  revert hf hp
  cases (st.scp s).phase <;> cases (st.scp s).rolled <;> cases (st.scp s).park.isSome <;>
    simp [closeSeq, fullSeq, commitTriple, rollbackTriple, Phase.idx, Phase.waited, evOf]

/-! ### ungated listeners: a trigger of `Close` is the atomic `fire` of the earlier model -/

theorem runListeners_append (ev : Ev) (src : Option Nat) (a b : List Listener) :
    runListeners ev src (a ++ b) =
      if (runListeners ev src a).2 then runListeners ev src a
      else ((runListeners ev src a).1 ++ (runListeners ev src b).1, (runListeners ev src b).2) := by
  induction a with
  | nil => simp [runListeners]
  | cons l rest ih =>
    simp only [List.cons_append, runListeners]
    by_cases h1 : l.ev = ev
    · by_cases h2 : l.fails = true
      · simp [h1, h2]
      · simp only [h1, h2, if_true, if_false, Bool.false_eq_true]
        rw [ih]
        split <;> simp_all
    · simp only [h1, if_false]; exact ih

theorem runList_ungated (gates : Nat → Bool) (ev : Ev) (src : Option Nat) (owner : Nat) (todo : List Nat)
    (ls : List Listener) (h : ∀ l ∈ ls, l.gate = none) :
    runList gates ev src owner todo ls =
      ((runListeners ev src ls).1, if (runListeners ev src ls).2 then some (.done true) else none) := by
  induction ls with
  | nil => simp [runList, runListeners]
  | cons l rest ih =>
    have hl : l.gate = none := h l List.mem_cons_self
    have ih' := ih (fun x hx => h x (List.mem_cons_of_mem _ hx))
    simp only [runList, runListeners, hl]
    by_cases h1 : l.ev = ev
    · by_cases h2 : l.fails = true
      · simp [h1, h2]
      · simp only [h1, h2, if_true, if_false, Bool.false_eq_true]
        rw [ih']
    · simp only [h1, if_false]; exact ih'

theorem runChain_ungated (st : State) (ev : Ev) (src : Option Nat) (path : List Nat)
    (h : ∀ a ∈ path, ∀ l ∈ (st.scp a).listeners, l.gate = none) :
    st.runChain ev src path =
      ((runListeners ev src (path.flatMap fun a => (st.scp a).listeners)).1,
       .done (runListeners ev src (path.flatMap fun a => (st.scp a).listeners)).2) := by
  induction path with
  | nil => simp [State.runChain, runListeners]
  | cons a todo ih =>
    have ih' := ih (fun x hx => h x (List.mem_cons_of_mem _ hx))
    simp only [State.runChain, List.flatMap_cons]
    rw [runList_ungated _ _ _ _ _ _ (h a List.mem_cons_self), runListeners_append]
    by_cases hf : (runListeners ev src (st.scp a).listeners).2 = true
    · simp [hf]
    · simp only [hf, if_false, Bool.false_eq_true]
      rw [ih']

/-- no listener on the chain of `s` is gated -/
def State.ungatedChain (st : State) (s : Nat) : Prop :=
  ∀ a ∈ (st.scp s).path, ∀ l ∈ (st.scp a).listeners, l.gate = none

/-- with ungated listeners a trigger of `Close` never parks: it is `scp.appendError(scp.Trigger(ev, scp))`
in one piece, followed by the move of the program counter -/
theorem startTrigger_ungated (st : State) (s : Nat) (ev : Ev) (h : st.ungatedChain s) :
    st.startTrigger s ev =
      (st.fire s ev (some s)).modScp s fun x =>
        { x with phase := x.phase.next, park := none, lfail := (st.trigger s ev (some s)).2 || x.lfail } := by
  unfold State.startTrigger
  have hc := runChain_ungated { st with trace := st.trace ++ [(s, ev)] } ev (some s) (st.scp s).path h
  simp only [] at hc ⊢
  rw [hc]
  simp only [State.applyTrig, State.endTrigger, State.fire, State.trigger, State.chainListeners]
  rfl

end Goat.Scope
