/- Invariant of the concurrent-closers system with an atomic test-and-set (helper of Props/C11). -/
import Goat.Model.ScopeClosers

namespace Goat.Closers

/-- nobody is between test and set; either nobody has called yet, or there is exactly one winner `w`
whose progress `i` accounts for everything fired, and everybody else is idle or refused -/
structure Inv (st : St) : Prop where
  open_ : st.closed = false → st.fired = [] ∧ ∀ g, st.pc g = .idle
  closed_ : st.closed = true → ∃ w i, i ≤ protoLen ∧ (st.pc w).progress = some i ∧ st.fired = List.range i ∧
      ∀ g, g ≠ w → st.pc g = .idle ∨ st.pc g = .refused

theorem inv_init : Inv {} :=
  ⟨fun _ => ⟨rfl, fun _ => rfl⟩, fun h => by cases h⟩

theorem setPc_same (st : St) (g : Nat) (p : Pc) : (st.setPc g p).pc g = p := by simp [St.setPc]

theorem setPc_ne (st : St) {g h : Nat} (p : Pc) (hne : h ≠ g) : (st.setPc g p).pc h = st.pc h := by
  simp [St.setPc, hne]

theorem inv_step {st : St} (h : Inv st) (g : Nat) : Inv (step true st g) := by
  unfold step
  cases hpc : st.pc g with
  | idle =>
    simp only
    cases hc : st.closed with
    | true =>
      simp only [if_true]
      obtain ⟨w, i, hi, hw, hf, ho⟩ := h.closed_ hc
      have hgw : g ≠ w := by
        intro e; subst e; rw [hpc] at hw; cases hw
      refine ⟨fun hcl => ?_, fun _ => ⟨w, i, hi, ?_, hf, fun x hx => ?_⟩⟩
      · have : st.closed = false := hcl
        rw [hc] at this; cases this
      · rw [setPc_ne _ _ (Ne.symm hgw)]; exact hw
      · by_cases hxg : x = g
        · subst hxg; right; exact setPc_same _ _ _
        · rw [setPc_ne _ _ hxg]; exact ho x hx
    | false =>
      simp only [Bool.false_eq_true, if_false, if_true]
      obtain ⟨hf, hidle⟩ := h.open_ hc
      refine ⟨fun hcl => (by simp [St.setPc] at hcl), fun _ => ⟨g, 0, Nat.zero_le _, ?_, ?_, fun x hx => ?_⟩⟩
      · rw [setPc_same]; rfl
      · exact hf
      · left; rw [setPc_ne _ _ hx]; exact hidle x
  | tested =>
    exfalso
    cases hc : st.closed with
    | true =>
      obtain ⟨w, i, _, hw, _, ho⟩ := h.closed_ hc
      by_cases e : g = w
      · subst e; rw [hpc] at hw; cases hw
      · rcases ho g e with h1 | h1 <;> rw [hpc] at h1 <;> cases h1
    | false =>
      have := (h.open_ hc).2 g
      rw [hpc] at this; cases this
  | run i =>
    simp only
    by_cases hi : i < protoLen
    · simp only [hi, if_true]
      cases hc : st.closed with
      | false =>
        have := (h.open_ hc).2 g
        rw [hpc] at this; cases this
      | true =>
        obtain ⟨w, j, _, hw, hf, ho⟩ := h.closed_ hc
        have hgw : g = w := by
          by_cases e : g = w
          · exact e
          · rcases ho g e with h1 | h1 <;> rw [hpc] at h1 <;> cases h1
        subst hgw
        rw [hpc] at hw
        have hji : j = i := by simp [Pc.progress] at hw; exact hw.symm
        subst hji
        refine ⟨fun hcl => ?_, fun _ => ⟨g, j + 1, hi, ?_, ?_, fun x hx => ?_⟩⟩
        · simp [St.setPc] at hcl
        · rw [setPc_same]
          by_cases hl : j + 1 = protoLen
          · simp [hl, Pc.progress]
          · simp [hl, Pc.progress]
        · show st.fired ++ [j] = List.range (j + 1)
          rw [hf, List.range_succ]
        · rw [setPc_ne _ _ hx]; exact ho x hx
    · simp only [hi, if_false]; exact h
  | refused => exact h
  | done => exact h

theorem inv_run (sched : List Nat) : Inv (run true sched) := by
  unfold run
  suffices ∀ st, Inv st → Inv (sched.foldl (step true) st) from this _ inv_init
  induction sched with
  | nil => intro st h; exact h
  | cons g rest ih => intro st h; exact ih _ (inv_step h g)

theorem range_prefix {i n : Nat} (h : i ≤ n) : List.range i <+: List.range n := by
  refine ⟨(List.range (n - i)).map (i + ·), ?_⟩
  rw [← List.range_add]
  congr 1
  omega

theorem fired_prefix {st : St} (h : Inv st) : st.fired <+: List.range protoLen := by
  cases hc : st.closed with
  | false => rw [(h.open_ hc).1]; exact List.nil_prefix
  | true =>
    obtain ⟨_, i, hi, _, hf, _⟩ := h.closed_ hc
    rw [hf]; exact range_prefix hi

theorem done_fired_all {st : St} (h : Inv st) {g : Nat} (hd : st.pc g = .done) : st.fired = List.range protoLen := by
  cases hc : st.closed with
  | false =>
    have := (h.open_ hc).2 g
    rw [hd] at this; cases this
  | true =>
    obtain ⟨w, i, _, hw, hf, ho⟩ := h.closed_ hc
    by_cases e : g = w
    · subst e; rw [hd] at hw
      have : i = protoLen := by simp [Pc.progress] at hw; exact hw.symm
      rw [hf, this]
    · rcases ho g e with h1 | h1 <;> rw [hd] at h1 <;> cases h1

theorem winner_unique {st : St} (h : Inv st) {g : Nat} (hg : (st.pc g).runs = true) :
    ∀ x, x ≠ g → st.pc x = .idle ∨ st.pc x = .refused := by
  cases hc : st.closed with
  | false =>
    have := (h.open_ hc).2 g
    rw [this] at hg; cases hg
  | true =>
    obtain ⟨w, i, _, hw, hf, ho⟩ := h.closed_ hc
    by_cases e : g = w
    · subst e; exact ho
    · rcases ho g e with h1 | h1 <;> rw [h1] at hg <;> cases hg

theorem not_tested {st : St} (h : Inv st) (g : Nat) : st.pc g ≠ .tested := by
  intro ht
  cases hc : st.closed with
  | false =>
    have := (h.open_ hc).2 g
    rw [ht] at this; cases this
  | true =>
    obtain ⟨w, i, _, hw, _, ho⟩ := h.closed_ hc
    by_cases e : g = w
    · subst e; rw [ht] at hw; cases hw
    · rcases ho g e with h1 | h1 <;> rw [ht] at h1 <;> cases h1

end Goat.Closers
