/-
Helper lemmas for property C11, part 4: a goroutine parked inside a gated listener takes no lock any
other goroutine needs — which acts are enabled does not depend on the `park` field of a scope,
except for that scope's own closing goroutine and `On` on the event scope that owns the listener.
-/
import Goat.Proofs.ScopeProps

namespace Goat.Scope

/-- when the closing goroutine of a scope with record `x` can move -/
def menabled (x : Scp) (gates : Nat → Bool) : Bool :=
  match x.park with
  | some p => gates p.gate && (evOf x.phase x.rolled).isSome
  | none =>
    (evOf x.phase x.rolled).isSome ||
      (x.phase == .closing && x.wg == 0) || x.phase == .signing || x.phase == .signed

theorem micro_isSome (st : State) (s : Nat) : (micro st s).isSome = menabled (st.scp s) st.gates := by
  unfold micro menabled
  cases hp : (st.scp s).park with
  | some p =>
    simp only []
    cases hg : st.gates p.gate <;> cases he : evOf (st.scp s).phase (st.scp s).rolled <;> simp
  | none =>
    simp only []
    cases he : evOf (st.scp s).phase (st.scp s).rolled with
    | some ev => simp
    | none =>
      cases hph : (st.scp s).phase <;> simp [hph, evOf] at he ⊢
      by_cases hw : (st.scp s).wg = 0 <;> simp [hw]

theorem isSome_ite {α : Type} (c : Prop) [Decidable c] {a b a' b' : Option α} (h1 : a.isSome = a'.isSome)
    (h2 : b.isSome = b'.isSome) : (if c then a else b).isSome = (if c then a' else b').isSome := by
  split <;> assumption

/-- the same state with the closing goroutine of `c` not inside a listener -/
def State.unpark (st : State) (c : Nat) : State := st.modScp c fun x => { x with park := none }

theorem unpark_scp_ne (st : State) {c t : Nat} (h : t ≠ c) : (st.unpark c).scp t = st.scp t :=
  modScp_scp_ne st _ h

theorem busy_unpark {st : State} {c : Nat} {pk : Park} (hp : (st.scp c).park = some pk) {s : Nat}
    (hs : s ≠ pk.owner) : (st.unpark c).busy s = st.busy s := by
  unfold State.busy
  show (List.range st.nScopes).any _ = _
  congr 1
  funext t
  by_cases ht : t = c
  · subst ht
    simp only [State.unpark, modScp_scp_same, hp]
    have : (pk.owner == s) = false := by simpa using fun e => hs e.symm
    rw [this]
  · rw [unpark_scp_ne st ht]

/-- the guards of every act other than the own goroutine's steps and `On` on the owner of the running
listener read nothing a parked goroutine holds -/
theorem enabled_unpark {st : State} {c : Nat} {pk : Park} (hp : (st.scp c).park = some pk) (a : Act)
    (h1 : a ≠ .step c) (h2 : a ≠ .finish c) (h3 : ∀ ev f, a ≠ .on pk.owner ev f)
    (h4 : ∀ ev f g, a ≠ .onGated pk.owner ev f g) :
    (exec st a).isSome = (exec (st.unpark c) a).isSome := by
  have hfield : ∀ t, ((st.unpark c).scp t).phase = (st.scp t).phase ∧ ((st.unpark c).scp t).wg = (st.scp t).wg ∧
      ((st.unpark c).scp t).dones = (st.scp t).dones ∧ ((st.unpark c).scp t).adds = (st.scp t).adds ∧
      ((st.unpark c).scp t).ctx = (st.scp t).ctx := by
    intro t
    by_cases ht : t = c
    · subst ht; simp [State.unpark]
    · rw [unpark_scp_ne st ht]; exact ⟨rfl, rfl, rfl, rfl, rfl⟩
  have hdone : ∀ t, (st.unpark c).isDone t = st.isDone t := by
    intro t; simp only [State.isDone, State.ctxOf, (hfield t).2.2.2.2]; rfl
  have hn : (st.unpark c).nScopes = st.nScopes := rfl
  have hnc : (st.unpark c).nCtxs = st.nCtxs := rfl
  have hcx : (st.unpark c).ctx = st.ctx := rfl
  cases a with
  | new => rfl
  | child p iso =>
    simp only [exec, execWith, (hfield p).1, hn]
    exact isSome_ite _ rfl rfl
  | on s ev fails =>
    have hs : s ≠ pk.owner := fun e => h3 ev fails (by rw [e])
    simp only [exec, execWith, (hfield s).1, busy_unpark hp hs, hn]
    exact isSome_ite _ (isSome_ite _ rfl (isSome_ite _ rfl rfl)) rfl
  | onGated s ev fails g =>
    have hs : s ≠ pk.owner := fun e => h4 ev fails g (by rw [e])
    simp only [exec, execWith, (hfield s).1, busy_unpark hp hs, hn]
    exact isSome_ite _ (isSome_ite _ rfl (isSome_ite _ rfl rfl)) rfl
  | addTasks s n =>
    simp only [exec, execWith, hdone s, hn]
    exact isSome_ite _ (isSome_ite _ rfl rfl) rfl
  | doneTask s =>
    simp only [exec, execWith, (hfield s).2.2.1, (hfield s).2.2.2.1, hn]
    exact isSome_ite _ rfl rfl
  | appErr s =>
    simp only [exec, execWith, (hfield s).1, hn]
    exact isSome_ite _ (isSome_ite _ rfl rfl) rfl
  | kill s =>
    simp only [exec, execWith, (hfield s).1, hn]
    exact isSome_ite _ (isSome_ite _ rfl rfl) rfl
  | stop s =>
    simp only [exec, execWith, (hfield s).1, hn]
    exact isSome_ite _ (isSome_ite _ rfl rfl) rfl
  | close s =>
    simp only [exec, execWith, (hfield s).1, hn]
    exact isSome_ite _ (isSome_ite _ rfl rfl) rfl
  | finish s =>
    have hs : s ≠ c := fun e => h2 (by rw [e])
    simp only [exec, execWith, unpark_scp_ne st hs, hn]
    exact isSome_ite _ rfl rfl
  | step s =>
    have hs : s ≠ c := fun e => h1 (by rw [e])
    simp only [exec, execWith, hn]
    refine isSome_ite _ ?_ rfl
    rw [micro_isSome, micro_isSome, unpark_scp_ne st hs]; rfl
  | release g => rfl
  | propagate x asKill =>
    simp only [exec, execWith, hcx, hnc]
    cases (st.ctx x).parent with
    | none => rfl
    | some pc => exact isSome_ite _ rfl rfl
  | watcherExit x =>
    simp only [exec, execWith, hcx, hnc]
    exact isSome_ite _ rfl rfl

end Goat.Scope
