/-
Helper lemmas for property C11, part 2: the invariant of the scope transition system and its
preservation by every act.
-/
import Goat.Proofs.Scope

namespace Goat.Scope

/-- the structural part of the invariant -/
structure InvS (st : State) : Prop where
  /-- slots beyond the allocated ones are blank -/
  fresh : ∀ s, st.nScopes ≤ s → st.scp s = {}
  freshCtx : ∀ c, st.nCtxs ≤ c → st.ctx c = {}
  parentLt : ∀ c p, (st.scp c).parent = some p → p < c
  ctxLt : ∀ s, s < st.nScopes → (st.scp s).ctx < st.nCtxs
  /-- the wait group counts outstanding tasks plus signed-on children that have not signed off -/
  wgEq : ∀ s, (st.scp s).wg + (st.scp s).dones = (st.scp s).adds + (st.scp s).kids.length
  donesLe : ∀ s, (st.scp s).dones ≤ (st.scp s).adds
  kidsMem : ∀ c p, (st.scp c).parent = some p → (st.scp c).registered = true →
    (st.scp c).phase.live = true → c ∈ (st.scp p).kids
  sharedCtx : ∀ c p, (st.scp c).parent = some p → (st.scp c).iso = false → (st.scp c).ctx = (st.scp p).ctx
  isoCtx : ∀ c p, (st.scp c).parent = some p → (st.scp c).iso = true →
    (st.ctx (st.scp c).ctx).parent = some (st.scp p).ctx ∧ (st.scp p).ctx < (st.scp c).ctx
  ctxParentLt : ∀ c pc, (st.ctx c).parent = some pc → pc < c
  /-- a watcher that has taken a branch leaves its context done -/
  watchDone : ∀ c, (st.ctx c).parent.isSome = true → (st.ctx c).watch = false → (st.ctx c).done = true
  /-- an error is appended before the context is stopped -/
  errDone : ∀ c, (st.ctx c).errors ≠ 0 → (st.ctx c).done = true

/-- close events fired so far, per scope -/
def Ord (st : State) : Prop :=
  ∀ s, st.closeTrace s = closeSeq (st.scp s).phase (st.scp s).rolled (st.scp s).park.isSome

/-- what the new phases need: a goroutine is parked only inside a trigger; once a scope's `Wait()`
has returned, every child that signed on before that has signed off; a listener error of a `Close`
and the choice of the rollback branch both mean that the context holds an error -/
structure InvX (st : State) : Prop where
  parkOk : ∀ s, (st.scp s).park.isSome = true → (evOf (st.scp s).phase (st.scp s).rolled).isSome = true
  nonLate : ∀ c p, (st.scp c).parent = some p → (st.scp c).registered = true → (st.scp c).late = false →
    (st.scp p).phase.waited = true → (st.scp c).phase.live = false
  lfailErr : ∀ s, (st.scp s).lfail = true → (st.ctx (st.scp s).ctx).errors ≠ 0
  rolledErr : ∀ s, (st.scp s).rolled = true → (st.ctx (st.scp s).ctx).errors ≠ 0

structure Inv0 (st : State) : Prop where
  s : InvS st
  order : Ord st

structure Inv (st : State) : Prop extends Inv0 st where
  x : InvX st

theorem InvS.parent_lt_n {st : State} (h : InvS st) {c p : Nat} (hp : (st.scp c).parent = some p) :
    c < st.nScopes := by
  rcases Nat.lt_or_ge c st.nScopes with h1 | h1
  · exact h1
  · rw [h.fresh c h1] at hp; cases hp

theorem InvS.ctxParent_lt_n {st : State} (h : InvS st) {c pc : Nat} (hp : (st.ctx c).parent = some pc) :
    c < st.nCtxs := by
  rcases Nat.lt_or_ge c st.nCtxs with h1 | h1
  · exact h1
  · rw [h.freshCtx c h1] at hp; cases hp

theorem invS_init : InvS {} where
  fresh := fun _ _ => rfl
  freshCtx := fun _ _ => rfl
  parentLt := fun _ _ h => by cases h
  ctxLt := fun _ h => absurd h (Nat.not_lt_zero _)
  wgEq := fun _ => rfl
  donesLe := fun _ => Nat.le_refl _
  kidsMem := fun _ _ h => by cases h
  sharedCtx := fun _ _ h => by cases h
  isoCtx := fun _ _ h => by cases h
  ctxParentLt := fun _ _ h => by cases h
  watchDone := fun _ h => by cases h
  errDone := fun _ h => absurd rfl h

theorem inv_init : Inv {} :=
  ⟨⟨invS_init, fun _ => rfl⟩, ⟨fun _ h => (by cases h), fun _ _ h => (by cases h), fun _ h => (by cases h),
    fun _ h => (by cases h)⟩⟩

/-! ### transfer along the event machinery -/

/-- listener invocations and error appends of an allocated scope preserve everything except the
`order` clause, which needs to be told how the trace of close events changed -/
theorem InvS.evStep {st st' : State} {s : Nat} (h : InvS st) (hs : s < st.nScopes) (e : EvStep st st' s) :
    InvS st' where
  fresh := by rw [e.scp, e.nScopes]; exact h.fresh
  freshCtx := by
    intro c hc
    rw [e.nCtxs] at hc
    have : c ≠ (st.scp s).ctx := by have := h.ctxLt s hs; omega
    rw [e.ctx_other c this]; exact h.freshCtx c hc
  parentLt := by rw [e.scp]; exact h.parentLt
  ctxLt := by rw [e.scp, e.nScopes, e.nCtxs]; exact h.ctxLt
  wgEq := by rw [e.scp]; exact h.wgEq
  donesLe := by rw [e.scp]; exact h.donesLe
  kidsMem := by rw [e.scp]; exact h.kidsMem
  sharedCtx := by rw [e.scp]; exact h.sharedCtx
  isoCtx := by
    rw [e.scp]; intro c p h1 h2
    rw [e.ctx_parent]; exact h.isoCtx c p h1 h2
  ctxParentLt := by intro c pc; rw [e.ctx_parent]; exact h.ctxParentLt c pc
  watchDone := by
    intro c; rw [e.ctx_parent, e.ctx_watch]
    intro h1 h2; exact e.ctx_done c (h.watchDone c h1 h2)
  errDone := by
    intro c hc
    by_cases hlt : (st.ctx c).errors < (st'.ctx c).errors
    · exact e.ctx_errdone c hlt
    · have := e.ctx_errors c
      have heq : (st.ctx c).errors = (st'.ctx c).errors := by omega
      exact e.ctx_done c (h.errDone c (by rw [heq]; exact hc))

/-- a change of one allocated scope's record that keeps its tree position, context, phase and
children and keeps the counter equation -/
theorem InvS.modScp {st : State} {s : Nat} (h : InvS st) (hs : s < st.nScopes) (f : Scp → Scp)
    (hpar : (f (st.scp s)).parent = (st.scp s).parent)
    (hreg : (f (st.scp s)).registered = (st.scp s).registered)
    (hiso : (f (st.scp s)).iso = (st.scp s).iso)
    (hctx : (f (st.scp s)).ctx = (st.scp s).ctx)
    (hph : (f (st.scp s)).phase.live = true → (st.scp s).phase.live = true)
    (hkids : ∀ c, c ∈ (st.scp s).kids → (st.scp c).phase.live = true → c ≠ s → c ∈ (f (st.scp s)).kids)
    (hwg : (f (st.scp s)).wg + (f (st.scp s)).dones = (f (st.scp s)).adds + (f (st.scp s)).kids.length)
    (hd : (f (st.scp s)).dones ≤ (f (st.scp s)).adds) : InvS (st.modScp s f) := by
  have hP : ∀ t, ((st.modScp s f).scp t).parent = (st.scp t).parent := by
    intro t; rw [modScp_scp]; split
    · subst_vars; exact hpar
    · rfl
  have hR : ∀ t, ((st.modScp s f).scp t).registered = (st.scp t).registered := by
    intro t; rw [modScp_scp]; split
    · subst_vars; exact hreg
    · rfl
  have hI : ∀ t, ((st.modScp s f).scp t).iso = (st.scp t).iso := by
    intro t; rw [modScp_scp]; split
    · subst_vars; exact hiso
    · rfl
  have hC : ∀ t, ((st.modScp s f).scp t).ctx = (st.scp t).ctx := by
    intro t; rw [modScp_scp]; split
    · subst_vars; exact hctx
    · rfl
  have hPh : ∀ t, ((st.modScp s f).scp t).phase.live = true → (st.scp t).phase.live = true := by
    intro t; rw [modScp_scp]; split
    · subst_vars; exact hph
    · exact id
  have hK : ∀ c t, c ∈ (st.scp t).kids → (st.scp c).phase.live = true → c ≠ s → c ∈ ((st.modScp s f).scp t).kids := by
    intro c t; rw [modScp_scp]; split
    · subst_vars; exact hkids c
    · exact fun h _ _ => h
  refine ⟨?_, h.freshCtx, ?_, ?_, ?_, ?_, ?_, ?_, ?_, h.ctxParentLt, h.watchDone, h.errDone⟩
  · intro t ht
    simp only [modScp_nScopes] at ht
    rw [modScp_scp_ne st f (by omega)]; exact h.fresh t ht
  · intro c p; rw [hP]; exact h.parentLt c p
  · intro t ht; rw [hC]; exact h.ctxLt t ht
  · intro t
    rw [modScp_scp]
    split
    · exact hwg
    · exact h.wgEq t
  · intro t
    rw [modScp_scp]
    split
    · exact hd
    · exact h.donesLe t
  · intro c p; rw [hP, hR]
    intro h1 h2 h3
    by_cases hcs : c = s
    · -- the modified scope itself is a child of `p ≠ s`: the kids of `p` are untouched
      have hlt := h.parentLt c p h1
      rw [modScp_scp_ne st f (by omega)]
      exact h.kidsMem c p h1 h2 (hPh c h3)
    · exact hK c p (h.kidsMem c p h1 h2 (hPh c h3)) (hPh c h3) hcs
  · intro c p; rw [hP, hI, hC, hC]; exact h.sharedCtx c p
  · intro c p; rw [hP, hI, hC, hC, modScp_ctx]; exact h.isoCtx c p


theorem InvS.withListeners {st : State} (h : InvS st) (k : Nat) : InvS { st with nListeners := k } :=
  ⟨h.fresh, h.freshCtx, h.parentLt, h.ctxLt, h.wgEq, h.donesLe, h.kidsMem, h.sharedCtx, h.isoCtx,
   h.ctxParentLt, h.watchDone, h.errDone⟩

/-- a change of one allocated context that keeps its parent link -/
theorem InvS.modCtx {st : State} {c : Nat} (h : InvS st) (hc : c < st.nCtxs) (f : Ctx → Ctx)
    (hpar : (f (st.ctx c)).parent = (st.ctx c).parent)
    (hw : (f (st.ctx c)).parent.isSome = true → (f (st.ctx c)).watch = false → (f (st.ctx c)).done = true)
    (he : (f (st.ctx c)).errors ≠ 0 → (f (st.ctx c)).done = true) : InvS (st.modCtx c f) := by
  have hP : ∀ d, ((st.modCtx c f).ctx d).parent = (st.ctx d).parent := by
    intro d; rw [modCtx_ctx]; split
    · subst_vars; exact hpar
    · rfl
  refine ⟨h.fresh, ?_, h.parentLt, h.ctxLt, h.wgEq, h.donesLe, h.kidsMem, h.sharedCtx, ?_, ?_, ?_, ?_⟩
  · intro d hd
    simp only [modCtx_nCtxs] at hd
    rw [modCtx_ctx_ne st f (by omega)]; exact h.freshCtx d hd
  · intro a b h1 h2
    simp only [modCtx_scp] at *
    rw [hP]; exact h.isoCtx a b h1 h2
  · intro d pc; rw [hP]; exact h.ctxParentLt d pc
  · intro d; rw [modCtx_ctx]; split
    · exact hw
    · exact h.watchDone d
  · intro d; rw [modCtx_ctx]; split
    · exact he
    · exact h.errDone d

/-! ### `Ord` -/

theorem Ord.same {st st' : State} (h : Ord st) (ht : ∀ t, st'.closeTrace t = st.closeTrace t)
    (hp : ∀ t, (st'.scp t).phase = (st.scp t).phase) (hr : ∀ t, (st'.scp t).rolled = (st.scp t).rolled)
    (hk : ∀ t, (st'.scp t).park = (st.scp t).park) :
    Ord st' := by
  intro t; rw [ht, hp, hr, hk]; exact h t

/-! ### the acts, one by one -/

theorem inv_on {st : State} (h : Inv0 st) {s : Nat} (hs : s < st.nScopes) (l : Listener) (k : Nat) :
    Inv0 { st.modScp s fun x => { x with listeners := x.listeners ++ [l] } with nListeners := k } := by
  have ho : Ord (st.modScp s fun x => { x with listeners := x.listeners ++ [l] }) := by
    intro t
    rw [closeTrace_modScp, modScp_scp]
    split
    · subst_vars; exact h.order _
    · exact h.order t
  exact ⟨InvS.withListeners (h.s.modScp hs _ rfl rfl rfl rfl id (fun _ hc _ _ => hc) (h.s.wgEq s) (h.s.donesLe s)) k, ho⟩

theorem inv_addTasks {st : State} (h : Inv0 st) {s : Nat} (hs : s < st.nScopes) (n : Nat) :
    Inv0 (st.modScp s fun x => { x with wg := x.wg + n, adds := x.adds + n }) := by
  refine ⟨h.s.modScp hs _ rfl rfl rfl rfl id (fun _ hc _ _ => hc) ?_ ?_, ?_⟩
  · have := h.s.wgEq s; simp only []; omega
  · have := h.s.donesLe s; simp only []; omega
  · intro t
    rw [closeTrace_modScp, modScp_scp]
    split
    · subst_vars; exact h.order _
    · exact h.order t

theorem inv_doneTask {st : State} (h : Inv0 st) {s : Nat} (hs : s < st.nScopes)
    (hd : (st.scp s).dones < (st.scp s).adds) :
    Inv0 (st.modScp s fun x => { x with wg := x.wg - 1, dones := x.dones + 1 }) := by
  refine ⟨h.s.modScp hs _ rfl rfl rfl rfl id (fun _ hc _ _ => hc) ?_ ?_, ?_⟩
  · have := h.s.wgEq s; simp only []; omega
  · simp only []; omega
  · intro t
    rw [closeTrace_modScp, modScp_scp]
    split
    · subst_vars; exact h.order _
    · exact h.order t

theorem inv_appErr {st : State} (h : Inv0 st) {s : Nat} (hs : s < st.nScopes) : Inv0 (st.appendError s) :=
  ⟨h.s.evStep hs (evStep_appendError st s),
   h.order.same (fun t => closeTrace_appendError st s t) (fun t => by simp) (fun t => by simp) (fun t => by simp)⟩

theorem inv_kill {st : State} (h : Inv0 st) {s : Nat} (hs : s < st.nScopes) :
    Inv0 ((st.addError s).fire s .kill none) :=
  ⟨h.s.evStep hs ((evStep_addError st s).trans (evStep_fire _ s .kill none)),
   h.order.same (fun t => by rw [closeTrace_fire_nonclose _ _ _ _ rfl, closeTrace_addError])
     (fun t => by simp) (fun t => by simp) (fun t => by simp)⟩

theorem inv_stop {st : State} (h : Inv0 st) {s : Nat} (hs : s < st.nScopes) :
    Inv0 ((st.setDone s).fire s .stop none) :=
  ⟨h.s.evStep hs ((evStep_setDone st s).trans (evStep_fire _ s .stop none)),
   h.order.same (fun t => by rw [closeTrace_fire_nonclose _ _ _ _ rfl, closeTrace_setDone])
     (fun t => by simp) (fun t => by simp) (fun t => by simp)⟩

/-! ### allocation -/

/-- allocate a context slot -/
theorem InvS.addCtx {st : State} (h : InvS st) (x : Ctx)
    (hpar : ∀ pc, x.parent = some pc → pc < st.nCtxs)
    (hw : x.parent.isSome = true → x.watch = false → x.done = true)
    (he : x.errors = 0) : InvS { st with nCtxs := st.nCtxs + 1, ctx := upd st.ctx st.nCtxs x } := by
  refine ⟨h.fresh, ?_, h.parentLt, ?_, h.wgEq, h.donesLe, h.kidsMem, h.sharedCtx, ?_, ?_, ?_, ?_⟩
  · intro c hc
    show upd st.ctx st.nCtxs x c = {}
    have hc' : st.nCtxs + 1 ≤ c := hc
    rw [upd_ne _ _ (by omega)]; exact h.freshCtx c (by omega)
  · intro t ht
    have := h.ctxLt t ht
    show (st.scp t).ctx < st.nCtxs + 1
    omega
  · intro c p h1 h2
    show (upd st.ctx st.nCtxs x (st.scp c).ctx).parent = some (st.scp p).ctx ∧ _
    have := h.ctxLt c (h.parent_lt_n h1)
    rw [upd_ne _ _ (by omega)]; exact h.isoCtx c p h1 h2
  · intro c pc
    show (upd st.ctx st.nCtxs x c).parent = some pc → pc < c
    rw [upd_apply]; split
    · subst_vars; exact hpar pc
    · exact h.ctxParentLt c pc
  · intro c
    show (upd st.ctx st.nCtxs x c).parent.isSome = true → (upd st.ctx st.nCtxs x c).watch = false →
      (upd st.ctx st.nCtxs x c).done = true
    rw [upd_apply]; split
    · exact hw
    · exact h.watchDone c
  · intro c
    show (upd st.ctx st.nCtxs x c).errors ≠ 0 → (upd st.ctx st.nCtxs x c).done = true
    rw [upd_apply]; split
    · intro hne; exact absurd he hne
    · exact h.errDone c

/-- allocate a scope slot for a record `y` that fits the tree -/
theorem InvS.addScope {st : State} (h : InvS st) (y : Scp)
    (hpar : ∀ p, y.parent = some p → p < st.nScopes)
    (hctx : y.ctx < st.nCtxs)
    (hwg : y.wg = 0) (hadds : y.adds = 0) (hdones : y.dones = 0) (hkids : y.kids = [])
    (hreg : ∀ p, y.parent = some p → y.registered = true → st.nScopes ∈ (st.scp p).kids)
    (hsh : ∀ p, y.parent = some p → y.iso = false → y.ctx = (st.scp p).ctx)
    (hiso : ∀ p, y.parent = some p → y.iso = true →
      (st.ctx y.ctx).parent = some (st.scp p).ctx ∧ (st.scp p).ctx < y.ctx) :
    InvS { st with nScopes := st.nScopes + 1, scp := upd st.scp st.nScopes y } := by
  have hold : ∀ c p, (st.scp c).parent = some p → c ≠ st.nScopes ∧ p ≠ st.nScopes := by
    intro c p hp
    have h1 := h.parent_lt_n hp
    have h2 := h.parentLt c p hp
    omega
  refine ⟨?_, h.freshCtx, ?_, ?_, ?_, ?_, ?_, ?_, ?_, h.ctxParentLt, h.watchDone, h.errDone⟩
  · intro t ht
    show upd st.scp st.nScopes y t = {}
    have ht' : st.nScopes + 1 ≤ t := ht
    rw [upd_ne _ _ (by omega)]; exact h.fresh t (by omega)
  · intro c p
    show (upd st.scp st.nScopes y c).parent = some p → p < c
    rw [upd_apply]; split
    · subst_vars; exact hpar p
    · exact h.parentLt c p
  · intro t ht
    show (upd st.scp st.nScopes y t).ctx < st.nCtxs
    have ht' : t < st.nScopes + 1 := ht
    rw [upd_apply]; split
    · exact hctx
    · exact h.ctxLt t (by omega)
  · intro t
    show (upd st.scp st.nScopes y t).wg + (upd st.scp st.nScopes y t).dones =
      (upd st.scp st.nScopes y t).adds + (upd st.scp st.nScopes y t).kids.length
    rw [upd_apply]; split
    · simp [hwg, hadds, hdones, hkids]
    · exact h.wgEq t
  · intro t
    show (upd st.scp st.nScopes y t).dones ≤ (upd st.scp st.nScopes y t).adds
    rw [upd_apply]; split
    · simp [hadds, hdones]
    · exact h.donesLe t
  · intro c p
    show (upd st.scp st.nScopes y c).parent = some p → (upd st.scp st.nScopes y c).registered = true →
      (upd st.scp st.nScopes y c).phase.live = true → c ∈ (upd st.scp st.nScopes y p).kids
    rw [upd_apply st.scp _ c]; split
    · subst_vars
      intro h1 h2 _
      have := hpar p h1
      rw [upd_ne _ _ (by omega)]; exact hreg p h1 h2
    · intro h1 h2 h3
      rw [upd_ne _ _ (hold c p h1).2]; exact h.kidsMem c p h1 h2 h3
  · intro c p
    show (upd st.scp st.nScopes y c).parent = some p → (upd st.scp st.nScopes y c).iso = false →
      (upd st.scp st.nScopes y c).ctx = (upd st.scp st.nScopes y p).ctx
    rw [upd_apply st.scp _ c]; split
    · subst_vars
      intro h1 h2
      have := hpar p h1
      rw [upd_ne _ _ (by omega)]; exact hsh p h1 h2
    · intro h1 h2
      rw [upd_ne _ _ (hold c p h1).2]; exact h.sharedCtx c p h1 h2
  · intro c p
    show (upd st.scp st.nScopes y c).parent = some p → (upd st.scp st.nScopes y c).iso = true →
      (st.ctx (upd st.scp st.nScopes y c).ctx).parent = some (upd st.scp st.nScopes y p).ctx ∧
        (upd st.scp st.nScopes y p).ctx < (upd st.scp st.nScopes y c).ctx
    rw [upd_apply st.scp _ c]; split
    · subst_vars
      intro h1 h2
      have := hpar p h1
      rw [upd_ne _ _ (by omega)]; exact hiso p h1 h2
    · intro h1 h2
      rw [upd_ne _ _ (hold c p h1).2]; exact h.isoCtx c p h1 h2

/-- allocating a scope slot with a fresh record keeps `Ord` -/
theorem Ord.addScope {st : State} (h : InvS st) (ho : Ord st) (y : Scp) (hph : y.phase = .opened)
    (hpk : y.park = none) :
    Ord { st with nScopes := st.nScopes + 1, scp := upd st.scp st.nScopes y } := by
  intro t
  show st.closeTrace t = closeSeq (upd st.scp st.nScopes y t).phase (upd st.scp st.nScopes y t).rolled
    (upd st.scp st.nScopes y t).park.isSome
  rw [upd_apply]; split
  · subst_vars
    rw [ho, h.fresh _ (Nat.le_refl _), hph, hpk]; rfl
  · exact ho t

theorem inv_newRoot {st : State} (h : Inv0 st) : Inv0 st.newRoot := by
  have h1 : InvS { st with nCtxs := st.nCtxs + 1, ctx := upd st.ctx st.nCtxs {} } :=
    h.s.addCtx {} (fun _ hp => by cases hp) (fun hp => by cases hp) rfl
  have ho1 : Ord { st with nCtxs := st.nCtxs + 1, ctx := upd st.ctx st.nCtxs {} } := h.order
  exact ⟨h1.addScope { ctx := st.nCtxs, path := [st.nScopes] } (fun _ hp => by cases hp)
      (Nat.lt_succ_self _) rfl rfl rfl rfl (fun _ hp => by cases hp) (fun _ hp => by cases hp)
      (fun _ hp => by cases hp),
    Ord.addScope h1 ho1 _ rfl rfl⟩


theorem inv_newChild {st : State} (h : Inv0 st) {p : Nat} (hp : p < st.nScopes) (iso : Bool) :
    Inv0 (st.newChild p iso) := by
  -- sign-on with the parent
  let st1 : State :=
    if !(st.isDone p) then st.modScp p fun x => { x with wg := x.wg + 1, kids := st.nScopes :: x.kids } else st
  have hn1 : st1.nScopes = st.nScopes := by simp only [st1]; split <;> rfl
  have hc1 : st1.ctx = st.ctx := by simp only [st1]; split <;> rfl
  have hnc1 : st1.nCtxs = st.nCtxs := by simp only [st1]; split <;> rfl
  have hctx1 : ∀ t, (st1.scp t).ctx = (st.scp t).ctx := by
    intro t; simp only [st1]; split
    · rw [modScp_scp]; split
      · subst_vars; rfl
      · rfl
    · rfl
  have hreg1 : (!(st.isDone p)) = true → st.nScopes ∈ (st1.scp p).kids := by
    intro hr; simp only [st1, hr, if_true, modScp_scp_same]; exact List.mem_cons_self
  have hI1 : InvS st1 := by
    simp only [st1]; split
    · refine h.s.modScp hp _ rfl rfl rfl rfl id (fun c hc _ _ => List.mem_cons_of_mem _ hc) ?_ (h.s.donesLe p)
      have := h.s.wgEq p
      simp only [List.length_cons]; omega
    · exact h.s
  have hO1 : Ord st1 := by
    simp only [st1]; split
    · intro t
      rw [closeTrace_modScp, modScp_scp]; split
      · subst_vars; exact h.order _
      · exact h.order t
    · exact h.order
  have hpctx := h.s.ctxLt p hp
  cases iso with
  | false =>
    have heq : st.newChild p false =
        { st1 with nScopes := st1.nScopes + 1,
                   scp := upd st1.scp st1.nScopes
                     { parent := some p, registered := !(st.isDone p), iso := false, ctx := (st.scp p).ctx,
                       path := (st.scp p).path ++ [st.nScopes], late := (st.scp p).phase.waited } } := by
      by_cases hr : (!(st.isDone p)) = true
      · simp only [State.newChild, st1, hr, if_true, Bool.false_eq_true, if_false]; rfl
      · simp only [State.newChild, st1, hr, if_false, Bool.false_eq_true]
    rw [heq]
    refine ⟨hI1.addScope _ ?_ ?_ rfl rfl rfl rfl ?_ ?_ ?_, Ord.addScope hI1 hO1 _ rfl rfl⟩
    · intro q hq; cases hq; rw [hn1]; exact hp
    · rw [hnc1]; exact hpctx
    · intro q hq hr; cases hq; rw [hn1]; exact hreg1 hr
    · intro q hq _; cases hq; exact (hctx1 p).symm
    · intro q _ hi; cases hi
  | true =>
    let st1c : State :=
      { st1 with nCtxs := st1.nCtxs + 1,
                 ctx := upd st1.ctx st1.nCtxs { parent := some (st.scp p).ctx, watch := true } }
    have hI1c : InvS st1c :=
      hI1.addCtx _ (fun pc hpc => by cases hpc; rw [hnc1]; exact hpctx) (fun _ hw => by cases hw) rfl
    have hO1c : Ord st1c := hO1
    have heq : st.newChild p true =
        { st1c with nScopes := st1c.nScopes + 1,
                    scp := upd st1c.scp st1c.nScopes
                      { parent := some p, registered := !(st.isDone p), iso := true, ctx := st.nCtxs,
                        path := (st.scp p).path ++ [st.nScopes], late := (st.scp p).phase.waited } } := by
      by_cases hr : (!(st.isDone p)) = true
      · simp only [State.newChild, st1c, st1, hr, if_true]; rfl
      · simp only [State.newChild, st1c, st1, hr, if_true]; rfl
    rw [heq]
    refine ⟨hI1c.addScope _ ?_ ?_ rfl rfl rfl rfl ?_ ?_ ?_, Ord.addScope hI1c hO1c _ rfl rfl⟩
    · intro q hq; cases hq; show p < st1.nScopes; rw [hn1]; exact hp
    · show st.nCtxs < st1.nCtxs + 1; rw [hnc1]; exact Nat.lt_succ_self _
    · intro q hq hr; cases hq; show st1.nScopes ∈ (st1.scp p).kids; rw [hn1]; exact hreg1 hr
    · intro q _ hi; cases hi
    · intro q hq _; cases hq
      show (upd st1.ctx st1.nCtxs _ st.nCtxs).parent = some (st1.scp p).ctx ∧ (st1.scp p).ctx < st.nCtxs
      rw [hnc1, upd_same, hctx1]
      exact ⟨rfl, hpctx⟩



/-! ### `InvX`: transfer -/

/-- the fields of a scope record `InvX` and `Ord` look at -/
structure KeyEq (a b : Scp) : Prop where
  parent : a.parent = b.parent
  registered : a.registered = b.registered
  late : a.late = b.late
  ctx : a.ctx = b.ctx
  phase : a.phase = b.phase
  park : a.park = b.park
  rolled : a.rolled = b.rolled
  lfail : a.lfail = b.lfail

theorem KeyEq.refl (a : Scp) : KeyEq a a := ⟨rfl, rfl, rfl, rfl, rfl, rfl, rfl, rfl⟩

theorem KeyEq.of_eq {a b : Scp} (h : a = b) : KeyEq a b := h ▸ KeyEq.refl a

/-- one scope record (`s`) changes in its key fields, errors only grow -/
theorem InvX.transfer {st st' : State} (h : InvX st) (s : Nat)
    (hother : ∀ t, t ≠ s → KeyEq (st'.scp t) (st.scp t))
    (herr : ∀ c, (st.ctx c).errors ≤ (st'.ctx c).errors)
    (hA : (st'.scp s).park.isSome = true → (evOf (st'.scp s).phase (st'.scp s).rolled).isSome = true)
    (hB : ∀ p, (st'.scp s).parent = some p → (st'.scp s).registered = true → (st'.scp s).late = false →
        (st'.scp p).phase.waited = true → (st'.scp s).phase.live = false)
    (hC : ∀ c, c ≠ s → (st.scp c).parent = some s → (st.scp c).registered = true → (st.scp c).late = false →
        (st'.scp s).phase.waited = true → (st.scp c).phase.live = false)
    (hD : (st'.scp s).lfail = true → (st'.ctx (st'.scp s).ctx).errors ≠ 0)
    (hE : (st'.scp s).rolled = true → (st'.ctx (st'.scp s).ctx).errors ≠ 0) : InvX st' where
  parkOk := by
    intro t
    by_cases ht : t = s
    · subst ht; exact hA
    · have k := hother t ht
      rw [k.park, k.phase, k.rolled]; exact h.parkOk t
  nonLate := by
    intro c p
    by_cases hc : c = s
    · subst hc; exact hB p
    · have k := hother c hc
      rw [k.parent, k.registered, k.late, k.phase]
      by_cases hp : p = s
      · subst hp; exact hC c hc
      · rw [(hother p hp).phase]; exact h.nonLate c p
  lfailErr := by
    intro t
    by_cases ht : t = s
    · subst ht; exact hD
    · have k := hother t ht
      rw [k.lfail, k.ctx]
      intro hl
      have := h.lfailErr t hl
      have := herr (st.scp t).ctx
      omega
  rolledErr := by
    intro t
    by_cases ht : t = s
    · subst ht; exact hE
    · have k := hother t ht
      rw [k.rolled, k.ctx]
      intro hl
      have := h.rolledErr t hl
      have := herr (st.scp t).ctx
      omega

/-- no key field changes, errors only grow -/
theorem InvX.keyEq {st st' : State} (h : InvX st) (hk : ∀ t, KeyEq (st'.scp t) (st.scp t))
    (herr : ∀ c, (st.ctx c).errors ≤ (st'.ctx c).errors) : InvX st' := by
  have k0 := hk 0
  refine h.transfer 0 (fun t _ => hk t) herr ?_ ?_ ?_ ?_ ?_
  · rw [k0.park, k0.phase, k0.rolled]; exact h.parkOk 0
  · intro p; rw [k0.parent, k0.registered, k0.late, k0.phase, (hk p).phase]; exact h.nonLate 0 p
  · intro c _; rw [k0.phase]; exact h.nonLate c 0
  · rw [k0.lfail, k0.ctx]; intro hl
    have := h.lfailErr 0 hl
    have := herr (st.scp 0).ctx
    omega
  · rw [k0.rolled, k0.ctx]; intro hl
    have := h.rolledErr 0 hl
    have := herr (st.scp 0).ctx
    omega

theorem InvX.evStep {st st' : State} {s : Nat} (h : InvX st) (e : EvStep st st' s) : InvX st' :=
  h.keyEq (fun t => by rw [e.scp]; exact KeyEq.refl _) e.ctx_errors

theorem keyEq_modScp (st : State) (s : Nat) (f : Scp → Scp) (hf : KeyEq (f (st.scp s)) (st.scp s)) (t : Nat) :
    KeyEq ((st.modScp s f).scp t) (st.scp t) := by
  rw [modScp_scp]; split
  · subst_vars; exact hf
  · exact KeyEq.refl _

theorem InvX.modScpKey {st : State} (h : InvX st) (s : Nat) (f : Scp → Scp)
    (hf : KeyEq (f (st.scp s)) (st.scp s)) : InvX (st.modScp s f) :=
  h.keyEq (keyEq_modScp st s f hf) (fun _ => Nat.le_refl _)

/-- a fresh scope record `y` in slot `nScopes`; the other records keep their key fields -/
theorem InvX.addScope {st st' : State} (h : InvX st) (hs : InvS st)
    (hother : ∀ t, t ≠ st.nScopes → KeyEq (st'.scp t) (st.scp t))
    (hctx : st'.ctx = st.ctx ∨ ∀ c, (st.ctx c).errors ≤ (st'.ctx c).errors)
    (hpk : (st'.scp st.nScopes).park = none)
    (hlate : ∀ p, (st'.scp st.nScopes).parent = some p → p < st.nScopes ∧
      (st'.scp st.nScopes).late = (st.scp p).phase.waited)
    (hlf : (st'.scp st.nScopes).lfail = false) (hrb : (st'.scp st.nScopes).rolled = false) : InvX st' := by
  have herr : ∀ c, (st.ctx c).errors ≤ (st'.ctx c).errors := by
    rcases hctx with hc | hc
    · intro c; rw [hc]; exact Nat.le_refl _
    · exact hc
  refine h.transfer st.nScopes hother herr ?_ ?_ ?_ ?_ ?_
  · rw [hpk]; intro hf; cases hf
  · intro p hp _ hl hw
    obtain ⟨hlt, hle⟩ := hlate p hp
    rw [(hother p (by omega)).phase, ← hle, hl] at hw
    cases hw
  · intro c _ hp
    have h1 := hs.parent_lt_n hp
    have h2 := hs.parentLt c _ hp
    omega
  · rw [hlf]; intro hf; cases hf
  · rw [hrb]; intro hf; cases hf

/-! ### a piece of a trigger of `Close` -/

theorem InvS.trigStep {st st' : State} {s : Nat} {ev : Ev} (h : InvS st) (hs : s < st.nScopes)
    (hev : evOf (st.scp s).phase (st.scp s).rolled = some ev) (ts : TrigStep st s st') : InvS st' := by
  obtain ⟨hl, hnl, _⟩ := evOf_facts hev
  cases ts with
  | parked st1 p e =>
    have h1 := h.evStep hs e
    refine h1.modScp (by rw [e.nScopes]; exact hs) _ rfl rfl rfl rfl id (fun _ hc _ _ => hc) (h1.wgEq s) (h1.donesLe s)
  | ended st1 failed e herr =>
    have h1 := h.evStep hs e
    refine h1.modScp (by rw [e.nScopes]; exact hs) _ rfl rfl rfl rfl ?_ (fun _ hc _ _ => hc) (h1.wgEq s) (h1.donesLe s)
    intro _; rw [e.scp]; exact hl

theorem Ord.trigStep {st st' : State} {s : Nat} {ev : Ev} (ho : Ord st)
    (hev : evOf (st.scp s).phase (st.scp s).rolled = some ev) (ts : TrigStep st s st')
    (htr : ∀ u, st'.closeTrace u =
      st.closeTrace u ++ (if s = u ∧ (st.scp s).park.isSome = false then [ev] else [])) : Ord st' := by
  obtain ⟨_, _, _, _, _, hidx, _, htake, _⟩ := evOf_facts hev
  intro u
  rw [htr u, ho u]
  cases ts with
  | parked st1 p e =>
    rw [modScp_scp, e.scp]
    by_cases hu : u = s
    · subst hu
      simp only [if_true, true_and, Option.isSome_some]
      cases hpk : (st.scp u).park.isSome
      · simp [closeSeq, htake]
      · simp [closeSeq]
    · have : ¬ s = u := fun e => hu e.symm
      simp [hu, this]
  | ended st1 failed e herr =>
    rw [modScp_scp, e.scp]
    by_cases hu : u = s
    · subst hu
      simp only [if_true, true_and, Option.isSome_none]
      cases hpk : (st.scp u).park.isSome
      · simp [closeSeq, htake, hidx]
      · simp [closeSeq, hidx]
    · have : ¬ s = u := fun e => hu e.symm
      simp [hu, this]

theorem InvX.trigStep {st st' : State} {s : Nat} {ev : Ev} (h : InvX st)
    (hev : evOf (st.scp s).phase (st.scp s).rolled = some ev) (ts : TrigStep st s st') : InvX st' := by
  obtain ⟨hl, hnl, _, _, hw, _, _, _, _⟩ := evOf_facts hev
  cases ts with
  | parked st1 p e =>
    have h1 := h.evStep e
    refine h1.transfer s (fun t ht => KeyEq.of_eq (modScp_scp_ne st1 _ ht)) (fun _ => Nat.le_refl _) ?_ ?_ ?_ ?_ ?_
    · intro _; rw [modScp_scp_same, e.scp]; simp [hev]
    · intro p _ _ _ _
      -- the scope is inside a trigger: it is live, so (by `nonLate` before the step) this cannot be
      rw [modScp_scp_same, e.scp] at *
      rename_i hp hr hla hwp
      rw [modScp_scp, e.scp] at hwp
      split at hwp
      · subst_vars
        exact h.nonLate _ _ hp hr hla hwp
      · exact h.nonLate _ _ hp hr hla hwp
    · intro c _ hp hr hla hws
      rw [modScp_scp_same, e.scp] at hws
      rw [e.scp] at hp hr hla ⊢
      exact h.nonLate c s hp hr hla hws
    · rw [modScp_scp_same, modScp_ctx]; exact h1.lfailErr s
    · rw [modScp_scp_same, modScp_ctx]; exact h1.rolledErr s
  | ended st1 failed e herr =>
    have h1 := h.evStep e
    refine h1.transfer s (fun t ht => KeyEq.of_eq (modScp_scp_ne st1 _ ht)) (fun _ => Nat.le_refl _) ?_ ?_ ?_ ?_ ?_
    · intro hf; rw [modScp_scp_same] at hf; cases hf
    · intro p hp hr hla hwp
      rw [modScp_scp_same, e.scp] at hp hr hla ⊢
      rw [modScp_scp, e.scp] at hwp
      have hlive : (st.scp s).phase.live = false := by
        split at hwp
        · subst_vars
          exact h.nonLate _ _ hp hr hla (hw hwp)
        · exact h.nonLate _ _ hp hr hla hwp
      rw [hl] at hlive; cases hlive
    · intro c _ hp hr hla hws
      rw [modScp_scp_same, e.scp] at hws
      rw [e.scp] at hp hr hla ⊢
      exact h.nonLate c s hp hr hla (hw hws)
    · rw [modScp_scp_same, modScp_ctx]
      cases failed
      · exact h1.lfailErr s
      · intro _; have := herr rfl; rw [e.scp]; exact this
    · rw [modScp_scp_same, modScp_ctx]; exact h1.rolledErr s

/-! ### the steps of the closing goroutine -/

/-- the state after `pick`: `Wait()` has returned `Err()` -/
def State.pick (st : State) (s : Nat) : State :=
  st.modScp s fun x => { x with phase := .t0, rolled := st.hasErr s }

/-- the state after `parent.DoneTask()` -/
def State.signOff (st : State) (s : Nat) : State :=
  (st.signOffParent s).modScp s fun x => { x with phase := .signed }

/-- the state after `return scp.Err()` -/
def State.ret (st : State) (s : Nat) : State :=
  st.modScp s fun x => { x with phase := .finished, result := some (st.hasErr s) }

/-- the five kinds of step of a closing goroutine -/
inductive MicroCase (st : State) (s : Nat) : State → Outcome → Prop where
  | resume (p : Park) (ev : Ev) : (st.scp s).park = some p → st.gates p.gate = true →
      evOf (st.scp s).phase (st.scp s).rolled = some ev → MicroCase st s (st.resumeTrigger s ev p) .ok
  | start (ev : Ev) : (st.scp s).park = none → evOf (st.scp s).phase (st.scp s).rolled = some ev →
      MicroCase st s (st.startTrigger s ev) .ok
  | pick : (st.scp s).park = none → (st.scp s).phase = .closing → (st.scp s).wg = 0 →
      MicroCase st s (st.pick s) .ok
  | signOff : (st.scp s).park = none → (st.scp s).phase = .signing → MicroCase st s (st.signOff s) .ok
  | ret : (st.scp s).park = none → (st.scp s).phase = .signed →
      MicroCase st s (st.ret s) (.closed (st.hasErr s))

theorem micro_cases {st st' : State} {s : Nat} {o : Outcome} (hm : micro st s = some (st', o)) :
    MicroCase st s st' o := by
  unfold micro at hm
  split at hm
  · rename_i p hp
    split at hm
    · rename_i hg
      split at hm
      · rename_i ev hev
        simp only [Option.some.injEq, Prod.mk.injEq] at hm
        rw [← hm.1, ← hm.2]; exact .resume p ev hp hg hev
      · cases hm
    · cases hm
  · rename_i hp
    split at hm
    · rename_i ev hev
      simp only [Option.some.injEq, Prod.mk.injEq] at hm
      rw [← hm.1, ← hm.2]; exact .start ev hp hev
    · split at hm
      · rename_i hph
        split at hm
        · rename_i hwg
          simp only [Option.some.injEq, Prod.mk.injEq] at hm
          rw [← hm.1, ← hm.2]; exact .pick hp hph hwg
        · cases hm
      · rename_i hph
        simp only [Option.some.injEq, Prod.mk.injEq] at hm
        rw [← hm.1, ← hm.2]; exact .signOff hp hph
      · rename_i hph
        simp only [Option.some.injEq, Prod.mk.injEq] at hm
        rw [← hm.1, ← hm.2]; exact .ret hp hph
      · cases hm

theorem InvX.park_none {st : State} (h : InvX st) {s : Nat}
    (he : evOf (st.scp s).phase (st.scp s).rolled = none) : (st.scp s).park = none := by
  cases hp : (st.scp s).park with
  | none => rfl
  | some p =>
    have := h.parkOk s (by rw [hp]; rfl)
    rw [he] at this; cases this

theorem inv_trig {st st' : State} {s : Nat} {ev : Ev} (h : Inv st) (hs : s < st.nScopes)
    (hev : evOf (st.scp s).phase (st.scp s).rolled = some ev) (ts : TrigStep st s st')
    (htr : ∀ u, st'.closeTrace u =
      st.closeTrace u ++ (if s = u ∧ (st.scp s).park.isSome = false then [ev] else [])) : Inv st' :=
  ⟨⟨h.s.trigStep hs hev ts, h.order.trigStep hev ts htr⟩, h.x.trigStep hev ts⟩

theorem inv_resume {st : State} {s : Nat} {ev : Ev} {p : Park} (h : Inv st) (hs : s < st.nScopes)
    (hp : (st.scp s).park = some p) (hev : evOf (st.scp s).phase (st.scp s).rolled = some ev) :
    Inv (st.resumeTrigger s ev p) :=
  inv_trig h hs hev (trigStep_resumeTrigger st s ev p) (fun u => by
    rw [closeTrace_resumeTrigger, hp]; simp)

theorem inv_start {st : State} {s : Nat} {ev : Ev} (h : Inv st) (hs : s < st.nScopes)
    (hp : (st.scp s).park = none) (hev : evOf (st.scp s).phase (st.scp s).rolled = some ev) :
    Inv (st.startTrigger s ev) :=
  inv_trig h hs hev (trigStep_startTrigger st s ev) (fun u => by
    rw [closeTrace_startTrigger, hp, (evOf_facts hev).2.2.2.2.2.2.1]; simp)

/-- a change of the phase of `s` (and of fields no invariant looks at) between two phases with the
same number of completed events, neither of them inside a trigger -/
theorem inv_beginMark {st : State} {s : Nat} (h : Inv st) (hs : s < st.nScopes)
    (hph : (st.scp s).phase = .opened) : Inv (st.modScp s fun x => { x with phase := .begun }) := by
  have hpk : (st.scp s).park = none := h.x.park_none (by rw [hph]; rfl)
  refine ⟨⟨?_, ?_⟩, ?_⟩
  · exact h.s.modScp hs _ rfl rfl rfl rfl (fun _ => by rw [hph]; rfl) (fun _ hc _ _ => hc) (h.s.wgEq s) (h.s.donesLe s)
  · intro t
    rw [closeTrace_modScp, modScp_scp]
    split
    · subst_vars; rw [h.order, hph, hpk]; rfl
    · exact h.order t
  · refine h.x.transfer s (fun t ht => KeyEq.of_eq (modScp_scp_ne st _ ht)) (fun _ => Nat.le_refl _) ?_ ?_ ?_ ?_ ?_
    · rw [modScp_scp_same]; intro hf; rw [hpk] at hf; cases hf
    · intro p hp hr hla hw
      rw [modScp_scp_same] at hp hr hla
      rw [modScp_scp] at hw
      have : (st.scp s).phase.live = false := by
        split at hw
        · subst_vars; cases hw
        · exact h.x.nonLate _ _ hp hr hla hw
      rw [hph] at this; cases this
    · intro c _ _ _ _ hw; rw [modScp_scp_same] at hw; cases hw
    · rw [modScp_scp_same, modScp_ctx]; exact h.x.lfailErr s
    · rw [modScp_scp_same, modScp_ctx]; exact h.x.rolledErr s

theorem inv_beginClose {st : State} (h : Inv st) {s : Nat} (hs : s < st.nScopes)
    (hph : (st.scp s).phase = .opened) : Inv (st.beginClose s) := by
  unfold State.beginClose
  have h0 := inv_beginMark h hs hph
  have hpk : (st.scp s).park = none := h.x.park_none (by rw [hph]; rfl)
  exact inv_start h0 (by simpa using hs) (by rw [modScp_scp_same]; exact hpk) (by rw [modScp_scp_same]; rfl)

theorem inv_pick {st : State} {s : Nat} (h : Inv st) (hs : s < st.nScopes) (hpk : (st.scp s).park = none)
    (hph : (st.scp s).phase = .closing) (hwg : (st.scp s).wg = 0) : Inv (st.pick s) := by
  unfold State.pick
  have hkids : (st.scp s).kids = [] := by
    have h1 := h.s.wgEq s
    have h2 := h.s.donesLe s
    rw [hwg] at h1
    exact List.eq_nil_of_length_eq_zero (by omega)
  refine ⟨⟨?_, ?_⟩, ?_⟩
  · exact h.s.modScp hs _ rfl rfl rfl rfl (fun _ => by rw [hph]; rfl) (fun _ hc _ _ => hc) (h.s.wgEq s) (h.s.donesLe s)
  · intro t
    rw [closeTrace_modScp, modScp_scp]
    split
    · subst_vars; rw [h.order, hph, hpk]
      cases (st.scp t).rolled <;> cases st.hasErr t <;> rfl
    · exact h.order t
  · refine h.x.transfer s (fun t ht => KeyEq.of_eq (modScp_scp_ne st _ ht)) (fun _ => Nat.le_refl _) ?_ ?_ ?_ ?_ ?_
    · rw [modScp_scp_same]; intro hf; rw [hpk] at hf; cases hf
    · intro p hp hr hla hw
      rw [modScp_scp_same] at hp hr hla
      rw [modScp_scp] at hw
      have : (st.scp s).phase.live = false := by
        split at hw
        · subst_vars
          have := h.s.parentLt _ _ hp
          omega
        · exact h.x.nonLate _ _ hp hr hla hw
      rw [hph] at this; cases this
    · intro c _ hp hr _ _
      cases hl : (st.scp c).phase.live with
      | false => rfl
      | true =>
        have := h.s.kidsMem c s hp hr hl
        rw [hkids] at this; cases this
    · rw [modScp_scp_same, modScp_ctx]; exact h.x.lfailErr s
    · rw [modScp_scp_same, modScp_ctx]
      intro hr
      simpa [State.hasErr, State.ctxOf] using hr

theorem signOffParent_scp_self (st : State) (s : Nat) (hne : ∀ p, (st.scp s).parent = some p → p ≠ s) :
    (st.signOffParent s).scp s = st.scp s := by
  unfold State.signOffParent
  split
  · rename_i p hp _
    exact modScp_scp_ne st _ (fun e => hne p hp e.symm)
  · rfl

theorem signOffParent_keyEq (st : State) (s t : Nat) : KeyEq ((st.signOffParent s).scp t) (st.scp t) := by
  unfold State.signOffParent
  split
  · exact keyEq_modScp st _ _ ⟨rfl, rfl, rfl, rfl, rfl, rfl, rfl, rfl⟩ t
  · exact KeyEq.refl _

theorem signOffParent_ctx (st : State) (s : Nat) : (st.signOffParent s).ctx = st.ctx := by
  unfold State.signOffParent; split <;> rfl

theorem signOffParent_closeTrace (st : State) (s t : Nat) : (st.signOffParent s).closeTrace t = st.closeTrace t := by
  unfold State.signOffParent; split <;> rfl

theorem modScp_comm (st : State) {a b : Nat} (hab : a ≠ b) (f g : Scp → Scp) :
    (st.modScp a f).modScp b g = (st.modScp b g).modScp a f := by
  have hba : b ≠ a := fun e => hab e.symm
  simp only [State.modScp]
  congr 1
  funext j
  simp only [upd_apply]
  by_cases h1 : j = a <;> by_cases h2 : j = b <;> simp_all

theorem InvS.signOff {st : State} (h : InvS st) {s : Nat} (hs : s < st.nScopes)
    (hph : (st.scp s).phase.live = true) : InvS (st.signOff s) := by
  unfold State.signOff State.signOffParent
  have hmark : InvS (st.modScp s fun x => { x with phase := .signed }) :=
    h.modScp hs _ rfl rfl rfl rfl (fun hne => by cases hne) (fun _ hc _ _ => hc) (h.wgEq s) (h.donesLe s)
  split
  · rename_i p hpar hreg
    have hlt := h.parentLt s p hpar
    have hps : p ≠ s := by omega
    rw [modScp_comm st hps]
    have hp : p < st.nScopes := by omega
    have hscp_p : ∀ g : Scp → Scp, (st.modScp s g).scp p = st.scp p := fun g => modScp_scp_ne st g hps
    have hmem : s ∈ (st.scp p).kids := h.kidsMem s p hpar hreg hph
    refine hmark.modScp (by simpa using hp) _ rfl rfl rfl rfl id ?_ ?_ ?_
    · intro c hc hcph _
      rw [hscp_p] at hc ⊢
      have hcs : c ≠ s := by
        intro e; subst e
        rw [modScp_scp_same] at hcph
        cases hcph
      exact (List.mem_erase_of_ne hcs).mpr hc
    · rw [hscp_p]
      have h1 := h.wgEq p
      have h2 := h.donesLe p
      have h3 := List.length_erase_of_mem hmem
      have h4 := List.length_pos_of_mem hmem
      simp only []
      omega
    · rw [hscp_p]; exact h.donesLe p
  · exact hmark

theorem inv_signOff {st : State} {s : Nat} (h : Inv st) (hs : s < st.nScopes) (hpk : (st.scp s).park = none)
    (hph : (st.scp s).phase = .signing) : Inv (st.signOff s) := by
  have hself : (st.signOffParent s).scp s = st.scp s :=
    signOffParent_scp_self st s (fun p hp e => by have := h.s.parentLt s p hp; omega)
  refine ⟨⟨h.s.signOff hs (by rw [hph]; rfl), ?_⟩, ?_⟩
  · intro t
    unfold State.signOff
    rw [closeTrace_modScp, signOffParent_closeTrace, modScp_scp]
    split
    · subst_vars; rw [hself, h.order, hph, hpk]; rfl
    · have k := signOffParent_keyEq st s t
      rw [k.phase, k.rolled, k.park]; exact h.order t
  · have h1 : InvX (st.signOffParent s) :=
      h.x.keyEq (signOffParent_keyEq st s) (fun c => by rw [signOffParent_ctx]; exact Nat.le_refl _)
    unfold State.signOff
    refine h1.transfer s (fun t ht => KeyEq.of_eq (modScp_scp_ne _ _ ht)) (fun _ => Nat.le_refl _) ?_ ?_ ?_ ?_ ?_
    · rw [modScp_scp_same, hself]; intro hf; rw [hpk] at hf; cases hf
    · intro _ _ _ _ _; rw [modScp_scp_same]; rfl
    · intro c _ hp hr hla _
      have k := signOffParent_keyEq st s c
      rw [k.parent] at hp; rw [k.registered] at hr; rw [k.late] at hla; rw [k.phase]
      exact h.x.nonLate c s hp hr hla (by rw [hph]; rfl)
    · rw [modScp_scp_same, modScp_ctx]; exact h1.lfailErr s
    · rw [modScp_scp_same, modScp_ctx]; exact h1.rolledErr s

theorem inv_ret {st : State} {s : Nat} (h : Inv st) (hs : s < st.nScopes) (hpk : (st.scp s).park = none)
    (hph : (st.scp s).phase = .signed) : Inv (st.ret s) := by
  unfold State.ret
  refine ⟨⟨?_, ?_⟩, ?_⟩
  · exact h.s.modScp hs _ rfl rfl rfl rfl (fun hne => by cases hne) (fun _ hc _ _ => hc) (h.s.wgEq s) (h.s.donesLe s)
  · intro t
    rw [closeTrace_modScp, modScp_scp]
    split
    · subst_vars; rw [h.order, hph, hpk]; rfl
    · exact h.order t
  · refine h.x.transfer s (fun t ht => KeyEq.of_eq (modScp_scp_ne st _ ht)) (fun _ => Nat.le_refl _) ?_ ?_ ?_ ?_ ?_
    · rw [modScp_scp_same]; intro hf; rw [hpk] at hf; cases hf
    · intro _ _ _ _ _; rw [modScp_scp_same]; rfl
    · intro c _ hp hr hla _
      exact h.x.nonLate c s hp hr hla (by rw [hph]; rfl)
    · rw [modScp_scp_same, modScp_ctx]; exact h.x.lfailErr s
    · rw [modScp_scp_same, modScp_ctx]; exact h.x.rolledErr s

theorem inv_microCase {st st' : State} {s : Nat} {o : Outcome} (h : Inv st) (hs : s < st.nScopes)
    (m : MicroCase st s st' o) : Inv st' := by
  cases m with
  | resume p ev hp _ hev => exact inv_resume h hs hp hev
  | start ev hp hev => exact inv_start h hs hp hev
  | pick hp hph hwg => exact inv_pick h hs hp hph hwg
  | signOff hp hph => exact inv_signOff h hs hp hph
  | ret hp hph => exact inv_ret h hs hp hph

theorem inv_micro {st st' : State} {s : Nat} {o : Outcome} (h : Inv st) (hs : s < st.nScopes)
    (hm : micro st s = some (st', o)) : Inv st' := inv_microCase h hs (micro_cases hm)

theorem TrigStep.nScopes {st st' : State} {s : Nat} (ts : TrigStep st s st') : st'.nScopes = st.nScopes := by
  cases ts with
  | parked st1 p e => exact e.nScopes
  | ended st1 failed e _ => exact e.nScopes

theorem signOffParent_nScopes (st : State) (s : Nat) : (st.signOffParent s).nScopes = st.nScopes := by
  unfold State.signOffParent; split <;> rfl

theorem microCase_nScopes {st st' : State} {s : Nat} {o : Outcome} (m : MicroCase st s st' o) :
    st'.nScopes = st.nScopes := by
  cases m with
  | resume p ev _ _ _ => exact (trigStep_resumeTrigger st s ev p).nScopes
  | start ev _ _ => exact (trigStep_startTrigger st s ev).nScopes
  | pick _ _ _ => rfl
  | signOff _ _ => exact signOffParent_nScopes st s
  | ret _ _ => rfl

/-- whatever every step of the closing goroutine of `s` preserves, its running on preserves -/
theorem runSteps_induct {P : State → Prop} {s : Nat}
    (hP : ∀ st st' o, P st → micro st s = some (st', o) → P st') :
    ∀ n st, P st → P (runSteps micro s n st).1 := by
  intro n
  induction n with
  | zero => intro st h; exact h
  | succ n ih =>
    intro st h
    unfold runSteps
    cases hm : micro st s with
    | none => exact h
    | some r =>
      obtain ⟨st', o⟩ := r
      cases o with
      | closed e => exact hP st st' _ h hm
      | ok => exact ih st' (hP st st' _ h hm)
      | refused => exact ih st' (hP st st' _ h hm)
      | panic => exact ih st' (hP st st' _ h hm)

theorem inv_runSteps {st : State} {s : Nat} (h : Inv st) (hs : s < st.nScopes) (n : Nat) :
    Inv (runSteps micro s n st).1 ∧ s < (runSteps micro s n st).1.nScopes :=
  runSteps_induct (P := fun x => Inv x ∧ s < x.nScopes)
    (fun a b o ha hm => ⟨inv_micro ha.1 ha.2 hm, by rw [microCase_nScopes (micro_cases hm)]; exact ha.2⟩) n st ⟨h, hs⟩

/-! ### the watcher -/

theorem inv_propagate {st : State} (h : Inv0 st) {c : Nat} (hc : c < st.nCtxs) (asKill : Bool) :
    Inv0 (st.modCtx c fun x =>
      { x with errors := if asKill then x.errors + 1 else x.errors, done := true, watch := false }) :=
  ⟨h.s.modCtx hc _ rfl (fun _ _ => rfl) (fun _ => rfl),
   h.order.same (fun _ => rfl) (fun _ => rfl) (fun _ => rfl) (fun _ => rfl)⟩

theorem inv_watcherExit {st : State} (h : Inv0 st) {c : Nat} (hc : c < st.nCtxs) (hd : (st.ctx c).done = true) :
    Inv0 (st.modCtx c fun x => { x with watch := false }) :=
  ⟨h.s.modCtx hc _ rfl (fun _ _ => hd) (fun he => h.s.errDone c he),
   h.order.same (fun _ => rfl) (fun _ => rfl) (fun _ => rfl) (fun _ => rfl)⟩

theorem invX_modCtx {st : State} (h : InvX st) (c : Nat) (f : Ctx → Ctx)
    (he : (st.ctx c).errors ≤ (f (st.ctx c)).errors) : InvX (st.modCtx c f) :=
  h.keyEq (fun _ => KeyEq.refl _) (fun d => by
    rw [modCtx_ctx]; split
    · subst_vars; exact he
    · exact Nat.le_refl _)

/-! ### gates -/

theorem inv_release {st : State} (h : Inv st) (g : Nat) : Inv { st with gates := upd st.gates g true } :=
  ⟨⟨⟨h.s.fresh, h.s.freshCtx, h.s.parentLt, h.s.ctxLt, h.s.wgEq, h.s.donesLe, h.s.kidsMem, h.s.sharedCtx,
      h.s.isoCtx, h.s.ctxParentLt, h.s.watchDone, h.s.errDone⟩, h.order⟩,
   h.x.keyEq (fun _ => KeyEq.refl _) (fun _ => Nat.le_refl _)⟩

/-! ### allocation and `InvX` -/

theorem newRoot_scp_old (st : State) {t : Nat} (ht : t ≠ st.nScopes) : st.newRoot.scp t = st.scp t := by
  show upd st.scp st.nScopes _ t = _
  rw [upd_ne _ _ ht]

theorem newRoot_ctx (st : State) (c : Nat) : st.newRoot.ctx c = if c = st.nCtxs then {} else st.ctx c := rfl

theorem newRoot_scp_new (st : State) : st.newRoot.scp st.nScopes = { ctx := st.nCtxs, path := [st.nScopes] } := by
  show upd st.scp st.nScopes _ st.nScopes = _
  exact upd_same _ _ _

theorem invX_newRoot {st : State} (h : Inv st) : InvX st.newRoot := by
  refine h.x.addScope h.s (fun t ht => KeyEq.of_eq (newRoot_scp_old st ht)) (Or.inr ?_) ?_ ?_ ?_ ?_
  · intro c
    rw [newRoot_ctx]; split
    · subst_vars; rw [h.s.freshCtx _ (Nat.le_refl _)]; exact Nat.le_refl _
    · exact Nat.le_refl _
  · rw [newRoot_scp_new]
  · rw [newRoot_scp_new]; intro p hp; cases hp
  · rw [newRoot_scp_new]
  · rw [newRoot_scp_new]

/-- the record of an already allocated scope after `newChild`: only the parent's counter and ghost
child list change -/
theorem newChild_scp_old (st : State) (p : Nat) (iso : Bool) {t : Nat} (hne : t ≠ st.nScopes) :
    (st.newChild p iso).scp t =
      if t = p ∧ (!(st.isDone p)) = true then
        { st.scp p with wg := (st.scp p).wg + 1, kids := st.nScopes :: (st.scp p).kids }
      else st.scp t := by
  unfold State.newChild
  by_cases hr : (!(st.isDone p)) = true <;> cases iso <;>
    simp only [hr, if_true, if_false, and_true, and_false, Bool.false_eq_true] <;>
    show upd _ st.nScopes _ t = _ <;> rw [upd_ne _ _ hne]
  · exact modScp_scp st p t _
  · exact modScp_scp st p t _

theorem newChild_scp_new (st : State) (p : Nat) (iso : Bool) :
    (st.newChild p iso).scp st.nScopes =
      { parent := some p, registered := !(st.isDone p), iso := iso,
        ctx := if iso then st.nCtxs else (st.scp p).ctx,
        path := (st.scp p).path ++ [st.nScopes], late := (st.scp p).phase.waited } := by
  unfold State.newChild
  by_cases hr : (!(st.isDone p)) = true <;> cases iso <;>
    simp only [hr, if_true, if_false, Bool.false_eq_true] <;>
    show upd _ st.nScopes _ st.nScopes = _ <;> exact upd_same _ _ _

theorem newChild_ctx (st : State) (p : Nat) (iso : Bool) (c : Nat) :
    (st.newChild p iso).ctx c =
      if iso = true ∧ c = st.nCtxs then { parent := some (st.scp p).ctx, watch := true } else st.ctx c := by
  unfold State.newChild
  by_cases hr : (!(st.isDone p)) = true <;> cases iso <;>
    simp only [hr, if_true, if_false, true_and, false_and, Bool.false_eq_true] <;>
    first | rfl | (show upd _ st.nCtxs _ c = _; rw [upd_apply]; rfl)

theorem newChild_nScopes (st : State) (p : Nat) (iso : Bool) : (st.newChild p iso).nScopes = st.nScopes + 1 := by
  unfold State.newChild
  by_cases hr : (!(st.isDone p)) = true <;> cases iso <;> simp only [hr, if_true, if_false, Bool.false_eq_true] <;> rfl

theorem invX_newChild {st : State} (h : Inv st) {p : Nat} (hp : p < st.nScopes) (iso : Bool) :
    InvX (st.newChild p iso) := by
  refine h.x.addScope h.s ?_ (Or.inr ?_) ?_ ?_ ?_ ?_
  · intro t ht
    rw [newChild_scp_old st p iso ht]; split
    · rename_i hc; rw [hc.1]; exact ⟨rfl, rfl, rfl, rfl, rfl, rfl, rfl, rfl⟩
    · exact KeyEq.refl _
  · intro c
    rw [newChild_ctx]; split
    · rename_i hc; rw [hc.2, h.s.freshCtx _ (Nat.le_refl _)]; exact Nat.zero_le _
    · exact Nat.le_refl _
  · rw [newChild_scp_new]
  · rw [newChild_scp_new]; intro q hq; cases hq; exact ⟨hp, rfl⟩
  · rw [newChild_scp_new]
  · rw [newChild_scp_new]

/-! ### every step -/

theorem inv_addListener {st : State} (h : Inv st) {s : Nat} (hs : s < st.nScopes) (ev : Ev) (fails : Bool)
    (gate : Option Nat) : Inv (st.addListener s ev fails gate) :=
  ⟨inv_on h.toInv0 hs _ _,
   h.x.keyEq (st' := st.addListener s ev fails gate)
     (keyEq_modScp st s (fun x => { x with listeners := x.listeners ++ [⟨st.nListeners, ev, fails, gate⟩] })
       ⟨rfl, rfl, rfl, rfl, rfl, rfl, rfl, rfl⟩) (fun _ => Nat.le_refl _)⟩

theorem inv_exec {st st' : State} {a : Act} {o : Outcome} (h : Inv st) (he : exec st a = some (st', o)) : Inv st' := by
  cases a with
  | new =>
    simp only [exec, execWith, Option.some.injEq, Prod.mk.injEq] at he; rw [← he.1]
    exact ⟨inv_newRoot h.toInv0, invX_newRoot h⟩
  | child p iso =>
    simp only [exec, execWith] at he
    split at he
    · rename_i hg
      simp only [Option.some.injEq, Prod.mk.injEq] at he; rw [← he.1]
      exact ⟨inv_newChild h.toInv0 hg.1 iso, invX_newChild h hg.1 iso⟩
    · cases he
  | on s ev fails =>
    simp only [exec, execWith] at he
    split at he
    · rename_i hs
      split at he
      · simp only [Option.some.injEq, Prod.mk.injEq] at he; rw [← he.1]; exact h
      · split at he
        · cases he
        · simp only [Option.some.injEq, Prod.mk.injEq] at he; rw [← he.1]; exact inv_addListener h hs _ _ _
    · cases he
  | onGated s ev fails g =>
    simp only [exec, execWith] at he
    split at he
    · rename_i hs
      split at he
      · simp only [Option.some.injEq, Prod.mk.injEq] at he; rw [← he.1]; exact h
      · split at he
        · cases he
        · simp only [Option.some.injEq, Prod.mk.injEq] at he; rw [← he.1]; exact inv_addListener h hs.1 _ _ _
    · cases he
  | addTasks s n =>
    simp only [exec, execWith] at he
    split at he
    · rename_i hs
      split at he
      · simp only [Option.some.injEq, Prod.mk.injEq] at he; rw [← he.1]; exact h
      · simp only [Option.some.injEq, Prod.mk.injEq] at he; rw [← he.1]
        exact ⟨inv_addTasks h.toInv0 hs n, h.x.modScpKey s _ ⟨rfl, rfl, rfl, rfl, rfl, rfl, rfl, rfl⟩⟩
    · cases he
  | doneTask s =>
    simp only [exec, execWith] at he
    split at he
    · rename_i hg
      simp only [Option.some.injEq, Prod.mk.injEq] at he; rw [← he.1]
      exact ⟨inv_doneTask h.toInv0 hg.1 hg.2, h.x.modScpKey s _ ⟨rfl, rfl, rfl, rfl, rfl, rfl, rfl, rfl⟩⟩
    · cases he
  | appErr s =>
    simp only [exec, execWith] at he
    split at he
    · rename_i hs
      split at he
      · simp only [Option.some.injEq, Prod.mk.injEq] at he; rw [← he.1]; exact h
      · simp only [Option.some.injEq, Prod.mk.injEq] at he; rw [← he.1]
        exact ⟨inv_appErr h.toInv0 hs, h.x.evStep (evStep_appendError st s)⟩
    · cases he
  | kill s =>
    simp only [exec, execWith] at he
    split at he
    · rename_i hs
      split at he
      · simp only [Option.some.injEq, Prod.mk.injEq] at he; rw [← he.1]; exact h
      · simp only [Option.some.injEq, Prod.mk.injEq] at he; rw [← he.1]
        exact ⟨inv_kill h.toInv0 hs, h.x.evStep ((evStep_addError st s).trans (evStep_fire _ s .kill none))⟩
    · cases he
  | stop s =>
    simp only [exec, execWith] at he
    split at he
    · rename_i hs
      split at he
      · simp only [Option.some.injEq, Prod.mk.injEq] at he; rw [← he.1]; exact h
      · simp only [Option.some.injEq, Prod.mk.injEq] at he; rw [← he.1]
        exact ⟨inv_stop h.toInv0 hs, h.x.evStep ((evStep_setDone st s).trans (evStep_fire _ s .stop none))⟩
    · cases he
  | close s =>
    simp only [exec, execWith] at he
    split at he
    · rename_i hs
      split at he
      · simp only [Option.some.injEq, Prod.mk.injEq] at he; rw [← he.1]; exact h
      · rename_i hph
        simp only [Option.some.injEq, Prod.mk.injEq] at he; rw [← he.1]
        exact inv_beginClose h hs (by simpa using hph)
    · cases he
  | finish s =>
    simp only [exec, execWith] at he
    split at he
    · rename_i hg
      simp only [Option.some.injEq] at he
      have := (inv_runSteps h hg.1 8).1
      rw [he] at this; exact this
    · cases he
  | step s =>
    simp only [exec, execWith] at he
    split at he
    · rename_i hs; exact inv_micro h hs he
    · cases he
  | release g =>
    simp only [exec, execWith, Option.some.injEq, Prod.mk.injEq] at he; rw [← he.1]; exact inv_release h g
  | propagate c asKill =>
    simp only [exec, execWith] at he
    split at he
    · split at he
      · rename_i hg
        simp only [Option.some.injEq, Prod.mk.injEq] at he; rw [← he.1]
        exact ⟨inv_propagate h.toInv0 hg.1 asKill, invX_modCtx h.x c _ (by cases asKill <;> simp)⟩
      · cases he
    · cases he
  | watcherExit c =>
    simp only [exec, execWith] at he
    split at he
    · rename_i hg
      simp only [Option.some.injEq, Prod.mk.injEq] at he; rw [← he.1]
      exact ⟨inv_watcherExit h.toInv0 hg.1 hg.2.2.2, invX_modCtx h.x c _ (Nat.le_refl _)⟩
    · cases he

theorem inv_step {st st' : State} {a : Act} (h : Inv st) (hs : step st a = some st') : Inv st' := by
  unfold step at hs
  cases he : exec st a with
  | none => rw [he] at hs; cases hs
  | some r =>
    rw [he] at hs
    simp only [Option.map_some, Option.some.injEq] at hs
    obtain ⟨st1, o⟩ := r
    subst hs
    exact inv_exec h he

theorem inv_next {st : State} (h : Inv st) (a : Act) : Inv (next st a) := by
  unfold next
  cases hs : step st a with
  | none => exact h
  | some st' => exact inv_step h hs

theorem inv_runFrom {st : State} (h : Inv st) (sched : List Act) : Inv (runFrom st sched) := by
  induction sched generalizing st with
  | nil => exact h
  | cons a rest ih => exact ih (inv_next h a)

theorem inv_run (sched : List Act) : Inv (run sched) := inv_runFrom inv_init sched

end Goat.Scope
