/-
Helper lemmas for property C11, part 2: the invariant of the scope transition system and its
preservation by every act.
-/
import Goat.Proofs.Scope

namespace Goat.Scope

/-- the close events a scope has fired, as a function of how far its `Close` has got -/
def closeSeq : Phase → Bool → List Ev
  | .opened, _ => []
  | .closing, _ => [.beforeClose]
  | .finished, rb => .beforeClose :: ((if rb then rollbackTriple else commitTriple) ++ [.afterClose])

/-- the structural part of the invariant -/
structure InvS (st : State) : Prop where
  /-- slots beyond the allocated ones are blank -/
  fresh : ∀ s, st.nScopes ≤ s → st.scp s = {}
  freshCtx : ∀ c, st.nCtxs ≤ c → st.ctx c = {}
  parentLt : ∀ c p, (st.scp c).parent = some p → p < c
  ctxLt : ∀ s, s < st.nScopes → (st.scp s).ctx < st.nCtxs
  /-- the wait group counts outstanding tasks plus signed-on children that have not finished -/
  wgEq : ∀ s, (st.scp s).wg + (st.scp s).dones = (st.scp s).adds + (st.scp s).kids.length
  donesLe : ∀ s, (st.scp s).dones ≤ (st.scp s).adds
  kidsMem : ∀ c p, (st.scp c).parent = some p → (st.scp c).registered = true →
    (st.scp c).phase ≠ .finished → c ∈ (st.scp p).kids
  sharedCtx : ∀ c p, (st.scp c).parent = some p → (st.scp c).iso = false → (st.scp c).ctx = (st.scp p).ctx
  isoCtx : ∀ c p, (st.scp c).parent = some p → (st.scp c).iso = true →
    (st.ctx (st.scp c).ctx).parent = some (st.scp p).ctx ∧ (st.scp p).ctx < (st.scp c).ctx
  ctxParentLt : ∀ c pc, (st.ctx c).parent = some pc → pc < c
  /-- a watcher that has taken a branch leaves its context done -/
  watchDone : ∀ c, (st.ctx c).parent.isSome = true → (st.ctx c).watch = false → (st.ctx c).done = true
  /-- an error is appended before the context is stopped -/
  errDone : ∀ c, (st.ctx c).errors ≠ 0 → (st.ctx c).done = true

/-- close events fired so far, per scope -/
def Ord (st : State) : Prop := ∀ s, st.closeTrace s = closeSeq (st.scp s).phase (st.scp s).rolled

structure Inv (st : State) : Prop where
  s : InvS st
  order : Ord st

theorem InvS.parent_lt_n {st : State} (h : InvS st) {c p : Nat} (hp : (st.scp c).parent = some p) :
    c < st.nScopes := by
  rcases Nat.lt_or_ge c st.nScopes with h1 | h1
  · exact h1
  · rw [h.fresh c h1] at hp; cases hp

theorem InvS.ctxParent_lt_n {st : State} (h : InvS st) {c pc : Nat} (hp : (st.ctx c).parent = some pc) :
    c < st.nCtxs := by
  rcases Nat.lt_or_ge c st.nCtxs with h1 | h1
  · exact h1
  · rw [h.freshCtx c h1] at hp; cases hp

theorem invS_init : InvS {} where
  fresh := fun _ _ => rfl
  freshCtx := fun _ _ => rfl
  parentLt := fun _ _ h => by cases h
  ctxLt := fun _ h => absurd h (Nat.not_lt_zero _)
  wgEq := fun _ => rfl
  donesLe := fun _ => Nat.le_refl _
  kidsMem := fun _ _ h => by cases h
  sharedCtx := fun _ _ h => by cases h
  isoCtx := fun _ _ h => by cases h
  ctxParentLt := fun _ _ h => by cases h
  watchDone := fun _ h => by cases h
  errDone := fun _ h => absurd rfl h

theorem inv_init : Inv {} := ⟨invS_init, fun _ => rfl⟩

/-! ### transfer along the event machinery -/

/-- listener invocations and error appends of an allocated scope preserve everything except the
`order` clause, which needs to be told how the trace of close events changed -/
theorem InvS.evStep {st st' : State} {s : Nat} (h : InvS st) (hs : s < st.nScopes) (e : EvStep st st' s) :
    InvS st' where
  fresh := by rw [e.scp, e.nScopes]; exact h.fresh
  freshCtx := by
    intro c hc
    rw [e.nCtxs] at hc
    have : c ≠ (st.scp s).ctx := by have := h.ctxLt s hs; omega
    rw [e.ctx_other c this]; exact h.freshCtx c hc
  parentLt := by rw [e.scp]; exact h.parentLt
  ctxLt := by rw [e.scp, e.nScopes, e.nCtxs]; exact h.ctxLt
  wgEq := by rw [e.scp]; exact h.wgEq
  donesLe := by rw [e.scp]; exact h.donesLe
  kidsMem := by rw [e.scp]; exact h.kidsMem
  sharedCtx := by rw [e.scp]; exact h.sharedCtx
  isoCtx := by
    rw [e.scp]; intro c p h1 h2
    rw [e.ctx_parent]; exact h.isoCtx c p h1 h2
  ctxParentLt := by intro c pc; rw [e.ctx_parent]; exact h.ctxParentLt c pc
  watchDone := by
    intro c; rw [e.ctx_parent, e.ctx_watch]
    intro h1 h2; exact e.ctx_done c (h.watchDone c h1 h2)
  errDone := by
    intro c hc
    by_cases hlt : (st.ctx c).errors < (st'.ctx c).errors
    · exact e.ctx_errdone c hlt
    · have := e.ctx_errors c
      have heq : (st.ctx c).errors = (st'.ctx c).errors := by omega
      exact e.ctx_done c (h.errDone c (by rw [heq]; exact hc))

/-- a change of one allocated scope's record that keeps its tree position, context, phase and
children and keeps the counter equation -/
theorem InvS.modScp {st : State} {s : Nat} (h : InvS st) (hs : s < st.nScopes) (f : Scp → Scp)
    (hpar : (f (st.scp s)).parent = (st.scp s).parent)
    (hreg : (f (st.scp s)).registered = (st.scp s).registered)
    (hiso : (f (st.scp s)).iso = (st.scp s).iso)
    (hctx : (f (st.scp s)).ctx = (st.scp s).ctx)
    (hph : (f (st.scp s)).phase ≠ .finished → (st.scp s).phase ≠ .finished)
    (hkids : ∀ c, c ∈ (st.scp s).kids → (st.scp c).phase ≠ .finished → c ≠ s → c ∈ (f (st.scp s)).kids)
    (hwg : (f (st.scp s)).wg + (f (st.scp s)).dones = (f (st.scp s)).adds + (f (st.scp s)).kids.length)
    (hd : (f (st.scp s)).dones ≤ (f (st.scp s)).adds) : InvS (st.modScp s f) := by
  have hP : ∀ t, ((st.modScp s f).scp t).parent = (st.scp t).parent := by
    intro t; rw [modScp_scp]; split
    · subst_vars; exact hpar
    · rfl
  have hR : ∀ t, ((st.modScp s f).scp t).registered = (st.scp t).registered := by
    intro t; rw [modScp_scp]; split
    · subst_vars; exact hreg
    · rfl
  have hI : ∀ t, ((st.modScp s f).scp t).iso = (st.scp t).iso := by
    intro t; rw [modScp_scp]; split
    · subst_vars; exact hiso
    · rfl
  have hC : ∀ t, ((st.modScp s f).scp t).ctx = (st.scp t).ctx := by
    intro t; rw [modScp_scp]; split
    · subst_vars; exact hctx
    · rfl
  have hPh : ∀ t, ((st.modScp s f).scp t).phase ≠ .finished → (st.scp t).phase ≠ .finished := by
    intro t; rw [modScp_scp]; split
    · subst_vars; exact hph
    · exact id
  have hK : ∀ c t, c ∈ (st.scp t).kids → (st.scp c).phase ≠ .finished → c ≠ s → c ∈ ((st.modScp s f).scp t).kids := by
    intro c t; rw [modScp_scp]; split
    · subst_vars; exact hkids c
    · exact fun h _ _ => h
  refine ⟨?_, h.freshCtx, ?_, ?_, ?_, ?_, ?_, ?_, ?_, h.ctxParentLt, h.watchDone, h.errDone⟩
  · intro t ht
    simp only [modScp_nScopes] at ht
    rw [modScp_scp_ne st f (by omega)]; exact h.fresh t ht
  · intro c p; rw [hP]; exact h.parentLt c p
  · intro t ht; rw [hC]; exact h.ctxLt t ht
  · intro t
    rw [modScp_scp]
    split
    · exact hwg
    · exact h.wgEq t
  · intro t
    rw [modScp_scp]
    split
    · exact hd
    · exact h.donesLe t
  · intro c p; rw [hP, hR]
    intro h1 h2 h3
    by_cases hcs : c = s
    · -- the modified scope itself is a child of `p ≠ s`: the kids of `p` are untouched
      have hlt := h.parentLt c p h1
      rw [modScp_scp_ne st f (by omega)]
      exact h.kidsMem c p h1 h2 (hPh c h3)
    · exact hK c p (h.kidsMem c p h1 h2 (hPh c h3)) (hPh c h3) hcs
  · intro c p; rw [hP, hI, hC, hC]; exact h.sharedCtx c p
  · intro c p; rw [hP, hI, hC, hC, modScp_ctx]; exact h.isoCtx c p


theorem InvS.withListeners {st : State} (h : InvS st) (k : Nat) : InvS { st with nListeners := k } :=
  ⟨h.fresh, h.freshCtx, h.parentLt, h.ctxLt, h.wgEq, h.donesLe, h.kidsMem, h.sharedCtx, h.isoCtx,
   h.ctxParentLt, h.watchDone, h.errDone⟩

/-- a change of one allocated context that keeps its parent link -/
theorem InvS.modCtx {st : State} {c : Nat} (h : InvS st) (hc : c < st.nCtxs) (f : Ctx → Ctx)
    (hpar : (f (st.ctx c)).parent = (st.ctx c).parent)
    (hw : (f (st.ctx c)).parent.isSome = true → (f (st.ctx c)).watch = false → (f (st.ctx c)).done = true)
    (he : (f (st.ctx c)).errors ≠ 0 → (f (st.ctx c)).done = true) : InvS (st.modCtx c f) := by
  have hP : ∀ d, ((st.modCtx c f).ctx d).parent = (st.ctx d).parent := by
    intro d; rw [modCtx_ctx]; split
    · subst_vars; exact hpar
    · rfl
  refine ⟨h.fresh, ?_, h.parentLt, h.ctxLt, h.wgEq, h.donesLe, h.kidsMem, h.sharedCtx, ?_, ?_, ?_, ?_⟩
  · intro d hd
    simp only [modCtx_nCtxs] at hd
    rw [modCtx_ctx_ne st f (by omega)]; exact h.freshCtx d hd
  · intro a b h1 h2
    simp only [modCtx_scp] at *
    rw [hP]; exact h.isoCtx a b h1 h2
  · intro d pc; rw [hP]; exact h.ctxParentLt d pc
  · intro d; rw [modCtx_ctx]; split
    · exact hw
    · exact h.watchDone d
  · intro d; rw [modCtx_ctx]; split
    · exact he
    · exact h.errDone d

/-! ### `Ord` -/

theorem Ord.same {st st' : State} (h : Ord st) (ht : ∀ t, st'.closeTrace t = st.closeTrace t)
    (hp : ∀ t, (st'.scp t).phase = (st.scp t).phase) (hr : ∀ t, (st'.scp t).rolled = (st.scp t).rolled) :
    Ord st' := by
  intro t; rw [ht, hp, hr]; exact h t

/-! ### the acts, one by one -/

theorem inv_on {st : State} (h : Inv st) {s : Nat} (hs : s < st.nScopes) (l : Listener) (k : Nat) :
    Inv { st.modScp s fun x => { x with listeners := x.listeners ++ [l] } with nListeners := k } := by
  have ho : Ord (st.modScp s fun x => { x with listeners := x.listeners ++ [l] }) := by
    intro t
    rw [closeTrace_modScp, modScp_scp]
    split
    · subst_vars; exact h.order _
    · exact h.order t
  exact ⟨InvS.withListeners (h.s.modScp hs _ rfl rfl rfl rfl id (fun _ hc _ _ => hc) (h.s.wgEq s) (h.s.donesLe s)) k, ho⟩

theorem inv_addTasks {st : State} (h : Inv st) {s : Nat} (hs : s < st.nScopes) (n : Nat) :
    Inv (st.modScp s fun x => { x with wg := x.wg + n, adds := x.adds + n }) := by
  refine ⟨h.s.modScp hs _ rfl rfl rfl rfl id (fun _ hc _ _ => hc) ?_ ?_, ?_⟩
  · have := h.s.wgEq s; simp only []; omega
  · have := h.s.donesLe s; simp only []; omega
  · intro t
    rw [closeTrace_modScp, modScp_scp]
    split
    · subst_vars; exact h.order _
    · exact h.order t

theorem inv_doneTask {st : State} (h : Inv st) {s : Nat} (hs : s < st.nScopes)
    (hd : (st.scp s).dones < (st.scp s).adds) :
    Inv (st.modScp s fun x => { x with wg := x.wg - 1, dones := x.dones + 1 }) := by
  refine ⟨h.s.modScp hs _ rfl rfl rfl rfl id (fun _ hc _ _ => hc) ?_ ?_, ?_⟩
  · have := h.s.wgEq s; simp only []; omega
  · simp only []; omega
  · intro t
    rw [closeTrace_modScp, modScp_scp]
    split
    · subst_vars; exact h.order _
    · exact h.order t

theorem inv_appErr {st : State} (h : Inv st) {s : Nat} (hs : s < st.nScopes) : Inv (st.appendError s) :=
  ⟨h.s.evStep hs (evStep_appendError st s),
   h.order.same (fun t => closeTrace_appendError st s t) (fun t => by simp) (fun t => by simp)⟩

theorem inv_kill {st : State} (h : Inv st) {s : Nat} (hs : s < st.nScopes) :
    Inv ((st.addError s).fire s .kill none) :=
  ⟨h.s.evStep hs ((evStep_addError st s).trans (evStep_fire _ s .kill none)),
   h.order.same (fun t => by rw [closeTrace_fire_nonclose _ _ _ _ rfl, closeTrace_addError])
     (fun t => by simp) (fun t => by simp)⟩

theorem inv_stop {st : State} (h : Inv st) {s : Nat} (hs : s < st.nScopes) :
    Inv ((st.setDone s).fire s .stop none) :=
  ⟨h.s.evStep hs ((evStep_setDone st s).trans (evStep_fire _ s .stop none)),
   h.order.same (fun t => by rw [closeTrace_fire_nonclose _ _ _ _ rfl, closeTrace_setDone])
     (fun t => by simp) (fun t => by simp)⟩

theorem inv_beginClose {st : State} (h : Inv st) {s : Nat} (hs : s < st.nScopes)
    (hph : (st.scp s).phase = .opened) : Inv (st.beginClose s) := by
  unfold State.beginClose
  have h1 : InvS (st.modScp s fun x => { x with phase := .closing }) :=
    h.s.modScp hs _ rfl rfl rfl rfl (fun _ => by rw [hph]; decide) (fun _ hc _ _ => hc) (h.s.wgEq s) (h.s.donesLe s)
  refine ⟨h1.evStep (by simpa using hs) (evStep_fire _ s .beforeClose (some s)), ?_⟩
  intro t
  rw [closeTrace_fire, closeTrace_modScp, fire_scp, modScp_scp, h.order t]
  by_cases hts : t = s
  · subst hts; simp [hph, closeSeq, Ev.isClose]
  · have : ¬ s = t := fun e => hts e.symm
    simp [hts, this]


/-! ### allocation -/

/-- allocate a context slot -/
theorem InvS.addCtx {st : State} (h : InvS st) (x : Ctx)
    (hpar : ∀ pc, x.parent = some pc → pc < st.nCtxs)
    (hw : x.parent.isSome = true → x.watch = false → x.done = true)
    (he : x.errors = 0) : InvS { st with nCtxs := st.nCtxs + 1, ctx := upd st.ctx st.nCtxs x } := by
  refine ⟨h.fresh, ?_, h.parentLt, ?_, h.wgEq, h.donesLe, h.kidsMem, h.sharedCtx, ?_, ?_, ?_, ?_⟩
  · intro c hc
    show upd st.ctx st.nCtxs x c = {}
    have hc' : st.nCtxs + 1 ≤ c := hc
    rw [upd_ne _ _ (by omega)]; exact h.freshCtx c (by omega)
  · intro t ht
    have := h.ctxLt t ht
    show (st.scp t).ctx < st.nCtxs + 1
    omega
  · intro c p h1 h2
    show (upd st.ctx st.nCtxs x (st.scp c).ctx).parent = some (st.scp p).ctx ∧ _
    have := h.ctxLt c (h.parent_lt_n h1)
    rw [upd_ne _ _ (by omega)]; exact h.isoCtx c p h1 h2
  · intro c pc
    show (upd st.ctx st.nCtxs x c).parent = some pc → pc < c
    rw [upd_apply]; split
    · subst_vars; exact hpar pc
    · exact h.ctxParentLt c pc
  · intro c
    show (upd st.ctx st.nCtxs x c).parent.isSome = true → (upd st.ctx st.nCtxs x c).watch = false →
      (upd st.ctx st.nCtxs x c).done = true
    rw [upd_apply]; split
    · exact hw
    · exact h.watchDone c
  · intro c
    show (upd st.ctx st.nCtxs x c).errors ≠ 0 → (upd st.ctx st.nCtxs x c).done = true
    rw [upd_apply]; split
    · intro hne; exact absurd he hne
    · exact h.errDone c

/-- allocate a scope slot for a record `y` that fits the tree -/
theorem InvS.addScope {st : State} (h : InvS st) (y : Scp)
    (hpar : ∀ p, y.parent = some p → p < st.nScopes)
    (hctx : y.ctx < st.nCtxs)
    (hwg : y.wg = 0) (hadds : y.adds = 0) (hdones : y.dones = 0) (hkids : y.kids = [])
    (hreg : ∀ p, y.parent = some p → y.registered = true → st.nScopes ∈ (st.scp p).kids)
    (hsh : ∀ p, y.parent = some p → y.iso = false → y.ctx = (st.scp p).ctx)
    (hiso : ∀ p, y.parent = some p → y.iso = true →
      (st.ctx y.ctx).parent = some (st.scp p).ctx ∧ (st.scp p).ctx < y.ctx) :
    InvS { st with nScopes := st.nScopes + 1, scp := upd st.scp st.nScopes y } := by
  have hold : ∀ c p, (st.scp c).parent = some p → c ≠ st.nScopes ∧ p ≠ st.nScopes := by
    intro c p hp
    have h1 := h.parent_lt_n hp
    have h2 := h.parentLt c p hp
    omega
  refine ⟨?_, h.freshCtx, ?_, ?_, ?_, ?_, ?_, ?_, ?_, h.ctxParentLt, h.watchDone, h.errDone⟩
  · intro t ht
    show upd st.scp st.nScopes y t = {}
    have ht' : st.nScopes + 1 ≤ t := ht
    rw [upd_ne _ _ (by omega)]; exact h.fresh t (by omega)
  · intro c p
    show (upd st.scp st.nScopes y c).parent = some p → p < c
    rw [upd_apply]; split
    · subst_vars; exact hpar p
    · exact h.parentLt c p
  · intro t ht
    show (upd st.scp st.nScopes y t).ctx < st.nCtxs
    have ht' : t < st.nScopes + 1 := ht
    rw [upd_apply]; split
    · exact hctx
    · exact h.ctxLt t (by omega)
  · intro t
    show (upd st.scp st.nScopes y t).wg + (upd st.scp st.nScopes y t).dones =
      (upd st.scp st.nScopes y t).adds + (upd st.scp st.nScopes y t).kids.length
    rw [upd_apply]; split
    · simp [hwg, hadds, hdones, hkids]
    · exact h.wgEq t
  · intro t
    show (upd st.scp st.nScopes y t).dones ≤ (upd st.scp st.nScopes y t).adds
    rw [upd_apply]; split
    · simp [hadds, hdones]
    · exact h.donesLe t
  · intro c p
    show (upd st.scp st.nScopes y c).parent = some p → (upd st.scp st.nScopes y c).registered = true →
      (upd st.scp st.nScopes y c).phase ≠ .finished → c ∈ (upd st.scp st.nScopes y p).kids
    rw [upd_apply st.scp _ c]; split
    · subst_vars
      intro h1 h2 _
      have := hpar p h1
      rw [upd_ne _ _ (by omega)]; exact hreg p h1 h2
    · intro h1 h2 h3
      rw [upd_ne _ _ (hold c p h1).2]; exact h.kidsMem c p h1 h2 h3
  · intro c p
    show (upd st.scp st.nScopes y c).parent = some p → (upd st.scp st.nScopes y c).iso = false →
      (upd st.scp st.nScopes y c).ctx = (upd st.scp st.nScopes y p).ctx
    rw [upd_apply st.scp _ c]; split
    · subst_vars
      intro h1 h2
      have := hpar p h1
      rw [upd_ne _ _ (by omega)]; exact hsh p h1 h2
    · intro h1 h2
      rw [upd_ne _ _ (hold c p h1).2]; exact h.sharedCtx c p h1 h2
  · intro c p
    show (upd st.scp st.nScopes y c).parent = some p → (upd st.scp st.nScopes y c).iso = true →
      (st.ctx (upd st.scp st.nScopes y c).ctx).parent = some (upd st.scp st.nScopes y p).ctx ∧
        (upd st.scp st.nScopes y p).ctx < (upd st.scp st.nScopes y c).ctx
    rw [upd_apply st.scp _ c]; split
    · subst_vars
      intro h1 h2
      have := hpar p h1
      rw [upd_ne _ _ (by omega)]; exact hiso p h1 h2
    · intro h1 h2
      rw [upd_ne _ _ (hold c p h1).2]; exact h.isoCtx c p h1 h2

/-- allocating a scope slot with a fresh record keeps `Ord` -/
theorem Ord.addScope {st : State} (h : InvS st) (ho : Ord st) (y : Scp) (hph : y.phase = .opened) :
    Ord { st with nScopes := st.nScopes + 1, scp := upd st.scp st.nScopes y } := by
  intro t
  show st.closeTrace t = closeSeq (upd st.scp st.nScopes y t).phase (upd st.scp st.nScopes y t).rolled
  rw [upd_apply]; split
  · subst_vars
    rw [ho, h.fresh _ (Nat.le_refl _), hph]; rfl
  · exact ho t

theorem inv_newRoot {st : State} (h : Inv st) : Inv st.newRoot := by
  have h1 : InvS { st with nCtxs := st.nCtxs + 1, ctx := upd st.ctx st.nCtxs {} } :=
    h.s.addCtx {} (fun _ hp => by cases hp) (fun hp => by cases hp) rfl
  have ho1 : Ord { st with nCtxs := st.nCtxs + 1, ctx := upd st.ctx st.nCtxs {} } := h.order
  exact ⟨h1.addScope { ctx := st.nCtxs, path := [st.nScopes] } (fun _ hp => by cases hp)
      (Nat.lt_succ_self _) rfl rfl rfl rfl (fun _ hp => by cases hp) (fun _ hp => by cases hp)
      (fun _ hp => by cases hp),
    Ord.addScope h1 ho1 _ rfl⟩


theorem inv_newChild {st : State} (h : Inv st) {p : Nat} (hp : p < st.nScopes) (iso : Bool) :
    Inv (st.newChild p iso) := by
  -- sign-on with the parent
  let st1 : State :=
    if !(st.isDone p) then st.modScp p fun x => { x with wg := x.wg + 1, kids := st.nScopes :: x.kids } else st
  have hn1 : st1.nScopes = st.nScopes := by simp only [st1]; split <;> rfl
  have hc1 : st1.ctx = st.ctx := by simp only [st1]; split <;> rfl
  have hnc1 : st1.nCtxs = st.nCtxs := by simp only [st1]; split <;> rfl
  have hctx1 : ∀ t, (st1.scp t).ctx = (st.scp t).ctx := by
    intro t; simp only [st1]; split
    · rw [modScp_scp]; split
      · subst_vars; rfl
      · rfl
    · rfl
  have hreg1 : (!(st.isDone p)) = true → st.nScopes ∈ (st1.scp p).kids := by
    intro hr; simp only [st1, hr, if_true, modScp_scp_same]; exact List.mem_cons_self
  have hI1 : InvS st1 := by
    simp only [st1]; split
    · refine h.s.modScp hp _ rfl rfl rfl rfl id (fun c hc _ _ => List.mem_cons_of_mem _ hc) ?_ (h.s.donesLe p)
      have := h.s.wgEq p
      simp only [List.length_cons]; omega
    · exact h.s
  have hO1 : Ord st1 := by
    simp only [st1]; split
    · intro t
      rw [closeTrace_modScp, modScp_scp]; split
      · subst_vars; exact h.order _
      · exact h.order t
    · exact h.order
  have hpctx := h.s.ctxLt p hp
  cases iso with
  | false =>
    have heq : st.newChild p false =
        { st1 with nScopes := st1.nScopes + 1,
                   scp := upd st1.scp st1.nScopes
                     { parent := some p, registered := !(st.isDone p), iso := false, ctx := (st.scp p).ctx,
                       path := (st.scp p).path ++ [st.nScopes] } } := by
      by_cases hr : (!(st.isDone p)) = true
      · simp only [State.newChild, st1, hr, if_true, Bool.false_eq_true, if_false]; rfl
      · simp only [State.newChild, st1, hr, if_false, Bool.false_eq_true]
    rw [heq]
    refine ⟨hI1.addScope _ ?_ ?_ rfl rfl rfl rfl ?_ ?_ ?_, Ord.addScope hI1 hO1 _ rfl⟩
    · intro q hq; cases hq; rw [hn1]; exact hp
    · rw [hnc1]; exact hpctx
    · intro q hq hr; cases hq; rw [hn1]; exact hreg1 hr
    · intro q hq _; cases hq; exact (hctx1 p).symm
    · intro q _ hi; cases hi
  | true =>
    let st1c : State :=
      { st1 with nCtxs := st1.nCtxs + 1,
                 ctx := upd st1.ctx st1.nCtxs { parent := some (st.scp p).ctx, watch := true } }
    have hI1c : InvS st1c :=
      hI1.addCtx _ (fun pc hpc => by cases hpc; rw [hnc1]; exact hpctx) (fun _ hw => by cases hw) rfl
    have hO1c : Ord st1c := hO1
    have heq : st.newChild p true =
        { st1c with nScopes := st1c.nScopes + 1,
                    scp := upd st1c.scp st1c.nScopes
                      { parent := some p, registered := !(st.isDone p), iso := true, ctx := st.nCtxs,
                        path := (st.scp p).path ++ [st.nScopes] } } := by
      by_cases hr : (!(st.isDone p)) = true
      · simp only [State.newChild, st1c, st1, hr, if_true]; rfl
      · simp only [State.newChild, st1c, st1, hr, if_true]; rfl
    rw [heq]
    refine ⟨hI1c.addScope _ ?_ ?_ rfl rfl rfl rfl ?_ ?_ ?_, Ord.addScope hI1c hO1c _ rfl⟩
    · intro q hq; cases hq; show p < st1.nScopes; rw [hn1]; exact hp
    · show st.nCtxs < st1.nCtxs + 1; rw [hnc1]; exact Nat.lt_succ_self _
    · intro q hq hr; cases hq; show st1.nScopes ∈ (st1.scp p).kids; rw [hn1]; exact hreg1 hr
    · intro q _ hi; cases hi
    · intro q hq _; cases hq
      show (upd st1.ctx st1.nCtxs _ st.nCtxs).parent = some (st1.scp p).ctx ∧ (st1.scp p).ctx < st.nCtxs
      rw [hnc1, upd_same, hctx1]
      exact ⟨rfl, hpctx⟩


/-! ### finishing a `Close` -/

/-- the commit or rollback triple, then AfterClose -/
def State.closeEvents (st : State) (s : Nat) : State :=
  (if st.hasErr s then
      ((st.fire s .beforeRollback (some s)).fire s .rollback (some s)).fire s .afterRollback (some s)
    else
      ((st.fire s .beforeCommit (some s)).fire s .commit (some s)).fire s .afterCommit (some s)).fire s
    .afterClose (some s)

/-- sign off with the parent and record the outcome -/
def State.signOff (st2 : State) (s : Nat) (rb : Bool) : State :=
  let st3 :=
    match (st2.scp s).parent, (st2.scp s).registered with
    | some p, true => st2.modScp p fun x => { x with wg := x.wg - 1, kids := x.kids.erase s }
    | _, _ => st2
  st3.modScp s fun x => { x with phase := .finished, rolled := rb, result := some (st3.hasErr s) }

theorem finishClose_eq (st : State) (s : Nat) :
    st.finishClose s = (st.closeEvents s).signOff s (st.hasErr s) := rfl

theorem evStep_closeEvents (st : State) (s : Nat) : EvStep st (st.closeEvents s) s := by
  unfold State.closeEvents
  split
  · exact (((evStep_fire _ s _ _).trans (evStep_fire _ s _ _)).trans (evStep_fire _ s _ _)).trans (evStep_fire _ s _ _)
  · exact (((evStep_fire _ s _ _).trans (evStep_fire _ s _ _)).trans (evStep_fire _ s _ _)).trans (evStep_fire _ s _ _)

theorem closeTrace_closeEvents (st : State) (s t : Nat) :
    (st.closeEvents s).closeTrace t =
      st.closeTrace t ++
        (if s = t then (if st.hasErr s then rollbackTriple else commitTriple) ++ [.afterClose] else []) := by
  unfold State.closeEvents
  by_cases hst : s = t
  · subst hst
    split <;> simp [closeTrace_fire, Ev.isClose, rollbackTriple, commitTriple, *]
  · split <;> simp [closeTrace_fire, hst]

theorem modScp_comm (st : State) {a b : Nat} (hab : a ≠ b) (f g : Scp → Scp) :
    (st.modScp a f).modScp b g = (st.modScp b g).modScp a f := by
  have hba : b ≠ a := fun e => hab e.symm
  simp only [State.modScp]
  congr 1
  funext j
  simp only [upd_apply]
  by_cases h1 : j = a <;> by_cases h2 : j = b <;> simp_all

theorem signOff_phase (st2 : State) (s : Nat) (rb : Bool) (t : Nat) :
    ((st2.signOff s rb).scp t).phase = if t = s then .finished else (st2.scp t).phase := by
  unfold State.signOff
  simp only []
  rw [modScp_scp]
  split
  · rfl
  · split
    · rw [modScp_scp]; split <;> simp_all
    · rfl

theorem signOff_rolled (st2 : State) (s : Nat) (rb : Bool) (t : Nat) :
    ((st2.signOff s rb).scp t).rolled = if t = s then rb else (st2.scp t).rolled := by
  unfold State.signOff
  simp only []
  rw [modScp_scp]
  split
  · rfl
  · split
    · rw [modScp_scp]; split <;> simp_all
    · rfl

theorem signOff_closeTrace (st2 : State) (s : Nat) (rb : Bool) (t : Nat) :
    (st2.signOff s rb).closeTrace t = st2.closeTrace t := by
  unfold State.signOff
  simp only []
  split <;> rfl

theorem InvS.signOff {st2 : State} (h : InvS st2) {s : Nat} (hs : s < st2.nScopes)
    (hph : (st2.scp s).phase = .closing) (rb : Bool) : InvS (st2.signOff s rb) := by
  unfold State.signOff
  simp only []
  have hmark : ∀ r : Option Bool,
      InvS (st2.modScp s fun x => { x with phase := .finished, rolled := rb, result := r }) := fun r =>
    h.modScp hs _ rfl rfl rfl rfl (fun hne => absurd rfl hne) (fun _ hc _ _ => hc) (h.wgEq s) (h.donesLe s)
  split
  · rename_i p hpar hreg
    have hlt := h.parentLt s p hpar
    have hps : p ≠ s := by omega
    rw [modScp_comm st2 hps]
    have hm := hmark (some ((st2.modScp p fun x => { x with wg := x.wg - 1, kids := x.kids.erase s }).hasErr s))
    have hp : p < st2.nScopes := by omega
    have hscp_p : ∀ g : Scp → Scp, (st2.modScp s g).scp p = st2.scp p := fun g => modScp_scp_ne st2 g hps
    have hmem : s ∈ (st2.scp p).kids := h.kidsMem s p hpar hreg (by rw [hph]; decide)
    refine hm.modScp (by simpa using hp) _ rfl rfl rfl rfl id ?_ ?_ ?_
    · intro c hc hcph _
      rw [hscp_p] at hc ⊢
      have hcs : c ≠ s := by
        intro e; subst e
        rw [modScp_scp_same] at hcph
        exact hcph rfl
      exact (List.mem_erase_of_ne hcs).mpr hc
    · rw [hscp_p]
      have h1 := h.wgEq p
      have h2 := h.donesLe p
      have h3 := List.length_erase_of_mem hmem
      have h4 := List.length_pos_of_mem hmem
      simp only []
      omega
    · rw [hscp_p]; exact h.donesLe p
  · exact hmark _

theorem inv_finishClose {st : State} (h : Inv st) {s : Nat} (hs : s < st.nScopes)
    (hph : (st.scp s).phase = .closing) : Inv (st.finishClose s) := by
  rw [finishClose_eq]
  have e := evStep_closeEvents st s
  have h2 : InvS (st.closeEvents s) := h.s.evStep hs e
  refine ⟨h2.signOff (by rw [e.nScopes]; exact hs) (by rw [e.scp]; exact hph) _, ?_⟩
  intro t
  rw [signOff_closeTrace, signOff_phase, signOff_rolled, closeTrace_closeEvents, e.scp, h.order t]
  by_cases hts : t = s
  · subst hts
    simp [hph, closeSeq]
  · have : ¬ s = t := fun e => hts e.symm
    simp [hts, this]

/-! ### the watcher -/

theorem inv_propagate {st : State} (h : Inv st) {c : Nat} (hc : c < st.nCtxs) (asKill : Bool) :
    Inv (st.modCtx c fun x =>
      { x with errors := if asKill then x.errors + 1 else x.errors, done := true, watch := false }) :=
  ⟨h.s.modCtx hc _ rfl (fun _ _ => rfl) (fun _ => rfl), h.order.same (fun _ => rfl) (fun _ => rfl) (fun _ => rfl)⟩

theorem inv_watcherExit {st : State} (h : Inv st) {c : Nat} (hc : c < st.nCtxs) (hd : (st.ctx c).done = true) :
    Inv (st.modCtx c fun x => { x with watch := false }) :=
  ⟨h.s.modCtx hc _ rfl (fun _ _ => hd) (fun he => h.s.errDone c he),
   h.order.same (fun _ => rfl) (fun _ => rfl) (fun _ => rfl)⟩

/-! ### every step -/

theorem inv_exec {st st' : State} {a : Act} {o : Outcome} (h : Inv st) (he : exec st a = some (st', o)) : Inv st' := by
  cases a with
  | new => simp only [exec, Option.some.injEq, Prod.mk.injEq] at he; rw [← he.1]; exact inv_newRoot h
  | child p iso =>
    simp only [exec] at he
    split at he
    · rename_i hg
      simp only [Option.some.injEq, Prod.mk.injEq] at he; rw [← he.1]; exact inv_newChild h hg.1 iso
    · cases he
  | on s ev fails =>
    simp only [exec] at he
    split at he
    · rename_i hs
      split at he
      · simp only [Option.some.injEq, Prod.mk.injEq] at he; rw [← he.1]; exact h
      · simp only [Option.some.injEq, Prod.mk.injEq] at he; rw [← he.1]; exact inv_on h hs _ _
    · cases he
  | addTasks s n =>
    simp only [exec] at he
    split at he
    · rename_i hs
      split at he
      · simp only [Option.some.injEq, Prod.mk.injEq] at he; rw [← he.1]; exact h
      · simp only [Option.some.injEq, Prod.mk.injEq] at he; rw [← he.1]; exact inv_addTasks h hs n
    · cases he
  | doneTask s =>
    simp only [exec] at he
    split at he
    · rename_i hg
      simp only [Option.some.injEq, Prod.mk.injEq] at he; rw [← he.1]; exact inv_doneTask h hg.1 hg.2
    · cases he
  | appErr s =>
    simp only [exec] at he
    split at he
    · rename_i hs
      split at he
      · simp only [Option.some.injEq, Prod.mk.injEq] at he; rw [← he.1]; exact h
      · simp only [Option.some.injEq, Prod.mk.injEq] at he; rw [← he.1]; exact inv_appErr h hs
    · cases he
  | kill s =>
    simp only [exec] at he
    split at he
    · rename_i hs
      split at he
      · simp only [Option.some.injEq, Prod.mk.injEq] at he; rw [← he.1]; exact h
      · simp only [Option.some.injEq, Prod.mk.injEq] at he; rw [← he.1]; exact inv_kill h hs
    · cases he
  | stop s =>
    simp only [exec] at he
    split at he
    · rename_i hs
      split at he
      · simp only [Option.some.injEq, Prod.mk.injEq] at he; rw [← he.1]; exact h
      · simp only [Option.some.injEq, Prod.mk.injEq] at he; rw [← he.1]; exact inv_stop h hs
    · cases he
  | close s =>
    simp only [exec] at he
    split at he
    · rename_i hs
      split at he
      · simp only [Option.some.injEq, Prod.mk.injEq] at he; rw [← he.1]; exact h
      · rename_i hph
        simp only [Option.some.injEq, Prod.mk.injEq] at he; rw [← he.1]
        exact inv_beginClose h hs (by simpa using hph)
    · cases he
  | finish s =>
    simp only [exec] at he
    split at he
    · rename_i hg
      simp only [Option.some.injEq, Prod.mk.injEq] at he; rw [← he.1]; exact inv_finishClose h hg.1 hg.2.1
    · cases he
  | propagate c asKill =>
    simp only [exec] at he
    split at he
    · split at he
      · rename_i hg
        simp only [Option.some.injEq, Prod.mk.injEq] at he; rw [← he.1]; exact inv_propagate h hg.1 asKill
      · cases he
    · cases he
  | watcherExit c =>
    simp only [exec] at he
    split at he
    · rename_i hg
      simp only [Option.some.injEq, Prod.mk.injEq] at he; rw [← he.1]; exact inv_watcherExit h hg.1 hg.2.2.2
    · cases he

theorem inv_step {st st' : State} {a : Act} (h : Inv st) (hs : step st a = some st') : Inv st' := by
  unfold step at hs
  cases he : exec st a with
  | none => rw [he] at hs; cases hs
  | some r =>
    rw [he] at hs
    simp only [Option.map_some, Option.some.injEq] at hs
    obtain ⟨st1, o⟩ := r
    subst hs
    exact inv_exec h he

theorem inv_next {st : State} (h : Inv st) (a : Act) : Inv (next st a) := by
  unfold next
  cases hs : step st a with
  | none => exact h
  | some st' => exact inv_step h hs

theorem inv_runFrom {st : State} (h : Inv st) (sched : List Act) : Inv (runFrom st sched) := by
  induction sched generalizing st with
  | nil => exact h
  | cons a rest ih => exact ih (inv_next h a)

theorem inv_run (sched : List Act) : Inv (run sched) := inv_runFrom inv_init sched

end Goat.Scope
