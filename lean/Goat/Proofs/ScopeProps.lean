/-
Helper lemmas for property C11, part 3: monotonicity along schedules, the footprint of the acts of
one scope, shared links, and the lemmas the theorems of `Props/C11.lean` are instances of.
-/
import Goat.Proofs.ScopeInv

namespace Goat.Scope

/-! ### what no step can undo -/

/-- errors are never removed, a done context stays done, an allocated scope keeps its place in the
tree and its context, a finished scope stays finished -/
structure Mono (st st' : State) : Prop where
  nScopes : st.nScopes ≤ st'.nScopes
  errors : ∀ c, (st.ctx c).errors ≤ (st'.ctx c).errors
  done : ∀ c, (st.ctx c).done = true → (st'.ctx c).done = true
  ctx : ∀ s, s < st.nScopes → (st'.scp s).ctx = (st.scp s).ctx
  parent : ∀ s, s < st.nScopes → (st'.scp s).parent = (st.scp s).parent
  iso : ∀ s, s < st.nScopes → (st'.scp s).iso = (st.scp s).iso

theorem Mono.refl (st : State) : Mono st st :=
  ⟨Nat.le_refl _, fun _ => Nat.le_refl _, fun _ h => h, fun _ _ => rfl, fun _ _ => rfl, fun _ _ => rfl⟩

theorem Mono.trans {a b c : State} (h1 : Mono a b) (h2 : Mono b c) : Mono a c where
  nScopes := Nat.le_trans h1.nScopes h2.nScopes
  errors := fun x => Nat.le_trans (h1.errors x) (h2.errors x)
  done := fun x hx => h2.done x (h1.done x hx)
  ctx := fun s hs => (h2.ctx s (Nat.lt_of_lt_of_le hs h1.nScopes)).trans (h1.ctx s hs)
  parent := fun s hs => (h2.parent s (Nat.lt_of_lt_of_le hs h1.nScopes)).trans (h1.parent s hs)
  iso := fun s hs => (h2.iso s (Nat.lt_of_lt_of_le hs h1.nScopes)).trans (h1.iso s hs)

theorem EvStep.mono {st st' : State} {s : Nat} (e : EvStep st st' s) : Mono st st' :=
  ⟨Nat.le_of_eq e.nScopes.symm, e.ctx_errors, e.ctx_done, fun _ _ => by rw [e.scp], fun _ _ => by rw [e.scp],
   fun _ _ => by rw [e.scp]⟩

/-- a change of one scope's record that keeps parent, context and the isolation flag -/
theorem mono_modScp (st : State) (s : Nat) (f : Scp → Scp)
    (hpar : (f (st.scp s)).parent = (st.scp s).parent) (hctx : (f (st.scp s)).ctx = (st.scp s).ctx)
    (hiso : (f (st.scp s)).iso = (st.scp s).iso) : Mono st (st.modScp s f) := by
  refine ⟨Nat.le_refl _, fun _ => Nat.le_refl _, fun _ h => h, ?_, ?_, ?_⟩ <;>
  · intro t _
    rw [modScp_scp]; split
    · subst_vars; assumption
    · rfl

theorem mono_signOff (st2 : State) (s : Nat) (rb : Bool) : Mono st2 (st2.signOff s rb) := by
  unfold State.signOff
  simp only []
  split
  · exact (mono_modScp st2 _ _ rfl rfl rfl).trans (mono_modScp _ _ _ rfl rfl rfl)
  · exact mono_modScp _ _ _ rfl rfl rfl

theorem newRoot_scp_old (st : State) {t : Nat} (ht : t < st.nScopes) : st.newRoot.scp t = st.scp t := by
  show upd st.scp st.nScopes _ t = _
  rw [upd_ne _ _ (by omega)]

theorem newRoot_ctx (st : State) (c : Nat) : st.newRoot.ctx c = if c = st.nCtxs then {} else st.ctx c := rfl

theorem mono_newRoot {st : State} (h : InvS st) : Mono st st.newRoot := by
  refine ⟨Nat.le_succ _, ?_, ?_, ?_, ?_, ?_⟩
  · intro c
    rw [newRoot_ctx]; split
    · subst_vars; rw [h.freshCtx _ (Nat.le_refl _)]; exact Nat.le_refl _
    · exact Nat.le_refl _
  · intro c
    rw [newRoot_ctx]; split
    · subst_vars; rw [h.freshCtx _ (Nat.le_refl _)]; exact id
    · exact id
  all_goals
    intro t ht
    rw [newRoot_scp_old st ht]

/-- the record of an already allocated scope after `newChild`: only the parent's counter and ghost
child list change -/
theorem newChild_scp_old (st : State) (p : Nat) (iso : Bool) {t : Nat} (ht : t < st.nScopes) :
    (st.newChild p iso).scp t =
      if t = p ∧ (!(st.isDone p)) = true then
        { st.scp p with wg := (st.scp p).wg + 1, kids := st.nScopes :: (st.scp p).kids }
      else st.scp t := by
  have hne : t ≠ st.nScopes := by omega
  unfold State.newChild
  by_cases hr : (!(st.isDone p)) = true <;> cases iso <;>
    simp only [hr, if_true, if_false, and_true, and_false, Bool.false_eq_true] <;>
    show upd _ st.nScopes _ t = _ <;> rw [upd_ne _ _ hne]
  · exact modScp_scp st p t _
  · exact modScp_scp st p t _

theorem newChild_ctx (st : State) (p : Nat) (iso : Bool) (c : Nat) :
    (st.newChild p iso).ctx c =
      if iso = true ∧ c = st.nCtxs then { parent := some (st.scp p).ctx, watch := true } else st.ctx c := by
  unfold State.newChild
  by_cases hr : (!(st.isDone p)) = true <;> cases iso <;>
    simp only [hr, if_true, if_false, true_and, false_and, Bool.false_eq_true] <;>
    first | rfl | (show upd _ st.nCtxs _ c = _; rw [upd_apply]; rfl)

theorem newChild_nScopes (st : State) (p : Nat) (iso : Bool) : (st.newChild p iso).nScopes = st.nScopes + 1 := by
  unfold State.newChild
  by_cases hr : (!(st.isDone p)) = true <;> cases iso <;> simp only [hr, if_true, if_false, Bool.false_eq_true] <;> rfl

theorem mono_newChild {st : State} (h : InvS st) (p : Nat) (iso : Bool) : Mono st (st.newChild p iso) := by
  refine ⟨by rw [newChild_nScopes]; exact Nat.le_succ _, ?_, ?_, ?_, ?_, ?_⟩
  · intro c
    rw [newChild_ctx]; split
    · rename_i hc; rw [hc.2, h.freshCtx _ (Nat.le_refl _)]; exact Nat.zero_le _
    · exact Nat.le_refl _
  · intro c
    rw [newChild_ctx]; split
    · rename_i hc; rw [hc.2, h.freshCtx _ (Nat.le_refl _)]; intro hf; cases hf
    · exact id
  all_goals
    intro t ht
    rw [newChild_scp_old st p iso ht]; split
    · rename_i hc; rw [hc.1]
    · rfl

theorem mono_exec {st st' : State} {a : Act} {o : Outcome} (h : Inv st) (he : exec st a = some (st', o)) :
    Mono st st' := by
  cases a with
  | new => simp only [exec, Option.some.injEq, Prod.mk.injEq] at he; rw [← he.1]; exact mono_newRoot h.s
  | child p iso =>
    simp only [exec] at he
    split at he
    · simp only [Option.some.injEq, Prod.mk.injEq] at he; rw [← he.1]; exact mono_newChild h.s p iso
    · cases he
  | on s ev fails =>
    simp only [exec] at he
    split at he
    · split at he
      · simp only [Option.some.injEq, Prod.mk.injEq] at he; rw [← he.1]; exact Mono.refl _
      · simp only [Option.some.injEq, Prod.mk.injEq] at he; rw [← he.1]
        have m := mono_modScp st s (fun x => { x with listeners := x.listeners ++ [⟨st.nListeners, ev, fails⟩] })
          rfl rfl rfl
        exact ⟨m.nScopes, m.errors, m.done, m.ctx, m.parent, m.iso⟩
    · cases he
  | addTasks s n =>
    simp only [exec] at he
    split at he
    · split at he
      · simp only [Option.some.injEq, Prod.mk.injEq] at he; rw [← he.1]; exact Mono.refl _
      · simp only [Option.some.injEq, Prod.mk.injEq] at he; rw [← he.1]; exact mono_modScp st s _ rfl rfl rfl
    · cases he
  | doneTask s =>
    simp only [exec] at he
    split at he
    · simp only [Option.some.injEq, Prod.mk.injEq] at he; rw [← he.1]; exact mono_modScp st s _ rfl rfl rfl
    · cases he
  | appErr s =>
    simp only [exec] at he
    split at he
    · split at he
      · simp only [Option.some.injEq, Prod.mk.injEq] at he; rw [← he.1]; exact Mono.refl _
      · simp only [Option.some.injEq, Prod.mk.injEq] at he; rw [← he.1]; exact (evStep_appendError st s).mono
    · cases he
  | kill s =>
    simp only [exec] at he
    split at he
    · split at he
      · simp only [Option.some.injEq, Prod.mk.injEq] at he; rw [← he.1]; exact Mono.refl _
      · simp only [Option.some.injEq, Prod.mk.injEq] at he; rw [← he.1]
        exact ((evStep_addError st s).trans (evStep_fire _ s .kill none)).mono
    · cases he
  | stop s =>
    simp only [exec] at he
    split at he
    · split at he
      · simp only [Option.some.injEq, Prod.mk.injEq] at he; rw [← he.1]; exact Mono.refl _
      · simp only [Option.some.injEq, Prod.mk.injEq] at he; rw [← he.1]
        exact ((evStep_setDone st s).trans (evStep_fire _ s .stop none)).mono
    · cases he
  | close s =>
    simp only [exec] at he
    split at he
    · split at he
      · simp only [Option.some.injEq, Prod.mk.injEq] at he; rw [← he.1]; exact Mono.refl _
      · simp only [Option.some.injEq, Prod.mk.injEq] at he; rw [← he.1]
        exact (mono_modScp st s _ rfl rfl rfl).trans (evStep_fire _ s .beforeClose (some s)).mono
    · cases he
  | finish s =>
    simp only [exec] at he
    split at he
    · simp only [Option.some.injEq, Prod.mk.injEq] at he; rw [← he.1, finishClose_eq]
      exact (evStep_closeEvents st s).mono.trans (mono_signOff _ s _)
    · cases he
  | propagate c asKill =>
    simp only [exec] at he
    split at he
    · split at he
      · simp only [Option.some.injEq, Prod.mk.injEq] at he; rw [← he.1]
        refine ⟨Nat.le_refl _, ?_, ?_, fun _ _ => rfl, fun _ _ => rfl, fun _ _ => rfl⟩
        · intro d; rw [modCtx_ctx]; split
          · subst_vars; cases asKill <;> simp
          · exact Nat.le_refl _
        · intro d; rw [modCtx_ctx]; split
          · intro _; rfl
          · exact id
      · cases he
    · cases he
  | watcherExit c =>
    simp only [exec] at he
    split at he
    · simp only [Option.some.injEq, Prod.mk.injEq] at he; rw [← he.1]
      refine ⟨Nat.le_refl _, ?_, ?_, fun _ _ => rfl, fun _ _ => rfl, fun _ _ => rfl⟩
      · intro d; rw [modCtx_ctx]; split
        · subst_vars; exact Nat.le_refl _
        · exact Nat.le_refl _
      · intro d; rw [modCtx_ctx]; split
        · subst_vars; exact id
        · exact id
    · cases he

theorem mono_next {st : State} (h : Inv st) (a : Act) : Mono st (next st a) := by
  unfold next step
  cases he : exec st a with
  | none => exact Mono.refl _
  | some r => obtain ⟨st1, o⟩ := r; exact mono_exec h he

theorem mono_runFrom {st : State} (h : Inv st) (sched : List Act) : Mono st (runFrom st sched) := by
  induction sched generalizing st with
  | nil => exact Mono.refl _
  | cons a rest ih => exact (mono_next h a).trans (ih (inv_next h a))


/-! ### shared links -/

/-- `c` is `p` itself or descends from `p` through children each of which shares its parent's
context (no isolated context on the way) -/
inductive SharedLink (st : State) : Nat → Nat → Prop where
  | refl (s : Nat) : SharedLink st s s
  | child {c m p : Nat} : (st.scp c).parent = some m → (st.scp c).iso = false → SharedLink st m p →
      SharedLink st c p

theorem SharedLink.ctx_eq {st : State} (h : InvS st) {c p : Nat} (l : SharedLink st c p) :
    (st.scp c).ctx = (st.scp p).ctx := by
  induction l with
  | refl s => rfl
  | child hp hi _ ih => exact (h.sharedCtx _ _ hp hi).trans ih

/-! ### the footprint of one scope's calls -/

/-- the calls through which a scope can fail or close -/
def Act.onScope (a : Act) (c : Nat) : Prop :=
  a = .appErr c ∨ a = .kill c ∨ a = .stop c ∨ a = .close c ∨ a = .finish c

theorem signOff_ctx (st2 : State) (s : Nat) (rb : Bool) : (st2.signOff s rb).ctx = st2.ctx := by
  unfold State.signOff
  simp only []
  split <;> rfl

/-! inversion of `exec` for the calls of one scope -/

theorem exec_appErr_inv {st st' : State} {o : Outcome} {s : Nat} (he : exec st (.appErr s) = some (st', o)) :
    s < st.nScopes ∧
      ((st' = st ∧ o = .panic ∧ (st.scp s).phase ≠ .opened) ∨
       (st' = st.appendError s ∧ o = .ok ∧ (st.scp s).phase = .opened)) := by
  simp only [exec] at he
  split at he
  · rename_i hs
    refine ⟨hs, ?_⟩
    split at he
    · rename_i hp
      simp only [Option.some.injEq, Prod.mk.injEq] at he
      exact Or.inl ⟨he.1.symm, he.2.symm, hp⟩
    · rename_i hp
      simp only [Option.some.injEq, Prod.mk.injEq] at he
      exact Or.inr ⟨he.1.symm, he.2.symm, by simpa using hp⟩
  · cases he

theorem exec_kill_inv {st st' : State} {o : Outcome} {s : Nat} (he : exec st (.kill s) = some (st', o)) :
    s < st.nScopes ∧
      ((st' = st ∧ o = .panic ∧ (st.scp s).phase ≠ .opened) ∨
       (st' = (st.addError s).fire s .kill none ∧ o = .ok ∧ (st.scp s).phase = .opened)) := by
  simp only [exec] at he
  split at he
  · rename_i hs
    refine ⟨hs, ?_⟩
    split at he
    · rename_i hp
      simp only [Option.some.injEq, Prod.mk.injEq] at he
      exact Or.inl ⟨he.1.symm, he.2.symm, hp⟩
    · rename_i hp
      simp only [Option.some.injEq, Prod.mk.injEq] at he
      exact Or.inr ⟨he.1.symm, he.2.symm, by simpa using hp⟩
  · cases he

theorem exec_stop_inv {st st' : State} {o : Outcome} {s : Nat} (he : exec st (.stop s) = some (st', o)) :
    s < st.nScopes ∧
      ((st' = st ∧ o = .panic ∧ (st.scp s).phase ≠ .opened) ∨
       (st' = (st.setDone s).fire s .stop none ∧ o = .ok ∧ (st.scp s).phase = .opened)) := by
  simp only [exec] at he
  split at he
  · rename_i hs
    refine ⟨hs, ?_⟩
    split at he
    · rename_i hp
      simp only [Option.some.injEq, Prod.mk.injEq] at he
      exact Or.inl ⟨he.1.symm, he.2.symm, hp⟩
    · rename_i hp
      simp only [Option.some.injEq, Prod.mk.injEq] at he
      exact Or.inr ⟨he.1.symm, he.2.symm, by simpa using hp⟩
  · cases he

theorem exec_close_inv {st st' : State} {o : Outcome} {s : Nat} (he : exec st (.close s) = some (st', o)) :
    s < st.nScopes ∧
      ((st' = st ∧ o = .panic ∧ (st.scp s).phase ≠ .opened) ∨
       (st' = st.beginClose s ∧ o = .ok ∧ (st.scp s).phase = .opened)) := by
  simp only [exec] at he
  split at he
  · rename_i hs
    refine ⟨hs, ?_⟩
    split at he
    · rename_i hp
      simp only [Option.some.injEq, Prod.mk.injEq] at he
      exact Or.inl ⟨he.1.symm, he.2.symm, hp⟩
    · rename_i hp
      simp only [Option.some.injEq, Prod.mk.injEq] at he
      exact Or.inr ⟨he.1.symm, he.2.symm, by simpa using hp⟩
  · cases he

theorem exec_finish_inv {st st' : State} {o : Outcome} {s : Nat} (he : exec st (.finish s) = some (st', o)) :
    s < st.nScopes ∧ (st.scp s).phase = .closing ∧ (st.scp s).wg = 0 ∧
      st' = st.finishClose s ∧ o = .closed (st'.hasErr s) := by
  simp only [exec] at he
  split at he
  · rename_i hg
    simp only [Option.some.injEq, Prod.mk.injEq] at he
    exact ⟨hg.1, hg.2.1, hg.2.2, he.1.symm, by rw [← he.2, ← he.1]⟩
  · cases he

theorem evStep_beginClose (st : State) (s : Nat) :
    EvStep (st.modScp s fun y => { y with phase := .closing }) (st.beginClose s) s :=
  evStep_fire _ s .beforeClose (some s)

/-- a call on scope `c` touches no context but the one of `c` -/
theorem exec_footprint {st st' : State} {a : Act} {o : Outcome} {c : Nat} (ha : a.onScope c)
    (he : exec st a = some (st', o)) : ∀ x, x ≠ (st.scp c).ctx → st'.ctx x = st.ctx x := by
  intro x hx
  rcases ha with ha | ha | ha | ha | ha <;> subst ha
  · rcases (exec_appErr_inv he).2 with ⟨h1, _, _⟩ | ⟨h1, _, _⟩ <;> subst h1
    · rfl
    · exact (evStep_appendError st c).ctx_other x hx
  · rcases (exec_kill_inv he).2 with ⟨h1, _, _⟩ | ⟨h1, _, _⟩ <;> subst h1
    · rfl
    · exact ((evStep_addError st c).trans (evStep_fire _ c .kill none)).ctx_other x hx
  · rcases (exec_stop_inv he).2 with ⟨h1, _, _⟩ | ⟨h1, _, _⟩ <;> subst h1
    · rfl
    · exact ((evStep_setDone st c).trans (evStep_fire _ c .stop none)).ctx_other x hx
  · rcases (exec_close_inv he).2 with ⟨h1, _, _⟩ | ⟨h1, _, _⟩ <;> subst h1
    · rfl
    · exact (evStep_beginClose st c).ctx_other x (by simpa using hx)
  · obtain ⟨_, _, _, h1, _⟩ := exec_finish_inv he
    subst h1
    rw [finishClose_eq, signOff_ctx]
    exact (evStep_closeEvents st c).ctx_other x hx

/-- a successful `AppendError` or `Kill` leaves the scope's context with an error and done -/
theorem evStep_appendError_from_add (st : State) (s : Nat) : EvStep (st.addError s) (st.appendError s) s := by
  unfold State.appendError
  have h2 := evStep_trigger (st.addError s) s .error none
  simp only []
  split
  · exact h2.trans (evStep_addError _ s)
  · exact h2

theorem fail_sets_error {st st' : State} {a : Act} {c : Nat} (ha : a = .appErr c ∨ a = .kill c)
    (he : exec st a = some (st', .ok)) :
    (st'.ctx (st.scp c).ctx).errors ≠ 0 ∧ (st'.ctx (st.scp c).ctx).done = true := by
  have hadd := addError_hasErr st c
  have key : ∀ st'', EvStep (st.addError c) st'' c →
      (st''.ctx (st.scp c).ctx).errors ≠ 0 ∧ (st''.ctx (st.scp c).ctx).done = true := by
    intro st'' e
    have h1 := e.ctx_errors (st.scp c).ctx
    exact ⟨by omega, e.ctx_done _ hadd.2⟩
  rcases ha with ha | ha <;> subst ha
  · rcases (exec_appErr_inv he).2 with ⟨_, h2, _⟩ | ⟨h1, _, _⟩
    · cases h2
    · subst h1; exact key _ (evStep_appendError_from_add st c)
  · rcases (exec_kill_inv he).2 with ⟨_, h2, _⟩ | ⟨h1, _, _⟩
    · cases h2
    · subst h1; exact key _ (evStep_fire _ c .kill none)

theorem signOff_result (st2 : State) (s : Nat) (rb : Bool) :
    ((st2.signOff s rb).scp s).result = some ((st2.signOff s rb).hasErr s) := by
  unfold State.signOff
  simp only []
  rw [modScp_scp_same]
  simp [State.hasErr, State.ctxOf]

/-- what a finishing `Close` fires and returns -/
theorem finish_outcome {st st' : State} {s : Nat} {o : Outcome} (h : Inv st)
    (he : exec st (.finish s) = some (st', o)) :
    st'.closeTrace s =
        .beforeClose :: ((if st.hasErr s then rollbackTriple else commitTriple) ++ [.afterClose]) ∧
      o = .closed (st'.hasErr s) ∧ (st'.scp s).result = some (st'.hasErr s) ∧
      (st.hasErr s = true → st'.hasErr s = true) := by
  obtain ⟨hs, hph, _, h1, h2⟩ := exec_finish_inv he
  have m := mono_exec h he
  subst h1
  refine ⟨?_, h2, ?_, ?_⟩
  · rw [finishClose_eq, signOff_closeTrace, closeTrace_closeEvents, h.order s, hph]
    simp [closeSeq]
  · rw [finishClose_eq]; exact signOff_result _ s _
  · intro he0
    simp only [State.hasErr, State.ctxOf, bne_iff_ne, ne_eq] at he0 ⊢
    rw [m.ctx s hs]
    have := m.errors (st.scp s).ctx
    omega

end Goat.Scope
