/-
Helper lemmas for property C11, part 3: monotonicity along schedules, the footprint of the acts of
one scope, shared links, and the lemmas the theorems of `Props/C11.lean` are instances of.
-/
import Goat.Proofs.ScopeInv

namespace Goat.Scope

/-! ### what no step can undo -/

/-- errors are never removed, a done context stays done, an allocated scope keeps its place in the
tree, its context and its sign-on; once `Wait()` has returned the branch is fixed; once a scope has
signed off no listener of its `Close` runs any more -/
structure Mono (st st' : State) : Prop where
  nScopes : st.nScopes ≤ st'.nScopes
  errors : ∀ c, (st.ctx c).errors ≤ (st'.ctx c).errors
  done : ∀ c, (st.ctx c).done = true → (st'.ctx c).done = true
  ctx : ∀ s, s < st.nScopes → (st'.scp s).ctx = (st.scp s).ctx
  parent : ∀ s, s < st.nScopes → (st'.scp s).parent = (st.scp s).parent
  iso : ∀ s, s < st.nScopes → (st'.scp s).iso = (st.scp s).iso
  reg : ∀ s, s < st.nScopes → (st'.scp s).registered = (st.scp s).registered ∧ (st'.scp s).late = (st.scp s).late
  waited : ∀ s, s < st.nScopes → (st.scp s).phase.waited = true →
    (st'.scp s).phase.waited = true ∧ (st'.scp s).rolled = (st.scp s).rolled
  frozen : ∀ s, s < st.nScopes → (st.scp s).phase.live = false →
    (st'.scp s).phase.live = false ∧ (st'.scp s).lfail = (st.scp s).lfail ∧ (st'.scp s).park = (st.scp s).park

theorem Mono.refl (st : State) : Mono st st :=
  ⟨Nat.le_refl _, fun _ => Nat.le_refl _, fun _ h => h, fun _ _ => rfl, fun _ _ => rfl, fun _ _ => rfl,
   fun _ _ => ⟨rfl, rfl⟩, fun _ _ h => ⟨h, rfl⟩, fun _ _ h => ⟨h, rfl, rfl⟩⟩

theorem Mono.trans {a b c : State} (h1 : Mono a b) (h2 : Mono b c) : Mono a c where
  nScopes := Nat.le_trans h1.nScopes h2.nScopes
  errors := fun x => Nat.le_trans (h1.errors x) (h2.errors x)
  done := fun x hx => h2.done x (h1.done x hx)
  ctx := fun s hs => (h2.ctx s (Nat.lt_of_lt_of_le hs h1.nScopes)).trans (h1.ctx s hs)
  parent := fun s hs => (h2.parent s (Nat.lt_of_lt_of_le hs h1.nScopes)).trans (h1.parent s hs)
  iso := fun s hs => (h2.iso s (Nat.lt_of_lt_of_le hs h1.nScopes)).trans (h1.iso s hs)
  reg := fun s hs =>
    have a1 := h1.reg s hs
    have a2 := h2.reg s (Nat.lt_of_lt_of_le hs h1.nScopes)
    ⟨a2.1.trans a1.1, a2.2.trans a1.2⟩
  waited := fun s hs hw =>
    have a1 := h1.waited s hs hw
    have a2 := h2.waited s (Nat.lt_of_lt_of_le hs h1.nScopes) a1.1
    ⟨a2.1, a2.2.trans a1.2⟩
  frozen := fun s hs hl =>
    have a1 := h1.frozen s hs hl
    have a2 := h2.frozen s (Nat.lt_of_lt_of_le hs h1.nScopes) a1.1
    ⟨a2.1, a2.2.1.trans a1.2.1, a2.2.2.trans a1.2.2⟩

/-- nothing but contexts (growing) changes -/
theorem mono_of_scp_eq {st st' : State} (hn : st'.nScopes = st.nScopes) (hs : st'.scp = st.scp)
    (he : ∀ c, (st.ctx c).errors ≤ (st'.ctx c).errors)
    (hd : ∀ c, (st.ctx c).done = true → (st'.ctx c).done = true) : Mono st st' :=
  ⟨Nat.le_of_eq hn.symm, he, hd, fun _ _ => by rw [hs], fun _ _ => by rw [hs], fun _ _ => by rw [hs],
   fun _ _ => by rw [hs]; exact ⟨rfl, rfl⟩, fun _ _ h => by rw [hs]; exact ⟨h, rfl⟩,
   fun _ _ h => by rw [hs]; exact ⟨h, rfl, rfl⟩⟩

theorem EvStep.mono {st st' : State} {s : Nat} (e : EvStep st st' s) : Mono st st' :=
  mono_of_scp_eq e.nScopes e.scp e.ctx_errors e.ctx_done

/-- a change of one scope's record that keeps its tree position and moves its `Close` forward -/
theorem mono_modScp (st : State) (s : Nat) (f : Scp → Scp)
    (hpar : (f (st.scp s)).parent = (st.scp s).parent) (hctx : (f (st.scp s)).ctx = (st.scp s).ctx)
    (hiso : (f (st.scp s)).iso = (st.scp s).iso)
    (hreg : (f (st.scp s)).registered = (st.scp s).registered) (hlate : (f (st.scp s)).late = (st.scp s).late)
    (hw : (st.scp s).phase.waited = true →
      (f (st.scp s)).phase.waited = true ∧ (f (st.scp s)).rolled = (st.scp s).rolled)
    (hl : (st.scp s).phase.live = false →
      (f (st.scp s)).phase.live = false ∧ (f (st.scp s)).lfail = (st.scp s).lfail ∧
        (f (st.scp s)).park = (st.scp s).park) : Mono st (st.modScp s f) := by
  refine ⟨Nat.le_refl _, fun _ => Nat.le_refl _, fun _ h => h, ?_, ?_, ?_, ?_, ?_, ?_⟩
  all_goals
    intro t _
    rw [modScp_scp]; split
    · subst_vars; first | assumption | exact ⟨hreg, hlate⟩
    · first | rfl | exact ⟨rfl, rfl⟩ | exact fun h => ⟨h, rfl⟩ | exact fun h => ⟨h, rfl, rfl⟩

/-- … for changes of fields no clause of `Mono` looks at -/
theorem mono_modScp_plain (st : State) (s : Nat) (f : Scp → Scp)
    (hk : KeyEq (f (st.scp s)) (st.scp s)) (hiso : (f (st.scp s)).iso = (st.scp s).iso) :
    Mono st (st.modScp s f) :=
  mono_modScp st s f hk.parent hk.ctx hiso hk.registered hk.late
    (fun h => by rw [hk.phase, hk.rolled]; exact ⟨h, rfl⟩)
    (fun h => by rw [hk.phase, hk.lfail, hk.park]; exact ⟨h, rfl, rfl⟩)

theorem TrigStep.mono {st st' : State} {s : Nat} {ev : Ev}
    (hev : evOf (st.scp s).phase (st.scp s).rolled = some ev) (ts : TrigStep st s st') : Mono st st' := by
  have hfacts := evOf_facts hev
  have hwn : (st.scp s).phase.waited = true → (st.scp s).phase.next.waited = true := by
    revert hev; cases (st.scp s).phase <;> cases (st.scp s).rolled <;> simp [evOf, Phase.waited, Phase.next]
  cases ts with
  | parked st1 p e =>
    refine e.mono.trans (mono_modScp st1 s _ rfl rfl rfl rfl rfl (fun h => ⟨h, rfl⟩) ?_)
    intro h; rw [e.scp, hfacts.1] at h; cases h
  | ended st1 failed e _ =>
    refine e.mono.trans (mono_modScp st1 s _ rfl rfl rfl rfl rfl ?_ ?_)
    · intro h; rw [e.scp] at h ⊢; exact ⟨hwn h, rfl⟩
    · intro h; rw [e.scp, hfacts.1] at h; cases h

theorem mono_signOffParent (st : State) (s : Nat) : Mono st (st.signOffParent s) := by
  unfold State.signOffParent
  split
  · exact mono_modScp_plain st _ _ ⟨rfl, rfl, rfl, rfl, rfl, rfl, rfl, rfl⟩ rfl
  · exact Mono.refl _

theorem mono_microCase {st st' : State} {s : Nat} {o : Outcome} (h : Inv st) (m : MicroCase st s st' o) :
    Mono st st' := by
  cases m with
  | resume p ev _ _ hev => exact (trigStep_resumeTrigger st s ev p).mono hev
  | start ev _ hev => exact (trigStep_startTrigger st s ev).mono hev
  | pick _ hph _ =>
    exact mono_modScp st s _ rfl rfl rfl rfl rfl (fun hw => by rw [hph] at hw; cases hw)
      (fun hl => by rw [hph] at hl; cases hl)
  | signOff hpk hph =>
    have hself : (st.signOffParent s).scp s = st.scp s :=
      signOffParent_scp_self st s (fun p hp e => by have := h.s.parentLt s p hp; omega)
    refine (mono_signOffParent st s).trans (mono_modScp _ s _ rfl rfl rfl rfl rfl ?_ ?_)
    · intro hw; rw [hself]; exact ⟨rfl, rfl⟩
    · intro hl; rw [hself, hph] at hl; cases hl
  | ret hpk hph =>
    exact mono_modScp st s _ rfl rfl rfl rfl rfl (fun _ => ⟨rfl, rfl⟩) (fun _ => ⟨rfl, rfl, rfl⟩)

theorem mono_micro {st st' : State} {s : Nat} {o : Outcome} (h : Inv st) (hm : micro st s = some (st', o)) :
    Mono st st' := mono_microCase h (micro_cases hm)

theorem mono_runSteps {st : State} {s : Nat} (h : Inv st) (hs : s < st.nScopes) (n : Nat) :
    Mono st (runSteps micro s n st).1 :=
  (runSteps_induct (P := fun x => Inv x ∧ s < x.nScopes ∧ Mono st x)
    (fun a b o ha hm => ⟨inv_micro ha.1 ha.2.1 hm,
      by rw [microCase_nScopes (micro_cases hm)]; exact ha.2.1, ha.2.2.trans (mono_micro ha.1 hm)⟩)
    n st ⟨h, hs, Mono.refl st⟩).2.2

theorem mono_newRoot {st : State} (h : InvS st) : Mono st st.newRoot := by
  have hold : ∀ t, t < st.nScopes → st.newRoot.scp t = st.scp t := fun t ht => newRoot_scp_old st (by omega)
  refine ⟨Nat.le_succ _, ?_, ?_, ?_, ?_, ?_, ?_, ?_, ?_⟩
  · intro c
    rw [newRoot_ctx]; split
    · subst_vars; rw [h.freshCtx _ (Nat.le_refl _)]; exact Nat.le_refl _
    · exact Nat.le_refl _
  · intro c
    rw [newRoot_ctx]; split
    · subst_vars; rw [h.freshCtx _ (Nat.le_refl _)]; exact id
    · exact id
  all_goals
    intro t ht
    rw [hold t ht]
    try (first | rfl | exact ⟨rfl, rfl⟩ | exact fun h => ⟨h, rfl⟩ | exact fun h => ⟨h, rfl, rfl⟩)

theorem mono_newChild {st : State} (h : InvS st) (p : Nat) (iso : Bool) : Mono st (st.newChild p iso) := by
  refine ⟨by rw [newChild_nScopes]; exact Nat.le_succ _, ?_, ?_, ?_, ?_, ?_, ?_, ?_, ?_⟩
  · intro c
    rw [newChild_ctx]; split
    · rename_i hc; rw [hc.2, h.freshCtx _ (Nat.le_refl _)]; exact Nat.zero_le _
    · exact Nat.le_refl _
  · intro c
    rw [newChild_ctx]; split
    · rename_i hc; rw [hc.2, h.freshCtx _ (Nat.le_refl _)]; intro hf; cases hf
    · exact id
  all_goals
    intro t ht
    rw [newChild_scp_old st p iso (show t ≠ st.nScopes by omega)]; split
    · rename_i hc; rw [hc.1]
      try (first | rfl | exact ⟨rfl, rfl⟩ | exact fun h => ⟨h, rfl⟩ | exact fun h => ⟨h, rfl, rfl⟩)
    · try (first | rfl | exact ⟨rfl, rfl⟩ | exact fun h => ⟨h, rfl⟩ | exact fun h => ⟨h, rfl, rfl⟩)

theorem mono_addListener (st : State) (s : Nat) (ev : Ev) (fails : Bool) (gate : Option Nat) :
    Mono st (st.addListener s ev fails gate) := by
  have m := mono_modScp_plain st s
    (fun x => { x with listeners := x.listeners ++ [⟨st.nListeners, ev, fails, gate⟩] })
    ⟨rfl, rfl, rfl, rfl, rfl, rfl, rfl, rfl⟩ rfl
  exact ⟨m.nScopes, m.errors, m.done, m.ctx, m.parent, m.iso, m.reg, m.waited, m.frozen⟩

theorem mono_modCtx (st : State) (c : Nat) (f : Ctx → Ctx) (he : (st.ctx c).errors ≤ (f (st.ctx c)).errors)
    (hd : (st.ctx c).done = true → (f (st.ctx c)).done = true) : Mono st (st.modCtx c f) :=
  mono_of_scp_eq rfl rfl
    (fun d => by rw [modCtx_ctx]; split
                 · subst_vars; exact he
                 · exact Nat.le_refl _)
    (fun d => by rw [modCtx_ctx]; split
                 · subst_vars; exact hd
                 · exact id)

theorem mono_exec {st st' : State} {a : Act} {o : Outcome} (h : Inv st) (he : exec st a = some (st', o)) :
    Mono st st' := by
  cases a with
  | new => simp only [exec, execWith, Option.some.injEq, Prod.mk.injEq] at he; rw [← he.1]; exact mono_newRoot h.s
  | child p iso =>
    simp only [exec, execWith] at he
    split at he
    · simp only [Option.some.injEq, Prod.mk.injEq] at he; rw [← he.1]; exact mono_newChild h.s p iso
    · cases he
  | on s ev fails =>
    simp only [exec, execWith] at he
    split at he
    · split at he
      · simp only [Option.some.injEq, Prod.mk.injEq] at he; rw [← he.1]; exact Mono.refl _
      · split at he
        · cases he
        · simp only [Option.some.injEq, Prod.mk.injEq] at he; rw [← he.1]; exact mono_addListener st s _ _ _
    · cases he
  | onGated s ev fails g =>
    simp only [exec, execWith] at he
    split at he
    · split at he
      · simp only [Option.some.injEq, Prod.mk.injEq] at he; rw [← he.1]; exact Mono.refl _
      · split at he
        · cases he
        · simp only [Option.some.injEq, Prod.mk.injEq] at he; rw [← he.1]; exact mono_addListener st s _ _ _
    · cases he
  | addTasks s n =>
    simp only [exec, execWith] at he
    split at he
    · split at he
      · simp only [Option.some.injEq, Prod.mk.injEq] at he; rw [← he.1]; exact Mono.refl _
      · simp only [Option.some.injEq, Prod.mk.injEq] at he; rw [← he.1]
        exact mono_modScp_plain st s _ ⟨rfl, rfl, rfl, rfl, rfl, rfl, rfl, rfl⟩ rfl
    · cases he
  | doneTask s =>
    simp only [exec, execWith] at he
    split at he
    · simp only [Option.some.injEq, Prod.mk.injEq] at he; rw [← he.1]
      exact mono_modScp_plain st s _ ⟨rfl, rfl, rfl, rfl, rfl, rfl, rfl, rfl⟩ rfl
    · cases he
  | appErr s =>
    simp only [exec, execWith] at he
    split at he
    · split at he
      · simp only [Option.some.injEq, Prod.mk.injEq] at he; rw [← he.1]; exact Mono.refl _
      · simp only [Option.some.injEq, Prod.mk.injEq] at he; rw [← he.1]; exact (evStep_appendError st s).mono
    · cases he
  | kill s =>
    simp only [exec, execWith] at he
    split at he
    · split at he
      · simp only [Option.some.injEq, Prod.mk.injEq] at he; rw [← he.1]; exact Mono.refl _
      · simp only [Option.some.injEq, Prod.mk.injEq] at he; rw [← he.1]
        exact ((evStep_addError st s).trans (evStep_fire _ s .kill none)).mono
    · cases he
  | stop s =>
    simp only [exec, execWith] at he
    split at he
    · split at he
      · simp only [Option.some.injEq, Prod.mk.injEq] at he; rw [← he.1]; exact Mono.refl _
      · simp only [Option.some.injEq, Prod.mk.injEq] at he; rw [← he.1]
        exact ((evStep_setDone st s).trans (evStep_fire _ s .stop none)).mono
    · cases he
  | close s =>
    simp only [exec, execWith] at he
    split at he
    · rename_i hs
      split at he
      · simp only [Option.some.injEq, Prod.mk.injEq] at he; rw [← he.1]; exact Mono.refl _
      · rename_i hph
        have hph' : (st.scp s).phase = .opened := by simpa using hph
        simp only [Option.some.injEq, Prod.mk.injEq] at he; rw [← he.1]
        unfold State.beginClose
        refine (mono_modScp st s (fun x => { x with phase := .begun }) rfl rfl rfl rfl rfl
          (fun hw => by rw [hph'] at hw; cases hw)
          (fun hl => by rw [hph'] at hl; cases hl)).trans ?_
        exact (trigStep_startTrigger _ s .beforeClose).mono (ev := .beforeClose) (by rw [modScp_scp_same]; rfl)
    · cases he
  | finish s =>
    simp only [exec, execWith] at he
    split at he
    · rename_i hg
      simp only [Option.some.injEq] at he
      have := mono_runSteps h hg.1 8
      rw [he] at this; exact this
    · cases he
  | step s =>
    simp only [exec, execWith] at he
    split at he
    · exact mono_micro h he
    · cases he
  | release g =>
    simp only [exec, execWith, Option.some.injEq, Prod.mk.injEq] at he; rw [← he.1]
    exact mono_of_scp_eq rfl rfl (fun _ => Nat.le_refl _) (fun _ hd => hd)
  | propagate c asKill =>
    simp only [exec, execWith] at he
    split at he
    · split at he
      · simp only [Option.some.injEq, Prod.mk.injEq] at he; rw [← he.1]
        exact mono_modCtx st c _ (by cases asKill <;> simp) (fun _ => rfl)
      · cases he
    · cases he
  | watcherExit c =>
    simp only [exec, execWith] at he
    split at he
    · simp only [Option.some.injEq, Prod.mk.injEq] at he; rw [← he.1]
      exact mono_modCtx st c _ (Nat.le_refl _) id
    · cases he

theorem mono_next {st : State} (h : Inv st) (a : Act) : Mono st (next st a) := by
  unfold next step
  cases he : exec st a with
  | none => exact Mono.refl _
  | some r => obtain ⟨st1, o⟩ := r; exact mono_exec h he

theorem mono_runFrom {st : State} (h : Inv st) (sched : List Act) : Mono st (runFrom st sched) := by
  induction sched generalizing st with
  | nil => exact Mono.refl _
  | cons a rest ih => exact (mono_next h a).trans (ih (inv_next h a))

/-! ### shared links -/

/-- `c` is `p` itself or descends from `p` through children each of which shares its parent's
context (no isolated context on the way) -/
inductive SharedLink (st : State) : Nat → Nat → Prop where
  | refl (s : Nat) : SharedLink st s s
  | child {c m p : Nat} : (st.scp c).parent = some m → (st.scp c).iso = false → SharedLink st m p →
      SharedLink st c p

theorem SharedLink.ctx_eq {st : State} (h : InvS st) {c p : Nat} (l : SharedLink st c p) :
    (st.scp c).ctx = (st.scp p).ctx := by
  induction l with
  | refl s => rfl
  | child hp hi _ ih => exact (h.sharedCtx _ _ hp hi).trans ih

/-! ### inversion of `exec` for the calls of one scope -/

/-- the calls through which a scope can fail or close, and the steps of its closing goroutine -/
def Act.onScope (a : Act) (c : Nat) : Prop :=
  a = .appErr c ∨ a = .kill c ∨ a = .stop c ∨ a = .close c ∨ a = .finish c ∨ a = .step c

theorem exec_appErr_inv {st st' : State} {o : Outcome} {s : Nat} (he : exec st (.appErr s) = some (st', o)) :
    s < st.nScopes ∧
      ((st' = st ∧ o = .panic ∧ (st.scp s).phase ≠ .opened) ∨
       (st' = st.appendError s ∧ o = .ok ∧ (st.scp s).phase = .opened)) := by
  simp only [exec, execWith] at he
  split at he
  · rename_i hs
    refine ⟨hs, ?_⟩
    split at he
    · rename_i hp
      simp only [Option.some.injEq, Prod.mk.injEq] at he
      exact Or.inl ⟨he.1.symm, he.2.symm, hp⟩
    · rename_i hp
      simp only [Option.some.injEq, Prod.mk.injEq] at he
      exact Or.inr ⟨he.1.symm, he.2.symm, by simpa using hp⟩
  · cases he

theorem exec_kill_inv {st st' : State} {o : Outcome} {s : Nat} (he : exec st (.kill s) = some (st', o)) :
    s < st.nScopes ∧
      ((st' = st ∧ o = .panic ∧ (st.scp s).phase ≠ .opened) ∨
       (st' = (st.addError s).fire s .kill none ∧ o = .ok ∧ (st.scp s).phase = .opened)) := by
  simp only [exec, execWith] at he
  split at he
  · rename_i hs
    refine ⟨hs, ?_⟩
    split at he
    · rename_i hp
      simp only [Option.some.injEq, Prod.mk.injEq] at he
      exact Or.inl ⟨he.1.symm, he.2.symm, hp⟩
    · rename_i hp
      simp only [Option.some.injEq, Prod.mk.injEq] at he
      exact Or.inr ⟨he.1.symm, he.2.symm, by simpa using hp⟩
  · cases he

theorem exec_stop_inv {st st' : State} {o : Outcome} {s : Nat} (he : exec st (.stop s) = some (st', o)) :
    s < st.nScopes ∧
      ((st' = st ∧ o = .panic ∧ (st.scp s).phase ≠ .opened) ∨
       (st' = (st.setDone s).fire s .stop none ∧ o = .ok ∧ (st.scp s).phase = .opened)) := by
  simp only [exec, execWith] at he
  split at he
  · rename_i hs
    refine ⟨hs, ?_⟩
    split at he
    · rename_i hp
      simp only [Option.some.injEq, Prod.mk.injEq] at he
      exact Or.inl ⟨he.1.symm, he.2.symm, hp⟩
    · rename_i hp
      simp only [Option.some.injEq, Prod.mk.injEq] at he
      exact Or.inr ⟨he.1.symm, he.2.symm, by simpa using hp⟩
  · cases he

theorem exec_close_inv {st st' : State} {o : Outcome} {s : Nat} (he : exec st (.close s) = some (st', o)) :
    s < st.nScopes ∧
      ((st' = st ∧ o = .panic ∧ (st.scp s).phase ≠ .opened) ∨
       (st' = st.beginClose s ∧ o = .ok ∧ (st.scp s).phase = .opened)) := by
  simp only [exec, execWith] at he
  split at he
  · rename_i hs
    refine ⟨hs, ?_⟩
    split at he
    · rename_i hp
      simp only [Option.some.injEq, Prod.mk.injEq] at he
      exact Or.inl ⟨he.1.symm, he.2.symm, hp⟩
    · rename_i hp
      simp only [Option.some.injEq, Prod.mk.injEq] at he
      exact Or.inr ⟨he.1.symm, he.2.symm, by simpa using hp⟩
  · cases he

theorem exec_step_inv {st : State} {r : State × Outcome} {s : Nat} (he : exec st (.step s) = some r) :
    s < st.nScopes ∧ micro st s = some r := by
  simp only [exec, execWith] at he
  split at he
  · rename_i hs; exact ⟨hs, he⟩
  · cases he

/-- the coarse act: the wait is over (`pick`), then the goroutine runs on -/
theorem exec_finish_inv {st : State} {r : State × Outcome} {s : Nat} (he : exec st (.finish s) = some r) :
    s < st.nScopes ∧ (st.scp s).phase = .closing ∧ (st.scp s).park = none ∧ (st.scp s).wg = 0 ∧
      r = runSteps micro s 7 (st.pick s) := by
  simp only [exec, execWith] at he
  split at he
  · rename_i hg
    obtain ⟨hs, hph, hpk, hwg⟩ := hg
    have hpk' : (st.scp s).park = none := by
      cases hp : (st.scp s).park with
      | none => rfl
      | some p => rw [hp] at hpk; cases hpk
    simp only [Option.some.injEq] at he
    refine ⟨hs, hph, hpk', hwg, ?_⟩
    rw [← he]
    have hm : micro st s = some (st.pick s, .ok) := by
      unfold micro
      simp only [hpk', hph, evOf, hwg, if_true]
      rfl
    show runSteps micro s (7 + 1) st = _
    rw [runSteps, hm]
  · cases he

/-- the first step of a closing goroutine that waits with an empty wait group is `pick` -/
theorem micro_closing {st : State} {r : State × Outcome} {s : Nat} (hph : (st.scp s).phase = .closing)
    (hpk : (st.scp s).park = none) (hm : micro st s = some r) :
    (st.scp s).wg = 0 ∧ r = (st.pick s, .ok) := by
  unfold micro at hm
  simp only [hpk, hph, evOf] at hm
  split at hm
  · rename_i hwg
    simp only [Option.some.injEq] at hm
    exact ⟨hwg, hm.symm⟩
  · cases hm

/-! ### how a run of the closing goroutine ends -/

theorem runSteps_out {P : State → Prop} {s : Nat}
    (hP : ∀ st st' o, P st → micro st s = some (st', o) → P st') :
    ∀ n st, P st →
      P (runSteps micro s n st).1 ∧
        ((runSteps micro s n st).2 = .ok ∨
          ∃ stp e, P stp ∧ micro stp s = some ((runSteps micro s n st).1, .closed e) ∧
            (runSteps micro s n st).2 = .closed e) := by
  intro n
  induction n with
  | zero => intro st h; exact ⟨h, Or.inl rfl⟩
  | succ n ih =>
    intro st h
    unfold runSteps
    cases hm : micro st s with
    | none => exact ⟨h, Or.inl rfl⟩
    | some r =>
      obtain ⟨st', o⟩ := r
      cases o with
      | closed e => exact ⟨hP st st' _ h hm, Or.inr ⟨st, e, h, hm, rfl⟩⟩
      | ok => exact ih st' (hP st st' _ h hm)
      | refused => exact ih st' (hP st st' _ h hm)
      | panic => exact ih st' (hP st st' _ h hm)

/-- a step that returns from `Close`: the outcome is the error state at that moment, it is
recorded, and it is an error whenever the rollback branch was taken or a listener failed -/
theorem micro_closed {st st' : State} {s : Nat} {e : Bool} (h : Inv st)
    (hm : micro st s = some (st', .closed e)) :
    e = st'.hasErr s ∧ (st'.scp s).result = some e ∧ (st'.scp s).phase = .finished ∧
      (st.scp s).phase = .signed ∧ ((st'.scp s).rolled = true → e = true) ∧
      ((st'.scp s).lfail = true → e = true) := by
  have m := micro_cases hm
  generalize hro : Outcome.closed e = ro at m
  cases m with
  | resume _ _ _ _ _ => cases hro
  | start _ _ _ => cases hro
  | pick _ _ _ => cases hro
  | signOff _ _ => cases hro
  | ret hpk hph =>
    cases hro
    have herr : (st.ret s).hasErr s = st.hasErr s := by
      simp [State.ret, State.hasErr, State.ctxOf]
    refine ⟨herr.symm, by simp [State.ret], by simp [State.ret], hph, ?_, ?_⟩
    · intro hr
      have hr' : (st.scp s).rolled = true := by simpa [State.ret] using hr
      have := h.x.rolledErr s hr'
      simpa [State.hasErr, State.ctxOf] using this
    · intro hr
      have hr' : (st.scp s).lfail = true := by simpa [State.ret] using hr
      have := h.x.lfailErr s hr'
      simpa [State.hasErr, State.ctxOf] using this

/-! ### the footprint of one scope's calls -/

theorem TrigStep.ctx_other {st st' : State} {s : Nat} (ts : TrigStep st s st') :
    ∀ x, x ≠ (st.scp s).ctx → st'.ctx x = st.ctx x := by
  cases ts with
  | parked st1 p e => intro x hx; exact e.ctx_other x hx
  | ended st1 failed e _ => intro x hx; exact e.ctx_other x hx

theorem microCase_ctx_other {st st' : State} {s : Nat} {o : Outcome} (m : MicroCase st s st' o) :
    ∀ x, x ≠ (st.scp s).ctx → st'.ctx x = st.ctx x := by
  cases m with
  | resume p ev _ _ _ => exact (trigStep_resumeTrigger st s ev p).ctx_other
  | start ev _ _ => exact (trigStep_startTrigger st s ev).ctx_other
  | pick _ _ _ => intro _ _; rfl
  | signOff _ _ => intro x _; show (st.signOffParent s).ctx x = _; rw [signOffParent_ctx]
  | ret _ _ => intro _ _; rfl

theorem runSteps_ctx_other {st : State} {s : Nat} (h : Inv st) (hs : s < st.nScopes) (n : Nat) :
    ∀ x, x ≠ (st.scp s).ctx → (runSteps micro s n st).1.ctx x = st.ctx x :=
  (runSteps_induct (P := fun y => Inv y ∧ s < y.nScopes ∧ (y.scp s).ctx = (st.scp s).ctx ∧
      ∀ x, x ≠ (st.scp s).ctx → y.ctx x = st.ctx x)
    (fun a b o ha hm => by
      obtain ⟨hI, hlt, hc, hx⟩ := ha
      have m := mono_micro hI hm
      refine ⟨inv_micro hI hlt hm, by rw [microCase_nScopes (micro_cases hm)]; exact hlt,
        (m.ctx s hlt).trans hc, ?_⟩
      intro x hne
      rw [microCase_ctx_other (micro_cases hm) x (by rw [hc]; exact hne)]
      exact hx x hne)
    n st ⟨h, hs, rfl, fun _ _ => rfl⟩).2.2.2

/-- a call on scope `c`, or a step of its closing goroutine, touches no context but the one of `c` -/
theorem exec_footprint {st st' : State} {a : Act} {o : Outcome} {c : Nat} (h : Inv st) (ha : a.onScope c)
    (he : exec st a = some (st', o)) : ∀ x, x ≠ (st.scp c).ctx → st'.ctx x = st.ctx x := by
  intro x hx
  rcases ha with ha | ha | ha | ha | ha | ha <;> subst ha
  · rcases (exec_appErr_inv he).2 with ⟨h1, _, _⟩ | ⟨h1, _, _⟩ <;> subst h1
    · rfl
    · exact (evStep_appendError st c).ctx_other x hx
  · rcases (exec_kill_inv he).2 with ⟨h1, _, _⟩ | ⟨h1, _, _⟩ <;> subst h1
    · rfl
    · exact ((evStep_addError st c).trans (evStep_fire _ c .kill none)).ctx_other x hx
  · rcases (exec_stop_inv he).2 with ⟨h1, _, _⟩ | ⟨h1, _, _⟩ <;> subst h1
    · rfl
    · exact ((evStep_setDone st c).trans (evStep_fire _ c .stop none)).ctx_other x hx
  · rcases (exec_close_inv he).2 with ⟨h1, _, _⟩ | ⟨h1, _, _⟩ <;> subst h1
    · rfl
    · have := (trigStep_startTrigger (st.modScp c fun y => { y with phase := .begun }) c .beforeClose).ctx_other x
        (by simpa using hx)
      exact this
  · simp only [exec, execWith] at he
    split at he
    · rename_i hg
      simp only [Option.some.injEq] at he
      have := runSteps_ctx_other h hg.1 8 x hx
      rw [he] at this; exact this
    · cases he
  · exact microCase_ctx_other (micro_cases (exec_step_inv he).2) x hx

/-- a successful `AppendError` or `Kill` leaves the scope's context with an error and done -/
theorem fail_sets_error {st st' : State} {a : Act} {c : Nat} (ha : a = .appErr c ∨ a = .kill c)
    (he : exec st a = some (st', .ok)) :
    (st'.ctx (st.scp c).ctx).errors ≠ 0 ∧ (st'.ctx (st.scp c).ctx).done = true := by
  have hadd := addError_hasErr st c
  have key : ∀ st'', EvStep (st.addError c) st'' c →
      (st''.ctx (st.scp c).ctx).errors ≠ 0 ∧ (st''.ctx (st.scp c).ctx).done = true := by
    intro st'' e
    have h1 := e.ctx_errors (st.scp c).ctx
    exact ⟨by omega, e.ctx_done _ hadd.2⟩
  rcases ha with ha | ha <;> subst ha
  · rcases (exec_appErr_inv he).2 with ⟨_, h2, _⟩ | ⟨h1, _, _⟩
    · cases h2
    · subst h1; exact key _ (evStep_appendError_from_add st c)
  · rcases (exec_kill_inv he).2 with ⟨_, h2, _⟩ | ⟨h1, _, _⟩
    · cases h2
    · subst h1; exact key _ (evStep_fire _ c .kill none)

end Goat.Scope
