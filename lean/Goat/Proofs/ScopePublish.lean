/-
Helper lemmas for property C12, part 8: the publication order of `AppendError`
(`Goat/Model/ScopePublish.lean`).  With the order record-then-close, in every reachable state, for any
number of goroutines and contexts: a closed context holds an error, so an observer woken by `Done()` has
read a non-nil `Err()` and no watcher of an isolated child ever chooses `Stop`.
-/
import Goat.Model.ScopePublish

namespace Goat.ScopePublish
open Goat.LTS

structure Inv (s : State) : Prop where
  pub : ∀ c, s.closed c = true → 0 < s.errs c
  mid : ∀ t c, s.pcs t = .appMid c → 0 < s.errs c
  woke : ∀ t c, s.pcs t = .obsWoke c → s.closed c = true
  wwoke : ∀ t p c, s.pcs t = .watchWoke p c → s.closed p = true
  nostop : ∀ t c, s.pcs t ≠ .stopStart c
  saw : ∀ t c b, s.pcs t = .obsSaw c b → b = true

theorem inv_init (pcs : Nat → PC) (h : ∀ t, (pcs t).initial) : Inv (initState pcs) := by
  refine ⟨?_, ?_, ?_, ?_, ?_, ?_⟩
  · intro c hc; simp [initState] at hc
  · intro t c ht; have := h t; simp only [initState] at ht; rw [ht] at this; exact this.elim
  · intro t c ht; have := h t; simp only [initState] at ht; rw [ht] at this; exact this.elim
  · intro t p c ht; have := h t; simp only [initState] at ht; rw [ht] at this; exact this.elim
  · intro t c ht; have := h t; simp only [initState] at ht; rw [ht] at this; exact this.elim
  · intro t c b ht; have := h t; simp only [initState] at ht; rw [ht] at this; exact this.elim

theorem inv_step (s s' : State) (t : Nat) (h : Inv s) (hs : step .recordThenClose s t = some s') : Inv s' := by
  unfold step at hs
  split at hs
  · cases hs
  · cases hs
  · -- appStart c: record
    rename_i c hpc
    cases hs
    refine ⟨?_, ?_, ?_, ?_, ?_, ?_⟩
    · intro d hd
      have := h.pub d hd
      simp only [State.setPC, State.record]; split <;> omega
    · intro u d hu
      simp only [State.setPC, State.record] at hu ⊢
      split at hu
      · cases hu; simp
      · have := h.mid u d hu; split <;> omega
    · intro u d hu
      simp only [State.setPC, State.record] at hu ⊢
      split at hu
      · cases hu
      · exact h.woke u d hu
    · intro u p d hu
      simp only [State.setPC, State.record] at hu ⊢
      split at hu
      · cases hu
      · exact h.wwoke u p d hu
    · intro u d hu
      simp only [State.setPC, State.record] at hu
      split at hu
      · cases hu
      · exact h.nostop u d hu
    · intro u d b hu
      simp only [State.setPC, State.record] at hu
      split at hu
      · cases hu
      · exact h.saw u d b hu
  · -- appMid c: close
    rename_i c hpc
    cases hs
    have hc := h.mid t c hpc
    refine ⟨?_, ?_, ?_, ?_, ?_, ?_⟩
    · intro d hd
      simp only [State.setPC, State.close] at hd ⊢
      split at hd
      · subst_vars; exact hc
      · exact h.pub d hd
    · intro u d hu
      simp only [State.setPC, State.close] at hu ⊢
      split at hu
      · cases hu
      · exact h.mid u d hu
    · intro u d hu
      simp only [State.setPC, State.close] at hu ⊢
      split at hu
      · cases hu
      · have := h.woke u d hu; split <;> simp_all
    · intro u p d hu
      simp only [State.setPC, State.close] at hu ⊢
      split at hu
      · cases hu
      · have := h.wwoke u p d hu; split <;> simp_all
    · intro u d hu
      simp only [State.setPC, State.close] at hu
      split at hu
      · cases hu
      · exact h.nostop u d hu
    · intro u d b hu
      simp only [State.setPC, State.close] at hu
      split at hu
      · cases hu
      · exact h.saw u d b hu
  · -- obsWait c
    rename_i c hpc
    split at hs
    · rename_i hcl
      cases hs
      refine ⟨h.pub, ?_, ?_, ?_, ?_, ?_⟩
      · intro u d hu
        simp only [State.setPC] at hu ⊢
        split at hu
        · cases hu
        · exact h.mid u d hu
      · intro u d hu
        simp only [State.setPC] at hu ⊢
        split at hu
        · cases hu; exact hcl
        · exact h.woke u d hu
      · intro u p d hu
        simp only [State.setPC] at hu ⊢
        split at hu
        · cases hu
        · exact h.wwoke u p d hu
      · intro u d hu
        simp only [State.setPC] at hu
        split at hu
        · cases hu
        · exact h.nostop u d hu
      · intro u d b hu
        simp only [State.setPC] at hu
        split at hu
        · cases hu
        · exact h.saw u d b hu
    · cases hs
  · -- obsWoke c: read Err()
    rename_i c hpc
    cases hs
    have hc := h.pub c (h.woke t c hpc)
    refine ⟨h.pub, ?_, ?_, ?_, ?_, ?_⟩
    · intro u d hu
      simp only [State.setPC] at hu ⊢
      split at hu
      · cases hu
      · exact h.mid u d hu
    · intro u d hu
      simp only [State.setPC] at hu ⊢
      split at hu
      · cases hu
      · exact h.woke u d hu
    · intro u p d hu
      simp only [State.setPC] at hu ⊢
      split at hu
      · cases hu
      · exact h.wwoke u p d hu
    · intro u d hu
      simp only [State.setPC] at hu
      split at hu
      · cases hu
      · exact h.nostop u d hu
    · intro u d b hu
      simp only [State.setPC] at hu
      split at hu
      · cases hu; simpa using hc
      · exact h.saw u d b hu
  · -- watchWait p c
    rename_i p c hpc
    split at hs
    · rename_i hcl
      cases hs
      refine ⟨h.pub, ?_, ?_, ?_, ?_, ?_⟩
      · intro u d hu
        simp only [State.setPC] at hu ⊢
        split at hu
        · cases hu
        · exact h.mid u d hu
      · intro u d hu
        simp only [State.setPC] at hu ⊢
        split at hu
        · cases hu
        · exact h.woke u d hu
      · intro u q d hu
        simp only [State.setPC] at hu ⊢
        split at hu
        · cases hu; exact hcl
        · exact h.wwoke u q d hu
      · intro u d hu
        simp only [State.setPC] at hu
        split at hu
        · cases hu
        · exact h.nostop u d hu
      · intro u d b hu
        simp only [State.setPC] at hu
        split at hu
        · cases hu
        · exact h.saw u d b hu
    · cases hs
  · -- watchWoke p c: read p.Errors(), decide
    rename_i p c hpc
    cases hs
    have hp : 0 < s.errs p := h.pub p (h.wwoke t p c hpc)
    simp only [hp, if_true]
    refine ⟨h.pub, ?_, ?_, ?_, ?_, ?_⟩
    · intro u d hu
      simp only [State.setPC] at hu ⊢
      split at hu
      · cases hu
      · exact h.mid u d hu
    · intro u d hu
      simp only [State.setPC] at hu ⊢
      split at hu
      · cases hu
      · exact h.woke u d hu
    · intro u q d hu
      simp only [State.setPC] at hu ⊢
      split at hu
      · cases hu
      · exact h.wwoke u q d hu
    · intro u d hu
      simp only [State.setPC] at hu
      split at hu
      · cases hu
      · exact h.nostop u d hu
    · intro u d b hu
      simp only [State.setPC] at hu
      split at hu
      · cases hu
      · exact h.saw u d b hu
  · -- stopStart c: excluded by the invariant
    rename_i c hpc
    exact absurd hpc (h.nostop t c)

theorem inv_run (pcs : Nat → PC) (h : ∀ t, (pcs t).initial) (sched : List Nat) :
    Inv ((sys .recordThenClose pcs).run sched) :=
  Goat.LTS.inv_run (sys .recordThenClose pcs) Inv (inv_init pcs h)
    (fun s i t hi hs => inv_step s t i hi hs) sched

end Goat.ScopePublish
