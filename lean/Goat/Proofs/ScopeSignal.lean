/-
Helper lemmas for property C12, part 1: projections of the state updates, weighted sums over the
thread / scope lists, and the transitions of the repaired system (`Variant.fixed`) as an inductive
relation `Tr` with one constructor per shared access.  `step_fixed_tr` shows that every enabled
label of `sys Variant.fixed cfg` is one or two `Tr` transitions of the same goroutine, so an
invariant of `Tr` is an invariant of the system.  Nothing here changes a definition of the model
(`Goat/Model/ScopeSignal.lean`).
-/
import Goat.Model.ScopeSignal

namespace Goat.ScopeSignal
open Goat.LTS

/-! ### projections -/

@[simp, grind =] theorem threads_setPC (s : State) (t : Nat) (pc : PC) :
    (s.setPC t pc).threads = s.threads.set t pc := rfl
@[simp, grind =] theorem ctxs_setPC (s : State) (t : Nat) (pc : PC) : (s.setPC t pc).ctxs = s.ctxs := rfl
@[simp, grind =] theorem scopes_setPC (s : State) (t : Nat) (pc : PC) : (s.setPC t pc).scopes = s.scopes := rfl
@[simp, grind =] theorem threads_setCtx (s : State) (c : Nat) (x : Ctx) : (s.setCtx c x).threads = s.threads := rfl
@[simp, grind =] theorem ctxs_setCtx (s : State) (c : Nat) (x : Ctx) :
    (s.setCtx c x).ctxs = s.ctxs.set c x := rfl
@[simp, grind =] theorem scopes_setCtx (s : State) (c : Nat) (x : Ctx) : (s.setCtx c x).scopes = s.scopes := rfl
@[simp, grind =] theorem threads_setScope (s : State) (i : Nat) (x : Scope) :
    (s.setScope i x).threads = s.threads := rfl
@[simp, grind =] theorem ctxs_setScope (s : State) (i : Nat) (x : Scope) : (s.setScope i x).ctxs = s.ctxs := rfl
@[simp, grind =] theorem scopes_setScope (s : State) (i : Nat) (x : Scope) :
    (s.setScope i x).scopes = s.scopes.set i x := rfl

/-- publishing a new child scope -/
def State.addScope (s : State) (x : Scope) : State := { s with scopes := s.scopes ++ [x] }

@[simp, grind =] theorem threads_addScope (s : State) (x : Scope) : (s.addScope x).threads = s.threads := rfl
@[simp, grind =] theorem ctxs_addScope (s : State) (x : Scope) : (s.addScope x).ctxs = s.ctxs := rfl
@[simp, grind =] theorem scopes_addScope (s : State) (x : Scope) : (s.addScope x).scopes = s.scopes ++ [x] := rfl

/-! ### weighted sums -/

def wsum {α : Type} (f : α → Nat) : List α → Nat
  | [] => 0
  | a :: l => f a + wsum f l

theorem wsum_set {α : Type} (f : α → Nat) : ∀ (l : List α) (i : Nat) (a b : α), l[i]? = some a →
    wsum f (l.set i b) + f a = wsum f l + f b
  | [], i, a, b, h => by simp at h
  | x :: l, 0, a, b, h => by
    simp at h; subst h; simp [wsum]; omega
  | x :: l, i + 1, a, b, h => by
    simp at h
    have := wsum_set f l i a b h
    simp [wsum]; omega

theorem wsum_append {α : Type} (f : α → Nat) (l₁ l₂ : List α) : wsum f (l₁ ++ l₂) = wsum f l₁ + wsum f l₂ := by
  induction l₁ with
  | nil => simp [wsum]
  | cons a l ih => simp [wsum, ih]; omega

theorem wsum_snoc {α : Type} (f : α → Nat) (l : List α) (a : α) : wsum f (l ++ [a]) = wsum f l + f a := by
  simp [wsum_append, wsum]

theorem wsum_eq_zero {α : Type} (f : α → Nat) (l : List α) (h : ∀ a ∈ l, f a = 0) : wsum f l = 0 := by
  induction l with
  | nil => rfl
  | cons a l ih =>
    simp [wsum, h a (by simp)]
    exact ih (fun b hb => h b (by simp [hb]))

theorem wsum_ge {α : Type} (f : α → Nat) : ∀ (l : List α) (i : Nat) (a : α), l[i]? = some a → f a ≤ wsum f l
  | [], i, a, h => by simp at h
  | x :: l, 0, a, h => by simp at h; subst h; simp [wsum]
  | x :: l, i + 1, a, h => by
    simp at h
    have := wsum_ge f l i a h
    simp [wsum]; omega

theorem wsum_replicate {α : Type} (f : α → Nat) (n : Nat) (a : α) (h : f a = 0) :
    wsum f (List.replicate n a) = 0 :=
  wsum_eq_zero f _ (fun b hb => by rw [List.eq_of_mem_replicate hb]; exact h)

/-! ### the transitions of the repaired system -/

/-- One shared access (or the local part of a call) of goroutine `t` under `Variant.fixed`. -/
inductive Tr : State → Nat → State → Prop
  -- local parts of calls
  | callAppend {s : State} {t sid : Nat} {sc : Scope} {x : Ctx} (ids : List Nat)
      (hpc : s.threads[t]? = some .idle) (hsc : s.scopes[sid]? = some sc) (hx : s.ctxs[sc.ctx]? = some x) :
      Tr s t ((s.setCtx sc.ctx { x with requested := x.requested ++ ids }).setPC t (.appLock sc.ctx ids))
  | callStop {s : State} {t sid : Nat} {sc : Scope} {x : Ctx}
      (hpc : s.threads[t]? = some .idle) (hsc : s.scopes[sid]? = some sc) (hx : s.ctxs[sc.ctx]? = some x) :
      Tr s t ((s.setCtx sc.ctx { x with stopCalls := x.stopCalls + 1 }).setPC t (.stopEnter sc.ctx))
  | callIsDone {s : State} {t : Nat} (c : Nat) (hpc : s.threads[t]? = some .idle) :
      Tr s t (s.setPC t (.isDone c))
  | callErr {s : State} {t : Nat} (c : Nat) (hpc : s.threads[t]? = some .idle) :
      Tr s t (s.setPC t (.errLock c))
  | callNewChild {s : State} {t : Nat} (p : Nat) (own : Option Nat) (hpc : s.threads[t]? = some .idle) :
      Tr s t (s.setPC t (.ncCheck p own))
  | callClose {s : State} {t : Nat} (sid : Nat) (hpc : s.threads[t]? = some .idle) :
      Tr s t (s.setPC t (.closing sid))
  -- AppendError
  | appLock {s : State} {t c : Nat} {ids : List Nat} {x : Ctx}
      (hpc : s.threads[t]? = some (.appLock c ids)) (hx : s.ctxs[c]? = some x) (hmu : x.mu = none) :
      Tr s t ((s.setCtx c { x with mu := some t }).setPC t (.appRead c ids))
  | appRead {s : State} {t c : Nat} {ids : List Nat} {x : Ctx}
      (hpc : s.threads[t]? = some (.appRead c ids)) (hx : s.ctxs[c]? = some x) :
      Tr s t (s.setPC t (.appWrite c ids x.errors))
  | appWrite {s : State} {t c : Nat} {ids snap : List Nat} {x : Ctx}
      (hpc : s.threads[t]? = some (.appWrite c ids snap)) (hx : s.ctxs[c]? = some x) :
      Tr s t ((s.setCtx c { x with errors := snap ++ ids, mu := none }).setPC t
        (if ids = [] then .idle else .stopEnter c))
  -- Stop
  | stopFresh {s : State} {t c : Nat} {x : Ctx}
      (hpc : s.threads[t]? = some (.stopEnter c)) (hx : s.ctxs[c]? = some x) (ho : x.once = .fresh) :
      Tr s t ((s.setCtx c { x with once := .running t }).setPC t (.stopClose c))
  | stopFinished {s : State} {t c : Nat} {x : Ctx}
      (hpc : s.threads[t]? = some (.stopEnter c)) (hx : s.ctxs[c]? = some x) (ho : x.once = .finished) :
      Tr s t (s.setPC t .idle)
  | stopClose {s : State} {t c : Nat} {x : Ctx}
      (hpc : s.threads[t]? = some (.stopClose c)) (hx : s.ctxs[c]? = some x) :
      Tr s t ((s.setCtx c { x with closes := x.closes + 1, once := .finished }).setPC t .idle)
  -- IsDone, Err
  | isDone {s : State} {t c : Nat} (hpc : s.threads[t]? = some (.isDone c)) : Tr s t (s.setPC t .idle)
  | errLock {s : State} {t c : Nat} {x : Ctx}
      (hpc : s.threads[t]? = some (.errLock c)) (hx : s.ctxs[c]? = some x) (hmu : x.mu = none) :
      Tr s t ((s.setCtx c { x with mu := some t }).setPC t (.errRead c))
  | errRead {s : State} {t c : Nat} {x : Ctx}
      (hpc : s.threads[t]? = some (.errRead c)) (hx : s.ctxs[c]? = some x) :
      Tr s t ((s.setCtx c { x with mu := none }).setPC t .idle)
  -- propagation goroutine
  | propExit {s : State} {t c p : Nat} {x : Ctx}
      (hpc : s.threads[t]? = some (.propWait c p)) (hx : s.ctxs[c]? = some x) (hd : 1 ≤ x.closes) :
      Tr s t (s.setPC t .exited)
  | propSeen {s : State} {t c p : Nat} {px : Ctx}
      (hpc : s.threads[t]? = some (.propWait c p)) (hp : s.ctxs[p]? = some px) (hd : 1 ≤ px.closes) :
      Tr s t (s.setPC t (.propCheck c p))
  | propKill {s : State} {t c p : Nat} {x px : Ctx}
      (hpc : s.threads[t]? = some (.propCheck c p)) (hp : s.ctxs[p]? = some px) (he : px.errors ≠ [])
      (hx : s.ctxs[c]? = some x) :
      Tr s t ((s.setCtx c { x with requested := x.requested ++ [canceled], propKills := x.propKills + 1 }).setPC t
        (.appLock c [canceled]))
  | propStop {s : State} {t c p : Nat} {x px : Ctx}
      (hpc : s.threads[t]? = some (.propCheck c p)) (hp : s.ctxs[p]? = some px) (he : px.errors = [])
      (hx : s.ctxs[c]? = some x) :
      Tr s t ((s.setCtx c { x with propStops := x.propStops + 1 }).setPC t (.stopEnter c))
  -- NewChild
  | ncRefused {s : State} {t p : Nat} {own : Option Nat} {sc : Scope} {x : Ctx}
      (hpc : s.threads[t]? = some (.ncCheck p own)) (hsc : s.scopes[p]? = some sc)
      (hx : s.ctxs[sc.ctx]? = some x) (hd : 1 ≤ x.closes) :
      Tr s t (s.setPC t (.ncMk p own false))
  | ncAccepted {s : State} {t p : Nat} {own : Option Nat} {sc : Scope} {x : Ctx}
      (hpc : s.threads[t]? = some (.ncCheck p own)) (hsc : s.scopes[p]? = some sc)
      (hx : s.ctxs[sc.ctx]? = some x) (hd : ¬ 1 ≤ x.closes) :
      Tr s t (s.setPC t (.ncAdd p own))
  | ncAdd {s : State} {t p : Nat} {own : Option Nat} {sc : Scope}
      (hpc : s.threads[t]? = some (.ncAdd p own)) (hsc : s.scopes[p]? = some sc) :
      Tr s t ((s.setScope p { sc with wg := sc.wg + 1 }).setPC t (.ncMk p own true))
  | ncMk {s : State} {t p : Nat} {own : Option Nat} {reg : Bool} {sc : Scope}
      (hpc : s.threads[t]? = some (.ncMk p own reg)) (hsc : s.scopes[p]? = some sc) :
      Tr s t ((s.addScope { ctx := own.getD sc.ctx, parent := if reg then some p else none }).setPC t .idle)
  -- Close
  | closeRoot {s : State} {t sid : Nat} {sc : Scope}
      (hpc : s.threads[t]? = some (.closing sid)) (hsc : s.scopes[sid]? = some sc) (hcl : sc.closed = false)
      (hpar : sc.parent = none) :
      Tr s t ((s.setScope sid { sc with closed := true }).setPC t .idle)
  | closeOrphan {s : State} {t sid p : Nat} {sc : Scope}
      (hpc : s.threads[t]? = some (.closing sid)) (hsc : s.scopes[sid]? = some sc) (hcl : sc.closed = false)
      (hpar : sc.parent = some p) (hps : (s.setScope sid { sc with closed := true }).scopes[p]? = none) :
      Tr s t ((s.setScope sid { sc with closed := true }).setPC t .idle)
  | closeChild {s : State} {t sid p : Nat} {sc ps : Scope}
      (hpc : s.threads[t]? = some (.closing sid)) (hsc : s.scopes[sid]? = some sc) (hcl : sc.closed = false)
      (hpar : sc.parent = some p) (hps : (s.setScope sid { sc with closed := true }).scopes[p]? = some ps) :
      Tr s t (((s.setScope sid { sc with closed := true }).setScope p { ps with wg := ps.wg - 1 }).setPC t .idle)

/-- every shared access of the model under `Variant.fixed` is a `Tr` transition -/
theorem stepT_fixed_tr {s s' : State} {t : Nat} {alt : Bool}
    (hs : stepT Variant.fixed s t alt = some s') : Tr s t s' := by
  unfold stepT at hs
  simp only [Variant.fixed] at hs
  split at hs
  · cases hs
  · rename_i pc hpc
    cases pc with
    | idle => cases hs
    | exited => cases hs
    | appLock c ids =>
      simp only at hs
      split at hs
      · cases hs
      · rename_i x hx
        simp only [if_true] at hs
        split at hs
        · cases hs; exact Tr.appLock hpc hx ‹_›
        · cases hs
    | appRead c ids =>
      simp only at hs
      split at hs
      · cases hs
      · rename_i x hx; cases hs; exact Tr.appRead hpc hx
    | appWrite c ids snap =>
      simp only at hs
      split at hs
      · cases hs
      · rename_i x hx; cases hs; exact Tr.appWrite hpc hx
    | stopEnter c =>
      simp only at hs
      split at hs
      · cases hs
      · rename_i x hx
        simp only [if_true] at hs
        split at hs
        · cases hs; exact Tr.stopFresh hpc hx ‹_›
        · cases hs
        · cases hs; exact Tr.stopFinished hpc hx ‹_›
    | stopClose c =>
      simp only at hs
      split at hs
      · cases hs
      · rename_i x hx; cases hs; exact Tr.stopClose hpc hx
    | isDone c => simp only at hs; cases hs; exact Tr.isDone hpc
    | errLock c =>
      simp only at hs
      split at hs
      · cases hs
      · rename_i x hx
        simp only [if_true] at hs
        split at hs
        · cases hs; exact Tr.errLock hpc hx ‹_›
        · cases hs
    | errRead c =>
      simp only at hs
      split at hs
      · cases hs
      · rename_i x hx; cases hs; exact Tr.errRead hpc hx
    | propWait c p =>
      simp only at hs
      split at hs
      · rename_i x px hx hp
        split at hs
        · split at hs
          · cases hs; exact Tr.propExit hpc hx ‹_›
          · cases hs
        · split at hs
          · cases hs; exact Tr.propSeen hpc hp ‹_›
          · cases hs
      · cases hs
    | propCheck c p =>
      simp only at hs
      split at hs
      · cases hs
      · rename_i px hp
        simp only [Bool.false_eq_true, if_false, Bool.true_and, decide_eq_true_eq] at hs
        split at hs
        · cases hs
        · split at hs
          · cases hs
          · rename_i x hx
            split at hs
            · cases hs; exact Tr.propKill hpc hp ‹_› hx
            · cases hs; exact Tr.propStop hpc hp (by simpa using ‹¬ px.errors ≠ []›) hx
    | ncCheck p own =>
      simp only at hs
      split at hs
      · cases hs
      · rename_i sc hsc
        split at hs
        · cases hs
        · rename_i x hx
          split at hs
          · cases hs; exact Tr.ncRefused hpc hsc hx ‹_›
          · cases hs; exact Tr.ncAccepted hpc hsc hx ‹_›
    | ncAdd p own =>
      simp only at hs
      split at hs
      · cases hs
      · rename_i sc hsc; cases hs; exact Tr.ncAdd hpc hsc
    | ncMk p own reg =>
      simp only at hs
      split at hs
      · cases hs
      · rename_i sc hsc
        cases hs
        have := Tr.ncMk (reg := reg) hpc hsc
        simpa [State.addScope, State.setPC] using this
    | closing sid =>
      simp only at hs
      split at hs
      · cases hs
      · rename_i sc hsc
        split at hs
        · cases hs
        · rename_i hcl
          have hcl' : sc.closed = false := by simpa using hcl
          split at hs
          · cases hs; exact Tr.closeRoot hpc hsc hcl' ‹_›
          · rename_i p hpar
            split at hs
            · cases hs; exact Tr.closeOrphan hpc hsc hcl' hpar ‹_›
            · cases hs; exact Tr.closeChild hpc hsc hcl' hpar ‹_›

/-- the local part of a call is a `Tr` transition -/
theorem enter_tr {s s' : State} {t : Nat} {k : Call} (h : enter s t k = some s') : Tr s t s' := by
  unfold enter at h
  cases k with
  | op o sid =>
    simp only at h
    split at h
    · rename_i sc hpc hsc
      split at h
      · cases h
      · rename_i x hx
        cases o with
        | append ids => cases h; exact Tr.callAppend ids hpc hsc hx
        | kill => cases h; exact Tr.callAppend [canceled] hpc hsc hx
        | stop => cases h; exact Tr.callStop hpc hsc hx
        | isDone => cases h; exact Tr.callIsDone _ hpc
        | err => cases h; exact Tr.callErr _ hpc
    · cases h
  | newChild p own =>
    simp only at h
    split at h
    · cases h; exact Tr.callNewChild p own ‹_›
    · cases h
  | close sid =>
    simp only at h
    split at h
    · cases h; exact Tr.callClose sid ‹_›
    · cases h

/-- a property preserved by every `Tr` transition is preserved by every enabled label -/
theorem step_fixed_preserves {P : State → Prop} (hP : ∀ s t s', P s → Tr s t s' → P s')
    {cfg : Config} {s s' : State} {l : Label} (h : P s) (hs : (sys Variant.fixed cfg).step s l = some s') :
    P s' := by
  cases l with
  | call t k =>
    simp only [sys, step, Option.bind_eq_some_iff] at hs
    obtain ⟨s1, h1, h2⟩ := hs
    exact hP _ _ _ (hP _ _ _ h (enter_tr h1)) (stepT_fixed_tr h2)
  | run t => exact hP _ _ _ h (stepT_fixed_tr hs)
  | alt t => exact hP _ _ _ h (stepT_fixed_tr hs)

/-! ### the initial state -/

theorem mem_propThreads {ks : List Kind} {i : Nat} {pc : PC} (h : pc ∈ propThreads ks i) :
    ∃ c p, pc = .propWait c p ∧ i ≤ c ∧ ks[c - i]? = some (.isolated p) := by
  induction ks generalizing i with
  | nil => simp [propThreads] at h
  | cons k ks ih =>
    cases k with
    | plain =>
      simp only [propThreads] at h
      obtain ⟨c, p, h1, h2, h3⟩ := ih h
      refine ⟨c, p, h1, by omega, ?_⟩
      have : c - i = (c - (i + 1)) + 1 := by omega
      rw [this]; simpa using h3
    | isolated q =>
      simp only [propThreads, List.mem_cons] at h
      rcases h with h | h
      · exact ⟨i, q, h, Nat.le_refl _, by simp⟩
      · obtain ⟨c, p, h1, h2, h3⟩ := ih h
        refine ⟨c, p, h1, by omega, ?_⟩
        have : c - i = (c - (i + 1)) + 1 := by omega
        rw [this]; simpa using h3

theorem init_thread {cfg : Config} {t : Nat} {pc : PC} (h : (initState cfg).threads[t]? = some pc) :
    pc = .idle ∨ ∃ c p, pc = .propWait c p ∧ cfg.kinds[c]? = some (.isolated p) := by
  have hm : pc ∈ (initState cfg).threads := List.mem_of_getElem? h
  simp only [initState, List.mem_append] at hm
  rcases hm with hm | hm
  · exact Or.inl (List.eq_of_mem_replicate hm)
  · obtain ⟨c, p, h1, _, h3⟩ := mem_propThreads hm
    exact Or.inr ⟨c, p, h1, by simpa using h3⟩

theorem init_ctx {cfg : Config} {c : Nat} {x : Ctx} (h : (initState cfg).ctxs[c]? = some x) :
    ∃ k, cfg.kinds[c]? = some k ∧ x = { kind := k } := by
  simp only [initState, List.getElem?_map, Option.map_eq_some_iff] at h
  obtain ⟨k, hk, rfl⟩ := h
  exact ⟨k, hk, rfl⟩

theorem mem_rootScopes {n i : Nat} {sc : Scope} (h : sc ∈ rootScopes n i) :
    sc.wg = 0 ∧ sc.parent = none ∧ sc.closed = false := by
  induction n generalizing i with
  | zero => simp [rootScopes] at h
  | succ n ih =>
    simp only [rootScopes, List.mem_cons] at h
    rcases h with h | h
    · subst h; exact ⟨rfl, rfl, rfl⟩
    · exact ih h

theorem init_scope {cfg : Config} {i : Nat} {sc : Scope} (h : (initState cfg).scopes[i]? = some sc) :
    sc.wg = 0 ∧ sc.parent = none ∧ sc.closed = false :=
  mem_rootScopes (List.mem_of_getElem? h)

end Goat.ScopeSignal
