/-
Helper lemmas for property C12, part 4: the done signal fires exactly when it should.
`sound`: a closed `done` channel is explained by a Stop call or a held error.  `complete`: once a
Stop was called or an error is held, either `done` is closed or some goroutine is still inside
`Stop` of that context (so when nobody is, `done` is closed).
-/
import Goat.Proofs.ScopeSignalInv

namespace Goat.ScopeSignal
open Goat.LTS

/-- a Stop was asked for (by a caller or by the propagation goroutine), or an error is held -/
def Ctx.shouldBeDone (x : Ctx) : Prop := 0 < x.stopCalls ∨ 0 < x.propStops ∨ x.errors ≠ []

/-- goroutine `pc` is inside `Stop` of context `c` -/
def onway (c : Nat) : PC → Nat
  | .stopEnter c' => if c' = c then 1 else 0
  | .stopClose c' => if c' = c then 1 else 0
  | _ => 0

structure InvDone (s : State) : Prop where
  sound : ∀ (c : Nat) (x : Ctx), s.ctxs[c]? = some x → 1 ≤ x.closes → x.shouldBeDone
  inStopE : ∀ (t c : Nat), s.threads[t]? = some (.stopEnter c) → ∃ x, s.ctxs[c]? = some x ∧ x.shouldBeDone
  inStopC : ∀ (t c : Nat), s.threads[t]? = some (.stopClose c) → ∃ x, s.ctxs[c]? = some x ∧ x.shouldBeDone
  complete : ∀ (c : Nat) (x : Ctx), s.ctxs[c]? = some x → x.shouldBeDone →
    1 ≤ x.closes ∨ 0 < wsum (onway c) s.threads

attribute [local grind] onway

set_option maxHeartbeats 1000000 in
theorem invDone_tr {s s' : State} {t : Nat} (hm : InvMu s) (ho : InvOnce s) (h : InvDone s) (hs : Tr s t s') :
    InvDone s' := by
  obtain ⟨h1, h2, h3, h4⟩ := hm
  obtain ⟨o1, o2⟩ := ho
  obtain ⟨d1, d2, d2', d3⟩ := h
  refine ⟨?_, ?_, ?_, ?_⟩
  · cases hs <;> proj_simp <;> simp only [Ctx.shouldBeDone] at * <;> grind [List.append_eq_nil_iff]
  · cases hs <;> proj_simp <;> simp only [Ctx.shouldBeDone] at * <;> grind [List.append_eq_nil_iff]
  · cases hs <;> proj_simp <;> simp only [Ctx.shouldBeDone] at * <;> grind [List.append_eq_nil_iff]
  · intro c0 y hy hsd
    cases hs <;> proj_simp <;> simp only [Ctx.shouldBeDone] at * <;>
      (have hw := fun b => wsum_set (onway c0) s.threads t _ b ‹s.threads[t]? = some _›
       grind [List.append_eq_nil_iff])

theorem onway_quiet {s : State} {c : Nat} (hq : s.quiet c) : wsum (onway c) s.threads = 0 := by
  apply wsum_eq_zero
  intro pc hpc
  obtain ⟨t, ht⟩ := List.mem_iff_getElem?.1 hpc
  have := hq t pc ht
  cases pc <;> simp_all [onway, PC.onCtx]

end Goat.ScopeSignal
