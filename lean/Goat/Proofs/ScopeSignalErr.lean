/-
Helper lemmas for property C12, part 3: no appended error is lost.  For every predicate `q` on
error values the number of `q`-errors stored in the context plus the number still in the hands of
goroutines inside `AppendError` equals the number ever handed in.  The write `errors = append(snap,
ids…)` keeps the invariant because the writer owns `errorsMU`, so `snap` is the current slice
(`InvMu.wr`).
-/
import Goat.Proofs.ScopeSignalInv

namespace Goat.ScopeSignal
open Goat.LTS

/-- errors satisfying `q` that goroutine `pc` has been handed for context `c` and has not stored yet -/
def inflQ (q : Nat → Bool) (c : Nat) : PC → Nat
  | .appLock c' ids => if c' = c then ids.countP q else 0
  | .appRead c' ids => if c' = c then ids.countP q else 0
  | .appWrite c' ids _ => if c' = c then ids.countP q else 0
  | _ => 0

def InvErr (s : State) : Prop :=
  ∀ (q : Nat → Bool) (c : Nat) (x : Ctx), s.ctxs[c]? = some x →
    x.errors.countP q + wsum (inflQ q c) s.threads = x.requested.countP q

attribute [local grind] inflQ

theorem invErr_tr {s s' : State} {t : Nat} (hm : InvMu s) (h : InvErr s) (hs : Tr s t s') : InvErr s' := by
  intro q c0 y hy
  obtain ⟨h1, h2, h3, h4⟩ := hm
  unfold InvErr at h
  cases hs <;> proj_simp <;>
    (have hw := fun b => wsum_set (inflQ q c0) s.threads t _ b ‹s.threads[t]? = some _›
     grind)

theorem inflQ_quiet {s : State} {c : Nat} (hq : s.quiet c) (q : Nat → Bool) : wsum (inflQ q c) s.threads = 0 := by
  apply wsum_eq_zero
  intro pc hpc
  obtain ⟨t, ht⟩ := List.mem_iff_getElem?.1 hpc
  have := hq t pc ht
  cases pc <;> simp_all [inflQ, PC.onCtx]

end Goat.ScopeSignal
