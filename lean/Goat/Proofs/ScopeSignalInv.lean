/-
Helper lemmas for property C12, part 2: the invariants of the repaired system and their
preservation by every `Tr` transition (hence by every enabled label, `step_fixed_preserves`).

  InvMu    errorsMU is owned by exactly the goroutine that is inside a critical section of that
           context, and the slice a writer has read is still the current slice
  InvOnce  the `sync.Once` of a context: fresh ⇒ not closed, running t ⇒ not closed yet and t is the
           one goroutine inside the body, finished ⇒ closed exactly once
  InvErr   for every predicate q on errors: #q(errors) + #q(in flight) = #q(requested)
  InvDone  done ⇒ a Stop was called or an error is held;  a Stop call or a held error ⇒ done, or
           some goroutine is still on its way to `close(done)`
  InvProp  what the propagation goroutine did is justified by its parent's state; it acts at most once
  InvWg    wg(p) = open registered children of p + goroutines between wg.Add(1) and publishing
-/
import Goat.Proofs.ScopeSignal

namespace Goat.ScopeSignal
open Goat.LTS

/-- normalise the projections of an updated state -/
macro "proj_simp" : tactic => `(tactic| try simp only [threads_setPC, ctxs_setPC, scopes_setPC, threads_setCtx,
  ctxs_setCtx, scopes_setCtx, threads_setScope, ctxs_setScope, scopes_setScope, threads_addScope, ctxs_addScope,
  scopes_addScope] at *)

/-! ### errorsMU -/

structure InvMu (s : State) : Prop where
  own : ∀ (c : Nat) (x : Ctx) (t : Nat), s.ctxs[c]? = some x → x.mu = some t →
    (∃ ids, s.threads[t]? = some (.appRead c ids)) ∨ (∃ ids snap, s.threads[t]? = some (.appWrite c ids snap))
      ∨ s.threads[t]? = some (.errRead c)
  rd : ∀ (t c : Nat) (ids : List Nat), s.threads[t]? = some (.appRead c ids) →
    ∃ x, s.ctxs[c]? = some x ∧ x.mu = some t
  wr : ∀ (t c : Nat) (ids snap : List Nat), s.threads[t]? = some (.appWrite c ids snap) →
    ∃ x, s.ctxs[c]? = some x ∧ x.mu = some t ∧ x.errors = snap
  er : ∀ (t c : Nat), s.threads[t]? = some (.errRead c) → ∃ x, s.ctxs[c]? = some x ∧ x.mu = some t

theorem invMu_tr {s s' : State} {t : Nat} (h : InvMu s) (hs : Tr s t s') : InvMu s' := by
  obtain ⟨h1, h2, h3, h4⟩ := h
  cases hs <;> (constructor <;> proj_simp <;> grind)

/-! ### doneOnce -/

structure InvOnce (s : State) : Prop where
  ctx : ∀ (c : Nat) (x : Ctx), s.ctxs[c]? = some x →
    (x.once = .fresh → x.closes = 0) ∧
    (∀ t, x.once = .running t → x.closes = 0 ∧ s.threads[t]? = some (.stopClose c)) ∧
    (x.once = .finished → x.closes = 1)
  thr : ∀ (t c : Nat), s.threads[t]? = some (.stopClose c) → ∃ x, s.ctxs[c]? = some x ∧ x.once = .running t

theorem invOnce_tr {s s' : State} {t : Nat} (h : InvOnce s) (hs : Tr s t s') : InvOnce s' := by
  obtain ⟨hc, ht⟩ := h
  cases hs <;> (constructor <;> proj_simp <;> grind)

end Goat.ScopeSignal
