/-
Helper lemmas for property C12, part 7: the invariants hold initially, hence in every reachable
state of `sys Variant.fixed cfg` for every configuration (any number of goroutines, any forest of
contexts) — and the consequences that `Goat/Props/C12.lean` states.
-/
import Goat.Proofs.ScopeSignalErr
import Goat.Proofs.ScopeSignalDone
import Goat.Proofs.ScopeSignalProp
import Goat.Proofs.ScopeSignalWg
import Goat.Proofs.ScopeSignalMonitor

namespace Goat.ScopeSignal
open Goat.LTS

structure AllInv (s : State) : Prop where
  mu : InvMu s
  once : InvOnce s
  err : InvErr s
  done : InvDone s
  prop : InvProp s
  wg : InvWg s
  pk : InvPK s

theorem allInv_tr (s : State) (t : Nat) (s' : State) (h : AllInv s) (hs : Tr s t s') : AllInv s' :=
  ⟨invMu_tr h.mu hs, invOnce_tr h.once hs, invErr_tr h.mu h.err hs, invDone_tr h.mu h.once h.done hs,
   invProp_tr h.mu h.prop hs, invWg_tr h.wg hs, invPK_tr h.pk hs⟩

/-! ### the initial state -/

/-- a program counter a goroutine can have initially -/
def PC.initial : PC → Prop
  | .idle => True
  | .propWait _ _ => True
  | _ => False

theorem init_thread' {cfg : Config} {t : Nat} {pc : PC} (h : (initState cfg).threads[t]? = some pc) : pc.initial := by
  rcases init_thread h with rfl | ⟨c, p, rfl, _⟩ <;> trivial

theorem wsum_init {cfg : Config} (f : PC → Nat) (hf : ∀ pc, pc.initial → f pc = 0) :
    wsum f (initState cfg).threads = 0 := by
  apply wsum_eq_zero
  intro pc hpc
  obtain ⟨t, ht⟩ := List.mem_iff_getElem?.1 hpc
  exact hf pc (init_thread' ht)

theorem allInv_init (cfg : Config) : AllInv (initState cfg) := by
  refine ⟨⟨?_, ?_, ?_, ?_⟩, ⟨?_, ?_⟩, ?_, ⟨?_, ?_, ?_, ?_⟩, ⟨?_, ?_, ?_, ?_, ?_⟩, ?_, ?_⟩
  -- InvMu
  · intro c x t hx hmu
    obtain ⟨k, _, rfl⟩ := init_ctx hx
    cases hmu
  · intro t c ids h; exact absurd (init_thread' h) (by simp [PC.initial])
  · intro t c ids snap h; exact absurd (init_thread' h) (by simp [PC.initial])
  · intro t c h; exact absurd (init_thread' h) (by simp [PC.initial])
  -- InvOnce
  · intro c x hx
    obtain ⟨k, _, rfl⟩ := init_ctx hx
    exact ⟨fun _ => rfl, fun t h => (by cases h), fun h => (by cases h)⟩
  · intro t c h; exact absurd (init_thread' h) (by simp [PC.initial])
  -- InvErr
  · intro q c x hx
    obtain ⟨k, _, rfl⟩ := init_ctx hx
    rw [wsum_init (inflQ q c) (by intro pc h; cases pc <;> simp_all [PC.initial, inflQ])]
    rfl
  -- InvDone
  · intro c x hx hcl
    obtain ⟨k, _, rfl⟩ := init_ctx hx
    simp at hcl
  · intro t c h; exact absurd (init_thread' h) (by simp [PC.initial])
  · intro t c h; exact absurd (init_thread' h) (by simp [PC.initial])
  · intro c x hx hsd
    obtain ⟨k, _, rfl⟩ := init_ctx hx
    simp [Ctx.shouldBeDone] at hsd
  -- InvProp
  · intro t c p h
    rcases init_thread h with h0 | ⟨c', p', h1, hk⟩
    · cases h0
    · cases h1
      simp [State.kindOf, initState, hk]
  · intro t c p h; exact absurd (init_thread' h) (by simp [PC.initial])
  · intro c x hx hk
    obtain ⟨k, _, rfl⟩ := init_ctx hx
    simp at hk
  · intro c x hx hk
    obtain ⟨k, _, rfl⟩ := init_ctx hx
    simp at hk
  · intro c x hx
    obtain ⟨k, _, rfl⟩ := init_ctx hx
    have h1 : wsum (propAlive c) (initState cfg).threads ≤ 1 := by
      simp only [initState, wsum_append]
      rw [wsum_replicate _ _ _ (by rfl)]
      simpa using propAlive_propThreads_le cfg.kinds 0 c
    simpa using h1
  -- InvWg
  · intro p
    have h1 : wsum (openChild p) (initState cfg).scopes = 0 := by
      apply wsum_eq_zero
      intro sc hsc
      obtain ⟨i, hi⟩ := List.mem_iff_getElem?.1 hsc
      obtain ⟨_, hp, _⟩ := init_scope hi
      simp [openChild, hp]
    have h2 : wsum (mkReg p) (initState cfg).threads = 0 :=
      wsum_init (mkReg p) (by intro pc h; cases pc <;> simp_all [PC.initial, mkReg])
    rw [h1, h2]
    unfold State.wgOf
    split
    · rename_i sc hsc; exact (init_scope hsc).1
    · rfl
  -- InvPK
  · intro c x hx
    obtain ⟨k, _, rfl⟩ := init_ctx hx
    exact Nat.zero_le _

/-- every reachable state of the repaired system satisfies all invariants -/
theorem reachable_allInv {cfg : Config} {s : State} (h : Reachable (sys Variant.fixed cfg) s) : AllInv s :=
  inv_of_init_step (sys Variant.fixed cfg) AllInv (allInv_init cfg)
    (fun _ _ _ hI hs => step_fixed_preserves allInv_tr hI hs) s h

theorem run_allInv (cfg : Config) (sched : List Label) : AllInv ((sys Variant.fixed cfg).run sched) :=
  reachable_allInv (run_reachable _ sched)

/-! ### consequences -/

theorem quiet_iff_quietB (s : State) (c : Nat) : s.quiet c ↔ s.quietB c = true := by
  simp only [State.quiet, State.quietB, List.all_eq_true, bne_iff_ne]
  constructor
  · intro h pc hpc
    obtain ⟨t, ht⟩ := List.mem_iff_getElem?.1 hpc
    exact h t pc ht
  · intro h t pc ht
    exact h pc (List.mem_of_getElem? ht)

instance (s : State) (c : Nat) : Decidable (s.quiet c) := decidable_of_iff _ (quiet_iff_quietB s c).symm

theorem closes_le_one {s : State} (h : AllInv s) {c : Nat} {x : Ctx} (hx : s.ctxs[c]? = some x) : x.closes ≤ 1 := by
  obtain ⟨h1, h2, h3⟩ := h.once.ctx c x hx
  cases ho : x.once with
  | fresh => rw [h1 ho]; omega
  | running t => rw [(h2 t ho).1]; omega
  | finished => rw [h3 ho]; omega

theorem no_doubleClose {s : State} (h : AllInv s) : s.doubleClose = false := by
  simp only [State.doubleClose, List.any_eq_false]
  intro x hx
  obtain ⟨c, hc⟩ := List.mem_iff_getElem?.1 hx
  have := closes_le_one h hc
  simp [Ctx.doubleClose]; omega

theorem errors_count {s : State} (h : AllInv s) {c : Nat} {x : Ctx} (hx : s.ctxs[c]? = some x)
    (hq : s.quiet c) (q : Nat → Bool) : x.errors.countP q = x.requested.countP q := by
  have := h.err q c x hx
  rw [inflQ_quiet hq q] at this
  simpa using this

theorem errors_perm {s : State} (h : AllInv s) {c : Nat} {x : Ctx} (hx : s.ctxs[c]? = some x)
    (hq : s.quiet c) : x.errors.Perm x.requested := by
  rw [List.perm_iff_count]
  intro a
  simp only [List.count_eq_countP]
  exact errors_count h hx hq _

theorem done_of_should {s : State} (h : AllInv s) {c : Nat} {x : Ctx} (hx : s.ctxs[c]? = some x)
    (hq : s.quiet c) (hsd : x.shouldBeDone) : 1 ≤ x.closes := by
  rcases h.done.complete c x hx hsd with h1 | h1
  · exact h1
  · rw [onway_quiet hq] at h1; omega

theorem wg_nonneg {s : State} (h : AllInv s) {p : Nat} {sc : Scope} (hp : s.scopes[p]? = some sc) : 0 ≤ sc.wg := by
  have := h.wg p
  simp only [State.wgOf, hp] at this
  rw [this]
  exact Int.natCast_nonneg _

theorem no_negativeCounter {s : State} (h : AllInv s) : s.negativeCounter = false := by
  simp only [State.negativeCounter, List.any_eq_false]
  intro sc hsc
  obtain ⟨p, hp⟩ := List.mem_iff_getElem?.1 hsc
  have := wg_nonneg h hp
  simp; omega

theorem kill_justified {s : State} (h : AllInv s) {c : Nat} {x : Ctx} (hx : s.ctxs[c]? = some x)
    (hk : 0 < x.propKills) :
    ∃ p px, x.kind = .isolated p ∧ s.ctxs[p]? = some px ∧ px.done = true ∧ px.errors ≠ [] := by
  obtain ⟨p, hkind, hcl, herr⟩ := h.prop.killJust c x hx hk
  unfold State.closesOf at hcl
  unfold State.hasErr at herr
  split at hcl
  · rename_i px hp
    rw [hp] at herr
    exact ⟨p, px, hkind, hp, by simpa [Ctx.done] using hcl, herr⟩
  · omega

theorem stop_justified {s : State} (h : AllInv s) {c : Nat} {x : Ctx} (hx : s.ctxs[c]? = some x)
    (hk : 0 < x.propStops) :
    ∃ p px, x.kind = .isolated p ∧ s.ctxs[p]? = some px ∧ px.done = true := by
  obtain ⟨p, hkind, hcl⟩ := h.prop.stopJust c x hx hk
  unfold State.closesOf at hcl
  split at hcl
  · rename_i px hp
    exact ⟨p, px, hkind, hp, by simpa [Ctx.done] using hcl⟩
  · omega

theorem prop_once {s : State} (h : AllInv s) {c : Nat} {x : Ctx} (hx : s.ctxs[c]? = some x) :
    x.propKills + x.propStops ≤ 1 := by
  have := h.prop.once c x hx
  omega

/-- the history of a quiescent context, as recorded from the ghost fields, is accepted by the monitor -/
theorem conforms_histOf {s : State} (h : AllInv s) {c : Nat} {x : Ctx}
    (hx : s.ctxs[c]? = some x) (hq : s.quiet c) : conforms (histOf s x) = true := by
  have f1 := errors_count h hx hq (fun e => !isCanceled e)
  have f2 := errors_count h hx hq isCanceled
  have hk := h.pk c x hx
  have h1 := prop_once h hx
  have hlenE := length_split x.errors
  have hsound := h.done.sound c x hx
  have hcomplete := fun hsd => done_of_should h hx hq hsd
  simp only [Ctx.shouldBeDone] at hsound hcomplete
  have hne : x.errors ≠ [] ↔ 0 < x.errors.length := by
    cases x.errors <;> simp
  rw [conforms_iff]
  refine ⟨rfl, f1, ?_, ?_, ?_, ?_⟩
  · -- Canceled entries: the callers' Kills, plus at most one justified propagated Kill
    show x.errors.countP isCanceled = x.requested.countP isCanceled - x.propKills ∨ _
    by_cases hz : x.propKills = 0
    · left; rw [f2, hz]; rfl
    · right
      obtain ⟨p, px, hkind, hp, hpd, hpe⟩ := kill_justified h hx (by omega)
      simp only [histOf, hkind, hp]
      refine ⟨trivial, hpd, ?_, ?_⟩
      · cases hl : px.errors with
        | nil => exact absurd hl hpe
        | cons a l => rfl
      · rw [f2]; omega
  · show (!x.errors.isEmpty) = true ↔ 0 < x.errors.countP (fun e => !isCanceled e) + x.errors.countP isCanceled
    rw [← hlenE]
    cases x.errors <;> simp
  · show 0 < x.stopCalls + x.requested.countP (fun e => !isCanceled e) +
      (x.requested.countP isCanceled - x.propKills) → x.done = true
    intro hp
    have : 1 ≤ x.closes := by
      apply hcomplete
      by_cases hs : 0 < x.stopCalls
      · exact Or.inl hs
      · right; right
        rw [hne, hlenE, f1, f2]; omega
    simpa [Ctx.done] using this
  · show x.done = true → 0 < x.stopCalls + x.errors.countP (fun e => !isCanceled e) + x.errors.countP isCanceled ∨ _
    intro hd
    rcases hsound (by simpa [Ctx.done] using hd) with h' | h' | h'
    · left; omega
    · right
      obtain ⟨p, px, hkind, hp, hpd⟩ := stop_justified h hx h'
      simp only [histOf, hkind, hp]
      exact ⟨trivial, hpd⟩
    · left
      rw [hne, hlenE] at h'; omega

end Goat.ScopeSignal
