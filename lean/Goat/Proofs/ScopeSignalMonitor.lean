/-
Helper lemmas for property C12, part 6b: the history monitor.  `conforms_iff` reads the Boolean
monitor `conforms` as a proposition; `InvPK` says that every Kill of the propagation goroutine has put
its `Canceled` into `requested` (so the callers' Kills are `#Canceled(requested) - propKills`).
-/
import Goat.Proofs.ScopeSignalInv

namespace Goat.ScopeSignal
open Goat.LTS

def InvPK (s : State) : Prop :=
  ∀ (c : Nat) (x : Ctx), s.ctxs[c]? = some x → x.propKills ≤ x.requested.countP isCanceled

theorem invPK_tr {s s' : State} {t : Nat} (h : InvPK s) (hs : Tr s t s') : InvPK s' := by
  intro c0 y hy
  unfold InvPK at h
  have hc : [canceled].countP isCanceled = 1 := by decide
  cases hs <;> proj_simp <;> grind

theorem length_split (l : List Nat) : l.length = l.countP (fun e => !isCanceled e) + l.countP isCanceled := by
  induction l with
  | nil => rfl
  | cons a l ih =>
    simp only [List.countP_cons, List.length_cons]
    cases isCanceled a <;> simp <;> omega

theorem conforms_iff (h : Hist) : conforms h = true ↔
    (h.panics = 0 ∧ h.lenTagged = h.appended ∧
     (h.lenCancel = h.kills ∨ (h.isolated = true ∧ h.parentDone = true ∧ h.parentErr = true ∧ h.lenCancel = h.kills + 1)) ∧
     (h.errNonNil = true ↔ 0 < h.lenTagged + h.lenCancel) ∧
     (0 < h.stops + h.appended + h.kills → h.done = true) ∧
     (h.done = true → 0 < h.stops + h.lenTagged + h.lenCancel ∨ (h.isolated = true ∧ h.parentDone = true))) := by
  simp only [conforms, Bool.and_eq_true, Bool.or_eq_true, beq_iff_eq, decide_eq_true_eq, Bool.not_eq_true',
    decide_eq_false_iff_not]
  constructor
  · rintro ⟨⟨⟨⟨⟨a, b⟩, c⟩, d⟩, e⟩, f⟩
    refine ⟨a, b, ?_, ?_, ?_, ?_⟩
    · rcases c with c | ⟨⟨⟨c1, c2⟩, c3⟩, c4⟩
      · exact Or.inl c
      · exact Or.inr ⟨c1, c2, c3, c4⟩
    · rw [d]; simp
    · intro hp; rcases e with e | e
      · exact absurd hp e
      · exact e
    · intro hd; rcases f with (f | f) | ⟨f1, f2⟩
      · rw [hd] at f; cases f
      · exact Or.inl f
      · exact Or.inr ⟨f1, f2⟩
  · rintro ⟨a, b, c, d, e, f⟩
    refine ⟨⟨⟨⟨⟨a, b⟩, ?_⟩, ?_⟩, ?_⟩, ?_⟩
    · rcases c with c | ⟨c1, c2, c3, c4⟩
      · exact Or.inl c
      · exact Or.inr ⟨⟨⟨c1, c2⟩, c3⟩, c4⟩
    · cases hE : h.errNonNil <;> simp [hE] at d ⊢ <;> omega
    · by_cases hp : 0 < h.stops + h.appended + h.kills
      · exact Or.inr (e hp)
      · exact Or.inl hp
    · cases hD : h.done
      · exact Or.inl (Or.inl rfl)
      · rcases f hD with f | ⟨f1, f2⟩
        · exact Or.inl (Or.inr f)
        · exact Or.inr ⟨f1, f2⟩

end Goat.ScopeSignal
