/-
Helper lemmas for property C12, part 5: the propagation goroutine of an isolated context.
It acts on its own context only, at most once, and what it does is justified by the state of the
parent: a Kill only if the parent is done and holds an error, a Stop only if the parent is done.
(`done` never re-opens and a held error is never dropped: `tr_mono`.)
-/
import Goat.Proofs.ScopeSignalInv

namespace Goat.ScopeSignal
open Goat.LTS

def State.closesOf (s : State) (p : Nat) : Nat := match s.ctxs[p]? with | some x => x.closes | none => 0
def State.hasErr (s : State) (p : Nat) : Prop := match s.ctxs[p]? with | some x => x.errors ≠ [] | none => False
def State.kindOf (s : State) (c : Nat) : Option Kind := match s.ctxs[c]? with | some x => some x.kind | none => none

theorem kindOf_some {s : State} {c : Nat} {x : Ctx} (h : s.ctxs[c]? = some x) : s.kindOf c = some x.kind := by
  simp [State.kindOf, h]
theorem closesOf_some {s : State} {c : Nat} {x : Ctx} (h : s.ctxs[c]? = some x) : s.closesOf c = x.closes := by
  simp [State.closesOf, h]
theorem hasErr_some {s : State} {c : Nat} {x : Ctx} (h : s.ctxs[c]? = some x) : s.hasErr c ↔ x.errors ≠ [] := by
  simp [State.hasErr, h]

/-- `done` never re-opens, a held error is never dropped, the kind of a context never changes -/
theorem tr_mono {s s' : State} {t : Nat} (hm : InvMu s) (hs : Tr s t s') (p : Nat) :
    s.closesOf p ≤ s'.closesOf p ∧ (s.hasErr p → s'.hasErr p) ∧ s'.kindOf p = s.kindOf p := by
  obtain ⟨h1, h2, h3, h4⟩ := hm
  unfold State.closesOf State.hasErr State.kindOf
  cases hs <;> proj_simp <;> grind [List.append_eq_nil_iff]

/-- `pc` is the propagation goroutine of context `c` and has not decided yet -/
def propAlive (c : Nat) : PC → Nat
  | .propWait c' _ => if c' = c then 1 else 0
  | .propCheck c' _ => if c' = c then 1 else 0
  | _ => 0

structure InvProp (s : State) : Prop where
  waitKind : ∀ (t c p : Nat), s.threads[t]? = some (.propWait c p) → s.kindOf c = some (.isolated p)
  checkKind : ∀ (t c p : Nat), s.threads[t]? = some (.propCheck c p) →
    s.kindOf c = some (.isolated p) ∧ 1 ≤ s.closesOf p
  killJust : ∀ (c : Nat) (x : Ctx), s.ctxs[c]? = some x → 0 < x.propKills →
    ∃ p, x.kind = .isolated p ∧ 1 ≤ s.closesOf p ∧ s.hasErr p
  stopJust : ∀ (c : Nat) (x : Ctx), s.ctxs[c]? = some x → 0 < x.propStops →
    ∃ p, x.kind = .isolated p ∧ 1 ≤ s.closesOf p
  once : ∀ (c : Nat) (x : Ctx), s.ctxs[c]? = some x → x.propKills + x.propStops + wsum (propAlive c) s.threads ≤ 1

attribute [local grind] propAlive

set_option maxHeartbeats 1000000 in
theorem invProp_tr {s s' : State} {t : Nat} (hm : InvMu s) (h : InvProp s) (hs : Tr s t s') :
    InvProp s' := by
  have mono := tr_mono hm hs
  obtain ⟨p1, p2, p3, p4, p5⟩ := h
  refine ⟨?_, ?_, ?_, ?_, ?_⟩
  · intro t1 c p ht1
    rw [(mono c).2.2]
    cases hs <;> proj_simp <;> grind
  · intro t1 c p ht1
    rw [(mono c).2.2]
    have := (mono p).1
    cases hs <;> proj_simp <;> grind [closesOf_some]
  · intro c0 y hy hk
    cases hs <;> proj_simp <;> grind [kindOf_some, closesOf_some, hasErr_some]
  · intro c0 y hy hk
    cases hs <;> proj_simp <;> grind [kindOf_some, closesOf_some, hasErr_some]
  · intro c0 y hy
    cases hs <;> proj_simp <;>
      (have hw := fun b => wsum_set (propAlive c0) s.threads t _ b ‹s.threads[t]? = some _›
       grind)

/-! the initial threads: at most one propagation goroutine per context -/

theorem propAlive_propThreads_lt (ks : List Kind) (i c : Nat) (h : c < i) :
    wsum (propAlive c) (propThreads ks i) = 0 := by
  induction ks generalizing i with
  | nil => rfl
  | cons k ks ih =>
    cases k with
    | plain => exact ih (i + 1) (by omega)
    | isolated q =>
      simp only [propThreads, wsum, propAlive]
      have : ¬ i = c := by omega
      simp [this, ih (i + 1) (by omega)]

theorem propAlive_propThreads_le (ks : List Kind) (i c : Nat) : wsum (propAlive c) (propThreads ks i) ≤ 1 := by
  induction ks generalizing i with
  | nil => simp [propThreads, wsum]
  | cons k ks ih =>
    cases k with
    | plain => exact ih (i + 1)
    | isolated q =>
      simp only [propThreads, wsum, propAlive]
      by_cases hic : i = c
      · subst hic
        simp [propAlive_propThreads_lt ks (i + 1) i (by omega)]
      · simp [hic]; exact ih (i + 1)

end Goat.ScopeSignal
