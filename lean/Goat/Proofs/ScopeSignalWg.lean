/-
Helper lemmas for property C12, part 6: the wait-group counter of a scope equals the number of its
registered children that have not signed off plus the number of goroutines that have done
`wg.Add(1)` and not yet published the child.  Stated for every index, existing scope or not (a
scope that does not exist yet has counter 0 and nobody refers to it), so that publishing a new
scope needs no separate well-formedness invariant.  Consequence: no counter is ever negative.
-/
import Goat.Proofs.ScopeSignal

namespace Goat.ScopeSignal
open Goat.LTS

/-- `sc` is a registered child of `p` that has not signed off yet -/
def openChild (p : Nat) (sc : Scope) : Nat := if sc.parent = some p ∧ sc.closed = false then 1 else 0
/-- goroutine `pc` has done `wg.Add(1)` on `p` and not yet published the child -/
def mkReg (p : Nat) : PC → Nat
  | .ncMk p' _ true => if p' = p then 1 else 0
  | _ => 0

/-- the wait-group counter of scope `p` (0 for a scope that does not exist yet) -/
def State.wgOf (s : State) (p : Nat) : Int := match s.scopes[p]? with | some sc => sc.wg | none => 0

def InvWg (s : State) : Prop :=
  ∀ (p : Nat), s.wgOf p = ((wsum (openChild p) s.scopes + wsum (mkReg p) s.threads : Nat) : Int)

/-- normalise the projections of an updated state -/
local macro "proj_simp'" : tactic => `(tactic| try simp only [threads_setPC, ctxs_setPC, scopes_setPC, threads_setCtx,
  ctxs_setCtx, scopes_setCtx, threads_setScope, ctxs_setScope, scopes_setScope, threads_addScope, ctxs_addScope,
  scopes_addScope] at *)

attribute [local grind] mkReg openChild

set_option maxHeartbeats 1000000 in
theorem invWg_tr {s s' : State} {t : Nat} (h : InvWg s) (hs : Tr s t s') : InvWg s' := by
  intro p0
  unfold InvWg at h
  unfold State.wgOf at *
  cases hs with
  | ncAdd hpc hsc =>
    proj_simp'
    have hw := fun b => wsum_set (mkReg p0) s.threads t _ b hpc
    have hv := fun b => wsum_set (openChild p0) s.scopes _ _ b hsc
    grind
  | ncMk hpc hsc =>
    rename_i reg _
    cases reg <;> proj_simp' <;>
     (have hw := fun b => wsum_set (mkReg p0) s.threads t _ b hpc
      have hv := fun b => wsum_snoc (openChild p0) s.scopes b
      grind)
  | closeRoot hpc hsc hcl hpar =>
    proj_simp'
    have hw := fun b => wsum_set (mkReg p0) s.threads t _ b hpc
    have hv := fun b => wsum_set (openChild p0) s.scopes _ _ b hsc
    grind
  | closeOrphan hpc hsc hcl hpar hps =>
    proj_simp'
    have hw := fun b => wsum_set (mkReg p0) s.threads t _ b hpc
    have hv := fun b => wsum_set (openChild p0) s.scopes _ _ b hsc
    grind
  | @closeChild sid p sc ps hpc hsc hcl hpar hps =>
    proj_simp'
    have hA := wsum_set (mkReg p0) s.threads t _ .idle hpc
    have hB := wsum_set (openChild p0) s.scopes _ _ { sc with closed := true } hsc
    have hC := wsum_set (openChild p0) _ _ _ { ps with wg := ps.wg - 1 } hps
    have hI := h p0
    have hlen : sid < s.scopes.length := by
      rcases Nat.lt_or_ge sid s.scopes.length with hl | hl
      · exact hl
      · simp [List.getElem?_eq_none hl] at hsc
    simp only [mkReg, openChild, hcl, hpar, Option.some.injEq] at hA hB hC
    simp only [List.getElem?_set, hlen, if_true] at hps ⊢
    clear h
    grind
  | _ =>
    proj_simp'
    have hw := fun b => wsum_set (mkReg p0) s.threads t _ b ‹s.threads[t]? = some _›
    grind

end Goat.ScopeSignal
