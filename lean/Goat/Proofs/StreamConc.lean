/-
Helper lemmas for C04 (4): an open reader next to a rewriting writer of the same memory file
(`Goat/Model/Stream.lean` section 10).  Nothing here changes a definition of the model.

  `WF old chunks s`     bookkeeping invariant of the two-thread system: the slice stays inside its array, the lock
                        is held exactly while the rewriter is between open and Close or a `lock` reader is open
                        (never both), and the file's content is `old` before the rewriter's open, what it has
                        written so far in between (`content ++ todo.flatten = chunks.flatten`), the chunks'
                        concatenation after its Close
  `Iso cfg d pos s`     ISOLATION: a reader is open at position `pos` and the bytes it reads from are `d`;
                        every step of the rewriter keeps it (safe disciplines), so do the reader's own reads
  `wsteps_finish`       no deadlock: once no `lock` reader is open the rewriter reaches its Close within
                        `todo.length + 2` steps
  `ioLoopG_eq`          `ioLoopG RHandle.read` is `ioLoop`
  `ioLoopG_sim`         the copy loop over two readers that deliver the same bytes has the same outcome
  `readerRun_spec`, `streamCopyRW_spec`  what `Props/C04` states
-/
import Goat.Proofs.StreamCopy

namespace Goat
namespace Stream

open FS (Entry State)

/-! ### the rewriter's steps -/

/-- is this a `lock` reader -/
def liveR : Option MReader → Bool
  | some ⟨.live, _⟩ => true
  | _ => false

/-- a `lock` reader is open -/
def Sys.hasLive (s : Sys) : Bool := liveR s.rd

structure WF (old : Bytes) (chunks : List Bytes) (s : Sys) : Prop where
  cap : s.cell.len ≤ s.cell.back.length
  idle : s.phase = .idle → s.todo = chunks ∧ s.cell.content = old
  writing : s.phase = .writing → s.cell.content ++ s.todo.flatten = chunks.flatten
  closed : s.phase = .closed → s.cell.content = chunks.flatten
  lock : s.cell.locked = (s.phase == .writing || s.hasLive)
  excl : ¬ (s.phase = .writing ∧ s.hasLive = true)

theorem init_wf (old slack : Bytes) (chunks : List Bytes) : WF old chunks (Sys.init old slack chunks) := by
  refine ⟨?_, ?_, ?_, ?_, ?_, ?_⟩ <;> simp [Sys.init, Cell.content, Sys.hasLive, liveR]

@[simp] theorem liveR_detach (c : Cell) (r : Option MReader) : liveR (detach c r) = liveR r := by
  cases r with
  | none => rfl
  | some m =>
    obtain ⟨v, p⟩ := m
    cases v <;> rfl

theorem wstep_hasLive (cfg : Disc) (s : Sys) : (wstep cfg s).hasLive = s.hasLive := by
  obtain ⟨cell, rd, ph, td⟩ := s
  unfold wstep Sys.hasLive
  cases ph with
  | idle =>
    simp only
    split
    · rfl
    · cases cfg.tr
      · exact liveR_detach _ _
      · rfl
  | writing =>
    cases td with
    | nil => rfl
    | cons c rest =>
      simp only
      split
      · rfl
      · exact liveR_detach _ _
  | closed => rfl

theorem take_inplace (b c : Bytes) (l : Nat) (h : l ≤ b.length) :
    (b.take l ++ c ++ b.drop (l + c.length)).take (l + c.length) = b.take l ++ c := by
  apply List.take_left'
  simp [List.length_take, Nat.min_eq_left h]

theorem take_realloc (b c : Bytes) (l : Nat) (h : l ≤ b.length) :
    (b.take l ++ c).take (l + c.length) = b.take l ++ c := by
  apply List.take_of_length_le
  simp [List.length_take, Nat.min_eq_left h]

theorem wstep_wf (cfg : Disc) (old : Bytes) (chunks : List Bytes) (s : Sys) (h : WF old chunks s) :
    WF old chunks (wstep cfg s) := by
  obtain ⟨⟨back, len, locked⟩, rd, ph, td⟩ := s
  obtain ⟨hcap, hidle, hwr, hcl, hlock, hex⟩ := h
  simp only [Sys.hasLive] at hcap hidle hwr hcl hlock hex
  cases ph with
  | idle =>
    unfold wstep
    simp only
    cases locked with
    | true => exact ⟨hcap, hidle, hwr, hcl, hlock, hex⟩
    | false =>
      simp only [Bool.false_eq_true, if_false]
      have hnl : liveR rd = false := by simpa using hlock.symm
      obtain ⟨htd, _⟩ := hidle rfl
      cases cfg.tr with
      | fresh =>
        simp only
        refine ⟨by simp, by simp, ?_, by simp, ?_, ?_⟩
        · intro _; simp [Cell.content, htd]
        · simp [Sys.hasLive, hnl]
        · simp [Sys.hasLive, hnl]
      | inPlace =>
        simp only
        refine ⟨by simp, by simp, ?_, by simp, ?_, ?_⟩
        · intro _; simp [Cell.content, htd]
        · simp [Sys.hasLive, hnl]
        · simp [Sys.hasLive, hnl]
  | writing =>
    have hnl : liveR rd = false := by
      cases hh : liveR rd with
      | false => rfl
      | true => exact absurd ⟨rfl, hh⟩ hex
    have hw := hwr rfl
    simp only [Cell.content] at hw
    have hlk : locked = true := by simpa using hlock
    unfold wstep
    cases td with
    | nil =>
      simp only
      refine ⟨hcap, by simp, by simp, ?_, ?_, by simp⟩
      · intro _; simpa [Cell.content] using hw
      · simp [Sys.hasLive, hnl]
    | cons c rest =>
      simp only
      by_cases hfit : len + c.length ≤ back.length
      · simp only [if_pos hfit]
        refine ⟨?_, by simp, ?_, by simp, ?_, ?_⟩
        · simp only [List.length_append, List.length_take, List.length_drop]; omega
        · intro _
          simp only [Cell.content]
          rw [take_inplace back c len hcap]
          simpa [List.append_assoc] using hw
        · simp [Sys.hasLive, hnl, hlk]
        · simp [Sys.hasLive, hnl]
      · simp only [if_neg hfit]
        refine ⟨?_, by simp, ?_, by simp, ?_, ?_⟩
        · simp only [List.length_append, List.length_take]; omega
        · intro _
          simp only [Cell.content]
          rw [take_realloc back c len hcap]
          simpa [List.append_assoc] using hw
        · simp [Sys.hasLive, hnl, hlk]
        · simp [Sys.hasLive, hnl]
  | closed => exact ⟨hcap, hidle, hwr, hcl, hlock, hex⟩

theorem wsteps_wf (cfg : Disc) (old : Bytes) (chunks : List Bytes) (k : Nat) (s : Sys) (h : WF old chunks s) :
    WF old chunks (wsteps cfg k s) := by
  induction k generalizing s with
  | zero => exact h
  | succ k ih => exact ih _ (wstep_wf cfg old chunks s h)

theorem wsteps_hasLive (cfg : Disc) (k : Nat) (s : Sys) : (wsteps cfg k s).hasLive = s.hasLive := by
  induction k generalizing s with
  | zero => rfl
  | succ k ih => simp only [wsteps]; rw [ih, wstep_hasLive]

theorem wstep_rd_none (cfg : Disc) (s : Sys) (h : s.rd = none) : (wstep cfg s).rd = none := by
  obtain ⟨cell, rd, ph, td⟩ := s
  simp only at h
  subst h
  unfold wstep
  cases ph with
  | idle =>
    simp only
    split
    · rfl
    · cases cfg.tr <;> rfl
  | writing =>
    cases td with
    | nil => rfl
    | cons c rest => simp only; split <;> rfl
  | closed => rfl

theorem wsteps_rd_none (cfg : Disc) (k : Nat) (s : Sys) (h : s.rd = none) : (wsteps cfg k s).rd = none := by
  induction k generalizing s with
  | zero => exact h
  | succ k ih => exact ih _ (wstep_rd_none cfg s h)

/-- steps the rewriter still needs -/
def rem (s : Sys) : Nat :=
  match s.phase with
  | .idle => s.todo.length + 2
  | .writing => s.todo.length + 1
  | .closed => 0

/-- NO DEADLOCK: with no `lock` reader open, the rewriter reaches its `Close` -/
theorem wsteps_finish (cfg : Disc) (old : Bytes) (chunks : List Bytes) (k : Nat) (s : Sys) (h : WF old chunks s)
    (hnl : s.hasLive = false) (hk : rem s ≤ k) :
    (wsteps cfg k s).phase = .closed ∧ (wsteps cfg k s).cell.locked = false
      ∧ (wsteps cfg k s).cell.content = chunks.flatten := by
  induction k generalizing s with
  | zero =>
    have hp : s.phase = .closed := by
      unfold rem at hk
      cases hp : s.phase <;> rw [hp] at hk <;> simp at hk ⊢
    refine ⟨hp, ?_, h.closed hp⟩
    show s.cell.locked = false
    rw [h.lock, hnl, hp]; rfl
  | succ k ih =>
    simp only [wsteps]
    apply ih _ (wstep_wf cfg old chunks s h) (by rw [wstep_hasLive, hnl])
    have hlk := h.lock
    rw [hnl] at hlk
    obtain ⟨⟨back, len, locked⟩, rd, ph, td⟩ := s
    simp only at hlk
    unfold rem at hk ⊢
    unfold wstep
    cases ph with
    | idle =>
      simp only at hk hlk ⊢
      have : locked = false := by rw [hlk]; rfl
      subst this
      simp only [Bool.false_eq_true, if_false]
      cases cfg.tr <;> simp only <;> omega
    | writing =>
      cases td with
      | nil => simp
      | cons c rest =>
        simp only [List.length_cons] at hk ⊢
        by_cases hfit : len + c.length ≤ back.length
        · simp only [if_pos hfit]; omega
        · simp only [if_neg hfit]; omega
    | closed => simp

/-! ### isolation -/

/-- a reader is open at `pos`, the bytes it reads from are `d`, and no step of the rewriter can change that:
a `lock` reader holds the lock and the rewriter is not between its open and Close; a private copy is private;
a reader that shares the file's array does so while the rewriter is not writing, and the rewriter's open will
give the file a fresh array -/
def Iso (cfg : Disc) (d : Bytes) (pos : Nat) (s : Sys) : Prop :=
  ∃ m, s.rd = some m ∧ m.pos = pos ∧ m.data s.cell = d ∧
    match m.view with
    | .live => s.cell.locked = true ∧ s.phase ≠ .writing
    | .own _ => True
    | .shared _ => s.phase ≠ .writing ∧ cfg.tr = .fresh

theorem wstep_iso (cfg : Disc) (d : Bytes) (pos : Nat) (s : Sys) (h : Iso cfg d pos s) : Iso cfg d pos (wstep cfg s) := by
  obtain ⟨⟨back, len, locked⟩, rd, ph, td⟩ := s
  obtain ⟨⟨v, p⟩, hrd, hpos, hdata, hv⟩ := h
  simp only at hrd hpos hdata hv
  subst hrd
  subst hpos
  unfold wstep
  cases ph with
  | idle =>
    simp only
    cases locked with
    | true => exact ⟨⟨v, p⟩, rfl, rfl, hdata, hv⟩
    | false =>
      simp only [Bool.false_eq_true, if_false]
      cases v with
      | live => simp at hv
      | own d' =>
        cases cfg.tr <;> exact ⟨⟨.own d', p⟩, rfl, rfl, hdata, trivial⟩
      | shared n =>
        obtain ⟨_, htr⟩ := hv
        rw [htr]
        exact ⟨⟨.own (back.take n), p⟩, rfl, rfl, hdata, trivial⟩
  | writing =>
    cases v with
    | live => simp at hv
    | shared n => simp at hv
    | own d' =>
      cases td with
      | nil => exact ⟨⟨.own d', p⟩, rfl, rfl, hdata, trivial⟩
      | cons c rest =>
        simp only
        split <;> exact ⟨⟨.own d', p⟩, rfl, rfl, hdata, trivial⟩
  | closed => exact ⟨⟨v, p⟩, rfl, rfl, hdata, hv⟩

theorem wsteps_iso (cfg : Disc) (d : Bytes) (pos : Nat) (k : Nat) (s : Sys) (h : Iso cfg d pos s) :
    Iso cfg d pos (wsteps cfg k s) := by
  induction k generalizing s with
  | zero => exact h
  | succ k ih => exact ih _ (wstep_iso cfg d pos s h)

/-- a `Read` of an isolated reader is the sequential `Read` on `d`, and keeps the reader isolated -/
theorem readR_iso (cfg : Disc) (d : Bytes) (pos : Nat) (s : Sys) (n : Nat) (h : Iso cfg d pos s) :
    (readR s n).1 = ((RHandle.mk d pos .eager).read n).1
    ∧ (readR s n).2.1 = ((RHandle.mk d pos .eager).read n).2.1
    ∧ Iso cfg d ((RHandle.mk d pos .eager).read n).2.2.pos (readR s n).2.2 := by
  obtain ⟨m, hrd, hpos, hdata, hv⟩ := h
  unfold readR
  rw [hrd]
  simp only
  rw [hdata, hpos]
  refine ⟨rfl, rfl, ⟨{ m with pos := _ }, rfl, rfl, ?_, ?_⟩⟩
  · simpa [MReader.data] using hdata
  · simpa using hv

theorem readR_wf (old : Bytes) (chunks : List Bytes) (s : Sys) (n : Nat) (h : WF old chunks s) :
    WF old chunks (readR s n).2.2 := by
  unfold readR
  cases hrd : s.rd with
  | none => exact h
  | some m =>
    simp only
    obtain ⟨hcap, hidle, hwr, hcl, hlock, hex⟩ := h
    have hl : liveR (some { m with pos := ((RHandle.mk (m.data s.cell) m.pos .eager).read n).2.2.pos }) = liveR s.rd := by
      rw [hrd]; obtain ⟨v, p⟩ := m; cases v <;> rfl
    exact ⟨hcap, hidle, hwr, hcl, by simpa [Sys.hasLive, hl] using hlock, by simpa [Sys.hasLive, hl] using hex⟩

theorem closeReader_rd (s : Sys) : (closeReader s).rd = none := by
  unfold closeReader
  split <;> first | assumption | rfl

theorem closeReader_wf (old : Bytes) (chunks : List Bytes) (s : Sys) (h : WF old chunks s) :
    WF old chunks (closeReader s) := by
  obtain ⟨cell, rd, ph, td⟩ := s
  obtain ⟨hcap, hidle, hwr, hcl, hlock, hex⟩ := h
  simp only [Sys.hasLive] at hcap hidle hwr hcl hlock hex
  cases rd with
  | none => exact ⟨hcap, hidle, hwr, hcl, hlock, hex⟩
  | some m =>
    obtain ⟨v, p⟩ := m
    cases v with
    | live =>
      have hph : ph ≠ .writing := fun e => hex ⟨e, rfl⟩
      refine ⟨hcap, hidle, hwr, hcl, ?_, by simp [closeReader, Sys.hasLive, liveR]⟩
      cases ph <;> simp_all [closeReader, Sys.hasLive, liveR]
    | own d => exact ⟨hcap, hidle, hwr, hcl, by simpa [closeReader, Sys.hasLive, liveR] using hlock,
        by simp [closeReader, Sys.hasLive, liveR]⟩
    | shared k => exact ⟨hcap, hidle, hwr, hcl, by simpa [closeReader, Sys.hasLive, liveR] using hlock,
        by simp [closeReader, Sys.hasLive, liveR]⟩

/-- the reader's thread has waited for the lock: the file is free, and holds the old or the new content -/
theorem awaitFree_spec (cfg : Disc) (old : Bytes) (chunks : List Bytes) (s : Sys) (h : WF old chunks s)
    (hrd : s.rd = none) :
    WF old chunks (awaitFree cfg s) ∧ (awaitFree cfg s).rd = none ∧ (awaitFree cfg s).cell.locked = false
      ∧ (awaitFree cfg s).phase ≠ .writing
      ∧ ((awaitFree cfg s).cell.content = old ∨ (awaitFree cfg s).cell.content = chunks.flatten) := by
  have hnl : s.hasLive = false := by simp [Sys.hasLive, hrd, liveR]
  have hfree : ∀ t : Sys, WF old chunks t → t.hasLive = false → t.cell.locked = false →
      t.phase ≠ .writing ∧ (t.cell.content = old ∨ t.cell.content = chunks.flatten) := by
    intro t ht htl hlk
    have := ht.lock
    rw [htl, hlk] at this
    cases hp : t.phase with
    | idle => exact ⟨by simp, Or.inl (ht.idle hp).2⟩
    | writing => rw [hp] at this; simp at this
    | closed => exact ⟨by simp, Or.inr (ht.closed hp)⟩
  unfold awaitFree
  by_cases hl : s.cell.locked = true
  · rw [if_pos hl]
    have hw : s.phase = .writing := by
      have := h.lock
      rw [hnl, hl] at this
      cases hp : s.phase <;> rw [hp] at this <;> simp at this ⊢
    have hfin := wsteps_finish cfg old chunks (s.todo.length + 1) s h hnl (by unfold rem; rw [hw]; exact Nat.le_refl _)
    have hwf := wsteps_wf cfg old chunks (s.todo.length + 1) s h
    refine ⟨hwf, wsteps_rd_none cfg _ s hrd, hfin.2.1, ?_, Or.inr hfin.2.2⟩
    rw [hfin.1]; simp
  · rw [if_neg hl]
    have hl' : s.cell.locked = false := by simpa using hl
    obtain ⟨h1, h2⟩ := hfree s h hnl hl'
    exact ⟨h, hrd, hl', h1, h2⟩

/-- `Reader(p)` on a free file: the new handle is isolated on the file's present content -/
theorem openReader_spec (cfg : Disc) (hsafe : cfg.safe = true) (old : Bytes) (chunks : List Bytes) (s : Sys)
    (h : WF old chunks s) (hrd : s.rd = none) (hl : s.cell.locked = false) (hp : s.phase ≠ .writing) :
    WF old chunks (openReader cfg s) ∧ Iso cfg s.cell.content 0 (openReader cfg s) := by
  obtain ⟨cell, rd, ph, td⟩ := s
  obtain ⟨hcap, hidle, hwr, hcl, hlock, hex⟩ := h
  simp only [Sys.hasLive] at hcap hidle hwr hcl hlock hex hrd hl hp
  subst hrd
  unfold openReader
  cases hr : cfg.rd with
  | lock =>
    simp only
    refine ⟨⟨hcap, hidle, hwr, hcl, by simp [Sys.hasLive, liveR], by simp [Sys.hasLive, liveR, hp]⟩, ?_⟩
    exact ⟨⟨.live, 0⟩, rfl, rfl, rfl, rfl, hp⟩
  | copy =>
    simp only
    refine ⟨⟨hcap, hidle, hwr, hcl, by simpa [Sys.hasLive, liveR] using hlock, by simp [Sys.hasLive, liveR]⟩, ?_⟩
    exact ⟨⟨.own cell.content, 0⟩, rfl, rfl, rfl, trivial⟩
  | alias =>
    simp only
    refine ⟨⟨hcap, hidle, hwr, hcl, by simpa [Sys.hasLive, liveR] using hlock, by simp [Sys.hasLive, liveR]⟩, ?_⟩
    have htr : cfg.tr = .fresh := by
      unfold Disc.safe at hsafe
      rw [hr] at hsafe
      cases ht : cfg.tr <;> rw [ht] at hsafe <;> simp at hsafe ⊢
    exact ⟨⟨.shared cell.len, 0⟩, rfl, rfl, rfl, hp, htr⟩

theorem read_handle_eq (d : Bytes) (pos n : Nat) :
    ((RHandle.mk d pos .eager).read n).2.2 = ⟨d, ((RHandle.mk d pos .eager).read n).2.2.pos, .eager⟩ := by
  simp [RHandle.read]

/-- the reads of an isolated reader under ANY schedule are the sequential reads of `d` -/
theorem readsI_iso (cfg : Disc) (old : Bytes) (chunks : List Bytes) (d : Bytes) (sizes : List Nat) :
    ∀ (ws : List Nat) (s : Sys) (pos : Nat), WF old chunks s → Iso cfg d pos s →
      (readsI cfg ws sizes s).1 = (RHandle.mk d pos .eager).reads sizes
      ∧ WF old chunks (readsI cfg ws sizes s).2.2 ∧ ∃ pos', Iso cfg d pos' (readsI cfg ws sizes s).2.2 := by
  induction sizes with
  | nil => intro ws s pos hwf hiso; exact ⟨rfl, hwf, pos, hiso⟩
  | cons n ns ih =>
    intro ws s pos hwf hiso
    have hwf1 := wsteps_wf cfg old chunks (ws.headD 0) s hwf
    have hiso1 := wsteps_iso cfg d pos (ws.headD 0) s hiso
    obtain ⟨e1, e2, hiso2⟩ := readR_iso cfg d pos _ n hiso1
    have hwf2 := readR_wf old chunks _ n hwf1
    obtain ⟨e3, hwf3, hiso3⟩ := ih ws.tail _ _ hwf2 hiso2
    simp only [readsI, RHandle.reads]
    refine ⟨?_, hwf3, hiso3⟩
    rw [e1, e2, e3, ← read_handle_eq]

theorem rem_le (s : Sys) : rem s ≤ s.todo.length + 2 := by
  unfold rem; split <;> omega

/-- the reader's `Close` and what follows: the rewriter runs to its end -/
theorem close_finish (cfg : Disc) (old : Bytes) (chunks : List Bytes) (x : Sys) (h : WF old chunks x) :
    let y := closeReader x
    (wsteps cfg (y.todo.length + 2) y).phase = .closed ∧ (wsteps cfg (y.todo.length + 2) y).cell.locked = false
      ∧ (wsteps cfg (y.todo.length + 2) y).cell.content = chunks.flatten
      ∧ (wsteps cfg (y.todo.length + 2) y).rd = none := by
  intro y
  have hy := closeReader_wf old chunks x h
  have hr := closeReader_rd x
  have hl : y.hasLive = false := by
    show liveR (closeReader x).rd = false
    rw [hr]; rfl
  obtain ⟨f1, f2, f3⟩ := wsteps_finish cfg old chunks (y.todo.length + 2) y hy hl (rem_le y)
  exact ⟨f1, f2, f3, wsteps_rd_none cfg _ y hr⟩

/-- the reader's thread moves first: it finds the old content -/
theorem await_first (cfg : Disc) (old slack : Bytes) (chunks : List Bytes) (ws : List Nat) (h : ws.headD 0 = 0) :
    (awaitFree cfg (wsteps cfg (ws.headD 0) (Sys.init old slack chunks))).cell.content = old := by
  rw [h]
  simp [wsteps, awaitFree, Sys.init, Cell.content]

/-- what `Props/C04.reader_isolated_from_rewrite` states -/
theorem readerRun_spec (cfg : Disc) (hsafe : cfg.safe = true) (old slack : Bytes) (chunks : List Bytes)
    (sizes ws : List Nat) :
    let r := readerRun cfg ws sizes (Sys.init old slack chunks)
    (r.atOpen = old ∨ r.atOpen = chunks.flatten)
    ∧ (ws.headD 0 = 0 → r.atOpen = old)
    ∧ r.out = (RHandle.open .eager r.atOpen).reads sizes
    ∧ r.fin.cell.content = chunks.flatten ∧ r.fin.phase = .closed ∧ r.fin.cell.locked = false ∧ r.fin.rd = none := by
  intro r
  have h0 := init_wf old slack chunks
  have h1 := wsteps_wf cfg old chunks (ws.headD 0) _ h0
  have h1r := wsteps_rd_none cfg (ws.headD 0) (Sys.init old slack chunks) rfl
  obtain ⟨h2, h2r, h2l, h2p, h2c⟩ := awaitFree_spec cfg old chunks _ h1 h1r
  obtain ⟨h3, h3i⟩ := openReader_spec cfg hsafe old chunks _ h2 h2r h2l h2p
  obtain ⟨e4, h4, p4, h4i⟩ := readsI_iso cfg old chunks _ sizes ws.tail _ 0 h3 h3i
  obtain ⟨f1, f2, f3, f4⟩ := close_finish cfg old chunks _ (wsteps_wf cfg old chunks
    ((readsI cfg ws.tail sizes (openReader cfg (awaitFree cfg (wsteps cfg (ws.headD 0) (Sys.init old slack chunks))))).2.1.headD 0)
    _ h4)
  exact ⟨h2c, await_first cfg old slack chunks ws, e4, f3, f1, f2, f4⟩

/-- the rewriter has to wait for a `lock` reader: opened first, the reader finds the rewriter still before
its open when it closes, and the file untouched -/
theorem readerRun_writer_waits (cfg : Disc) (hlock : cfg.rd = .lock) (old slack : Bytes) (chunks : List Bytes)
    (sizes ws : List Nat) (hfirst : ws.headD 0 = 0) :
    let r := readerRun cfg ws sizes (Sys.init old slack chunks)
    r.atOpen = old ∧ r.beforeClose.phase = .idle ∧ r.beforeClose.cell.content = old ∧ r.beforeClose.todo = chunks := by
  intro r
  have hsafe : cfg.safe = true := by unfold Disc.safe; rw [hlock]; rfl
  have hs1 : awaitFree cfg (wsteps cfg (ws.headD 0) (Sys.init old slack chunks)) = Sys.init old slack chunks := by
    rw [hfirst]; rfl
  have hat : r.atOpen = old := by
    show (awaitFree cfg (wsteps cfg (ws.headD 0) (Sys.init old slack chunks))).cell.content = old
    rw [hs1]; simp [Sys.init, Cell.content]
  -- stronger invariant for the lock discipline: a live reader is open, the rewriter idle
  have hidle : ∀ (k : Nat) (s : Sys), s.phase = .idle → s.cell.locked = true → wsteps cfg k s = s := by
    intro k
    induction k with
    | zero => intro s _ _; rfl
    | succ k ih =>
      intro s hp hl
      have : wstep cfg s = s := by
        obtain ⟨cell, rd, ph, td⟩ := s
        simp only at hp hl
        subst hp
        unfold wstep
        simp [hl]
      simp only [wsteps]; rw [this]; exact ih s hp hl
  have hreads : ∀ (sizes ws : List Nat) (s : Sys), s.phase = .idle → s.cell.locked = true →
      (readsI cfg ws sizes s).2.2.phase = .idle ∧ (readsI cfg ws sizes s).2.2.cell = s.cell
        ∧ (readsI cfg ws sizes s).2.2.todo = s.todo := by
    intro sizes
    induction sizes with
    | nil => intro ws s hp hl; exact ⟨hp, rfl, rfl⟩
    | cons n ns ih =>
      intro ws s hp hl
      simp only [readsI]
      rw [hidle _ s hp hl]
      have hr : (readR s n).2.2.phase = s.phase ∧ (readR s n).2.2.cell = s.cell ∧ (readR s n).2.2.todo = s.todo := by
        unfold readR; split <;> exact ⟨rfl, rfl, rfl⟩
      obtain ⟨a, b, c⟩ := ih ws.tail (readR s n).2.2 (hr.1.trans hp) (by rw [hr.2.1]; exact hl)
      exact ⟨a, b.trans hr.2.1, c.trans hr.2.2⟩
  have hopen : (openReader cfg (Sys.init old slack chunks)).phase = .idle
      ∧ (openReader cfg (Sys.init old slack chunks)).cell = ⟨old ++ slack, old.length, true⟩
      ∧ (openReader cfg (Sys.init old slack chunks)).todo = chunks := by
    unfold openReader; rw [hlock]; exact ⟨rfl, rfl, rfl⟩
  obtain ⟨a, b, c⟩ := hreads sizes ws.tail (openReader cfg (Sys.init old slack chunks)) hopen.1 (by rw [hopen.2.1])
  have hbc : r.beforeClose = (readsI cfg ws.tail sizes (openReader cfg (Sys.init old slack chunks))).2.2 := by
    show wsteps cfg _ (readsI cfg ws.tail sizes (openReader cfg (awaitFree cfg (wsteps cfg (ws.headD 0) (Sys.init old slack chunks))))).2.2 = _
    rw [hs1]
    exact hidle _ _ a (by rw [b, hopen.2.1])
  rw [hbc]
  refine ⟨hat, a, ?_, c.trans hopen.2.2⟩
  rw [b, hopen.2.1]; simp [Cell.content]

/-! ### the copy loop over an abstract reader -/

theorem faultyReadG_eq (pl : Plan) (c : Calls) (r : RHandle) (n : Nat) :
    faultyReadG RHandle.read pl c r n = faultyRead pl c r n := by
  unfold faultyReadG faultyRead
  cases pl .read (c .read) with
  | none => rfl
  | some m => cases m <;> rfl

/-- `ioLoopG` over `RHandle.read` is `ioLoop` -/
theorem ioLoopG_eq (pl : Plan) (fuel : Nat) (sizes : List Nat) (c : Calls) (r : RHandle) (w : WHandle) :
    (ioLoopG RHandle.read pl fuel sizes c r w).ok = (ioLoop pl fuel sizes c r w).ok
    ∧ (ioLoopG RHandle.read pl fuel sizes c r w).calls = (ioLoop pl fuel sizes c r w).calls
    ∧ (ioLoopG RHandle.read pl fuel sizes c r w).w = (ioLoop pl fuel sizes c r w).w
    ∧ (ioLoopG RHandle.read pl fuel sizes c r w).r = (ioLoop pl fuel sizes c r w).r := by
  induction fuel generalizing sizes c r w with
  | zero => exact ⟨rfl, rfl, rfl, rfl⟩
  | succ fuel ih =>
    simp only [ioLoopG, ioLoop, faultyReadG_eq]
    split
    · split
      · exact ih _ _ _ _
      · exact ⟨rfl, rfl, rfl, rfl⟩
      · exact ⟨rfl, rfl, rfl, rfl⟩
    · split
      · split
        · exact ih _ _ _ _
        · exact ⟨rfl, rfl, rfl, rfl⟩
        · exact ⟨rfl, rfl, rfl, rfl⟩
      · exact ⟨rfl, rfl, rfl, rfl⟩

/-- two readers that deliver the same bytes and flags (related by `Rel`, which their reads keep) make the
copy loop behave the same: same verdict, same calls, same writer -/
theorem ioLoopG_sim {ρ₁ ρ₂ : Type} (rd₁ : ρ₁ → Nat → Bytes × Bool × ρ₁) (rd₂ : ρ₂ → Nat → Bytes × Bool × ρ₂)
    (Rel : ρ₁ → ρ₂ → Prop)
    (hstep : ∀ a b n, Rel a b → (rd₁ a n).1 = (rd₂ b n).1 ∧ (rd₁ a n).2.1 = (rd₂ b n).2.1
      ∧ Rel (rd₁ a n).2.2 (rd₂ b n).2.2)
    (pl : Plan) (fuel : Nat) (sizes : List Nat) (c : Calls) (a : ρ₁) (b : ρ₂) (w : WHandle) (h : Rel a b) :
    (ioLoopG rd₁ pl fuel sizes c a w).ok = (ioLoopG rd₂ pl fuel sizes c b w).ok
    ∧ (ioLoopG rd₁ pl fuel sizes c a w).calls = (ioLoopG rd₂ pl fuel sizes c b w).calls
    ∧ (ioLoopG rd₁ pl fuel sizes c a w).w = (ioLoopG rd₂ pl fuel sizes c b w).w
    ∧ Rel (ioLoopG rd₁ pl fuel sizes c a w).r (ioLoopG rd₂ pl fuel sizes c b w).r := by
  induction fuel generalizing sizes c a b w with
  | zero => exact ⟨rfl, rfl, rfl, h⟩
  | succ fuel ih =>
    -- the two reads of this round agree
    have hread : (faultyReadG rd₁ pl c a (chunkSize sizes)).1 = (faultyReadG rd₂ pl c b (chunkSize sizes)).1
        ∧ (faultyReadG rd₁ pl c a (chunkSize sizes)).2.1 = (faultyReadG rd₂ pl c b (chunkSize sizes)).2.1
        ∧ (faultyReadG rd₁ pl c a (chunkSize sizes)).2.2.1 = (faultyReadG rd₂ pl c b (chunkSize sizes)).2.2.1
        ∧ Rel (faultyReadG rd₁ pl c a (chunkSize sizes)).2.2.2 (faultyReadG rd₂ pl c b (chunkSize sizes)).2.2.2 := by
      unfold faultyReadG
      cases pl .read (c .read) with
      | none =>
        obtain ⟨e1, e2, e3⟩ := hstep a b (chunkSize sizes) h
        simp only [e1, e2]
        exact ⟨trivial, trivial, trivial, e3⟩
      | some m =>
        cases m with
        | hard => exact ⟨rfl, rfl, rfl, h⟩
        | short =>
          obtain ⟨e1, _, e3⟩ := hstep a b (chunkSize sizes / 2) h
          simp only [e1]
          exact ⟨trivial, trivial, trivial, e3⟩
    obtain ⟨e1, e2, e3, e4⟩ := hread
    simp only [ioLoopG]
    rw [e1, e2, e3]
    split
    · split
      · exact ih _ _ _ _ _ e4
      · exact ⟨rfl, rfl, rfl, e4⟩
      · exact ⟨rfl, rfl, rfl, e4⟩
    · split
      · split
        · exact ih _ _ _ _ _ e4
        · exact ⟨rfl, rfl, rfl, e4⟩
        · exact ⟨rfl, rfl, rfl, e4⟩
      · exact ⟨rfl, rfl, rfl, e4⟩

/-- the relation between the copy's reader on the file under rewrite and a private sequential reader of `d` -/
def RelC (cfg : Disc) (old : Bytes) (chunks : List Bytes) (d : Bytes) (x : Sys × List Nat) (h : RHandle) : Prop :=
  WF old chunks x.1 ∧ Iso cfg d h.pos x.1 ∧ h.data = d ∧ h.style = .eager

theorem rdC_step (cfg : Disc) (old : Bytes) (chunks : List Bytes) (d : Bytes) (x : Sys × List Nat) (h : RHandle)
    (n : Nat) (hr : RelC cfg old chunks d x h) :
    (rdC cfg x n).1 = (h.read n).1 ∧ (rdC cfg x n).2.1 = (h.read n).2.1
      ∧ RelC cfg old chunks d (rdC cfg x n).2.2 (h.read n).2.2 := by
  obtain ⟨hwf, hiso, hd, hs⟩ := hr
  obtain ⟨dd, pp, ss⟩ := h
  simp only at hd hs hiso
  subst hd; subst hs
  have hwf1 := wsteps_wf cfg old chunks (x.2.headD 0) x.1 hwf
  have hiso1 := wsteps_iso cfg dd pp (x.2.headD 0) x.1 hiso
  obtain ⟨e1, e2, hiso2⟩ := readR_iso cfg dd pp _ n hiso1
  have hwf2 := readR_wf old chunks _ n hwf1
  refine ⟨e1, e2, hwf2, hiso2, ?_, ?_⟩
  · exact read_data _ n
  · exact read_style _ n

/-- the copy loop on the file under rewrite IS the sequential copy loop on `d` -/
theorem ioLoopG_rdC (cfg : Disc) (old : Bytes) (chunks : List Bytes) (d : Bytes) (pl : Plan) (fuel : Nat)
    (sizes : List Nat) (c : Calls) (x : Sys × List Nat) (h : RHandle) (w : WHandle)
    (hr : RelC cfg old chunks d x h) :
    (ioLoopG (rdC cfg) pl fuel sizes c x w).ok = (ioLoop pl fuel sizes c h w).ok
    ∧ (ioLoopG (rdC cfg) pl fuel sizes c x w).calls = (ioLoop pl fuel sizes c h w).calls
    ∧ (ioLoopG (rdC cfg) pl fuel sizes c x w).w = (ioLoop pl fuel sizes c h w).w
    ∧ WF old chunks (ioLoopG (rdC cfg) pl fuel sizes c x w).r.1 := by
  obtain ⟨a1, a2, a3, a4⟩ := ioLoopG_sim (rdC cfg) RHandle.read (RelC cfg old chunks d)
    (fun a b n hab => rdC_step cfg old chunks d a b n hab) pl fuel sizes c x h w hr
  obtain ⟨b1, b2, b3, _⟩ := ioLoopG_eq pl fuel sizes c h w
  exact ⟨a1.trans b1, a2.trans b2, a3.trans b3, a4.1⟩

/-- what `Props/C04.streamCopy_source_rewritten` states: the helper's outcome is that of the sequential
`StreamCopy` of a source holding `d`, where `d` is what the file held when the copy's reader was opened — the old
content or the new one, whole; and the rewrite itself is intact -/
theorem streamCopyRW_spec (cfg : Disc) (hsafe : cfg.safe = true) (pl : Plan) (sizes : List Nat) (c : Calls)
    (ws : List Nat) (old slack : Bytes) (chunks : List Bytes) (S : State) (sp : Path) (dst : Dest) (dp : Path) :
    ∃ d, (d = old ∨ d = chunks.flatten) ∧ (ws.headD 0 = 0 → d = old)
      ∧ (streamCopyRW cfg pl sizes c ws (Sys.init old slack chunks) dst dp).1
          = streamCopy2 pl sizes c ⟨.eager, put S sp d, false⟩ sp dst dp
      ∧ (streamCopyRW cfg pl sizes c ws (Sys.init old slack chunks) dst dp).2.cell.content = chunks.flatten
      ∧ (streamCopyRW cfg pl sizes c ws (Sys.init old slack chunks) dst dp).2.phase = .closed
      ∧ (streamCopyRW cfg pl sizes c ws (Sys.init old slack chunks) dst dp).2.cell.locked = false
      ∧ (streamCopyRW cfg pl sizes c ws (Sys.init old slack chunks) dst dp).2.rd = none := by
  have h0 := init_wf old slack chunks
  have h1 := wsteps_wf cfg old chunks (ws.headD 0) _ h0
  have h1r := wsteps_rd_none cfg (ws.headD 0) (Sys.init old slack chunks) rfl
  obtain ⟨h2, h2r, h2l, h2p, h2c⟩ := awaitFree_spec cfg old chunks _ h1 h1r
  obtain ⟨h3, h3i⟩ := openReader_spec cfg hsafe old chunks _ h2 h2r h2l h2p
  refine ⟨(awaitFree cfg (wsteps cfg (ws.headD 0) (Sys.init old slack chunks))).cell.content, h2c,
    await_first cfg old slack chunks ws, ?_⟩
  generalize hd : (awaitFree cfg (wsteps cfg (ws.headD 0) (Sys.init old slack chunks))).cell.content = d at h3i
  generalize hs2 : openReader cfg (awaitFree cfg (wsteps cfg (ws.headD 0) (Sys.init old slack chunks))) = s2 at h3 h3i
  -- the reader's `Close` (after any steps of the rewriter) and the rewriter's run to its end
  have hclose : ∀ x : Sys × List Nat, WF old chunks x.1 →
      let y := wsteps cfg ((closeReader (wsteps cfg (x.2.headD 0) x.1)).todo.length + 2) (closeReader (wsteps cfg (x.2.headD 0) x.1))
      y.cell.content = chunks.flatten ∧ y.phase = .closed ∧ y.cell.locked = false ∧ y.rd = none := by
    intro x hx
    obtain ⟨f1, f2, f3, f4⟩ := close_finish cfg old chunks _ (wsteps_wf cfg old chunks (x.2.headD 0) x.1 hx)
    exact ⟨f3, f1, f2, f4⟩
  have hdata : s2.readerData = d := by
    obtain ⟨m, hm, _, hmd, _⟩ := h3i
    unfold Sys.readerData; rw [hm]; exact hmd
  have hrel : RelC cfg old chunks d (s2, ws.tail) (RHandle.open .eager d) := ⟨h3, h3i, rfl, rfl⟩
  unfold streamCopyRW streamCopy2
  simp only [Src.openReader, put_same, hs2]
  cases hp1 : pl .openReader (c .openReader) with
  | some m =>
    simp only
    refine ⟨trivial, ?_⟩
    have hl : (wsteps cfg (ws.headD 0) (Sys.init old slack chunks)).hasLive = false := by
      show liveR _ = false; rw [h1r]; rfl
    obtain ⟨f1, f2, f3⟩ := wsteps_finish cfg old chunks _ _ h1 hl (rem_le _)
    exact ⟨f3, f1, f2, wsteps_rd_none cfg _ _ h1r⟩
  | none =>
    simp only
    cases hp2 : pl .openWriter ((c.bump .openReader) .openWriter) with
    | some m => exact ⟨rfl, hclose (s2, ws.tail) h3⟩
    | none =>
      simp only
      cases hp3 : dst.openWriter dp with
      | none => exact ⟨rfl, hclose (s2, ws.tail) h3⟩
      | some dw =>
        obtain ⟨d1, w⟩ := dw
        simp only
        obtain ⟨k1, k2, k3, k4⟩ := ioLoopG_rdC cfg old chunks d pl (sizes.length + s2.readerData.length + 2) sizes
          ((c.bump .openReader).bump .openWriter) (s2, ws.tail) (RHandle.open .eager d) w hrel
        have hfuel : sizes.length + s2.readerData.length + 2
            = sizes.length + ((RHandle.open .eager d).data.length - (RHandle.open .eager d).pos) + 2 := by
          rw [hdata]; rfl
        unfold ioCopy
        rw [← hfuel, ← k1, ← k2, ← k3]
        split
        · exact ⟨rfl, hclose _ k4⟩
        · split
          · exact ⟨rfl, hclose _ k4⟩
          · split
            · exact ⟨rfl, hclose _ k4⟩
            · exact ⟨rfl, hclose _ k4⟩

end Stream
end Goat
