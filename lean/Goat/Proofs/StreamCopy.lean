/-
Helper lemmas for C04 (2): `StreamCopy`, `Copy`, `Copier.Do`, and the nodes of a concrete source tree.
Nothing here changes a definition of `Goat/Model/Stream.lean`.

  StreamCopy   `streamCopy2_ok` (ANY plan: success means the source is a file, the writer could be opened and
               the destination path now holds exactly the source's bytes), `streamCopy2_noFault`
  progress     `Toward T S S'`: every path of `S'` holds what it held in `S` or what the target `T` wants;
               successful `MkdirAll`s and stream copies of items of the source move the destination `Toward`
               the overlay of the source on the old destination, and make the item's own path final
  Copy         `copyItems_ok`, `treeCopy_ok_overlay` (ANY plan, ANY visiting order covering the source)
  trees        `walk_complete` / `walk_sound`: `nodesOf t` lists exactly the nodes of `t` below the root
-/
import Goat.Proofs.StreamHandle
import Goat.Proofs.MemFSAbs

namespace Goat
namespace Stream

open FS (Entry State)
open Path (Name)

/-! ### small facts about states -/

theorem put_same (S : State) (p : Path) (d : Bytes) : put S p d p = some (.file d) := by simp [put]
theorem put_other (S : State) (p q : Path) (d : Bytes) (h : q ≠ p) : put S p d q = S q := by simp [put, h]
theorem put_put (S : State) (p : Path) (d e : Bytes) : put (put S p d) p e = put S p e := by
  funext q; simp only [put]; split <;> rfl

theorem mem_prefixes (p q : Path) : q ∈ prefixes p ↔ q <+: p := by
  simp only [prefixes, List.mem_map, List.mem_range]
  constructor
  · rintro ⟨i, _, rfl⟩; exact List.take_prefix i p
  · intro h
    refine ⟨q.length, ?_, (List.prefix_iff_eq_take.mp h).symm⟩
    have := h.length_le; omega

theorem isFileB_iff (e : Option Entry) : isFileB e = true ↔ ∃ d, e = some (.file d) := by
  cases e with
  | none => simp [isFileB]
  | some x => cases x <;> simp [isFileB]

theorem isDirB_iff (e : Option Entry) : isDirB e = true ↔ e = some .dir := by
  cases e with
  | none => simp [isDirB]
  | some x => cases x <;> simp [isDirB]

/-- the executable test is the specification's precondition of `MkdirAll` -/
theorem mkdirOkB_iff (S : State) (p : Path) : mkdirOkB S p = true ↔ FS.mkdirOk S p := by
  simp only [mkdirOkB, List.all_eq_true, mem_prefixes, FS.mkdirOk, Bool.not_eq_true']
  constructor
  · intro h q hq d hd
    have := h q hq
    rw [hd] at this; simp [isFileB] at this
  · intro h q hq
    cases hS : S q with
    | none => rfl
    | some e =>
      cases e with
      | dir => rfl
      | file d => exact absurd hS (h q hq d)

/-! ### the destination's primitives -/

/-- the state a writer is opened in: memory has created the parents -/
def openBase (D : Dest) (p : Path) : State :=
  match D.kind with
  | .mem => FS.mkdirSt D.st p.dropLast
  | .disk => D.st

theorem openWriter_some (D : Dest) (p : Path) (d1 : Dest) (w : WHandle) (h : D.openWriter p = some (d1, w)) :
    D.canOpen p = true ∧ w = WHandle.open D.kind (fileData (D.st p))
      ∧ d1.kind = D.kind ∧ d1.st = put (openBase D p) p [] := by
  unfold Dest.openWriter at h
  split at h
  · next hc =>
    simp only [Option.some.injEq, Prod.mk.injEq] at h
    obtain ⟨rfl, rfl⟩ := h
    refine ⟨hc, rfl, rfl, ?_⟩
    simp only [openBase, (open_appending _ _).2]
    cases D.kind <;> rfl
  · cases h

theorem openWriter_of_canOpen (D : Dest) (p : Path) (h : D.canOpen p = true) :
    ∃ d1 w, D.openWriter p = some (d1, w) := by
  unfold Dest.openWriter; rw [if_pos h]; exact ⟨_, _, rfl⟩

theorem mkdirAll_some (D d : Dest) (p : Path) (h : D.mkdirAll p = some d) :
    mkdirOkB D.st p = true ∧ d.kind = D.kind ∧ d.st = FS.mkdirSt D.st p := by
  unfold Dest.mkdirAll at h
  split at h
  · next hc => simp only [Option.some.injEq] at h; subst h; exact ⟨hc, rfl, rfl⟩
  · cases h

theorem mkdirStep_ok (pl : Plan) (c : Calls) (dst : Dest) (p : Path) (hok : (mkdirStep pl c dst p).ok = true) :
    mkdirOkB dst.st p = true ∧ (mkdirStep pl c dst p).dst.kind = dst.kind
      ∧ (mkdirStep pl c dst p).dst.st = FS.mkdirSt dst.st p := by
  unfold mkdirStep at hok ⊢
  split at hok
  · simp at hok
  · split at hok
    · simp at hok
    · next d hd => exact mkdirAll_some dst d p hd

theorem mkdirStep_noFault (c : Calls) (dst : Dest) (p : Path) (h : mkdirOkB dst.st p = true) :
    (mkdirStep noFault c dst p).ok = true := by
  unfold mkdirStep
  simp only [noFault, Dest.mkdirAll, if_pos h]

/-! ### StreamCopy -/

/-- a writer's `Close` that reports success has lost nothing -/
theorem faultyCloseW_ok (pl : Plan) (c : Calls) (w : WHandle) (h : (faultyCloseW pl c w).1 = true) :
    (faultyCloseW pl c w).2.2 = w := by
  unfold faultyCloseW at h ⊢
  split <;> simp_all

theorem faultyCloseW_noFault (c : Calls) (w : WHandle) : faultyCloseW noFault c w = (true, c.bump .closeWriter, w) := rfl

/-- ANY plan, any chunking: if the helper returns `nil`, the source path is a file, the destination's
writer could be opened, and the destination path holds exactly the source's bytes; everything else is as
the opening of the writer left it. -/
theorem streamCopy2_ok (pl : Plan) (sizes : List Nat) (c : Calls) (src : Src) (sp : Path) (dst : Dest)
    (dp : Path) (hok : (streamCopy2 pl sizes c src sp dst dp).ok = true) :
    ∃ d, src.st sp = some (.file d) ∧ dst.canOpen dp = true
      ∧ (streamCopy2 pl sizes c src sp dst dp).dst.kind = dst.kind
      ∧ (streamCopy2 pl sizes c src sp dst dp).dst.st = put (openBase dst dp) dp d := by
  generalize ho : streamCopy2 pl sizes c src sp dst dp = o at hok
  unfold streamCopy2 at ho
  split at ho
  · subst ho; simp at hok
  · split at ho
    · next content hsrc0 =>
      simp only at ho
      split at ho
      · subst ho; simp at hok
      · split at ho
        · subst ho; simp at hok
        · next d1 w hopen =>
          obtain ⟨hcan, hw, hk, hst⟩ := openWriter_some dst dp d1 w hopen
          cases content with
          | none =>
            -- a directory opened as a reader: the copy fails
            simp only at ho
            subst ho; simp at hok
          | some d =>
          have hsrc : src.st sp = some (.file d) := by
            unfold Src.openReader at hsrc0
            split at hsrc0
            · next d' h => simp only [Option.some.injEq] at hsrc0; subst hsrc0; exact h
            · split at hsrc0 <;> simp at hsrc0
            · simp at hsrc0
          simp only at ho
          split at ho
          · subst ho; simp at hok
          · next hcopy =>
            have hcopy' : (ioCopy pl sizes ((c.bump .openReader).bump .openWriter)
                (RHandle.open src.style d) w).ok = true := by simpa using hcopy
            have hcont := (ioCopy_ok_content pl sizes _ (RHandle.open src.style d) w
              (by rw [hw]; exact (open_appending _ _).1) (open_ok _ _) hcopy').1
            rw [open_rest, hw, (open_appending _ _).2, List.nil_append, ← hw] at hcont
            split at ho
            · subst ho; simp at hok
            · next hcw =>
              -- the writer's Close succeeded: nothing was lost
              have hcw' := faultyCloseW_ok pl _ _ (by simpa using hcw)
              have hfin : ∀ cc, (⟨true, cc, d1.store dp (faultyCloseW pl
                  (ioCopy pl sizes ((c.bump .openReader).bump .openWriter) (RHandle.open src.style d) w).calls
                  (ioCopy pl sizes ((c.bump .openReader).bump .openWriter) (RHandle.open src.style d) w).w).2.2⟩ : Out) = o →
                  ∃ d, src.st sp = some (.file d)
                  ∧ dst.canOpen dp = true ∧ o.dst.kind = dst.kind ∧ o.dst.st = put (openBase dst dp) dp d := by
                intro cc h
                subst h
                refine ⟨d, hsrc, hcan, hk, ?_⟩
                simp only [Dest.store, hcw', hcont, hst, put_put]
              split at ho
              · subst ho; simp at hok
              · exact hfin _ ho
    · subst ho; simp at hok

/-- no fault: the helper succeeds whenever the source is a file and the writer can be opened -/
theorem streamCopy2_noFault (sizes : List Nat) (c : Calls) (src : Src) (sp : Path) (dst : Dest) (dp : Path)
    (d : Bytes) (hsrc : src.st sp = some (.file d)) (hcan : dst.canOpen dp = true) :
    (streamCopy2 noFault sizes c src sp dst dp).ok = true := by
  obtain ⟨d1, w, hopen⟩ := openWriter_of_canOpen dst dp hcan
  have hor : src.openReader sp = some (some d) := by unfold Src.openReader; rw [hsrc]
  unfold streamCopy2
  simp only [hor, hopen, faultyCloseW_noFault]
  simp only [noFault]
  rw [ioCopy_noFault_ok sizes _ _ w (open_ok _ _)]
  simp

/-! ### progress towards a target state -/

/-- every path holds what it held before or what the target wants -/
def Toward (T S S' : State) : Prop := ∀ x, S' x = S x ∨ S' x = T x

theorem Toward.refl (T S : State) : Toward T S S := fun _ => Or.inl rfl

theorem Toward.trans {T S S' S'' : State} (h1 : Toward T S S') (h2 : Toward T S' S'') : Toward T S S'' := by
  intro x
  rcases h2 x with h | h
  · rcases h1 x with h' | h'
    · exact Or.inl (h.trans h')
    · exact Or.inr (h.trans h')
  · exact Or.inr h

/-- a path that is final stays final -/
theorem Toward.stable {T S S' : State} (h : Toward T S S') (x : Path) (hx : S x = T x) : S' x = T x := by
  rcases h x with h' | h'
  · exact h'.trans hx
  · exact h'

theorem toward_mkdirSt (T S : State) (t : Path) (h : ∀ x, x <+: t → T x = some .dir) :
    Toward T S (FS.mkdirSt S t) := by
  intro x
  simp only [FS.mkdirSt]
  split
  · next hx => exact Or.inr (h x hx).symm
  · exact Or.inl rfl

theorem toward_put (T S : State) (p : Path) (d : Bytes) (h : T p = some (.file d)) : Toward T S (put S p d) := by
  intro x
  simp only [put]
  split
  · next hx => subst hx; exact Or.inr h.symm
  · exact Or.inl rfl

theorem toward_openBase (T : State) (D : Dest) (p : Path) (h : ∀ x, x <+: p.dropLast → T x = some .dir) :
    Toward T D.st (openBase D p) := by
  unfold openBase
  cases D.kind
  · exact toward_mkdirSt T D.st _ h
  · exact Toward.refl T D.st

theorem prefix_dropLast_ne {p x : Path} (hp : p ≠ []) (hx : x <+: p.dropLast) : x <+: p ∧ x ≠ p := by
  refine ⟨hx.trans (List.dropLast_prefix p), ?_⟩
  intro e
  have h1 := hx.length_le
  rw [e, List.length_dropLast] at h1
  have : 0 < p.length := List.length_pos_iff.mpr hp
  omega

/-! ### one callback of `Copy` -/

/-- what the step lemma needs to know of the target `T` about one item: its proper ancestors (inside and
above the destination root) are directories there, a directory item is a directory there, a file item's path
holds there what the source holds -/
structure ItemOK (T : State) (src : Src) (sb db : Path) (it : Item) : Prop where
  anc : ∀ x, x <+: db ++ it.2 → x ≠ db ++ it.2 → T x = some .dir
  dir : it.1 = true → T (db ++ it.2) = some .dir
  file : it.1 = false → T (db ++ it.2) = src.st (sb ++ it.2)

/-- ANY plan: a callback that returns `nil` moves the destination towards the target and makes the item's
own path final -/
theorem onItem_ok (pl : Plan) (sizes : List Nat) (src : Src) (sb db : Path) (c : Calls) (dst : Dest) (it : Item)
    (T : State) (hit : ItemOK T src sb db it) (hok : (onItem pl sizes src sb db c dst it).ok = true) :
    Toward T dst.st (onItem pl sizes src sb db c dst it).dst.st
      ∧ (onItem pl sizes src sb db c dst it).dst.st (db ++ it.2) = T (db ++ it.2)
      ∧ (onItem pl sizes src sb db c dst it).dst.kind = dst.kind := by
  obtain ⟨b, p⟩ := it
  cases b with
  | true =>
    simp only [onItem] at hok ⊢
    obtain ⟨_, hk, hst⟩ := mkdirStep_ok pl c dst (db ++ p) hok
    rw [hst]
    refine ⟨toward_mkdirSt T dst.st _ ?_, ?_, hk⟩
    · intro x hx
      by_cases e : x = db ++ p
      · rw [e]; exact hit.dir rfl
      · exact hit.anc x hx e
    · simp only [FS.mkdirSt, List.prefix_refl, if_true]
      exact (hit.dir rfl).symm
  | false =>
    simp only [onItem] at hok ⊢
    by_cases hm : (mkdirStep pl c dst (db ++ p.dropLast)).ok = true
    · rw [if_pos hm] at hok ⊢
      obtain ⟨_, hk1, hst1⟩ := mkdirStep_ok pl c dst (db ++ p.dropLast) hm
      obtain ⟨d, hsrc, hcan, hk2, hst2⟩ := streamCopy2_ok pl sizes _ src (sb ++ p) _ (db ++ p) hok
      -- the item is not the root: the writer could not have been opened on the directory just made
      have hp : p ≠ [] := by
        intro e
        subst e
        have hcan2 : isDirB ((mkdirStep pl c dst (db ++ ([] : Path).dropLast)).dst.st (db ++ [])) = false := by
          unfold Dest.canOpen at hcan
          simp only [Bool.and_eq_true, Bool.not_eq_true'] at hcan
          exact hcan.1.2
        rw [hst1] at hcan2
        simp [FS.mkdirSt, isDirB] at hcan2
      have hdl : (db ++ p).dropLast = db ++ p.dropLast := List.dropLast_append_of_ne_nil hp
      have hanc : ∀ x, x <+: db ++ p.dropLast → T x = some .dir := by
        intro x hx
        rw [← hdl] at hx
        have := prefix_dropLast_ne (by simp [hp]) hx
        exact hit.anc x this.1 this.2
      have hT : T (db ++ p) = some (.file d) := by rw [hit.file rfl]; exact hsrc
      rw [hst2]
      refine ⟨?_, ?_, hk2.trans hk1⟩
      · refine Toward.trans (?_ : Toward T dst.st (mkdirStep pl c dst (db ++ p.dropLast)).dst.st) ?_
        · rw [hst1]; exact toward_mkdirSt T dst.st _ hanc
        · refine Toward.trans (toward_openBase T _ (db ++ p) ?_) (toward_put T _ _ d hT)
          rw [hdl]; exact hanc
      · rw [put_same, hT]
    · rw [if_neg hm] at hok; exact absurd hok hm

/-! ### the callbacks in visiting order -/

/-- ANY plan, ANY order: if no callback failed, the destination has moved towards the target and the path
of every visited item is final -/
theorem copyItems_ok (pl : Plan) (sizes : List Nat) (src : Src) (sb db : Path) (extra : Nat) (T : State)
    (items : List Item) (c : Calls) (dst : Dest) (hits : ∀ it ∈ items, ItemOK T src sb db it)
    (hok : (copyItems pl sizes src sb db extra items c dst).ok = true) :
    Toward T dst.st (copyItems pl sizes src sb db extra items c dst).dst.st
      ∧ (∀ it ∈ items, (copyItems pl sizes src sb db extra items c dst).dst.st (db ++ it.2) = T (db ++ it.2))
      ∧ (copyItems pl sizes src sb db extra items c dst).dst.kind = dst.kind := by
  induction items generalizing c dst with
  | nil => simp only [copyItems]; refine ⟨Toward.refl T _, ?_, ?_⟩ <;> simp
  | cons it rest ih =>
    simp only [copyItems] at hok ⊢
    by_cases h1 : (onItem pl sizes src sb db c dst it).ok = true
    · rw [if_pos h1] at hok ⊢
      obtain ⟨ht, hdone, hk⟩ := onItem_ok pl sizes src sb db c dst it T (hits it (List.mem_cons_self ..)) h1
      obtain ⟨ht', hdone', hk'⟩ := ih _ _ (fun x hx => hits x (List.mem_cons_of_mem _ hx)) hok
      refine ⟨ht.trans ht', ?_, hk'.trans hk⟩
      intro x hx
      rcases List.mem_cons.mp hx with rfl | hx
      · exact ht'.stable _ hdone
      · exact hdone' x hx
    · rw [if_neg h1] at hok; simp at hok

theorem treeCopy_ok (pl : Plan) (sizes : List Nat) (extra : Nat) (c : Calls) (src : Src) (sb : Path) (dst : Dest)
    (db : Path) (order : List Item) (hok : (treeCopy pl sizes extra c src sb dst db order).ok = true) :
    ∃ c', treeCopy pl sizes extra c src sb dst db order = copyItems pl sizes src sb db extra order c' dst := by
  unfold treeCopy at hok ⊢
  simp only at hok ⊢
  split
  · next h => rw [if_pos h] at hok; simp at hok
  · exact ⟨_, rfl⟩

/-! ### the target: the source laid over the old destination -/

/-- the source subtree `srcv` laid over `S0` at `db`: a path under `db` holds what the source holds at the
relative path if anything, every other path what `S0` holds -/
def overlay (srcv : State) (db : Path) (S0 : State) : State :=
  fun x => if db <+: x then
      match srcv (x.drop db.length) with
      | some e => some e
      | none => S0 x
    else S0 x

theorem overlay_under (srcv : State) (db q : Path) (S0 : State) :
    overlay srcv db S0 (db ++ q) = match srcv q with | some e => some e | none => S0 (db ++ q) := by
  simp [overlay]

theorem overlay_outside (srcv : State) (db x : Path) (S0 : State) (h : ¬ db <+: x) :
    overlay srcv db S0 x = S0 x := by
  simp [overlay, h]

/-- the visiting order hands out exactly the nodes of the source view `srcv` below its root -/
structure Visits (srcv : State) (order : List Item) : Prop where
  /-- every visited item is a node of the source, of the announced kind, below existing directories -/
  sound : ∀ it ∈ order, it.2 ≠ [] ∧ srcv it.2 ≠ none ∧ (it.1 = true → srcv it.2 = some .dir)
    ∧ ∀ q, q <+: it.2 → q ≠ it.2 → srcv q = some .dir
  /-- every node of the source below the root is visited -/
  cover : ∀ q e, q ≠ [] → srcv q = some e → (e.isDir, q) ∈ order

/-- the hypotheses on the source view `srcv`, the visiting order and the old destination under which the
overlay is reached -/
structure CopyPre (srcv : State) (db : Path) (S0 : State) (order : List Item) : Prop where
  /-- the destination root and its ancestors are directories -/
  root : ∀ x, x <+: db → S0 x = some .dir
  /-- the source root is a directory -/
  srcRoot : srcv [] = some .dir
  visits : Visits srcv order

theorem itemOK_overlay (src : Src) (sb db : Path) (S0 : State) (order : List Item)
    (hpre : CopyPre (fun q => src.st (sb ++ q)) db S0 order) (it : Item) (hit : it ∈ order) :
    ItemOK (overlay (fun q => src.st (sb ++ q)) db S0) src sb db it := by
  obtain ⟨hne, hsome, hdir, hanc⟩ := hpre.visits.sound it hit
  refine ⟨?_, ?_, ?_⟩
  · intro x hx hxne
    rcases List.prefix_or_prefix_of_prefix hx (List.prefix_append db it.2) with h | h
    · by_cases hd : db <+: x
      · have : x = db := by
          have h1 := h.length_le; have h2 := hd.length_le
          exact (List.IsPrefix.eq_of_length_le hd (by omega)).symm
        subst this
        have := overlay_under (fun q => src.st (sb ++ q)) x [] S0
        rw [List.append_nil] at this
        rw [this]
        simp only [hpre.srcRoot]
      · rw [overlay_outside _ _ _ _ hd]; exact hpre.root x h
    · obtain ⟨q, rfl⟩ := h
      have hq : q <+: it.2 := (List.prefix_append_right_inj db).mp hx
      have hqne : q ≠ it.2 := fun e => hxne (by rw [e])
      rw [overlay_under]
      simp only [hanc q hq hqne]
  · intro hb
    rw [overlay_under]
    simp only [hdir hb]
  · intro _
    rw [overlay_under]
    cases h : src.st (sb ++ it.2) with
    | none => exact absurd h hsome
    | some e => rfl

/-- ANY plan, ANY visiting order that covers the source: if `Copy` returns `nil`, the destination is exactly
the source laid over the old destination -/
theorem treeCopy_ok_overlay (pl : Plan) (sizes : List Nat) (extra : Nat) (c : Calls) (src : Src) (sb : Path)
    (dst : Dest) (db : Path) (order : List Item)
    (hpre : CopyPre (fun q => src.st (sb ++ q)) db dst.st order)
    (hok : (treeCopy pl sizes extra c src sb dst db order).ok = true) :
    (treeCopy pl sizes extra c src sb dst db order).dst.st = overlay (fun q => src.st (sb ++ q)) db dst.st
      ∧ (treeCopy pl sizes extra c src sb dst db order).dst.kind = dst.kind := by
  obtain ⟨c', he⟩ := treeCopy_ok pl sizes extra c src sb dst db order hok
  rw [he] at hok ⊢
  obtain ⟨ht, hdone, hk⟩ := copyItems_ok pl sizes src sb db extra _ order c' dst
    (fun it hit => itemOK_overlay src sb db dst.st order hpre it hit) hok
  refine ⟨?_, hk⟩
  funext x
  rcases ht x with h | h
  · by_cases hd : db <+: x
    · obtain ⟨q, rfl⟩ := hd
      rw [overlay_under]
      cases hs : src.st (sb ++ q) with
      | none => exact h
      | some e =>
        by_cases hq : q = []
        · subst hq
          have hr : src.st (sb ++ []) = some .dir := hpre.srcRoot
          rw [hr] at hs
          simp only [Option.some.injEq] at hs
          subst hs
          rw [h]
          simp only [List.append_nil]
          exact hpre.root db (List.prefix_refl db)
        · have hmem := hpre.visits.cover q e hq hs
          have := hdone _ hmem
          rw [overlay_under] at this
          simp only [hs] at this
          exact this
    · rw [overlay_outside _ _ _ _ hd]; exact h
  · exact h

/-! ### concrete source trees -/

theorem stateOf_eq_abs (t : Node) : stateOf t = abs t := by
  funext q
  simp only [stateOf, abs]
  cases t.lookup q with
  | none => rfl
  | some n => cases n <;> rfl

def contentOf : Node → Option Bytes
  | .file d => some d
  | .dir _ => none

theorem contentOf_isNone (m : Node) : (contentOf m).isNone = m.isDir := by cases m <;> rfl

theorem entryOf_isDir (m : Node) : (entryOf m).isDir = m.isDir := by cases m <;> rfl

theorem walk_find (k : Kids) (s : Name) (c : Node) (pre : List Name) (h : k.find s = some c) :
    ∀ x ∈ Node.walk (pre ++ [s]) c, x ∈ Kids.walk pre k := by
  induction k using Kids.rec (motive_1 := fun _ => True) with
  | file => trivial
  | dir => trivial
  | nil => simp at h
  | cons n y rest _ ih =>
    intro x hx
    simp only [Kids.walk, List.mem_append]
    simp only [Kids.find] at h
    split at h
    · next e => subst e; simp only [Option.some.injEq] at h; subst h; exact Or.inl hx
    · exact Or.inr (ih h x hx)

/-- every node of the tree is in the walk -/
theorem walk_complete (r : List Name) (n : Node) (pre : List Name) (m : Node) (h : n.lookup r = some m) :
    (pre ++ r, contentOf m) ∈ Node.walk pre n := by
  induction r generalizing n pre with
  | nil =>
    simp only [Node.lookup_nil, Option.some.injEq] at h
    subst h
    cases n <;> simp [Node.walk, contentOf]
  | cons s rest ih =>
    cases n with
    | file d => simp at h
    | dir k =>
      rw [Node.lookup_dir_cons] at h
      cases hf : k.find s with
      | none => rw [hf] at h; simp at h
      | some c =>
        rw [hf] at h
        simp only [Option.bind_some] at h
        have := ih c (pre ++ [s]) h
        rw [List.append_assoc, List.singleton_append] at this
        simp only [Node.walk, List.mem_cons]
        exact Or.inr (walk_find k s c pre hf _ this)

/-- in a tree with unique sibling names, everything in the walk is a node of the tree -/
theorem walk_sound (n : Node) : n.NoDup → ∀ pre p x, (p, x) ∈ Node.walk pre n →
    ∃ r m, p = pre ++ r ∧ n.lookup r = some m ∧ contentOf m = x := by
  induction n using Node.rec (motive_2 := fun k => k.NoDup → ∀ pre p x, (p, x) ∈ Kids.walk pre k →
      ∃ s r c m, p = pre ++ s :: r ∧ k.find s = some c ∧ c.lookup r = some m ∧ contentOf m = x) with
  | file d =>
    intro _ pre p x h
    simp only [Node.walk, List.mem_singleton, Prod.mk.injEq] at h
    obtain ⟨rfl, rfl⟩ := h
    exact ⟨[], .file d, by simp, by simp, rfl⟩
  | dir k ih =>
    intro hnd pre p x h
    simp only [Node.walk, List.mem_cons, Prod.mk.injEq] at h
    rcases h with ⟨rfl, rfl⟩ | h
    · exact ⟨[], .dir k, by simp, by simp, rfl⟩
    · obtain ⟨s, r, c, m, rfl, hf, hl, hc⟩ := ih (by simpa [Node.NoDup] using hnd) pre p x h
      exact ⟨s :: r, m, rfl, by rw [Node.lookup_dir_cons, hf]; simpa using hl, hc⟩
  | nil => rename_i hnd pre p x h; simp [Kids.walk] at h
  | cons n y rest ihy ihr =>
    rename_i hnd pre p x h
    have hc := (Kids.nodup_cons ..).mp hnd
    simp only [Kids.walk, List.mem_append] at h
    rcases h with h | h
    · obtain ⟨r, m, rfl, hl, hm⟩ := ihy hc.2.1 (pre ++ [n]) p x h
      exact ⟨n, r, y, m, by simp, by simp [Kids.find], hl, hm⟩
    · obtain ⟨s, r, c, m, rfl, hf, hl, hm⟩ := ihr hc.2.2 pre p x h
      have hne : n ≠ s := by
        intro e; subst e; rw [hc.1] at hf; cases hf
      exact ⟨s, r, c, m, rfl, by simp [Kids.find, hne, hf], hl, hm⟩

theorem walk_sound_kids (k : Kids) : k.NoDup → ∀ pre p x, (p, x) ∈ Kids.walk pre k →
    ∃ s r c m, p = pre ++ s :: r ∧ k.find s = some c ∧ c.lookup r = some m ∧ contentOf m = x := by
  induction k using Kids.rec (motive_1 := fun _ => True) with
  | file => trivial
  | dir => trivial
  | nil => intro _ pre p x h; simp [Kids.walk] at h
  | cons n y rest _ ihr =>
    intro hnd pre p x h
    have hc := (Kids.nodup_cons ..).mp hnd
    simp only [Kids.walk, List.mem_append] at h
    rcases h with h | h
    · obtain ⟨r, m, rfl, hl, hm⟩ := walk_sound y hc.2.1 (pre ++ [n]) p x h
      exact ⟨n, r, y, m, by simp, by simp [Kids.find], hl, hm⟩
    · obtain ⟨s, r, c, m, rfl, hf, hl, hm⟩ := ihr hc.2.2 pre p x h
      have hne : n ≠ s := by
        intro e; subst e; rw [hc.1] at hf; cases hf
      exact ⟨s, r, c, m, rfl, by simp [Kids.find, hne, hf], hl, hm⟩

theorem nodesOf_cover (k : Kids) (q : List Name) (e : Entry) (hq : q ≠ []) (h : stateOf (.dir k) q = some e) :
    (e.isDir, q) ∈ nodesOf (.dir k) := by
  simp only [stateOf] at h
  cases hl : (Node.dir k).lookup q with
  | none => rw [hl] at h; simp at h
  | some m =>
    rw [hl] at h
    simp only [Option.map_some, Option.some.injEq] at h
    subst h
    have := walk_complete q (.dir k) [] m hl
    simp only [List.nil_append, Node.walk, List.mem_cons, Prod.mk.injEq] at this
    rcases this with ⟨h1, _⟩ | this
    · exact absurd h1 hq
    · simp only [nodesOf, List.mem_map]
      exact ⟨_, this, by simp [contentOf_isNone, entryOf_isDir]⟩

theorem nodesOf_sound (k : Kids) (hnd : (Node.dir k).NoDup) (it : Item) (h : it ∈ nodesOf (.dir k)) :
    it.2 ≠ [] ∧ ∃ m, (Node.dir k).lookup it.2 = some m ∧ m.isDir = it.1 := by
  simp only [nodesOf, List.mem_map] at h
  obtain ⟨⟨p, x⟩, hx, rfl⟩ := h
  have hk := walk_sound_kids k (by simpa [Node.NoDup] using hnd) [] p x hx
  obtain ⟨s, r, c, m, rfl, hf, hl, hm⟩ := hk
  refine ⟨by simp, m, ?_, ?_⟩
  · simp only [List.nil_append]; rw [Node.lookup_dir_cons, hf]; simpa using hl
  · simp only; rw [← hm, contentOf_isNone]

/-- a visiting order that is a permutation of the tree's nodes visits exactly the source -/
theorem visits_of_perm (k : Kids) (hnd : (Node.dir k).NoDup) (order : List Item)
    (hperm : order.Perm (nodesOf (.dir k))) : Visits (stateOf (.dir k)) order := by
  constructor
  · intro it hit
    obtain ⟨hne, m, hl, hm⟩ := nodesOf_sound k hnd it (hperm.mem_iff.mp hit)
    have hst : stateOf (.dir k) it.2 = some (entryOf m) := by simp [stateOf, hl]
    refine ⟨hne, by rw [hst]; simp, ?_, ?_⟩
    · intro hb
      rw [hst]
      cases m with
      | dir _ => rfl
      | file d => rw [← hm] at hb; simp [Node.isDir] at hb
    · intro q hq hqne
      obtain ⟨r, hr⟩ := hq
      have hrne : r ≠ [] := by
        intro e; subst e; rw [List.append_nil] at hr; exact hqne hr
      rw [stateOf_eq_abs] at hst ⊢
      exact MemAbs.abs_parent_dir (.dir k) q r hrne (by rw [hr, hst]; simp)
  · intro q e hq hs
    exact hperm.mem_iff.mpr (nodesOf_cover k q e hq hs)

/-! ### Copier.Do -/

theorem copierDo_file (pl : Plan) (sizes : List Nat) (extra : Nat) (c : Calls) (src : Src) (sp : Path)
    (dst : Dest) (dp : Path) (order : List Item) (d : Bytes) (h : src.st sp = some (.file d)) :
    copierDo pl sizes extra c src sp dst dp order = streamCopy2 pl sizes c src sp dst dp := by
  unfold copierDo; rw [h]

/-- ANY plan: a directory source.  If `Do` returns `nil` the destination is the source subtree laid over the
old destination (with `DestPath` made a directory). -/
theorem copierDo_dir_ok (pl : Plan) (sizes : List Nat) (extra : Nat) (c : Calls) (src : Src) (sp : Path)
    (dst : Dest) (dp : Path) (order : List Item) (h : src.st sp = some .dir)
    (hv : Visits (fun q => src.st (sp ++ q)) order)
    (hok : (copierDo pl sizes extra c src sp dst dp order).ok = true) :
    (copierDo pl sizes extra c src sp dst dp order).dst.st
        = overlay (fun q => src.st (sp ++ q)) dp (FS.mkdirSt dst.st dp)
      ∧ (copierDo pl sizes extra c src sp dst dp order).dst.kind = dst.kind := by
  unfold copierDo at hok ⊢
  rw [h] at hok ⊢
  simp only at hok ⊢
  split at hok
  · simp at hok
  · by_cases hm : (mkdirStep pl (c.bump .srcView) dst dp).ok = true
    · rw [if_pos hm] at hok ⊢
      obtain ⟨_, hk1, hst1⟩ := mkdirStep_ok pl _ dst dp hm
      split at hok
      · simp at hok
      · have hpre : CopyPre (fun q => src.st (sp ++ q)) dp (mkdirStep pl (c.bump .srcView) dst dp).dst.st order := by
          refine ⟨?_, by simpa using h, hv⟩
          intro x hx
          rw [hst1]
          simp [FS.mkdirSt, hx]
        obtain ⟨h1, h2⟩ := treeCopy_ok_overlay pl sizes extra _ src sp _ dp order hpre hok
        rw [h1, h2, hst1]
        exact ⟨rfl, hk1⟩
    · rw [if_neg hm] at hok; exact absurd hok hm

end Stream
end Goat
