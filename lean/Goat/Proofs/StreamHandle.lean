/-
Helper lemmas for C04 (1): writer handles, reader handles, the `io.Copy` loop.
Nothing here changes a definition of `Goat/Model/Stream.lean`.

  writers   `Appending w` (a memory handle, or a disk handle whose offset is the end of the file): every
            write appends and keeps the handle appending; `writes_content`, `open_appending`
  readers   `eagerChunks = FS.readChunks` / `lazyChunks`: the two read loops as functions of the unread
            rest; `reads_eq` ties `RHandle.reads` to them; `delivered_prefix`, `eof_all`, `eof_iff_*`
  io.Copy   `ioLoop_ok_content` (ANY plan: a loop that reports success appended exactly the unread rest),
            `ioLoop_noFault_ok` (no fault and enough fuel: success)
-/
import Goat.Model.Stream

namespace Goat
namespace Stream

open FS (Entry State)

/-! ### writers -/

/-- every write of this handle appends: a memory handle, or a disk handle positioned at the end -/
def Appending (w : WHandle) : Prop := w.kind = .mem ∨ w.off = w.content.length

theorem write_appending (w : WHandle) (p : Bytes) (h : Appending w) :
    (w.write p).content = w.content ++ p ∧ Appending (w.write p) := by
  unfold WHandle.write
  cases hk : w.kind with
  | mem => simp [Appending]
  | disk =>
    rcases h with h | h
    · simp [hk] at h
    · simp only [Appending]
      rw [h]
      simp [List.take_of_length_le, List.drop_of_length_le]

theorem writes_appending (chunks : List Bytes) (w : WHandle) (h : Appending w) :
    (w.writes chunks).content = w.content ++ chunks.flatten ∧ Appending (w.writes chunks) := by
  induction chunks generalizing w with
  | nil => simp [WHandle.writes, h]
  | cons c cs ih =>
    obtain ⟨h1, h2⟩ := write_appending w c h
    obtain ⟨h3, h4⟩ := ih (w.write c) h2
    simp only [WHandle.writes]
    exact ⟨by rw [h3, h1]; simp, h4⟩

theorem openWith_trunc_appending (kind : Backend) (old : Option Bytes) :
    Appending (WHandle.openWith true kind old) ∧ (WHandle.openWith true kind old).content = [] := by
  simp [WHandle.openWith, Appending]

theorem open_eq (kind : Backend) (old : Option Bytes) : WHandle.open kind old = ⟨kind, [], 0, 0⟩ := by
  cases kind <;> simp [WHandle.open, WHandle.openWith, truncOnOpen]

theorem open_appending (kind : Backend) (old : Option Bytes) :
    Appending (WHandle.open kind old) ∧ (WHandle.open kind old).content = [] := by
  rw [open_eq]; simp [Appending]

theorem open_kind (kind : Backend) (old : Option Bytes) : (WHandle.open kind old).kind = kind := by
  rw [open_eq]

/-! ### readers as functions of the unread rest -/

/-- what is left to read -/
def RHandle.rest (h : RHandle) : Bytes := h.data.drop h.pos

/-- the handle is inside its file -/
def RHandle.Ok (h : RHandle) : Prop := h.pos ≤ h.data.length

/-- the `lazy` read loop on the unread rest (the `eager` one is `FS.readChunks`) -/
def lazyChunks : Bytes → List Nat → List (Bytes × Bool)
  | _, [] => []
  | rest, n :: sizes => (rest.take n, n != 0 && (rest.take n).isEmpty) :: lazyChunks (rest.drop n) sizes

def chunksOf : EofStyle → Bytes → List Nat → List (Bytes × Bool)
  | .eager => FS.readChunks
  | .lazy => lazyChunks

theorem drop_take_length (l : Bytes) (n : Nat) : l.drop (l.take n).length = l.drop n := by
  rw [List.length_take]
  by_cases h : n ≤ l.length
  · rw [Nat.min_eq_left h]
  · have h' : l.length ≤ n := by omega
    rw [Nat.min_eq_right h', List.drop_of_length_le (Nat.le_refl _), List.drop_of_length_le h']

theorem read_chunk (h : RHandle) (n : Nat) : (h.read n).1 = h.rest.take n := by
  unfold RHandle.read RHandle.rest; cases h.style <;> rfl

theorem read_data (h : RHandle) (n : Nat) : (h.read n).2.2.data = h.data := by
  unfold RHandle.read; cases h.style <;> rfl

theorem read_style (h : RHandle) (n : Nat) : (h.read n).2.2.style = h.style := by
  unfold RHandle.read; cases hs : h.style <;> simp

theorem read_pos (h : RHandle) (n : Nat) : (h.read n).2.2.pos = h.pos + (h.rest.take n).length := by
  unfold RHandle.read RHandle.rest; cases h.style <;> rfl

theorem read_rest (h : RHandle) (n : Nat) : (h.read n).2.2.rest = h.rest.drop n := by
  unfold RHandle.rest
  rw [read_data, read_pos]
  unfold RHandle.rest
  rw [← List.drop_drop, drop_take_length]

theorem read_ok (h : RHandle) (n : Nat) (hok : h.Ok) : (h.read n).2.2.Ok := by
  unfold RHandle.Ok at *
  rw [read_data, read_pos]
  unfold RHandle.rest
  rw [List.length_take, List.length_drop]
  omega

theorem rest_length (h : RHandle) : h.rest.length = h.data.length - h.pos := by
  unfold RHandle.rest; rw [List.length_drop]

theorem read_eof_eager (h : RHandle) (n : Nat) (hok : h.Ok) (hs : h.style = .eager) :
    (h.read n).2.1 = (h.rest.drop n).isEmpty := by
  have hl := rest_length h
  unfold RHandle.Ok at hok
  have e : (h.read n).2.1 = (h.pos + (h.rest.take n).length == h.data.length) := by
    unfold RHandle.read RHandle.rest; rw [hs]
  rw [e, List.length_take]
  rw [Bool.eq_iff_iff]
  simp only [beq_iff_eq, List.isEmpty_iff, List.drop_eq_nil_iff]
  omega

theorem read_eof_lazy (h : RHandle) (n : Nat) (hs : h.style = .lazy) :
    (h.read n).2.1 = (n != 0 && (h.rest.take n).isEmpty) := by
  unfold RHandle.read RHandle.rest; rw [hs]

theorem reads_eq (sizes : List Nat) (h : RHandle) (hok : h.Ok) :
    h.reads sizes = chunksOf h.style h.rest sizes := by
  induction sizes generalizing h with
  | nil => cases hs : h.style <;> simp [RHandle.reads, chunksOf, FS.readChunks, lazyChunks]
  | cons n ns ih =>
    have ih' := ih (h.read n).2.2 (read_ok h n hok)
    rw [read_style, read_rest] at ih'
    simp only [RHandle.reads]
    rw [ih', read_chunk]
    cases hs : h.style with
    | eager => rw [read_eof_eager h n hok hs]; simp [chunksOf, FS.readChunks]
    | lazy => rw [read_eof_lazy h n hs]; simp [chunksOf, lazyChunks]

theorem open_ok (style : EofStyle) (data : Bytes) : (RHandle.open style data).Ok := Nat.zero_le _
theorem open_rest (style : EofStyle) (data : Bytes) : (RHandle.open style data).rest = data := rfl

/-- an `eager` reader is the specification's read loop -/
theorem reads_eager_eq_readChunks (data : Bytes) (sizes : List Nat) :
    (RHandle.open .eager data).reads sizes = FS.readChunks data sizes :=
  reads_eq sizes _ (open_ok _ _)

/-! ### what a read loop delivers -/

/-- concatenation of the delivered bytes -/
def delivered (out : List (Bytes × Bool)) : Bytes := (out.map Prod.fst).flatten

@[simp] theorem delivered_nil : delivered [] = [] := rfl
@[simp] theorem delivered_cons (x : Bytes × Bool) (out : List (Bytes × Bool)) :
    delivered (x :: out) = x.1 ++ delivered out := rfl
theorem delivered_append (a b : List (Bytes × Bool)) : delivered (a ++ b) = delivered a ++ delivered b := by
  simp [delivered]

theorem chunksOf_cons (st : EofStyle) (rest : Bytes) (n : Nat) (ns : List Nat) :
    ∃ e, chunksOf st rest (n :: ns) = (rest.take n, e) :: chunksOf st (rest.drop n) ns
      ∧ (st = .eager → e = (rest.drop n).isEmpty)
      ∧ (st = .lazy → e = (n != 0 && (rest.take n).isEmpty)) := by
  cases st
  · exact ⟨_, rfl, fun _ => rfl, fun h => EofStyle.noConfusion h⟩
  · exact ⟨_, rfl, fun h => EofStyle.noConfusion h, fun _ => rfl⟩

theorem delivered_prefix (st : EofStyle) (sizes : List Nat) (rest : Bytes) :
    delivered (chunksOf st rest sizes) <+: rest := by
  induction sizes generalizing rest with
  | nil => cases st <;> simp [chunksOf, FS.readChunks, lazyChunks]
  | cons n ns ih =>
    obtain ⟨e, he, _, _⟩ := chunksOf_cons st rest n ns
    rw [he, delivered_cons]
    have := (List.prefix_append_right_inj (rest.take n)).mpr (ih (rest.drop n))
    rwa [List.take_append_drop] at this

theorem take_eq_self_iff (l : Bytes) (n : Nat) : l.take n = l ↔ l.drop n = [] := by
  constructor
  · intro h
    have := List.take_append_drop n l
    rw [h] at this
    exact List.append_cancel_left (this.trans (List.append_nil l).symm)
  · intro h
    have := List.take_append_drop n l
    rw [h, List.append_nil] at this
    exact this

theorem delivered_nil_rest (st : EofStyle) (sizes : List Nat) : delivered (chunksOf st [] sizes) = [] := by
  have := delivered_prefix st sizes []
  exact List.prefix_nil.mp this

/-- once `io.EOF` has been reported everything has been delivered -/
theorem eof_all (st : EofStyle) (sizes : List Nat) (rest : Bytes) (hpos : ∀ n ∈ sizes, 0 < n)
    (h : ∃ x ∈ chunksOf st rest sizes, x.2 = true) : delivered (chunksOf st rest sizes) = rest := by
  induction sizes generalizing rest with
  | nil => cases st <;> simp [chunksOf, FS.readChunks, lazyChunks] at h
  | cons n ns ih =>
    obtain ⟨e, he, hE, hL⟩ := chunksOf_cons st rest n ns
    rw [he] at h ⊢
    rw [delivered_cons]
    obtain ⟨x, hx, hx2⟩ := h
    rcases List.mem_cons.mp hx with rfl | hx
    · -- this read reported EOF
      simp only at hx2
      cases st with
      | eager =>
        have : rest.drop n = [] := by
          have := hE rfl; rw [hx2] at this; exact List.isEmpty_iff.mp this.symm
        rw [this, delivered_nil_rest, List.append_nil]
        exact (take_eq_self_iff rest n).mpr this
      | lazy =>
        have h1 := hL rfl
        rw [hx2] at h1
        have h2 : (rest.take n).isEmpty = true := by
          have := h1.symm; simp only [Bool.and_eq_true] at this; exact this.2
        have h3 : rest.take n = [] := List.isEmpty_iff.mp h2
        have hn : 0 < n := hpos n (List.mem_cons_self ..)
        have h4 : rest = [] := by
          rcases List.take_eq_nil_iff.mp h3 with h | h
          · omega
          · exact h
        subst h4
        simp [delivered_nil_rest]
    · have := ih (rest.drop n) (fun m hm => hpos m (List.mem_cons_of_mem _ hm)) ⟨x, hx, hx2⟩
      rw [this, List.take_append_drop]

/-- `eager`: a read reports `io.EOF` exactly when, with it, everything has been delivered -/
theorem eof_iff_eager (sizes : List Nat) (rest : Bytes) (pre : List (Bytes × Bool)) (x : Bytes × Bool)
    (post : List (Bytes × Bool)) (h : chunksOf .eager rest sizes = pre ++ x :: post) :
    x.2 = true ↔ delivered (pre ++ [x]) = rest := by
  induction sizes generalizing rest pre with
  | nil => simp [chunksOf, FS.readChunks] at h
  | cons n ns ih =>
    obtain ⟨e, he, hE, _⟩ := chunksOf_cons .eager rest n ns
    rw [he] at h
    cases pre with
    | nil =>
      simp only [List.nil_append, List.cons.injEq] at h
      obtain ⟨rfl, _⟩ := h
      simp only [List.nil_append, delivered_cons, delivered_nil, List.append_nil]
      rw [hE rfl, List.isEmpty_iff, take_eq_self_iff]
    | cons y pre' =>
      simp only [List.cons_append, List.cons.injEq] at h
      obtain ⟨rfl, h⟩ := h
      rw [ih (rest.drop n) pre' h]
      simp only [List.cons_append, delivered_cons]
      constructor
      · intro hh; rw [hh, List.take_append_drop]
      · intro hh
        have := List.take_append_drop n rest
        exact List.append_cancel_left (hh.trans this.symm)

/-- `lazy`: a read (with a non-empty buffer) reports `io.EOF` exactly when everything had been delivered
before it -/
theorem eof_iff_lazy (sizes : List Nat) (rest : Bytes) (hpos : ∀ n ∈ sizes, 0 < n)
    (pre : List (Bytes × Bool)) (x : Bytes × Bool)
    (post : List (Bytes × Bool)) (h : chunksOf .lazy rest sizes = pre ++ x :: post) :
    x.2 = true ↔ delivered pre = rest := by
  induction sizes generalizing rest pre with
  | nil => simp [chunksOf, lazyChunks] at h
  | cons n ns ih =>
    obtain ⟨e, he, _, hL⟩ := chunksOf_cons .lazy rest n ns
    have hn : 0 < n := hpos n (List.mem_cons_self ..)
    rw [he] at h
    cases pre with
    | nil =>
      simp only [List.nil_append, List.cons.injEq] at h
      obtain ⟨rfl, _⟩ := h
      simp only [delivered_nil]
      rw [hL rfl]
      simp only [Bool.and_eq_true, bne_iff_ne, ne_eq, List.isEmpty_iff, List.take_eq_nil_iff]
      constructor
      · rintro ⟨_, h | h⟩
        · omega
        · exact h.symm
      · intro h; exact ⟨by omega, Or.inr h.symm⟩
    | cons y pre' =>
      simp only [List.cons_append, List.cons.injEq] at h
      obtain ⟨rfl, h⟩ := h
      rw [ih (rest.drop n) (fun m hm => hpos m (List.mem_cons_of_mem _ hm)) pre' h]
      simp only [delivered_cons]
      constructor
      · intro hh; rw [hh, List.take_append_drop]
      · intro hh
        have := List.take_append_drop n rest
        exact List.append_cancel_left (hh.trans this.symm)

/-! ### io.Copy -/

theorem faultyRead_noFault (c : Calls) (r : RHandle) (n : Nat) :
    faultyRead noFault c r n
      = ((r.read n).1, if (r.read n).2.1 then .eof else .more, c.bump .read, (r.read n).2.2) := rfl

theorem faultyWrite_noFault (c : Calls) (w : WHandle) (chunk : Bytes) :
    faultyWrite noFault c w chunk = (true, c.bump .write, w.write chunk) := rfl

/-- the three possible shapes of a read under a plan -/
theorem faultyRead_cases (pl : Plan) (c : Calls) (r : RHandle) (n : Nat) :
    (∃ ch r', faultyRead pl c r n = (ch, .err, c.bump .read, r'))
    ∨ faultyRead pl c r n
        = ((r.read n).1, if (r.read n).2.1 then .eof else .more, c.bump .read, (r.read n).2.2) := by
  unfold faultyRead
  cases pl .read (c .read) with
  | none => exact Or.inr rfl
  | some m => cases m <;> exact Or.inl ⟨_, _, rfl⟩

theorem faultyWrite_cases (pl : Plan) (c : Calls) (w : WHandle) (chunk : Bytes) :
    (∃ w', faultyWrite pl c w chunk = (false, c.bump .write, w'))
    ∨ faultyWrite pl c w chunk = (true, c.bump .write, w.write chunk) := by
  unfold faultyWrite
  cases pl .write (c .write) with
  | none => exact Or.inr rfl
  | some m => cases m <;> exact Or.inl ⟨_, rfl⟩

/-- eof flag and the rest, for both styles: a read that reports EOF leaves nothing unread -/
theorem read_eof_rest (r : RHandle) (n : Nat) (hok : r.Ok) (h : (r.read n).2.1 = true) :
    r.rest.drop n = [] := by
  cases hs : r.style with
  | eager => rw [read_eof_eager r n hok hs] at h; exact List.isEmpty_iff.mp h
  | lazy =>
    rw [read_eof_lazy r n hs] at h
    simp only [Bool.and_eq_true, bne_iff_ne, ne_eq, List.isEmpty_iff, List.take_eq_nil_iff] at h
    rcases h.2 with h' | h'
    · exact absurd h' h.1
    · rw [h']; simp

/-- ANY plan: when the loop reports success, the writer has been appended exactly the bytes the reader had
left (and nothing was lost or repeated, whatever the chunking) -/
theorem ioLoop_ok_content (pl : Plan) (fuel : Nat) (sizes : List Nat) (c : Calls) (r : RHandle) (w : WHandle)
    (hw : Appending w) (hr : r.Ok) (hok : (ioLoop pl fuel sizes c r w).ok = true) :
    (ioLoop pl fuel sizes c r w).w.content = w.content ++ r.rest ∧ Appending (ioLoop pl fuel sizes c r w).w := by
  induction fuel generalizing sizes c r w with
  | zero => simp [ioLoop] at hok
  | succ fuel ih =>
    simp only [ioLoop] at hok ⊢
    generalize chunkSize sizes = n at hok ⊢
    rcases faultyRead_cases pl c r n with ⟨ch, r', hf⟩ | hf
    · -- the read failed: whatever follows, the loop reports an error
      rw [hf] at hok
      simp only at hok
      split at hok
      · simp at hok
      · rcases faultyWrite_cases pl (c.bump .read) w ch with ⟨w', hfw⟩ | hfw
        · rw [hfw] at hok; simp at hok
        · rw [hfw] at hok; simp at hok
    · rw [hf] at hok ⊢
      simp only at hok ⊢
      have hch := read_chunk r n
      have hrest := read_rest r n
      have hok' := read_ok r n hr
      by_cases hemp : (r.read n).1.isEmpty = true
      · rw [if_pos hemp] at hok ⊢
        have hnil : r.rest.take n = [] := by rw [← hch]; exact List.isEmpty_iff.mp hemp
        by_cases heof : (r.read n).2.1 = true
        · rw [if_pos heof] at hok ⊢
          simp only at hok ⊢
          have hd := read_eof_rest r n hr heof
          have : r.rest = [] := by
            have := List.take_append_drop n r.rest
            rw [hnil, hd] at this; exact this.symm
          rw [this]; simp [hw]
        · rw [if_neg heof] at hok ⊢
          simp only at hok ⊢
          have := ih sizes.tail (c.bump .read) (r.read n).2.2 w hw hok' hok
          rw [hrest] at this
          have hd : r.rest.drop n = r.rest := by
            have := List.take_append_drop n r.rest
            rw [hnil] at this; exact this
          rw [hd] at this
          exact this
      · rw [if_neg hemp] at hok ⊢
        rcases faultyWrite_cases pl (c.bump .read) w (r.read n).1 with ⟨w', hfw⟩ | hfw
        · rw [hfw] at hok; simp at hok
        · rw [hfw] at hok ⊢
          simp only [if_true] at hok ⊢
          obtain ⟨hwc, hwa⟩ := write_appending w (r.read n).1 hw
          by_cases heof : (r.read n).2.1 = true
          · rw [if_pos heof] at hok ⊢
            simp only at hok ⊢
            have hd := read_eof_rest r n hr heof
            refine ⟨?_, hwa⟩
            rw [hwc, hch]
            have := List.take_append_drop n r.rest
            rw [hd, List.append_nil] at this
            rw [this]
          · rw [if_neg heof] at hok ⊢
            simp only at hok ⊢
            have := ih sizes.tail ((c.bump .read).bump .write) (r.read n).2.2 (w.write (r.read n).1) hwa hok' hok
            rw [hrest, hwc, List.append_assoc] at this
            rw [hch] at this ⊢
            rw [List.take_append_drop] at this
            exact this

/-- no fault and enough fuel: the loop reports success, for every chunking -/
theorem ioLoop_noFault_ok (fuel : Nat) (sizes : List Nat) (c : Calls) (r : RHandle) (w : WHandle)
    (hr : r.Ok) (hfuel : sizes.length + r.rest.length + 2 ≤ fuel) :
    (ioLoop noFault fuel sizes c r w).ok = true := by
  induction fuel generalizing sizes c r w with
  | zero => omega
  | succ fuel ih =>
    simp only [ioLoop]
    have hsz : sizes = [] → chunkSize sizes ≠ 0 := by
      intro h; rw [h]; decide
    generalize chunkSize sizes = n at hsz ⊢
    rw [faultyRead_noFault]
    simp only
    have hch := read_chunk r n
    have hrest := read_rest r n
    have hok' := read_ok r n hr
    have hlen : ((r.read n).2.2.rest).length = r.rest.length - n := by rw [hrest, List.length_drop]
    by_cases hemp : (r.read n).1.isEmpty = true
    · rw [if_pos hemp]
      by_cases heof : (r.read n).2.1 = true
      · rw [if_pos heof]
      · rw [if_neg heof]
        simp only
        -- an empty, non-EOF read: only possible while the oracle's list is not used up
        have hnil : r.rest.take n = [] := by rw [← hch]; exact List.isEmpty_iff.mp hemp
        cases sizes with
        | nil =>
          exfalso
          have hn0 : n ≠ 0 := hsz rfl
          have hre : r.rest = [] := by
            rcases List.take_eq_nil_iff.mp hnil with h | h
            · exact absurd h hn0
            · exact h
          apply heof
          cases hs : r.style with
          | eager => rw [read_eof_eager r n hr hs, hre]; simp
          | lazy => rw [read_eof_lazy r n hs, hre]; simp [hn0]
        | cons s ss =>
          apply ih
          · exact hok'
          · simp only [List.tail_cons, List.length_cons] at hfuel ⊢; omega
    · rw [if_neg hemp, faultyWrite_noFault]
      simp only [if_true]
      by_cases heof : (r.read n).2.1 = true
      · rw [if_pos heof]
      · rw [if_neg heof]
        simp only
        apply ih
        · exact hok'
        · have hne : r.rest.take n ≠ [] := by
            rw [← hch]; intro h; exact hemp (List.isEmpty_iff.mpr h)
          have hn0 : 0 < n := by
            cases n with
            | zero => simp at hne
            | succ m => omega
          have hr0 : 0 < r.rest.length := by
            cases hrr : r.rest with
            | nil => rw [hrr] at hne; simp at hne
            | cons a b => simp
          cases sizes with
          | nil => simp only [List.tail_nil, List.length_nil] at hfuel ⊢; omega
          | cons s ss => simp only [List.tail_cons, List.length_cons] at hfuel ⊢; omega

theorem ioCopy_ok_content (pl : Plan) (sizes : List Nat) (c : Calls) (r : RHandle) (w : WHandle)
    (hw : Appending w) (hr : r.Ok) (hok : (ioCopy pl sizes c r w).ok = true) :
    (ioCopy pl sizes c r w).w.content = w.content ++ r.rest ∧ Appending (ioCopy pl sizes c r w).w :=
  ioLoop_ok_content pl _ sizes c r w hw hr hok

theorem ioCopy_noFault_ok (sizes : List Nat) (c : Calls) (r : RHandle) (w : WHandle) (hr : r.Ok) :
    (ioCopy noFault sizes c r w).ok = true := by
  apply ioLoop_noFault_ok _ sizes c r w hr
  rw [rest_length]; omega

end Stream
end Goat
