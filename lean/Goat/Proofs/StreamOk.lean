/-
Helper lemmas for C04 (3): the success direction.  With no fault, `Copy` / `Copier.Do` return nil whenever the
pre-existing destination is compatible with the source (where both hold something under the destination
root, it is of the same kind).  Nothing here changes a definition of `Goat/Model/Stream.lean`.
-/
import Goat.Proofs.StreamCopy

namespace Goat
namespace Stream

open FS (Entry State)
open Path (Name)

/-- the old destination never holds the other kind of node where the target holds one -/
def Compat (S0 T : State) : Prop := ∀ x e e', S0 x = some e' → T x = some e → e.isDir = e'.isDir

theorem notFile_of_toward (S0 T S : State) (hc : Compat S0 T) (ht : Toward T S0 S) (x : Path)
    (hT : T x = some .dir) : isFileB (S x) = false := by
  rcases ht x with h | h
  · rw [h]
    cases hs : S0 x with
    | none => rfl
    | some e' =>
      have := hc x .dir e' hs hT
      cases e' with
      | dir => rfl
      | file d => simp [Entry.isDir] at this
  · rw [h, hT]; rfl

theorem notDir_of_toward (S0 T S : State) (hc : Compat S0 T) (ht : Toward T S0 S) (x : Path) (d : Bytes)
    (hT : T x = some (.file d)) : isDirB (S x) = false := by
  rcases ht x with h | h
  · rw [h]
    cases hs : S0 x with
    | none => rfl
    | some e' =>
      have := hc x (.file d) e' hs hT
      cases e' with
      | dir => simp [Entry.isDir] at this
      | file d' => rfl
  · rw [h, hT]; rfl

theorem mkdirOkB_of_toward (S0 T S : State) (hc : Compat S0 T) (ht : Toward T S0 S) (t : Path)
    (hT : ∀ x, x <+: t → T x = some .dir) : mkdirOkB S t = true := by
  simp only [mkdirOkB, List.all_eq_true, mem_prefixes, Bool.not_eq_true']
  intro x hx
  exact notFile_of_toward S0 T S hc ht x (hT x hx)

/-- no fault: a callback on an item of the source succeeds in every state reached on the way from a
compatible destination to the target -/
theorem onItem_noFault_ok (sizes : List Nat) (src : Src) (sb db : Path) (c : Calls) (dst : Dest) (it : Item)
    (S0 T : State) (hc : Compat S0 T) (ht : Toward T S0 dst.st) (hit : ItemOK T src sb db it)
    (hne : it.2 ≠ []) (hfile : it.1 = false → ∃ d, src.st (sb ++ it.2) = some (.file d)) :
    (onItem noFault sizes src sb db c dst it).ok = true := by
  obtain ⟨b, p⟩ := it
  cases b with
  | true =>
    simp only [onItem]
    apply mkdirStep_noFault
    apply mkdirOkB_of_toward S0 T dst.st hc ht
    intro x hx
    by_cases e : x = db ++ p
    · rw [e]; exact hit.dir rfl
    · exact hit.anc x hx e
  | false =>
    simp only at hne
    obtain ⟨d, hd⟩ := hfile rfl
    have hdl : (db ++ p).dropLast = db ++ p.dropLast := List.dropLast_append_of_ne_nil hne
    have hanc : ∀ x, x <+: db ++ p.dropLast → T x = some .dir := by
      intro x hx
      rw [← hdl] at hx
      have := prefix_dropLast_ne (by simp [hne]) hx
      exact hit.anc x this.1 this.2
    have hm : (mkdirStep noFault c dst (db ++ p.dropLast)).ok = true :=
      mkdirStep_noFault c dst _ (mkdirOkB_of_toward S0 T dst.st hc ht _ hanc)
    obtain ⟨_, hk1, hst1⟩ := mkdirStep_ok noFault c dst (db ++ p.dropLast) hm
    have ht1 : Toward T S0 (mkdirStep noFault c dst (db ++ p.dropLast)).dst.st := by
      rw [hst1]; exact ht.trans (toward_mkdirSt T dst.st _ hanc)
    have hT : T (db ++ p) = some (.file d) := by rw [hit.file rfl]; exact hd
    simp only [onItem]
    rw [if_pos hm]
    apply streamCopy2_noFault sizes _ src (sb ++ p) _ (db ++ p) d hd
    -- the writer can be opened
    unfold Dest.canOpen
    have h1 : (db ++ p).isEmpty = false := by
      cases hq : db ++ p with
      | nil => simp at hq; exact absurd hq.2 hne
      | cons a b => rfl
    have h2 := notDir_of_toward S0 T _ hc ht1 (db ++ p) d hT
    rw [h1, h2, hdl]
    simp only [Bool.not_false, Bool.true_and]
    have hdir : (mkdirStep noFault c dst (db ++ p.dropLast)).dst.st (db ++ p.dropLast) = some .dir := by
      rw [hst1]; simp [FS.mkdirSt]
    cases hkind : (mkdirStep noFault c dst (db ++ p.dropLast)).dst.kind with
    | mem =>
      simp only
      exact mkdirOkB_of_toward S0 T _ hc ht1 _ hanc
    | disk =>
      simp only
      rw [hdir]; rfl

/-- no fault: all callbacks succeed, in any order -/
theorem copyItems_noFault_ok (sizes : List Nat) (src : Src) (sb db : Path) (extra : Nat) (S0 T : State)
    (hc : Compat S0 T) (items : List Item) (c : Calls) (dst : Dest) (ht : Toward T S0 dst.st)
    (hits : ∀ it ∈ items, ItemOK T src sb db it ∧ it.2 ≠ [] ∧
      (it.1 = false → ∃ d, src.st (sb ++ it.2) = some (.file d))) :
    (copyItems noFault sizes src sb db extra items c dst).ok = true := by
  induction items generalizing c dst with
  | nil => rfl
  | cons it rest ih =>
    obtain ⟨h1, h2, h3⟩ := hits it (List.mem_cons_self ..)
    have hok := onItem_noFault_ok sizes src sb db c dst it S0 T hc ht h1 h2 h3
    simp only [copyItems]
    rw [if_pos hok]
    obtain ⟨ht', _, _⟩ := onItem_ok noFault sizes src sb db c dst it T h1 hok
    exact ih _ _ (ht.trans ht') (fun x hx => hits x (List.mem_cons_of_mem _ hx))

theorem listFails_noFault (c : Calls) (n : Nat) : listFails noFault c n = false := by
  simp [listFails, noFault]

/-- no fault, compatible destination: `Copy` returns nil -/
theorem treeCopy_noFault_ok (sizes : List Nat) (extra : Nat) (c : Calls) (src : Src) (sb : Path) (dst : Dest)
    (db : Path) (order : List Item) (hpre : CopyPre (fun q => src.st (sb ++ q)) db dst.st order)
    (hfile : ∀ it ∈ order, it.1 = false → ∃ d, src.st (sb ++ it.2) = some (.file d))
    (hc : Compat dst.st (overlay (fun q => src.st (sb ++ q)) db dst.st)) :
    (treeCopy noFault sizes extra c src sb dst db order).ok = true := by
  unfold treeCopy
  simp only [listFails_noFault]
  apply copyItems_noFault_ok sizes src sb db extra dst.st _ hc order _ dst (Toward.refl _ _)
  intro it hit
  exact ⟨itemOK_overlay src sb db dst.st order hpre it hit, (hpre.visits.sound it hit).1, hfile it hit⟩

/-- no fault, `DestPath` can be made a directory, compatible destination: `Copier.Do` on a directory source
returns nil -/
theorem copierDo_dir_noFault_ok (sizes : List Nat) (extra : Nat) (c : Calls) (src : Src) (sp : Path) (dst : Dest)
    (dp : Path) (order : List Item) (h : src.st sp = some .dir)
    (hv : Visits (fun q => src.st (sp ++ q)) order)
    (hfile : ∀ it ∈ order, it.1 = false → ∃ d, src.st (sp ++ it.2) = some (.file d))
    (hmk : mkdirOkB dst.st dp = true)
    (hc : Compat (FS.mkdirSt dst.st dp) (overlay (fun q => src.st (sp ++ q)) dp (FS.mkdirSt dst.st dp))) :
    (copierDo noFault sizes extra c src sp dst dp order).ok = true := by
  have hm : (mkdirStep noFault (c.bump .srcView) dst dp).ok = true := mkdirStep_noFault _ dst dp hmk
  obtain ⟨_, _, hst1⟩ := mkdirStep_ok noFault _ dst dp hm
  unfold copierDo
  rw [h]
  simp only [noFault]
  rw [if_pos hm]
  have hpre : CopyPre (fun q => src.st (sp ++ q)) dp (mkdirStep noFault (c.bump .srcView) dst dp).dst.st order := by
    refine ⟨?_, by simpa using h, hv⟩
    intro x hx
    rw [hst1]
    simp [FS.mkdirSt, hx]
  apply treeCopy_noFault_ok sizes extra _ src sp _ dp order hpre hfile
  rw [hst1]; exact hc

/-- a file item of a concrete tree is a file of the tree -/
theorem nodesOf_file (k : Kids) (hnd : (Node.dir k).NoDup) (it : Item) (h : it ∈ nodesOf (.dir k))
    (hf : it.1 = false) : ∃ d, stateOf (.dir k) it.2 = some (.file d) := by
  obtain ⟨_, m, hl, hm⟩ := nodesOf_sound k hnd it h
  cases m with
  | dir k' => rw [hf] at hm; simp [Node.isDir] at hm
  | file d => exact ⟨d, by simp [stateOf, hl, entryOf]⟩

end Stream
end Goat
