/-
Helper lemmas for C19, sequential part: the algebra of template sets (`over` is a monoid action,
`load` factors through it) and the cache invariant of both providers
("every cache entry is pristine and equals a fresh build").
-/
import Goat.Model.Templates

namespace Goat.Tmpl

/-! ## `pick` / `over` -/

theorem pick_none_left (b : Option Body) : pick none b = b := rfl

theorem pick_none_right (a : Option Body) : pick a none = a := by
  cases a with
  | none => rfl
  | some x => simp only [pick]; split <;> rfl

theorem pick_assoc (a b c : Option Body) : pick a (pick b c) = pick (pick a b) c := by
  cases a with
  | none => rfl
  | some x =>
    cases b with
    | none =>
      cases c with
      | none => simp [pick]
      | some z => by_cases hx : blank x = true <;> simp [pick, hx]
    | some y =>
      cases c with
      | none => by_cases hx : blank x = true <;> by_cases hy : blank y = true <;> simp [pick, hx, hy]
      | some z => by_cases hx : blank x = true <;> by_cases hy : blank y = true <;> simp [pick, hx, hy]

theorem over_empty_left (t : TSet) : over TSet.empty t = t := rfl

theorem over_empty_right (t : TSet) : over t TSet.empty = t := by
  funext n; exact pick_none_right (t n)

theorem over_assoc (a b c : TSet) : over a (over b c) = over (over a b) c := by
  funext n; exact pick_assoc (a n) (b n) (c n)

/-- a definition that is not blank always wins; without one the lower layer shows through -/
theorem pick_eq_orElse (a b : Option Body) (h : ∀ x, a = some x → blank x = false) :
    pick a b = (a <|> b) := by
  cases a with
  | none => rfl
  | some x => simp [pick, h x rfl]

/-! ## `load` factors through `over` -/

theorem load_over (t : TSet) (fs : List File) :
    load t fs = (load TSet.empty fs).map (fun d => over d t) := by
  induction fs generalizing t with
  | nil => simp [load, over_empty_left]
  | cons f fs ih =>
    by_cases hf : f.tmpl = true
    · simp only [load, hf, if_true, parseInto]
      cases hft : fileTrees f with
      | none => simp
      | some tr =>
        simp only [over_empty_right]
        rw [ih (over tr t), ih tr]
        cases load TSet.empty fs with
        | none => rfl
        | some d => simp [over_assoc]
    · simp only [load, hf]
      exact ih t

theorem load_nil (t : TSet) : load t [] = some t := rfl

theorem layerDefs_none : layerDefs none = some TSet.empty := rfl

theorem specBase_eq (src : Src) : specBase src = layerDefs src.helpers := by
  unfold specBase layerDefs
  cases src.helpers <;> rfl

theorem specLayout_eq (src : Src) (l : Name) :
    specLayout src l =
      (layerDefs src.helpers).bind fun H => (layerDefs (src.layout l)).map fun L => over L H := by
  unfold specLayout
  rw [specBase_eq]
  cases layerDefs src.helpers with
  | none => rfl
  | some H =>
    cases hl : src.layout l with
    | none => simp [layerDefs, load, over_empty_left]
    | some fs => simp [layerDefs, load_over H fs]

theorem specView_eq (src : Src) (l v : Name) :
    specView src l v =
      (layerDefs src.helpers).bind fun H => (layerDefs (src.layout l)).bind fun L =>
        (layerDefs (src.view v)).map fun W => over W (over L H) := by
  unfold specView
  rw [specLayout_eq]
  cases layerDefs src.helpers with
  | none => rfl
  | some H =>
    cases layerDefs (src.layout l) with
    | none => rfl
    | some L =>
      simp only [Option.bind_some, Option.map_some]
      rw [load_over]
      rfl

/-! ## the cache key -/

/-- the layout name cannot be confused with another one inside a joined key -/
def KeyP (V : Variant) (l : Name) : Prop := V.pairKey = true ∨ colon ∉ l

theorem append_colon_inj : ∀ (l l' v v' : Name), colon ∉ l → colon ∉ l' →
    l ++ colon :: v = l' ++ colon :: v' → l = l' ∧ v = v'
  | [], [], v, v', _, _, h => by simpa using h
  | [], y :: l', v, v', _, h2, h => by
    simp only [List.nil_append, List.cons_append, List.cons.injEq] at h
    exact absurd (h.1 ▸ List.mem_cons_self) h2
  | x :: l, [], v, v', h1, _, h => by
    simp only [List.nil_append, List.cons_append, List.cons.injEq] at h
    exact absurd (h.1 ▸ List.mem_cons_self) h1
  | x :: l, y :: l', v, v', h1, h2, h => by
    simp only [List.cons_append, List.cons.injEq] at h
    have := append_colon_inj l l' v v' (fun m => h1 (List.mem_cons_of_mem _ m))
      (fun m => h2 (List.mem_cons_of_mem _ m)) h.2
    exact ⟨by rw [h.1, this.1], this.2⟩

theorem mkKey_inj {V : Variant} {l l' v v' : Name} (h1 : KeyP V l) (h2 : KeyP V l')
    (h : mkKey V l v = mkKey V l' v') : l = l' ∧ v = v' := by
  unfold mkKey at h
  by_cases hp : V.pairKey = true
  · simp only [hp, if_true, Prod.mk.injEq] at h
    exact h
  · simp only [hp] at h
    have a1 : colon ∉ l := h1.resolve_left hp
    have a2 : colon ∉ l' := h2.resolve_left hp
    exact append_colon_inj l l' v v' a1 a2 (by simpa using h)

theorem keyP_default (V : Variant) : KeyP V defaultLayout := by
  right; decide

end Goat.Tmpl
