/-
Helper lemmas for C19: the cache invariant of both providers.

`Inv`: the cached base and every cached layout is pristine (never executed) and holds exactly
what a fresh build gives; every cached view sits under the key of one (layout, view) pair with an
unambiguous layout name and holds what a fresh build of that pair gives.
Each of `Base/Layout/View` of either provider preserves `Inv` and answers with the fresh build.
-/
import Goat.Proofs.Templates

namespace Goat.Tmpl

structure Inv (V : Variant) (src : Src) (s : St) : Prop where
  base : ∀ t, s.base = some t → t.executed = false ∧ specBase src = some t.defs
  layouts : ∀ n t, s.layouts n = some t → t.executed = false ∧ specLayout src n = some t.defs
  views : ∀ k t, s.views k = some t →
    ∃ l v, KeyP V l ∧ k = mkKey V l v ∧ specView src l v = some t.defs

theorem inv_init (V : Variant) (src : Src) : Inv V src St.init :=
  ⟨(by intro t h; cases h), (by intro n t h; cases h), (by intro k t h; cases h)⟩

/-- requests whose `exec` cannot touch a cached base/layout of the html provider -/
def ReqOK (V : Variant) (k : Kind) : Req → Prop
  | .view _ _ _ => True
  | .base e => k = Kind.text ∨ V.cloneOut = true ∨ e = false
  | .layout _ e => k = Kind.text ∨ V.cloneOut = true ∨ e = false

/-- requests whose view cache key is unambiguous -/
def KeyOK (V : Variant) : Req → Prop
  | .view l _ _ => KeyP V (normL l)
  | _ => True

/-- the request sequences the cache theorems speak about: neither defect class is entered -/
def Admissible (V : Variant) (k : Kind) (reqs : List Req) : Prop :=
  ∀ r ∈ reqs, ReqOK V k r ∧ KeyOK V r

/-- two requests for the same template (`exec` aside) -/
def sameTarget : Req → Req → Prop
  | .base _, .base _ => True
  | .layout l _, .layout l' _ => normL l = normL l'
  | .view l v _, .view l' v' _ => normL l = normL l' ∧ v = v'
  | _, _ => False

theorem specAns_sameTarget (src : Src) {a b : Req} (h : sameTarget a b) : specAns src a = specAns src b := by
  cases a <;> cases b <;> simp only [sameTarget] at h <;> simp only [specAns]
  · rw [h]
  · rw [h.1, h.2]

theorem clone_pristine (k : Kind) (t : Tmpl) (h : t.executed = false) :
    clone k t = some { defs := t.defs, executed := false } := by
  simp [clone, h]

theorem clone_text (t : Tmpl) : clone Kind.text t = some { defs := t.defs, executed := false } := by
  simp [clone]

/-- what `handOut` gives for a pristine object -/
theorem handOut_pristine (V : Variant) (t : Tmpl) (r : Ref) (h : t.executed = false) :
    ∃ t' r', handOut V t r = some (t', r') ∧ t'.defs = t.defs ∧ t'.executed = false ∧
      (V.cloneOut = true → r' = Ref.fresh) ∧ (r' = Ref.fresh ∨ r' = r) := by
  unfold handOut
  cases hc : V.cloneOut with
  | true =>
    try dsimp only
    simp only [if_true, clone_pristine _ t h]
    exact ⟨_, _, rfl, rfl, rfl, fun _ => rfl, Or.inl rfl⟩
  | false =>
    try dsimp only
    exact ⟨t, r, (by simp), rfl, h, (fun x => by cases x), Or.inr rfl⟩

/-- result shape shared by the html calls -/
structure HOut (V : Variant) (src : Src) (spec : Option TSet) (out : Option (Tmpl × Ref) × St) : Prop where
  inv : Inv V src out.2
  ans : out.1.map (fun x => x.1.defs) = spec
  pristine : ∀ t r, out.1 = some (t, r) → t.executed = false
  fresh : ∀ t r, out.1 = some (t, r) → V.cloneOut = true → r = Ref.fresh

theorem htmlBase_ok {V : Variant} {src : Src} (c : Bool) {s : St} (h : Inv V src s) :
    HOut V src (specBase src) (htmlBase V src c s) ∧
    (∀ t r, (htmlBase V src c s).1 = some (t, r) → r = Ref.fresh ∨ r = Ref.base) := by
  unfold htmlBase
  cases hb : s.base with
  | some t =>
    try dsimp only
    obtain ⟨hex, hsp⟩ := h.base t hb
    obtain ⟨t', r', e, hd, hx, hf, hr⟩ := handOut_pristine V t Ref.base hex
    simp only [e]
    refine ⟨⟨h, by simp [hd, hsp], ?_, ?_⟩, ?_⟩
    · intro a b hab; cases hab; exact hx
    · intro a b hab; cases hab; exact hf
    · intro a b hab; cases hab; exact hr
  | none =>
    try dsimp only
    cases hh : src.helpers with
    | none =>
      try dsimp only
      refine ⟨⟨h, by simp [specBase, hh, Tmpl.new], ?_, ?_⟩, ?_⟩
      · intro a b hab; cases hab; rfl
      · intro a b hab _; cases hab; rfl
      · intro a b hab; cases hab; exact Or.inl rfl
    | some fs =>
      try dsimp only
      cases hl : load TSet.empty fs with
      | none =>
        try dsimp only
        refine ⟨⟨h, by simp [specBase, hh, hl], ?_, ?_⟩, ?_⟩ <;> intro a b hab <;> cases hab
      | some d =>
        try dsimp only
        cases c with
        | false =>
          try dsimp only
          refine ⟨⟨h, by simp [specBase, hh, hl], ?_, ?_⟩, ?_⟩
          · intro a b hab; cases hab; rfl
          · intro a b hab _; cases hab; rfl
          · intro a b hab; cases hab; exact Or.inl rfl
        | true =>
          try dsimp only
          obtain ⟨t', r', e, hd, hx, hf, hr⟩ :=
            handOut_pristine V { defs := d, executed := false } Ref.base rfl
          simp only [if_true, e]
          refine ⟨⟨⟨?_, h.layouts, h.views⟩, by simp [hd, specBase, hh, hl], ?_, ?_⟩, ?_⟩
          · intro t ht; cases ht; exact ⟨rfl, by simp [specBase, hh, hl]⟩
          · intro a b hab; cases hab; exact hx
          · intro a b hab; cases hab; exact hf
          · intro a b hab; cases hab; exact hr

theorem htmlLayout_ok {V : Variant} {src : Src} (c : Bool) (n : Name) {s : St} (h : Inv V src s) :
    HOut V src (specLayout src n) (htmlLayout V src c n s) ∧
    (∀ t r, (htmlLayout V src c n s).1 = some (t, r) → r = Ref.fresh ∨ r = Ref.layout n) := by
  unfold htmlLayout
  cases hlay : s.layouts n with
  | some t =>
    try dsimp only
    obtain ⟨hex, hsp⟩ := h.layouts n t hlay
    obtain ⟨t', r', e, hd, hx, hf, hr⟩ := handOut_pristine V t (Ref.layout n) hex
    simp only [e]
    refine ⟨⟨h, by simp [hd, hsp], ?_, ?_⟩, ?_⟩
    · intro a b hab; cases hab; exact hx
    · intro a b hab; cases hab; exact hf
    · intro a b hab; cases hab; exact hr
  | none =>
    try dsimp only
    obtain ⟨⟨hinv, hans, hpr, _⟩, _⟩ := htmlBase_ok (V := V) (src := src) c h
    generalize htmlBase V src c s = out at hinv hans hpr
    obtain ⟨rb, s1⟩ := out
    cases rb with
    | none =>
      try dsimp only
      simp only [Option.map_none] at hans
      refine ⟨⟨hinv, by simp [specLayout, ← hans], ?_, ?_⟩, ?_⟩ <;> intro a b hab <;> cases hab
    | some br =>
      try dsimp only
      obtain ⟨b, rr⟩ := br
      have hbx : b.executed = false := hpr b rr rfl
      simp only [Option.map_some] at hans
      simp only [clone_pristine _ b hbx]
      cases hsl : src.layout n with
      | none =>
        try dsimp only
        refine ⟨⟨hinv, by simp [specLayout, ← hans, hsl], ?_, ?_⟩, ?_⟩
        · intro a b hab; cases hab; rfl
        · intro a b hab _; cases hab; rfl
        · intro a b hab; cases hab; exact Or.inl rfl
      | some fs =>
        try dsimp only
        cases hl : load b.defs fs with
        | none =>
          try dsimp only
          refine ⟨⟨hinv, by simp [specLayout, ← hans, hsl, hl], ?_, ?_⟩, ?_⟩ <;>
            intro a b hab <;> cases hab
        | some d =>
          try dsimp only
          have hspec : specLayout src n = some d := by simp [specLayout, ← hans, hsl, hl]
          cases c with
          | false =>
            try dsimp only
            refine ⟨⟨hinv, by simp [hspec], ?_, ?_⟩, ?_⟩
            · intro a b hab; cases hab; rfl
            · intro a b hab _; cases hab; rfl
            · intro a b hab; cases hab; exact Or.inl rfl
          | true =>
            try dsimp only
            obtain ⟨t', r', e, hd, hx, hf, hr⟩ :=
              handOut_pristine V { defs := d, executed := false } (Ref.layout n) rfl
            simp only [if_true, e]
            refine ⟨⟨⟨hinv.base, ?_, hinv.views⟩, by simp [hd, hspec], ?_, ?_⟩, ?_⟩
            · intro m t ht
              by_cases hm : m = n
              · subst hm
                simp only [if_true] at ht
                cases ht
                exact ⟨rfl, hspec⟩
              · simp only [hm, if_false] at ht
                exact hinv.layouts m t ht
            · intro a b hab; cases hab; exact hx
            · intro a b hab; cases hab; exact hf
            · intro a b hab; cases hab; exact hr

theorem htmlView_ok {V : Variant} {src : Src} (c : Bool) (l v : Name) {s : St} (h : Inv V src s)
    (hk : KeyP V l) :
    Inv V src (htmlView V src c l v s).2 ∧
    (htmlView V src c l v s).1.map (fun x => x.1.defs) = specView src l v ∧
    (∀ t r, (htmlView V src c l v s).1 = some (t, r) → r = Ref.fresh ∨ r = Ref.view (mkKey V l v)) := by
  unfold htmlView
  simp only
  cases hv : s.views (mkKey V l v) with
  | some t =>
    try dsimp only
    obtain ⟨l', v', hk', hkey, hsp⟩ := h.views _ t hv
    obtain ⟨e1, e2⟩ := mkKey_inj hk hk' hkey
    subst e1; subst e2
    refine ⟨h, by simp [hsp], ?_⟩
    intro a b hab; cases hab; exact Or.inr rfl
  | none =>
    try dsimp only
    obtain ⟨⟨hinv, hans, hpr, _⟩, _⟩ := htmlLayout_ok (V := V) (src := src) c l h
    generalize htmlLayout V src c l s = out at hinv hans hpr
    obtain ⟨rl, s1⟩ := out
    cases rl with
    | none =>
      try dsimp only
      simp only [Option.map_none] at hans
      refine ⟨hinv, by simp [specView, ← hans], ?_⟩
      intro a b hab; cases hab
    | some lr =>
      try dsimp only
      obtain ⟨lt, rr⟩ := lr
      have hlx : lt.executed = false := hpr lt rr rfl
      simp only [Option.map_some] at hans
      simp only [clone_pristine _ lt hlx]
      cases hl : load lt.defs ((src.view v).getD []) with
      | none =>
        try dsimp only
        refine ⟨hinv, by simp [specView, ← hans, hl], ?_⟩
        intro a b hab; cases hab
      | some d =>
        try dsimp only
        have hspec : specView src l v = some d := by simp [specView, ← hans, hl]
        cases c with
        | false =>
          try dsimp only
          refine ⟨hinv, by simp [hspec], ?_⟩
          intro a b hab; cases hab; exact Or.inl rfl
        | true =>
          try dsimp only
          simp only [if_true]
          refine ⟨⟨hinv.base, hinv.layouts, ?_⟩, by simp [hspec], ?_⟩
          · intro m t ht
            by_cases hm : m = mkKey V l v
            · subst hm
              simp only [if_true] at ht
              cases ht
              exact ⟨l, v, hk, rfl, hspec⟩
            · simp only [hm, if_false] at ht
              exact hinv.views m t ht
          · intro a b hab; cases hab; exact Or.inr rfl

/-! ### the text provider -/

structure TOut (V : Variant) (src : Src) (spec : Option TSet) (out : Option Tmpl × St) : Prop where
  inv : Inv V src out.2
  ans : out.1.map (fun x => x.defs) = spec
  pristine : ∀ t, out.1 = some t → t.executed = false

theorem textBase_ok {V : Variant} {src : Src} (c : Bool) {s : St} (h : Inv V src s) :
    TOut V src (specBase src) (textBase src c s) := by
  unfold textBase
  cases hb : s.base with
  | some t =>
    try dsimp only
    obtain ⟨hex, hsp⟩ := h.base t hb
    exact ⟨h, by simp [hsp], by intro a ha; cases ha; exact hex⟩
  | none =>
    try dsimp only
    cases hh : src.helpers with
    | none =>
      try dsimp only
      cases c with
      | false => exact ⟨h, by simp [specBase, hh, Tmpl.new], by intro a ha; cases ha; rfl⟩
      | true =>
        try dsimp only
        refine ⟨⟨?_, h.layouts, h.views⟩, by simp [specBase, hh, Tmpl.new], by intro a ha; cases ha; rfl⟩
        intro t ht; cases ht; exact ⟨rfl, by simp [specBase, hh, Tmpl.new]⟩
    | some fs =>
      try dsimp only
      cases hl : load TSet.empty fs with
      | none => exact ⟨h, by simp [specBase, hh, hl], by intro a ha; cases ha⟩
      | some d =>
        try dsimp only
        cases c with
        | false => exact ⟨h, by simp [specBase, hh, hl], by intro a ha; cases ha; rfl⟩
        | true =>
          try dsimp only
          refine ⟨⟨?_, h.layouts, h.views⟩, by simp [specBase, hh, hl], by intro a ha; cases ha; rfl⟩
          intro t ht; cases ht; exact ⟨rfl, by simp [specBase, hh, hl]⟩

theorem inv_set_layout {V : Variant} {src : Src} {s : St} (h : Inv V src s) (n : Name) (t : Tmpl)
    (hx : t.executed = false) (hs : specLayout src n = some t.defs) :
    Inv V src { s with layouts := fun m => if m = n then some t else s.layouts m } := by
  refine ⟨h.base, ?_, h.views⟩
  intro m t' ht
  by_cases hm : m = n
  · subst hm
    simp only [if_true] at ht
    cases ht
    exact ⟨hx, hs⟩
  · simp only [hm, if_false] at ht
    exact h.layouts m t' ht

theorem inv_set_view {V : Variant} {src : Src} {s : St} (h : Inv V src s) (l v : Name) (t : Tmpl)
    (hk : KeyP V l) (hs : specView src l v = some t.defs) :
    Inv V src { s with views := fun m => if m = mkKey V l v then some t else s.views m } := by
  refine ⟨h.base, h.layouts, ?_⟩
  intro m t' ht
  by_cases hm : m = mkKey V l v
  · subst hm
    simp only [if_true] at ht
    cases ht
    exact ⟨l, v, hk, rfl, hs⟩
  · simp only [hm, if_false] at ht
    exact h.views m t' ht

theorem textLayout_ok {V : Variant} {src : Src} (c : Bool) (n : Name) {s : St} (h : Inv V src s) :
    TOut V src (specLayout src n) (textLayout src c n s) := by
  unfold textLayout
  cases hlay : s.layouts n with
  | some t =>
    try dsimp only
    obtain ⟨hex, hsp⟩ := h.layouts n t hlay
    exact ⟨h, by simp [hsp], by intro a ha; cases ha; exact hex⟩
  | none =>
    try dsimp only
    obtain ⟨hinv, hans, hpr⟩ := textBase_ok (V := V) (src := src) c h
    generalize textBase src c s = out at hinv hans hpr
    obtain ⟨rb, s1⟩ := out
    cases rb with
    | none =>
      try dsimp only
      simp only [Option.map_none] at hans
      exact ⟨hinv, by simp [specLayout, ← hans], by intro a ha; cases ha⟩
    | some b =>
      try dsimp only
      have hbx : b.executed = false := hpr b rfl
      simp only [Option.map_some] at hans
      cases hsl : src.layout n with
      | none =>
        try dsimp only
        have hspec : specLayout src n = some b.defs := by simp [specLayout, ← hans, hsl]
        cases c with
        | false => exact ⟨hinv, by simp [hspec], by intro a ha; cases ha; exact hbx⟩
        | true =>
          try dsimp only
          exact ⟨inv_set_layout hinv n b hbx hspec, by simp [hspec], by intro a ha; cases ha; exact hbx⟩
      | some fs =>
        try dsimp only
        simp only [clone_text]
        cases hl : load b.defs fs with
        | none => exact ⟨hinv, by simp [specLayout, ← hans, hsl, hl], by intro a ha; cases ha⟩
        | some d =>
          try dsimp only
          have hspec : specLayout src n = some d := by simp [specLayout, ← hans, hsl, hl]
          cases c with
          | false => exact ⟨hinv, by simp [hspec], by intro a ha; cases ha; rfl⟩
          | true =>
            try dsimp only
            exact ⟨inv_set_layout hinv n { defs := d, executed := false } rfl hspec, by simp [hspec],
              by intro a ha; cases ha; rfl⟩

theorem textView_ok {V : Variant} {src : Src} (c : Bool) (l v : Name) {s : St} (h : Inv V src s)
    (hk : KeyP V l) :
    Inv V src (textView V src c l v s).2 ∧
    (textView V src c l v s).1.map (fun x => x.defs) = specView src l v := by
  unfold textView
  simp only
  cases hv : s.views (mkKey V l v) with
  | some t =>
    try dsimp only
    obtain ⟨l', v', hk', hkey, hsp⟩ := h.views _ t hv
    obtain ⟨e1, e2⟩ := mkKey_inj hk hk' hkey
    subst e1; subst e2
    exact ⟨h, by simp [hsp]⟩
  | none =>
    try dsimp only
    obtain ⟨hinv, hans, hpr⟩ := textLayout_ok (V := V) (src := src) c l h
    generalize textLayout src c l s = out at hinv hans hpr
    obtain ⟨rl, s1⟩ := out
    cases rl with
    | none =>
      try dsimp only
      simp only [Option.map_none] at hans
      exact ⟨hinv, by simp [specView, ← hans]⟩
    | some lt =>
      try dsimp only
      simp only [Option.map_some] at hans
      cases hsv : src.view v with
      | none =>
        try dsimp only
        have hspec : specView src l v = some lt.defs := by simp [specView, ← hans, hsv, load]
        cases c with
        | false => exact ⟨hinv, by simp [hspec]⟩
        | true => exact ⟨inv_set_view hinv l v lt hk hspec, by simp [hspec]⟩
      | some fs =>
        try dsimp only
        simp only [clone_text]
        cases hl : load lt.defs fs with
        | none => exact ⟨hinv, by simp [specView, ← hans, hsv, hl]⟩
        | some d =>
          try dsimp only
          have hspec : specView src l v = some d := by simp [specView, ← hans, hsv, hl]
          cases c with
          | false => exact ⟨hinv, by simp [hspec]⟩
          | true => exact ⟨inv_set_view hinv l v { defs := d, executed := false } hk hspec, by simp [hspec]⟩

/-! ### one request -/

theorem inv_markExec_view {V : Variant} {src : Src} {s : St} (h : Inv V src s) (k : Key) :
    Inv V src (markExec s (Ref.view k)) := by
  refine ⟨h.base, h.layouts, ?_⟩
  intro m t ht
  simp only [markExec] at ht
  by_cases hm : m = k
  · simp only [hm, if_true] at ht
    cases hs : s.views k with
    | none => simp [hs] at ht
    | some t0 =>
      try dsimp only
      simp only [hs, Option.map_some, Option.some.injEq] at ht
      obtain ⟨l, v, a, b, c⟩ := h.views k t0 hs
      subst ht
      exact ⟨l, v, a, hm ▸ b, c⟩
  · simp only [hm, if_false] at ht
    exact h.views m t ht

theorem step_ok {V : Variant} {k : Kind} {src : Src} (c : Bool) {s : St} (r : Req)
    (h : Inv V src s) (hr : ReqOK V k r) (hkey : KeyOK V r) :
    (step V k src c s r).1 = specAns src r ∧ Inv V src (step V k src c s r).2 := by
  cases k with
  | text =>
    unfold step
    simp only
    cases r with
    | base e =>
      obtain ⟨hinv, hans, _⟩ := textBase_ok (V := V) (src := src) c h
      simp only [textCall, specAns]
      generalize textBase src c s = out at hinv hans
      obtain ⟨a, s1⟩ := out
      cases a <;> simp_all
    | layout l e =>
      obtain ⟨hinv, hans, _⟩ := textLayout_ok (V := V) (src := src) c (normL l) h
      simp only [textCall, specAns]
      generalize textLayout src c (normL l) s = out at hinv hans
      obtain ⟨a, s1⟩ := out
      cases a <;> simp_all
    | view l v e =>
      simp only [textCall, specAns]
      by_cases hv : v = []
      · simp [hv, h]
      · simp only [hv, if_false]
        obtain ⟨hinv, hans⟩ := textView_ok (V := V) (src := src) c (normL l) v h hkey
        generalize textView V src c (normL l) v s = out at hinv hans
        obtain ⟨a, s1⟩ := out
        cases a <;> simp_all
  | html =>
    unfold step
    simp only
    cases r with
    | base e =>
      obtain ⟨⟨hinv, hans, _, hfr⟩, hrf⟩ := htmlBase_ok (V := V) (src := src) c h
      simp only [htmlCall, specAns, Req.exec]
      generalize htmlBase V src c s = out at hinv hans hfr hrf
      obtain ⟨a, s1⟩ := out
      cases a with
      | none => simp_all
      | some tr =>
        try dsimp only
        obtain ⟨t, ref⟩ := tr
        simp only [Option.map_some] at hans
        refine ⟨hans, ?_⟩
        cases e with
        | false => exact hinv
        | true =>
          try dsimp only
          have : V.cloneOut = true := by
            rcases hr with h1 | h1 | h1
            · cases h1
            · exact h1
            · cases h1
          rw [hfr t ref rfl this]
          exact hinv
    | layout l e =>
      obtain ⟨⟨hinv, hans, _, hfr⟩, hrf⟩ := htmlLayout_ok (V := V) (src := src) c (normL l) h
      simp only [htmlCall, specAns, Req.exec]
      generalize htmlLayout V src c (normL l) s = out at hinv hans hfr hrf
      obtain ⟨a, s1⟩ := out
      cases a with
      | none => simp_all
      | some tr =>
        try dsimp only
        obtain ⟨t, ref⟩ := tr
        simp only [Option.map_some] at hans
        refine ⟨hans, ?_⟩
        cases e with
        | false => exact hinv
        | true =>
          try dsimp only
          have : V.cloneOut = true := by
            rcases hr with h1 | h1 | h1
            · cases h1
            · exact h1
            · cases h1
          rw [hfr t ref rfl this]
          exact hinv
    | view l v e =>
      simp only [htmlCall, specAns, Req.exec]
      by_cases hv : v = []
      · simp [hv, h]
      · simp only [hv, if_false]
        obtain ⟨hinv, hans, hrf⟩ := htmlView_ok (V := V) (src := src) c (normL l) v h hkey
        generalize htmlView V src c (normL l) v s = out at hinv hans hrf
        obtain ⟨a, s1⟩ := out
        cases a with
        | none => simp_all
        | some tr =>
          try dsimp only
          obtain ⟨t, ref⟩ := tr
          simp only [Option.map_some] at hans
          refine ⟨hans, ?_⟩
          cases e with
          | false => exact hinv
          | true =>
            try dsimp only
            rcases hrf t ref rfl with h1 | h1
            · rw [h1]; exact hinv
            · rw [h1]; exact inv_markExec_view hinv _

theorem runFrom_ok {V : Variant} {k : Kind} {src : Src} (c : Bool) (reqs : List Req) :
    ∀ {s : St}, Inv V src s → (∀ r ∈ reqs, ReqOK V k r ∧ KeyOK V r) →
      runFrom V k src c s reqs = reqs.map (specAns src) := by
  induction reqs with
  | nil => intro s _ _; rfl
  | cons r rs ih =>
    intro s h hall
    obtain ⟨h1, h2⟩ := step_ok (V := V) (k := k) (src := src) c r h
      (hall r List.mem_cons_self).1 (hall r List.mem_cons_self).2
    simp only [runFrom, List.map_cons, h1]
    rw [ih h2 (fun r' hr' => hall r' (List.mem_cons_of_mem _ hr'))]

/-! ### caching off: every answer is the fresh build, whatever the callers execute -/

def freshH (o : Option TSet) : Option (Tmpl × Ref) :=
  o.map fun d => ({ defs := d, executed := false }, Ref.fresh)

def freshT (o : Option TSet) : Option Tmpl := o.map fun d => { defs := d, executed := false }

theorem htmlBase_unc (V : Variant) (src : Src) :
    htmlBase V src false St.init = (freshH (specBase src), St.init) := by
  unfold htmlBase specBase freshH
  simp only [St.init]
  cases src.helpers with
  | none => rfl
  | some fs => cases hl : load TSet.empty fs <;> simp [hl]

theorem htmlLayout_unc (V : Variant) (src : Src) (n : Name) :
    htmlLayout V src false n St.init = (freshH (specLayout src n), St.init) := by
  unfold htmlLayout
  rw [htmlBase_unc]
  unfold specLayout freshH
  simp only [St.init]
  cases specBase src with
  | none => rfl
  | some b =>
    simp only [Option.map_some, clone_pristine]
    cases src.layout n with
    | none => rfl
    | some fs => cases hl : load b fs <;> simp [hl]

theorem htmlView_unc (V : Variant) (src : Src) (l v : Name) :
    htmlView V src false l v St.init = (freshH (specView src l v), St.init) := by
  unfold htmlView
  simp only
  rw [htmlLayout_unc]
  unfold specView freshH
  simp only [St.init]
  cases specLayout src l with
  | none => rfl
  | some b =>
    simp only [Option.map_some, clone_pristine]
    cases hl : load b ((src.view v).getD []) <;> simp [hl]

theorem textBase_unc (src : Src) : textBase src false St.init = (freshT (specBase src), St.init) := by
  unfold textBase specBase freshT
  simp only [St.init]
  cases src.helpers with
  | none => rfl
  | some fs => cases hl : load TSet.empty fs <;> simp [hl]

theorem textLayout_unc (src : Src) (n : Name) :
    textLayout src false n St.init = (freshT (specLayout src n), St.init) := by
  unfold textLayout
  rw [textBase_unc]
  unfold specLayout freshT
  simp only [St.init]
  cases specBase src with
  | none => rfl
  | some b =>
    simp only [Option.map_some, clone_text]
    cases src.layout n with
    | none => rfl
    | some fs => cases hl : load b fs <;> simp [hl]

theorem textView_unc (V : Variant) (src : Src) (l v : Name) :
    textView V src false l v St.init = (freshT (specView src l v), St.init) := by
  unfold textView
  simp only
  rw [textLayout_unc]
  unfold specView freshT
  simp only [St.init]
  cases specLayout src l with
  | none => rfl
  | some b =>
    simp only [Option.map_some, clone_text]
    cases src.view v with
    | none => simp [load]
    | some fs => cases hl : load b fs <;> simp [hl]

theorem step_unc (V : Variant) (k : Kind) (src : Src) (r : Req) :
    step V k src false St.init r = (specAns src r, St.init) := by
  cases k with
  | html =>
    unfold step
    simp only
    cases r with
    | base e =>
      simp only [htmlCall, specAns, htmlBase_unc, freshH]
      cases specBase src <;> simp [markExec]
    | layout l e =>
      simp only [htmlCall, specAns, htmlLayout_unc, freshH]
      cases specLayout src (normL l) <;> simp [markExec]
    | view l v e =>
      simp only [htmlCall, specAns]
      by_cases hv : v = []
      · simp [hv]
      · simp only [hv, if_false, htmlView_unc, freshH]
        cases specView src (normL l) v <;> simp [markExec]
  | text =>
    unfold step
    simp only
    cases r with
    | base e =>
      simp only [textCall, specAns, textBase_unc, freshT]
      cases specBase src <;> simp
    | layout l e =>
      simp only [textCall, specAns, textLayout_unc, freshT]
      cases specLayout src (normL l) <;> simp
    | view l v e =>
      simp only [textCall, specAns]
      by_cases hv : v = []
      · simp [hv]
      · simp only [hv, if_false, textView_unc, freshT]
        cases specView src (normL l) v <;> simp

theorem runFrom_unc (V : Variant) (k : Kind) (src : Src) (reqs : List Req) :
    runFrom V k src false St.init reqs = reqs.map (specAns src) := by
  induction reqs with
  | nil => rfl
  | cons r rs ih => simp only [runFrom, step_unc, List.map_cons, ih]

end Goat.Tmpl
