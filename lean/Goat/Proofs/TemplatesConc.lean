/-
Helper lemmas for C19, concurrent part: mutual exclusion in the guarded cache-map protocol.
`Excl`: at most one goroutine is in the write-locked section, and none holds the read lock then.
-/
import Goat.Model.Templates

namespace Goat.Tmpl

def Excl (pcs : List PC) : Prop :=
  ∀ (i j : Nat) (p q : PC), pcs[i]? = some p → pcs[j]? = some q →
    (p.inW = true → q.inW = true → i = j) ∧ (p.inW = true → q.inR = true → False)

theorem getElem?_set_cases {l : List PC} {i j : Nat} {a q : PC} (h : (l.set i a)[j]? = some q) :
    (j = i ∧ q = a) ∨ (j ≠ i ∧ l[j]? = some q) := by
  by_cases hij : i = j
  · subst hij
    left
    rw [List.getElem?_set_self'] at h
    cases hl : l[i]? with
    | none => simp [hl] at h
    | some x => simp [hl] at h; exact ⟨rfl, h.symm⟩
  · right
    rw [List.getElem?_set_ne hij] at h
    exact ⟨fun e => hij e.symm, h⟩

theorem inW_not_inR (p : PC) : p.inW = true → p.inR = true → False := by
  cases p <;> simp [PC.inW, PC.inR]

/-- moving inside a lock class, or leaving it, keeps exclusion -/
theorem excl_set_mono {pcs : List PC} {i : Nat} {p p' : PC} (h : Excl pcs) (hi : pcs[i]? = some p)
    (hw : p'.inW = true → p.inW = true) (hr : p'.inR = true → p.inR = true) :
    Excl (pcs.set i p') := by
  intro a b x y ha hb
  rcases getElem?_set_cases ha with ⟨ea, ex⟩ | ⟨na, ha'⟩ <;>
  rcases getElem?_set_cases hb with ⟨eb, ey⟩ | ⟨nb, hb'⟩
  · subst ea; subst eb; subst ex; subst ey
    exact ⟨fun _ _ => rfl, fun a b => inW_not_inR _ a b⟩
  · subst ea; subst ex
    exact ⟨fun a b => (h _ _ _ _ hi hb').1 (hw a) b, fun a b => (h _ _ _ _ hi hb').2 (hw a) b⟩
  · subst eb; subst ey
    exact ⟨fun a b => (h _ _ _ _ ha' hi).1 a (hw b), fun a b => (h _ _ _ _ ha' hi).2 a (hr b)⟩
  · exact h _ _ _ _ ha' hb'

theorem all_of_getElem? {pcs : List PC} {f : PC → Bool} (h : pcs.all f = true) {j : Nat} {q : PC}
    (hj : pcs[j]? = some q) : f q = true := by
  rw [List.all_eq_true] at h
  exact h q (List.mem_of_getElem? hj)

/-- taking the read lock: nobody is in the write-locked section -/
theorem excl_rlock {pcs : List PC} {i : Nat} {p' : PC}
    (hall : pcs.all (fun p => !p.inW) = true) (hw : p'.inW = false) :
    Excl (pcs.set i p') := by
  intro a b x y ha hb
  have nw : ∀ {j : Nat} {q : PC}, pcs[j]? = some q → q.inW = false := by
    intro j q hq
    have := all_of_getElem? hall hq
    simpa using this
  rcases getElem?_set_cases ha with ⟨ea, ex⟩ | ⟨na, ha'⟩
  · subst ex
    exact ⟨fun a => by simp [hw] at a, fun a => by simp [hw] at a⟩
  · exact ⟨fun a => by simp [nw ha'] at a, fun a => by simp [nw ha'] at a⟩

/-- taking the write lock: nobody else holds anything -/
theorem excl_lock {pcs : List PC} {i : Nat} {p' : PC} (hall : pcs.all (fun p => !p.inW && !p.inR) = true) :
    Excl (pcs.set i p') := by
  intro a b x y ha hb
  have nn : ∀ {j : Nat} {q : PC}, pcs[j]? = some q → q.inW = false ∧ q.inR = false := by
    intro j q hq
    have := all_of_getElem? hall hq
    simpa using this
  rcases getElem?_set_cases ha with ⟨ea, ex⟩ | ⟨na, ha'⟩ <;>
  rcases getElem?_set_cases hb with ⟨eb, ey⟩ | ⟨nb, hb'⟩
  · subst ea; subst eb; subst ex; subst ey
    exact ⟨fun _ _ => rfl, fun a b => inW_not_inR _ a b⟩
  · exact ⟨fun _ b => by simp [(nn hb').1] at b, fun _ b => by simp [(nn hb').2] at b⟩
  · exact ⟨fun a _ => by simp [(nn ha').1] at a, fun a _ => by simp [(nn ha').1] at a⟩
  · exact ⟨fun a _ => by simp [(nn ha').1] at a, fun a _ => by simp [(nn ha').1] at a⟩

/-- a goroutine that holds a lock and is not itself writing sees no write in progress -/
theorem not_midWrite {s : Sys} {i : Nat} {p : PC} (h : Excl s.pcs) (hi : s.pcs[i]? = some p)
    (hp : p.inR = true ∨ (p.inW = true ∧ p ≠ PC.writing)) : s.midWrite = false := by
  cases hm : s.midWrite with
  | false => rfl
  | true =>
    exfalso
    unfold Sys.midWrite at hm
    rw [List.any_eq_true] at hm
    obtain ⟨q, hq, hqe⟩ := hm
    have hqw : q = PC.writing := by simpa using hqe
    subst hqw
    obtain ⟨j, hj⟩ := List.getElem?_of_mem hq
    rcases hp with hr | ⟨hw, hne⟩
    · exact (h j i _ _ hj hi).2 rfl hr
    · have := (h j i _ _ hj hi).1 rfl hw
      subst this
      rw [hi] at hj
      exact hne (Option.some.inj hj)

def SysInv (s : Sys) : Prop := s.fatal = false ∧ Excl s.pcs

theorem sysInv_init (n : Nat) : SysInv (Sys.init n) := by
  refine ⟨rfl, ?_⟩
  intro i j p q hi hj
  have hp : p = PC.idle := by
    have := List.mem_of_getElem? hi
    simp [Sys.init] at this
    exact this.2
  subst hp
  exact ⟨fun a => by simp [PC.inW] at a, fun a => by simp [PC.inW] at a⟩

theorem sysInv_step (cached : Bool) {s : Sys} (i : Nat) (h : SysInv s) :
    SysInv (Sys.step true cached s i) := by
  obtain ⟨hf, hx⟩ := h
  unfold Sys.step
  simp only [hf, Bool.false_eq_true, if_false, if_true]
  cases hi : s.pcs[i]? with
  | none => exact ⟨hf, hx⟩
  | some p =>
    cases p with
    | idle =>
      dsimp only
      by_cases hc : s.canRLock = true
      · simp only [hc, if_true]
        exact ⟨hf, excl_rlock hc rfl⟩
      · simp only [hc]
        exact ⟨hf, hx⟩
    | rlocked =>
      dsimp only
      rw [not_midWrite hx hi (Or.inl rfl)]
      exact ⟨hf, excl_set_mono hx hi (by simp [PC.inW]) (by simp [PC.inR])⟩
    | rread hit =>
      dsimp only
      refine ⟨hf, excl_set_mono hx hi ?_ ?_⟩ <;> cases hit <;> simp [PC.inW, PC.inR]
    | wantW =>
      dsimp only
      by_cases hc : s.canLock = true
      · simp only [hc, if_true]
        exact ⟨hf, excl_lock hc⟩
      · simp only [hc]
        exact ⟨hf, hx⟩
    | wlocked =>
      dsimp only
      rw [not_midWrite hx hi (Or.inr ⟨rfl, by simp⟩)]
      refine ⟨hf, excl_set_mono hx hi ?_ ?_⟩ <;> cases s.filled <;> simp [PC.inW, PC.inR]
    | built =>
      dsimp only
      rw [not_midWrite hx hi (Or.inr ⟨rfl, by simp⟩)]
      cases cached
      · exact ⟨hf, excl_set_mono hx hi (by simp [PC.inW]) (by simp [PC.inR])⟩
      · exact ⟨hf, excl_set_mono hx hi (by simp [PC.inW]) (by simp [PC.inR])⟩
    | writing =>
      dsimp only
      exact ⟨hf, excl_set_mono hx hi (by simp [PC.inW]) (by simp [PC.inR])⟩
    | wrote =>
      dsimp only
      exact ⟨hf, excl_set_mono hx hi (by simp [PC.inW]) (by simp [PC.inR])⟩

theorem sysInv_run (cached : Bool) (sched : List Nat) :
    ∀ {s : Sys}, SysInv s → SysInv (Sys.run true cached s sched) := by
  induction sched with
  | nil => intro s h; exact h
  | cons i rest ih =>
    intro s h
    exact ih (sysInv_step cached i h)

/-- the pinned protocol: goroutine 0 gets into the map assignment, goroutine 1 looks up without a lock -/
theorem pinned_fatal (m : Nat) :
    (Sys.run false true (Sys.init (m + 2)) [0, 0, 0, 0, 1]).fatal = true := by
  simp [Sys.run, Sys.init, Sys.step, Sys.setPC, Sys.midWrite, Sys.canLock, List.replicate_succ,
    PC.inW, PC.inR]

end Goat.Tmpl
